(** C19 — soundness of the structure checkers of CertStruct.v: triangle counts, k-core numbers,
    bridges, articulation points. *)
From Coq Require Import ZArith List Bool Lia Relations Permutation.
From GV Require Import Algo.Cert Algo.CertStruct Algo.ProofsBase.
Import ListNotations.
Open Scope Z_scope.

Ltac split_and H H' := apply andb_true_iff in H; destruct H as [H H'].
Lemma if_and : forall a b : bool, (if a then b else false) = true <-> a = true /\ b = true.
Proof. intros [|] [|]; cbn; tauto. Qed.

(** * the undirected simple view *)
Lemma joinedb_spec : forall g u v, joinedb g u v = true <-> joined g u v.
Proof.
  intros g u v. unfold joinedb, joined. rewrite existsb_exists. split.
  - intros [e [He H]]. exists e. split; [assumption|]. apply orb_true_iff in H. destruct H as [H|H]; apply andb_true_iff in H; destruct H as [A B]; apply Z.eqb_eq in A, B; auto.
  - intros [e [He H]]. exists e. split; [assumption|]. apply orb_true_iff. destruct H as [[A B]|[A B]]; [left|right]; apply andb_true_iff; split; apply Z.eqb_eq; assumption.
Qed.
Lemma adjb_spec : forall g u v, adjb g u v = true <-> adjacent g u v.
Proof.
  intros g u v. unfold adjb, adjacent. rewrite andb_true_iff, negb_true_iff, Z.eqb_neq, joinedb_spec. reflexivity.
Qed.
Lemma joined_sym : forall g u v, joined g u v -> joined g v u.
Proof. intros g u v [e [He H]]. exists e. split; [assumption|]. destruct H; auto. Qed.
Lemma adjacent_sym : forall g u v, adjacent g u v -> adjacent g v u.
Proof. intros g u v [A B]. split; [auto|apply joined_sym; assumption]. Qed.
Lemma joined_nodes : forall g u v, wf g -> joined g u v -> In u (nodes g) /\ In v (nodes g).
Proof. intros g u v [_ [_ W]] [e [He H]]. destruct (W e He) as [A B]. destruct H as [[<- <-]|[<- <-]]; auto. Qed.
Lemma nbrs_In : forall g v u, wf g -> (In u (nbrs g v) <-> adjacent g v u).
Proof.
  intros g v u Hwf. unfold nbrs. rewrite filter_In, adjb_spec. split; [tauto|]. intro A. split; [|assumption].
  destruct A as [_ J]. apply (joined_nodes g v u Hwf J).
Qed.
Lemma nbrs_NoDup : forall g v, wf g -> NoDup (nbrs g v).
Proof. intros g v [N _]. apply NoDup_filter. assumption. Qed.

Lemma NoDup_app_intro : forall (A : Type) (a b : list A), NoDup a -> NoDup b -> (forall x, In x a -> ~ In x b) -> NoDup (a ++ b).
Proof.
  intros A a b Ha Hb H. induction Ha as [|x a Hx Ha IH]; [assumption|]. cbn [app]. constructor.
  - rewrite in_app_iff. intros [X|X]; [contradiction|]. apply (H x); [left; reflexivity|assumption].
  - apply IH. intros y Hy. apply H. right. assumption.
Qed.
Lemma NoDup_map_inj : forall (A B : Type) (f : A -> B) (l : list A), (forall x y, f x = f y -> x = y) -> NoDup l -> NoDup (map f l).
Proof.
  intros A B f l Hinj Hl. induction Hl as [|x l Hx Hl IH]; cbn [map]; constructor; [|assumption].
  rewrite in_map_iff. intros [y [E Hy]]. apply Hinj in E. subst. contradiction.
Qed.
Lemma NoDup_list_prod : forall (A B : Type) (l : list A) (l' : list B), NoDup l -> NoDup l' -> NoDup (list_prod l l').
Proof.
  intros A B l l' Hl Hl'. induction Hl as [|x l Hx Hl IH]; cbn [list_prod]; [constructor|].
  apply NoDup_app_intro; [|assumption|].
  - apply NoDup_map_inj; [|assumption]. intros a b E. inversion E. reflexivity.
  - intros [a b] H1 H2. apply in_map_iff in H1. destruct H1 as [y [E _]]. inversion E. subst a b. apply in_prod_iff in H2. destruct H2. contradiction.
Qed.

Lemma counts_filter : forall (A : Type) (f : A -> bool) (U : list A) (P : A -> Prop),
  NoDup U -> (forall x, P x <-> In x U /\ f x = true) -> counts P (Z.of_nat (length (filter f U))).
Proof.
  intros A f U P Hnd H. exists (filter f U). split; [apply NoDup_filter; assumption|]. split; [|reflexivity].
  intro x. rewrite filter_In. symmetry. apply H.
Qed.
(** the count is determined by the predicate *)
Lemma counts_unique : forall (A : Type) (P : A -> Prop) c1 c2, counts P c1 -> counts P c2 -> c1 = c2.
Proof.
  intros A P c1 c2 [l1 [N1 [H1 <-]]] [l2 [N2 [H2 <-]]].
  assert (L1 : (length l1 <= length l2)%nat) by (apply NoDup_incl_length; [assumption|]; intros x Hx; apply H2, H1; assumption).
  assert (L2 : (length l2 <= length l1)%nat) by (apply NoDup_incl_length; [assumption|]; intros x Hx; apply H1, H2; assumption).
  lia.
Qed.

(** * triangles *)
Lemma tri_count_ok : forall g v, wf g -> tri_count_spec g v (tri_count g v).
Proof.
  intros g v Hwf. unfold tri_count_spec, tri_count, tri_pairs. cbv zeta. apply counts_filter.
  - apply NoDup_list_prod; apply nbrs_NoDup; assumption.
  - intros [a b]. unfold tri_at. cbn [fst snd]. rewrite in_prod_iff, !nbrs_In by assumption.
    rewrite if_and, Z.ltb_lt, adjb_spec. tauto.
Qed.
Lemma tri_total_ok : forall g, wf g -> tri_total_spec g (tri_total g).
Proof.
  intros g Hwf. unfold tri_total_spec, tri_total, tri_triples. apply counts_filter.
  - destruct Hwf as [N _]. repeat apply NoDup_list_prod; assumption.
  - intros [[a b] c]. cbn [fst snd]. rewrite !in_prod_iff, !if_and, !Z.ltb_lt, !adjb_spec. split; [|tauto].
    intros [H1 [H2 [A1 [A2 A3]]]]. split; [|tauto].
    destruct A1 as [_ J1]. destruct A2 as [_ J2]. destruct (joined_nodes g a b Hwf J1). destruct (joined_nodes g b c Hwf J2). tauto.
Qed.
Theorem tri_cert_sound_l : forall g tc total, tri_cert g tc total = true ->
  (forall v, In v (nodes g) -> exists c, lookup tc v = Some c /\ tri_count_spec g v c) /\ tri_total_spec g total.
Proof.
  intros g tc total H. unfold tri_cert in H. split_and H H0. split_and H H1. split_and H H2.
  apply wfb_wf in H. rename H into Hwf. split.
  - intros v Hv. rewrite forallb_forall in H1. specialize (H1 v Hv). apply oz_eqb_eq in H1. exists (tri_count g v). split; [assumption|].
    apply tri_count_ok. assumption.
  - apply Z.eqb_eq in H0. subst total. apply tri_total_ok. assumption.
Qed.
Lemma degree_ok : forall g v, wf g -> degree_spec g v (degree g v).
Proof.
  intros g v Hwf. exists (nbrs g v). split; [apply nbrs_NoDup; assumption|]. split; [|reflexivity]. intro x. apply nbrs_In. assumption.
Qed.

(** * k-core *)
Lemma jnbrs_In : forall g v u, wf g -> (In u (jnbrs g v) <-> joined g v u).
Proof.
  intros g v u Hwf. unfold jnbrs. rewrite filter_In, joinedb_spec. split; [tauto|]. intro J. split; [|assumption].
  apply (joined_nodes g v u Hwf J).
Qed.
Lemma jnbrs_NoDup : forall g v, wf g -> NoDup (jnbrs g v).
Proof. intros g v [N _]. apply NoDup_filter. assumption. Qed.

Section Core.
  Variables (g : graph) (k : Z).
  Hypothesis Hwf : wf g.

  Lemma dense_deg : forall S alive v, dense g k S -> incl S alive -> In v S -> k <= deg_in g alive v.
  Proof.
    intros S alive v [HS D] Hinc Hv. destruct (D v Hv) as [l [Nl [Il [Jl Kl]]]]. unfold deg_in.
    assert (L : (length l <= length (filter (fun u => memb u alive) (jnbrs g v)))%nat).
    { apply NoDup_incl_length; [assumption|]. intros u Hu. apply filter_In. split.
      - apply jnbrs_In; [assumption|]. apply Jl. assumption.
      - apply memb_In. apply Hinc. apply Il. assumption. }
    lia.
  Qed.
  Lemma peel_super : forall S, dense g k S -> forall fuel alive, incl S alive -> incl S (peel g k fuel alive).
  Proof.
    intros S HS. induction fuel as [|f IH]; intros alive Hinc; cbn [peel]; [assumption|]. cbv zeta.
    destruct (Nat.eqb _ _); [assumption|]. apply IH. intros v Hv. apply filter_In. split; [apply Hinc; assumption|].
    apply Z.leb_le. apply (dense_deg S alive v HS Hinc Hv).
  Qed.
  Lemma peel_sub : forall fuel alive, incl (peel g k fuel alive) alive.
  Proof.
    induction fuel as [|f IH]; intros alive; cbn [peel]; [apply incl_refl|]. cbv zeta.
    destruct (Nat.eqb _ _); [apply incl_refl|]. intros v Hv. apply IH in Hv. apply filter_In in Hv. tauto.
  Qed.
  Lemma stable_dense : forall A, incl A (nodes g) -> stableb g k A = true -> dense g k A.
  Proof.
    intros A HA St. split; [assumption|]. intros v Hv. unfold stableb in St. rewrite forallb_forall in St. specialize (St v Hv).
    apply Z.leb_le in St. unfold deg_in in St. exists (filter (fun u => memb u A) (jnbrs g v)). split; [|split; [|split]].
    - apply NoDup_filter. apply jnbrs_NoDup. assumption.
    - intros u Hu. apply filter_In in Hu. apply memb_In. tauto.
    - intros u Hu. apply filter_In in Hu. apply jnbrs_In; tauto.
    - assumption.
  Qed.
  Lemma kcore_of_spec : forall A, kcore_of g k = Some A -> forall v, In v A <-> exists S, dense g k S /\ In v S.
  Proof.
    intros A H v. unfold kcore_of in H. cbv zeta in H. destruct (stableb g k _) eqn:St; [|discriminate]. inversion H. subst A. clear H.
    split.
    - intro Hv. exists (peel g k (length (nodes g)) (nodes g)). split; [|assumption]. apply stable_dense; [apply peel_sub|assumption].
    - intros [S [HS Hv]]. apply (peel_super S HS); [|assumption]. destruct HS. assumption.
  Qed.
End Core.

Lemma dense_mono : forall g k k' S, k' <= k -> dense g k S -> dense g k' S.
Proof.
  intros g k k' S Hle [HS D]. split; [assumption|]. intros v Hv. destruct (D v Hv) as [l [A [B [C E]]]]. exists l. repeat split; try assumption. lia.
Qed.

Lemma in_core_spec : forall g ks k v b, in_core (map (fun k => (k, kcore_of g k)) ks) k v = Some b ->
  exists A, kcore_of g k = Some A /\ b = memb v A.
Proof.
  intros g ks k v b H. unfold in_core in H.
  destruct (find (fun p => fst p =? k) (map (fun k0 => (k0, kcore_of g k0)) ks)) as [[k' oA]|] eqn:F; [|discriminate].
  destruct oA as [A|]; [|discriminate]. inversion H. subst b. apply find_some in F. destruct F as [Hin E]. cbn [fst] in E. apply Z.eqb_eq in E. subst k'.
  apply in_map_iff in Hin. destruct Hin as [k0 [E _]]. inversion E. subst k0. exists A. split; [assumption|reflexivity].
Qed.

Theorem kcore_cert_sound_l : forall g c maxc, kcore_cert g c maxc = true ->
  (forall v, In v (nodes g) -> exists k, lookup c v = Some k /\ core_spec g v k /\ k <= maxc) /\
  (nodes g <> [] -> exists v, In v (nodes g) /\ lookup c v = Some maxc).
Proof.
  intros g c maxc H. unfold kcore_cert in H. cbv zeta in H. split_and H H0. split_and H H1. split_and H H2.
  apply wfb_wf in H. rename H into Hwf. split.
  - intros v Hv. rewrite forallb_forall in H1. specialize (H1 v Hv). destruct (lookup c v) as [k|]; [|discriminate].
    exists k. split; [reflexivity|]. apply andb_true_iff in H1. destruct H1 as [H1 H3]. apply andb_true_iff in H1. destruct H1 as [_ H1].
    apply Z.leb_le in H1. split; [|assumption].
    destruct (in_core _ k v) as [[|]|] eqn:I1; try discriminate. destruct (in_core _ (k + 1) v) as [[|]|] eqn:I2; try discriminate.
    apply in_core_spec in I1, I2. destruct I1 as [A1 [K1 M1]]. destruct I2 as [A2 [K2 M2]]. split.
    + apply (kcore_of_spec g k Hwf A1 K1 v). apply memb_In. auto.
    + intros S HS Hin. symmetry in M2. apply memb_false in M2. apply M2. apply (kcore_of_spec g (k + 1) Hwf A2 K2 v). exists S. auto.
  - intro Hne. destruct (nodes g) as [|x r] eqn:E; [congruence|]. rewrite <- E in *. apply existsb_exists in H0. destruct H0 as [v [Hv Hl]].
    exists v. split; [assumption|]. apply oz_eqb_eq. assumption.
Qed.

Theorem kcore_list_cert_sound_l : forall g c k l, kcore_list_cert g c k l = true ->
  NoDup l /\ forall v, In v l <-> In v (nodes g) /\ exists x, lookup c v = Some x /\ k <= x.
Proof.
  intros g c k l H. unfold kcore_list_cert in H. split_and H H0. split; [apply nodupb_NoDup; assumption|].
  intro v. rewrite (same_set_iff _ _ H0 v). rewrite filter_In. split.
  - intros [Hv Hk]. split; [assumption|]. destruct (lookup c v) as [x|]; [|discriminate]. exists x. split; [reflexivity|]. apply Z.leb_le. assumption.
  - intros [Hv [x [Hx Hk]]]. split; [assumption|]. rewrite Hx. apply Z.leb_le. assumption.
Qed.

(** * bridges *)
Lemma without_pair_sym : forall E a b, without_pair E a b = without_pair E b a.
Proof. intros E a b. unfold without_pair. apply filter_ext. intro e. rewrite orb_comm. reflexivity. Qed.
Lemma bridge_sym : forall g a b, bridge g a b -> bridge g b a.
Proof.
  intros g a b [A U]. split; [apply adjacent_sym; assumption|]. rewrite without_pair_sym. intro X. apply U. apply uconn_sym. assumption.
Qed.
Lemma is_bridgeb_spec : forall g a b c, is_bridgeb g a b = Some c -> (c = true <-> bridge g a b).
Proof.
  intros g a b c H. unfold is_bridgeb in H. destruct (adjb g a b) eqn:A.
  - apply adjb_spec in A. destruct (uconnb _ _ a b) as [[|]|] eqn:U; inversion H; subst c; cbn [negb].
    + apply uconnb_true in U. split; [discriminate|]. intros [_ X]. contradiction.
    + apply uconnb_false in U. split; [|reflexivity]. intros _. split; assumption.
  - inversion H. subst c. split; [discriminate|]. intros [X _]. apply adjb_spec in X. congruence.
Qed.
Lemma pair_memb_In : forall a b l, pair_memb a b l = true <-> In (a, b) l.
Proof.
  intros a b l. unfold pair_memb. rewrite existsb_exists. split.
  - intros [[x y] [Hin H]]. cbn [fst snd] in H. apply andb_true_iff in H. destruct H as [A B]. apply Z.eqb_eq in A, B. subst. assumption.
  - intro H. exists (a, b). split; [assumption|]. cbn [fst snd]. rewrite !Z.eqb_refl. reflexivity.
Qed.
Lemma pairs_nodupb_NoDup : forall l, pairs_nodupb l = true -> NoDup l.
Proof.
  induction l as [|[a b] r IH]; intro H; [constructor|]. cbn [pairs_nodupb fst snd] in H. apply andb_true_iff in H. destruct H as [A B].
  constructor; [|apply IH; assumption]. intro X. apply pair_memb_In in X. rewrite X in A. discriminate.
Qed.
Theorem bridges_cert_sound_l : forall g l, bridges_cert g l = true -> bridges_spec g l.
Proof.
  intros g l H. unfold bridges_cert in H. split_and H H0. split_and H H1. split_and H H2. split_and H H3.
  apply wfb_wf in H. rename H into Hwf. rewrite forallb_forall in H0, H1, H2. split; [apply pairs_nodupb_NoDup; assumption|]. split.
  - intros a b Hin X. specialize (H2 _ Hin). cbn [fst snd] in H2. apply negb_true_iff in H2. apply pair_memb_In in X. congruence.
  - intros a b. split.
    + intro B. assert (N : In a (nodes g) /\ In b (nodes g)) by (destruct B as [[_ J] _]; apply (joined_nodes g a b Hwf J)).
      destruct N as [Na Nb]. specialize (H0 a Na). rewrite forallb_forall in H0. specialize (H0 b Nb).
      destruct (is_bridgeb g a b) as [[|]|] eqn:I; [| |discriminate].
      * apply orb_true_iff in H0. destruct H0 as [X|X]; apply pair_memb_In in X; auto.
      * apply is_bridgeb_spec in I. apply I in B. discriminate.
    + assert (Hb : forall x y, In (x, y) l -> bridge g x y).
      { intros x y Hin. specialize (H1 _ Hin). cbn [fst snd] in H1. destruct (is_bridgeb g x y) as [[|]|] eqn:I; try discriminate.
        apply (is_bridgeb_spec g x y true I). reflexivity. }
      intros [X|X]; [apply Hb; assumption|apply bridge_sym; apply Hb; assumption].
Qed.

(** * articulation points *)
Lemma reach_uconn : forall E fuel a R b, reach_ok (uadj E) fuel a = Some R -> (memb b R = true <-> uconn E a b).
Proof.
  intros E fuel a R b H. assert (U : uconnb E fuel a b = Some (memb b R)) by (unfold uconnb; rewrite H; reflexivity).
  destruct (memb b R) eqn:M.
  - split; [intros _; apply (uconnb_true E fuel a b U)|reflexivity].
  - split; [discriminate|]. intro X. exfalso. apply (uconnb_false E fuel a b U X).
Qed.
Lemma cut_scan : forall E E' n (others L : list Z) c,
  fold_right (fun a acc =>
      match acc, reach_ok (uadj E) n a, reach_ok (uadj E') n a with
      | Some r, Some R, Some R' => Some (r || existsb (fun b => memb b R && negb (memb b R')) others)
      | _, _, _ => None
      end) (Some false) L = Some c ->
  (c = true <-> exists a b, In a L /\ In b others /\ uconn E a b /\ ~ uconn E' a b).
Proof.
  intros E E' n others. induction L as [|a L IH]; intros c H; cbn [fold_right] in H.
  - inversion H. split; [discriminate|]. intros [a [b [[] _]]].
  - destruct (fold_right _ _ L) as [r|] eqn:F; [|discriminate]. destruct (reach_ok (uadj E) n a) as [R|] eqn:R1; [|discriminate].
    destruct (reach_ok (uadj E') n a) as [R'|] eqn:R2; [|discriminate]. inversion H. subst c. clear H. specialize (IH r eq_refl).
    rewrite orb_true_iff, IH, existsb_exists. split.
    + intros [[x [b [Hx Y]]]|[b [Hb Y]]].
      * exists x, b. split; [right; assumption|assumption].
      * exists a, b. split; [left; reflexivity|]. split; [assumption|]. apply andb_true_iff in Y. destruct Y as [Y1 Y2].
        apply negb_true_iff in Y2. split; [apply (reach_uconn E n a R b R1); assumption|].
        intro X. apply (reach_uconn E' n a R' b R2) in X. congruence.
    + intros [x [b [[<-|Hx] [Hb [U1 U2]]]]].
      * right. exists b. split; [assumption|]. apply andb_true_iff. split; [apply (reach_uconn E n a R b R1); assumption|].
        apply negb_true_iff. destruct (memb b R') eqn:M; [|reflexivity]. exfalso. apply U2. apply (reach_uconn E' n a R' b R2). assumption.
      * left. exists x, b. auto.
Qed.
Lemma is_cutb_spec : forall g v c, In v (nodes g) -> is_cutb g v = Some c -> (c = true <-> cut_vertex g v).
Proof.
  intros g v c Hv H. unfold is_cutb in H. cbv zeta in H. apply cut_scan in H. rewrite H. unfold cut_vertex. split.
  - intros [a [b [Ha [Hb [U1 U2]]]]]. apply filter_In in Ha, Hb. destruct Ha as [Ha Na], Hb as [Hb Nb].
    apply negb_true_iff in Na, Nb. apply Z.eqb_neq in Na, Nb. split; [assumption|]. exists a, b. tauto.
  - intros [_ [a [b [Ha [Hb [Na [Nb [U1 U2]]]]]]]]. exists a, b. split; [|split; [|tauto]]; apply filter_In; split; try assumption;
      apply negb_true_iff; apply Z.eqb_neq; assumption.
Qed.
Theorem artic_cert_sound_l : forall g l, artic_cert g l = true -> artic_spec g l.
Proof.
  intros g l H. unfold artic_cert in H. split_and H H0. split_and H H1. split_and H H2.
  rewrite forallb_forall in H0, H1. split; [apply nodupb_NoDup; assumption|]. intro v. split.
  - intro Hin. assert (Hv : In v (nodes g)) by (apply memb_In; apply H1; assumption). specialize (H0 v Hv).
    destruct (is_cutb g v) as [c|] eqn:I; [|discriminate]. apply (is_cutb_spec g v c Hv I). apply eqb_prop in H0. rewrite H0. apply memb_In. assumption.
  - intro C. assert (Hv : In v (nodes g)) by (destruct C; assumption). specialize (H0 v Hv).
    destruct (is_cutb g v) as [c|] eqn:I; [|discriminate]. apply (is_cutb_spec g v c Hv I) in C. subst c. apply eqb_prop in H0. apply memb_In. auto.
Qed.
