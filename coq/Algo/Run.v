(** C19 — what the check evaluates: the certificate checkers applied to the implementation's
    outputs ([c_*], the decision), the finding classes ([k_*]). *)
From Coq Require Import ZArith List Bool.
From GV Require Export Algo.Cert Algo.CertStruct Algo.Model Algo.ModelPr.
Import ListNotations.
Open Scope Z_scope.

(** the graph the algorithms see: a missing or non-numeric weight property counts as 1
    ([extract_weight] in shortest_path.rs / mst.rs, [extract_capacity] in flow.rs) *)
Definition mkg (ns : list Z) (es : list (Z * Z * Z * option Z)) : graph :=
  mkG ns (map (fun x => match x with (s, d, i, w) => mkE s d i (match w with Some z => z | None => 1 end) end) es).

Definition c_sssp := sssp_cert.
Definition c_pred := pred_cert.
Definition c_pair (g : graph) (s t : Z) d paths ans : bool := memb t (nodes g) && pair_cert g s t d paths ans.
Definition c_bf := bf_cert.
Definition c_fw := apsp_cert.
Definition c_reach := reach_cert.
Definition c_layers := layers_cert.
Definition c_perm := perm_cert.
Definition c_wcc (g : graph) lab (cnt : Z) : bool := wcc_cert g lab && count_ok lab cnt.
Definition c_scc (g : graph) lab (cnt : Z) : bool := scc_cert g lab && count_ok lab cnt.
Definition c_topo (g : graph) (ans : option (list Z)) (isdag : bool) : bool :=
  topo_cert g ans && Bool.eqb isdag (is_some ans).

(** an MST result edge (src, dst, id, weight) is resolved to the graph's edge with that id; the
    endpoints may be reported in either direction, the weight must be the edge's weight *)
Definition resolve (g : graph) (x : Z * Z * Z * Z) : option edge :=
  match x with (s, d, i, w) =>
    match find (fun e => eid e =? i) (edges g) with
    | Some e => if (((esrc e =? s) && (edst e =? d)) || ((esrc e =? d) && (edst e =? s))) && (ew e =? w)
                then Some e else None
    | None => None
    end
  end.
Fixpoint resolve_all (g : graph) (l : list (Z * Z * Z * Z)) : option (list edge) :=
  match l with
  | [] => Some []
  | x :: r => match resolve g x, resolve_all g r with Some e, Some t => Some (e :: t) | _, _ => None end
  end.
Definition c_msf (g : graph) (T : list (Z * Z * Z * Z)) (total : Z) : bool :=
  match resolve_all g T with Some T' => msf_cert g T' && (wsum T' =? total) | None => false end.
Definition c_prim (g : graph) (start : Z) (T : list (Z * Z * Z * Z)) (total : Z) : bool :=
  match resolve_all g T with Some T' => prim_cert g start T' && (wsum T' =? total) | None => false end.
Definition c_flow := flow_cert.
Definition c_hops (g : graph) (s t : Z) d paths (ans : option Z) : bool :=
  memb t (nodes g) && sssp_cert g s d paths && oz_eqb (lookup d t) ans.

(** structure algorithms and PageRank (CertStruct.v): the implementation's outputs against the executable specifications *)
Definition c_tri := tri_cert.
Definition c_lcc := lcc_cert.
(** core numbers + max_core of kcore_decomposition(), and the node list of k_core(2) *)
Definition c_kcore (g : graph) (c : list (Z * Z)) (maxc : Z) (k2 : list Z) : bool :=
  kcore_cert g c maxc && kcore_list_cert g c 2 k2.
Definition c_bridges := bridges_cert.
Definition c_artic := artic_cert.
Definition c_pagerank := pr_cert.

(** * finding classes (all five findings are repaired in /repo; the classes are kept for the _pre theorems) *)
(** K1 (Kruskal): two edges join the same pair of distinct nodes (in either direction) with different weights *)
Definition k_parallel_diffw (g : graph) : bool :=
  existsb (fun a => negb (esrc a =? edst a) &&
    existsb (fun b => negb (eid a =? eid b) && negb (ew a =? ew b) &&
                      (((esrc a =? esrc b) && (edst a =? edst b)) || ((esrc a =? edst b) && (edst a =? esrc b))))
            (edges g)) (edges g).
(** K2 (Prim): some non-loop edge has no reverse edge that is at most as heavy *)
Definition k_asym (g : graph) : bool :=
  existsb (fun a => negb (esrc a =? edst a) &&
    negb (existsb (fun b => (esrc b =? edst a) && (edst b =? esrc a) && (ew b <=? ew a)) (edges g))) (edges g).
(** K3 (k-core): the graph has an edge between two distinct nodes *)
Definition k_nonloop_edge (g : graph) : bool := existsb (fun a => negb (esrc a =? edst a)) (edges g).
(** K4 (triangles / clustering): the graph has a self-loop *)
Definition k_selfloop (g : graph) : bool := existsb (fun a => esrc a =? edst a) (edges g).
(** K5 (dfs_all): roots are taken in node order; a later root reaches a node that an earlier tree finished *)
Fixpoint k_dfs_all_loop (g : graph) (roots visited : list Z) : bool :=
  match roots with
  | [] => false
  | r :: rest =>
      if memb r visited then k_dfs_all_loop g rest visited
      else let R := grow (out_adj g) (fuel_of g) [r] in
           existsb (fun v => memb v visited) R || k_dfs_all_loop g rest (R ++ visited)
  end.
Definition k_dfs_all (g : graph) : bool := k_dfs_all_loop g (nodes g) [].

(** * model = implementation (correspondence) *)
Definition maps_eq (ns : list Z) (a b : list (Z * Z)) : bool :=
  forallb (fun v => oz_eqb (lookup a v) (lookup b v)) ns && forallb (fun kv => memb (fst kv) ns) b.
(** Bellman-Ford: distances, predecessors and flag of the transcribed model equal the implementation's
    (the graph's edge list is given in the implementation's enumeration order) *)
Definition chk_bf (g : graph) (s : Z) (d pred : list (Z * Z)) (flag : bool) : bool :=
  match bf_model g s with
  | (md, mp, mf) => Bool.eqb mf flag && maps_eq (nodes g) md d && maps_eq (nodes g) mp pred
  end.
Definition show_bf (g : graph) (s : Z) := bf_model g s.
(** bfs / dfs visit exactly the model's closure *)
Definition chk_reach (g : graph) (s : Z) (l : list Z) : bool := same_set l (reach_model g s).
(** Kruskal as implemented: the chosen edge ids, in order, and the total weight *)
Fixpoint zlist_eqb (a b : list Z) : bool :=
  match a, b with [] , [] => true | x :: r, y :: t => (x =? y) && zlist_eqb r t | _, _ => false end.
Definition chk_kruskal (g : graph) (ids : list Z) (total : Z) : bool :=
  let T := kruskal_model g in zlist_eqb (map eid T) ids && (wsum T =? total).
Definition show_kruskal (g : graph) := map eid (kruskal_model g).
(** what the code before repair f6a1e05 returned (kept for the _pre_refuted theorem and the seeded self-test) *)
Definition show_kruskal_pre (g : graph) := map eid (kruskal_pre g).
(** Dijkstra as transcribed: the distances of the model equal the implementation's (which of several
    equal-distance heap entries is popped first is not observable in the distances; predecessors may
    differ on ties and are certified separately by [c_pred]).  Fuel: with non-negative weights there
    is at most one push per edge. *)
Definition dij_fuel (g : graph) : nat := 4 * (length (edges g) + 2) * (length (nodes g) + 2).
Definition chk_dijkstra (g : graph) (s : Z) (d : list (Z * Z)) : bool :=
  match dijkstra_model g s (dij_fuel g) with
  | Some st => maps_eq (nodes g) (dd st) d
  | None => false
  end.
Definition show_dijkstra (g : graph) (s : Z) := option_map dd (dijkstra_model g s (dij_fuel g)).
