(** C19 — what the check evaluates: the certificate checkers applied to the implementation's
    outputs ([c_*], the decision), the finding classes ([k_*]). *)
From Coq Require Import ZArith List Bool.
From GV Require Export Algo.Cert.
Import ListNotations.
Open Scope Z_scope.

(** the graph the algorithms see: a missing or non-numeric weight property counts as 1
    ([extract_weight] in shortest_path.rs / mst.rs, [extract_capacity] in flow.rs) *)
Definition mkg (ns : list Z) (es : list (Z * Z * Z * option Z)) : graph :=
  mkG ns (map (fun x => match x with (s, d, i, w) => mkE s d i (match w with Some z => z | None => 1 end) end) es).

Definition c_sssp := sssp_cert.
Definition c_pred := pred_cert.
Definition c_pair (g : graph) (s t : Z) d paths ans : bool := memb t (nodes g) && pair_cert g s t d paths ans.
Definition c_bf := bf_cert.
Definition c_fw := apsp_cert.
Definition c_reach := reach_cert.
Definition c_layers := layers_cert.
Definition c_perm := perm_cert.
Definition c_wcc (g : graph) lab (cnt : Z) : bool := wcc_cert g lab && count_ok lab cnt.
Definition c_scc (g : graph) lab (cnt : Z) : bool := scc_cert g lab && count_ok lab cnt.
Definition c_topo (g : graph) (ans : option (list Z)) (isdag : bool) : bool :=
  topo_cert g ans && Bool.eqb isdag (is_some ans).

(** an MST result edge (src, dst, id, weight) is resolved to the graph's edge with that id; the
    endpoints may be reported in either direction, the weight must be the edge's weight *)
Definition resolve (g : graph) (x : Z * Z * Z * Z) : option edge :=
  match x with (s, d, i, w) =>
    match find (fun e => eid e =? i) (edges g) with
    | Some e => if (((esrc e =? s) && (edst e =? d)) || ((esrc e =? d) && (edst e =? s))) && (ew e =? w)
                then Some e else None
    | None => None
    end
  end.
Fixpoint resolve_all (g : graph) (l : list (Z * Z * Z * Z)) : option (list edge) :=
  match l with
  | [] => Some []
  | x :: r => match resolve g x, resolve_all g r with Some e, Some t => Some (e :: t) | _, _ => None end
  end.
Definition c_msf (g : graph) (T : list (Z * Z * Z * Z)) (total : Z) : bool :=
  match resolve_all g T with Some T' => msf_cert g T' && (wsum T' =? total) | None => false end.
Definition c_prim (g : graph) (start : Z) (T : list (Z * Z * Z * Z)) (total : Z) : bool :=
  match resolve_all g T with Some T' => prim_cert g start T' && (wsum T' =? total) | None => false end.
Definition c_flow := flow_cert.
Definition c_hops (g : graph) (s t : Z) d paths (ans : option Z) : bool :=
  memb t (nodes g) && sssp_cert g s d paths && oz_eqb (lookup d t) ans.

(** * finding classes *)
(** K1 (Kruskal): two edges join the same pair of distinct nodes (in either direction) with different weights *)
Definition k_parallel_diffw (g : graph) : bool :=
  existsb (fun a => negb (esrc a =? edst a) &&
    existsb (fun b => negb (eid a =? eid b) && negb (ew a =? ew b) &&
                      (((esrc a =? esrc b) && (edst a =? edst b)) || ((esrc a =? edst b) && (edst a =? esrc b))))
            (edges g)) (edges g).
(** K2 (Prim): some non-loop edge has no reverse edge that is at most as heavy *)
Definition k_asym (g : graph) : bool :=
  existsb (fun a => negb (esrc a =? edst a) &&
    negb (existsb (fun b => (esrc b =? edst a) && (edst b =? esrc a) && (ew b <=? ew a)) (edges g))) (edges g).
(** K3 (k-core): the graph has an edge between two distinct nodes *)
Definition k_nonloop_edge (g : graph) : bool := existsb (fun a => negb (esrc a =? edst a)) (edges g).
(** K4 (triangles / clustering): the graph has a self-loop *)
Definition k_selfloop (g : graph) : bool := existsb (fun a => esrc a =? edst a) (edges g).
(** K5 (dfs_all): roots are taken in node order; a later root reaches a node that an earlier tree finished *)
Fixpoint k_dfs_all_loop (g : graph) (roots visited : list Z) : bool :=
  match roots with
  | [] => false
  | r :: rest =>
      if memb r visited then k_dfs_all_loop g rest visited
      else let R := grow (out_adj g) (fuel_of g) [r] in
           existsb (fun v => memb v visited) R || k_dfs_all_loop g rest (R ++ visited)
  end.
Definition k_dfs_all (g : graph) : bool := k_dfs_all_loop g (nodes g) [].
