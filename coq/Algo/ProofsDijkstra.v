(** C19 — Dijkstra as transcribed (lazy deletion, re-insertion on strict improvement): whenever the
    loop ends with an empty heap, the distances are the shortest-path distances.  The argument
    does not use the order in which entries are popped, nor the sign of the weights: every finite
    node either still has an entry carrying its current distance in the heap, or all its
    outgoing edges satisfy the triangle inequality. *)
From Coq Require Import ZArith List Bool Lia Relations Permutation.
From GV Require Import Algo.Cert Algo.Model Algo.ProofsBase Algo.ProofsPath Algo.ProofsModel.
Import ListNotations.
Open Scope Z_scope.

Lemma pop_min_spec : forall h m rest, pop_min h = Some (m, rest) ->
  In m h /\ (forall z, In z h -> z = m \/ In z rest) /\ (forall z, In z rest -> In z h).
Proof.
  induction h as [|x r IH]; intros m rest H; [discriminate|]. cbn [pop_min] in H.
  destruct (pop_min r) as [[m' r']|] eqn:P.
  - destruct (IH _ _ eq_refl) as [A [B C]]. destruct (fst x <=? fst m').
    + inversion H; subst. split; [left; reflexivity|]. split; [intros z [Hz|Hz]; auto|intros z Hz; right; assumption].
    + inversion H; subst. split; [right; assumption|]. split.
      * intros z [Hz|Hz]; [right; left; assumption|]. destruct (B z Hz); [left; assumption|right; right; assumption].
      * intros z [Hz|Hz]; [left; assumption|right; apply C; assumption].
  - inversion H; subst. destruct r; [|cbn in P; destruct (pop_min r) as [[? ?]|]; try destruct (_ <=? _); discriminate].
    split; [left; reflexivity|]. split; [intros z [Hz|[]]; left; auto|intros z []].
Qed.

Section Dij.
  Variables (g : graph) (s : Z).

  Definition le_map (d d' : list (Z * Z)) : Prop :=
    forall v y, lookup d v = Some y -> exists y', lookup d' v = Some y' /\ y' <= y.
  Definition tight_out (d : list (Z * Z)) (es : list edge) (x : Z) : Prop :=
    forall e, In e es -> exists dv, lookup d (edst e) = Some dv /\ dv <= x + ew e.
  Definition heap_ok (st : dst) : Prop := forall x v, In (x, v) (dh st) -> exists y, lookup (dd st) v = Some y /\ y <= x.
  (** every finite node has a live heap entry, or its outgoing edges are tight;
      the node being expanded ([node], at distance [dist]) has its first [done] edges tight *)
  Definition covered (st : dst) (node dist : Z) (done : list edge) : Prop :=
    forall v x, lookup (dd st) v = Some x ->
      In (x, v) (dh st) \/ tight_out (dd st) (out_edges g v) x \/ (v = node /\ x = dist /\ tight_out (dd st) done x).
  Definition covered0 (st : dst) : Prop :=
    forall v x, lookup (dd st) v = Some x -> In (x, v) (dh st) \/ tight_out (dd st) (out_edges g v) x.

  Lemma le_map_refl : forall d, le_map d d.
  Proof. intros d v y H. exists y. split; [assumption|lia]. Qed.
  Lemma le_map_trans : forall a b c, le_map a b -> le_map b c -> le_map a c.
  Proof. intros a b c H1 H2 v y H. destruct (H1 v y H) as [y' [A B]]. destruct (H2 v y' A) as [y'' [C D]]. exists y''. split; [assumption|lia]. Qed.
  Lemma tight_le_map : forall d d' es x, le_map d d' -> tight_out d es x -> tight_out d' es x.
  Proof. intros d d' es x L T e He. destruct (T e He) as [dv [A B]]. destruct (L _ _ A) as [y [C D]]. exists y. split; [assumption|lia]. Qed.

  Lemma drelax_cases : forall dist node st e,
    (drelax dist node st e = mkD (upd (dd st) (edst e) (dist + ew e)) (upd (dp st) (edst e) node) ((dist + ew e, edst e) :: dh st)
     /\ forall cur, lookup (dd st) (edst e) = Some cur -> dist + ew e < cur)
    \/ (drelax dist node st e = st /\ exists cur, lookup (dd st) (edst e) = Some cur /\ cur <= dist + ew e).
  Proof.
    intros dist node st e. unfold drelax. cbv zeta. destruct (lookup (dd st) (edst e)) as [cur|] eqn:L.
    - destruct (dist + ew e <? cur) eqn:C.
      + left. split; [reflexivity|]. intros c Hc. inversion Hc. subst c. apply Z.ltb_lt. assumption.
      + right. split; [reflexivity|]. exists cur. split; [reflexivity|]. apply Z.ltb_ge. assumption.
    - left. split; [reflexivity|]. intros c Hc. discriminate.
  Qed.

  Lemma drelax_le_map : forall dist node st e, le_map (dd st) (dd (drelax dist node st e)).
  Proof.
    intros dist node st e. destruct (drelax_cases dist node st e) as [[E Hlt]|[E _]]; rewrite E; [|apply le_map_refl].
    cbn [dd]. intros v y H. rewrite lookup_upd. destruct (edst e =? v) eqn:Ev; [|exists y; split; [assumption|lia]].
    apply Z.eqb_eq in Ev. subst v. specialize (Hlt y H). exists (dist + ew e). split; [reflexivity|lia].
  Qed.

  Lemma drelax_attained : forall dist node st e, In e (edges g) -> esrc e = node ->
    (exists q, walk g s q node /\ wsum q = dist) -> attained g s (dd st) -> attained g s (dd (drelax dist node st e)).
  Proof.
    intros dist node st e He Hsrc [q [Hq Hw]] A. destruct (drelax_cases dist node st e) as [[E _]|[E _]]; rewrite E; [|assumption].
    cbn [dd]. intros v x H. rewrite lookup_upd in H. destruct (edst e =? v) eqn:Ev; [|apply A; assumption].
    apply Z.eqb_eq in Ev. subst v. inversion H. subst x. exists (q ++ [e]). split.
    - apply walk_app with node; [assumption|]. rewrite <- Hsrc. constructor; [assumption|constructor].
    - rewrite wsum_app, wsum_cons. cbn. lia.
  Qed.

  Lemma drelax_src : forall dist node st e, src_le0 s (dd st) -> src_le0 s (dd (drelax dist node st e)).
  Proof.
    intros dist node st e [x [Hx Hle]]. destruct (drelax_le_map dist node st e s x Hx) as [y [A B]]. exists y. split; [assumption|lia].
  Qed.

  Lemma drelax_heap_ok : forall dist node st e, heap_ok st -> heap_ok (drelax dist node st e).
  Proof.
    intros dist node st e H x v Hin. pose proof (drelax_le_map dist node st e) as L.
    destruct (drelax_cases dist node st e) as [[E _]|[E _]]; rewrite E in *; [|apply H; assumption].
    cbn [dh dd] in *. destruct Hin as [Hin|Hin].
    - inversion Hin; subst. exists (dist + ew e). rewrite lookup_upd, Z.eqb_refl. split; [reflexivity|lia].
    - destruct (H x v Hin) as [y [A B]]. destruct (L v y A) as [y' [C D]]. exists y'. split; [assumption|lia].
  Qed.

  (** one relaxation step of the node being expanded *)
  Lemma drelax_covered : forall dist node st e done, esrc e = node ->
    covered st node dist done -> covered (drelax dist node st e) node dist (done ++ [e]).
  Proof.
    intros dist node st e done Hsrc Cv. pose proof (drelax_le_map dist node st e) as L.
    destruct (drelax_cases dist node st e) as [[E _]|[E [cur [Lc Hc]]]]; rewrite E in *.
    - unfold covered in *. cbn [dd dh] in *. intros v x H. rewrite lookup_upd in H. destruct (edst e =? v) eqn:Ev.
      + apply Z.eqb_eq in Ev. subst v. inversion H. subst x. left. left. reflexivity.
      + destruct (Cv v x H) as [A|[A|[A1 [A2 A3]]]].
        * left. right. assumption.
        * right. left. apply (tight_le_map _ _ _ _ L A).
        * right. right. split; [assumption|]. split; [assumption|]. intros e' He'. apply in_app_or in He'. destruct He' as [He'|[<-|[]]].
          -- apply (tight_le_map _ _ _ _ L A3). assumption.
          -- exists (dist + ew e). rewrite lookup_upd, Z.eqb_refl. split; [reflexivity|lia].
    - intros v x H. destruct (Cv v x H) as [A|[A|[A1 [A2 A3]]]]; [left; assumption|right; left; assumption|].
      right. right. split; [assumption|]. split; [assumption|]. intros e' He'. apply in_app_or in He'. destruct He' as [He'|[<-|[]]].
      + apply A3. assumption.
      + exists cur. split; [assumption|lia].
  Qed.

  Definition inv (st : dst) : Prop := attained g s (dd st) /\ src_le0 s (dd st) /\ heap_ok st.

  Lemma fold_drelax : forall dist node, (exists q, walk g s q node /\ wsum q = dist) ->
    forall es st done, (forall e, In e es -> In e (edges g) /\ esrc e = node) ->
    inv st -> covered st node dist done ->
    inv (fold_left (drelax dist node) es st) /\ covered (fold_left (drelax dist node) es st) node dist (done ++ es).
  Proof.
    intros dist node Hq. induction es as [|e r IH]; intros st done Hes I Cv; cbn [fold_left].
    - rewrite app_nil_r. auto.
    - destruct (Hes e (or_introl eq_refl)) as [He Hsrc]. destruct I as [A [B C]].
      destruct (IH (drelax dist node st e) (done ++ [e])) as [I' Cv'].
      + intros x Hx. apply Hes. right. assumption.
      + split; [apply drelax_attained; assumption|]. split; [apply drelax_src; assumption|apply drelax_heap_ok; assumption].
      + apply drelax_covered; assumption.
      + rewrite <- app_assoc in Cv'. auto.
  Qed.

  Lemma dij_loop_inv : forall fuel st st', inv st -> covered0 st -> dij_loop g fuel st = Some st' ->
    inv st' /\ covered0 st' /\ dh st' = [].
  Proof.
    induction fuel as [|f IH]; intros st st' I Cv H; [discriminate|]. cbn [dij_loop] in H.
    destruct (pop_min (dh st)) as [[[dist node] rest]|] eqn:P.
    - destruct (pop_min_spec _ _ _ P) as [Pin [Psub Prest]]. cbn [fst snd] in H. cbv zeta in H.
      destruct I as [A [B C]]. destruct (C dist node Pin) as [y [Ly Hle]]. rewrite Ly in H.
      assert (I1 : inv (mkD (dd st) (dp st) rest)).
      { split; [assumption|]. split; [assumption|]. intros x v Hin. apply C. apply Prest. assumption. }
      destruct (y <? dist) eqn:St.
      + (* stale entry *)
        apply (IH _ _ I1); [|assumption]. intros v x Hl. cbn [dd dh] in Hl |- *. destruct (Cv v x Hl) as [Hin|T]; [|right; assumption].
        destruct (Psub _ Hin) as [E|Hr]; [|left; assumption]. exfalso.
        assert (EE : x = dist /\ v = node) by (inversion E; auto). destruct EE as [E1 E2]. rewrite E1, E2 in Hl.
        rewrite Ly in Hl. inversion Hl. apply Z.ltb_lt in St. lia.
      + (* expand the node: y = dist *)
        apply Z.ltb_ge in St. assert (y = dist) by lia. subst y.
        assert (Hq : exists q, walk g s q node /\ wsum q = dist) by (apply (A _ _ Ly)).
        destruct (fold_drelax dist node Hq (out_edges g node) (mkD (dd st) (dp st) rest) []) as [I2 Cv2].
        * intros e He. unfold out_edges in He. apply filter_In in He. destruct He as [He1 He2]. apply Z.eqb_eq in He2. auto.
        * assumption.
        * intros v x Hl. cbn [dd dh] in Hl |- *. destruct (Cv v x Hl) as [Hin|T]; [|right; left; assumption].
          destruct (Psub _ Hin) as [E|Hr]; [|left; assumption]. inversion E; subst. right. right. split; [reflexivity|]. split; [reflexivity|].
          intros e [].
        * apply (IH _ _ I2); [|assumption]. cbn [app] in Cv2. intros v x Hl.
          destruct (Cv2 v x Hl) as [Hin|[T|[E1 [E2 T]]]]; [left; assumption|right; assumption|]. subst. right. assumption.
    - inversion H. subst st'. split; [assumption|]. split; [assumption|]. destruct (dh st); [reflexivity|].
      cbn [pop_min] in P. destruct (pop_min l) as [[? ?]|]; [destruct (_ <=? _)|]; discriminate.
  Qed.

  Theorem dijkstra_model_sound_l : forall fuel st, In s (nodes g) -> dijkstra_model g s fuel = Some st ->
    sssp_spec g s (lookup (dd st)) /\ ~ neg_cycle_from g s.
  Proof.
    intros fuel st Hs H. unfold dijkstra_model in H. rewrite (proj2 (memb_In s (nodes g)) Hs) in H.
    assert (I0 : inv (mkD [(s, 0)] [] [(0, s)])).
    { split; [|split].
      - intros v x Hl. unfold lookup in Hl. cbn [dd find fst snd] in Hl. destruct (s =? v) eqn:E; [|discriminate].
        apply Z.eqb_eq in E. subst v. inversion Hl. exists []. split; [constructor|reflexivity].
      - exists 0. split; [|lia]. unfold lookup. cbn [dd find fst snd]. rewrite Z.eqb_refl. reflexivity.
      - intros x v [Hin|[]]. inversion Hin; subst. exists 0. split; [|lia]. unfold lookup. cbn [dd find fst snd]. rewrite Z.eqb_refl. reflexivity. }
    assert (C0 : covered0 (mkD [(s, 0)] [] [(0, s)])).
    { intros v x Hl. unfold lookup in Hl. cbn [dd find fst snd] in Hl. destruct (s =? v) eqn:E; [|discriminate].
      apply Z.eqb_eq in E. subst v. inversion Hl. left. left. reflexivity. }
    destruct (dij_loop_inv _ _ _ I0 C0 H) as [[A [Sd _]] [Cv He]].
    assert (Htri : forall e, In e (edges g) -> forall du, lookup (dd st) (esrc e) = Some du ->
                     exists dv, lookup (dd st) (edst e) = Some dv /\ dv <= du + ew e).
    { intros e Hin du Du. destruct (Cv _ _ Du) as [Hh|T]; [rewrite He in Hh; contradiction|]. apply T.
      unfold out_edges. apply filter_In. split; [assumption|apply Z.eqb_refl]. }
    destruct Sd as [x0 [Hx0 Hle0]].
    assert (X0 : x0 = 0).
    { destruct (A _ _ Hx0) as [q [Hq Hw]]. destruct (lower_bound g (dd st) Htri s q s Hq x0 Hx0) as [y [Hy Hle]].
      rewrite Hx0 in Hy. inversion Hy. lia. }
    subst x0. split.
    - intros v Hv. destruct (lookup (dd st) v) as [x|] eqn:E.
      + split; [destruct (A _ _ E) as [q [Hq Hw]]; exists q; auto|].
        intros q Hq. destruct (lower_bound g (dd st) Htri s q v Hq 0 Hx0) as [y [Hy Hle]]. rewrite E in Hy. inversion Hy. lia.
      + intros [q Hq]. destruct (lower_bound g (dd st) Htri s q v Hq 0 Hx0) as [y [Hy _]]. congruence.
    - intros [q [c [u [Hq [Hc Hneg]]]]].
      destruct (lower_bound g (dd st) Htri s q u Hq 0 Hx0) as [du [Du _]].
      destruct (lower_bound g (dd st) Htri u c u Hc du Du) as [du' [Du' Hle]]. rewrite Du in Du'. inversion Du'. lia.
  Qed.
End Dij.
