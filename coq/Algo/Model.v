(** C19 — executable models of algorithms (no proofs here).
    [reach_model]: the set reachable from a node (what bfs/dfs must visit), by closure iteration.
    [bf_model]: Bellman-Ford as transcribed from shortest_path.rs l.346-424: the edge list is the
    concatenation of edges_from(node, Outgoing) over node_ids(); n-1 rounds of relaxation in that
    order with strict improvement and early exit; then one pass that flags a negative cycle.
    [kruskal_model]: Kruskal as transcribed from mst.rs l.87-160 (after repair f6a1e05: every edge
    enumerated from its source takes part).  [kruskal_pre]: the code before that repair, with the
    seen_edges filter that kept only the first edge met between a pair of nodes (finding C19-K1). *)
From Coq Require Import ZArith List Bool.
From GV Require Export Algo.Cert.
Import ListNotations.
Open Scope Z_scope.

Definition reach_model (g : graph) (s : Z) : list Z := grow (out_adj g) (fuel_of g) [s].

(** maps are association lists; an update shadows older entries *)
Definition upd (m : list (Z * Z)) (k v : Z) : list (Z * Z) := (k, v) :: m.

Record bfst := mkBf { bd : list (Z * Z); bp : list (Z * Z); bch : bool }.

Definition relax (st : bfst) (e : edge) : bfst :=
  match lookup (bd st) (esrc e) with
  | None => st
  | Some du =>
      let nd := du + ew e in
      if match lookup (bd st) (edst e) with None => true | Some cur => nd <? cur end
      then mkBf (upd (bd st) (edst e) nd) (upd (bp st) (edst e) (esrc e)) true
      else st
  end.
Definition bf_round (es : list edge) (d p : list (Z * Z)) : bfst := fold_left relax es (mkBf d p false).
Fixpoint bf_rounds (es : list edge) (k : nat) (d p : list (Z * Z)) : list (Z * Z) * list (Z * Z) :=
  match k with
  | O => (d, p)
  | S k' => let st := bf_round es d p in
            if bch st then bf_rounds es k' (bd st) (bp st) else (bd st, bp st)
  end.
Definition neg_check (es : list edge) (d : list (Z * Z)) : bool :=
  existsb (fun e => match lookup d (esrc e) with
                    | Some du => match lookup d (edst e) with Some dv => du + ew e <? dv | None => false end
                    | None => false
                    end) es.
Definition bf_model (g : graph) (s : Z) : list (Z * Z) * list (Z * Z) * bool :=
  if memb s (nodes g)
  then let dp := bf_rounds (edges g) (length (nodes g) - 1) [(s, 0)] [] in
       (fst dp, snd dp, neg_check (edges g) (fst dp))
  else ([], [], false).

(** Kruskal.  Sorting is a stable insertion sort by weight (Rust's sort_by is stable);
    the union-find only answers "are the two ends already connected by the chosen edges". *)
Definition pair_key (e : edge) : Z * Z := if esrc e <? edst e then (esrc e, edst e) else (edst e, esrc e).
Definition key_eqb (a b : Z * Z) : bool := (fst a =? fst b) && (snd a =? snd b).
Fixpoint first_per_pair (es : list edge) (seen : list (Z * Z)) : list edge :=
  match es with
  | [] => []
  | e :: r => if existsb (key_eqb (pair_key e)) seen then first_per_pair r seen
              else e :: first_per_pair r (pair_key e :: seen)
  end.
Fixpoint insert_by_w (e : edge) (l : list edge) : list edge :=
  match l with [] => [e] | x :: r => if ew e <=? ew x then e :: l else x :: insert_by_w e r end.
Definition sort_by_w (l : list edge) : list edge := fold_right insert_by_w [] l.
(** [stop] = n - 1: the loop breaks when that many edges have been chosen *)
Fixpoint kruskal_loop (fuel : nat) (stop : nat) (es chosen : list edge) : list edge :=
  match es with
  | [] => chosen
  | e :: r =>
      if Nat.eqb (length chosen) stop then chosen
      else match uconnb chosen fuel (esrc e) (edst e) with
           | Some false => kruskal_loop fuel stop r (chosen ++ [e])
           | _ => kruskal_loop fuel stop r chosen
           end
  end.
Definition kruskal_model (g : graph) : list edge :=
  match nodes g with
  | [] => []
  | _ => kruskal_loop (fuel_of g) (length (nodes g) - 1) (sort_by_w (edges g)) []
  end.
(** the code before repair f6a1e05: only the first edge enumerated between a pair of nodes takes part *)
Definition kruskal_pre (g : graph) : list edge :=
  match nodes g with
  | [] => []
  | _ => kruskal_loop (fuel_of g) (length (nodes g) - 1) (sort_by_w (first_per_pair (edges g) [])) []
  end.

(** Dijkstra as transcribed from shortest_path.rs l.99-144: binary heap with lazy deletion (a popped
    entry is skipped when the node already has a strictly better distance), strict-improvement
    relaxation that re-inserts the node.  The heap is a list; [pop_min] takes an entry of minimal
    distance (which of several equal ones is not observable in the distances).  [fuel] bounds the
    number of pops; None = out of fuel. *)
Record dst := mkD { dd : list (Z * Z); dp : list (Z * Z); dh : list (Z * Z) }.
Definition drelax (dist node : Z) (st : dst) (e : edge) : dst :=
  let nd := dist + ew e in
  if match lookup (dd st) (edst e) with None => true | Some cur => nd <? cur end
  then mkD (upd (dd st) (edst e) nd) (upd (dp st) (edst e) node) ((nd, edst e) :: dh st)
  else st.
Fixpoint pop_min (h : list (Z * Z)) : option ((Z * Z) * list (Z * Z)) :=
  match h with
  | [] => None
  | x :: r => match pop_min r with
              | None => Some (x, [])
              | Some (m, r') => if fst x <=? fst m then Some (x, r) else Some (m, x :: r')
              end
  end.
Definition out_edges (g : graph) (u : Z) : list edge := filter (fun e => esrc e =? u) (edges g).
Fixpoint dij_loop (g : graph) (fuel : nat) (st : dst) : option dst :=
  match fuel with
  | O => None
  | S f =>
      match pop_min (dh st) with
      | None => Some st
      | Some (dn, rest) =>
          let st1 := mkD (dd st) (dp st) rest in
          if match lookup (dd st) (snd dn) with Some best => best <? fst dn | None => false end
          then dij_loop g f st1
          else dij_loop g f (fold_left (drelax (fst dn) (snd dn)) (out_edges g (snd dn)) st1)
      end
  end.
Definition dijkstra_model (g : graph) (s : Z) (fuel : nat) : option dst :=
  if memb s (nodes g) then dij_loop g fuel (mkD [(s, 0)] [] [(0, s)]) else Some (mkD [] [] []).
