(** C19 — PageRank as transcribed from centrality.rs l.135-217, over exact rationals (no proofs here).
    Scores start at 1/n; each iteration gives every node (1-d)/n + d * (sum of the dangling nodes'
    scores)/n, plus d * score(i)/outdeg(i) along every edge i -> j (parallel edges count separately);
    the loop stops after [k] iterations or as soon as the largest change is below [tol].
    On inputs where binary64 arithmetic is exact (n and the out-degrees powers of two, dyadic damping,
    few iterations) the implementation's scores equal the model's bit for bit. *)
From Coq Require Import ZArith List Bool QArith Qabs Qminmax.
From GV Require Export Algo.CertStruct.
Import ListNotations.
Open Scope Z_scope.

Definition qlookup (m : list (Z * Q)) (k : Z) : Q :=
  match find (fun p => fst p =? k) m with Some p => snd p | None => 0%Q end.
Definition outdeg (g : graph) (i : Z) : Z := Z.of_nat (length (filter (fun e => esrc e =? i) (edges g))).
Definition qsumf {A : Type} (f : A -> Q) (l : list A) : Q := qsum (map f l).
(** the same sum, kept in lowest terms while it is computed *)
Definition qsumr {A : Type} (f : A -> Q) (l : list A) : Q := fold_right (fun x acc => Qred (f x + acc)) 0%Q l.
Definition pr_step (g : graph) (d : Q) (s : list (Z * Q)) : list (Z * Q) :=
  let n := inject_Z (Z.of_nat (length (nodes g))) in
  let dsum := qsumr (fun i => if outdeg g i =? 0 then qlookup s i else 0%Q) (nodes g) in
  let base := ((1 - d) / n + d * dsum / n)%Q in
  map (fun j => (j, Qred (base + qsumr (fun e => if edst e =? j
                                                  then (d * qlookup s (esrc e) / inject_Z (outdeg g (esrc e)))%Q
                                                  else 0%Q) (edges g)))) (nodes g).
Definition max_diff (a b : list (Z * Q)) : Q :=
  fold_right (fun p acc => Qmax (Qabs (snd p - qlookup b (fst p))) acc) 0%Q a.
Fixpoint pr_iter (g : graph) (d tol : Q) (k : nat) (s : list (Z * Q)) : list (Z * Q) :=
  match k with
  | O => s
  | S k' => let s' := pr_step g d s in
            if Qle_bool tol (max_diff s s') then pr_iter g d tol k' s' else s'
  end.
Definition pr_init (g : graph) : list (Z * Q) :=
  map (fun v => (v, Qred (1 / inject_Z (Z.of_nat (length (nodes g)))))) (nodes g).
Definition pagerank_model (g : graph) (d tol : Q) (k : nat) : list (Z * Q) := pr_iter g d tol k (pr_init g).

(** [z / 2^k] in lowest terms (cheaper than Qred's gcd on 1074-bit denominators) *)
Fixpoint dyadic (z : Z) (k : nat) : Q :=
  match k with
  | O => z # 1
  | S k' => if Z.even z then dyadic (Z.div2 z) k' else z # Pos.pow 2 (Pos.of_nat k)
  end.
Definition k1074 : nat := 1074.
Definition f64_q (b : Z) : option Q := option_map (fun z => dyadic z k1074) (f64_scaled b).

(** model = implementation: the implementation's scores, given as binary64 bit patterns, denote
    exactly the model's rationals; damping and tolerance are passed as bit patterns too *)
Definition chk_pagerank (g : graph) (dbits tbits : Z) (k : nat) (pr : list (Z * Z)) : bool :=
  match f64_q dbits, f64_q tbits with
  | Some d, Some tol =>
      let m := pagerank_model g d tol k in
      nodupb (map fst pr) && same_set (map fst pr) (nodes g)
      && forallb (fun kv => match f64_q (snd kv) with
                            | Some q => Qeq_bool q (qlookup m (fst kv))
                            | None => false
                            end) pr
  | _, _ => false
  end.
Definition show_pagerank (g : graph) (dbits tbits : Z) (k : nat) :=
  match f64_q dbits, f64_q tbits with
  | Some d, Some tol => pagerank_model g d tol k
  | _, _ => []
  end.
