(** C19 — model algorithms meet the specifications:
    closure iteration with |nodes| rounds computes exactly the reachable set (so the checkers never
    give up for lack of fuel, and every reachable node has a walk of fewer than |nodes| edges);
    Bellman-Ford as transcribed returns the shortest-path distances whenever it does not flag a
    negative cycle. *)
From Coq Require Import ZArith List Bool Lia Relations Permutation.
From GV Require Import Algo.Cert Algo.Model Algo.Run Algo.ProofsBase Algo.ProofsPath Algo.ProofsMsf.
Import ListNotations.
Open Scope Z_scope.

(** * the closure iteration reaches its fixpoint within |universe| rounds *)
Lemma insert_all_NoDup : forall xs seen, NoDup seen -> NoDup (insert_all xs seen).
Proof.
  induction xs as [|x r IH]; intros seen H; cbn [insert_all]; [assumption|].
  apply IH. destruct (memb x seen) eqn:E; [assumption|]. constructor; [apply memb_false; assumption|assumption].
Qed.
Lemma insert_all_length : forall xs seen, (length seen <= length (insert_all xs seen))%nat.
Proof.
  induction xs as [|x r IH]; intros seen; cbn [insert_all]; [lia|].
  destruct (memb x seen); [apply IH|]. specialize (IH (x :: seen)). cbn [length] in IH. lia.
Qed.
Lemma insert_all_same : forall xs seen, length (insert_all xs seen) = length seen -> forall x, In x xs -> In x seen.
Proof.
  induction xs as [|y r IH]; intros seen H x Hx; [contradiction|]. cbn [insert_all] in H.
  destruct (memb y seen) eqn:E.
  - destruct Hx as [->|Hx]; [apply memb_In; assumption|apply IH; assumption].
  - pose proof (insert_all_length r (y :: seen)) as L. cbn [length] in L. lia.
Qed.

Section Fuel.
  Variable adj : Z -> list Z.
  Variable U : list Z.
  Hypothesis Hadj : forall u v, In u U -> In v (adj u) -> In v U.

  Lemma grow_closed : forall fuel seen, NoDup seen -> incl seen U -> (length U <= length seen + fuel)%nat ->
    closedb adj (grow adj fuel seen) = true.
  Proof.
    induction fuel as [|f IH]; intros seen Hnd Hin Hlen; cbn [grow].
    - assert (I : incl U seen) by (apply NoDup_length_incl; [assumption|lia|assumption]).
      unfold closedb. apply forallb_forall. intros u Hu. apply forallb_forall. intros v Hv. apply memb_In. apply I.
      apply (Hadj u v); [apply Hin; assumption|assumption].
    - cbv zeta. destruct (Nat.eqb _ _) eqn:E.
      + apply Nat.eqb_eq in E. unfold closedb. apply forallb_forall. intros u Hu. apply forallb_forall. intros v Hv.
        apply memb_In. apply (insert_all_same _ _ E). apply in_flat_map. exists u. auto.
      + apply Nat.eqb_neq in E. pose proof (insert_all_length (flat_map adj seen) seen) as L. apply IH.
        * apply insert_all_NoDup. assumption.
        * intros x Hx. apply insert_all_In in Hx. destruct Hx as [Hx|Hx]; [|apply Hin; assumption].
          apply in_flat_map in Hx. destruct Hx as [u [Hu Hv]]. apply (Hadj u x); [apply Hin; assumption|assumption].
        * lia.
  Qed.
End Fuel.

Lemma out_adj_in_nodes : forall g, wf g -> forall u v, In u (nodes g) -> In v (out_adj g u) -> In v (nodes g).
Proof.
  intros g [_ [_ Hw]] u v _ Hv. apply (proj1 (out_adj_step g u v)) in Hv. destruct Hv as [e [He [_ Hd]]]. subst v. apply (Hw e He).
Qed.

Lemma reach_ok_total : forall g s, wf g -> In s (nodes g) ->
  reach_ok (out_adj g) (fuel_of g) s = Some (reach_model g s).
Proof.
  intros g s Hwf Hs. unfold reach_ok, reach_model.
  rewrite (grow_closed (out_adj g) (nodes g) (out_adj_in_nodes g Hwf) (fuel_of g) [s]); [reflexivity| | |].
  - constructor; [intros []|constructor].
  - intros x [<-|[]]. assumption.
  - unfold fuel_of. cbn [length]. lia.
Qed.

(** BFS/closure reachability: the model visits exactly the reachable set *)
Theorem reach_model_correct_l : forall g s, wf g -> In s (nodes g) -> forall v, In v (reach_model g s) <-> reachable g s v.
Proof. intros g s Hwf Hs. apply (reach_ok_reachable g (fuel_of g) s). apply reach_ok_total; assumption. Qed.

(** ... and therefore [reach_cert] accepts exactly the right answers on well-formed graphs *)
Theorem reach_cert_complete_l : forall g s l, wfb g = true -> In s (nodes g) -> reach_spec g s l -> nodupb l = true -> reach_cert g s l = true.
Proof.
  intros g s l Hwfb Hs [Hnd Hl] Hndb. unfold reach_cert. rewrite Hwfb, Hndb. rewrite (proj2 (memb_In s (nodes g)) Hs). cbn [andb].
  rewrite (reach_ok_total g s (wfb_wf g Hwfb) Hs). unfold same_set, inclb. apply andb_true_iff. split; apply forallb_forall; intros x Hx; apply memb_In.
  - apply reach_model_correct_l; [apply wfb_wf; assumption|assumption|]. apply Hl. assumption.
  - apply Hl. apply (reach_model_correct_l g s (wfb_wf g Hwfb) Hs). assumption.
Qed.

(** every reachable node has a walk with fewer edges than the graph has nodes *)
Lemma grow_steps : forall g s fuel seen k,
  (forall x, In x seen -> exists p, walk g s p x /\ (length p <= k)%nat) ->
  forall x, In x (grow (out_adj g) fuel seen) -> exists p, walk g s p x /\ (length p <= k + fuel)%nat.
Proof.
  intros g s. induction fuel as [|f IH]; intros seen k Hs x Hx; cbn [grow] in Hx.
  - destruct (Hs x Hx) as [p [A B]]. exists p. split; [assumption|lia].
  - cbv zeta in Hx. destruct (Nat.eqb _ _) in Hx.
    + destruct (Hs x Hx) as [p [A B]]. exists p. split; [assumption|lia].
    + assert (Hs' : forall y, In y (insert_all (flat_map (out_adj g) seen) seen) ->
                          exists p, walk g s p y /\ (length p <= S k)%nat).
      { intros y Hy. apply insert_all_In in Hy. destruct Hy as [Hy|Hy].
        * apply in_flat_map in Hy. destruct Hy as [u [Hu Hv]]. apply (proj1 (out_adj_step g u y)) in Hv.
          destruct Hv as [e [He [Hsrc Hdst]]]. destruct (Hs u Hu) as [p [A B]]. exists (p ++ [e]). split.
          -- apply walk_app with u; [assumption|]. subst. constructor; [assumption|constructor].
          -- rewrite app_length. cbn [length]. lia.
        * destruct (Hs y Hy) as [p [A B]]. exists p. split; [assumption|lia]. }
      destruct (IH _ (S k) Hs' x Hx) as [p [A B]]. exists p. split; [assumption|lia].
Qed.

Theorem short_walk_l : forall g s v, wf g -> In s (nodes g) -> reachable g s v ->
  exists p, walk g s p v /\ (length p <= length (nodes g) - 1)%nat.
Proof.
  intros g s v Hwf Hs Hr.
  assert (C : closedb (out_adj g) (grow (out_adj g) (length (nodes g) - 1) [s]) = true).
  { apply (grow_closed (out_adj g) (nodes g) (out_adj_in_nodes g Hwf)).
    - constructor; [intros []|constructor].
    - intros x [<-|[]]. assumption.
    - cbn [length]. destruct (nodes g); [contradiction|cbn [length]; lia]. }
  assert (Hin : In v (grow (out_adj g) (length (nodes g) - 1) [s])).
  { apply (closed_complete _ _ C s v); [apply clos_rt_rt1n; apply reachable_rt; assumption|apply grow_mono; left; reflexivity]. }
  assert (H0 : forall x, In x [s] -> exists p, walk g s p x /\ (length p <= 0)%nat).
  { intros x [<-|[]]. exists []. split; [constructor|cbn; lia]. }
  destruct (grow_steps g s _ [s] 0%nat H0 v Hin) as [p [A B]]. exists p. split; [assumption|lia].
Qed.

(** * Bellman-Ford as transcribed *)
Lemma lookup_upd : forall m k v k', lookup (upd m k v) k' = if k =? k' then Some v else lookup m k'.
Proof. intros. unfold upd, lookup. cbn [find fst snd]. destruct (k =? k'); reflexivity. Qed.

Lemma walk_snoc : forall g a q b, walk g a q b -> q <> [] ->
  exists q' e, q = q' ++ [e] /\ walk g a q' (esrc e) /\ In e (edges g) /\ edst e = b.
Proof.
  intros g a q b H. induction H as [u|e p v He Hw IH]; intro Hne; [congruence|].
  destruct p as [|e' p'].
  - inversion Hw; subst. exists [], e. split; [reflexivity|]. split; [constructor|auto].
  - destruct IH as [q' [e2 [E [W [I D]]]]]; [discriminate|]. exists (e :: q'), e2. split; [cbn; rewrite E; reflexivity|].
    split; [constructor; assumption|auto].
Qed.

Section BF.
  Variables (g : graph) (s : Z).
  Hypothesis Hwf : wf g.
  Hypothesis Hs : In s (nodes g).

  Definition attained (d : list (Z * Z)) : Prop := forall v x, lookup d v = Some x -> exists q, walk g s q v /\ wsum q = x.
  Definition src_le0 (d : list (Z * Z)) : Prop := exists x, lookup d s = Some x /\ x <= 0.
  Definition fin (d : list (Z * Z)) (v : Z) : Prop := lookup d v <> None.
  Definition tight_at (d : list (Z * Z)) (e : edge) : Prop :=
    forall du, lookup d (esrc e) = Some du -> exists dv, lookup d (edst e) = Some dv /\ ~ (du + ew e < dv).

  Lemma relax_attained : forall st e, In e (edges g) -> attained (bd st) -> attained (bd (relax st e)).
  Proof.
    intros st e He A. unfold relax. destruct (lookup (bd st) (esrc e)) as [du|] eqn:Du; [|assumption].
    cbv zeta. destruct (match lookup (bd st) (edst e) with None => true | Some cur => du + ew e <? cur end); [|assumption].
    cbn [bd]. intros v x Hl. rewrite lookup_upd in Hl. destruct (edst e =? v) eqn:E.
    - apply Z.eqb_eq in E. subst v. inversion Hl. subst x. destruct (A _ _ Du) as [q [Hq Hw]].
      exists (q ++ [e]). split; [apply walk_app with (esrc e); [assumption|constructor; [assumption|constructor]]|].
      rewrite wsum_app, wsum_cons. cbn. lia.
    - apply A. assumption.
  Qed.
  Lemma relax_src : forall st e, src_le0 (bd st) -> src_le0 (bd (relax st e)).
  Proof.
    intros st e [x [Hx Hle]]. unfold relax. destruct (lookup (bd st) (esrc e)) as [du|] eqn:Du; [|exists x; auto].
    cbv zeta. destruct (lookup (bd st) (edst e)) as [cur|] eqn:Dv.
    - destruct (du + ew e <? cur) eqn:C; [|exists x; auto]. cbn [bd]. unfold src_le0. rewrite lookup_upd.
      destruct (edst e =? s) eqn:E; [|exists x; auto]. apply Z.eqb_eq in E. rewrite E in Dv. rewrite Hx in Dv. inversion Dv. subst cur.
      apply Z.ltb_lt in C. exists (du + ew e). split; [reflexivity|lia].
    - cbn [bd]. unfold src_le0. rewrite lookup_upd. destruct (edst e =? s) eqn:E; [|exists x; auto].
      apply Z.eqb_eq in E. rewrite E in Dv. congruence.
  Qed.
  Lemma relax_mono : forall st e v, fin (bd st) v -> fin (bd (relax st e)) v.
  Proof.
    intros st e v F. unfold relax. destruct (lookup (bd st) (esrc e)) as [du|]; [|assumption].
    cbv zeta. destruct (match lookup (bd st) (edst e) with None => true | Some cur => du + ew e <? cur end); [|assumption].
    cbn [bd]. unfold fin. rewrite lookup_upd. destruct (edst e =? v); [discriminate|assumption].
  Qed.
  Lemma relax_fin : forall st e, fin (bd st) (esrc e) -> fin (bd (relax st e)) (edst e).
  Proof.
    intros st e F. unfold relax. unfold fin in F. destruct (lookup (bd st) (esrc e)) as [du|]; [|congruence].
    cbv zeta. destruct (lookup (bd st) (edst e)) as [cur|] eqn:Dv.
    - destruct (du + ew e <? cur); [cbn [bd]; unfold fin; rewrite lookup_upd, Z.eqb_refl; discriminate|unfold fin; congruence].
    - cbn [bd]. unfold fin. rewrite lookup_upd, Z.eqb_refl. discriminate.
  Qed.
  Lemma relax_ch : forall st e, bch st = true -> bch (relax st e) = true.
  Proof.
    intros st e H. unfold relax. destruct (lookup (bd st) (esrc e)); [|assumption]. cbv zeta.
    destruct (match lookup (bd st) (edst e) with None => true | Some cur => _ end); [reflexivity|assumption].
  Qed.
  Lemma relax_unchanged : forall st e, bch (relax st e) = false -> relax st e = st /\ tight_at (bd st) e.
  Proof.
    intros st e H. unfold relax in *. unfold tight_at. destruct (lookup (bd st) (esrc e)) as [du|] eqn:Du.
    - cbv zeta in *. destruct (lookup (bd st) (edst e)) as [cur|] eqn:Dv.
      + destruct (du + ew e <? cur) eqn:C; [discriminate|]. split; [reflexivity|]. intros du' E. inversion E. subst du'.
        exists cur. split; [reflexivity|]. apply Z.ltb_ge in C. lia.
      + discriminate.
    - split; [reflexivity|]. intros du E. discriminate.
  Qed.

  Lemma fold_attained : forall es st, incl es (edges g) -> attained (bd st) -> attained (bd (fold_left relax es st)).
  Proof.
    induction es as [|e r IH]; intros st I A; [assumption|]. cbn [fold_left]. apply IH; [intros x Hx; apply I; right; assumption|].
    apply relax_attained; [apply I; left; reflexivity|assumption].
  Qed.
  Lemma fold_src : forall es st, src_le0 (bd st) -> src_le0 (bd (fold_left relax es st)).
  Proof. induction es as [|e r IH]; intros st A; [assumption|]. cbn [fold_left]. apply IH. apply relax_src. assumption. Qed.
  Lemma fold_mono : forall es st v, fin (bd st) v -> fin (bd (fold_left relax es st)) v.
  Proof. induction es as [|e r IH]; intros st v A; [assumption|]. cbn [fold_left]. apply IH. apply relax_mono. assumption. Qed.
  Lemma fold_fin : forall es st e, In e es -> fin (bd st) (esrc e) -> fin (bd (fold_left relax es st)) (edst e).
  Proof.
    induction es as [|x r IH]; intros st e He F; [contradiction|]. cbn [fold_left]. destruct He as [->|He].
    - apply fold_mono. apply relax_fin. assumption.
    - apply IH; [assumption|]. apply relax_mono. assumption.
  Qed.
  Lemma fold_ch : forall es st, bch st = true -> bch (fold_left relax es st) = true.
  Proof. induction es as [|e r IH]; intros st H; [assumption|]. cbn [fold_left]. apply IH. apply relax_ch. assumption. Qed.
  Lemma fold_unchanged : forall es st, bch (fold_left relax es st) = false ->
    fold_left relax es st = st /\ forall e, In e es -> tight_at (bd st) e.
  Proof.
    induction es as [|x r IH]; intros st H; [split; [reflexivity|intros e []]|]. cbn [fold_left] in *.
    destruct (IH _ H) as [E T]. assert (Hx : bch (relax st x) = false).
    { destruct (bch (relax st x)) eqn:B; [|reflexivity]. rewrite (fold_ch r _ B) in H. discriminate. }
    destruct (relax_unchanged _ _ Hx) as [E2 T2]. split; [rewrite E, E2; reflexivity|].
    intros e [<-|He]; [assumption|]. rewrite <- E2. apply T. assumption.
  Qed.

  (** P k d: every node with a walk of at most k edges from the source is finite in d *)
  Definition within (k : nat) (d : list (Z * Z)) : Prop := forall q v, walk g s q v -> (length q <= k)%nat -> fin d v.

  Lemma round_within : forall k d p, within k d -> within (S k) (bd (bf_round (edges g) d p)).
  Proof.
    intros k d p W q v Hq Hl. unfold bf_round. destruct q as [|e0 q0] eqn:Eq.
    - inversion Hq; subst. apply fold_mono. cbn [bd]. apply (W [] _); [constructor|cbn; lia].
    - rewrite <- Eq in *. destruct (walk_snoc _ _ _ _ Hq) as [q' [e [E [Wq [He Hd]]]]]; [subst; discriminate|].
      subst v. apply fold_fin; [assumption|]. cbn [bd]. apply (W q' (esrc e)); [assumption|].
      rewrite E, app_length in Hl. cbn [length] in Hl. lia.
  Qed.

  Definition all_tight (d : list (Z * Z)) : Prop := forall e, In e (edges g) -> tight_at d e.

  Lemma rounds_inv : forall k j d p, attained d -> src_le0 d -> within j d ->
    let r := bf_rounds (edges g) k d p in
    attained (fst r) /\ src_le0 (fst r) /\ (all_tight (fst r) \/ within (j + k) (fst r)).
  Proof.
    induction k as [|k IH]; intros j d p A S0 W; cbn [bf_rounds].
    - cbn [fst]. split; [assumption|]. split; [assumption|]. right. replace (j + 0)%nat with j by lia. assumption.
    - cbv zeta. destruct (bch (bf_round (edges g) d p)) eqn:B.
      + assert (A' : attained (bd (bf_round (edges g) d p))) by (apply fold_attained; [apply incl_refl|assumption]).
        assert (S' : src_le0 (bd (bf_round (edges g) d p))) by (apply fold_src; assumption).
        pose proof (round_within j d p W) as W'.
        specialize (IH (S j) _ (bp (bf_round (edges g) d p)) A' S' W'). cbv zeta in IH.
        replace (j + S k)%nat with (S j + k)%nat by lia. exact IH.
      + cbn [fst]. unfold bf_round in *. destruct (fold_unchanged _ _ B) as [E T]. rewrite E. cbn [bd].
        split; [assumption|]. split; [assumption|]. left. exact T.
  Qed.

  Theorem bf_model_sound_l : forall d p, bf_model g s = (d, p, false) -> sssp_spec g s (lookup d) /\ ~ neg_cycle_from g s.
  Proof.
    intros d p H. unfold bf_model in H. rewrite (proj2 (memb_In s (nodes g)) Hs) in H.
    set (r := bf_rounds (edges g) (length (nodes g) - 1) [(s, 0)] []) in *. cbv zeta in H.
    injection H as Hd Hp Hn.
    assert (A0 : attained [(s, 0)]).
    { intros v x Hl. unfold lookup in Hl. cbn [find fst snd] in Hl. destruct (s =? v) eqn:E; [|discriminate].
      apply Z.eqb_eq in E. subst v. inversion Hl. exists []. split; [constructor|reflexivity]. }
    assert (S0 : src_le0 [(s, 0)]).
    { exists 0. split; [|lia]. unfold lookup. cbn [find fst snd]. rewrite Z.eqb_refl. reflexivity. }
    assert (W0 : within 0 [(s, 0)]).
    { intros q v Hq Hl. destruct q; [|cbn in Hl; lia]. inversion Hq; subst. unfold fin, lookup. cbn [find fst]. rewrite Z.eqb_refl. discriminate. }
    destruct (rounds_inv (length (nodes g) - 1) 0 [(s, 0)] [] A0 S0 W0) as [A [Sd C]]. fold r in A, Sd, C.
    (* closed: finite source of an edge => finite target *)
    assert (Closed : forall e, In e (edges g) -> fin (fst r) (esrc e) -> fin (fst r) (edst e)).
    { intros e He F. destruct C as [T|W].
      - unfold fin in F. destruct (lookup (fst r) (esrc e)) as [du|] eqn:Du; [|congruence].
        destruct (T e He du Du) as [dv [Dv _]]. unfold fin. congruence.
      - unfold fin in F. destruct (lookup (fst r) (esrc e)) as [du|] eqn:Du; [|congruence].
        destruct (A _ _ Du) as [q [Hq _]].
        assert (R : reachable g s (edst e)).
        { exists (q ++ [e]). apply walk_app with (esrc e); [assumption|constructor; [assumption|constructor]]. }
        destruct (short_walk_l g s (edst e) Hwf Hs R) as [q2 [Hq2 L]]. apply (W q2 (edst e) Hq2). lia. }
    assert (Htri : forall e, In e (edges g) -> forall du, lookup (fst r) (esrc e) = Some du ->
                     exists dv, lookup (fst r) (edst e) = Some dv /\ dv <= du + ew e).
    { intros e He du Du. assert (F : fin (fst r) (edst e)) by (apply Closed; [assumption|unfold fin; congruence]).
      unfold fin in F. destruct (lookup (fst r) (edst e)) as [dv|] eqn:Dv; [|congruence]. exists dv. split; [reflexivity|].
      unfold neg_check in Hn. destruct (Z_lt_le_dec (du + ew e) dv) as [L|L]; [|assumption]. exfalso.
      assert (X : existsb (fun e => match lookup (fst r) (esrc e) with
                    | Some du => match lookup (fst r) (edst e) with Some dv => du + ew e <? dv | None => false end
                    | None => false end) (edges g) = true).
      { apply existsb_exists. exists e. split; [assumption|]. rewrite Du, Dv. apply Z.ltb_lt. assumption. }
      congruence. }
    (* the source stays at 0 *)
    destruct Sd as [x0 [Hx0 Hle0]].
    assert (X0 : x0 = 0).
    { destruct (A _ _ Hx0) as [q [Hq Hw]]. destruct (lower_bound g (fst r) Htri s q s Hq x0 Hx0) as [y [Hy Hle]].
      rewrite Hx0 in Hy. inversion Hy. lia. }
    subst x0. rewrite <- Hd. clear Hd Hp. split.
    - intros v Hv. destruct (lookup (fst r) v) as [x|] eqn:E.
      + split; [destruct (A _ _ E) as [q [Hq Hw]]; exists q; auto|].
        intros q Hq. destruct (lower_bound g (fst r) Htri s q v Hq 0 Hx0) as [y [Hy Hle]]. rewrite E in Hy. inversion Hy. lia.
      + intros [q Hq]. destruct (lower_bound g (fst r) Htri s q v Hq 0 Hx0) as [y [Hy _]]. congruence.
    - intros [q [c [u [Hq [Hc Hneg]]]]].
      destruct (lower_bound g (fst r) Htri s q u Hq 0 Hx0) as [du [Du _]].
      destruct (lower_bound g (fst r) Htri u c u Hc du Du) as [du' [Du' Hle]]. rewrite Du in Du'. inversion Du'. lia.
  Qed.
End BF.

(** * Kruskal before repair f6a1e05 (finding C19-K1, fixed) *)
Definition g_k1 : graph := mkG [0; 1] [mkE 0 1 0 5; mkE 0 1 1 2].

Theorem kruskal_pre_refuted_l :
  exists g, wf g /\ k_parallel_diffw g = true /\ ~ msf_spec g (kruskal_pre g).
Proof.
  exists g_k1. split; [apply wfb_wf; vm_compute; reflexivity|]. split; [vm_compute; reflexivity|].
  intros [_ M].
  assert (S : sub_forest g_k1 [mkE 0 1 1 2]).
  { apply (msf_cert_sound_l g_k1 [mkE 0 1 1 2]). vm_compute. reflexivity. }
  specialize (M _ S). vm_compute in M. apply M. reflexivity.
Qed.
