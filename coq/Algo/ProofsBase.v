(** C19 — basic reflection lemmas, closure computation, walks. *)
From Coq Require Import ZArith List Bool Lia Relations Permutation.
From GV Require Import Algo.Cert.
Import ListNotations.
Open Scope Z_scope.

(** * membership / nodup / lookup *)
Lemma memb_In : forall x l, memb x l = true <-> In x l.
Proof.
  intros x l. unfold memb. rewrite existsb_exists. split.
  - intros [y [Hy He]]. apply Z.eqb_eq in He. subst. assumption.
  - intros H. exists x. split; [assumption|apply Z.eqb_refl].
Qed.
Lemma memb_false : forall x l, memb x l = false <-> ~ In x l.
Proof.
  intros x l. rewrite <- memb_In. destruct (memb x l); split; intro H; try congruence;
  try (exfalso; apply H; reflexivity).
Qed.
Lemma nodupb_NoDup : forall l, nodupb l = true -> NoDup l.
Proof.
  induction l as [|x r IH]; cbn [nodupb]; intro H; [constructor|].
  apply andb_true_iff in H. destruct H as [H1 H2]. constructor.
  - apply negb_true_iff in H1. apply memb_false in H1. assumption.
  - apply IH. assumption.
Qed.
Lemma inclb_incl : forall a b, inclb a b = true -> incl a b.
Proof.
  intros a b H x Hx. unfold inclb in H. rewrite forallb_forall in H. apply memb_In. apply H. assumption.
Qed.
Lemma same_set_iff : forall a b, same_set a b = true -> forall x, In x a <-> In x b.
Proof.
  intros a b H x. unfold same_set in H. apply andb_true_iff in H. destruct H as [H1 H2].
  split; intro Hx; [apply (inclb_incl _ _ H1)|apply (inclb_incl _ _ H2)]; assumption.
Qed.
Lemma oz_eqb_eq : forall a b, oz_eqb a b = true <-> a = b.
Proof.
  intros [x|] [y|]; cbn [oz_eqb]; split; intro H; try congruence; try reflexivity.
  - apply Z.eqb_eq in H. congruence.
  - inversion H. apply Z.eqb_refl.
Qed.
Lemma lookup_In : forall l k v, lookup l k = Some v -> In (k, v) l.
Proof.
  intros l k v H. unfold lookup in H. destruct (find (fun p => fst p =? k) l) as [p|] eqn:E; [|discriminate].
  apply find_some in E. destruct E as [E1 E2]. apply Z.eqb_eq in E2. inversion H. subst.
  destruct p; cbn in *. assumption.
Qed.
Lemma lookup_None : forall l k, lookup l k = None -> forall v, ~ In (k, v) l.
Proof.
  intros l k H v Hin. unfold lookup in H.
  destruct (find (fun p => fst p =? k) l) as [p|] eqn:E; [discriminate|].
  apply (find_none _ _ E) in Hin. cbn in Hin. rewrite Z.eqb_refl in Hin. discriminate.
Qed.

Lemma edge_eqb_eq : forall a b, edge_eqb a b = true <-> a = b.
Proof.
  intros [a1 a2 a3 a4] [b1 b2 b3 b4]. unfold edge_eqb. cbn [esrc edst eid ew].
  rewrite !andb_true_iff, !Z.eqb_eq. split.
  - intros [[[H1 H2] H3] H4]. subst. reflexivity.
  - intro H. inversion H. auto.
Qed.
Lemma ememb_In : forall e l, ememb e l = true <-> In e l.
Proof.
  intros e l. unfold ememb. rewrite existsb_exists. split.
  - intros [y [Hy He]]. apply edge_eqb_eq in He. subst. assumption.
  - intros H. exists e. split; [assumption|]. apply edge_eqb_eq. reflexivity.
Qed.
Lemma enodupb_NoDup : forall l, enodupb l = true -> NoDup l.
Proof.
  induction l as [|x r IH]; cbn [enodupb]; intro H; [constructor|].
  apply andb_true_iff in H. destruct H as [H1 H2]. constructor.
  - apply negb_true_iff in H1. intro Hin. apply ememb_In in Hin. congruence.
  - apply IH. assumption.
Qed.

Lemma wfb_wf : forall g, wfb g = true -> wf g.
Proof.
  intros g H. unfold wfb in H. rewrite !andb_true_iff in H. destruct H as [[H1 H2] H3].
  split; [apply nodupb_NoDup; assumption|]. split; [apply nodupb_NoDup; assumption|].
  intros e He. rewrite forallb_forall in H3. specialize (H3 e He).
  apply andb_true_iff in H3. destruct H3 as [A B]. split; apply memb_In; assumption.
Qed.

(** * closure computation *)
Lemma insert_all_In : forall xs seen y, In y (insert_all xs seen) <-> In y xs \/ In y seen.
Proof.
  induction xs as [|x r IH]; intros seen y; cbn [insert_all].
  - split; [auto|intros [[]|H]; assumption].
  - rewrite IH. destruct (memb x seen) eqn:E.
    + apply memb_In in E. split.
      * intros [H|H]; [left; right; assumption|right; assumption].
      * intros [[H|H]|H]; [subst; right; assumption|left; assumption|right; assumption].
    + split.
      * intros [H|[H|H]]; [left; right; assumption|left; left; assumption|right; assumption].
      * intros [[H|H]|H]; [right; left; assumption|left; assumption|right; right; assumption].
Qed.

Section Reach.
  Variable adj : Z -> list Z.
  Definition astep (u v : Z) : Prop := In v (adj u).

  Lemma grow_sound : forall (P : Z -> Prop),
    (forall u v, P u -> astep u v -> P v) ->
    forall fuel seen, (forall x, In x seen -> P x) -> forall x, In x (grow adj fuel seen) -> P x.
  Proof.
    intros P Hstep. induction fuel as [|f IH]; intros seen Hs x Hx; cbn [grow] in Hx.
    - apply Hs. assumption.
    - cbv zeta in Hx. destruct (Nat.eqb _ _) in Hx; [apply Hs; assumption|].
      apply (IH (insert_all (flat_map adj seen) seen)); [|assumption].
      intros y Hy. apply insert_all_In in Hy. destruct Hy as [Hy|Hy]; [|apply Hs; assumption].
      apply in_flat_map in Hy. destruct Hy as [u [Hu Hv]]. apply (Hstep u y); [apply Hs; assumption|exact Hv].
  Qed.

  Lemma grow_mono : forall fuel seen x, In x seen -> In x (grow adj fuel seen).
  Proof.
    induction fuel as [|f IH]; intros seen x Hx; cbn [grow]; [assumption|].
    cbv zeta. destruct (Nat.eqb _ _); [assumption|]. apply IH. apply insert_all_In. right. assumption.
  Qed.

  Lemma closed_complete : forall Rs, closedb adj Rs = true ->
    forall r v, clos_refl_trans_1n Z astep r v -> In r Rs -> In v Rs.
  Proof.
    intros Rs Hc r v H. induction H as [|x y z Hxy Hyz IH]; intro Hin; [assumption|].
    apply IH. unfold closedb in Hc. rewrite forallb_forall in Hc. specialize (Hc x Hin).
    rewrite forallb_forall in Hc. apply memb_In. apply Hc. exact Hxy.
  Qed.

  Lemma reach_ok_spec : forall fuel r Rs, reach_ok adj fuel r = Some Rs ->
    forall v, In v Rs <-> clos_refl_trans Z astep r v.
  Proof.
    intros fuel r Rs H v. unfold reach_ok in H.
    destruct (closedb adj (grow adj fuel [r])) eqn:E; [|discriminate]. inversion H. subst Rs. clear H.
    split.
    - intro Hv. apply (grow_sound (fun x => clos_refl_trans Z astep r x)) with (fuel := fuel) (seen := [r]).
      + intros u w Hu Huw. apply rt_trans with u; [assumption|apply rt_step; assumption].
      + intros x [Hx|[]]. subst. apply rt_refl.
      + assumption.
    - intro Hv. apply clos_rt_rt1n in Hv. apply (closed_complete _ E r v Hv).
      apply grow_mono. left. reflexivity.
  Qed.
End Reach.

(** * walks *)
Lemma walk_app : forall g a p b q c, walk g a p b -> walk g b q c -> walk g a (p ++ q) c.
Proof.
  intros g a p b q c H. induction H as [u|e p v He Hw IH]; intro Hq; cbn [app]; [assumption|].
  constructor; [assumption|apply IH; assumption].
Qed.
Lemma wsum_cons : forall e p, wsum (e :: p) = ew e + wsum p.
Proof. reflexivity. Qed.
Lemma wsum_app : forall p q, wsum (p ++ q) = wsum p + wsum q.
Proof. induction p as [|e p IH]; intro q; [reflexivity|]. cbn [app]. rewrite !wsum_cons. rewrite IH. lia. Qed.

Lemma walk_in_nodes : forall g, wf g -> forall a p b, walk g a p b -> In a (nodes g) -> In b (nodes g).
Proof.
  intros g [_ [_ Hw]] a p b H. induction H as [u|e p v He Hwk IH]; intro Ha; [assumption|].
  apply IH. apply (Hw e He).
Qed.

Lemma out_adj_step : forall g u v, astep (out_adj g) u v <-> exists e, In e (edges g) /\ esrc e = u /\ edst e = v.
Proof.
  intros g u v. unfold astep, out_adj. rewrite in_map_iff. split.
  - intros [e [He Hin]]. apply filter_In in Hin. destruct Hin as [Hin Hs]. apply Z.eqb_eq in Hs.
    exists e. auto.
  - intros [e [Hin [Hs Hd]]]. exists e. split; [assumption|]. apply filter_In. split; [assumption|].
    apply Z.eqb_eq. assumption.
Qed.

Lemma reachable_rt : forall g s v, reachable g s v <-> clos_refl_trans Z (astep (out_adj g)) s v.
Proof.
  intros g s v. split.
  - intros [p H]. induction H as [u|e p v He Hw IH]; [apply rt_refl|].
    apply rt_trans with (edst e); [|assumption]. apply rt_step. apply out_adj_step. exists e. auto.
  - intro H. induction H as [x y Hxy|x|x y z _ IH1 _ IH2].
    + apply out_adj_step in Hxy. destruct Hxy as [e [He [Hs Hd]]]. exists [e]. subst. constructor; [assumption|constructor].
    + exists []. constructor.
    + destruct IH1 as [p Hp]. destruct IH2 as [q Hq]. exists (p ++ q). apply walk_app with y; assumption.
Qed.

Lemma reach_ok_reachable : forall g fuel s Rs, reach_ok (out_adj g) fuel s = Some Rs ->
  forall v, In v Rs <-> reachable g s v.
Proof. intros g fuel s Rs H v. rewrite (reach_ok_spec _ _ _ _ H v). symmetry. apply reachable_rt. Qed.

(** * undirected connectivity *)
Lemma uadj_step : forall E u v, astep (uadj E) u v <-> estep E u v \/ estep E v u.
Proof.
  intros E u v. unfold astep, uadj. rewrite in_app_iff, !in_map_iff. split.
  - intros [[e [He Hin]]|[e [He Hin]]]; apply filter_In in Hin; destruct Hin as [Hin Hs]; apply Z.eqb_eq in Hs.
    + left. exists e. auto.
    + right. exists e. auto.
  - intros [[e [Hin [Hs Hd]]]|[e [Hin [Hs Hd]]]].
    + left. exists e. split; [assumption|]. apply filter_In. split; [assumption|apply Z.eqb_eq; assumption].
    + right. exists e. split; [assumption|]. apply filter_In. split; [assumption|apply Z.eqb_eq; assumption].
Qed.

Lemma uconn_rt : forall E u v, uconn E u v <-> clos_refl_trans Z (astep (uadj E)) u v.
Proof.
  intros E u v. split.
  - intro H. assert (G : clos_refl_trans Z (astep (uadj E)) u v /\ clos_refl_trans Z (astep (uadj E)) v u).
    { induction H as [x y Hxy|x|x y _ IH|x y z _ IH1 _ IH2].
      - split; apply rt_step; apply uadj_step; [left|right]; assumption.
      - split; apply rt_refl.
      - destruct IH. split; assumption.
      - destruct IH1, IH2. split; [apply rt_trans with y|apply rt_trans with y]; assumption. }
    apply G.
  - intro H. induction H as [x y Hxy|x|x y z _ IH1 _ IH2].
    + apply uadj_step in Hxy. destruct Hxy as [Hxy|Hxy]; [apply rst_step; assumption|apply rst_sym; apply rst_step; assumption].
    + apply rst_refl.
    + apply rst_trans with y; assumption.
Qed.

Lemma uconnb_true : forall E fuel a b, uconnb E fuel a b = Some true -> uconn E a b.
Proof.
  intros E fuel a b H. unfold uconnb in H. destruct (reach_ok (uadj E) fuel a) as [Rs|] eqn:R; [|discriminate].
  inversion H as [H1]. apply memb_In in H1. apply uconn_rt. apply (reach_ok_spec _ _ _ _ R). assumption.
Qed.
Lemma uconnb_false : forall E fuel a b, uconnb E fuel a b = Some false -> ~ uconn E a b.
Proof.
  intros E fuel a b H Hc. unfold uconnb in H. destruct (reach_ok (uadj E) fuel a) as [Rs|] eqn:R; [|discriminate].
  inversion H as [H1]. apply memb_false in H1. apply H1. apply (reach_ok_spec _ _ _ _ R). apply uconn_rt. assumption.
Qed.

Lemma uconn_incl : forall E E', incl E E' -> forall u v, uconn E u v -> uconn E' u v.
Proof.
  intros E E' Hi u v H. induction H as [x y [e [He Hxy]]|x|x y _ IH|x y z _ IH1 _ IH2].
  - apply rst_step. exists e. split; [apply Hi; assumption|assumption].
  - apply rst_refl.
  - apply rst_sym. assumption.
  - apply rst_trans with y; assumption.
Qed.
Lemma uconn_refl : forall E u, uconn E u u. Proof. intros. apply rst_refl. Qed.
Lemma uconn_sym : forall E u v, uconn E u v -> uconn E v u. Proof. intros. apply rst_sym. assumption. Qed.
Lemma uconn_trans : forall E u v w, uconn E u v -> uconn E v w -> uconn E u w.
Proof. intros. apply rst_trans with v; assumption. Qed.
Lemma uconn_edge : forall E e, In e E -> uconn E (esrc e) (edst e).
Proof. intros E e He. apply rst_step. exists e. auto. Qed.
