(** C19 — flows: weak duality (every feasible flow is bounded by every cut) and the soundness of
    [flow_cert] (a feasible flow with a saturated cut is maximum, and the cut is minimum). *)
From Coq Require Import ZArith List Bool Lia Relations Permutation.
From GV Require Import Algo.Cert Algo.ProofsBase.
Import ListNotations.
Open Scope Z_scope.

Lemma zsum_cons : forall f x l, zsum f (x :: l) = f x + zsum f l.
Proof. reflexivity. Qed.
Lemma zsum_ext : forall f h l, (forall x, In x l -> f x = h x) -> zsum f l = zsum h l.
Proof.
  intros f h. induction l as [|x l IH]; intro H; [reflexivity|]. rewrite !zsum_cons.
  rewrite (H x (or_introl eq_refl)). rewrite IH; [reflexivity|]. intros y Hy. apply H. right. assumption.
Qed.
Lemma zsum_le : forall f h l, (forall x, In x l -> f x <= h x) -> zsum f l <= zsum h l.
Proof.
  intros f h. induction l as [|x l IH]; intro H; [cbn; lia|]. rewrite !zsum_cons.
  pose proof (H x (or_introl eq_refl)). assert (zsum f l <= zsum h l) by (apply IH; intros y Hy; apply H; right; assumption). lia.
Qed.
Lemma zsum_add : forall f h l, zsum (fun x => f x + h x) l = zsum f l + zsum h l.
Proof. intros f h. induction l as [|x l IH]; [reflexivity|]. rewrite !zsum_cons, IH. lia. Qed.
Lemma zsum_sub : forall f h l, zsum (fun x => f x - h x) l = zsum f l - zsum h l.
Proof. intros f h. induction l as [|x l IH]; [reflexivity|]. rewrite !zsum_cons, IH. lia. Qed.
Lemma zsum_zero : forall l, zsum (fun _ => 0) l = 0.
Proof. induction l as [|x l IH]; [reflexivity|]. rewrite zsum_cons, IH. lia. Qed.
Lemma zsum_split : forall (p : Z -> bool) f l,
  zsum f l = zsum f (filter p l) + zsum f (filter (fun x => negb (p x)) l).
Proof.
  intros p f. induction l as [|x l IH]; [reflexivity|]. cbn [filter]. rewrite zsum_cons.
  destruct (p x); cbn [negb]; rewrite !zsum_cons; lia.
Qed.
Lemma zsum_swap : forall (h : Z -> Z -> Z) l m,
  zsum (fun u => zsum (fun v => h u v) m) l = zsum (fun v => zsum (fun u => h u v) l) m.
Proof.
  intros h. induction l as [|x l IH]; intro m.
  - cbn [zsum fold_right]. symmetry. apply zsum_zero.
  - rewrite zsum_cons. rewrite IH. rewrite <- zsum_add. apply zsum_ext. intros v _. rewrite zsum_cons. reflexivity.
Qed.
Lemma zsum_single : forall f s l, NoDup l -> In s l -> (forall x, In x l -> x <> s -> f x = 0) -> zsum f l = f s.
Proof.
  intros f s. induction l as [|x l IH]; intros Hnd Hin H0; [contradiction|]. rewrite zsum_cons.
  inversion Hnd as [|? ? Hx Hnd']; subst. destruct Hin as [->|Hin].
  - assert (Z0 : zsum f l = 0).
    { rewrite <- (zsum_zero l). apply zsum_ext. intros y Hy. apply H0; [right; assumption|]. intro; subst; contradiction. }
    lia.
  - rewrite (H0 x (or_introl eq_refl)); [|intro; subst; contradiction].
    rewrite IH; [lia|assumption|assumption|]. intros y Hy. apply H0. right. assumption.
Qed.

Section Cut.
  Variables (g : graph) (s t : Z) (f : Z -> Z -> Z) (Sx : Z -> bool).
  Hypothesis Hnd : NoDup (nodes g).
  Hypothesis Hs : In s (nodes g).
  Hypothesis Hcons : forall v, In v (nodes g) -> v <> s -> v <> t -> excess g f v = 0.
  Hypothesis Hcut : is_cut s t Sx.

  Let A := filter Sx (nodes g).
  Let B := filter (fun v => negb (Sx v)) (nodes g).

  (** the value of a flow is its net flow across any cut *)
  Lemma value_across_cut :
    flow_value g s f = zsum (fun u => zsum (fun v => f u v - f v u) B) A.
  Proof.
    destruct Hcut as [C1 C2]. unfold flow_value.
    assert (E1 : excess g f s = zsum (excess g f) A).
    { symmetry. apply zsum_single.
      - apply NoDup_filter. assumption.
      - apply filter_In. split; assumption.
      - intros x Hx Hne. apply filter_In in Hx. destruct Hx as [Hx HS]. apply Hcons; [assumption|assumption|].
        intro; subst x. congruence. }
    rewrite E1. unfold excess.
    assert (E2 : forall u, zsum (fun v => f u v - f v u) (nodes g)
                         = zsum (fun v => f u v - f v u) A + zsum (fun v => f u v - f v u) B).
    { intro u. apply (zsum_split Sx). }
    rewrite (zsum_ext _ _ A (fun u _ => E2 u)). rewrite zsum_add.
    assert (X : zsum (fun u => zsum (fun v => f u v - f v u) A) A = 0).
    { rewrite (zsum_ext _ (fun u => zsum (fun v => f u v) A - zsum (fun v => f v u) A) A (fun u _ => zsum_sub _ _ A)).
      rewrite zsum_sub. rewrite (zsum_swap (fun u v => f v u) A A). lia. }
    lia.
  Qed.
End Cut.

Lemma cap_nonneg : forall g u v, (forall e, In e (edges g) -> 0 <= ew e) -> 0 <= cap g u v.
Proof.
  intros g u v H. unfold cap. assert (G : forall L, (forall e, In e L -> 0 <= ew e) -> 0 <= wsum L).
  { induction L as [|e L IH]; intro HL; [cbn; lia|]. rewrite wsum_cons.
    pose proof (HL e (or_introl eq_refl)). assert (0 <= wsum L) by (apply IH; intros; apply HL; right; assumption). lia. }
  apply G. intros e He. apply filter_In in He. apply H. apply He.
Qed.

(** weak duality *)
Theorem weak_duality_l : forall g s t f Sx, NoDup (nodes g) -> In s (nodes g) ->
  feasible g s t f -> is_cut s t Sx -> flow_value g s f <= cut_cap g Sx.
Proof.
  intros g s t f Sx Hnd Hs [Hcap Hcons] Hcut. rewrite (value_across_cut g s t f Sx Hnd Hs Hcons Hcut).
  unfold cut_cap. apply zsum_le. intros u _. apply zsum_le. intros v _.
  pose proof (Hcap u v). pose proof (Hcap v u). lia.
Qed.

Lemma flookup_In : forall fl u v, flookup fl u v <> 0 -> In (u, v, flookup fl u v) fl.
Proof.
  intros fl u v H. unfold flookup in *.
  destruct (find (fun x => (fst (fst x) =? u) && (snd (fst x) =? v)) fl) as [[[a b] c]|] eqn:E; [|congruence].
  apply find_some in E. destruct E as [E1 E2]. cbn [fst snd] in *. apply andb_true_iff in E2.
  destruct E2 as [A B]. apply Z.eqb_eq in A. apply Z.eqb_eq in B. subst. assumption.
Qed.

Theorem flow_cert_sound_l : forall g s t fl val, flow_cert g s t fl val = true -> maxflow_spec g s t val.
Proof.
  intros g s t fl val H. unfold flow_cert in H. rewrite !andb_true_iff in H.
  destruct H as [[[[[[[[[H1 H2] H3] H4] H5] H6] H7] H8] H9] H10].
  destruct H10 as [[H10 H11] H12].
  apply wfb_wf in H1. destruct H1 as [Hnd _]. apply memb_In in H2. apply memb_In in H3.
  apply negb_true_iff in H4. apply Z.eqb_neq in H4.
  rewrite forallb_forall in H6, H7, H8, H12. apply Z.eqb_eq in H9.
  set (f := flookup fl) in *.
  set (Rs := grow (res_adj g fl) (fuel_of g) [s]) in *.
  set (Sx := fun v => memb v Rs).
  assert (Hpos : forall e, In e (edges g) -> 0 <= ew e) by (intros e He; apply Z.leb_le; apply H7; assumption).
  assert (Hfeas : feasible g s t f).
  { split.
    - intros u v. destruct (Z.eq_dec (f u v) 0) as [E|E].
      + rewrite E. split; [lia|apply cap_nonneg; assumption].
      + apply flookup_In in E. specialize (H6 _ E). cbn [fst snd] in H6. rewrite !andb_true_iff in H6.
        destruct H6 as [[_ A] B]. apply Z.leb_le in A. apply Z.leb_le in B. fold f in A, B. lia.
    - intros v Hv N1 N2. specialize (H8 v Hv). rewrite !orb_true_iff in H8.
      destruct H8 as [[A|A]|A]; apply Z.eqb_eq in A; congruence. }
  assert (Hcut : is_cut s t Sx).
  { split; unfold Sx; [assumption|apply negb_true_iff; assumption]. }
  assert (Hval : cut_cap g Sx = val).
  { rewrite <- H9. change (excess g f s) with (flow_value g s f).
    rewrite (value_across_cut g s t f Sx Hnd H2 (proj2 Hfeas) Hcut). unfold cut_cap. symmetry.
    apply zsum_ext. intros u Hu. apply filter_In in Hu. destruct Hu as [Hu Su]. apply zsum_ext. intros v Hv.
    apply filter_In in Hv. destruct Hv as [Hv Sv]. unfold Sx in Su, Sv. apply negb_true_iff in Sv.
    specialize (H12 u Hu). rewrite Su in H12. cbn [negb orb] in H12. rewrite forallb_forall in H12.
    specialize (H12 v Hv). rewrite Sv in H12. cbn [orb] in H12. apply andb_true_iff in H12. destruct H12 as [A B].
    apply Z.eqb_eq in A. apply Z.eqb_eq in B. lia. }
  split; [exists f; split; [assumption|exact H9]|]. split.
  - intros f' Hf'. rewrite <- Hval. apply (weak_duality_l g s t f' Sx Hnd H2 Hf' Hcut).
  - split; [exists Sx; split; assumption|]. intros S' HS'. rewrite <- H9. apply (weak_duality_l g s t f S' Hnd H2 Hfeas HS').
Qed.
