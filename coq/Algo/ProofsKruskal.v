(** C19 — Kruskal as transcribed (after repair f6a1e05) returns a minimum spanning forest of every
    well-formed graph.  Ingredients: insertion sort by weight sorts and permutes; the union-find
    question "already connected?" is always answered ([uconnb] never runs out of fuel on edges of
    the graph); a forest with |V|-1 edges on |V| nodes connects everything (so the early exit of the
    loop loses nothing); the loop invariant gives the cycle property, hence minimality
    ([cycle_prop_min_l]). *)
From Coq Require Import ZArith List Bool Lia Relations Permutation Sorted.
From GV Require Import Algo.Cert Algo.Model Algo.ProofsBase Algo.ProofsMsf Algo.ProofsModel.
Import ListNotations.
Open Scope Z_scope.

(** * insertion sort by weight *)
Definition le_w (a b : edge) : Prop := ew a <= ew b.
Lemma insert_perm : forall e l, Permutation (insert_by_w e l) (e :: l).
Proof.
  intros e. induction l as [|x r IH]; cbn [insert_by_w]; [apply Permutation_refl|].
  destruct (ew e <=? ew x); [apply Permutation_refl|]. apply Permutation_trans with (x :: e :: r); [constructor; assumption|constructor].
Qed.
Lemma sort_perm : forall l, Permutation (sort_by_w l) l.
Proof.
  induction l as [|x r IH]; cbn [sort_by_w fold_right]; [constructor|]. fold (sort_by_w r).
  apply Permutation_trans with (x :: sort_by_w r); [apply insert_perm|constructor; assumption].
Qed.
Lemma insert_sorted : forall e l, StronglySorted le_w l -> StronglySorted le_w (insert_by_w e l).
Proof.
  intros e. induction l as [|x r IH]; intro H; cbn [insert_by_w]; [constructor; constructor|].
  inversion H as [|? ? Hr Hx]; subst. destruct (ew e <=? ew x) eqn:C.
  - apply Z.leb_le in C. constructor; [assumption|]. constructor; [assumption|].
    apply Forall_forall. intros y Hy. rewrite Forall_forall in Hx. specialize (Hx y Hy). unfold le_w in *. lia.
  - apply Z.leb_gt in C. constructor; [apply IH; assumption|]. apply Forall_forall. intros y Hy.
    apply (Permutation_in _ (insert_perm e r)) in Hy. destruct Hy as [<-|Hy]; [unfold le_w; lia|].
    rewrite Forall_forall in Hx. apply Hx. assumption.
Qed.
Lemma sort_sorted : forall l, StronglySorted le_w (sort_by_w l).
Proof.
  induction l as [|x r IH]; cbn [sort_by_w fold_right]; [constructor|]. fold (sort_by_w r). apply insert_sorted. assumption.
Qed.

(** * a forest with |V|-1 edges connects all of V *)
Section Count.
  Variable ns : list Z.
  Hypothesis Hnd : NoDup ns.

  Definition reps_ok (T : list edge) (R : list Z) : Prop :=
    NoDup R /\ incl R ns /\ (forall v, In v ns -> exists r, In r R /\ uconn T v r) /\
    (forall r r', In r R -> In r' R -> uconn T r r' -> r = r') /\ (length R + length T = length ns)%nat.

  Lemma remove_length : forall (r : Z) (R : list Z), NoDup R -> In r R -> S (length (filter (fun x => negb (x =? r)) R)) = length R.
  Proof.
    intros r. induction R as [|x R IH]; intros Hn Hin; [contradiction|]. inversion Hn as [|? ? Hx Hn']; subst. cbn [filter].
    destruct Hin as [->|Hin].
    - rewrite Z.eqb_refl. cbn [negb length]. f_equal.
      assert (E : filter (fun x => negb (x =? r)) R = R).
      { clear IH Hn Hn'. induction R as [|y R IH]; [reflexivity|]. cbn [filter]. destruct (y =? r) eqn:Ey.
        - apply Z.eqb_eq in Ey. subst. exfalso. apply Hx. left. reflexivity.
        - cbn [negb]. f_equal. apply IH. intro X. apply Hx. right. assumption. }
      rewrite E. reflexivity.
    - destruct (x =? r) eqn:Ex; [apply Z.eqb_eq in Ex; subst; contradiction|]. cbn [negb length]. f_equal. apply IH; assumption.
  Qed.

  Lemma reps_exist : forall T, forest T -> (forall e, In e T -> In (esrc e) ns /\ In (edst e) ns) -> exists R, reps_ok T R.
  Proof.
    induction T as [|e T IH]; intros F Hends.
    - exists ns. split; [assumption|]. split; [apply incl_refl|]. split; [intros v Hv; exists v; split; [assumption|apply uconn_refl]|].
      split; [intros r r' _ _ H; apply uconn_nil; assumption|cbn [length]; lia].
    - destruct (forest_cons_inv e T F) as [F' Nc].
      destruct (IH F' (fun x Hx => Hends x (or_intror Hx))) as [R [RN [RI [Rcov [Runi Rlen]]]]].
      destruct (Hends e (or_introl eq_refl)) as [Ha Hb].
      destruct (Rcov _ Ha) as [ra [Hra Ca]]. destruct (Rcov _ Hb) as [rb [Hrb Cb]].
      assert (Nab : ra <> rb).
      { intro X. subst rb. apply Nc. apply uconn_trans with ra; [assumption|apply uconn_sym; assumption]. }
      assert (I : incl T (e :: T)) by (intros x Hx; right; assumption).
      assert (He : uconn (e :: T) (esrc e) (edst e)) by (apply uconn_edge; left; reflexivity).
      exists (filter (fun x => negb (x =? rb)) R). split; [apply NoDup_filter; assumption|]. split; [|split; [|split]].
      + intros x Hx. apply filter_In in Hx. apply RI. tauto.
      + intros v Hv. destruct (Rcov v Hv) as [r [Hr Cv]]. destruct (Z.eq_dec r rb) as [->|Nr].
        * exists ra. split; [apply filter_In; split; [assumption|apply negb_true_iff; apply Z.eqb_neq; assumption]|].
          apply uconn_trans with rb; [apply (uconn_incl _ _ I); assumption|].
          apply uconn_trans with (edst e); [apply uconn_sym; apply (uconn_incl _ _ I); assumption|].
          apply uconn_trans with (esrc e); [apply uconn_sym; assumption|apply (uconn_incl _ _ I); assumption].
        * exists r. split; [apply filter_In; split; [assumption|apply negb_true_iff; apply Z.eqb_neq; assumption]|].
          apply (uconn_incl _ _ I). assumption.
      + intros r r' Hr Hr' C. apply filter_In in Hr, Hr'. destruct Hr as [Hr Nr], Hr' as [Hr' Nr'].
        apply negb_true_iff in Nr, Nr'. apply Z.eqb_neq in Nr, Nr'.
        apply uconn_cons_inv in C. destruct C as [C|[[C1 C2]|[C1 C2]]].
        * apply Runi; assumption.
        * exfalso. apply Nr'. apply (Runi r' rb Hr' Hrb). apply uconn_trans with (edst e); [apply uconn_sym; assumption|assumption].
        * exfalso. apply Nr. apply (Runi r rb Hr Hrb). apply uconn_trans with (edst e); assumption.
      + pose proof (remove_length rb R RN Hrb) as L. cbn [length]. lia.
  Qed.

  Lemma forest_full : forall T, forest T -> (forall e, In e T -> In (esrc e) ns /\ In (edst e) ns) ->
    (length T = length ns - 1)%nat -> forall a b, In a ns -> In b ns -> uconn T a b.
  Proof.
    intros T F Hends L a b Ha Hb. destruct (reps_exist T F Hends) as [R [RN [RI [Rcov [Runi Rlen]]]]].
    destruct (Rcov a Ha) as [ra [Hra Ca]]. destruct (Rcov b Hb) as [rb [Hrb Cb]].
    assert (L1 : length R = 1%nat) by (destruct ns; [contradiction|cbn [length] in *; lia]).
    destruct R as [|r [|r2 R]]; cbn [length] in L1; try lia.
    destruct Hra as [<-|[]]. destruct Hrb as [<-|[]]. apply uconn_trans with r; [assumption|apply uconn_sym; assumption].
  Qed.
End Count.

(** * the connectivity question is always answered *)
Lemma uadj_in_nodes : forall g E, wf g -> incl E (edges g) -> forall u v, In u (nodes g) -> In v (uadj E u) -> In v (nodes g).
Proof.
  intros g E [_ [_ W]] I u v _ Hv. unfold uadj in Hv. apply in_app_or in Hv. destruct Hv as [Hv|Hv];
    apply in_map_iff in Hv; destruct Hv as [e [<- He]]; apply filter_In in He; destruct He as [He _]; apply (W e (I e He)).
Qed.
Lemma uconnb_total : forall g E a b, wf g -> incl E (edges g) -> In a (nodes g) -> uconnb E (fuel_of g) a b <> None.
Proof.
  intros g E a b Hwf I Ha. unfold uconnb, reach_ok.
  rewrite (grow_closed (uadj E) (nodes g) (uadj_in_nodes g E Hwf I) (fuel_of g) [a]); [discriminate| | |].
  - constructor; [intros []|constructor].
  - intros x [<-|[]]. assumption.
  - unfold fuel_of. cbn [length]. lia.
Qed.

(** * the loop *)
Definition lighter (f : edge) (T : list edge) : list edge := filter (fun e => ew e <=? ew f) T.
Lemma lighter_incl : forall f T, incl (lighter f T) T.
Proof. intros f T x Hx. apply filter_In in Hx. tauto. Qed.
Lemma lighter_mono : forall f T T', incl T T' -> incl (lighter f T) (lighter f T').
Proof. intros f T T' I x Hx. apply filter_In in Hx. apply filter_In. split; [apply I; tauto|tauto]. Qed.

Section Loop.
  Variable g : graph.
  Hypothesis Hwf : wf g.

  Definition inv (done chosen : list edge) : Prop :=
    NoDup chosen /\ incl chosen done /\ forest chosen /\
    forall f, In f done -> uconn (lighter f chosen) (esrc f) (edst f).

  Lemma loop_inv : forall es done chosen,
    NoDup (done ++ es) -> incl (done ++ es) (edges g) ->
    (forall x y, In x done -> In y es -> ew x <= ew y) -> StronglySorted le_w es ->
    inv done chosen -> inv (done ++ es) (kruskal_loop (fuel_of g) (length (nodes g) - 1) es chosen).
  Proof.
    induction es as [|e r IH]; intros done chosen Hnd Hin Hle Hs [CN [CI [CF CU]]]; cbn [kruskal_loop].
    - rewrite app_nil_r. repeat split; assumption.
    - assert (Hends : forall x, In x chosen -> In (esrc x) (nodes g) /\ In (edst x) (nodes g)).
      { intros x Hx. destruct Hwf as [_ [_ W]]. apply W. apply Hin. apply in_or_app. left. apply CI. assumption. }
      assert (Hlight : forall f, In f (e :: r) -> incl chosen (lighter f chosen)).
      { intros f Hf x Hx. apply filter_In. split; [assumption|]. apply Z.leb_le. apply Hle; [apply CI; assumption|assumption]. }
      destruct (Nat.eqb (length chosen) (length (nodes g) - 1)) eqn:Stop.
      + (* early exit: the chosen edges already form a spanning tree *)
        apply Nat.eqb_eq in Stop. split; [assumption|]. split; [intros x Hx; apply in_or_app; left; apply CI; assumption|]. split; [assumption|].
        intros f Hf. apply in_app_or in Hf. destruct Hf as [Hf|Hf]; [apply CU; assumption|].
        apply (uconn_incl chosen); [apply Hlight; assumption|].
        destruct Hwf as [N [_ W]]. destruct (W f (Hin f (in_or_app _ _ _ (or_intror Hf)))) as [A B].
        apply (forest_full (nodes g) N chosen CF Hends Stop); assumption.
      + assert (He_in : In e (edges g)) by (apply Hin; apply in_or_app; right; left; reflexivity).
        assert (Hsrc : In (esrc e) (nodes g)) by (destruct Hwf as [_ [_ W]]; apply (W e He_in)).
        assert (Hce : incl chosen (edges g)) by (intros x Hx; apply Hin; apply in_or_app; left; apply CI; assumption).
        assert (Hnd' : NoDup ((done ++ [e]) ++ r)) by (rewrite <- app_assoc; assumption).
        assert (Hin' : incl ((done ++ [e]) ++ r) (edges g)) by (rewrite <- app_assoc; assumption).
        assert (Hle' : forall x y, In x (done ++ [e]) -> In y r -> ew x <= ew y).
        { intros x y Hx Hy. apply in_app_or in Hx. destruct Hx as [Hx|[<-|[]]]; [apply Hle; [assumption|right; assumption]|].
          inversion Hs as [|? ? _ Hall]; subst. rewrite Forall_forall in Hall. apply Hall. assumption. }
        assert (Hs' : StronglySorted le_w r) by (inversion Hs; assumption).
        assert (Enot : ~ In e done).
        { intro X. apply NoDup_remove_2 in Hnd. apply Hnd. apply in_or_app. left. assumption. }
        replace (done ++ e :: r) with ((done ++ [e]) ++ r) by (rewrite <- app_assoc; reflexivity).
        destruct (uconnb chosen (fuel_of g) (esrc e) (edst e)) as [[|]|] eqn:U.
        * (* already connected: rejected *)
          apply uconnb_true in U. apply IH; try assumption. split; [assumption|]. split; [intros x Hx; apply in_or_app; left; apply CI; assumption|].
          split; [assumption|]. intros f Hf. apply in_app_or in Hf. destruct Hf as [Hf|[<-|[]]]; [apply CU; assumption|].
          apply (uconn_incl chosen); [apply Hlight; left; reflexivity|assumption].
        * (* accepted *)
          apply uconnb_false in U. apply IH; try assumption. split; [|split; [|split]].
          -- apply (Permutation_NoDup (l := e :: chosen)); [apply Permutation_cons_append|]. constructor; [|assumption].
             intro X. apply Enot. apply CI. assumption.
          -- intros x Hx. apply in_app_or in Hx. apply in_or_app. destruct Hx as [Hx|Hx]; [left; apply CI; assumption|right; assumption].
          -- apply (forest_perm (e :: chosen)); [apply Permutation_cons_append|]. apply forest_cons; assumption.
          -- intros f Hf. apply in_app_or in Hf. destruct Hf as [Hf|[<-|[]]].
             ++ apply (uconn_incl (lighter f chosen)); [apply lighter_mono; intros x Hx; apply in_or_app; left; assumption|apply CU; assumption].
             ++ apply uconn_edge. apply filter_In. split; [apply in_or_app; right; left; reflexivity|apply Z.leb_refl].
        * exfalso. apply (uconnb_total g chosen (esrc e) (edst e) Hwf Hce Hsrc). assumption.
  Qed.
End Loop.

(** * Kruskal returns a minimum spanning forest *)
Theorem kruskal_model_msf_l : forall g, wf g -> msf_spec g (kruskal_model g).
Proof.
  intros g Hwf. unfold kruskal_model. destruct (nodes g) as [|n0 nr] eqn:En.
  - (* no nodes, hence no edges *)
    assert (E0 : edges g = []).
    { destruct Hwf as [_ [_ W]]. destruct (edges g) as [|e r]; [reflexivity|]. destruct (W e (or_introl eq_refl)) as [A _]. rewrite En in A. contradiction. }
    apply cycle_prop_min_l.
    + split; [constructor|]. split; [intros x []|]. split; [intros T1 e T2 X; destruct T1; discriminate|]. intros e He. rewrite E0 in He. contradiction.
    + intros f Hf. rewrite E0 in Hf. contradiction.
  - rewrite <- En.
    assert (ENd : NoDup (edges g)) by (destruct Hwf as [_ [N _]]; apply (NoDup_map_inv eid); assumption).
    pose proof (sort_perm (edges g)) as P.
    assert (I0 : inv [] []).
    { split; [constructor|]. split; [intros x []|]. split; [intros T1 e T2 X; destruct T1; discriminate|intros f []]. }
    destruct (loop_inv g Hwf (sort_by_w (edges g)) [] []) as [TN [TI [TF TU]]].
    + cbn [app]. apply (Permutation_NoDup (Permutation_sym P)). assumption.
    + cbn [app]. intros x Hx. apply (Permutation_in _ P). assumption.
    + intros x y [].
    + apply sort_sorted.
    + assumption.
    + cbn [app] in *. set (T := kruskal_loop (fuel_of g) (length (nodes g) - 1) (sort_by_w (edges g)) []) in *.
      assert (TU' : forall f, In f (edges g) -> uconn (lighter f T) (esrc f) (edst f)).
      { intros f Hf. apply TU. apply (Permutation_in _ (Permutation_sym P)). assumption. }
      apply cycle_prop_min_l.
      * split; [assumption|]. split; [intros x Hx; apply (Permutation_in _ P); apply TI; assumption|]. split; [assumption|].
        intros e He. apply (uconn_incl (lighter e T)); [apply lighter_incl|apply TU'; assumption].
      * intros f Hf Hnot T1 e T2 ET Hnc. destruct (Z_le_gt_dec (ew e) (ew f)) as [L|G]; [assumption|]. exfalso. apply Hnc.
        apply (uconn_incl (lighter f T)); [|apply TU'; assumption].
        intros x Hx. apply filter_In in Hx. destruct Hx as [Hx Hw]. apply Z.leb_le in Hw. rewrite ET in Hx.
        apply in_app_or in Hx. apply in_or_app. destruct Hx as [Hx|[Hx|Hx]]; [left; assumption| |right; assumption].
        subst x. lia.
Qed.
