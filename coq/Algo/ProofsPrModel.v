(** C19 — the PageRank iteration of ModelPr.v keeps the scores a probability distribution:
    for every graph with at least one node, every damping factor in [0,1], every tolerance and every
    number of iterations, the scores are non-negative and sum to exactly 1 (the dangling nodes'
    mass is redistributed, so nothing leaks). *)
From Coq Require Import ZArith List Bool Lia QArith Qabs Qminmax Qfield.
From GV Require Import Algo.Cert Algo.CertStruct Algo.ModelPr Algo.ProofsBase.
Import ListNotations.
Open Scope Q_scope.

(** * finite sums over Q *)
Lemma qsumf_cons : forall (A : Type) (f : A -> Q) x l, qsumf f (x :: l) = f x + qsumf f l.
Proof. reflexivity. Qed.
Lemma qsumf_ext : forall (A : Type) (f h : A -> Q) l, (forall x, In x l -> f x == h x) -> qsumf f l == qsumf h l.
Proof.
  intros A f h. induction l as [|x l IH]; intro H; [reflexivity|]. rewrite !qsumf_cons.
  rewrite (H x (or_introl eq_refl)). rewrite IH; [reflexivity|]. intros y Hy. apply H. right. assumption.
Qed.
Lemma qsumf_add : forall (A : Type) (f h : A -> Q) l, qsumf (fun x => f x + h x) l == qsumf f l + qsumf h l.
Proof. intros A f h. induction l as [|x l IH]; [reflexivity|]. rewrite !qsumf_cons, IH. ring. Qed.
Lemma qsumf_scal : forall (A : Type) c (f : A -> Q) l, qsumf (fun x => c * f x) l == c * qsumf f l.
Proof. intros A c f. induction l as [|x l IH]; [unfold qsumf; cbn; ring|]. rewrite !qsumf_cons, IH. ring. Qed.
Lemma qsumf_zero : forall (A : Type) (l : list A), qsumf (fun _ => 0) l == 0.
Proof. intros A. induction l as [|x l IH]; [reflexivity|]. rewrite qsumf_cons, IH. ring. Qed.
Lemma qsumf_const : forall (A : Type) c (l : list A), qsumf (fun _ => c) l == inject_Z (Z.of_nat (length l)) * c.
Proof.
  intros A c. induction l as [|x l IH]; [unfold qsumf; cbn; ring|]. rewrite qsumf_cons, IH. cbn [length]. rewrite Nat2Z.inj_succ.
  unfold Z.succ. rewrite inject_Z_plus. ring.
Qed.
Lemma qsumf_swap : forall (A B : Type) (h : A -> B -> Q) l m,
  qsumf (fun a => qsumf (fun b => h a b) m) l == qsumf (fun b => qsumf (fun a => h a b) l) m.
Proof.
  intros A B h. induction l as [|x l IH]; intro m.
  - unfold qsumf at 1. cbn [map qsum fold_right]. symmetry. apply qsumf_zero.
  - rewrite qsumf_cons. rewrite IH. rewrite <- qsumf_add. apply qsumf_ext. intros b _. rewrite qsumf_cons. reflexivity.
Qed.
Lemma Qplus_nonneg : forall a b, 0 <= a -> 0 <= b -> 0 <= a + b.
Proof. intros a b Ha Hb. rewrite <- (Qplus_0_l 0). apply Qplus_le_compat; assumption. Qed.
Lemma qsumf_nonneg : forall (A : Type) (f : A -> Q) l, (forall x, In x l -> 0 <= f x) -> 0 <= qsumf f l.
Proof.
  intros A f. induction l as [|x l IH]; intro H; [unfold qsumf; cbn; apply Qle_refl|]. rewrite qsumf_cons.
  apply Qplus_nonneg; [apply H; left; reflexivity|apply IH; intros y Hy; apply H; right; assumption].
Qed.
(** picking out one element of a duplicate-free list *)
Lemma qsumf_pick : forall (s : Z) c (l : list Z), NoDup l -> In s l -> qsumf (fun x => if (s =? x)%Z then c else 0) l == c.
Proof.
  intros s c. induction l as [|x l IH]; intros Hnd Hin; [contradiction|]. rewrite qsumf_cons.
  inversion Hnd as [|? ? Hx Hnd']; subst. destruct Hin as [->|Hin].
  - rewrite Z.eqb_refl. assert (Z0 : qsumf (fun x => if (s =? x)%Z then c else 0) l == 0).
    { rewrite <- (qsumf_zero Z l). apply qsumf_ext. intros y Hy. destruct (s =? y)%Z eqn:E; [|reflexivity]. apply Z.eqb_eq in E. subst. contradiction. }
    rewrite Z0. ring.
  - destruct (s =? x)%Z eqn:E; [apply Z.eqb_eq in E; subst; contradiction|]. rewrite IH by assumption. ring.
Qed.
(** a sum over edges, regrouped by an endpoint *)
Lemma qsumf_group : forall (key : edge -> Z) (f : edge -> Q) (ns : list Z) (E : list edge),
  NoDup ns -> (forall e, In e E -> In (key e) ns) ->
  qsumf f E == qsumf (fun v => qsumf (fun e => if (key e =? v)%Z then f e else 0) E) ns.
Proof.
  intros key f ns E Hnd Hk. rewrite qsumf_swap. apply qsumf_ext. intros e He. symmetry. apply qsumf_pick; [assumption|apply Hk; assumption].
Qed.
Lemma qsumf_count : forall (A : Type) (p : A -> bool) c (l : list A),
  qsumf (fun x => if p x then c else 0) l == inject_Z (Z.of_nat (length (filter p l))) * c.
Proof.
  intros A p c. induction l as [|x l IH]; [unfold qsumf; cbn; ring|]. rewrite qsumf_cons, IH. cbn [filter]. destruct (p x).
  - cbn [length]. rewrite Nat2Z.inj_succ. unfold Z.succ. rewrite inject_Z_plus. ring.
  - ring.
Qed.

Lemma qsumr_correct : forall (A : Type) (f : A -> Q) l, qsumr f l == qsumf f l.
Proof.
  intros A f. induction l as [|x l IH]; [reflexivity|]. rewrite qsumf_cons. cbn [qsumr fold_right]. fold (qsumr f l).
  rewrite Qred_correct, IH. reflexivity.
Qed.
(** the cheap dyadic decoder denotes the same rational as [f64_val] *)
Lemma half_double : forall y : Z, (2 * y / 2 = y)%Z.
Proof. intro y. rewrite Z.mul_comm. apply Z.div_mul. lia. Qed.
Lemma dyadic_correct : forall k z, dyadic z k == z # Pos.pow 2 (Pos.of_nat k) \/ k = O.
Proof.
  induction k as [|k IH]; intro z; [right; reflexivity|]. left. cbn [dyadic]. destruct (Z.even z) eqn:Ev; [|reflexivity].
  apply Z.even_spec in Ev. destruct Ev as [y ->]. rewrite Z.div2_div, half_double. destruct k as [|k'].
  - cbn [dyadic]. unfold Qeq. cbn [Qnum Qden]. change (Z.pos (2 ^ Pos.of_nat 1)) with 2%Z. lia.
  - destruct (IH y) as [E|E]; [|discriminate]. rewrite E. unfold Qeq. cbn [Qnum Qden].
    replace (Pos.of_nat (S (S k'))) with (Pos.succ (Pos.of_nat (S k'))) by (rewrite <- Nat2Pos.inj_succ by discriminate; reflexivity).
    rewrite Pos.pow_succ_r. rewrite Pos2Z.inj_mul. ring.
Qed.
Lemma two1074_eq : Pos.pow 2 (Pos.of_nat k1074) = two1074.
Proof. vm_compute. reflexivity. Qed.
Lemma f64_q_correct : forall b q, f64_q b = Some q -> exists q', f64_val b = Some q' /\ q == q'.
Proof.
  intros b q H. unfold f64_q, f64_val in *. pose proof two1074_eq as T. remember k1074 as k eqn:Hk.
  assert (K : k <> O) by (rewrite Hk; discriminate). clear Hk.
  destruct (f64_scaled b) as [z|]; [|discriminate]. cbn [option_map] in *. injection H as H.
  exists (z # two1074). split; [reflexivity|]. destruct (dyadic_correct k z) as [E|E]; [|contradiction].
  rewrite <- H, <- T. exact E.
Qed.

(** * the invariant *)
Definition dist_on (ns : list Z) (s : list (Z * Q)) : Prop :=
  map fst s = ns /\ (forall v, 0 <= qlookup s v) /\ qsumf (qlookup s) ns == 1.

Lemma qlookup_map : forall (F : Z -> Q) ns v, In v ns -> qlookup (map (fun j => (j, F j)) ns) v = F v.
Proof.
  intros F. induction ns as [|x r IH]; intros v Hv; [contradiction|]. unfold qlookup. cbn [map find fst snd].
  destruct (x =? v)%Z eqn:E; [apply Z.eqb_eq in E; subst; reflexivity|]. destruct Hv as [->|Hv]; [rewrite Z.eqb_refl in E; discriminate|].
  apply IH. assumption.
Qed.
Lemma qlookup_map_out : forall (F : Z -> Q) ns v, ~ In v ns -> qlookup (map (fun j => (j, F j)) ns) v = 0.
Proof.
  intros F. induction ns as [|x r IH]; intros v Hv; [reflexivity|]. unfold qlookup. cbn [map find fst snd].
  destruct (x =? v)%Z eqn:E; [apply Z.eqb_eq in E; subst; exfalso; apply Hv; left; reflexivity|]. apply IH. intro X. apply Hv. right. assumption.
Qed.
Lemma Qdiv_nonneg : forall a b, 0 <= a -> 0 <= b -> 0 <= a / b.
Proof.
  intros a b Ha Hb. unfold Qdiv. apply Qmult_le_0_compat; [assumption|]. apply Qinv_le_0_compat. assumption.
Qed.
Lemma inject_nonneg : forall z, (0 <= z)%Z -> 0 <= inject_Z z.
Proof. intros z H. unfold Qle, inject_Z. cbn. lia. Qed.

Definition pr_dsum (g : graph) (s : list (Z * Q)) : Q :=
  qsumr (fun i => if (outdeg g i =? 0)%Z then qlookup s i else 0) (nodes g).
Definition pr_base (g : graph) (d : Q) (s : list (Z * Q)) : Q :=
  (1 - d) / inject_Z (Z.of_nat (length (nodes g))) + d * pr_dsum g s / inject_Z (Z.of_nat (length (nodes g))).
Definition pr_contrib (g : graph) (d : Q) (s : list (Z * Q)) (e : edge) : Q :=
  d * qlookup s (esrc e) / inject_Z (outdeg g (esrc e)).
Definition pr_new (g : graph) (d : Q) (s : list (Z * Q)) (j : Z) : Q :=
  Qred (pr_base g d s + qsumr (fun e => if (edst e =? j)%Z then pr_contrib g d s e else 0) (edges g)).
Lemma pr_step_eq : forall g d s, pr_step g d s = map (fun j => (j, pr_new g d s j)) (nodes g).
Proof. reflexivity. Qed.

Section Step.
  Variables (g : graph) (d : Q).
  Hypothesis Hwf : wf g.
  Hypothesis Hne : nodes g <> [].
  Hypothesis Hd : 0 <= d <= 1.

  Let ns := nodes g.
  Let E := edges g.
  Let n := inject_Z (Z.of_nat (length ns)).

  Lemma n_pos : ~ n == 0.
  Proof.
    unfold n, ns. destruct (nodes g) as [|x r]; [congruence|]. cbn [length]. unfold Qeq, inject_Z. cbn [Qnum Qden]. lia.
  Qed.
  Lemma n_nonneg : 0 <= n.
  Proof. apply inject_nonneg. lia. Qed.
  Lemma outdeg_nonneg : forall i, 0 <= inject_Z (outdeg g i).
  Proof. intro i. apply inject_nonneg. unfold outdeg. lia. Qed.

  Lemma pr_step_dist : forall s, dist_on ns s -> dist_on ns (pr_step g d s).
  Proof.
    intros s [Hk [Hpos Hsum]]. rewrite pr_step_eq. fold ns.
    set (dsum := pr_dsum g s). set (base := pr_base g d s). set (c := pr_contrib g d s). set (F := pr_new g d s).
    assert (Dn : 0 <= dsum).
    { unfold dsum, pr_dsum. rewrite qsumr_correct. apply qsumf_nonneg. intros i _. destruct (outdeg g i =? 0)%Z; [apply Hpos|apply Qle_refl]. }
    assert (Bn : 0 <= base).
    { unfold base, pr_base. fold ns n dsum. destruct Hd as [D0 D1]. apply Qplus_nonneg.
      - apply Qdiv_nonneg; [|apply n_nonneg]. unfold Qminus. rewrite <- (Qplus_opp_r d). apply Qplus_le_compat; [assumption|apply Qle_refl].
      - apply Qdiv_nonneg; [|apply n_nonneg]. apply Qmult_le_0_compat; assumption. }
    assert (Cn : forall e, 0 <= c e).
    { intro e. unfold c, pr_contrib. destruct Hd as [D0 _]. apply Qdiv_nonneg; [|apply outdeg_nonneg]. apply Qmult_le_0_compat; [assumption|apply Hpos]. }
    assert (FF : forall j, F j == base + qsumf (fun e => if (edst e =? j)%Z then c e else 0) E).
    { intro j. unfold F, pr_new. rewrite Qred_correct, qsumr_correct. reflexivity. }
    split; [|split].
    - rewrite map_map. cbn [fst]. apply map_id.
    - intro v. destruct (in_dec Z.eq_dec v ns) as [Hv|Hv].
      + rewrite (qlookup_map F ns v Hv). rewrite FF. apply Qplus_nonneg; [assumption|].
        apply qsumf_nonneg. intros e _. destruct (edst e =? v)%Z; [apply Cn|apply Qle_refl].
      + rewrite (qlookup_map_out F ns v Hv). apply Qle_refl.
    - assert (X1 : qsumf (qlookup (map (fun j => (j, F j)) ns)) ns == qsumf F ns).
      { apply qsumf_ext. intros v Hv. rewrite (qlookup_map F ns v Hv). reflexivity. }
      rewrite X1. clear X1.
      assert (X2 : qsumf F ns == qsumf (fun _ => base) ns + qsumf (fun j => qsumf (fun e => if (edst e =? j)%Z then c e else 0) E) ns).
      { rewrite <- qsumf_add. apply qsumf_ext. intros j _. apply FF. }
      rewrite X2. clear X2. rewrite qsumf_const. fold n.
      destruct Hwf as [Hnd [_ Hends]].
      rewrite <- (qsumf_group edst c ns E Hnd (fun e He => proj2 (Hends e He))).
      rewrite (qsumf_group esrc c ns E Hnd (fun e He => proj1 (Hends e He))).
      assert (X3 : qsumf (fun v => qsumf (fun e => if (esrc e =? v)%Z then c e else 0) E) ns
                   == qsumf (fun v => if (outdeg g v =? 0)%Z then 0 else d * qlookup s v) ns).
      { apply qsumf_ext. intros v _.
        assert (Y : qsumf (fun e => if (esrc e =? v)%Z then c e else 0) E
                    == qsumf (fun e => if (esrc e =? v)%Z then d * qlookup s v / inject_Z (outdeg g v) else 0) E).
        { apply qsumf_ext. intros e _. destruct (esrc e =? v)%Z eqn:Ev; [|reflexivity]. apply Z.eqb_eq in Ev. unfold c, pr_contrib. rewrite Ev. reflexivity. }
        rewrite Y. rewrite qsumf_count. change (Z.of_nat (length (filter (fun e => (esrc e =? v)%Z) E))) with (outdeg g v).
        destruct (outdeg g v =? 0)%Z eqn:O.
        - apply Z.eqb_eq in O. rewrite O. ring.
        - apply Z.eqb_neq in O. field. intro X. apply O. unfold Qeq, inject_Z in X. cbn [Qnum Qden] in X. lia. }
      rewrite X3. clear X3.
      assert (X4 : qsumf (fun v => if (outdeg g v =? 0)%Z then 0 else d * qlookup s v) ns
                   == d * (qsumf (qlookup s) ns - dsum)).
      { unfold dsum, pr_dsum. rewrite qsumr_correct. fold ns.
        setoid_replace (d * (qsumf (qlookup s) ns - qsumf (fun i => if (outdeg g i =? 0)%Z then qlookup s i else 0) ns))
          with (qsumf (fun v => d * (qlookup s v + - (1) * (if (outdeg g v =? 0)%Z then qlookup s v else 0))) ns).
        - apply qsumf_ext. intros v _. destruct (outdeg g v =? 0)%Z; ring.
        - rewrite qsumf_scal, qsumf_add, qsumf_scal. ring. }
      rewrite X4, Hsum. unfold base, pr_base. fold ns n dsum. field. apply n_pos.
  Qed.
End Step.

(** * the whole iteration *)
Lemma qlookup_cons_ne : forall k v r i, k <> i -> qlookup ((k, v) :: r) i = qlookup r i.
Proof. intros k v r i H. unfold qlookup. cbn [find fst]. apply Z.eqb_neq in H. rewrite H. reflexivity. Qed.
Lemma qlookup_cons_eq : forall k v r, qlookup ((k, v) :: r) k = v.
Proof. intros k v r. unfold qlookup. cbn [find fst snd]. rewrite Z.eqb_refl. reflexivity. Qed.
Lemma qsumf_lookup : forall s, NoDup (map fst s) -> qsumf (qlookup s) (map fst s) == qsum (map snd s).
Proof.
  induction s as [|[k v] r IH]; intro Hnd; [reflexivity|]. cbn [map fst snd] in *. inversion Hnd as [|? ? Hk Hnd']; subst.
  rewrite qsumf_cons, qlookup_cons_eq. cbn [qsum fold_right]. fold (qsum (map snd r)). rewrite <- (IH Hnd').
  apply Qplus_comp; [reflexivity|]. apply qsumf_ext. intros i Hi. rewrite qlookup_cons_ne; [reflexivity|]. intro; subst; contradiction.
Qed.
Lemma qlookup_in : forall s k v, NoDup (map fst s) -> In (k, v) s -> qlookup s k = v.
Proof.
  induction s as [|[k0 v0] r IH]; intros k v Hnd Hin; [contradiction|]. cbn [map fst] in Hnd. inversion Hnd as [|? ? Hk Hnd']; subst.
  destruct Hin as [E|Hin].
  - inversion E. subst. apply qlookup_cons_eq.
  - rewrite qlookup_cons_ne; [apply IH; assumption|]. intro; subst. apply Hk. apply in_map_iff. exists (k, v). auto.
Qed.

Section Iter.
  Variables (g : graph) (d tol : Q).
  Hypothesis Hwf : wf g.
  Hypothesis Hne : nodes g <> [].
  Hypothesis Hd : 0 <= d <= 1.

  Lemma pr_init_dist : dist_on (nodes g) (pr_init g).
  Proof.
    unfold pr_init. set (F := fun _ : Z => Qred (1 / inject_Z (Z.of_nat (length (nodes g))))).
    change (map (fun v => (v, Qred (1 / inject_Z (Z.of_nat (length (nodes g)))))) (nodes g)) with (map (fun v => (v, F v)) (nodes g)).
    assert (Fn : forall v, 0 <= F v).
    { intro v. unfold F. rewrite Qred_correct. apply Qdiv_nonneg; [discriminate|]. apply inject_nonneg. lia. }
    split; [|split].
    - rewrite map_map. cbn [fst]. apply map_id.
    - intro v. destruct (in_dec Z.eq_dec v (nodes g)) as [Hv|Hv].
      + rewrite (qlookup_map F _ v Hv). apply Fn.
      + rewrite (qlookup_map_out F _ v Hv). apply Qle_refl.
    - assert (X : qsumf (qlookup (map (fun v => (v, F v)) (nodes g))) (nodes g) == qsumf F (nodes g)).
      { apply qsumf_ext. intros v Hv. rewrite (qlookup_map F _ v Hv). reflexivity. }
      rewrite X. unfold F. rewrite qsumf_const. rewrite Qred_correct. field. apply (n_pos g Hne).
  Qed.
  Lemma pr_iter_dist : forall k s, dist_on (nodes g) s -> dist_on (nodes g) (pr_iter g d tol k s).
  Proof.
    induction k as [|k IH]; intros s Hs; cbn [pr_iter]; [assumption|]. cbv zeta.
    pose proof (pr_step_dist g d Hwf Hne Hd s Hs) as H1. destruct (Qle_bool tol _); [apply IH|]; assumption.
  Qed.

  Theorem pagerank_model_distribution_l : forall k,
    map fst (pagerank_model g d tol k) = nodes g /\ distribution (map snd (pagerank_model g d tol k)).
  Proof.
    intro k. unfold pagerank_model. destruct (pr_iter_dist k (pr_init g) pr_init_dist) as [Hk [Hpos Hsum]].
    set (r := pr_iter g d tol k (pr_init g)) in *. split; [assumption|].
    assert (Hnd : NoDup (map fst r)) by (rewrite Hk; destruct Hwf; assumption). split.
    - intros x Hx. apply in_map_iff in Hx. destruct Hx as [[k0 v] [<- Hin]]. cbn [snd]. rewrite <- (qlookup_in r k0 v Hnd Hin). apply Hpos.
    - rewrite <- (qsumf_lookup r Hnd). rewrite Hk. assumption.
  Qed.
End Iter.
