(** C19 — Dijkstra as transcribed terminates: with non-negative weights every node is expanded at
    most once (popped keys never decrease, so an expanded node's distance is final and every other
    entry for it is stale), every expansion pushes at most out-degree entries, so the number of
    pops is at most 1 + sum of out-degrees.  Hence [dij_fuel] always suffices and, with
    [dijkstra_model_sound_l], the model returns the shortest-path distances. *)
From Coq Require Import ZArith List Bool Lia Relations Permutation.
From GV Require Import Algo.Cert Algo.Model Algo.Run Algo.ProofsBase Algo.ProofsPath Algo.ProofsModel Algo.ProofsDijkstra.
Import ListNotations.
Open Scope Z_scope.

Definition pair_dec : forall a b : Z * Z, {a = b} + {a <> b}.
Proof. decide equality; apply Z.eq_dec. Defined.

Lemma pop_min_perm : forall h m rest, pop_min h = Some (m, rest) ->
  Permutation h (m :: rest) /\ forall z, In z h -> fst m <= fst z.
Proof.
  induction h as [|x r IH]; intros m rest H; [discriminate|]. cbn [pop_min] in H.
  destruct (pop_min r) as [[m' r']|] eqn:P.
  - destruct (IH _ _ eq_refl) as [A B]. destruct (fst x <=? fst m') eqn:C.
    + apply Z.leb_le in C. inversion H; subst. split; [apply Permutation_refl|]. intros z [<-|Hz]; [lia|]. specialize (B z Hz). lia.
    + apply Z.leb_gt in C. inversion H; subst. split.
      * apply Permutation_trans with (x :: m :: r'); [constructor; assumption|constructor].
      * intros z [<-|Hz]; [lia|]. apply B. assumption.
  - inversion H; subst. destruct r; [|cbn in P; destruct (pop_min r) as [[? ?]|]; try destruct (_ <=? _); discriminate].
    split; [apply Permutation_refl|]. intros z [<-|[]]. lia.
Qed.

Section Term.
  Variable g : graph.
  Hypothesis Hwf : wf g.
  Hypothesis Hnn : forall e, In e (edges g) -> 0 <= ew e.

  Definition cnt (h : list (Z * Z)) (x : Z * Z) : nat := count_occ pair_dec h x.

  Definition tinv (st : dst) (X : list Z) (lo : Z) : Prop :=
    (forall k v, In (k, v) (dh st) -> lo <= k /\ In v (nodes g) /\ exists y, lookup (dd st) v = Some y /\ y <= k) /\
    (forall u, In u X -> exists y, lookup (dd st) u = Some y /\ y <= lo /\ forall k, In (k, u) (dh st) -> y < k) /\
    (forall k v, lookup (dd st) v = Some k -> (cnt (dh st) (k, v) <= 1)%nat).

  Lemma drelax_tinv : forall dist node st e X lo, In e (edges g) -> lo <= dist -> tinv st X lo ->
    tinv (drelax dist node st e) X lo /\ (length (dh (drelax dist node st e)) <= S (length (dh st)))%nat.
  Proof.
    intros dist node st e X lo He Hlo [Ta [Tb Tc]]. pose proof (Hnn e He) as Hw.
    assert (Hdst : In (edst e) (nodes g)) by (destruct Hwf as [_ [_ W]]; apply (W e He)).
    destruct (drelax_cases dist node st e) as [[E Hlt]|[E _]]; rewrite E; [|split; [exact (conj Ta (conj Tb Tc))|lia]].
    unfold tinv. cbn [dd dh length]. split; [|lia]. split; [|split].
    - intros k v [Hin|Hin].
      + inversion Hin; subst. split; [lia|]. split; [assumption|]. exists (dist + ew e). rewrite lookup_upd, Z.eqb_refl. split; [reflexivity|lia].
      + destruct (Ta k v Hin) as [A [B [y [Ly Hy]]]]. split; [assumption|]. split; [assumption|]. rewrite lookup_upd.
        destruct (edst e =? v) eqn:Ev; [|exists y; auto]. apply Z.eqb_eq in Ev. subst v. specialize (Hlt y Ly). exists (dist + ew e). split; [reflexivity|lia].
    - intros u Hu. destruct (Tb u Hu) as [y [Ly [Hy Hst]]]. assert (Nu : edst e <> u).
      { intro X0. subst u. specialize (Hlt y Ly). lia. }
      exists y. rewrite lookup_upd. apply Z.eqb_neq in Nu. rewrite Nu. split; [assumption|]. split; [assumption|].
      intros k [Hin|Hin]; [inversion Hin; subst; apply Z.eqb_neq in Nu; congruence|apply Hst; assumption].
    - intros k v Hl. rewrite lookup_upd in Hl. unfold cnt. cbn [count_occ]. destruct (edst e =? v) eqn:Ev.
      + apply Z.eqb_eq in Ev. subst v. inversion Hl. subst k. destruct (pair_dec (dist + ew e, edst e) (dist + ew e, edst e)) as [_|N]; [|congruence].
        assert (Z0 : count_occ pair_dec (dh st) (dist + ew e, edst e) = 0%nat).
        { apply count_occ_not_In. intro Hin. destruct (Ta _ _ Hin) as [_ [_ [y [Ly Hy]]]]. specialize (Hlt y Ly). lia. }
        rewrite Z0. lia.
      + destruct (pair_dec (dist + ew e, edst e) (k, v)) as [Eq|_]; [inversion Eq; subst; rewrite Z.eqb_refl in Ev; discriminate|].
        apply Tc. assumption.
  Qed.
  Lemma fold_tinv : forall dist node X lo, lo <= dist -> forall es st, incl es (edges g) -> tinv st X lo ->
    tinv (fold_left (drelax dist node) es st) X lo /\
    (length (dh (fold_left (drelax dist node) es st)) <= length (dh st) + length es)%nat.
  Proof.
    intros dist node X lo Hlo. induction es as [|e r IH]; intros st I T; cbn [fold_left length]; [split; [assumption|lia]|].
    destruct (drelax_tinv dist node st e X lo (I e (or_introl eq_refl)) Hlo T) as [T1 L1].
    destruct (IH (drelax dist node st e) (fun x Hx => I x (or_intror Hx)) T1) as [T2 L2]. split; [assumption|lia].
  Qed.
  (** the distance of a node is not touched by relaxations that cannot improve it *)
  Lemma fold_keep : forall dist node v y, y <= dist -> forall es st, incl es (edges g) -> lookup (dd st) v = Some y ->
    lookup (dd (fold_left (drelax dist node) es st)) v = Some y /\
    forall k, In (k, v) (dh (fold_left (drelax dist node) es st)) -> In (k, v) (dh st).
  Proof.
    intros dist node v y Hy. induction es as [|e r IH]; intros st I Hl; cbn [fold_left]; [auto|].
    pose proof (Hnn e (I e (or_introl eq_refl))) as Hw.
    assert (K : lookup (dd (drelax dist node st e)) v = Some y /\ forall k, In (k, v) (dh (drelax dist node st e)) -> In (k, v) (dh st)).
    { destruct (drelax_cases dist node st e) as [[E Hlt]|[E _]]; rewrite E; [|auto]. cbn [dd dh]. rewrite lookup_upd.
      destruct (edst e =? v) eqn:Ev.
      - apply Z.eqb_eq in Ev. subst v. specialize (Hlt y Hl). lia.
      - split; [assumption|]. intros k [Hin|Hin]; [inversion Hin; subst; rewrite Z.eqb_refl in Ev; discriminate|assumption]. }
    destruct K as [K1 K2]. destruct (IH (drelax dist node st e) (fun x Hx => I x (or_intror Hx)) K1) as [A B]. split; [assumption|].
    intros k Hin. apply K2. apply B. assumption.
  Qed.

  (** potential: out-degrees of the nodes not expanded yet *)
  Definition pot (X : list Z) : nat :=
    list_sum (map (fun u => length (out_edges g u)) (filter (fun u => negb (memb u X)) (nodes g))).
  Lemma pot_step_aux : forall (ns : list Z) X v, NoDup ns -> In v ns -> ~ In v X ->
    (list_sum (map (fun u => length (out_edges g u)) (filter (fun u => negb (memb u (v :: X))) ns)) + length (out_edges g v)
     = list_sum (map (fun u => length (out_edges g u)) (filter (fun u => negb (memb u X)) ns)))%nat.
  Proof.
    unfold list_sum. induction ns as [|x r IH]; intros X v Hnd Hin Hx; [contradiction|]. inversion Hnd as [|? ? Hxr Hnd']; subst. cbn [filter].
    unfold memb at 1. cbn [existsb]. fold (memb x X). destruct Hin as [->|Hin].
    - rewrite Z.eqb_refl. cbn [orb negb]. assert (M : memb v X = false) by (apply memb_false; assumption). rewrite M. cbn [negb map list_sum fold_right].
      assert (E : filter (fun u => negb (memb u (v :: X))) r = filter (fun u => negb (memb u X)) r).
      { apply filter_ext_in. intros a Ha. unfold memb at 1. cbn [existsb]. fold (memb a X). destruct (a =? v) eqn:Ea; [|reflexivity].
        apply Z.eqb_eq in Ea. subst. contradiction. }
      rewrite E. lia.
    - assert (N : (x =? v) = false) by (apply Z.eqb_neq; intro; subst; contradiction). rewrite N. cbn [orb].
      destruct (memb x X); cbn [negb]; [apply IH; assumption|]. cbn [map list_sum fold_right]. rewrite <- (IH X v Hnd' Hin Hx). lia.
  Qed.
  Lemma pot_step : forall X v, In v (nodes g) -> ~ In v X -> (pot (v :: X) + length (out_edges g v) = pot X)%nat.
  Proof. intros X v Hv Hx. destruct Hwf as [N _]. apply pot_step_aux; assumption. Qed.

  Lemma dij_terminates : forall fuel st X lo, tinv st X lo -> (length (dh st) + pot X < fuel)%nat -> dij_loop g fuel st <> None.
  Proof.
    induction fuel as [|f IH]; intros st X lo T L; [lia|]. cbn [dij_loop].
    destruct (pop_min (dh st)) as [[[k v] rest]|] eqn:P; [|discriminate].
    destruct (pop_min_perm _ _ _ P) as [Perm Min]. cbn [fst snd]. cbv zeta.
    assert (Len : length (dh st) = S (length rest)) by (rewrite (Permutation_length Perm); reflexivity).
    assert (Hin : In (k, v) (dh st)) by (apply (Permutation_in _ (Permutation_sym Perm)); left; reflexivity).
    assert (Sub : forall z, In z rest -> In z (dh st)) by (intros z Hz; apply (Permutation_in _ (Permutation_sym Perm)); right; assumption).
    destruct T as [Ta [Tb Tc]]. destruct (Ta k v Hin) as [Hlo [Hv [y [Ly Hy]]]]. rewrite Ly.
    assert (Cnt : forall x, (cnt rest x <= cnt (dh st) x)%nat).
    { intro x. unfold cnt. rewrite (proj1 (Permutation_count_occ pair_dec _ _) Perm x).
      cbn [count_occ]. destruct (pair_dec (k, v) x); lia. }
    assert (T1 : tinv (mkD (dd st) (dp st) rest) X k).
    { split; [|split]; cbn [dd dh].
      - intros k' v' Hin'. destruct (Ta k' v' (Sub _ Hin')) as [A [B C]]. split; [|auto]. apply (Min (k', v')). apply Sub. assumption.
      - intros u Hu. destruct (Tb u Hu) as [yu [Lu [Hu1 Hu2]]]. exists yu. split; [assumption|]. split; [lia|]. intros k' Hk'. apply Hu2. apply Sub. assumption.
      - intros k' v' Hl. specialize (Tc k' v' Hl). specialize (Cnt (k', v')). lia. }
    destruct (y <? k) eqn:St.
    - apply (IH _ X k T1). cbn [dh]. lia.
    - apply Z.ltb_ge in St. assert (y = k) by lia. subst y.
      assert (NX : ~ In v X).
      { intro Hx. destruct (Tb v Hx) as [yv [Lv [_ Hst]]]. rewrite Ly in Lv. inversion Lv. subst yv. specialize (Hst k Hin). lia. }
      assert (Iout : incl (out_edges g v) (edges g)) by (intros e He; unfold out_edges in He; apply filter_In in He; tauto).
      destruct (fold_tinv k v X k (Z.le_refl k) (out_edges g v) (mkD (dd st) (dp st) rest) Iout T1) as [[Fa [Fb Fc]] FL]. cbn [dh] in FL.
      destruct (fold_keep k v v k (Z.le_refl k) (out_edges g v) (mkD (dd st) (dp st) rest) Iout Ly) as [Kl Kh]. cbn [dh] in Kh.
      apply (IH _ (v :: X) k).
      + split; [assumption|]. split; [|assumption]. intros u [<-|Hu]; [|apply Fb; assumption].
        exists k. split; [assumption|]. split; [lia|]. intros k' Hk'. apply Kh in Hk'.
        (* the popped entry was the only fresh one for v *)
        assert (C1 : (cnt (dh st) (k, v) <= 1)%nat) by (apply Tc; assumption).
        assert (C0 : cnt rest (k, v) = 0%nat).
        { unfold cnt in *. rewrite (proj1 (Permutation_count_occ pair_dec _ _) Perm (k, v)) in C1.
          cbn [count_occ] in C1. destruct (pair_dec (k, v) (k, v)); [lia|congruence]. }
        destruct (Ta k' v (Sub _ Hk')) as [_ [_ [y' [Ly' Hy']]]]. rewrite Ly in Ly'. inversion Ly'. subst y'.
        destruct (Z.eq_dec k' k) as [->|Nk]; [|lia]. exfalso. unfold cnt in C0. apply (count_occ_not_In pair_dec) in C0. contradiction.
      + pose proof (pot_step X v Hv NX). lia.
  Qed.
End Term.

Lemma filter_len : forall (A : Type) (f : A -> bool) l, (length (filter f l) <= length l)%nat.
Proof. intros A f. induction l as [|x r IH]; [apply le_n|]. cbn [filter]. destruct (f x); cbn [length]; lia. Qed.
Lemma pot_bound : forall g, (pot g [] <= length (nodes g) * length (edges g))%nat.
Proof.
  intro g. unfold pot. assert (E : filter (fun u => negb (memb u [])) (nodes g) = nodes g).
  { transitivity (filter (fun _ : Z => true) (nodes g)); [apply filter_ext; intro; reflexivity|].
    induction (nodes g) as [|x r IH]; [reflexivity|cbn [filter]; f_equal; assumption]. }
  rewrite E. clear E. unfold list_sum. induction (nodes g) as [|x r IH]; cbn [map fold_right length]; [lia|].
  assert (L : (length (out_edges g x) <= length (edges g))%nat) by (unfold out_edges; apply filter_len). nia.
Qed.

(** Dijkstra as transcribed, non-negative weights: the loop ends within [dij_fuel] pops and returns the shortest-path distances *)
Theorem dijkstra_model_total_l : forall g s, wf g -> In s (nodes g) -> (forall e, In e (edges g) -> 0 <= ew e) ->
  exists st, dijkstra_model g s (dij_fuel g) = Some st /\ sssp_spec g s (lookup (dd st)) /\ ~ neg_cycle_from g s.
Proof.
  intros g s Hwf Hs Hnn.
  assert (T0 : tinv g (mkD [(s, 0)] [] [(0, s)]) [] 0).
  { split; [|split]; cbn [dd dh].
    - intros k v [Hin|[]]. inversion Hin; subst. split; [lia|]. split; [assumption|]. exists 0. unfold lookup. cbn [find fst snd]. rewrite Z.eqb_refl. split; [reflexivity|lia].
    - intros u [].
    - intros k v Hl. unfold cnt. cbn [count_occ]. destruct (pair_dec (0, s) (k, v)); lia. }
  assert (F : (length (dh (mkD [(s, 0%Z)] [] [(0%Z, s)])) + pot g [] < dij_fuel g)%nat).
  { cbn [dh length]. pose proof (pot_bound g). unfold dij_fuel. nia. }
  pose proof (dij_terminates g Hwf Hnn _ _ _ _ T0 F) as NN.
  destruct (dijkstra_model g s (dij_fuel g)) as [st|] eqn:D.
  - exists st. split; [reflexivity|]. apply (dijkstra_model_sound_l g s (dij_fuel g) st Hs D).
  - exfalso. unfold dijkstra_model in D. rewrite (proj2 (memb_In s (nodes g)) Hs) in D. congruence.
Qed.
