(** C19 — minimum spanning forests: the cycle property implies minimum weight (exchange argument),
    and the soundness of [msf_cert] / [prim_cert]. *)
From Coq Require Import ZArith List Bool Lia Relations Permutation.
From GV Require Import Algo.Cert Algo.ProofsBase.
Import ListNotations.
Open Scope Z_scope.

(** * adding one edge *)
Definition uconn_add (x y : Z) (E : list edge) (a b : Z) : Prop :=
  uconn E a b \/ (uconn E a x /\ uconn E y b) \/ (uconn E a y /\ uconn E x b).

Lemma uconn_add_swap : forall x y E a b, uconn_add x y E a b -> uconn_add y x E a b.
Proof. unfold uconn_add. intros. tauto. Qed.

Ltac uc := eauto using uconn_trans, uconn_sym, uconn_refl.

Lemma uconn_cons_inv : forall e E a b, uconn (e :: E) a b -> uconn_add (esrc e) (edst e) E a b.
Proof.
  intros e E a b H. unfold uconn_add.
  induction H as [x y [e' [[He|He] [Hs Hd]]]|x|x y _ IH|x y z _ IH1 _ IH2].
  - subst e'. subst. right. left. split; apply uconn_refl.
  - left. apply rst_step. exists e'. auto.
  - left. apply uconn_refl.
  - destruct IH as [A|[[A B]|[A B]]]; [left|right; right|right; left]; uc.
  - destruct IH1 as [A|[[A B]|[A B]]], IH2 as [C|[[C D]|[C D]]];
      try (left; solve [uc]); try (right; left; split; solve [uc]); try (right; right; split; solve [uc]).
Qed.

Lemma uconn_cons_intro : forall e E a b, uconn_add (esrc e) (edst e) E a b -> uconn (e :: E) a b.
Proof.
  intros e E a b H. assert (I : incl E (e :: E)) by (intros x Hx; right; assumption).
  assert (He : uconn (e :: E) (esrc e) (edst e)) by (apply uconn_edge; left; reflexivity).
  destruct H as [A|[[A B]|[A B]]].
  - apply (uconn_incl _ _ I). assumption.
  - apply (uconn_incl _ _ I) in A. apply (uconn_incl _ _ I) in B. uc.
  - apply (uconn_incl _ _ I) in A. apply (uconn_incl _ _ I) in B. uc.
Qed.

Lemma uconn_nil : forall a b, uconn [] a b -> a = b.
Proof.
  intros a b H. induction H as [x y [e [[] _]]|x|x y _ IH|x y z _ IH1 _ IH2]; congruence.
Qed.

Lemma uconn_dec : forall E a b, uconn E a b \/ ~ uconn E a b.
Proof.
  induction E as [|e E IH]; intros a b.
  - destruct (Z.eq_dec a b) as [->|N]; [left; apply uconn_refl|right; intro H; apply N; apply uconn_nil; assumption].
  - assert (D : uconn_add (esrc e) (edst e) E a b \/ ~ uconn_add (esrc e) (edst e) E a b).
    { unfold uconn_add. destruct (IH a b), (IH a (esrc e)), (IH (edst e) b), (IH a (edst e)), (IH (esrc e) b); tauto. }
    destruct D as [D|D]; [left; apply uconn_cons_intro; assumption|right; intro H; apply D; apply uconn_cons_inv; assumption].
Qed.

Lemma uconn_middle : forall T1 e T2 a b, uconn (T1 ++ e :: T2) a b <-> uconn (e :: T1 ++ T2) a b.
Proof.
  intros. split; apply uconn_incl; intros x Hx.
  - apply in_app_or in Hx. destruct Hx as [Hx|[Hx|Hx]]; [right; apply in_or_app; left; assumption|left; assumption|right; apply in_or_app; right; assumption].
  - destruct Hx as [Hx|Hx]; [subst; apply in_or_app; right; left; reflexivity|].
    apply in_app_or in Hx. apply in_or_app. destruct Hx; [left; assumption|right; right; assumption].
Qed.

(** connectivity of [E] is contained in any relation that contains its edges and is an equivalence *)
Lemma uconn_sub : forall E F, (forall e, In e E -> uconn F (esrc e) (edst e)) -> forall a b, uconn E a b -> uconn F a b.
Proof.
  intros E F H a b Hc. induction Hc as [x y [e [He [Hs Hd]]]|x|x y _ IH|x y z _ IH1 _ IH2]; uc.
  subst. apply H. assumption.
Qed.

(** * forests *)
Lemma forest_perm : forall T T', Permutation T T' -> forest T -> forest T'.
Proof.
  intros T T' P F A x B E Hc. subst T'.
  assert (Hin : In x T). { apply (Permutation_in _ (Permutation_sym P)). apply in_or_app. right. left. reflexivity. }
  apply in_split in Hin. destruct Hin as [A' [B' ET]]. subst T.
  apply Permutation_app_inv in P. apply (F A' x B' eq_refl).
  apply (uconn_incl (A ++ B)); [|assumption]. intros y Hy. apply (Permutation_in _ (Permutation_sym P)). assumption.
Qed.

Lemma forest_cons_inv : forall e T, forest (e :: T) -> forest T /\ ~ uconn T (esrc e) (edst e).
Proof.
  intros e T F. split.
  - intros T1 x T2 E Hc. subst T. apply (F (e :: T1) x T2 eq_refl). cbn [app].
    apply (uconn_incl (T1 ++ T2)); [intros y Hy; right; assumption|assumption].
  - apply (F [] e T eq_refl).
Qed.

Lemma forest_cons : forall e E, forest E -> ~ uconn E (esrc e) (edst e) -> forest (e :: E).
Proof.
  intros e E F N T1 x T2 Eq Hc. destruct T1 as [|y T1]; cbn [app] in Eq; inversion Eq; subst.
  - apply N. assumption.
  - cbn [app] in Hc. apply uconn_cons_inv in Hc.
    assert (I : incl (T1 ++ T2) (T1 ++ x :: T2)).
    { intros z Hz. apply in_app_or in Hz. apply in_or_app. destruct Hz; [left; assumption|right; right; assumption]. }
    assert (Hx : uconn (T1 ++ x :: T2) (esrc x) (edst x)) by (apply uconn_edge; apply in_or_app; right; left; reflexivity).
    destruct Hc as [A|[[A B]|[A B]]].
    + apply (F T1 x T2 eq_refl). assumption.
    + apply N. apply (uconn_incl _ _ I) in A. apply (uconn_incl _ _ I) in B. uc.
    + apply N. apply (uconn_incl _ _ I) in A. apply (uconn_incl _ _ I) in B. uc.
Qed.

Lemma forest_remove : forall F1 f F2, forest (F1 ++ f :: F2) -> forest (F1 ++ F2).
Proof.
  intros F1 f F2 H. apply (forest_perm _ (f :: F1 ++ F2)) in H; [|apply Permutation_sym; apply Permutation_middle].
  apply forest_cons_inv in H. apply H.
Qed.

(** * the crossing lemma: a tree path between two nodes that an equivalence [D] separates contains
    a tree edge that [D] separates and whose removal disconnects the two nodes in the tree *)
Section Crossing.
  Variable D : Z -> Z -> Prop.
  Hypothesis Drefl : forall x, D x x.
  Hypothesis Dsym : forall x y, D x y -> D y x.
  Hypothesis Dtrans : forall x y z, D x y -> D y z -> D x z.
  Hypothesis Ddec : forall x y, D x y \/ ~ D x y.

  Definition crossing (T : list edge) (a b : Z) : Prop :=
    exists T1 e T2, T = T1 ++ e :: T2 /\ ~ D (esrc e) (edst e) /\ ~ uconn (T1 ++ T2) a b.

  (** one orientation of the case where the new edge (x,y) is itself on the path *)
  Lemma crossing_bridge : forall e0 T' x y,
    (forall E a' b', uconn (e0 :: E) a' b' -> uconn_add x y E a' b') ->
    ((esrc e0 = x /\ edst e0 = y) \/ (esrc e0 = y /\ edst e0 = x)) ->
    ~ uconn T' x y ->
    (forall a b, uconn T' a b -> ~ D a b -> crossing T' a b) ->
    forall a b, ~ uconn T' a b -> ~ D a b -> uconn T' a x -> uconn T' y b -> crossing (e0 :: T') a b.
  Proof.
    intros e0 T' x y Hadd Hor Nxy IH a b Nab ND Hax Hyb.
    assert (NDe0 : ~ D x y -> ~ D (esrc e0) (edst e0)).
    { intros N H. apply N. destruct Hor as [[E1 E2]|[E1 E2]]; rewrite E1, E2 in H; [assumption|apply Dsym; assumption]. }
    destruct (Ddec x y) as [Dxy|Dxy].
    - destruct (Ddec a x) as [Dax|Dax].
      + assert (Dyb : ~ D y b) by (intro H; apply ND; eauto).
        destruct (IH y b Hyb Dyb) as [T1 [e [T2 [E [NDe Nc]]]]]. exists (e0 :: T1), e, T2.
        split; [rewrite E; reflexivity|]. split; [assumption|]. cbn [app]. intro Hc. apply Hadd in Hc.
        assert (I : incl (T1 ++ T2) T').
        { subst T'. intros z Hz. apply in_app_or in Hz. apply in_or_app. destruct Hz; [left; assumption|right; right; assumption]. }
        destruct Hc as [A|[[A B]|[A B]]].
        * apply Nab. apply (uconn_incl _ _ I). assumption.
        * apply Nc. assumption.
        * apply Nxy. apply (uconn_incl _ _ I) in A. uc.
      + destruct (IH a x Hax Dax) as [T1 [e [T2 [E [NDe Nc]]]]]. exists (e0 :: T1), e, T2.
        split; [rewrite E; reflexivity|]. split; [assumption|]. cbn [app]. intro Hc. apply Hadd in Hc.
        assert (I : incl (T1 ++ T2) T').
        { subst T'. intros z Hz. apply in_app_or in Hz. apply in_or_app. destruct Hz; [left; assumption|right; right; assumption]. }
        destruct Hc as [A|[[A B]|[A B]]].
        * apply Nab. apply (uconn_incl _ _ I). assumption.
        * apply Nc. assumption.
        * apply Nxy. apply (uconn_incl _ _ I) in B. uc.
    - exists [], e0, T'. split; [reflexivity|]. split; [apply NDe0; assumption|assumption].
  Qed.

  Lemma crossing_exists : forall T, forest T -> forall a b, uconn T a b -> ~ D a b -> crossing T a b.
  Proof.
    induction T as [|e0 T' IH]; intros F a b Hc ND.
    - apply uconn_nil in Hc. subst b. exfalso. apply ND. apply Drefl.
    - destruct (forest_cons_inv _ _ F) as [F' Ne0]. specialize (IH F').
      destruct (uconn_dec T' a b) as [Hab|Nab].
      + destruct (IH a b Hab ND) as [T1 [e [T2 [E [NDe Nc]]]]]. exists (e0 :: T1), e, T2.
        split; [rewrite E; reflexivity|]. split; [assumption|]. cbn [app]. intro H. apply uconn_cons_inv in H.
        assert (I : incl (T1 ++ T2) T').
        { subst T'. intros z Hz. apply in_app_or in Hz. apply in_or_app. destruct Hz; [left; assumption|right; right; assumption]. }
        destruct H as [A|[[A B]|[A B]]].
        * apply Nc. assumption.
        * apply Ne0. apply (uconn_incl _ _ I) in A. apply (uconn_incl _ _ I) in B. uc.
        * apply Ne0. apply (uconn_incl _ _ I) in A. apply (uconn_incl _ _ I) in B. uc.
      + pose proof (uconn_cons_inv _ _ _ _ Hc) as H. destruct H as [A|[[A B]|[A B]]]; [contradiction| |].
        * apply (crossing_bridge e0 T' (esrc e0) (edst e0)); auto.
          intros E a' b' H. apply uconn_cons_inv. assumption.
        * apply (crossing_bridge e0 T' (edst e0) (esrc e0)); auto.
          -- intros E a' b' H. apply uconn_add_swap. apply uconn_cons_inv. assumption.
          -- intro H. apply Ne0. apply uconn_sym. assumption.
  Qed.
End Crossing.

(** * minimality from the cycle property *)
Lemma wsum_perm : forall a b, Permutation a b -> wsum a = wsum b.
Proof. intros a b P. induction P; rewrite ?wsum_cons in *; try lia. Qed.

Lemma ememb_false : forall e l, ememb e l = false <-> ~ In e l.
Proof.
  intros e l. rewrite <- ememb_In. destruct (ememb e l); split; intro H; try congruence; try (exfalso; apply H; reflexivity).
Qed.

Definition cycle_prop (g : graph) (T : list edge) : Prop :=
  forall f, In f (edges g) -> ~ In f T -> forall T1 e T2, T = T1 ++ e :: T2 ->
    ~ uconn (T1 ++ T2) (esrc f) (edst f) -> ew e <= ew f.

Definition outside (T F : list edge) : list edge := filter (fun x => negb (ememb x T)) F.

Lemma msf_min_aux : forall g T, sub_forest g T -> cycle_prop g T ->
  forall k F, length (outside T F) = k -> sub_forest g F -> wsum T <= wsum F.
Proof.
  intros g T [TN [TI [TF TS]]] CP. induction k as [|k IH]; intros F Hk [FN [FI [FF FS]]].
  - (* F is contained in T, hence equal to it *)
    assert (Sub : forall x, In x F -> In x T).
    { intros x Hx. destruct (ememb x T) eqn:E; [apply ememb_In; assumption|].
      exfalso. assert (Hin : In x (outside T F)) by (apply filter_In; split; [assumption|rewrite E; reflexivity]).
      destruct (outside T F); [contradiction|discriminate]. }
    assert (P : Permutation T F).
    { apply NoDup_Permutation; [assumption|assumption|]. intro x. split; [|apply Sub].
      intro Hx. destruct (ememb x F) eqn:E; [apply ememb_In; assumption|]. apply ememb_false in E. exfalso.
      destruct (in_split _ _ Hx) as [T1 [T2 ET]]. apply (TF T1 x T2 ET).
      apply (uconn_incl F).
      - intros y Hy. pose proof (Sub y Hy) as HyT. rewrite ET in HyT. apply in_app_or in HyT. apply in_or_app.
        destruct HyT as [H|[H|H]]; [left; assumption|subst; contradiction|right; assumption].
      - apply FS. apply TI. assumption. }
    rewrite (wsum_perm _ _ P). lia.
  - (* exchange an edge of F outside T for a tree edge *)
    destruct (outside T F) as [|f r] eqn:EO; [discriminate|].
    assert (Hf : In f (outside T F)) by (rewrite EO; left; reflexivity).
    apply filter_In in Hf. destruct Hf as [HfF HfT]. apply negb_true_iff in HfT. apply ememb_false in HfT.
    destruct (in_split _ _ HfF) as [F1 [F2 EF]].
    set (a := esrc f). set (b := edst f).
    assert (Hfg : In f (edges g)) by (apply FI; assumption).
    assert (Tab : uconn T a b) by (apply TS; assumption).
    assert (Fr : forest (F1 ++ F2)) by (apply (forest_remove F1 f F2); rewrite <- EF; assumption).
    assert (NDab : ~ uconn (F1 ++ F2) a b) by (apply (FF F1 f F2 EF)).
    destruct (crossing_exists (uconn (F1 ++ F2)) (uconn_refl _) (uconn_sym _) (uconn_trans _) (uconn_dec _) T TF a b Tab NDab)
      as [T1 [e [T2 [ET [NDe Nc]]]]].
    assert (HeT : In e T) by (rewrite ET; apply in_or_app; right; left; reflexivity).
    assert (Hw : ew e <= ew f) by (apply (CP f Hfg HfT T1 e T2 ET Nc)).
    (* both ends of e are connected to a in F *)
    assert (TsubF : forall u v, uconn T u v -> uconn F u v).
    { apply uconn_sub. intros x Hx. apply FS. apply TI. assumption. }
    assert (I12 : incl (T1 ++ T2) T).
    { rewrite ET. intros z Hz. apply in_app_or in Hz. apply in_or_app. destruct Hz; [left; assumption|right; right; assumption]. }
    assert (Ends : uconn T a (esrc e) /\ uconn T a (edst e)).
    { assert (H : uconn (e :: T1 ++ T2) a b) by (apply uconn_middle; rewrite <- ET; assumption).
      assert (He : uconn T (esrc e) (edst e)) by (apply uconn_edge; assumption).
      apply uconn_cons_inv in H. destruct H as [A|[[A B]|[A B]]]; [contradiction| |].
      - apply (uconn_incl _ _ I12) in A. split; uc.
      - apply (uconn_incl _ _ I12) in A. split; uc. }
    destruct Ends as [Eas Ead]. apply TsubF in Eas. apply TsubF in Ead.
    assert (Side : forall x, uconn F a x -> uconn (F1 ++ F2) a x \/ uconn (F1 ++ F2) b x).
    { intros x H. rewrite EF in H. apply uconn_middle in H. apply uconn_cons_inv in H. fold a b in H.
      destruct H as [A|[[A B]|[A B]]]; [left; assumption|right; assumption|contradiction]. }
    assert (Fab' : uconn (e :: F1 ++ F2) a b).
    { apply uconn_cons_intro. unfold uconn_add.
      destruct (Side _ Eas) as [S1|S1], (Side _ Ead) as [S2|S2].
      - exfalso. apply NDe. uc.
      - right. left. split; uc.
      - right. right. split; uc.
      - exfalso. apply NDe. uc. }
    assert (SF' : sub_forest g (e :: F1 ++ F2)).
    { split; [|split; [|split]].
      - constructor.
        + intro Hin. apply NDe. apply uconn_edge. assumption.
        + rewrite EF in FN. apply NoDup_remove_1 in FN. assumption.
      - intros x [Hx|Hx]; [subst; apply TI; assumption|]. apply FI. rewrite EF. apply in_app_or in Hx. apply in_or_app.
        destruct Hx; [left; assumption|right; right; assumption].
      - apply forest_cons; assumption.
      - intros x Hx. specialize (FS x Hx). rewrite EF in FS. apply uconn_middle in FS. apply uconn_cons_inv in FS. fold a b in FS.
        assert (I : incl (F1 ++ F2) (e :: F1 ++ F2)) by (intros z Hz; right; assumption).
        destruct FS as [A|[[A B]|[A B]]].
        + apply (uconn_incl _ _ I). assumption.
        + apply (uconn_incl _ _ I) in A. apply (uconn_incl _ _ I) in B. uc.
        + apply (uconn_incl _ _ I) in A. apply (uconn_incl _ _ I) in B. uc. }
    assert (Hlen : length (outside T (e :: F1 ++ F2)) = k).
    { rewrite <- EO in Hk. unfold outside in *. cbn [filter]. apply ememb_In in HeT. rewrite HeT. cbn [negb].
      rewrite EF in Hk. rewrite filter_app in Hk. cbn [filter] in Hk.
      apply ememb_false in HfT. rewrite HfT in Hk. cbn [negb] in Hk.
      rewrite app_length in Hk. cbn [length] in Hk. rewrite filter_app, app_length. lia. }
    specialize (IH _ Hlen SF').
    assert (W : wsum (e :: F1 ++ F2) <= wsum F).
    { rewrite EF. rewrite wsum_cons, !wsum_app, wsum_cons. lia. }
    lia.
Qed.

Theorem cycle_prop_min_l : forall g T, sub_forest g T -> cycle_prop g T -> msf_spec g T.
Proof. intros g T S C. split; [assumption|]. intros F SF. apply (msf_min_aux g T S C _ F eq_refl SF). Qed.

(** * the checker *)
Lemma splits_spec : forall T pre T1 e T2, T = T1 ++ e :: T2 -> In (e, rev pre ++ T1 ++ T2) (splits pre T).
Proof.
  induction T as [|x r IH]; intros pre T1 e T2 E.
  - destruct T1; discriminate.
  - destruct T1 as [|y T1]; cbn [app] in E; inversion E; subst; cbn [splits].
    + left. reflexivity.
    + right. specialize (IH (y :: pre) T1 e T2 eq_refl). cbn [rev] in IH. rewrite <- app_assoc in IH. exact IH.
Qed.

Theorem msf_cert_sound_l : forall g T, msf_cert g T = true -> msf_spec g T.
Proof.
  intros g T H. unfold msf_cert in H. rewrite !andb_true_iff in H.
  destruct H as [[[[[H1 H2] H3] H4] H5] H6]. rewrite forallb_forall in H3, H4, H5, H6.
  apply cycle_prop_min_l.
  - split; [apply enodupb_NoDup; assumption|]. split; [intros e He; apply ememb_In; apply H3; assumption|]. split.
    + intros T1 e T2 E. pose proof (splits_spec T [] T1 e T2 E) as Hin. cbn [rev app] in Hin.
      specialize (H4 _ Hin). cbn [fst snd] in H4.
      destruct (uconnb (T1 ++ T2) (fuel_of g) (esrc e) (edst e)) as [[|]|] eqn:U; try discriminate.
      apply (uconnb_false _ _ _ _ U).
    + intros e He. specialize (H5 e He).
      destruct (uconnb T (fuel_of g) (esrc e) (edst e)) as [[|]|] eqn:U; try discriminate. apply (uconnb_true _ _ _ _ U).
  - intros f Hf HfT T1 e T2 E Nc. specialize (H6 f Hf). apply ememb_false in HfT. rewrite HfT in H6. cbn [orb] in H6.
    rewrite forallb_forall in H6. pose proof (splits_spec T [] T1 e T2 E) as Hin. cbn [rev app] in Hin.
    specialize (H6 _ Hin). cbn [fst snd] in H6.
    destruct (uconnb (T1 ++ T2) (fuel_of g) (esrc f) (edst f)) as [[|]|] eqn:U; try discriminate.
    + exfalso. apply Nc. apply (uconnb_true _ _ _ _ U).
    + apply Z.leb_le. assumption.
Qed.

(** two accepted forests of the same graph weigh the same (Kruskal = Prim on connected graphs) *)
Theorem msf_weight_unique_l : forall g T1 T2, msf_spec g T1 -> msf_spec g T2 -> wsum T1 = wsum T2.
Proof. intros g T1 T2 [S1 M1] [S2 M2]. specialize (M1 _ S2). specialize (M2 _ S1). lia. Qed.

(** Prim: the accepted tree is a minimum spanning tree of the start node's component *)
Theorem prim_cert_sound_l : forall g start T, prim_cert g start T = true ->
  exists g', (forall v, In v (nodes g') <-> In v (nodes g) /\ uconn (edges g) start v)
          /\ (forall e, In e (edges g') <-> In e (edges g) /\ uconn (edges g) start (esrc e) /\ uconn (edges g) start (edst e))
          /\ msf_spec g' T.
Proof.
  intros g start T H. unfold prim_cert in H. rewrite !andb_true_iff in H. destruct H as [[H1 H2] H3].
  unfold comp_graph in H3. destruct (reach_ok (uadj (edges g)) (fuel_of g) start) as [Rs|] eqn:R; [|discriminate].
  assert (Hr : forall v, In v Rs <-> uconn (edges g) start v).
  { intro v. rewrite (reach_ok_spec _ _ _ _ R v). symmetry. apply uconn_rt. }
  eexists. split; [|split; [|apply (msf_cert_sound_l _ _ H3)]]; cbn [nodes edges].
  - intro v. rewrite filter_In, memb_In, Hr. tauto.
  - intro e. rewrite filter_In, andb_true_iff, !memb_In, !Hr. tauto.
Qed.
