(** C19 — PageRank as a distribution and the local clustering coefficient: soundness of the
    checkers that read binary64 bit patterns ([pr_cert], [lcc_cert]); the PageRank iteration over
    exact rationals preserves "sums to 1, non-negative" ([pagerank_model], ProofsPrModel.v). *)
From Coq Require Import ZArith List Bool Lia QArith Qabs.
From GV Require Import Algo.Cert Algo.CertStruct Algo.ProofsBase Algo.ProofsStruct.
Import ListNotations.
Open Scope Z_scope.

Lemma scaled_all_spec : forall bits zs, scaled_all bits = Some zs -> Forall2 (fun b z => f64_scaled b = Some z) bits zs.
Proof.
  induction bits as [|b r IH]; intros zs H; cbn [scaled_all] in H.
  - inversion H. constructor.
  - destruct (f64_scaled b) as [z|] eqn:E; [|discriminate]. destruct (scaled_all r) as [t|]; [|discriminate].
    inversion H. constructor; [assumption|apply IH; reflexivity].
Qed.
Lemma qsum_scaled : forall (D : positive) zs, (qsum (map (fun z => z # D) zs) == zsuml zs # D)%Q.
Proof.
  intros D. induction zs as [|z r IH]; cbn [map qsum zsuml fold_right].
  - unfold Qeq. cbn. reflexivity.
  - fold (qsum (map (fun z => z # D) r)). fold (zsuml r). rewrite IH. unfold Qeq, Qplus. cbn [Qnum Qden]. rewrite Pos2Z.inj_mul. ring.
Qed.

Theorem pr_cert_sound_l : forall g pr, pr_cert g pr = true ->
  NoDup (map fst pr) /\ (forall v, In v (map fst pr) <-> In v (nodes g)) /\
  exists qs, Forall2 (fun b q => f64_val b = Some q) (map snd pr) qs /\
             (forall x, In x qs -> (0 <= x)%Q) /\
             (nodes g <> [] -> approx_distribution (1 # 1000000000) qs).
Proof.
  intros g pr H. unfold pr_cert in H. apply andb_true_iff in H. destruct H as [H H3]. apply andb_true_iff in H. destruct H as [H H2].
  apply andb_true_iff in H. destruct H as [_ H1].
  split; [apply nodupb_NoDup; assumption|]. split; [apply same_set_iff; assumption|].
  destruct (scaled_all (map snd pr)) as [zs|] eqn:S; [|discriminate]. apply andb_true_iff in H3. destruct H3 as [Hpos Hsum].
  apply scaled_all_spec in S. exists (map (fun z => z # two1074) zs).
  assert (P : forall x, In x (map (fun z => z # two1074) zs) -> (0 <= x)%Q).
  { intros x Hx. apply in_map_iff in Hx. destruct Hx as [z [<- Hz]]. rewrite forallb_forall in Hpos. specialize (Hpos z Hz).
    apply Z.leb_le in Hpos. unfold Qle. cbn [Qnum Qden]. lia. }
  split; [|split; [assumption|]].
  - clear -S. induction S as [|b z bits zs E _ IH]; cbn [map]; constructor; [|assumption]. unfold f64_val. rewrite E. reflexivity.
  - intro Hne. split; [assumption|]. destruct (nodes g) as [|n0 nr]; [congruence|]. apply Z.leb_le in Hsum.
    apply Qabs_Qle_condition. rewrite qsum_scaled. revert Hsum. generalize (zsuml zs) as s. generalize two1074 as D. intros D s Hsum.
    unfold Qle, Qminus, Qplus, Qopp. cbn [Qnum Qden]. rewrite !Pos2Z.inj_mul. split; nia.
Qed.

(** local clustering coefficient *)
Definition lcc_exact (g : graph) (v : Z) : Q :=
  let k := degree g v in if k <? 2 then 0%Q else tri_count g v # Z.to_pos (k * (k - 1) / 2).
Lemma lcc_exact_spec : forall g v, wf g -> lcc_spec g v (lcc_exact g v).
Proof.
  intros g v Hwf. exists (tri_count g v), (degree g v). split; [apply tri_count_ok; assumption|]. split; [apply degree_ok; assumption|].
  unfold lcc_exact. cbv zeta. destruct (degree g v <? 2) eqn:K; [reflexivity|]. apply Z.ltb_ge in K.
  assert (D : 0 < degree g v * (degree g v - 1) / 2).
  { apply Z.div_str_pos. nia. }
  rewrite Qmake_Qdiv. rewrite Z2Pos.id by assumption. reflexivity.
Qed.
Theorem lcc_cert_sound_l : forall g lc, lcc_cert g lc = true ->
  forall v, In v (nodes g) -> exists x q q0, lookup lc v = Some x /\ f64_val x = Some q /\ lcc_spec g v q0 /\
    (Qabs (q - q0) <= q0 * (1 # 9007199254740992))%Q.
Proof.
  intros g lc H v Hv. unfold lcc_cert in H. apply andb_true_iff in H. destruct H as [H H1]. apply andb_true_iff in H. destruct H as [Hwf _].
  apply wfb_wf in Hwf. rewrite forallb_forall in H1. specialize (H1 v Hv). destruct (lookup lc v) as [x|]; [|discriminate].
  unfold lcc_ok in H1. destruct (f64_scaled x) as [z|] eqn:E; [|discriminate]. cbv zeta in H1.
  exists x, (z # two1074)%Q, (lcc_exact g v). split; [reflexivity|]. split; [unfold f64_val; rewrite E; reflexivity|].
  split; [apply lcc_exact_spec; assumption|]. unfold lcc_exact. cbv zeta. destruct (degree g v <? 2) eqn:K.
  - apply Z.eqb_eq in H1. subst z. unfold Qle, Qabs, Qminus, Qplus, Qopp, Qmult. cbn. lia.
  - apply Z.ltb_ge in K. apply Z.leb_le in H1. assert (D : 0 < degree g v * (degree g v - 1) / 2) by (apply Z.div_str_pos; nia).
    revert H1. generalize (tri_count g v) as t. generalize dependent (degree g v * (degree g v - 1) / 2). intros den Dpos t.
    destruct den as [|P|P]; try lia. cbn [Z.to_pos]. generalize two1074 as DD. intros DD H1.
    apply Qabs_Qle_condition. unfold Qle, Qminus, Qplus, Qopp, Qmult. cbn [Qnum Qden]. rewrite !Pos2Z.inj_mul.
    change (Z.pos 9007199254740992) with (2 ^ 53). split; nia.
Qed.
