(** C19 — graph algorithms: the mathematical specifications (Props only; nothing here is
    computed by the check).  A graph is a list of nodes and a list of directed edges
    (source, target, identifier, integer weight); multigraphs, self-loops, isolated nodes are all
    admitted.  The harness uses integer weights, so the implementation's f64 sums are exact. *)
From Coq Require Import ZArith List Bool Lia Relations Permutation.
Import ListNotations.
Open Scope Z_scope.

Record edge := mkE { esrc : Z; edst : Z; eid : Z; ew : Z }.
Record graph := mkG { nodes : list Z; edges : list edge }.

(** well-formed: distinct nodes, distinct edge identifiers, edges join nodes of the graph *)
Definition wf (g : graph) : Prop :=
  NoDup (nodes g) /\ NoDup (map eid (edges g)) /\
  forall e, In e (edges g) -> In (esrc e) (nodes g) /\ In (edst e) (nodes g).

(** * Directed walks, reachability, distance *)
Inductive walk (g : graph) : Z -> list edge -> Z -> Prop :=
| walk_nil : forall u, walk g u [] u
| walk_cons : forall e p v, In e (edges g) -> walk g (edst e) p v -> walk g (esrc e) (e :: p) v.

Definition wsum (p : list edge) : Z := fold_right (fun e a => ew e + a) 0 p.

Definition reachable (g : graph) (s v : Z) : Prop := exists p, walk g s p v.

(** [d] is the shortest-path distance from [s] to [v]: attained by a walk, and no walk is shorter *)
Definition is_dist (g : graph) (s v d : Z) : Prop :=
  (exists p, walk g s p v /\ wsum p = d) /\ (forall p, walk g s p v -> d <= wsum p).

(** single-source result: finite entries are distances, missing entries are unreachable nodes *)
Definition sssp_spec (g : graph) (s : Z) (d : Z -> option Z) : Prop :=
  forall v, In v (nodes g) ->
    match d v with Some x => is_dist g s v x | None => ~ reachable g s v end.

(** the node sequence [l] is a real walk from [s] to [t] of total weight [w] *)
Definition real_path (g : graph) (l : list Z) (s t w : Z) : Prop :=
  exists p, walk g s p t /\ s :: map edst p = l /\ wsum p = w.

(** a negative closed walk that can be reached from [s] (then no distance from [s] to it exists) *)
Definition neg_cycle_from (g : graph) (s : Z) : Prop :=
  exists p c u, walk g s p u /\ walk g u c u /\ wsum c < 0.
Definition neg_cycle (g : graph) : Prop := exists c u, walk g u c u /\ wsum c < 0.

(** * Undirected connectivity over a list of edges *)
Definition estep (E : list edge) (u v : Z) : Prop := exists e, In e E /\ esrc e = u /\ edst e = v.
Definition uconn (E : list edge) : Z -> Z -> Prop := clos_refl_sym_trans Z (estep E).

(** weakly connected components: a labelling of all nodes that is constant exactly on connected pairs *)
Definition wcc_spec (g : graph) (lab : Z -> option Z) : Prop :=
  (forall u, In u (nodes g) -> lab u <> None) /\
  forall u v, In u (nodes g) -> In v (nodes g) -> (lab u = lab v <-> uconn (edges g) u v).

(** strongly connected components *)
Definition scc_spec (g : graph) (lab : Z -> option Z) : Prop :=
  (forall u, In u (nodes g) -> lab u <> None) /\
  forall u v, In u (nodes g) -> In v (nodes g) ->
    (lab u = lab v <-> reachable g u v /\ reachable g v u).

(** * Topological order *)
Definition before (l : list Z) (a b : Z) : Prop := exists l1 l2 l3, l = l1 ++ a :: l2 ++ b :: l3.
Definition topo_order (g : graph) (l : list Z) : Prop :=
  Permutation l (nodes g) /\ forall e, In e (edges g) -> before l (esrc e) (edst e).
(** a closed walk with at least one edge *)
Definition cyclic (g : graph) : Prop := exists e p, In e (edges g) /\ walk g (edst e) p (esrc e).

(** * Traversal: the visited list is exactly the set reachable from the start, each node once *)
Definition reach_spec (g : graph) (s : Z) (l : list Z) : Prop :=
  NoDup l /\ forall v, In v l <-> reachable g s v.

(** * Spanning forests *)
(** a forest: no edge joins two nodes that the other edges already connect (so no cycle, no
    self-loop, no doubled parallel edge) *)
Definition forest (T : list edge) : Prop :=
  forall T1 e T2, T = T1 ++ e :: T2 -> ~ uconn (T1 ++ T2) (esrc e) (edst e).
(** spans every component of the graph *)
Definition spanning (g : graph) (T : list edge) : Prop :=
  forall e, In e (edges g) -> uconn T (esrc e) (edst e).
Definition sub_forest (g : graph) (T : list edge) : Prop :=
  NoDup T /\ incl T (edges g) /\ forest T /\ spanning g T.
(** minimum spanning forest: a spanning forest no heavier than any other spanning forest *)
Definition msf_spec (g : graph) (T : list edge) : Prop :=
  sub_forest g T /\ forall F, sub_forest g F -> wsum T <= wsum F.

(** * Flows (integer capacities = edge weights; flows between node pairs, parallel edges pooled) *)
Definition zsum (f : Z -> Z) (l : list Z) : Z := fold_right (fun x a => f x + a) 0 l.
Definition cap (g : graph) (u v : Z) : Z :=
  wsum (filter (fun e => (esrc e =? u) && (edst e =? v)) (edges g)).
Definition excess (g : graph) (f : Z -> Z -> Z) (u : Z) : Z :=
  zsum (fun v => f u v - f v u) (nodes g).
Definition feasible (g : graph) (s t : Z) (f : Z -> Z -> Z) : Prop :=
  (forall u v, 0 <= f u v <= cap g u v) /\
  (forall v, In v (nodes g) -> v <> s -> v <> t -> excess g f v = 0).
Definition flow_value (g : graph) (s : Z) (f : Z -> Z -> Z) : Z := excess g f s.
(** capacity of the cut (S, V \ S) *)
Definition cut_cap (g : graph) (S : Z -> bool) : Z :=
  zsum (fun u => zsum (fun v => cap g u v) (filter (fun v => negb (S v)) (nodes g)))
       (filter S (nodes g)).
Definition is_cut (s t : Z) (S : Z -> bool) : Prop := S s = true /\ S t = false.
(** [val] is the maximum flow value and equals the minimum cut capacity *)
Definition maxflow_spec (g : graph) (s t val : Z) : Prop :=
  (exists f, feasible g s t f /\ flow_value g s f = val) /\
  (forall f, feasible g s t f -> flow_value g s f <= val) /\
  (exists S, is_cut s t S /\ cut_cap g S = val) /\
  (forall S, is_cut s t S -> val <= cut_cap g S).
