(** C19 — graph algorithms: the mathematical specifications (Props; the check computes nothing
    from here except the two edge filters [without_pair] / [without_node] and the binary64 decoder
    [f64_scaled] of the last sections, which the specifications themselves are stated with).  A graph is a list of nodes and a list of directed edges
    (source, target, identifier, integer weight); multigraphs, self-loops, isolated nodes are all
    admitted.  The harness uses integer weights, so the implementation's f64 sums are exact. *)
From Coq Require Import ZArith List Bool Lia Relations Permutation QArith Qabs.
Import ListNotations.
Open Scope Z_scope.

Record edge := mkE { esrc : Z; edst : Z; eid : Z; ew : Z }.
Record graph := mkG { nodes : list Z; edges : list edge }.

(** well-formed: distinct nodes, distinct edge identifiers, edges join nodes of the graph *)
Definition wf (g : graph) : Prop :=
  NoDup (nodes g) /\ NoDup (map eid (edges g)) /\
  forall e, In e (edges g) -> In (esrc e) (nodes g) /\ In (edst e) (nodes g).

(** * Directed walks, reachability, distance *)
Inductive walk (g : graph) : Z -> list edge -> Z -> Prop :=
| walk_nil : forall u, walk g u [] u
| walk_cons : forall e p v, In e (edges g) -> walk g (edst e) p v -> walk g (esrc e) (e :: p) v.

Definition wsum (p : list edge) : Z := fold_right (fun e a => ew e + a) 0 p.

Definition reachable (g : graph) (s v : Z) : Prop := exists p, walk g s p v.

(** [d] is the shortest-path distance from [s] to [v]: attained by a walk, and no walk is shorter *)
Definition is_dist (g : graph) (s v d : Z) : Prop :=
  (exists p, walk g s p v /\ wsum p = d) /\ (forall p, walk g s p v -> d <= wsum p).

(** single-source result: finite entries are distances, missing entries are unreachable nodes *)
Definition sssp_spec (g : graph) (s : Z) (d : Z -> option Z) : Prop :=
  forall v, In v (nodes g) ->
    match d v with Some x => is_dist g s v x | None => ~ reachable g s v end.

(** the node sequence [l] is a real walk from [s] to [t] of total weight [w] *)
Definition real_path (g : graph) (l : list Z) (s t w : Z) : Prop :=
  exists p, walk g s p t /\ s :: map edst p = l /\ wsum p = w.

(** a negative closed walk that can be reached from [s] (then no distance from [s] to it exists) *)
Definition neg_cycle_from (g : graph) (s : Z) : Prop :=
  exists p c u, walk g s p u /\ walk g u c u /\ wsum c < 0.
Definition neg_cycle (g : graph) : Prop := exists c u, walk g u c u /\ wsum c < 0.

(** * Undirected connectivity over a list of edges *)
Definition estep (E : list edge) (u v : Z) : Prop := exists e, In e E /\ esrc e = u /\ edst e = v.
Definition uconn (E : list edge) : Z -> Z -> Prop := clos_refl_sym_trans Z (estep E).

(** weakly connected components: a labelling of all nodes that is constant exactly on connected pairs *)
Definition wcc_spec (g : graph) (lab : Z -> option Z) : Prop :=
  (forall u, In u (nodes g) -> lab u <> None) /\
  forall u v, In u (nodes g) -> In v (nodes g) -> (lab u = lab v <-> uconn (edges g) u v).

(** strongly connected components *)
Definition scc_spec (g : graph) (lab : Z -> option Z) : Prop :=
  (forall u, In u (nodes g) -> lab u <> None) /\
  forall u v, In u (nodes g) -> In v (nodes g) ->
    (lab u = lab v <-> reachable g u v /\ reachable g v u).

(** * Topological order *)
Definition before (l : list Z) (a b : Z) : Prop := exists l1 l2 l3, l = l1 ++ a :: l2 ++ b :: l3.
Definition topo_order (g : graph) (l : list Z) : Prop :=
  Permutation l (nodes g) /\ forall e, In e (edges g) -> before l (esrc e) (edst e).
(** a closed walk with at least one edge *)
Definition cyclic (g : graph) : Prop := exists e p, In e (edges g) /\ walk g (edst e) p (esrc e).

(** * Traversal: the visited list is exactly the set reachable from the start, each node once *)
Definition reach_spec (g : graph) (s : Z) (l : list Z) : Prop :=
  NoDup l /\ forall v, In v l <-> reachable g s v.

(** * Spanning forests *)
(** a forest: no edge joins two nodes that the other edges already connect (so no cycle, no
    self-loop, no doubled parallel edge) *)
Definition forest (T : list edge) : Prop :=
  forall T1 e T2, T = T1 ++ e :: T2 -> ~ uconn (T1 ++ T2) (esrc e) (edst e).
(** spans every component of the graph *)
Definition spanning (g : graph) (T : list edge) : Prop :=
  forall e, In e (edges g) -> uconn T (esrc e) (edst e).
Definition sub_forest (g : graph) (T : list edge) : Prop :=
  NoDup T /\ incl T (edges g) /\ forest T /\ spanning g T.
(** minimum spanning forest: a spanning forest no heavier than any other spanning forest *)
Definition msf_spec (g : graph) (T : list edge) : Prop :=
  sub_forest g T /\ forall F, sub_forest g F -> wsum T <= wsum F.

(** * Flows (integer capacities = edge weights; flows between node pairs, parallel edges pooled) *)
Definition zsum (f : Z -> Z) (l : list Z) : Z := fold_right (fun x a => f x + a) 0 l.
Definition cap (g : graph) (u v : Z) : Z :=
  wsum (filter (fun e => (esrc e =? u) && (edst e =? v)) (edges g)).
Definition excess (g : graph) (f : Z -> Z -> Z) (u : Z) : Z :=
  zsum (fun v => f u v - f v u) (nodes g).
Definition feasible (g : graph) (s t : Z) (f : Z -> Z -> Z) : Prop :=
  (forall u v, 0 <= f u v <= cap g u v) /\
  (forall v, In v (nodes g) -> v <> s -> v <> t -> excess g f v = 0).
Definition flow_value (g : graph) (s : Z) (f : Z -> Z -> Z) : Z := excess g f s.
(** capacity of the cut (S, V \ S) *)
Definition cut_cap (g : graph) (S : Z -> bool) : Z :=
  zsum (fun u => zsum (fun v => cap g u v) (filter (fun v => negb (S v)) (nodes g)))
       (filter S (nodes g)).
Definition is_cut (s t : Z) (S : Z -> bool) : Prop := S s = true /\ S t = false.
(** [val] is the maximum flow value and equals the minimum cut capacity *)
Definition maxflow_spec (g : graph) (s t val : Z) : Prop :=
  (exists f, feasible g s t f /\ flow_value g s f = val) /\
  (forall f, feasible g s t f -> flow_value g s f <= val) /\
  (exists S, is_cut s t S /\ cut_cap g S = val) /\
  (forall S, is_cut s t S -> val <= cut_cap g S).

(** * The undirected simple view (structure algorithms treat the graph as undirected) *)
(** [u] and [v] are joined by an edge in one direction or the other ([u = v]: a self-loop) *)
Definition joined (g : graph) (u v : Z) : Prop :=
  exists e, In e (edges g) /\ ((esrc e = u /\ edst e = v) \/ (esrc e = v /\ edst e = u)).
Definition adjacent (g : graph) (u v : Z) : Prop := u <> v /\ joined g u v.
(** [c] is the number of objects satisfying [P] *)
Definition counts {A : Type} (P : A -> Prop) (c : Z) : Prop :=
  exists l, NoDup l /\ (forall x, In x l <-> P x) /\ Z.of_nat (length l) = c.

(** ** Triangles: three distinct, pairwise adjacent nodes *)
(** the triangles through [v] are the unordered pairs {a, b} of nodes adjacent to [v] and to each other *)
Definition tri_at (g : graph) (v : Z) (ab : Z * Z) : Prop :=
  fst ab < snd ab /\ adjacent g v (fst ab) /\ adjacent g v (snd ab) /\ adjacent g (fst ab) (snd ab).
Definition tri_count_spec (g : graph) (v c : Z) : Prop := counts (tri_at g v) c.
Definition tri_total_spec (g : graph) (c : Z) : Prop :=
  counts (fun t : Z * Z * Z => fst (fst t) < snd (fst t) /\ snd (fst t) < snd t /\
            adjacent g (fst (fst t)) (snd (fst t)) /\ adjacent g (snd (fst t)) (snd t) /\ adjacent g (fst (fst t)) (snd t)) c.
(** number of distinct neighbours (other than the node itself) *)
Definition degree_spec (g : graph) (v k : Z) : Prop := counts (adjacent g v) k.
(** local clustering coefficient = triangles through v / (k choose 2), 0 when k < 2; as a rational *)
Definition lcc_spec (g : graph) (v : Z) (q : Q) : Prop :=
  exists t k, tri_count_spec g v t /\ degree_spec g v k /\
    (if k <? 2 then q == 0 else q == inject_Z t / inject_Z (k * (k - 1) / 2))%Q.

(** ** k-core.  [S] is k-dense: every member is joined to at least [k] distinct members of [S]
    (convention of kcore_decomposition's adjacency sets: parallel edges count once, a self-loop makes
    a node one of its own neighbours).  The core number of [v] is the largest [k] such that [v] lies
    in a k-dense set. *)
Definition dense (g : graph) (k : Z) (S : list Z) : Prop :=
  incl S (nodes g) /\
  forall v, In v S -> exists l, NoDup l /\ incl l S /\ (forall u, In u l -> joined g v u) /\ k <= Z.of_nat (length l).
Definition core_spec (g : graph) (v k : Z) : Prop :=
  (exists S, dense g k S /\ In v S) /\ (forall S, dense g (k + 1) S -> ~ In v S).

(** ** Bridges: adjacent pairs that are disconnected once every edge between them is removed *)
Definition without_pair (E : list edge) (a b : Z) : list edge :=
  filter (fun e => negb (((esrc e =? a) && (edst e =? b)) || ((esrc e =? b) && (edst e =? a)))) E.
Definition bridge (g : graph) (a b : Z) : Prop :=
  adjacent g a b /\ ~ uconn (without_pair (edges g) a b) a b.
(** the answer lists every bridge exactly once, in one orientation *)
Definition bridges_spec (g : graph) (l : list (Z * Z)) : Prop :=
  NoDup l /\ (forall a b, In (a, b) l -> ~ In (b, a) l) /\
  forall a b, bridge g a b <-> (In (a, b) l \/ In (b, a) l).

(** ** Articulation points: nodes whose removal disconnects two other nodes that were connected *)
Definition without_node (E : list edge) (v : Z) : list edge :=
  filter (fun e => negb ((esrc e =? v) || (edst e =? v))) E.
Definition cut_vertex (g : graph) (v : Z) : Prop :=
  In v (nodes g) /\ exists a b, In a (nodes g) /\ In b (nodes g) /\ a <> v /\ b <> v /\
    uconn (edges g) a b /\ ~ uconn (without_node (edges g) v) a b.
Definition artic_spec (g : graph) (l : list Z) : Prop := NoDup l /\ forall v, In v l <-> cut_vertex g v.

(** * PageRank: the scores form a probability distribution *)
Definition qsum (l : list Q) : Q := fold_right Qplus 0%Q l.
Definition distribution (l : list Q) : Prop := (forall x, In x l -> (0 <= x)%Q) /\ (qsum l == 1)%Q.
Definition approx_distribution (eps : Q) (l : list Q) : Prop :=
  (forall x, In x l -> (0 <= x)%Q) /\ (Qabs (qsum l - 1) <= eps)%Q.
(** the real number denoted by a finite IEEE-754 binary64 bit pattern, as an integer multiple of
    2^-1074 (None: infinity or NaN) *)
Definition f64_scaled (b : Z) : option Z :=
  let s := (b / 2 ^ 63) mod 2 in
  let e := (b / 2 ^ 52) mod 2 ^ 11 in
  let m := b mod 2 ^ 52 in
  if e =? 2047 then None
  else let mag := if e =? 0 then m else (2 ^ 52 + m) * 2 ^ (e - 1) in
       Some (if s =? 1 then - mag else mag).
Definition two1074 : positive := Pos.pow 2 1074.
Definition f64_val (b : Z) : option Q := option_map (fun z => z # two1074) (f64_scaled b).
