From GV Require Import Base.Bits.
From Coq Require Import ZArith Lia List ZifyBool.
Open Scope Z_scope.

Lemma two64_val : two64 = 18446744073709551616. Proof. reflexivity. Qed.
Lemma two63_val : two63 = 9223372036854775808. Proof. reflexivity. Qed.

(** [dm] : linear arithmetic with div/mod by literals *)
Ltac dm := unfold wrap64, sint64, in_u64, in_i64, in_u64b, in_i64b in *;
           rewrite ?two64_val, ?two63_val in *;
           Z.div_mod_to_equations; lia.

Lemma in_u64b_spec z : in_u64b z = true <-> in_u64 z.
Proof. unfold in_u64b, in_u64. lia. Qed.
Lemma in_i64b_spec z : in_i64b z = true <-> in_i64 z.
Proof. unfold in_i64b, in_i64. lia. Qed.

Lemma wrap64_range z : in_u64 (wrap64 z).
Proof. dm. Qed.

Lemma wrap64_small z : in_u64 z -> wrap64 z = z.
Proof. intros. dm. Qed.

Lemma sint64_range z : in_i64 (sint64 z).
Proof.
  unfold sint64. destruct (wrap64 z <? two63) eqn:E; dm.
Qed.

Lemma sint64_small z : in_i64 z -> sint64 z = z.
Proof.
  intros H. unfold sint64. destruct (wrap64 z <? two63) eqn:E; dm.
Qed.

Lemma wrap64_sint64 z : wrap64 (sint64 z) = wrap64 z.
Proof.
  unfold sint64. destruct (wrap64 z <? two63) eqn:E; dm.
Qed.

Lemma sint64_congr a b : wrap64 a = wrap64 b -> sint64 a = sint64 b.
Proof. unfold sint64. intros ->. reflexivity. Qed.

Lemma sint64_wrap64 z : sint64 (wrap64 z) = sint64 z.
Proof. apply sint64_congr. dm. Qed.

Lemma wrap64_add_l a b : wrap64 (wrap64 a + b) = wrap64 (a + b).
Proof. unfold wrap64. apply Zplus_mod_idemp_l. Qed.
Lemma wrap64_add_r a b : wrap64 (a + wrap64 b) = wrap64 (a + b).
Proof. unfold wrap64. apply Zplus_mod_idemp_r. Qed.

(** adding then subtracting modulo 2^64: the heart of the wrapping delta round trip *)
Lemma sint64_add_sub a b : in_i64 b -> sint64 (a + sint64 (b - a)) = b.
Proof.
  intros Hb. rewrite <- (sint64_small b Hb) at 2. apply sint64_congr.
  rewrite <- wrap64_add_r, wrap64_sint64, wrap64_add_r. f_equal. lia.
Qed.

Lemma wrap64_add_sub a b : in_u64 b -> wrap64 (a + wrap64 (b - a)) = b.
Proof.
  intros Hb. rewrite wrap64_add_r. replace (a + (b - a)) with b by lia. apply wrap64_small, Hb.
Qed.

Lemma sint64_eqm x : exists k, sint64 x = x + k * two64.
Proof.
  unfold sint64, wrap64. destruct (x mod two64 <? two63).
  - exists (- (x / two64)). rewrite two64_val. Z.div_mod_to_equations; lia.
  - exists (- (x / two64) - 1). rewrite two64_val. Z.div_mod_to_equations; lia.
Qed.

Lemma wrap64_add_mul x k : wrap64 (x + k * two64) = wrap64 x.
Proof. unfold wrap64. apply Z.mod_add. rewrite two64_val. lia. Qed.
