(** Machine integers as [Z] with explicit wrap-around.  Definitions only (no proofs here,
    so that models depending on this file keep running when a proof breaks). *)
From Coq Require Export ZArith List Bool Lia.
Export ListNotations.
Open Scope Z_scope.

Definition two64 : Z := 2 ^ 64.
Definition two63 : Z := 2 ^ 63.

Definition wrap64 (z : Z) : Z := z mod two64.
(** two's-complement reinterpretation of the low 64 bits *)
Definition sint64 (z : Z) : Z :=
  let w := wrap64 z in if w <? two63 then w else w - two64.

Definition in_u64 (z : Z) : Prop := 0 <= z < two64.
Definition in_i64 (z : Z) : Prop := - two63 <= z < two63.
Definition in_u64b (z : Z) : bool := (0 <=? z) && (z <? two64).
Definition in_i64b (z : Z) : bool := (- two63 <=? z) && (z <? two63).

(** arithmetic mode of the build: [Checked] = overflow-checks on (dev/test profile),
    [Wrapping] = release profile *)
Inductive mode := Checked | Wrapping.

(** result of an operation that can panic *)
Inductive res (A : Type) := Ok (a : A) | Panic.
Arguments Ok {A} _.
Arguments Panic {A}.

Definition rbind {A B} (r : res A) (f : A -> res B) : res B :=
  match r with Ok a => f a | Panic => Panic end.
Definition rmap {A B} (f : A -> B) (r : res A) : res B :=
  match r with Ok a => Ok (f a) | Panic => Panic end.

Definition add_i64 (m : mode) (a b : Z) : res Z :=
  let r := a + b in
  match m with
  | Checked => if in_i64b r then Ok r else Panic
  | Wrapping => Ok (sint64 r)
  end.
Definition sub_i64 (m : mode) (a b : Z) : res Z :=
  let r := a - b in
  match m with
  | Checked => if in_i64b r then Ok r else Panic
  | Wrapping => Ok (sint64 r)
  end.

Definition wrapping_add_u64 (a b : Z) : Z := wrap64 (a + b).
Definition wrapping_add_i64 (a b : Z) : Z := sint64 (a + b).
Definition wrapping_sub_i64 (a b : Z) : Z := sint64 (a - b).
Definition saturating_sub_u64 (a b : Z) : Z := if a <? b then 0 else a - b.

(** [zl] marks a byte list literal written by the harness *)
Definition zl (l : list Z) : list Z := l.

Fixpoint list_eqb {A} (eqb : A -> A -> bool) (l1 l2 : list A) : bool :=
  match l1, l2 with
  | [], [] => true
  | a :: r1, b :: r2 => eqb a b && list_eqb eqb r1 r2
  | _, _ => false
  end.
Definition zlist_eqb := list_eqb Z.eqb.

Definition option_eqb {A} (eqb : A -> A -> bool) (o1 o2 : option A) : bool :=
  match o1, o2 with
  | Some a, Some b => eqb a b
  | None, None => true
  | _, _ => false
  end.

Definition res_eqb {A} (eqb : A -> A -> bool) (r1 r2 : res A) : bool :=
  match r1, r2 with
  | Ok a, Ok b => eqb a b
  | Panic, Panic => true
  | _, _ => false
  end.

(** little-endian bytes of the low [n] bytes of [z] *)
Fixpoint le_bytes (n : nat) (z : Z) : list Z :=
  match n with
  | O => []
  | S k => (z mod 256) :: le_bytes k (z / 256)
  end.
Fixpoint of_le_bytes (l : list Z) : Z :=
  match l with
  | [] => 0
  | b :: r => b + 256 * of_le_bytes r
  end.
