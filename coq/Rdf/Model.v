(** C13 — model of the RDF triple store of
    grafeo-core/src/graph/rdf/{term,triple,store}.rs.  Definitions only (no proofs).

    Strings are the byte lists of their UTF-8 encoding ([list Z]); term equality is the
    derived [PartialEq] of the Rust enums, i.e. structural equality of these byte lists.
    Hash maps/sets are association lists / duplicate-free lists: iteration order of the Rust
    containers is not modelled (every observable is compared as a sorted list), the order of the
    [Vec]s stored in the indexes is (push at the end, [retain] keeps the order). *)
From Coq Require Export ZArith List Bool.
From GV Require Export Base.Bits.
Export ListNotations.
Open Scope Z_scope.

(** * Terms (term.rs) *)

Definition str := list Z.
Definition str_eqb : str -> str -> bool := list_eqb Z.eqb.

(** [Term::Iri(Iri{value})], [Term::BlankNode(BlankNode{id})],
    [Term::Literal(Literal{value, datatype, language})] *)
Inductive term :=
| Iri (value : str)
| Blank (id : str)
| Lit (value datatype : str) (language : option str).

(** "http://www.w3.org/2001/XMLSchema#" *)
Definition XSD : str :=
  [104;116;116;112;58;47;47;119;119;119;46;119;51;46;111;114;103;47;50;48;48;49;47;88;77;76;83;99;104;101;109;97;35].
Definition XSD_STRING : str := XSD ++ [115;116;114;105;110;103].
Definition XSD_INTEGER : str := XSD ++ [105;110;116;101;103;101;114].
Definition XSD_DOUBLE : str := XSD ++ [100;111;117;98;108;101].
Definition XSD_BOOLEAN : str := XSD ++ [98;111;111;108;101;97;110].
(** "http://www.w3.org/1999/02/22-rdf-syntax-ns#langString" *)
Definition RDF_LANG_STRING : str :=
  [104;116;116;112;58;47;47;119;119;119;46;119;51;46;111;114;103;47;49;57;57;57;47;48;50;47;50;50;45;114;100;102;45;115;121;110;116;97;120;45;110;115;35;108;97;110;103;83;116;114;105;110;103].

(** [Term::literal], [Term::typed_literal], [Term::lang_literal] *)
Definition lit_plain (v : str) : term := Lit v XSD_STRING None.
Definition lit_typed (v dt : str) : term := Lit v dt None.
Definition lit_lang (v l : str) : term := Lit v RDF_LANG_STRING (Some l).
Definition lit_int (v : str) : term := Lit v XSD_INTEGER None.

Definition term_eqb (a b : term) : bool :=
  match a, b with
  | Iri x, Iri y => str_eqb x y
  | Blank x, Blank y => str_eqb x y
  | Lit v d l, Lit v' d' l' => str_eqb v v' && str_eqb d d' && option_eqb str_eqb l l'
  | _, _ => false
  end.

(** * Triples and patterns (triple.rs) *)

Record triple := Triple { t_s : term; t_p : term; t_o : term }.

Definition triple_eqb (a b : triple) : bool :=
  term_eqb (t_s a) (t_s b) && term_eqb (t_p a) (t_p b) && term_eqb (t_o a) (t_o b).

(** [TriplePattern]: [None] = variable *)
Record pattern := Pattern { p_s : option term; p_p : option term; p_o : option term }.

Definition opt_matches (o : option term) (x : term) : bool :=
  match o with Some c => term_eqb c x | None => true end.

(** [TriplePattern::matches]: subject, then predicate, then object *)
Definition matches (p : pattern) (t : triple) : bool :=
  if negb (opt_matches (p_s p) (t_s t)) then false
  else if negb (opt_matches (p_p p) (t_p t)) then false
  else if negb (opt_matches (p_o p) (t_o t)) then false
  else true.

(** * The store (store.rs) *)

(** an index: [HashMap<Term, Vec<Arc<Triple>>>] *)
Definition amap := list (term * list triple).

Fixpoint alookup (k : term) (m : amap) : option (list triple) :=
  match m with
  | [] => None
  | (k', v) :: r => if term_eqb k k' then Some v else alookup k r
  end.

(** [index.entry(k).or_default().push(t)] *)
Fixpoint idx_push (k : term) (t : triple) (m : amap) : amap :=
  match m with
  | [] => [(k, [t])]
  | (k', v) :: r => if term_eqb k k' then (k', v ++ [t]) :: r else (k', v) :: idx_push k t r
  end.

Definition is_nil {A} (l : list A) : bool := match l with [] => true | _ => false end.

(** [if let Some(vec) = index.get_mut(k) { vec.retain(|x| x != t); if vec.is_empty() { index.remove(k); } }] *)
Fixpoint idx_remove (k : term) (t : triple) (m : amap) : amap :=
  match m with
  | [] => []
  | (k', v) :: r =>
      if term_eqb k k' then
        let v' := filter (fun x => negb (triple_eqb x t)) v in
        if is_nil v' then r else (k', v') :: r
      else (k', v) :: idx_remove k t r
  end.

Inductive pending := PInsert (t : triple) | PDelete (t : triple).

Record store := Store {
  cfg_obj : bool;                         (* config.index_objects *)
  triples : list triple;                  (* FxHashSet<Arc<Triple>> *)
  sidx : amap;                            (* subject_index *)
  pidx : amap;                            (* predicate_index *)
  oidx : option amap;                     (* object_index: Some iff created with index_objects *)
  txbuf : list (Z * list pending)         (* tx_buffer.buffers *)
}.

(** [RdfStore::with_config] *)
Definition init (index_objects : bool) : store :=
  Store index_objects [] [] [] (if index_objects then Some [] else None) [].

Definition memb (t : triple) (l : list triple) : bool := existsb (triple_eqb t) l.

(** [RdfStore::insert]: contains-check, primary set, subject index, predicate index, object index
    (in this order; four separately locked updates) *)
Definition insert (s : store) (t : triple) : store * bool :=
  if memb t (triples s) then (s, false)
  else
    let tr := triples s ++ [t] in
    let si := idx_push (t_s t) t (sidx s) in
    let pi := idx_push (t_p t) t (pidx s) in
    let oi := if cfg_obj s
              then match oidx s with Some ix => Some (idx_push (t_o t) t ix) | None => None end
              else oidx s in
    (Store (cfg_obj s) tr si pi oi (txbuf s), true).

(** [RdfStore::remove]: primary set first; indexes only when the triple was present *)
Definition remove (s : store) (t : triple) : store * bool :=
  if negb (memb t (triples s)) then (s, false)
  else
    let tr := filter (fun x => negb (triple_eqb x t)) (triples s) in
    let si := idx_remove (t_s t) t (sidx s) in
    let pi := idx_remove (t_p t) t (pidx s) in
    let oi := if cfg_obj s
              then match oidx s with Some ix => Some (idx_remove (t_o t) t ix) | None => None end
              else oidx s in
    (Store (cfg_obj s) tr si pi oi (txbuf s), true).

(** [RdfStore::clear] (the transaction buffers are not touched) *)
Definition clear (s : store) : store :=
  Store (cfg_obj s) [] [] []
        (match oidx s with Some _ => Some [] | None => None end) (txbuf s).

Definition len (s : store) : Z := Z.of_nat (length (triples s)).
Definition is_empty (s : store) : bool := is_nil (triples s).
Definition contains (s : store) (t : triple) : bool := memb t (triples s).

Definition idx_get (k : term) (m : amap) : list triple :=
  match alookup k m with Some v => v | None => [] end.

(** [RdfStore::find]: subject index, else predicate index, else object index when
    [config.index_objects], else full scan; always re-filtered with the whole pattern *)
Definition find (s : store) (p : pattern) : list triple :=
  match p_s p, p_p p, p_o p with
  | Some x, _, _ => filter (matches p) (idx_get x (sidx s))
  | None, Some x, _ => filter (matches p) (idx_get x (pidx s))
  | None, None, Some x =>
      if cfg_obj s then
        match oidx s with
        | Some ix => filter (matches p) (idx_get x ix)
        | None => []
        end
      else filter (matches p) (triples s)
  | None, None, None => filter (matches p) (triples s)
  end.

Definition with_subject (s : store) (x : term) : list triple := idx_get x (sidx s).
Definition with_predicate (s : store) (x : term) : list triple := idx_get x (pidx s).
(** falls back to a full scan when the object index does not exist *)
Definition with_object (s : store) (x : term) : list triple :=
  match oidx s with
  | Some ix => idx_get x ix
  | None => filter (fun t => term_eqb (t_o t) x) (triples s)
  end.

Definition term_memb (x : term) (l : list term) : bool := existsb (term_eqb x) l.
Fixpoint dedup_terms (l : list term) : list term :=
  match l with
  | [] => []
  | x :: r => if term_memb x r then dedup_terms r else x :: dedup_terms r
  end.

Definition subjects (s : store) : list term := map fst (sidx s).
Definition predicates (s : store) : list term := map fst (pidx s).
Definition objects (s : store) : list term :=
  match (if cfg_obj s then oidx s else None) with
  | Some ix => map fst ix
  | None => dedup_terms (map t_o (triples s))
  end.

Record stats := Stats { triple_count : Z; subject_count : Z; predicate_count : Z; object_count : Z }.

(** [RdfStore::stats]: the object count is 0 without the object index (documented) *)
Definition get_stats (s : store) : stats :=
  Stats (len s) (Z.of_nat (length (sidx s))) (Z.of_nat (length (pidx s)))
        (if cfg_obj s then match oidx s with Some ix => Z.of_nat (length ix) | None => 0 end else 0).

(** ** transaction buffers *)

Fixpoint buf_get (tx : Z) (b : list (Z * list pending)) : option (list pending) :=
  match b with
  | [] => None
  | (k, v) :: r => if k =? tx then Some v else buf_get tx r
  end.
Fixpoint buf_push (tx : Z) (o : pending) (b : list (Z * list pending)) : list (Z * list pending) :=
  match b with
  | [] => [(tx, [o])]
  | (k, v) :: r => if k =? tx then (k, v ++ [o]) :: r else (k, v) :: buf_push tx o r
  end.
Fixpoint buf_del (tx : Z) (b : list (Z * list pending)) : list (Z * list pending) :=
  match b with
  | [] => []
  | (k, v) :: r => if k =? tx then r else (k, v) :: buf_del tx r
  end.

Definition set_txbuf (s : store) (b : list (Z * list pending)) : store :=
  Store (cfg_obj s) (triples s) (sidx s) (pidx s) (oidx s) b.

Definition insert_in_tx (s : store) (tx : Z) (t : triple) : store :=
  set_txbuf s (buf_push tx (PInsert t) (txbuf s)).
Definition remove_in_tx (s : store) (tx : Z) (t : triple) : store :=
  set_txbuf s (buf_push tx (PDelete t) (txbuf s)).

Definition apply_pending (s : store) (o : pending) : store :=
  match o with
  | PInsert t => fst (insert s t)
  | PDelete t => fst (remove s t)
  end.

(** [commit_tx]: the buffer is taken out, then every operation is applied in order *)
Definition commit_tx (s : store) (tx : Z) : store * Z :=
  let ops := match buf_get tx (txbuf s) with Some l => l | None => [] end in
  let s1 := set_txbuf s (buf_del tx (txbuf s)) in
  (fold_left apply_pending ops s1, Z.of_nat (length ops)).

Definition rollback_tx (s : store) (tx : Z) : store * Z :=
  (set_txbuf s (buf_del tx (txbuf s)),
   match buf_get tx (txbuf s) with Some l => Z.of_nat (length l) | None => 0 end).

Definition has_pending_ops (s : store) (tx : Z) : bool :=
  match buf_get tx (txbuf s) with Some l => negb (is_nil l) | None => false end.

Definition pending_deletes (ops : list pending) : list triple :=
  flat_map (fun o => match o with PDelete t => [t] | _ => [] end) ops.
Definition pending_inserts (ops : list pending) : list triple :=
  flat_map (fun o => match o with PInsert t => [t] | _ => [] end) ops.

(** [find_with_pending]: committed matches minus the pending deletes, then every matching
    pending insert appended (no duplicate check, inserts are not subject to the deletes) *)
Definition find_with_pending (s : store) (p : pattern) (tx : option Z) : list triple :=
  let res := find s p in
  match tx with
  | None => res
  | Some tx =>
      match buf_get tx (txbuf s) with
      | None => res
      | Some ops =>
          let dels := pending_deletes ops in
          let res' := if is_nil dels then res else filter (fun t => negb (memb t dels)) res in
          res' ++ filter (matches p) (pending_inserts ops)
      end
  end.

(** * The state machine *)

Inductive op :=
| Insert (t : triple) | Remove (t : triple) | Clear
| Find (p : pattern) | WithSubject (x : term) | WithPredicate (x : term) | WithObject (x : term)
| Len | IsEmpty | Contains (t : triple) | Triples | Subjects | Predicates | Objects | GetStats
| InsertTx (tx : Z) (t : triple) | RemoveTx (tx : Z) (t : triple) | CommitTx (tx : Z)
| RollbackTx (tx : Z) | HasPending (tx : Z) | FindPending (p : pattern) (tx : option Z).

Inductive out :=
| OUnit | OBool (b : bool) | OZ (n : Z) | OTriples (l : list triple) | OTerms (l : list term)
| OStats (st : stats).

Definition step (s : store) (o : op) : store * out :=
  match o with
  | Insert t => let (s', b) := insert s t in (s', OBool b)
  | Remove t => let (s', b) := remove s t in (s', OBool b)
  | Clear => (clear s, OUnit)
  | Find p => (s, OTriples (find s p))
  | WithSubject x => (s, OTriples (with_subject s x))
  | WithPredicate x => (s, OTriples (with_predicate s x))
  | WithObject x => (s, OTriples (with_object s x))
  | Len => (s, OZ (len s))
  | IsEmpty => (s, OBool (is_empty s))
  | Contains t => (s, OBool (contains s t))
  | Triples => (s, OTriples (triples s))
  | Subjects => (s, OTerms (subjects s))
  | Predicates => (s, OTerms (predicates s))
  | Objects => (s, OTerms (objects s))
  | GetStats => (s, OStats (get_stats s))
  | InsertTx tx t => (insert_in_tx s tx t, OUnit)
  | RemoveTx tx t => (remove_in_tx s tx t, OUnit)
  | CommitTx tx => let (s', n) := commit_tx s tx in (s', OZ n)
  | RollbackTx tx => let (s', n) := rollback_tx s tx in (s', OZ n)
  | HasPending tx => (s, OBool (has_pending_ops s tx))
  | FindPending p tx => (s, OTriples (find_with_pending s p tx))
  end.

(** the state after a sequence of operations *)
Definition run (s : store) (ops : list op) : store := fold_left (fun s o => fst (step s o)) ops s.
