(** C13 — model of what [GrafeoDB::execute_sparql] does with a query of the core:
    sparql_translator.rs (group translation, literal_to_value), planner_rdf.rs (triple scans,
    joins on equal column names, left joins, positional union, filter evaluation over rendered
    strings, projection/sort by column name) and the physical operators of
    grafeo-core/src/execution/operators it is planned onto (NestedLoopJoin, Filter, Project,
    Sort, Distinct, Skip, Limit, SimpleAggregate) including their chunk behaviour.  Definitions only.  This is a transcription of the code as it is,
    defects included; the W3C semantics is [GV.Rdf.Algebra]. *)
From GV Require Export Rdf.Algebra.
Open Scope Z_scope.

(** * values *)

(** a result cell: [Value::Null], [Value::String], [Value::Int64] *)
Inductive cell := CNull | CStr (s : str) | CInt (n : Z).

Definition cell_eqb (a b : cell) : bool :=
  match a, b with
  | CNull, CNull => true
  | CStr x, CStr y => str_eqb x y
  | CInt x, CInt y => x =? y
  | _, _ => false
  end.

(** [term_to_string] / [push_term_value]: IRIs as their text, blank nodes as "_:id", literals as
    their lexical form (datatype and language tag are dropped) *)
Definition render (t : term) : str :=
  match t with
  | Iri s => s
  | Blank b => 95 :: 58 :: b
  | Lit v _ _ => v
  end.

(** [i64::to_string] *)
Fixpoint nat_digits (fuel : nat) (n : Z) (acc : str) : str :=
  match fuel with
  | O => acc
  | S f => let acc' := (48 + n mod 10) :: acc in
           if n / 10 =? 0 then acc' else nat_digits f (n / 10) acc'
  end.
Definition z_to_str (n : Z) : str :=
  if n <? 0 then 45 :: nat_digits 20 (- n) [] else nat_digits 20 n [].

(** [str::parse::<i64>] *)
Definition parse_i64 (s : str) : option Z :=
  match parse_int s with
  | Some n => if in_i64b n then Some n else None
  | None => None
  end.

(** a constant as the translator sees it: [Value::String] or [Value::Int64] *)
Inductive cval := KStr (s : str) | KInt (n : Z).

(** [SparqlTranslator::literal_to_value] (integer branch only: other numeric/boolean
    datatypes are outside the modelled core) and [resolve_iri] for IRIs in expressions *)
Definition const_value (t : term) : cval :=
  match t with
  | Iri s => KStr s
  | Blank b => KStr (95 :: 58 :: b)
  | Lit v d _ =>
      if str_eqb d XSD_INTEGER then match parse_i64 v with Some n => KInt n | None => KStr v end
      else KStr v
  end.

(** [component_to_term]: the term a constant of a triple pattern / of INSERT DATA becomes *)
Definition const_term (t : term) : term :=
  match t with
  | Iri s => Iri s
  | Blank b => Blank b          (* not reached: blank nodes are turned into variables *)
  | Lit _ _ _ =>
      match const_value t with
      | KStr s => lit_plain s
      | KInt n => Lit (z_to_str n) XSD_INTEGER None
      end
  end.

(** * chunks and tables *)

(** a [DataChunk]: physical rows with their selection flag *)
Definition row := list cell.
Definition chunk := list (bool * row).
Definition live (c : chunk) : list row := map snd (filter fst c).
Definition fresh (rs : list row) : chunk := map (fun r => (true, r)) rs.

(** Before dfd360c [ValueVector::push_value(Value::Null)] marked only the first null of a vector:
    the validity bitmap was created at the first null and never extended, so every later null read
    back as the column default (the empty string).  Kept as the [_pre] transcription. *)
Fixpoint requirk_row (seen : list bool) (r : row) : row * list bool :=
  match r with
  | [] => ([], seen)
  | c :: r' =>
      let s := match seen with b :: _ => b | [] => false end in
      let rest := match seen with _ :: t => t | [] => [] end in
      let (r2, seen2) := requirk_row rest r' in
      match c with
      | CNull => ((if s then CStr [] else CNull) :: r2, true :: seen2)
      | _ => (c :: r2, s :: seen2)
      end
  end.
Fixpoint requirk_rows (seen : list bool) (rs : list row) : list row :=
  match rs with
  | [] => []
  | r :: rest => let (r2, seen2) := requirk_row seen r in r2 :: requirk_rows seen2 rest
  end.
Definition build_pre (rs : list row) : list chunk :=
  match rs with [] => [] | _ => [fresh (requirk_rows [] rs)] end.
(** a freshly materialised chunk (none when there is no row); since dfd360c every null pushed
    into a vector stays a null *)
Definition build (rs : list row) : list chunk :=
  match rs with [] => [] | _ => [fresh rs] end.

Record tbl := Tbl { t_cols : list nat; t_chunks : list chunk }.

Inductive res (A : Type) := Err | Unsup | Done (a : A).
Arguments Err {A}. Arguments Unsup {A}. Arguments Done {A} a.
Definition bindr {A B} (r : res A) (f : A -> res B) : res B :=
  match r with Err => Err | Unsup => Unsup | Done a => f a end.

(** the column a name resolves to: [columns.iter().enumerate().map(..).collect::<HashMap>()]
    keeps the last of equal names *)
Fixpoint col_index_from (i : nat) (v : nat) (cols : list nat) : option nat :=
  match cols with
  | [] => None
  | c :: r => match col_index_from (S i) v r with
              | Some j => Some j
              | None => if Nat.eqb c v then Some i else None
              end
  end.
Definition col_index (v : nat) (cols : list nat) : option nat := col_index_from 0 v cols.

(** * triple scan ([plan_triple_scan], [RdfTripleScanOperator]) *)

Definition tpos_term (p : tpos) : option term :=
  match p with TVar _ => None | TConst t => Some (const_term t) end.
Definition scan_pattern (tp : tpat) : pattern :=
  Pattern (tpos_term (tp_s tp)) (tpos_term (tp_p tp)) (tpos_term (tp_o tp)).
Definition scan_cols (tp : tpat) : list nat := tpat_vars tp.
Definition scan_row (tp : tpat) (t : triple) : row :=
  (match tp_s tp with TVar _ => [CStr (render (t_s t))] | _ => [] end) ++
  (match tp_p tp with TVar _ => [CStr (render (t_p t))] | _ => [] end) ++
  (match tp_o tp with TVar _ => [CStr (render (t_o t))] | _ => [] end).
Definition scan (st : store) (tp : tpat) : tbl :=
  Tbl (scan_cols tp) (match find st (scan_pattern tp) with
                      | [] => []
                      | ts => [fresh (map (scan_row tp) ts)]
                      end).

(** * joins ([plan_join], [plan_left_join], [NestedLoopJoinOperator], [RdfJoinCondition]) *)

Definition nat_memb (x : nat) (l : list nat) : bool := existsb (Nat.eqb x) l.
Fixpoint enum_from {A} (i : nat) (l : list A) : list (nat * A) :=
  match l with [] => [] | x :: r => (i, x) :: enum_from (S i) r end.
Definition shared_cols (lc rc : list nat) : list (nat * nat) :=
  flat_map (fun '(li, l) => flat_map (fun '(ri, r) => if Nat.eqb l r then [(li, ri)] else []) (enum_from 0 rc))
           (enum_from 0 lc).
(** right columns whose name does not occur on the left *)
Definition keep_right (lc rc : list nat) : list nat :=
  flat_map (fun '(ri, r) => if nat_memb r lc then [] else [ri]) (enum_from 0 rc).

Definition cond_holds (sh : list (nat * nat)) (l r : row) : bool :=
  forallb (fun '(li, ri) => match nth_error l li, nth_error r ri with
                            | Some a, Some b => cell_eqb a b
                            | _, _ => false
                            end) sh.
Definition pick (idx : list nat) (r : row) : row :=
  flat_map (fun i => match nth_error r i with Some c => [c] | None => [] end) idx.

Definition well_formed (t : tbl) : bool :=
  forallb (fun c => forallb (fun br => Nat.eqb (length (snd br)) (length (t_cols t))) c) (t_chunks t).

(** all rows of the right side (materialised once), in order *)
Definition all_live (cs : list chunk) : list row := flat_map live cs.

Definition join_tbl (outer : bool) (l r : tbl) : res tbl :=
  if negb (well_formed l && well_formed r) then Unsup else
  let sh := shared_cols (t_cols l) (t_cols r) in
  let kr := keep_right (t_cols l) (t_cols r) in
  let rrows := all_live (t_chunks r) in
  let cols := t_cols l ++ map (fun i => nth i (t_cols r) O) kr in
  let nulls := repeat CNull (length kr) in
  let one (lrow : row) : list row :=
      let ms := flat_map (fun rrow => if cond_holds sh lrow rrow then [lrow ++ pick kr rrow] else []) rrows in
      match ms with
      | [] => if outer then [lrow ++ nulls] else []
      | _ => ms
      end in
  let chunks :=
      match rrows, outer with
      | [], false => []                  (* "right side is empty and not a left outer join" *)
      | _, _ => flat_map (fun c => build (flat_map one (live c))) (t_chunks l)
      end in
  Done (Tbl cols chunks).

(** * filter ([plan_filter], [RdfExpressionPredicate], [FilterOperator]) *)

Inductive ival := INull | IBool (b : bool) | IInt (n : Z) | IStr (s : str).
Definition ival_of_cell (c : cell) : ival :=
  match c with CNull => INull | CStr s => IStr s | CInt n => IInt n end.
Definition ival_eqb (a b : ival) : bool :=
  match a, b with
  | INull, INull => true
  | IBool x, IBool y => Bool.eqb x y
  | IInt x, IInt y => x =? y
  | IStr x, IStr y => str_eqb x y
  | _, _ => false
  end.
Definition as_bool (v : ival) : option bool := match v with IBool b => Some b | _ => None end.

(** [str::parse::<f64>] restricted to the lexical forms the check generates: an optional sign and
    decimal digits (no fraction, exponent, "inf"/"nan"); values stay far below 2^53 *)
Definition parse_num (s : str) : option Z := parse_int s.

(** [compare_values] *)
Definition icompare (a b : ival) : option comparison :=
  match a, b with
  | IInt x, IInt y => Some (x ?= y)
  | IStr x, IStr y =>
      match parse_num x, parse_num y with
      | Some n, Some k => Some (n ?= k)
      | _, _ => Some (str_cmp x y)
      end
  | IStr x, IInt y => match parse_num x with Some n => Some (n ?= y) | None => None end
  | IInt x, IStr y => match parse_num y with Some k => Some (x ?= k) | None => None end
  | _, _ => None
  end.

Definition icmp (o : cmpop) (a b : ival) : option ival :=
  match o with
  | CEq => Some (IBool (ival_eqb a b))
  | CNe => Some (IBool (negb (ival_eqb a b)))
  | _ => match icompare a b with Some c => Some (IBool (cmp_holds o c)) | None => None end
  end.

Definition ival_of_const (t : term) : ival :=
  match const_value t with KStr s => IStr s | KInt n => IInt n end.

Definition var_val (cols : list nat) (r : row) (v : nat) : option ival :=
  match col_index v cols with
  | None => None
  | Some i => match nth_error r i with Some c => Some (ival_of_cell c) | None => None end
  end.

Fixpoint ieval (cols : list nat) (r : row) (e : expr) : option ival :=
  match e with
  | EVar v => var_val cols r v
  | EConst t => Some (ival_of_const t)
  | ECmp o a b =>
      match ieval cols r a, ieval cols r b with
      | Some x, Some y => icmp o x y
      | _, _ => None
      end
  | EAnd a b =>
      match ieval cols r a, ieval cols r b with
      | Some x, Some y =>
          match as_bool x with
          | None => None
          | Some false => Some (IBool false)
          | Some true => match as_bool y with Some by_ => Some (IBool by_) | None => None end
          end
      | _, _ => None
      end
  | EOr a b =>
      match ieval cols r a, ieval cols r b with
      | Some x, Some y =>
          match as_bool x with
          | None => None
          | Some true => Some (IBool true)
          | Some false => match as_bool y with Some by_ => Some (IBool by_) | None => None end
          end
      | _, _ => None
      end
  | ENot a => match ieval cols r a with
              | Some x => match as_bool x with Some b => Some (IBool (negb b)) | None => None end
              | None => None
              end
  | EBound v => Some (IBool (match var_val cols r v with Some _ => true | None => false end))
  end.

Definition ipred (cols : list nat) (e : expr) (r : row) : bool :=
  match ieval cols r e with Some (IBool true) => true | _ => false end.

(** [FilterOperator::next] (since df57ccb): the predicate is evaluated on the rows the chunk's
    selection still selects (a chunk without a selection vector = every row selected); rows that
    an operator below deselected stay deselected; chunks without a passing row are skipped *)
Definition filter_chunk (cols : list nat) (e : expr) (c : chunk) : list chunk :=
  let c' := map (fun br => (fst br && ipred cols e (snd br), snd br)) c in
  if existsb fst c' then [c'] else [].
(** before df57ccb: the predicate was evaluated on every physical row and the resulting selection
    replaced the one the chunk came with (rows dropped by a filter below came back) *)
Definition filter_chunk_pre (cols : list nat) (e : expr) (c : chunk) : list chunk :=
  let c' := map (fun br => (ipred cols e (snd br), snd br)) c in
  if existsb fst c' then [c'] else [].
Definition filter_tbl (e : expr) (t : tbl) : tbl :=
  Tbl (t_cols t) (flat_map (filter_chunk (t_cols t) e) (t_chunks t)).

(** * the pattern part of the plan ([translate_graph_pattern] on the canonical rendering) *)

Fixpoint plan_bgp (st : store) (acc : option tbl) (tps : list tpat) : res (option tbl) :=
  match tps with
  | [] => Done acc
  | tp :: r =>
      match acc with
      | None => plan_bgp st (Some (scan st tp)) r
      | Some a => bindr (join_tbl false a (scan st tp)) (fun j => plan_bgp st (Some j) r)
      end
  end.

Fixpoint plan_pat (st : store) (p : pat) : res tbl :=
  match p with
  | PBgp tps => bindr (plan_bgp st None tps) (fun o => match o with Some t => Done t | None => Err end)
  | PJoin a b => bindr (plan_pat st a) (fun ta => bindr (plan_pat st b) (fun tb => join_tbl false ta tb))
  | POpt a b c =>
      bindr (plan_pat st a) (fun ta =>
      bindr (plan_pat st b) (fun tb =>
        join_tbl true ta (match c with Some e => filter_tbl e tb | None => tb end)))
  | PFilter c a => bindr (plan_pat st a) (fun ta => Done (filter_tbl c ta))
  | PUnion a b =>
      (* [plan_union]: the columns of the first input; the chunks of all inputs one after another *)
      bindr (plan_pat st a) (fun ta => bindr (plan_pat st b) (fun tb =>
        Done (Tbl (t_cols ta) (t_chunks ta ++ t_chunks tb))))
  end.

(** * solution modifiers *)

(** [SimpleAggregateOperator] with one COUNT-star: always one row *)
Definition count_col : nat := 1000.   (* the column named by the alias of [(COUNT-star AS ?c)] *)
Definition count_tbl (t : tbl) : tbl :=
  Tbl [count_col] [fresh [[CInt (Z.of_nat (length (all_live (t_chunks t))))]]].

(** [compare_values_with_nulls] with [NullOrder::NullsLast], then [compare_values] *)
Definition sort_cmp_cell (a b : option cell) : comparison :=
  let isnull (x : option cell) := match x with None => true | Some CNull => true | _ => false end in
  match isnull a, isnull b with
  | true, true => Eq
  | true, false => Gt
  | false, true => Lt
  | false, false =>
      match a, b with
      | Some (CStr x), Some (CStr y) => str_cmp x y
      | Some (CInt x), Some (CInt y) => x ?= y
      | _, _ => Eq
      end
  end.
Fixpoint sort_cmp (keys : list (nat * bool)) (a b : row) : comparison :=
  match keys with
  | [] => Eq
  | (i, desc) :: r =>
      let c := sort_cmp_cell (nth_error a i) (nth_error b i) in
      let c := if desc then flip c else c in
      match c with Eq => sort_cmp r a b | _ => c end
  end.

Fixpoint resolve_keys (cols : list nat) (keys : list (nat * bool)) : option (list (nat * bool)) :=
  match keys with
  | [] => Some []
  | (v, d) :: r =>
      match col_index v cols, resolve_keys cols r with
      | Some i, Some r' => Some ((i, d) :: r')
      | _, _ => None
      end
  end.

(** [plan_sort] + [SortOperator]: everything is materialised into one chunk (stable sort) *)
Definition sort_tbl (keys : list (nat * bool)) (t : tbl) : res tbl :=
  match keys with
  | [] => Done t
  | _ =>
      match resolve_keys (t_cols t) keys with
      | None => Err
      | Some ks =>
          if negb (well_formed t) then Unsup
          else Done (Tbl (t_cols t) (build (sort_by (sort_cmp ks) (all_live (t_chunks t)))))
      end
  end.

(** [SkipOperator] *)
Fixpoint skip_chunks (k : nat) (cs : list chunk) : list chunk :=
  match k with
  | O => cs
  | _ =>
      match cs with
      | [] => []
      | c :: r =>
          let n := length (live c) in
          if Nat.leb n k then skip_chunks (k - n) r
          else build (skipn k (live c)) ++ r
      end
  end.

(** [LimitOperator] *)
Fixpoint limit_chunks (k : nat) (cs : list chunk) : list chunk :=
  match k with
  | O => []
  | _ =>
      match cs with
      | [] => []
      | c :: r =>
          let n := length (live c) in
          if Nat.eqb n 0 then limit_chunks k r
          else if Nat.leb n k then c :: limit_chunks (k - n) r
          else build (firstn k (live c))
      end
  end.

(** [plan_project]: every projected variable must be a column *)
Fixpoint resolve_vars (cols : list nat) (vs : list nat) : option (list nat) :=
  match vs with
  | [] => Some []
  | v :: r => match col_index v cols, resolve_vars cols r with
              | Some i, Some r' => Some (i :: r')
              | _, _ => None
              end
  end.
Fixpoint pick_strict (idx : list nat) (r : row) : option row :=
  match idx with
  | [] => Some []
  | i :: rest => match nth_error r i, pick_strict rest r with
                 | Some c, Some r' => Some (c :: r')
                 | _, _ => None
                 end
  end.
Fixpoint map_opt {A B} (f : A -> option B) (l : list A) : option (list B) :=
  match l with
  | [] => Some []
  | x :: r => match f x, map_opt f r with Some y, Some r' => Some (y :: r') | _, _ => None end
  end.
(** [ProjectOperator]: one fresh chunk per input chunk; a missing column is an error *)
Definition project_tbl (vs : list nat) (t : tbl) : res tbl :=
  match resolve_vars (t_cols t) vs with
  | None => Err
  | Some idx =>
      match map_opt (fun c => map_opt (pick_strict idx) (live c)) (t_chunks t) with
      | None => Err
      | Some cs => Done (Tbl vs (map (fun rs => fresh rs) cs))
      end
  end.

(** the column names of the plan of a pattern (planning does not look at the data) *)
Definition join_cols (lc rc : list nat) : list nat :=
  lc ++ map (fun i => nth i rc O) (keep_right lc rc).
Fixpoint bgp_cols (acc : option (list nat)) (tps : list tpat) : option (list nat) :=
  match tps with
  | [] => acc
  | tp :: r => bgp_cols (Some (match acc with None => scan_cols tp | Some a => join_cols a (scan_cols tp) end)) r
  end.
Fixpoint pat_cols (p : pat) : option (list nat) :=
  match p with
  | PBgp tps => bgp_cols None tps
  | PJoin a b | POpt a b _ =>
      match pat_cols a, pat_cols b with Some ca, Some cb => Some (join_cols ca cb) | _, _ => None end
  | PFilter _ a => pat_cols a
  | PUnion a b => match pat_cols a, pat_cols b with Some ca, Some _ => Some ca | _, _ => None end
  end.
(** errors the planner raises before anything is executed: a sort key or a projected variable
    that is not a column of its input *)
Definition plan_ok (q : query) : bool :=
  match pat_cols (q_pat q) with
  | None => true      (* an empty group: reported by [plan_pat] *)
  | Some cols =>
      let cols1 := match q_proj q with ProjCount => [count_col] | _ => cols end in
      (match q_order q with
       | [] => true
       | ks => match resolve_keys cols1 ks with Some _ => true | None => false end
       end)
      && (match q_proj q with
          | ProjVars ((_ :: _) as vs) => match resolve_vars cols1 vs with Some _ => true | None => false end
          | _ => true
          end)
  end.

(** [DistinctOperator] (all columns): one output chunk per input chunk holding the rows of the
    chunk not seen before; row keys are Null / String / Int64 per cell *)
Definition drow_eqb : row -> row -> bool := list_eqb cell_eqb.
Fixpoint dedup_seen (seen : list row) (rs : list row) : list row * list row :=
  match rs with
  | [] => ([], seen)
  | r :: rest =>
      if existsb (drow_eqb r) seen then dedup_seen seen rest
      else let (out, seen') := dedup_seen (r :: seen) rest in (r :: out, seen')
  end.
Fixpoint distinct_chunks (seen : list row) (cs : list chunk) : list chunk :=
  match cs with
  | [] => []
  | c :: r => let (out, seen') := dedup_seen seen (live c) in build out ++ distinct_chunks seen' r
  end.
Definition distinct_tbl (t : tbl) : res tbl :=
  if negb (well_formed t) then Unsup else Done (Tbl (t_cols t) (distinct_chunks [] (t_chunks t))).

(** the whole of [execute_sparql] for a SELECT query of the core ([translate_select] since
    c4f453a: pattern, aggregate, Sort, Project — unless an aggregate is selected or the projection
    is [*] —, Distinct, Skip, Limit) *)
Definition run_select (st : store) (q : query) : res (list nat * list row) :=
  if negb (plan_ok q) then Err else
  bindr (plan_pat st (q_pat q)) (fun t0 =>
  bindr (match q_proj q with
         | ProjCount => match q_order q with [] => Done (count_tbl t0) | _ => Unsup end
         | _ => Done t0
         end) (fun t1 =>
  bindr (sort_tbl (q_order q) t1) (fun t2 =>
  bindr (match q_proj q with
         | ProjVars ((_ :: _) as vs) => project_tbl vs t2
         | _ => Done t2
         end) (fun t3 =>
  bindr (if q_distinct q then distinct_tbl t3 else Done t3) (fun t4 =>
  let t5 := match q_offset q with Some k => Tbl (t_cols t4) (skip_chunks k (t_chunks t4)) | None => t4 end in
  let t6 := match q_limit q with Some k => Tbl (t_cols t5) (limit_chunks k (t_chunks t5)) | None => t5 end in
  Done (t_cols t6, all_live (t_chunks t6))))))).

(** before c4f453a: Sort, Skip, Limit, Distinct (which [plan_operator] dropped), Project *)
Definition run_select_pre (st : store) (q : query) : res (list nat * list row) :=
  if negb (plan_ok q) then Err else
  bindr (plan_pat st (q_pat q)) (fun t0 =>
  bindr (match q_proj q with
         | ProjCount => match q_order q with [] => Done (count_tbl t0) | _ => Unsup end
         | _ => Done t0
         end) (fun t1 =>
  bindr (sort_tbl (q_order q) t1) (fun t2 =>
  let t3 := match q_offset q with Some k => Tbl (t_cols t2) (skip_chunks k (t_chunks t2)) | None => t2 end in
  let t4 := match q_limit q with Some k => Tbl (t_cols t3) (limit_chunks k (t_chunks t3)) | None => t3 end in
  bindr (match q_proj q with
         | ProjVars ((_ :: _) as vs) => project_tbl vs t4
         | _ => Done t4
         end) (fun t5 =>
  Done (t_cols t5, all_live (t_chunks t5)))))).

(** the store [execute_sparql] runs against: [RdfStore::new()] (object index on) filled with the
    data set *)
Definition store_of (ds : list triple) : store := run (init true) (map Insert ds).
(** the same with the iteration order of the primary hash set as observed on the implementation
    ([order] is a permutation of the stored triples; the order is an input, not a prediction) *)
Definition store_of_ordered (ds order : list triple) : store :=
  let s := store_of ds in Store (cfg_obj s) order (sidx s) (pidx s) (oidx s) (txbuf s).

(** * INSERT DATA / DELETE DATA ([translate_insert_data], [plan_insert_triple], ...):
    every triple goes through [component_to_term]; blank nodes are rejected ("Unbound variable") *)
Definition has_blank (t : triple) : bool :=
  match t_s t, t_p t, t_o t with
  | Blank _, _, _ => true | _, Blank _, _ => true | _, _, Blank _ => true
  | _, _, _ => false
  end.
Definition conv_triple (t : triple) : triple :=
  Triple (const_term (t_s t)) (const_term (t_p t)) (const_term (t_o t)).
Definition run_update (st : store) (u : update) : res store :=
  match u with
  | InsertData ts =>
      if existsb has_blank ts then Err
      else match ts with [] => Err | _ => Done (run st (map (fun t => Insert (conv_triple t)) ts)) end
  | DeleteData ts =>
      if existsb has_blank ts then Err
      else match ts with [] => Err | _ => Done (run st (map (fun t => Remove (conv_triple t)) ts)) end
  end.
