(** C13 — vocabulary for the statements that relate the engine model to the algebra
    (definitions only). *)
From GV Require Export Rdf.Spec Rdf.Run.
Open Scope Z_scope.

(** the row the engine holds for a solution mapping: the rendered values of the columns *)
Definition sol_cell (m : sol) (v : nat) : cell :=
  match nth v m None with Some t => CStr (render t) | None => CNull end.
Definition sol_row (cols : list nat) (m : sol) : row := map (sol_cell m) cols.

(** all terms of a set of triples *)
Definition graph_terms (g : list triple) : list term := flat_map triple_terms g.

(** no two different terms of the list are rendered to the same string (outside class S3) *)
Definition render_injective_on (ts : list term) : Prop :=
  forall a b, In a ts -> In b ts -> render a = render b -> a = b.

Definition tpat_consts (tp : tpat) : list term :=
  tpos_consts (tp_s tp) ++ tpos_consts (tp_p tp) ++ tpos_consts (tp_o tp).

(** a basic graph pattern outside the classes S2 (a variable twice in one triple pattern) and
    S4 (a constant the translator does not keep), over variables below [n] *)
Definition bgp_plain (n : nat) (tps : list tpat) : Prop :=
  tps <> [] /\
  (forall tp, In tp tps ->
     NoDup (tpat_vars tp) /\
     (forall c, In c (tpat_consts tp) -> const_term c = c) /\
     (forall v, In v (tpat_vars tp) -> (v < n)%nat)).

(** * the declarative reading of a basic graph pattern (SPARQL 1.1 section 18.3):
    a solution is a mapping whose domain is exactly the variables of the pattern and which
    instantiates every triple pattern to a triple of the graph *)
Definition inst_pos (m : sol) (p : tpos) : option term :=
  match p with TConst c => Some c | TVar v => nth v m None end.
Definition inst_tp (m : sol) (tp : tpat) : option triple :=
  match inst_pos m (tp_s tp), inst_pos m (tp_p tp), inst_pos m (tp_o tp) with
  | Some a, Some b, Some c => Some (Triple a b c)
  | _, _, _ => None
  end.
Definition bgp_solution (n : nat) (g : list triple) (tps : list tpat) (m : sol) : Prop :=
  length m = n /\
  (forall v, nth v m None <> None <-> In v (flat_map tpat_vars tps)) /\
  (forall tp, In tp tps -> exists t, inst_tp m tp = Some t /\ In t g).
