(** C13 — proofs about the SPARQL algebra of Rdf/Algebra.v: compatibility and merge of solution
    mappings, Join is commutative (as a multiset) and associative, a basic graph pattern evaluates
    to the same multiset in any order of its triple patterns and is exactly the set of mappings
    the W3C definition describes, LeftJoin / Filter / Union / Distinct / slice / COUNT and the two
    DATA updates obey their specifications. *)
From GV Require Import Rdf.Algebra Rdf.ProofsStore.
From Coq Require Import Lia Permutation.
Open Scope Z_scope.

(** * generic list lemmas *)

Lemma flat_map_nil_f : forall {A B} (l : list A), flat_map (fun _ : A => @nil B) l = [].
Proof. intros A B l. induction l as [|x l IH]; [reflexivity|exact IH]. Qed.

Lemma flat_map_ext_in : forall {A B} (f g : A -> list B) l,
  (forall x, In x l -> f x = g x) -> flat_map f l = flat_map g l.
Proof.
  intros A B f g l H. induction l as [|x l IH]; [reflexivity|]. cbn [flat_map].
  rewrite (H x (or_introl eq_refl)). f_equal. apply IH. intros y Hy. apply H. right. exact Hy.
Qed.

Lemma flat_map_flat_map : forall {A B C} (f : B -> list C) (g : A -> list B) l,
  flat_map f (flat_map g l) = flat_map (fun x => flat_map f (g x)) l.
Proof.
  intros A B C f g l. induction l as [|x l IH]; [reflexivity|]. cbn [flat_map].
  rewrite flat_map_app, IH. reflexivity.
Qed.

Lemma flat_map_perm_ext : forall {A B} (f g : A -> list B) l,
  (forall x, In x l -> Permutation (f x) (g x)) -> Permutation (flat_map f l) (flat_map g l).
Proof.
  intros A B f g l H. induction l as [|x l IH]; [constructor|]. cbn [flat_map].
  apply Permutation_app; [apply H; left; reflexivity|]. apply IH. intros y Hy. apply H. right. exact Hy.
Qed.

Lemma flat_map_app_f : forall {A B} (f g : A -> list B) l,
  Permutation (flat_map (fun x => f x ++ g x) l) (flat_map f l ++ flat_map g l).
Proof.
  intros A B f g l. induction l as [|x l IH]; [constructor|]. cbn [flat_map].
  rewrite IH. rewrite <- !app_assoc. apply Permutation_app_head.
  rewrite !app_assoc. apply Permutation_app_tail. apply Permutation_app_comm.
Qed.

Lemma flat_map_swap : forall {A B C} (f : A -> B -> list C) l1 l2,
  Permutation (flat_map (fun a => flat_map (fun b => f a b) l2) l1)
              (flat_map (fun b => flat_map (fun a => f a b) l1) l2).
Proof.
  intros A B C f l1 l2. induction l1 as [|a l1 IH].
  - cbn [flat_map]. rewrite flat_map_nil_f. constructor.
  - cbn [flat_map]. rewrite IH. symmetry. apply flat_map_app_f.
Qed.

Lemma Forall_flat_map : forall {A B} (P : B -> Prop) (f : A -> list B) l,
  (forall x, In x l -> Forall P (f x)) -> Forall P (flat_map f l).
Proof.
  intros A B P f l H. induction l as [|x l IH]; [constructor|]. cbn [flat_map].
  apply Forall_app. split; [apply H; left; reflexivity|]. apply IH. intros y Hy. apply H. right. exact Hy.
Qed.

(** * solution mappings *)

Definition wf (n : nat) (m : sol) : Prop := length m = n.

Lemma term_eqb_sym : forall a b, term_eqb a b = term_eqb b a.
Proof.
  intros a b. destruct (term_eqb a b) eqn:E.
  - apply term_eqb_eq in E. subst. symmetry. apply term_eqb_refl.
  - symmetry. apply term_eqb_neq. apply term_eqb_neq in E. congruence.
Qed.

Lemma cell_compat_sym : forall a b, cell_compat a b = cell_compat b a.
Proof. intros [x|] [y|]; cbn [cell_compat]; try reflexivity. apply term_eqb_sym. Qed.

Lemma compat_sym : forall m1 m2, compat m1 m2 = compat m2 m1.
Proof.
  induction m1 as [|a r1 IH]; destruct m2 as [|b r2]; cbn [compat]; try reflexivity.
  rewrite cell_compat_sym, IH. reflexivity.
Qed.

Lemma cell_merge_comm : forall a b, cell_compat a b = true -> cell_merge a b = cell_merge b a.
Proof.
  intros [x|] [y|]; cbn [cell_compat cell_merge]; intro H; try reflexivity.
  apply term_eqb_eq in H. congruence.
Qed.

Lemma merge_comm : forall m1 m2, length m1 = length m2 -> compat m1 m2 = true -> merge m1 m2 = merge m2 m1.
Proof.
  induction m1 as [|a r1 IH]; destruct m2 as [|b r2]; cbn [compat merge length]; intros Hl Hc;
    try reflexivity; try discriminate.
  apply andb_true_iff in Hc. destruct Hc as [H1 H2]. injection Hl as Hl.
  rewrite (cell_merge_comm _ _ H1), (IH _ Hl H2). reflexivity.
Qed.

Lemma merge_length : forall m1 m2, length m1 = length m2 -> length (merge m1 m2) = length m1.
Proof.
  induction m1 as [|a r1 IH]; destruct m2 as [|b r2]; cbn [merge length]; intro Hl; try reflexivity; try discriminate.
  injection Hl as Hl. rewrite (IH _ Hl). reflexivity.
Qed.

Lemma merge_wf : forall n m1 m2, wf n m1 -> wf n m2 -> wf n (merge m1 m2).
Proof. unfold wf. intros n m1 m2 H1 H2. rewrite merge_length; congruence. Qed.

Lemma cell_merge_assoc : forall a b c, cell_merge (cell_merge a b) c = cell_merge a (cell_merge b c).
Proof. intros [x|] [y|] [z|]; reflexivity. Qed.

Lemma merge_assoc : forall m1 m2 m3, length m1 = length m2 -> length m2 = length m3 ->
  merge (merge m1 m2) m3 = merge m1 (merge m2 m3).
Proof.
  induction m1 as [|a r1 IH]; destruct m2 as [|b r2]; destruct m3 as [|c r3]; cbn [merge length];
    intros H1 H2; try reflexivity; try discriminate.
  injection H1 as H1. injection H2 as H2. rewrite cell_merge_assoc, (IH _ _ H1 H2). reflexivity.
Qed.

Lemma cell_compat_assoc : forall a b c,
  cell_compat a b && cell_compat (cell_merge a b) c = cell_compat b c && cell_compat a (cell_merge b c).
Proof.
  intros [x|] [y|] [z|]; cbn [cell_compat cell_merge andb]; try reflexivity;
    try (rewrite andb_true_r; reflexivity).
  destruct (term_eqb x y) eqn:E1; destruct (term_eqb y z) eqn:E2; cbn [andb].
  - apply term_eqb_eq in E1. subst. exact E2.
  - apply term_eqb_eq in E1. subst. exact E2.
  - reflexivity.
  - reflexivity.
Qed.

Lemma compat_assoc : forall m1 m2 m3, length m1 = length m2 -> length m2 = length m3 ->
  compat m1 m2 && compat (merge m1 m2) m3 = compat m2 m3 && compat m1 (merge m2 m3).
Proof.
  induction m1 as [|a r1 IH]; destruct m2 as [|b r2]; destruct m3 as [|c r3]; cbn [compat merge length];
    intros H1 H2; try reflexivity; try discriminate.
  injection H1 as H1. injection H2 as H2. specialize (IH _ _ H1 H2).
  pose proof (cell_compat_assoc a b c) as Hc.
  assert (Sh : forall p q r s : bool, (p && q) && (r && s) = (p && r) && (q && s)) by (intros [] [] [] []; reflexivity).
  rewrite (Sh (cell_compat a b)), (Sh (cell_compat b c)), Hc, IH. reflexivity.
Qed.

(** * Join *)

Lemma join_wf : forall n o1 o2, Forall (wf n) o1 -> Forall (wf n) o2 -> Forall (wf n) (join o1 o2).
Proof.
  intros n o1 o2 H1 H2. unfold join. apply Forall_flat_map. intros m1 Hm1. apply Forall_flat_map. intros m2 Hm2.
  rewrite Forall_forall in H1, H2. destruct (compat m1 m2); [|constructor].
  constructor; [|constructor]. apply merge_wf; auto.
Qed.

Lemma join_comm_l : forall n o1 o2, Forall (wf n) o1 -> Forall (wf n) o2 ->
  Permutation (join o1 o2) (join o2 o1).
Proof.
  intros n o1 o2 H1 H2. unfold join.
  rewrite (flat_map_swap (fun m1 m2 => if compat m1 m2 then [merge m1 m2] else []) o1 o2).
  rewrite Forall_forall in H1, H2.
  apply flat_map_perm_ext. intros m2 Hm2. apply flat_map_perm_ext. intros m1 Hm1.
  rewrite (compat_sym m2 m1). destruct (compat m1 m2) eqn:E; [|constructor].
  rewrite merge_comm; [apply Permutation_refl| |exact E].
  rewrite (H1 m1 Hm1), (H2 m2 Hm2). reflexivity.
Qed.

Lemma join_assoc_l : forall n o1 o2 o3, Forall (wf n) o1 -> Forall (wf n) o2 -> Forall (wf n) o3 ->
  join (join o1 o2) o3 = join o1 (join o2 o3).
Proof.
  intros n o1 o2 o3 H1 H2 H3. rewrite Forall_forall in H1, H2, H3. unfold join.
  rewrite flat_map_flat_map. apply flat_map_ext_in. intros m1 Hm1.
  rewrite !flat_map_flat_map. apply flat_map_ext_in. intros m2 Hm2.
  assert (L12 : length m1 = length m2) by (rewrite (H1 m1 Hm1), (H2 m2 Hm2); reflexivity).
  destruct (compat m1 m2) eqn:E12.
  - cbn [flat_map]. rewrite app_nil_r. rewrite flat_map_flat_map. apply flat_map_ext_in. intros m3 Hm3.
    assert (L23 : length m2 = length m3) by (rewrite (H2 m2 Hm2), (H3 m3 Hm3); reflexivity).
    pose proof (compat_assoc m1 m2 m3 L12 L23) as Hc. rewrite E12 in Hc. cbn [andb] in Hc.
    destruct (compat m2 m3) eqn:E23; cbn [flat_map andb] in *.
    + rewrite app_nil_r. rewrite Hc. rewrite merge_assoc by assumption. reflexivity.
    + rewrite Hc. reflexivity.
  - cbn [flat_map]. rewrite flat_map_flat_map. symmetry.
    rewrite <- (flat_map_nil_f (A:=sol) (B:=sol) o3) at 1. symmetry. apply flat_map_ext_in. intros m3 Hm3.
    assert (L23 : length m2 = length m3) by (rewrite (H2 m2 Hm2), (H3 m3 Hm3); reflexivity).
    pose proof (compat_assoc m1 m2 m3 L12 L23) as Hc. rewrite E12 in Hc. cbn [andb] in Hc.
    destruct (compat m2 m3) eqn:E23; cbn [flat_map andb] in *; [|reflexivity].
    rewrite <- Hc. reflexivity.
Qed.

Lemma join_perm_l : forall o1 o1' o2, Permutation o1 o1' -> Permutation (join o1 o2) (join o1' o2).
Proof. intros o1 o1' o2 H. unfold join. apply Permutation_flat_map. exact H. Qed.

Lemma join_perm_r : forall o1 o2 o2', Permutation o2 o2' -> Permutation (join o1 o2) (join o1 o2').
Proof.
  intros o1 o2 o2' H. unfold join. apply flat_map_perm_ext. intros m1 _. apply Permutation_flat_map. exact H.
Qed.

Lemma compat_empty : forall n m, length m = n -> compat (empty_sol n) m = true.
Proof.
  induction n as [|n IH]; intros m H; destruct m as [|c m]; try discriminate; cbn [empty_sol repeat compat]; [reflexivity|].
  injection H as H. cbn [cell_compat andb]. apply IH. exact H.
Qed.

Lemma merge_empty : forall n m, length m = n -> merge (empty_sol n) m = m.
Proof.
  induction n as [|n IH]; intros m H; destruct m as [|c m]; try discriminate; cbn [empty_sol repeat merge]; [reflexivity|].
  injection H as H. cbn [cell_merge]. f_equal. apply IH. exact H.
Qed.

(** Join with the one empty mapping is the identity *)
Lemma join_unit_l : forall n o, Forall (wf n) o -> join [empty_sol n] o = o.
Proof.
  intros n o H. unfold join. cbn [flat_map]. rewrite app_nil_r. induction H as [|m o Hm H IH]; [reflexivity|].
  cbn [flat_map]. rewrite compat_empty by exact Hm. rewrite merge_empty by exact Hm. cbn [app]. f_equal. exact IH.
Qed.

(** * triple patterns produce well-formed mappings *)

Lemma bind_length : forall v x m m', bind v x m = Some m' -> length m' = length m.
Proof.
  induction v as [|v IH]; intros x m m' H; destruct m as [|c r]; cbn [bind] in H; try discriminate.
  - destruct c as [y|]; [destruct (term_eqb x y); [injection H as <-; reflexivity|discriminate]|injection H as <-; reflexivity].
  - destruct (bind v x r) as [r'|] eqn:E; [|discriminate]. injection H as <-. cbn [length]. f_equal. eapply IH. exact E.
Qed.

Lemma match_pos_length : forall p x m m', match_pos p x m = Some m' -> length m' = length m.
Proof.
  intros [v|c] x m m' H; cbn [match_pos] in H.
  - eapply bind_length. exact H.
  - destruct (term_eqb c x); [injection H as <-; reflexivity|discriminate].
Qed.

Lemma empty_sol_length : forall n, length (empty_sol n) = n.
Proof. intro n. unfold empty_sol. apply repeat_length. Qed.

Lemma match_tp_wf : forall n tp t m, match_tp n tp t = Some m -> wf n m.
Proof.
  intros n tp t m H. unfold match_tp in H.
  destruct (match_pos (tp_s tp) (t_s t) (empty_sol n)) as [m1|] eqn:E1; [|discriminate].
  destruct (match_pos (tp_p tp) (t_p t) m1) as [m2|] eqn:E2; [|discriminate].
  apply match_pos_length in E1, E2, H. unfold wf. rewrite H, E2, E1. apply empty_sol_length.
Qed.

Lemma eval_tp_wf : forall n g tp, Forall (wf n) (eval_tp n g tp).
Proof.
  intros n g tp. unfold eval_tp. apply Forall_flat_map. intros t _.
  destruct (match_tp n tp t) as [m|] eqn:E; [|constructor]. constructor; [|constructor]. eapply match_tp_wf. exact E.
Qed.

(** * a BGP is the join of its triple patterns, in any order *)

Definition fold_join (os : list (list sol)) (acc : list sol) : list sol :=
  fold_left (fun a o => join a o) os acc.

Lemma eval_bgp_fold : forall n g tps, eval_bgp n g tps = fold_join (map (eval_tp n g) tps) [empty_sol n].
Proof.
  intros n g tps. unfold eval_bgp, fold_join. generalize [empty_sol n] as acc.
  induction tps as [|tp tps IH]; intro acc; cbn [fold_left map]; [reflexivity|]. apply IH.
Qed.

Lemma fold_join_wf : forall n os acc, Forall (Forall (wf n)) os -> Forall (wf n) acc -> Forall (wf n) (fold_join os acc).
Proof.
  intros n os. induction os as [|o os IH]; intros acc H Ha; cbn [fold_join fold_left]; [exact Ha|].
  inversion H as [|? ? Ho Hos]; subst. apply IH; [exact Hos|]. apply join_wf; assumption.
Qed.

Lemma fold_join_perm_acc : forall os acc acc', Permutation acc acc' ->
  Permutation (fold_join os acc) (fold_join os acc').
Proof.
  induction os as [|o os IH]; intros acc acc' H; cbn [fold_join fold_left]; [exact H|].
  apply IH. apply join_perm_l. exact H.
Qed.

Lemma fold_join_perm : forall n os os', Permutation os os' -> Forall (Forall (wf n)) os ->
  forall acc, Forall (wf n) acc -> Permutation (fold_join os acc) (fold_join os' acc).
Proof.
  intros n os os' HP. induction HP as [|o os os' HP IH|a b os|os1 os2 os3 HP1 IH1 HP2 IH2]; intros Hw acc Ha.
  - apply Permutation_refl.
  - cbn [fold_join fold_left]. inversion Hw as [|? ? Ho Hos]; subst. apply IH; [exact Hos|]. apply join_wf; assumption.
  - cbn [fold_join fold_left]. inversion Hw as [|? ? Hb Hw1]; subst. inversion Hw1 as [|? ? Haa Hos]; subst.
    apply fold_join_perm_acc.
    rewrite (join_assoc_l n acc b a) by assumption. rewrite (join_assoc_l n acc a b) by assumption.
    apply join_perm_r. apply (join_comm_l n); assumption.
  - eapply Permutation_trans; [apply IH1; assumption|]. apply IH2; [|exact Ha].
    eapply Permutation_Forall; eassumption.
Qed.

Lemma bgp_order_irrelevant_l : forall n g tps tps', Permutation tps tps' ->
  Permutation (eval_bgp n g tps) (eval_bgp n g tps').
Proof.
  intros n g tps tps' H. rewrite !eval_bgp_fold. apply (fold_join_perm n).
  - apply Permutation_map. exact H.
  - apply Forall_forall. intros o Ho. apply in_map_iff in Ho. destruct Ho as [tp [<- _]]. apply eval_tp_wf.
  - constructor; [apply empty_sol_length|constructor].
Qed.

Lemma eval_bgp_wf : forall n g tps, Forall (wf n) (eval_bgp n g tps).
Proof.
  intros n g tps. rewrite eval_bgp_fold. apply fold_join_wf.
  - apply Forall_forall. intros o Ho. apply in_map_iff in Ho. destruct Ho as [tp [<- _]]. apply eval_tp_wf.
  - constructor; [apply empty_sol_length|constructor].
Qed.

(** a BGP split in two is the Join of the two parts (what a group of two groups means) *)
Lemma fold_join_app : forall os1 os2 acc, fold_join (os1 ++ os2) acc = fold_join os2 (fold_join os1 acc).
Proof. intros os1 os2 acc. unfold fold_join. apply fold_left_app. Qed.

Lemma fold_join_assoc : forall n os acc o, Forall (Forall (wf n)) os -> Forall (wf n) acc -> Forall (wf n) o ->
  fold_join os (join acc o) = join acc (fold_join os o).
Proof.
  intros n os. induction os as [|x os IH]; intros acc o Hw Ha Ho; cbn [fold_join fold_left]; [reflexivity|].
  inversion Hw as [|? ? Hx Hos]; subst. fold (fold_join os (join (join acc o) x)). fold (fold_join os (join o x)).
  rewrite (join_assoc_l n acc o x) by assumption. apply IH; [exact Hos|exact Ha|]. apply join_wf; assumption.
Qed.

Lemma bgp_split_l : forall n g tps1 tps2,
  eval_bgp n g (tps1 ++ tps2) = join (eval_bgp n g tps1) (eval_bgp n g tps2).
Proof.
  intros n g tps1 tps2. rewrite !eval_bgp_fold, map_app, fold_join_app.
  set (A := fold_join (map (eval_tp n g) tps1) [empty_sol n]).
  assert (HA : Forall (wf n) A).
  { apply fold_join_wf; [|constructor; [apply empty_sol_length|constructor]].
    apply Forall_forall. intros o Ho. apply in_map_iff in Ho. destruct Ho as [tp [<- _]]. apply eval_tp_wf. }
  assert (HW : Forall (Forall (wf n)) (map (eval_tp n g) tps2)).
  { apply Forall_forall. intros o Ho. apply in_map_iff in Ho. destruct Ho as [tp [<- _]]. apply eval_tp_wf. }
  assert (E : A = join A [empty_sol n]).
  { clear HW. induction HA as [|m A Hm HA IH]; [reflexivity|]. unfold join in *. cbn [flat_map].
    rewrite compat_sym, compat_empty by exact Hm.
    rewrite merge_comm; [|rewrite empty_sol_length; exact Hm|rewrite compat_sym; apply compat_empty; exact Hm].
    rewrite merge_empty by exact Hm. cbn [app]. f_equal. exact IH. }
  rewrite E at 1. apply (fold_join_assoc n); [exact HW|exact HA|]. constructor; [apply empty_sol_length|constructor].
Qed.

(** * LeftJoin (OPTIONAL) *)

Lemma filter_flat_map : forall {A B} (p : B -> bool) (f : A -> list B) l,
  filter p (flat_map f l) = flat_map (fun x => filter p (f x)) l.
Proof.
  intros A B p f l. induction l as [|x l IH]; [reflexivity|]. cbn [flat_map]. rewrite filter_app, IH. reflexivity.
Qed.

Lemma flat_map_if_filter : forall {A} (p : A -> bool) l,
  flat_map (fun x => if p x then [x] else []) l = filter p l.
Proof.
  intros A p l. induction l as [|x l IH]; [reflexivity|]. cbn [flat_map filter]. rewrite IH. destruct (p x); reflexivity.
Qed.

(** the solutions of the left side that have no extension satisfying the condition *)
Definition no_extension (c : option expr) (o2 : list sol) (m1 : sol) : bool :=
  forallb (fun m2 => negb (compat m1 m2 && holds_opt c (merge m1 m2))) o2.

Lemma left_join_spec_l : forall c o1 o2,
  Permutation (left_join c o1 o2)
              (filter (holds_opt c) (join o1 o2) ++ filter (no_extension c o2) o1).
Proof.
  intros c o1 o2. unfold left_join, join.
  rewrite filter_flat_map. rewrite <- (flat_map_if_filter (no_extension c o2) o1).
  rewrite <- flat_map_app_f. apply flat_map_perm_ext. intros m1 _.
  rewrite filter_flat_map.
  assert (E : flat_map (fun m2 => if compat m1 m2 && holds_opt c (merge m1 m2) then [merge m1 m2] else []) o2
            = flat_map (fun m2 => filter (holds_opt c) (if compat m1 m2 then [merge m1 m2] else [])) o2).
  { apply flat_map_ext_in. intros m2 _. destruct (compat m1 m2); cbn [andb filter]; [|reflexivity].
    destruct (holds_opt c (merge m1 m2)); reflexivity. }
  rewrite <- E. clear E. unfold no_extension.
  induction o2 as [|m2 o2 IH]; cbn [flat_map forallb]; [apply Permutation_refl|].
  destruct (compat m1 m2 && holds_opt c (merge m1 m2)); cbn [negb andb app].
  - rewrite app_nil_r. apply Permutation_refl.
  - exact IH.
Qed.

(** * FILTER commutes with Join when its variables are bound on the left *)

Lemma eval_expr_ext : forall e m m', (forall v, In v (expr_vars e) -> nth v m None = nth v m' None) ->
  eval_expr m e = eval_expr m' e.
Proof.
  induction e as [v|t|o a IHa b IHb|a IHa b IHb|a IHa b IHb|a IHa|v]; intros m m' H; cbn [eval_expr expr_vars] in *.
  - rewrite (H v (or_introl eq_refl)). reflexivity.
  - reflexivity.
  - rewrite (IHa m m'), (IHb m m'); [reflexivity| |]; intros v Hv; apply H; apply in_or_app; auto.
  - rewrite (IHa m m'), (IHb m m'); [reflexivity| |]; intros v Hv; apply H; apply in_or_app; auto.
  - rewrite (IHa m m'), (IHb m m'); [reflexivity| |]; intros v Hv; apply H; apply in_or_app; auto.
  - rewrite (IHa m m'); [reflexivity|]. exact H.
  - rewrite (H v (or_introl eq_refl)). reflexivity.
Qed.

Lemma nth_merge : forall m1 m2 v, length m1 = length m2 ->
  nth v (merge m1 m2) None = cell_merge (nth v m1 None) (nth v m2 None).
Proof.
  induction m1 as [|a r1 IH]; destruct m2 as [|b r2]; intros v H; try discriminate.
  - destruct v; reflexivity.
  - cbn [merge]. destruct v as [|v]; cbn [nth]; [reflexivity|]. apply IH. injection H as H. exact H.
Qed.

Lemma filter_push_l : forall n c o1 o2, Forall (wf n) o1 -> Forall (wf n) o2 ->
  (forall m1 v, In m1 o1 -> In v (expr_vars c) -> nth v m1 None <> None) ->
  filter (holds c) (join o1 o2) = join (filter (holds c) o1) o2.
Proof.
  intros n c o1 o2 H1 H2 Hb. rewrite Forall_forall in H1, H2. unfold join.
  rewrite filter_flat_map. induction o1 as [|m1 o1 IH]; [reflexivity|]. cbn [flat_map filter].
  assert (E : filter (holds c) (flat_map (fun m2 => if compat m1 m2 then [merge m1 m2] else []) o2)
            = if holds c m1 then flat_map (fun m2 => if compat m1 m2 then [merge m1 m2] else []) o2 else []).
  { rewrite filter_flat_map.
    assert (G : forall m2, In m2 o2 -> holds c (merge m1 m2) = holds c m1).
    { intros m2 Hm2. unfold holds. rewrite (eval_expr_ext c (merge m1 m2) m1); [reflexivity|].
      intros v Hv. rewrite nth_merge by (rewrite (H1 m1 (or_introl eq_refl)), (H2 m2 Hm2); reflexivity).
      specialize (Hb m1 v (or_introl eq_refl) Hv). destruct (nth v m1 None); [reflexivity|congruence]. }
    destruct (holds c m1) eqn:Eh.
    - apply flat_map_ext_in. intros m2 Hm2. destruct (compat m1 m2); [|reflexivity]. cbn [filter]. rewrite (G m2 Hm2). reflexivity.
    - rewrite (flat_map_ext_in _ (fun _ : sol => @nil sol) o2); [apply flat_map_nil_f|]. intros m2 Hm2.
      destruct (compat m1 m2); [|reflexivity]. cbn [filter]. rewrite (G m2 Hm2). reflexivity. }
  rewrite E. rewrite IH.
  - destruct (holds c m1); reflexivity.
  - intros m Hm. apply H1. right. exact Hm.
  - intros m v Hm Hv. apply Hb; [right; exact Hm|exact Hv].
Qed.

(** * DISTINCT, OFFSET/LIMIT *)

Lemma distinct_by_spec : forall {A} (eqb : A -> A -> bool), (forall x y, eqb x y = true <-> x = y) ->
  forall l, NoDup (distinct_by eqb l) /\ forall x, In x (distinct_by eqb l) <-> In x l.
Proof.
  intros A eqb Heq l. induction l as [|a l [IH1 IH2]]; cbn [distinct_by]; [split; [constructor|tauto]|].
  split.
  - constructor; [|apply NoDup_filter; exact IH1]. rewrite filter_In. intros [_ H]. apply negb_true_iff in H.
    assert (eqb a a = true) by (apply Heq; reflexivity). congruence.
  - intro x. cbn [In]. rewrite filter_In, IH2. split.
    + intros [H|[H _]]; auto.
    + intros [H|H]; [left; exact H|]. destruct (eqb a x) eqn:E; [left; apply Heq; exact E|right; split; [exact H|reflexivity]].
Qed.

Lemma sol_eqb_eq : forall a b : sol, list_eqb (option_eqb term_eqb) a b = true <-> a = b.
Proof.
  induction a as [|x a IH]; destruct b as [|y b]; cbn [list_eqb]; split; intro H; try reflexivity; try discriminate.
  - apply andb_true_iff in H. destruct H as [H1 H2]. apply IH in H2. subst. f_equal.
    destruct x as [x|], y as [y|]; cbn [option_eqb] in H1; try discriminate; [apply term_eqb_eq in H1; congruence|reflexivity].
  - injection H as -> ->. apply andb_true_iff. split; [|apply IH; reflexivity].
    destruct y as [y|]; cbn [option_eqb]; [apply term_eqb_refl|reflexivity].
Qed.

Lemma slice_spec : forall {A} off lim (l : list A),
  slice off lim l = match lim with Some k => firstn k | None => fun x => x end
                      (match off with Some k => skipn k l | None => l end).
Proof. intros A [o|] [k|] l; reflexivity. Qed.

Lemma slice_length : forall {A} off lim (l : list A),
  length (slice off lim l) =
  let rest := (length l - match off with Some k => k | None => O end)%nat in
  match lim with Some k => Nat.min k rest | None => rest end.
Proof.
  intros A off lim l. unfold slice. cbv zeta.
  destruct off as [o|]; destruct lim as [k|]; rewrite ?firstn_length, ?skipn_length; lia.
Qed.

(** * INSERT DATA / DELETE DATA *)

Lemma insert_data_In : forall ts g t, In t (insert_data g ts) <-> In t g \/ In t ts.
Proof.
  induction ts as [|u ts IH]; intros g t; cbn [insert_data In]; [tauto|].
  rewrite IH. destruct (memb u g) eqn:E.
  - apply memb_In in E. split; [tauto|]. intros [H|[H|H]]; [tauto|subst; tauto|tauto].
  - rewrite in_app_iff. cbn [In]. split; [intros [[H|[H|[]]]|H]; auto|intros [H|[H|H]]; auto].
Qed.

Lemma insert_data_NoDup : forall ts g, NoDup g -> NoDup (insert_data g ts).
Proof.
  induction ts as [|u ts IH]; intros g H; cbn [insert_data]; [exact H|]. apply IH.
  destruct (memb u g) eqn:E; [exact H|]. apply NoDup_app_one; [exact H|]. apply memb_false. exact E.
Qed.

Lemma delete_data_In : forall ts g t, In t (delete_data g ts) <-> In t g /\ ~ In t ts.
Proof.
  intros ts g t. unfold delete_data. rewrite filter_In, negb_true_iff, memb_false. tauto.
Qed.

Lemma delete_data_NoDup : forall ts g, NoDup g -> NoDup (delete_data g ts).
Proof. intros ts g H. unfold delete_data. apply NoDup_filter. exact H. Qed.
