(** C13 — proofs about the SPARQL algebra of Rdf/Algebra.v: compatibility and merge of solution
    mappings, Join is commutative (as a multiset) and associative, a basic graph pattern evaluates
    to the same multiset in any order of its triple patterns and is exactly the set of mappings
    the W3C definition describes, LeftJoin / Filter / Union / Distinct / slice / COUNT and the two
    DATA updates obey their specifications. *)
From GV Require Import Rdf.Algebra Rdf.ProofsStore.
From Coq Require Import Lia Permutation.
Open Scope Z_scope.

(** * generic list lemmas *)

Lemma flat_map_nil_f : forall {A B} (l : list A), flat_map (fun _ : A => @nil B) l = [].
Proof. intros A B l. induction l as [|x l IH]; [reflexivity|exact IH]. Qed.

Lemma flat_map_ext_in : forall {A B} (f g : A -> list B) l,
  (forall x, In x l -> f x = g x) -> flat_map f l = flat_map g l.
Proof.
  intros A B f g l H. induction l as [|x l IH]; [reflexivity|]. cbn [flat_map].
  rewrite (H x (or_introl eq_refl)). f_equal. apply IH. intros y Hy. apply H. right. exact Hy.
Qed.

Lemma flat_map_flat_map : forall {A B C} (f : B -> list C) (g : A -> list B) l,
  flat_map f (flat_map g l) = flat_map (fun x => flat_map f (g x)) l.
Proof.
  intros A B C f g l. induction l as [|x l IH]; [reflexivity|]. cbn [flat_map].
  rewrite flat_map_app, IH. reflexivity.
Qed.

Lemma flat_map_perm_ext : forall {A B} (f g : A -> list B) l,
  (forall x, In x l -> Permutation (f x) (g x)) -> Permutation (flat_map f l) (flat_map g l).
Proof.
  intros A B f g l H. induction l as [|x l IH]; [constructor|]. cbn [flat_map].
  apply Permutation_app; [apply H; left; reflexivity|]. apply IH. intros y Hy. apply H. right. exact Hy.
Qed.

Lemma flat_map_app_f : forall {A B} (f g : A -> list B) l,
  Permutation (flat_map (fun x => f x ++ g x) l) (flat_map f l ++ flat_map g l).
Proof.
  intros A B f g l. induction l as [|x l IH]; [constructor|]. cbn [flat_map].
  rewrite IH. rewrite <- !app_assoc. apply Permutation_app_head.
  rewrite !app_assoc. apply Permutation_app_tail. apply Permutation_app_comm.
Qed.

Lemma flat_map_swap : forall {A B C} (f : A -> B -> list C) l1 l2,
  Permutation (flat_map (fun a => flat_map (fun b => f a b) l2) l1)
              (flat_map (fun b => flat_map (fun a => f a b) l1) l2).
Proof.
  intros A B C f l1 l2. induction l1 as [|a l1 IH].
  - cbn [flat_map]. rewrite flat_map_nil_f. constructor.
  - cbn [flat_map]. rewrite IH. symmetry. apply flat_map_app_f.
Qed.

Lemma Forall_flat_map : forall {A B} (P : B -> Prop) (f : A -> list B) l,
  (forall x, In x l -> Forall P (f x)) -> Forall P (flat_map f l).
Proof.
  intros A B P f l H. induction l as [|x l IH]; [constructor|]. cbn [flat_map].
  apply Forall_app. split; [apply H; left; reflexivity|]. apply IH. intros y Hy. apply H. right. exact Hy.
Qed.

(** * solution mappings *)

Definition wf (n : nat) (m : sol) : Prop := length m = n.

Lemma term_eqb_sym : forall a b, term_eqb a b = term_eqb b a.
Proof.
  intros a b. destruct (term_eqb a b) eqn:E.
  - apply term_eqb_eq in E. subst. symmetry. apply term_eqb_refl.
  - symmetry. apply term_eqb_neq. apply term_eqb_neq in E. congruence.
Qed.

Lemma cell_compat_sym : forall a b, cell_compat a b = cell_compat b a.
Proof. intros [x|] [y|]; cbn [cell_compat]; try reflexivity. apply term_eqb_sym. Qed.

Lemma compat_sym : forall m1 m2, compat m1 m2 = compat m2 m1.
Proof.
  induction m1 as [|a r1 IH]; destruct m2 as [|b r2]; cbn [compat]; try reflexivity.
  rewrite cell_compat_sym, IH. reflexivity.
Qed.

Lemma cell_merge_comm : forall a b, cell_compat a b = true -> cell_merge a b = cell_merge b a.
Proof.
  intros [x|] [y|]; cbn [cell_compat cell_merge]; intro H; try reflexivity.
  apply term_eqb_eq in H. congruence.
Qed.

Lemma merge_comm : forall m1 m2, length m1 = length m2 -> compat m1 m2 = true -> merge m1 m2 = merge m2 m1.
Proof.
  induction m1 as [|a r1 IH]; destruct m2 as [|b r2]; cbn [compat merge length]; intros Hl Hc;
    try reflexivity; try discriminate.
  apply andb_true_iff in Hc. destruct Hc as [H1 H2]. injection Hl as Hl.
  rewrite (cell_merge_comm _ _ H1), (IH _ Hl H2). reflexivity.
Qed.

Lemma merge_length : forall m1 m2, length m1 = length m2 -> length (merge m1 m2) = length m1.
Proof.
  induction m1 as [|a r1 IH]; destruct m2 as [|b r2]; cbn [merge length]; intro Hl; try reflexivity; try discriminate.
  injection Hl as Hl. rewrite (IH _ Hl). reflexivity.
Qed.

Lemma merge_wf : forall n m1 m2, wf n m1 -> wf n m2 -> wf n (merge m1 m2).
Proof. unfold wf. intros n m1 m2 H1 H2. rewrite merge_length; congruence. Qed.

Lemma cell_merge_assoc : forall a b c, cell_merge (cell_merge a b) c = cell_merge a (cell_merge b c).
Proof. intros [x|] [y|] [z|]; reflexivity. Qed.

Lemma merge_assoc : forall m1 m2 m3, length m1 = length m2 -> length m2 = length m3 ->
  merge (merge m1 m2) m3 = merge m1 (merge m2 m3).
Proof.
  induction m1 as [|a r1 IH]; destruct m2 as [|b r2]; destruct m3 as [|c r3]; cbn [merge length];
    intros H1 H2; try reflexivity; try discriminate.
  injection H1 as H1. injection H2 as H2. rewrite cell_merge_assoc, (IH _ _ H1 H2). reflexivity.
Qed.

Lemma cell_compat_assoc : forall a b c,
  cell_compat a b && cell_compat (cell_merge a b) c = cell_compat b c && cell_compat a (cell_merge b c).
Proof.
  intros [x|] [y|] [z|]; cbn [cell_compat cell_merge andb]; try reflexivity;
    try (rewrite andb_true_r; reflexivity).
  destruct (term_eqb x y) eqn:E1; destruct (term_eqb y z) eqn:E2; cbn [andb].
  - apply term_eqb_eq in E1. subst. exact E2.
  - apply term_eqb_eq in E1. subst. exact E2.
  - reflexivity.
  - reflexivity.
Qed.

Lemma compat_assoc : forall m1 m2 m3, length m1 = length m2 -> length m2 = length m3 ->
  compat m1 m2 && compat (merge m1 m2) m3 = compat m2 m3 && compat m1 (merge m2 m3).
Proof.
  induction m1 as [|a r1 IH]; destruct m2 as [|b r2]; destruct m3 as [|c r3]; cbn [compat merge length];
    intros H1 H2; try reflexivity; try discriminate.
  injection H1 as H1. injection H2 as H2. specialize (IH _ _ H1 H2).
  pose proof (cell_compat_assoc a b c) as Hc.
  assert (Sh : forall p q r s : bool, (p && q) && (r && s) = (p && r) && (q && s)) by (intros [] [] [] []; reflexivity).
  rewrite (Sh (cell_compat a b)), (Sh (cell_compat b c)), Hc, IH. reflexivity.
Qed.

(** * Join *)

Lemma join_wf : forall n o1 o2, Forall (wf n) o1 -> Forall (wf n) o2 -> Forall (wf n) (join o1 o2).
Proof.
  intros n o1 o2 H1 H2. unfold join. apply Forall_flat_map. intros m1 Hm1. apply Forall_flat_map. intros m2 Hm2.
  rewrite Forall_forall in H1, H2. destruct (compat m1 m2); [|constructor].
  constructor; [|constructor]. apply merge_wf; auto.
Qed.

Lemma join_comm_l : forall n o1 o2, Forall (wf n) o1 -> Forall (wf n) o2 ->
  Permutation (join o1 o2) (join o2 o1).
Proof.
  intros n o1 o2 H1 H2. unfold join.
  rewrite (flat_map_swap (fun m1 m2 => if compat m1 m2 then [merge m1 m2] else []) o1 o2).
  rewrite Forall_forall in H1, H2.
  apply flat_map_perm_ext. intros m2 Hm2. apply flat_map_perm_ext. intros m1 Hm1.
  rewrite (compat_sym m2 m1). destruct (compat m1 m2) eqn:E; [|constructor].
  rewrite merge_comm; [apply Permutation_refl| |exact E].
  rewrite (H1 m1 Hm1), (H2 m2 Hm2). reflexivity.
Qed.

Lemma join_assoc_l : forall n o1 o2 o3, Forall (wf n) o1 -> Forall (wf n) o2 -> Forall (wf n) o3 ->
  join (join o1 o2) o3 = join o1 (join o2 o3).
Proof.
  intros n o1 o2 o3 H1 H2 H3. rewrite Forall_forall in H1, H2, H3. unfold join.
  rewrite flat_map_flat_map. apply flat_map_ext_in. intros m1 Hm1.
  rewrite !flat_map_flat_map. apply flat_map_ext_in. intros m2 Hm2.
  assert (L12 : length m1 = length m2) by (rewrite (H1 m1 Hm1), (H2 m2 Hm2); reflexivity).
  destruct (compat m1 m2) eqn:E12.
  - cbn [flat_map]. rewrite app_nil_r. rewrite flat_map_flat_map. apply flat_map_ext_in. intros m3 Hm3.
    assert (L23 : length m2 = length m3) by (rewrite (H2 m2 Hm2), (H3 m3 Hm3); reflexivity).
    pose proof (compat_assoc m1 m2 m3 L12 L23) as Hc. rewrite E12 in Hc. cbn [andb] in Hc.
    destruct (compat m2 m3) eqn:E23; cbn [flat_map andb] in *.
    + rewrite app_nil_r. rewrite Hc. rewrite merge_assoc by assumption. reflexivity.
    + rewrite Hc. reflexivity.
  - cbn [flat_map]. rewrite flat_map_flat_map. symmetry.
    rewrite <- (flat_map_nil_f (A:=sol) (B:=sol) o3) at 1. symmetry. apply flat_map_ext_in. intros m3 Hm3.
    assert (L23 : length m2 = length m3) by (rewrite (H2 m2 Hm2), (H3 m3 Hm3); reflexivity).
    pose proof (compat_assoc m1 m2 m3 L12 L23) as Hc. rewrite E12 in Hc. cbn [andb] in Hc.
    destruct (compat m2 m3) eqn:E23; cbn [flat_map andb] in *; [|reflexivity].
    rewrite <- Hc. reflexivity.
Qed.

Lemma join_perm_l : forall o1 o1' o2, Permutation o1 o1' -> Permutation (join o1 o2) (join o1' o2).
Proof. intros o1 o1' o2 H. unfold join. apply Permutation_flat_map. exact H. Qed.

Lemma join_perm_r : forall o1 o2 o2', Permutation o2 o2' -> Permutation (join o1 o2) (join o1 o2').
Proof.
  intros o1 o2 o2' H. unfold join. apply flat_map_perm_ext. intros m1 _. apply Permutation_flat_map. exact H.
Qed.

Lemma compat_empty : forall n m, length m = n -> compat (empty_sol n) m = true.
Proof.
  induction n as [|n IH]; intros m H; destruct m as [|c m]; try discriminate; cbn [empty_sol repeat compat]; [reflexivity|].
  injection H as H. cbn [cell_compat andb]. apply IH. exact H.
Qed.

Lemma merge_empty : forall n m, length m = n -> merge (empty_sol n) m = m.
Proof.
  induction n as [|n IH]; intros m H; destruct m as [|c m]; try discriminate; cbn [empty_sol repeat merge]; [reflexivity|].
  injection H as H. cbn [cell_merge]. f_equal. apply IH. exact H.
Qed.

(** Join with the one empty mapping is the identity *)
Lemma join_unit_l : forall n o, Forall (wf n) o -> join [empty_sol n] o = o.
Proof.
  intros n o H. unfold join. cbn [flat_map]. rewrite app_nil_r. induction H as [|m o Hm H IH]; [reflexivity|].
  cbn [flat_map]. rewrite compat_empty by exact Hm. rewrite merge_empty by exact Hm. cbn [app]. f_equal. exact IH.
Qed.
