(** C13 — comparison of implementation observations with the models (run by the check):
    [chk_store] (RdfStore traces), [chk_select]/[chk_update] (execute_sparql vs the engine model),
    [spec_select]/[spec_update] (the W3C oracle evaluated on the implementation's output) and the
    finding classes [k_*]. *)
From GV Require Export Rdf.Engine.
Open Scope Z_scope.

(** * terms and triples by index into the universe of a case *)

Definition itriple := (Z * Z * Z)%type.
Definition un (U : list term) (i : Z) : term := nth (Z.to_nat i) U (Iri []).
Definition utriple (U : list term) (t : itriple) : triple :=
  let '(a, b, c) := t in Triple (un U a) (un U b) (un U c).
Fixpoint index_from (i : Z) (U : list term) (x : term) : Z :=
  match U with [] => -1 | y :: r => if term_eqb x y then i else index_from (i + 1) r x end.
Definition index_of (U : list term) (x : term) : Z := index_from 0 U x.
Definition itriple_of (U : list term) (t : triple) : itriple :=
  (index_of U (t_s t), index_of U (t_p t), index_of U (t_o t)).

Definition it_cmp (a b : itriple) : comparison :=
  let '(a1, a2, a3) := a in let '(b1, b2, b3) := b in
  match a1 ?= b1 with Eq => match a2 ?= b2 with Eq => a3 ?= b3 | c => c end | c => c end.
Definition it_eqb (a b : itriple) : bool := match it_cmp a b with Eq => true | _ => false end.
(** canonical form of a set/multiset of triples: sorted index triples *)
Definition canon (U : list term) (l : list triple) : list itriple := sort_by it_cmp (map (itriple_of U) l).
Definition canon_terms (U : list term) (l : list term) : list Z := sort_by Z.compare (map (index_of U) l).

(** * RdfStore traces *)

Inductive top :=
| TInsert (t : itriple) | TRemove (t : itriple) | TClear
| TInsertTx (tx : Z) (t : itriple) | TRemoveTx (tx : Z) (t : itriple)
| TCommit (tx : Z) | TRollback (tx : Z)
| TProbe (probes : list itriple) (txs : list Z).

(** everything the accessors return in one state *)
Record snap := Snap {
  sn_len : Z; sn_empty : bool; sn_all : list itriple;
  sn_subjects : list Z; sn_predicates : list Z; sn_objects : list Z;
  sn_stats : Z * Z * Z * Z;
  sn_ws : list (list itriple); sn_wp : list (list itriple); sn_wo : list (list itriple);
  sn_finds : list (list itriple);
  sn_contains : list bool;
  sn_pending : list (bool * list (list itriple))
}.

Inductive tobs := OB (b : bool) | OU | ON (n : Z) | OS (s : snap).

(** the eight bound/unbound shapes of a probe triple *)
Definition shapes (t : triple) : list pattern :=
  let s := Some (t_s t) in let p := Some (t_p t) in let o := Some (t_o t) in
  [Pattern None None None; Pattern s None None; Pattern None p None; Pattern None None o;
   Pattern s p None; Pattern s None o; Pattern None p o; Pattern s p o].

Definition out_triples (o : out) : list triple := match o with OTriples l => l | _ => [] end.
Definition out_terms (o : out) : list term := match o with OTerms l => l | _ => [] end.
Definition out_bool (o : out) : bool := match o with OBool b => b | _ => false end.
Definition out_z (o : out) : Z := match o with OZ n => n | _ => -1 end.

(** all accessors, through [step] *)
Definition take_snap (U : list term) (s : store) (probes : list itriple) (txs : list Z) : snap :=
  let q o := snd (step s o) in
  let pt := map (utriple U) probes in
  let st := match q GetStats with
            | OStats x => (triple_count x, subject_count x, predicate_count x, object_count x)
            | _ => (-1, -1, -1, -1)
            end in
  Snap (out_z (q Len)) (out_bool (q IsEmpty)) (canon U (out_triples (q Triples)))
       (canon_terms U (out_terms (q Subjects))) (canon_terms U (out_terms (q Predicates)))
       (canon_terms U (out_terms (q Objects))) st
       (map (fun x => canon U (out_triples (q (WithSubject x)))) U)
       (map (fun x => canon U (out_triples (q (WithPredicate x)))) U)
       (map (fun x => canon U (out_triples (q (WithObject x)))) U)
       (flat_map (fun t => map (fun p => canon U (out_triples (q (Find p)))) (shapes t)) pt)
       (map (fun t => out_bool (q (Contains t))) pt)
       (map (fun tx => (out_bool (q (HasPending tx)),
                        canon U (out_triples (q (FindPending (Pattern None None None) (Some tx))))
                        :: flat_map (fun t => [canon U (out_triples (q (FindPending (Pattern (Some (t_s t)) None None) (Some tx))));
                                               canon U (out_triples (q (FindPending (Pattern (Some (t_s t)) (Some (t_p t)) (Some (t_o t))) (Some tx))));
                                               canon U (out_triples (q (FindPending (Pattern None (Some (t_p t)) None) None)))]) pt)) txs).

Definition itl_eqb := list_eqb it_eqb.
Definition itll_eqb := list_eqb itl_eqb.
Definition snap_eqb (a b : snap) : bool :=
  (sn_len a =? sn_len b) && Bool.eqb (sn_empty a) (sn_empty b) && itl_eqb (sn_all a) (sn_all b)
  && zlist_eqb (sn_subjects a) (sn_subjects b) && zlist_eqb (sn_predicates a) (sn_predicates b)
  && zlist_eqb (sn_objects a) (sn_objects b)
  && (let '(a1, a2, a3, a4) := sn_stats a in let '(b1, b2, b3, b4) := sn_stats b in
      (a1 =? b1) && (a2 =? b2) && (a3 =? b3) && (a4 =? b4))
  && itll_eqb (sn_ws a) (sn_ws b) && itll_eqb (sn_wp a) (sn_wp b) && itll_eqb (sn_wo a) (sn_wo b)
  && itll_eqb (sn_finds a) (sn_finds b) && list_eqb Bool.eqb (sn_contains a) (sn_contains b)
  && list_eqb (fun x y => Bool.eqb (fst x) (fst y) && itll_eqb (snd x) (snd y)) (sn_pending a) (sn_pending b).

Definition tstep (U : list term) (s : store) (o : top) : store * tobs :=
  match o with
  | TInsert t => let (s', r) := step s (Insert (utriple U t)) in (s', OB (out_bool r))
  | TRemove t => let (s', r) := step s (Remove (utriple U t)) in (s', OB (out_bool r))
  | TClear => (fst (step s Clear), OU)
  | TInsertTx tx t => (fst (step s (InsertTx tx (utriple U t))), OU)
  | TRemoveTx tx t => (fst (step s (RemoveTx tx (utriple U t))), OU)
  | TCommit tx => let (s', r) := step s (CommitTx tx) in (s', ON (out_z r))
  | TRollback tx => let (s', r) := step s (RollbackTx tx) in (s', ON (out_z r))
  | TProbe ps txs => (s, OS (take_snap U s ps txs))
  end.

Definition tobs_eqb (a b : tobs) : bool :=
  match a, b with
  | OB x, OB y => Bool.eqb x y
  | OU, OU => true
  | ON x, ON y => x =? y
  | OS x, OS y => snap_eqb x y
  | _, _ => false
  end.

Fixpoint chk_trace (U : list term) (s : store) (tr : list (top * tobs)) : bool :=
  match tr with
  | [] => true
  | (o, ob) :: r => let (s', m) := tstep U s o in tobs_eqb m ob && chk_trace U s' r
  end.

(** model == implementation on a whole trace, starting from a fresh store *)
Definition chk_store (index_objects : bool) (U : list term) (tr : list (top * tobs)) : bool :=
  chk_trace U (init index_objects) tr.

(** diagnostics: position and model output of the first differing step *)
Fixpoint first_bad (U : list term) (s : store) (i : Z) (tr : list (top * tobs)) : option (Z * tobs) :=
  match tr with
  | [] => None
  | (o, ob) :: r => let (s', m) := tstep U s o in
                    if tobs_eqb m ob then first_bad U s' (i + 1) r else Some (i, m)
  end.
Definition show_store (index_objects : bool) (U : list term) (tr : list (top * tobs)) :=
  first_bad U (init index_objects) 0 tr.

(** the set-semantics oracle evaluated on the implementation's own outputs: a reference set is
    maintained from the operations alone; every snapshot must describe exactly that set *)
Fixpoint iset_add (t : itriple) (l : list itriple) : list itriple :=
  match l with
  | [] => [t]
  | x :: r => match it_cmp t x with Lt => t :: l | Eq => l | Gt => x :: iset_add t r end
  end.
Definition iset_del (t : itriple) (l : list itriple) : list itriple := filter (fun x => negb (it_eqb x t)) l.
Definition iset_mem (t : itriple) (l : list itriple) : bool := existsb (it_eqb t) l.
Definition zdistinct (l : list Z) : list Z :=
  fold_right (fun x acc => if existsb (Z.eqb x) acc then acc else x :: acc) [] l.
Definition it_s (t : itriple) : Z := fst (fst t).
Definition it_p (t : itriple) : Z := snd (fst t).
Definition it_o (t : itriple) : Z := snd t.

Definition ishapes (t : itriple) : list (option Z * option Z * option Z) :=
  let '(a, b, c) := t in
  [(None, None, None); (Some a, None, None); (None, Some b, None); (None, None, Some c);
   (Some a, Some b, None); (Some a, None, Some c); (None, Some b, Some c); (Some a, Some b, Some c)].
Definition imatch (p : option Z * option Z * option Z) (t : itriple) : bool :=
  let '(a, b, c) := p in
  (match a with Some x => x =? it_s t | None => true end)
  && (match b with Some x => x =? it_p t | None => true end)
  && (match c with Some x => x =? it_o t | None => true end).

(** does a snapshot describe the set [g] (sorted, duplicate-free)? *)
Definition snap_is_set (index_objects : bool) (nU : Z) (g : list itriple) (probes : list itriple) (s : snap) : bool :=
  let us := map Z.of_nat (seq 0 (Z.to_nat nU)) in
  (sn_len s =? Z.of_nat (length g)) && Bool.eqb (sn_empty s) (is_nil g) && itl_eqb (sn_all s) g
  && zlist_eqb (sn_subjects s) (sort_by Z.compare (zdistinct (map it_s g)))
  && zlist_eqb (sn_predicates s) (sort_by Z.compare (zdistinct (map it_p g)))
  && zlist_eqb (sn_objects s) (sort_by Z.compare (zdistinct (map it_o g)))
  && (let '(a1, a2, a3, a4) := sn_stats s in
      (a1 =? Z.of_nat (length g)) && (a2 =? Z.of_nat (length (zdistinct (map it_s g))))
      && (a3 =? Z.of_nat (length (zdistinct (map it_p g))))
      && (a4 =? if index_objects then Z.of_nat (length (zdistinct (map it_o g))) else 0))
  && itll_eqb (sn_ws s) (map (fun x => filter (fun t => it_s t =? x) g) us)
  && itll_eqb (sn_wp s) (map (fun x => filter (fun t => it_p t =? x) g) us)
  && itll_eqb (sn_wo s) (map (fun x => filter (fun t => it_o t =? x) g) us)
  && itll_eqb (sn_finds s) (flat_map (fun t => map (fun p => filter (imatch p) g) (ishapes t)) probes)
  && list_eqb Bool.eqb (sn_contains s) (map (fun t => iset_mem t g) probes).

Definition buf_geti (tx : Z) (b : list (Z * list (bool * itriple))) : list (bool * itriple) :=
  match List.find (fun e => fst e =? tx) b with Some e => snd e | None => [] end.
Definition buf_seti (tx : Z) (v : list (bool * itriple)) (b : list (Z * list (bool * itriple))) :=
  (tx, v) :: filter (fun e => negb (fst e =? tx)) b.

(** the oracle over a whole trace (buffers: list of (is_insert, triple) per transaction) *)
Fixpoint oracle_trace (index_objects : bool) (nU : Z) (g : list itriple)
         (b : list (Z * list (bool * itriple))) (tr : list (top * tobs)) : bool :=
  match tr with
  | [] => true
  | (o, ob) :: r =>
      match o, ob with
      | TInsert t, OB res => Bool.eqb res (negb (iset_mem t g)) && oracle_trace index_objects nU (iset_add t g) b r
      | TRemove t, OB res => Bool.eqb res (iset_mem t g) && oracle_trace index_objects nU (iset_del t g) b r
      | TClear, OU => oracle_trace index_objects nU [] b r
      | TInsertTx tx t, OU => oracle_trace index_objects nU g (buf_seti tx (buf_geti tx b ++ [(true, t)]) b) r
      | TRemoveTx tx t, OU => oracle_trace index_objects nU g (buf_seti tx (buf_geti tx b ++ [(false, t)]) b) r
      | TCommit tx, ON k =>
          let ops := buf_geti tx b in
          (k =? Z.of_nat (length ops))
          && oracle_trace index_objects nU
               (fold_left (fun (g0 : list itriple) (e : bool * itriple) => if fst e then iset_add (snd e) g0 else iset_del (snd e) g0) ops g)
               (filter (fun e : Z * list (bool * itriple) => negb (fst e =? tx)) b) r
      | TRollback tx, ON k =>
          (k =? Z.of_nat (length (buf_geti tx b)))
          && oracle_trace index_objects nU g (filter (fun e : Z * list (bool * itriple) => negb (fst e =? tx)) b) r
      | TProbe ps _, OS s => snap_is_set index_objects nU g ps s && oracle_trace index_objects nU g b r
      | _, _ => false
      end
  end.
Definition oracle_store (index_objects : bool) (U : list term) (tr : list (top * tobs)) : bool :=
  oracle_trace index_objects (Z.of_nat (length U)) [] [] tr.

(** * execute_sparql *)

(** observed result: an error, or the column names (variable numbers; [count_col] for ?c;
    -1 for a name that is not a variable of the query) and the rows *)
Inductive ocell := XN | XS (i : Z) | XI (n : Z).
Inductive qobs := QErr | QRows (cols : list Z) (rows : list (list ocell)).

Definition decode_cell (S : list str) (c : ocell) : cell :=
  match c with XN => CNull | XS i => CStr (nth (Z.to_nat i) S []) | XI n => CInt n end.
Definition row_eqb : row -> row -> bool := list_eqb cell_eqb.
Definition rows_eqb : list row -> list row -> bool := list_eqb row_eqb.
Definition cols_eqb (a : list nat) (b : list Z) : bool := zlist_eqb (map Z.of_nat a) b.

(** model == implementation: same outcome kind, same columns, the same rows in the same order
    (the scan order of the primary hash set is an input: [order]) *)
Definition chk_select (n : nat) (U : list term) (S : list str) (ds order : list itriple) (q : query) (o : qobs) : bool :=
  match run_select (store_of_ordered (map (utriple U) ds) (map (utriple U) order)) q, o with
  | Err, QErr => true
  | Done (cols, rows), QRows oc orows => cols_eqb cols oc && rows_eqb rows (map (map (decode_cell S)) orows)
  | _, _ => false
  end.

Definition show_select (n : nat) (U : list term) (S : list str) (ds order : list itriple) (q : query) (o : qobs) :=
  run_select (store_of_ordered (map (utriple U) ds) (map (utriple U) order)) q.

(** ** the oracle: W3C evaluation, rendered the way the implementation renders values *)

Definition render_rcell (c : rcell) : cell :=
  match c with RNull => CNull | RTerm t => CStr (render t) | RInt n => CInt n end.

Definition cell_rank (c : cell) : Z := match c with CNull => 0 | CStr _ => 1 | CInt _ => 2 end.
Definition cell_cmp3 (a b : cell) : comparison :=
  match a, b with
  | CStr x, CStr y => str_cmp x y
  | CInt x, CInt y => x ?= y
  | _, _ => cell_rank a ?= cell_rank b
  end.
Fixpoint row_cmp (a b : row) : comparison :=
  match a, b with
  | [], [] => Eq
  | [], _ => Lt
  | _, [] => Gt
  | x :: a', y :: b' => match cell_cmp3 x y with Eq => row_cmp a' b' | c => c end
  end.
Definition bag_eqb (a b : list row) : bool := rows_eqb (sort_by row_cmp a) (sort_by row_cmp b).

Definition nat_set_eqb (a b : list nat) : bool :=
  forallb (fun x => nat_memb x b) a && forallb (fun x => nat_memb x a) b
  && Nat.eqb (length a) (length (nodup_nat a)).

Definition zcols (l : list Z) : list nat := map Z.to_nat l.

(** is the order of the answer determined by the specification?  (every pair of solutions is
    comparable on every key, and solutions that tie on all keys project to the same row) *)
Definition order_determined (n : nat) (g : list triple) (q : query) (vs : list nat) : bool :=
  let sols := eval_pat n g (q_pat q) in
  forallb (fun a => forallb (fun b =>
     forallb (fun k => comparable (nth (fst k) a None) (nth (fst k) b None)) (q_order q)
     && match keys_cmp (q_order q) a b with
        | Eq => list_eqb (option_eqb term_eqb) (project vs a) (project vs b)
        | _ => true
        end) sols) sols.

(** [n] = number of variables of the query; [g] the stored triples; [oc], [rows] the columns and
    rows of an answer *)
Definition spec_rows (n : nat) (g : list triple) (q : query) (oc : list Z) (rows : list row) : bool :=
      let cols_ok :=
          match q_proj q with
          | ProjStar => forallb (fun c => 0 <=? c) oc && nat_set_eqb (zcols oc) (in_scope (q_pat q))
          | ProjVars vs => cols_eqb vs oc
          | ProjCount => cols_eqb [count_col] oc
          end in
      if negb cols_ok then false else
      let q' := match q_proj q with
                | ProjStar => Query (q_distinct q) (ProjVars (zcols oc)) (q_pat q) (q_order q) (q_offset q) (q_limit q)
                | _ => q
                end in
      let expected := map (map render_rcell) (snd (eval_query n g q')) in
      let sliced := match q_offset q, q_limit q with None, None => false | _, _ => true end in
      let ordered := match q_order q with [] => false | _ => true end in
      let vs := match q_proj q' with ProjVars vs => vs | _ => [] end in
      match q_proj q with
      | ProjCount => rows_eqb rows expected
      | _ =>
          if ordered && order_determined n g q' vs then rows_eqb rows expected
          else if sliced then
            (* which solutions a slice of an undetermined order keeps is not fixed: only the
               number of rows and membership are checked *)
            Nat.eqb (length rows) (length expected)
            && forallb (fun r => existsb (row_eqb r)
                                   (map (map render_rcell)
                                        (snd (eval_query n g (Query (q_distinct q') (q_proj q') (q_pat q') (q_order q') None None))))) rows
          else bag_eqb rows expected
      end.

Definition spec_select (n : nat) (U : list term) (S : list str) (ds order : list itriple) (q : query) (o : qobs) : bool :=
  match o with
  | QErr => false
  | QRows oc orows => spec_rows n (map (utriple U) ds) q oc (map (map (decode_cell S)) orows)
  end.

(** the same question for the code before c4f453a *)
Definition select_agrees_pre (n : nat) (ds : list triple) (q : query) : bool :=
  match run_select_pre (store_of ds) q with
  | Done (cols, rows) => spec_rows n ds q (map Z.of_nat cols) rows
  | _ => false
  end.

(** does the engine model itself return what the algebra defines on this data set and query? *)
Definition select_agrees (n : nat) (ds : list triple) (q : query) : bool :=
  match run_select (store_of ds) q with
  | Done (cols, rows) => spec_rows n ds q (map Z.of_nat cols) rows
  | _ => false
  end.

(** ** updates: the observed set of triples afterwards *)
Definition chk_update (U : list term) (ds : list itriple) (u_ts : list itriple) (ins : bool)
           (ok : bool) (after : list itriple) : bool :=
  let st := store_of (map (utriple U) ds) in
  let u := if ins then InsertData (map (utriple U) u_ts) else DeleteData (map (utriple U) u_ts) in
  match run_update st u with
  | Done st' => ok && itl_eqb (canon U (triples st')) after
  | Err => negb ok && itl_eqb (canon U (triples st)) after
  | Unsup => false
  end.
Definition spec_update (U : list term) (ds : list itriple) (u_ts : list itriple) (ins : bool)
           (ok : bool) (after : list itriple) : bool :=
  let u := if ins then InsertData (map (utriple U) u_ts) else DeleteData (map (utriple U) u_ts) in
  ok && itl_eqb (canon U (eval_update (map (utriple U) ds) u)) after.

(** * finding classes: decidable descriptions of the inputs on which a listed defect of the
    SPARQL layer is observable *)

Fixpoint pat_tps (p : pat) : list tpat :=
  match p with
  | PBgp tps => tps
  | PJoin a b => pat_tps a ++ pat_tps b
  | POpt a b _ => pat_tps a ++ pat_tps b
  | PFilter _ a => pat_tps a
  | PUnion a b => pat_tps a ++ pat_tps b
  end.
Fixpoint expr_consts (e : expr) : list term :=
  match e with
  | EConst t => [t]
  | ECmp _ a b | EAnd a b | EOr a b => expr_consts a ++ expr_consts b
  | ENot a => expr_consts a
  | _ => []
  end.
Fixpoint pat_exprs (p : pat) : list expr :=
  match p with
  | PBgp _ => []
  | PJoin a b | PUnion a b => pat_exprs a ++ pat_exprs b
  | POpt a b c => pat_exprs a ++ pat_exprs b ++ (match c with Some e => [e] | None => [] end)
  | PFilter c a => c :: pat_exprs a
  end.
Definition tpos_consts (p : tpos) : list term := match p with TConst t => [t] | _ => [] end.
Definition pat_consts (p : pat) : list term :=
  flat_map (fun tp => tpos_consts (tp_s tp) ++ tpos_consts (tp_p tp) ++ tpos_consts (tp_o tp)) (pat_tps p)
  ++ flat_map expr_consts (pat_exprs p).

(** S1: DISTINCT is dropped by the planner — observable when the answer without DISTINCT has a
    repeated row *)
Definition k_distinct (n : nat) (g : list triple) (q : query) : bool :=
  q_distinct q &&
  match q_proj q with
  | ProjCount => false
  | pr => let vs := match pr with ProjVars vs => vs | _ => in_scope (q_pat q) end in
          let rows := map (project vs) (eval_pat n g (q_pat q)) in
          negb (Nat.eqb (length rows) (length (distinct_by (list_eqb (option_eqb term_eqb)) rows)))
  end.

(** S2: a triple pattern that uses one variable twice is scanned without the equality *)
Definition k_repvar (q : query) : bool :=
  existsb (fun tp => negb (Nat.eqb (length (tpat_vars tp)) (length (nodup_nat (tpat_vars tp))))) (pat_tps (q_pat q)).

(** S3: values are rendered to bare strings by the scan, so different terms with the same
    rendering are identified by joins and filters (plain / language-tagged / typed literals with
    one lexical form, a literal spelled like an IRI or a blank node label) *)
Definition triple_terms (t : triple) : list term := [t_s t; t_p t; t_o t].
Definition k_render (g : list triple) (q : query) : bool :=
  let ts := flat_map triple_terms g ++ pat_consts (q_pat q) in
  existsb (fun a => existsb (fun b => negb (term_eqb a b) && str_eqb (render a) (render b)) ts) ts.

(** S4: [literal_to_value] keeps only the lexical form (or the integer value) of a literal
    constant: language tags and datatypes of constants are lost, integers are canonicalised *)
Definition lossy_const (t : term) : bool := negb (term_eqb (const_term t) t).
Definition k_const (q : query) : bool := existsb lossy_const (pat_consts (q_pat q)).

(** the row the engine would see for a solution: all [n] variables as columns *)
Definition row_of_sol (m : sol) : row := map (fun c => match c with Some t => CStr (render t) | None => CNull end) m.

(** S5: FILTER is evaluated over rendered strings (numbers by parsing, everything else by byte
    comparison, [=] against a number never true, errors not three-valued, BOUND always true):
    observable when some filter of the query decides differently from section 17 on one of the
    solutions the specification feeds it *)
Fixpoint k_filter_pat (n : nat) (g : list triple) (p : pat) : bool :=
  match p with
  | PBgp _ => false
  | PJoin a b | PUnion a b => k_filter_pat n g a || k_filter_pat n g b
  | PFilter c a =>
      k_filter_pat n g a ||
      existsb (fun m => negb (Bool.eqb (holds c m) (ipred (seq 0 n) c (row_of_sol m)))) (eval_pat n g a)
  | POpt a b c =>
      k_filter_pat n g a || k_filter_pat n g b ||
      match c with
      | None => false
      | Some e =>
          (* W3C: the condition sees the merged solution; the engine filters the right side alone *)
          existsb (fun m1 => existsb (fun m2 =>
              compat m1 m2 && negb (Bool.eqb (holds e (merge m1 m2))
                                             (ipred (in_scope b) e (pick (in_scope b) (row_of_sol m2)))))
            (eval_pat n g b)) (eval_pat n g a)
      end
  end.
Definition k_filter (n : nat) (g : list triple) (q : query) : bool := k_filter_pat n g (q_pat q).

(** S6: UNION is positional: the columns of the first branch name the values of all branches *)
Fixpoint impl_cols (p : pat) : list nat :=
  match p with
  | PBgp tps => fold_left (fun acc tp => acc ++ filter (fun v => negb (nat_memb v acc)) (tpat_vars tp)) tps []
  | PJoin a b | POpt a b _ => impl_cols a ++ filter (fun v => negb (nat_memb v (impl_cols a))) (impl_cols b)
  | PFilter _ a => impl_cols a
  | PUnion a _ => impl_cols a
  end.
Fixpoint k_union_pat (p : pat) : bool :=
  match p with
  | PBgp _ => false
  | PJoin a b | POpt a b _ => k_union_pat a || k_union_pat b
  | PFilter _ a => k_union_pat a
  | PUnion a b => k_union_pat a || k_union_pat b
                  || negb (list_eqb Nat.eqb (impl_cols a) (impl_cols b))
  end.
Definition k_union (q : query) : bool := k_union_pat (q_pat q).

(** S7: unbound values of OPTIONAL: only the first null of a column survives in a chunk
    ([ValueVector] validity), the others come back as empty strings — observable when some
    column has at least two unbound cells among the solutions of the pattern *)
Fixpoint has_opt (p : pat) : bool :=
  match p with
  | PBgp _ => false
  | POpt _ _ _ => true
  | PJoin a b | PUnion a b => has_opt a || has_opt b
  | PFilter _ a => has_opt a
  end.
Definition k_null (n : nat) (g : list triple) (q : query) : bool :=
  has_opt (q_pat q) &&
  let sols := eval_pat n g (q_pat q) in
  existsb (fun v => Nat.leb 2 (length (filter (fun m => match nth v m None with None => true | Some _ => false end) sols)))
          (in_scope (q_pat q)).

(** S8: ORDER BY compares rendered strings byte-wise (numbers lexicographically, no ranking of
    term kinds) — observable when two solutions are ordered differently by section 15.1 *)
Definition k_order (n : nat) (g : list triple) (q : query) : bool :=
  match q_order q with
  | [] => false
  | ks =>
      let sols := eval_pat n g (q_pat q) in
      let iks := map (fun k => (fst k, snd k)) ks in
      existsb (fun a => existsb (fun b =>
        match keys_cmp ks a b, sort_cmp iks (row_of_sol a) (row_of_sol b) with
        | Lt, Lt | Eq, Eq | Gt, Gt => false
        | _, _ => true
        end) sols) sols
  end.

(** S9 (repaired by df57ccb, kept as the description of the inputs that showed it; no longer part
    of [k_class]): a FILTER whose input chunk already carries a selection (a filter directly below,
    also through UNION) recomputed the selection over all physical rows: rows dropped below came
    back *)
Fixpoint sel_source (p : pat) : bool :=
  match p with
  | PFilter _ _ => true
  | PUnion a b => sel_source a || sel_source b
  | _ => false
  end.
Fixpoint k_refilter_pat (p : pat) : bool :=
  match p with
  | PBgp _ => false
  | PJoin a b | PUnion a b => k_refilter_pat a || k_refilter_pat b
  | PFilter _ a => sel_source a || k_refilter_pat a
  | POpt a b c => k_refilter_pat a || k_refilter_pat b
                  || (match c with Some _ => sel_source b | None => false end)
  end.
Definition k_refilter (q : query) : bool := k_refilter_pat (q_pat q).

(** S10: INSERT DATA / DELETE DATA pass every term through [literal_to_value]: language tags and
    datatypes are lost, integers canonicalised; blank nodes are rejected *)
Definition k_update (ts : list triple) : bool :=
  existsb (fun t => has_blank t || negb (triple_eqb (conv_triple t) t)) ts.

(** the first open class that applies to a failing SELECT, 0 when none does.  Classes 1
    (DISTINCT dropped, repaired by c4f453a), 7 (validity bitmap, repaired by dfd360c) and 9
    (re-filter, repaired by df57ccb) are no longer part of the chain; their predicates stay as the
    description of the inputs that showed them. *)
Definition k_class_g (n : nat) (g : list triple) (q : query) : Z :=
  if k_repvar q then 2
  else if k_union q then 6
  else if k_const q then 4
  else if k_render g q then 3
  else if k_filter n g q then 5
  else if k_order n g q then 8
  else 0.
Definition k_class (n : nat) (U : list term) (S : list str) (ds order : list itriple) (q : query) (o : qobs) : Z :=
  k_class_g n (map (utriple U) ds) q.
Definition k_is (c : Z) (n : nat) (U : list term) (S : list str) (ds order : list itriple) (q : query) (o : qobs) : bool :=
  k_class n U S ds order q o =? c.
Definition k_upd (U : list term) (ds : list itriple) (u_ts : list itriple) (ins ok : bool) (after : list itriple) : bool :=
  k_update (map (utriple U) u_ts).

(** * one evaluation per case: (model == implementation, oracle, finding class) *)
Definition both_store (index_objects : bool) (U : list term) (tr : list (top * tobs)) : bool * bool :=
  (chk_store index_objects U tr, oracle_store index_objects U tr).
(** the engine model has no prediction for this case ([Unsup]: a table whose chunks have other
    widths than its column list — a UNION of branches with different numbers of variables — reaches
    a join, a sort or DISTINCT): such a case is not compared row for row (it is counted as
    "not modelled" in the evidence); the oracle still judges the implementation's answer *)
Definition model_unsup (n : nat) (U : list term) (S : list str) (ds order : list itriple) (q : query) (o : qobs) : bool :=
  match run_select (store_of_ordered (map (utriple U) ds) (map (utriple U) order)) q with
  | Unsup => true
  | _ => false
  end.
Definition both_select (n : nat) (U : list term) (S : list str) (ds order : list itriple) (q : query) (o : qobs)
  : bool * bool * Z * bool :=
  let s := spec_select n U S ds order q o in
  (chk_select n U S ds order q o, s, (if s then 0 else k_class n U S ds order q o), model_unsup n U S ds order q o).
Definition both_update (U : list term) (ds : list itriple) (u_ts : list itriple) (ins ok : bool) (after : list itriple)
  : bool * bool * Z :=
  let s := spec_update U ds u_ts ins ok after in
  (chk_update U ds u_ts ins ok after, s, if s then 0 else if k_upd U ds u_ts ins ok after then 10 else 0).
