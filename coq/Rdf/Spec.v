(** C13 — specification vocabulary for the triple store theorems (definitions only). *)
From GV Require Export Rdf.Model.
From Coq Require Export Permutation.
Open Scope Z_scope.

(** the entry of term [x] in an index over projection [proj] (subject/predicate/object) is a
    non-empty duplicate-free list of exactly the stored triples whose [proj] is [x];
    it is absent iff there is no such triple *)
Definition entry_ok (proj : triple -> term) (T : list triple) (m : amap) (x : term) : Prop :=
  match alookup x m with
  | Some l => l <> [] /\ NoDup l /\ (forall t, In t l <-> (In t T /\ proj t = x))
  | None => forall t, In t T -> proj t <> x
  end.

(** number of distinct terms of a list *)
Definition distinct_count (l : list term) : Z := Z.of_nat (length (dedup_terms l)).


(** the state reached from a fresh store *)
Definition reach (index_objects : bool) (ops : list op) : store := run (init index_objects) ops.

(** the direct (non-transactional) operation a pending operation stands for *)
Definition op_of_pending (o : pending) : op :=
  match o with PInsert t => Insert t | PDelete t => Remove t end.
