(** C13 — proofs about the engine model of Rdf/Engine.v: what FILTER keeps (current code and the
    code before df57ccb), INSERT DATA / DELETE DATA against the algebra. *)
From GV Require Import Rdf.Spec Rdf.Run Rdf.ProofsStore Rdf.ProofsAlgebra.
From Coq Require Import Lia Permutation.
Open Scope Z_scope.

(** * FILTER *)

Lemma live_filter_chunk : forall cols e c,
  all_live (filter_chunk cols e c) = filter (ipred cols e) (live c).
Proof.
  intros cols e c. unfold filter_chunk. cbv zeta.
  set (c' := map (fun br => (fst br && ipred cols e (snd br), snd br)) c).
  assert (L : live c' = filter (ipred cols e) (live c)).
  { unfold c', live. clear c'. induction c as [|[b r] c IH]; [reflexivity|]. cbn [map filter fst snd].
    destruct b; cbn [andb].
    - destruct (ipred cols e r) eqn:Ep; cbn [filter fst map snd]; rewrite ?Ep; [f_equal|]; exact IH.
    - cbn [filter fst]. exact IH. }
  destruct (existsb fst c') eqn:E.
  - unfold all_live. cbn [flat_map]. rewrite app_nil_r. exact L.
  - unfold all_live. cbn [flat_map]. rewrite <- L. unfold live.
    assert (G : filter fst c' = []).
    { clear L. induction c' as [|[b r] l IH]; [reflexivity|]. cbn [existsb fst] in E. apply orb_false_iff in E.
      destruct E as [E1 E2]. subst b. cbn [filter fst]. apply IH. exact E2. }
    rewrite G. reflexivity.
Qed.

Lemma all_live_app : forall a b, all_live (a ++ b) = all_live a ++ all_live b.
Proof. intros a b. unfold all_live. apply flat_map_app. Qed.

Lemma filter_tbl_spec_l : forall e t,
  all_live (t_chunks (filter_tbl e t)) = filter (ipred (t_cols t) e) (all_live (t_chunks t)).
Proof.
  intros e t. unfold filter_tbl. cbn [t_chunks t_cols]. induction (t_chunks t) as [|c cs IH]; [reflexivity|].
  cbn [flat_map]. rewrite all_live_app, IH, live_filter_chunk.
  assert (E : all_live (c :: cs) = live c ++ all_live cs) by reflexivity.
  rewrite E, filter_app. reflexivity.
Qed.

(** before df57ccb two filters in a row did not compose *)
Definition filter_tbl_pre (e : expr) (t : tbl) : tbl :=
  Tbl (t_cols t) (flat_map (filter_chunk_pre (t_cols t) e) (t_chunks t)).

Lemma refilter_pre_refuted_l : exists e1 e2 t,
  all_live (t_chunks (filter_tbl_pre e2 (filter_tbl_pre e1 t)))
  <> filter (ipred (t_cols t) e2) (filter (ipred (t_cols t) e1) (all_live (t_chunks t))).
Proof.
  exists (ECmp CGt (EVar 0) (EConst (lit_int [54]))), (ECmp CLt (EVar 0) (EConst (lit_int [57]))),
         (Tbl [0%nat] [fresh [[CStr [55]]; [CStr [53]]]]).
  vm_compute. discriminate.
Qed.

(** * INSERT DATA / DELETE DATA *)

Lemma run_cons : forall s o ops, run s (o :: ops) = run (fst (step s o)) ops.
Proof. reflexivity. Qed.

Lemma run_inserts_triples : forall ts st,
  triples (run st (map Insert ts)) = insert_data (triples st) ts.
Proof.
  induction ts as [|t ts IH]; intro st; [reflexivity|]. cbn [map]. rewrite run_cons, IH. cbn [insert_data step].
  unfold insert. destruct (memb t (triples st)); reflexivity.
Qed.

Lemma filter_filter : forall {A} (p q : A -> bool) l, filter p (filter q l) = filter (fun x => q x && p x) l.
Proof.
  intros A p q l. induction l as [|x l IH]; [reflexivity|]. cbn [filter]. destruct (q x); cbn [filter andb]; [|exact IH].
  destruct (p x); [f_equal|]; exact IH.
Qed.

Lemma run_removes_triples : forall ts st,
  triples (run st (map Remove ts)) = delete_data (triples st) ts.
Proof.
  induction ts as [|t ts IH]; intro st.
  - cbn [map]. unfold run, delete_data. cbn [fold_left]. symmetry. apply filter_id. reflexivity.
  - cbn [map]. rewrite run_cons, IH. unfold delete_data.
    assert (E : triples (fst (step st (Remove t))) = filter (fun x => negb (triple_eqb x t)) (triples st)).
    { cbn [step]. unfold remove. destruct (memb t (triples st)) eqn:Em; cbn [negb fst triples]; [reflexivity|].
      symmetry. apply filter_id. intros x Hx. apply negb_true_iff. apply triple_eqb_neq. intro; subst.
      apply memb_false in Em. contradiction. }
    rewrite E, filter_filter. apply filter_ext. intro x. unfold memb. cbn [existsb].
    rewrite negb_orb. reflexivity.
Qed.

Lemma inv_run_l : forall ops s, inv s -> inv (run s ops).
Proof. exact inv_run. Qed.

(** a data block the translator passes through unchanged: no blank node, every term survives
    [literal_to_value] / [component_to_term] *)
Definition clean_data (ts : list triple) : bool :=
  negb (is_nil ts) && forallb (fun t => negb (has_blank t) && triple_eqb (conv_triple t) t) ts.

Lemma clean_data_map : forall ts, forallb (fun t => negb (has_blank t) && triple_eqb (conv_triple t) t) ts = true ->
  map conv_triple ts = ts /\ existsb has_blank ts = false.
Proof.
  induction ts as [|t ts IH]; intro H; [split; reflexivity|]. cbn [forallb] in H.
  apply andb_true_iff in H. destruct H as [H1 H2]. apply andb_true_iff in H1. destruct H1 as [Hb Hc].
  apply triple_eqb_eq in Hc. destruct (IH H2) as [E1 E2]. cbn [map existsb]. rewrite Hc, E1, E2.
  apply negb_true_iff in Hb. rewrite Hb. split; reflexivity.
Qed.

Lemma update_spec_l : forall st u,
  clean_data (match u with InsertData ts | DeleteData ts => ts end) = true ->
  exists st', run_update st u = Done st' /\ triples st' = eval_update (triples st) u /\ (inv st -> inv st').
Proof.
  intros st u H. unfold clean_data in H. apply andb_true_iff in H. destruct H as [Hn Hc].
  destruct u as [ts|ts]; destruct (clean_data_map ts Hc) as [E1 E2]; unfold run_update; rewrite E2;
    destruct ts as [|t0 ts0]; try discriminate.
  - eexists. split; [reflexivity|]. rewrite <- (map_map conv_triple Insert), E1. split; [apply run_inserts_triples|apply inv_run].
  - eexists. split; [reflexivity|]. rewrite <- (map_map conv_triple Remove), E1. split; [apply run_removes_triples|apply inv_run].
Qed.

Lemma update_refuted_l : exists ds u st',
  run_update (store_of ds) u = Done st' /\
  ~ Permutation (triples st') (eval_update (triples (store_of ds)) u).
Proof.
  (* INSERT DATA { <a> <q> "z"@fr }: the plain literal "z" is stored *)
  exists [], (InsertData [Triple (Iri [97]) (Iri [113]) (lit_lang [122] [102; 114])]). eexists. split; [vm_compute; reflexivity|].
  intro H. apply Permutation_length_1_inv in H. revert H. vm_compute. discriminate.
Qed.

(** * the listed defects of the SPARQL layer are real: for each class a data set and a query on
    which the engine model (= the implementation, by the differential run) does not return the
    answer of the algebra *)
Lemma select_refuted_l : forall c, 1 <= c <= 8 ->
  exists n ds q, k_class_g n ds q = c /\ select_agrees n ds q = false.
Proof.
  pose (a := Iri [97]). pose (b := Iri [98]). pose (c0 := Iri [99]).
  pose (p := Iri [112]). pose (q := Iri [113]). pose (nn := Iri [110]).
  pose (v := fun i : nat => TVar i). pose (k := fun t : term => TConst t).
  pose (sel := fun (d : bool) (pr : proj) (pt : pat) => Query d pr pt [] None None).
  pose (d5 := [Triple a nn (lit_int [55]); Triple b nn (lit_int [49;50]); Triple c0 nn (lit_int [53])]).
  intros c Hc.
  assert (E : c = 1 \/ c = 2 \/ c = 3 \/ c = 4 \/ c = 5 \/ c = 6 \/ c = 7 \/ c = 8) by lia.
  destruct E as [E|[E|[E|[E|[E|[E|[E|E]]]]]]]; subst c.
  - exists 2%nat, [Triple a p b; Triple a p c0; Triple b p c0], (sel true (ProjVars [0%nat]) (PBgp [TPat (v 0%nat) (k p) (v 1%nat)])).
    vm_compute. split; reflexivity.
  - exists 1%nat, [Triple a p a; Triple a p b], (sel false ProjStar (PBgp [TPat (v 0%nat) (k p) (v 0%nat)])).
    vm_compute. split; reflexivity.
  - exists 3%nat, [Triple a q (lit_plain [120]); Triple b q (lit_lang [120] [101;110])],
      (sel false (ProjVars [0%nat;2%nat]) (PBgp [TPat (v 0%nat) (k q) (v 1%nat); TPat (v 2%nat) (k q) (v 1%nat)])).
    vm_compute. split; reflexivity.
  - exists 1%nat, [Triple a q (lit_plain [120])], (sel false ProjStar (PBgp [TPat (v 0%nat) (k q) (k (lit_lang [120] [101;110]))])).
    vm_compute. split; reflexivity.
  - exists 2%nat, d5, (sel false ProjStar (PFilter (ECmp CEq (EVar 1) (EConst (lit_int [55]))) (PBgp [TPat (v 0%nat) (k nn) (v 1%nat)]))).
    vm_compute. split; reflexivity.
  - exists 2%nat, [Triple a p b; Triple c0 q a],
      (sel false (ProjVars [0%nat;1%nat]) (PUnion (PBgp [TPat (v 0%nat) (k p) (v 1%nat)]) (PBgp [TPat (v 1%nat) (k q) (v 0%nat)]))).
    vm_compute. split; reflexivity.
  - exists 3%nat, [Triple a p b; Triple b p c0; Triple c0 p a; Triple b nn (lit_int [53])],
      (sel false ProjStar (POpt (PBgp [TPat (v 0%nat) (k p) (v 1%nat)]) (PBgp [TPat (v 0%nat) (k nn) (v 2%nat)]) None)).
    vm_compute. split; reflexivity.
  - exists 2%nat, d5, (Query false (ProjVars [1%nat;0%nat]) (PBgp [TPat (v 0%nat) (k nn) (v 1%nat)]) [(1%nat,false);(0%nat,false)] None (Some 2%nat)).
    vm_compute. split; reflexivity.
Qed.
