(** C13 — proofs about the engine model of Rdf/Engine.v: what FILTER keeps (current code and the
    code before df57ccb), INSERT DATA / DELETE DATA against the algebra. *)
From GV Require Import Rdf.Spec Rdf.Run Rdf.ProofsStore Rdf.ProofsAlgebra.
From Coq Require Import Lia Permutation.
Open Scope Z_scope.

(** * FILTER *)

Lemma live_filter_chunk : forall cols e c,
  all_live (filter_chunk cols e c) = filter (ipred cols e) (live c).
Proof.
  intros cols e c. unfold filter_chunk. cbv zeta.
  set (c' := map (fun br => (fst br && ipred cols e (snd br), snd br)) c).
  assert (L : live c' = filter (ipred cols e) (live c)).
  { unfold c', live. clear c'. induction c as [|[b r] c IH]; [reflexivity|]. cbn [map filter fst snd].
    destruct b; cbn [andb].
    - destruct (ipred cols e r) eqn:Ep; cbn [filter fst map snd]; rewrite ?Ep; [f_equal|]; exact IH.
    - cbn [filter fst]. exact IH. }
  destruct (existsb fst c') eqn:E.
  - unfold all_live. cbn [flat_map]. rewrite app_nil_r. exact L.
  - unfold all_live. cbn [flat_map]. rewrite <- L. unfold live.
    assert (G : filter fst c' = []).
    { clear L. induction c' as [|[b r] l IH]; [reflexivity|]. cbn [existsb fst] in E. apply orb_false_iff in E.
      destruct E as [E1 E2]. subst b. cbn [filter fst]. apply IH. exact E2. }
    rewrite G. reflexivity.
Qed.

Lemma all_live_app : forall a b, all_live (a ++ b) = all_live a ++ all_live b.
Proof. intros a b. unfold all_live. apply flat_map_app. Qed.

Lemma filter_tbl_spec_l : forall e t,
  all_live (t_chunks (filter_tbl e t)) = filter (ipred (t_cols t) e) (all_live (t_chunks t)).
Proof.
  intros e t. unfold filter_tbl. cbn [t_chunks t_cols]. induction (t_chunks t) as [|c cs IH]; [reflexivity|].
  cbn [flat_map]. rewrite all_live_app, IH, live_filter_chunk.
  assert (E : all_live (c :: cs) = live c ++ all_live cs) by reflexivity.
  rewrite E, filter_app. reflexivity.
Qed.

(** before df57ccb two filters in a row did not compose *)
Definition filter_tbl_pre (e : expr) (t : tbl) : tbl :=
  Tbl (t_cols t) (flat_map (filter_chunk_pre (t_cols t) e) (t_chunks t)).

Lemma refilter_pre_refuted_l : exists e1 e2 t,
  all_live (t_chunks (filter_tbl_pre e2 (filter_tbl_pre e1 t)))
  <> filter (ipred (t_cols t) e2) (filter (ipred (t_cols t) e1) (all_live (t_chunks t))).
Proof.
  exists (ECmp CGt (EVar 0) (EConst (lit_int [54]))), (ECmp CLt (EVar 0) (EConst (lit_int [57]))),
         (Tbl [0%nat] [fresh [[CStr [55]]; [CStr [53]]]]).
  vm_compute. discriminate.
Qed.

(** * INSERT DATA / DELETE DATA *)

Lemma run_cons : forall s o ops, run s (o :: ops) = run (fst (step s o)) ops.
Proof. reflexivity. Qed.

Lemma run_inserts_triples : forall ts st,
  triples (run st (map Insert ts)) = insert_data (triples st) ts.
Proof.
  induction ts as [|t ts IH]; intro st; [reflexivity|]. cbn [map]. rewrite run_cons, IH. cbn [insert_data step].
  unfold insert. destruct (memb t (triples st)); reflexivity.
Qed.

Lemma filter_filter : forall {A} (p q : A -> bool) l, filter p (filter q l) = filter (fun x => q x && p x) l.
Proof.
  intros A p q l. induction l as [|x l IH]; [reflexivity|]. cbn [filter]. destruct (q x); cbn [filter andb]; [|exact IH].
  destruct (p x); [f_equal|]; exact IH.
Qed.

Lemma run_removes_triples : forall ts st,
  triples (run st (map Remove ts)) = delete_data (triples st) ts.
Proof.
  induction ts as [|t ts IH]; intro st.
  - cbn [map]. unfold run, delete_data. cbn [fold_left]. symmetry. apply filter_id. reflexivity.
  - cbn [map]. rewrite run_cons, IH. unfold delete_data.
    assert (E : triples (fst (step st (Remove t))) = filter (fun x => negb (triple_eqb x t)) (triples st)).
    { cbn [step]. unfold remove. destruct (memb t (triples st)) eqn:Em; cbn [negb fst triples]; [reflexivity|].
      symmetry. apply filter_id. intros x Hx. apply negb_true_iff. apply triple_eqb_neq. intro; subst.
      apply memb_false in Em. contradiction. }
    rewrite E, filter_filter. apply filter_ext. intro x. unfold memb. cbn [existsb].
    rewrite negb_orb. reflexivity.
Qed.

Lemma inv_run_l : forall ops s, inv s -> inv (run s ops).
Proof. exact inv_run. Qed.

(** a data block the translator passes through unchanged: no blank node, every term survives
    [literal_to_value] / [component_to_term] *)
Definition clean_data (ts : list triple) : bool :=
  negb (is_nil ts) && forallb (fun t => negb (has_blank t) && triple_eqb (conv_triple t) t) ts.

Lemma clean_data_map : forall ts, forallb (fun t => negb (has_blank t) && triple_eqb (conv_triple t) t) ts = true ->
  map conv_triple ts = ts /\ existsb has_blank ts = false.
Proof.
  induction ts as [|t ts IH]; intro H; [split; reflexivity|]. cbn [forallb] in H.
  apply andb_true_iff in H. destruct H as [H1 H2]. apply andb_true_iff in H1. destruct H1 as [Hb Hc].
  apply triple_eqb_eq in Hc. destruct (IH H2) as [E1 E2]. cbn [map existsb]. rewrite Hc, E1, E2.
  apply negb_true_iff in Hb. rewrite Hb. split; reflexivity.
Qed.

Lemma update_spec_l : forall st u,
  clean_data (match u with InsertData ts | DeleteData ts => ts end) = true ->
  exists st', run_update st u = Done st' /\ triples st' = eval_update (triples st) u /\ (inv st -> inv st').
Proof.
  intros st u H. unfold clean_data in H. apply andb_true_iff in H. destruct H as [Hn Hc].
  destruct u as [ts|ts]; destruct (clean_data_map ts Hc) as [E1 E2]; unfold run_update; rewrite E2;
    destruct ts as [|t0 ts0]; try discriminate.
  - eexists. split; [reflexivity|]. rewrite <- (map_map conv_triple Insert), E1. split; [apply run_inserts_triples|apply inv_run].
  - eexists. split; [reflexivity|]. rewrite <- (map_map conv_triple Remove), E1. split; [apply run_removes_triples|apply inv_run].
Qed.

Lemma update_refuted_l : exists ds u st',
  run_update (store_of ds) u = Done st' /\
  ~ Permutation (triples st') (eval_update (triples (store_of ds)) u).
Proof.
  (* INSERT DATA { <a> <q> "z"@fr }: the plain literal "z" is stored *)
  exists [], (InsertData [Triple (Iri [97]) (Iri [113]) (lit_lang [122] [102; 114])]). eexists. split; [vm_compute; reflexivity|].
  intro H. apply Permutation_length_1_inv in H. revert H. vm_compute. discriminate.
Qed.

(** * materialised chunks keep their nulls (dfd360c); before, only the first null of a column survived *)

Lemma build_spec_l : forall rs, all_live (build rs) = rs.
Proof.
  intros [|r rs]; [reflexivity|]. unfold build, all_live. cbn [flat_map]. rewrite app_nil_r.
  unfold live, fresh. induction (r :: rs) as [|x l IH]; [reflexivity|]. cbn [map filter fst snd]. f_equal. exact IH.
Qed.

Lemma build_pre_refuted_l : exists rs, all_live (build_pre rs) <> rs.
Proof. exists [[CNull]; [CNull]]. vm_compute. discriminate. Qed.

(** * DISTINCT (c4f453a): every row of the input once *)

Lemma cell_eqb_eq : forall a b, cell_eqb a b = true <-> a = b.
Proof.
  intros [|x|x] [|y|y]; cbn [cell_eqb]; split; intro H; try reflexivity; try discriminate.
  - apply str_eqb_eq in H. congruence.
  - injection H as ->. apply str_eqb_eq. reflexivity.
  - apply Z.eqb_eq in H. congruence.
  - injection H as ->. apply Z.eqb_refl.
Qed.

Lemma drow_eqb_eq : forall a b, drow_eqb a b = true <-> a = b.
Proof.
  unfold drow_eqb. induction a as [|x a IH]; destruct b as [|y b]; cbn [list_eqb]; split; intro H; try reflexivity; try discriminate.
  - apply andb_true_iff in H. destruct H as [H1 H2]. apply cell_eqb_eq in H1. apply IH in H2. congruence.
  - injection H as -> ->. apply andb_true_iff. split; [apply cell_eqb_eq|apply IH]; reflexivity.
Qed.

Lemma seen_In : forall r seen, existsb (drow_eqb r) seen = true <-> In r seen.
Proof.
  intros r seen. rewrite existsb_exists. split.
  - intros [x [H1 H2]]. apply drow_eqb_eq in H2. subst. exact H1.
  - intro H. exists r. split; [exact H|apply drow_eqb_eq; reflexivity].
Qed.

Lemma dedup_seen_spec : forall rs seen,
  NoDup (fst (dedup_seen seen rs)) /\
  (forall r, In r (fst (dedup_seen seen rs)) <-> In r rs /\ ~ In r seen) /\
  (forall r, In r (snd (dedup_seen seen rs)) <-> In r seen \/ In r rs).
Proof.
  induction rs as [|x rs IH]; intro seen; cbn [dedup_seen].
  - cbn [fst snd In]. split; [constructor|]. split; intro r; tauto.
  - destruct (existsb (drow_eqb x) seen) eqn:E.
    + apply seen_In in E. destruct (IH seen) as [H1 [H2 H3]]. split; [exact H1|]. split; intro r.
      * rewrite H2. cbn [In]. split; [tauto|]. intros [[->|H] Hn]; [contradiction|tauto].
      * rewrite H3. cbn [In]. split; [tauto|]. intros [H|[->|H]]; tauto.
    + assert (Hx : ~ In x seen) by (intro H; apply seen_In in H; congruence).
      destruct (IH (x :: seen)) as [H1 [H2 H3]]. destruct (dedup_seen (x :: seen) rs) as [out seen'] eqn:Ed.
      cbn [fst snd] in *. split; [|split]; [|intro r|intro r].
      * constructor; [|exact H1]. rewrite H2. cbn [In]. tauto.
      * cbn [In]. rewrite H2. cbn [In]. split.
        -- intros [->|[H Hn]]; [tauto|]. split; [tauto|]. tauto.
        -- intros [[->|H] Hn]; [left; reflexivity|].
           destruct (drow_eqb x r) eqn:Exr; [apply drow_eqb_eq in Exr; left; exact Exr|].
           right. split; [exact H|]. intros [Hc|Hc]; [|contradiction].
           subst. rewrite (proj2 (drow_eqb_eq r r) eq_refl) in Exr. discriminate.
      * rewrite H3. cbn [In]. tauto.
Qed.
Lemma distinct_chunks_spec : forall cs seen,
  NoDup (all_live (distinct_chunks seen cs)) /\
  (forall r, In r (all_live (distinct_chunks seen cs)) <-> In r (all_live cs) /\ ~ In r seen).
Proof.
  induction cs as [|c cs IH]; intro seen; cbn [distinct_chunks].
  - split; [constructor|]. intro r. cbn. tauto.
  - destruct (dedup_seen_spec (live c) seen) as [D1 [D2 D3]]. destruct (dedup_seen seen (live c)) as [out seen'] eqn:Ed.
    cbn [fst snd] in *. destruct (IH seen') as [I1 I2]. rewrite all_live_app, build_spec_l.
    assert (E : all_live (c :: cs) = live c ++ all_live cs) by reflexivity. split.
    + assert (G : forall l1 l2 : list row, NoDup l1 -> NoDup l2 -> (forall z, In z l1 -> ~ In z l2) -> NoDup (l1 ++ l2)).
      { intros l1 l2 N1 N2 D. induction N1 as [|z l1 Hz N1 IH1]; [exact N2|]. cbn [app]. constructor.
        - rewrite in_app_iff. intros [Hc|Hc]; [contradiction|]. apply (D z (or_introl eq_refl) Hc).
        - apply IH1. intros w Hw. apply D. right. exact Hw. }
      apply G; [exact D1|exact I1|]. intros z Hz Hc. apply I2 in Hc. destruct Hc as [_ Hn]. apply Hn. apply D3. right.
      apply D2 in Hz. tauto.
    + intro r. rewrite E, !in_app_iff, D2, I2, D3. split.
      * intros [[H Hn]|[H Hn]]; [tauto|]. split; [tauto|]. tauto.
      * intros [[H|H] Hn]; [left; tauto|]. destruct (in_dec (list_eq_dec (fun a b : cell => ltac:(decide equality; [apply (list_eq_dec Z.eq_dec)|apply Z.eq_dec]))) r (live c)) as [Hl|Hl];
          [left; tauto|right; tauto].
Qed.

Lemma distinct_tbl_spec_l : forall t t', distinct_tbl t = Done t' ->
  t_cols t' = t_cols t /\ NoDup (all_live (t_chunks t')) /\
  (forall r, In r (all_live (t_chunks t')) <-> In r (all_live (t_chunks t))).
Proof.
  intros t t' H. unfold distinct_tbl in H. destruct (negb (well_formed t)); [discriminate|]. injection H as <-.
  cbn [t_cols t_chunks]. split; [reflexivity|]. destruct (distinct_chunks_spec (t_chunks t) []) as [H1 H2].
  split; [exact H1|]. intro r. rewrite H2. cbn [In]. tauto.
Qed.

(** the witnesses of the repaired defects S1 and S7: wrong before, right now *)
Lemma distinct_pre_refuted_l : exists n ds q,
  q_distinct q = true /\ select_agrees_pre n ds q = false /\ select_agrees n ds q = true.
Proof.
  exists 2%nat, [Triple (Iri [97]) (Iri [112]) (Iri [98]); Triple (Iri [97]) (Iri [112]) (Iri [99]); Triple (Iri [98]) (Iri [112]) (Iri [99])],
         (Query true (ProjVars [0%nat]) (PBgp [TPat (TVar 0) (TConst (Iri [112])) (TVar 1)]) [] None None).
  vm_compute. repeat split; reflexivity.
Qed.

Lemma optional_null_witness_l :
  select_agrees 3 [Triple (Iri [97]) (Iri [112]) (Iri [98]); Triple (Iri [98]) (Iri [112]) (Iri [99]);
                   Triple (Iri [99]) (Iri [112]) (Iri [97]); Triple (Iri [98]) (Iri [110]) (lit_int [53])]
    (Query false ProjStar (POpt (PBgp [TPat (TVar 0) (TConst (Iri [112])) (TVar 1)]) (PBgp [TPat (TVar 0) (TConst (Iri [110])) (TVar 2)]) None) [] None None)
  = true.
Proof. vm_compute. reflexivity. Qed.

(** * the listed defects of the SPARQL layer are real: for each class a data set and a query on
    which the engine model (= the implementation, by the differential run) does not return the
    answer of the algebra *)
Lemma select_refuted_l : forall c, In c [2; 3; 4; 5; 6; 8] ->
  exists n ds q, k_class_g n ds q = c /\ select_agrees n ds q = false.
Proof.
  pose (a := Iri [97]). pose (b := Iri [98]). pose (c0 := Iri [99]).
  pose (p := Iri [112]). pose (q := Iri [113]). pose (nn := Iri [110]).
  pose (v := fun i : nat => TVar i). pose (k := fun t : term => TConst t).
  pose (sel := fun (d : bool) (pr : proj) (pt : pat) => Query d pr pt [] None None).
  pose (d5 := [Triple a nn (lit_int [55]); Triple b nn (lit_int [49;50]); Triple c0 nn (lit_int [53])]).
  intros c Hc. cbn [In] in Hc.
  destruct Hc as [E|[E|[E|[E|[E|[E|[]]]]]]]; subst c.
  - exists 1%nat, [Triple a p a; Triple a p b], (sel false ProjStar (PBgp [TPat (v 0%nat) (k p) (v 0%nat)])).
    vm_compute. split; reflexivity.
  - exists 3%nat, [Triple a q (lit_plain [120]); Triple b q (lit_lang [120] [101;110])],
      (sel false (ProjVars [0%nat;2%nat]) (PBgp [TPat (v 0%nat) (k q) (v 1%nat); TPat (v 2%nat) (k q) (v 1%nat)])).
    vm_compute. split; reflexivity.
  - exists 1%nat, [Triple a q (lit_plain [120])], (sel false ProjStar (PBgp [TPat (v 0%nat) (k q) (k (lit_lang [120] [101;110]))])).
    vm_compute. split; reflexivity.
  - exists 2%nat, d5, (sel false ProjStar (PFilter (ECmp CEq (EVar 1) (EConst (lit_int [55]))) (PBgp [TPat (v 0%nat) (k nn) (v 1%nat)]))).
    vm_compute. split; reflexivity.
  - exists 2%nat, [Triple a p b; Triple c0 q a],
      (sel false (ProjVars [0%nat;1%nat]) (PUnion (PBgp [TPat (v 0%nat) (k p) (v 1%nat)]) (PBgp [TPat (v 1%nat) (k q) (v 0%nat)]))).
    vm_compute. split; reflexivity.
  - exists 2%nat, d5, (Query false (ProjVars [1%nat;0%nat]) (PBgp [TPat (v 0%nat) (k nn) (v 1%nat)]) [(1%nat,false);(0%nat,false)] None (Some 2%nat)).
    vm_compute. split; reflexivity.
Qed.
