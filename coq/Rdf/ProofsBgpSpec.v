(** C13 — [eval_bgp] (a chain of Joins of triple-pattern matches) computes exactly the solutions
    of the declarative definition of a basic graph pattern. *)
From GV Require Import Rdf.SpecSparql Rdf.ProofsStore Rdf.ProofsAlgebra.
From Coq Require Import Lia Permutation.
Open Scope Z_scope.

Lemma nth_ext_opt : forall (a b : sol), length a = length b -> (forall v, nth v a None = nth v b None) -> a = b.
Proof.
  induction a as [|x a IH]; destruct b as [|y b]; intros Hl H; try discriminate; [reflexivity|].
  f_equal; [apply (H O)|]. apply IH; [injection Hl as Hl; exact Hl|]. intro v. apply (H (S v)).
Qed.

Lemma nth_overflow_opt : forall (m : sol) v, (length m <= v)%nat -> nth v m None = None.
Proof. intros m v H. apply nth_overflow. exact H. Qed.

Lemma nth_empty_sol_l : forall n v, nth v (empty_sol n) None = None.
Proof. induction n as [|n IH]; intros [|v]; cbn [empty_sol repeat nth]; try reflexivity. apply IH. Qed.

(** * [bind] *)

Lemma bind_spec : forall v x m m', bind v x m = Some m' ->
  length m' = length m /\ nth v m' None = Some x /\ (forall u, u <> v -> nth u m' None = nth u m None) /\
  (nth v m None = None \/ nth v m None = Some x).
Proof.
  induction v as [|v IH]; intros x [|c r] m' H; cbn [bind] in H; try discriminate.
  - destruct c as [y|].
    + destruct (term_eqb x y) eqn:E; [|discriminate]. injection H as <-. apply term_eqb_eq in E. subst y.
      repeat split; auto.
    + injection H as <-. repeat split; auto. intros [|u] Hu; [congruence|reflexivity].
  - destruct (bind v x r) as [r'|] eqn:E; [|discriminate]. injection H as <-.
    destruct (IH x r r' E) as [H1 [H2 [H3 H4]]]. cbn [length nth]. repeat split; auto.
    intros [|u] Hu; [reflexivity|]. apply H3. congruence.
Qed.

Lemma bind_exists : forall v x m, (v < length m)%nat -> (nth v m None = None \/ nth v m None = Some x) ->
  exists m', bind v x m = Some m'.
Proof.
  induction v as [|v IH]; intros x [|c r] Hl H; cbn [length] in Hl; try lia; cbn [bind nth] in *.
  - destruct H as [->| ->]; [eexists; reflexivity|]. rewrite term_eqb_refl. eexists; reflexivity.
  - destruct (IH x r) as [r' E]; [lia|exact H|]. rewrite E. eexists; reflexivity.
Qed.

(** [m] is below [m']: same width, every bound cell of [m] has the same value in [m'] *)
Definition below (m m' : sol) : Prop :=
  length m = length m' /\ forall v, nth v m None = None \/ nth v m None = nth v m' None.

Lemma below_refl : forall m, below m m.
Proof. intro m. split; [reflexivity|]. intro v. right. reflexivity. Qed.

Lemma below_trans : forall a b c, below a b -> below b c -> below a c.
Proof.
  intros a b c [L1 H1] [L2 H2]. split; [congruence|]. intro v. destruct (H1 v) as [E|E]; [left; exact E|].
  destruct (H2 v) as [E2|E2]; [left; congruence|right; congruence].
Qed.

Lemma match_pos_spec : forall p x m m', match_pos p x m = Some m' ->
  below m m' /\ inst_pos m' p = Some x /\ (forall u, ~ In u (tpos_vars p) -> nth u m' None = nth u m None).
Proof.
  intros [v|c] x m m' H; cbn [match_pos] in H.
  - destruct (bind_spec v x m m' H) as [H1 [H2 [H3 H4]]]. split; [|split].
    + split; [congruence|]. intro u. destruct (Nat.eq_dec u v) as [->|Hne].
      * destruct H4 as [E|E]; [left; exact E|right; congruence].
      * right. symmetry. apply H3. exact Hne.
    + exact H2.
    + intros u Hu. apply H3. intro E. apply Hu. left. congruence.
  - destruct (term_eqb c x) eqn:E; [|discriminate]. injection H as <-. apply term_eqb_eq in E. subst c.
    split; [apply below_refl|]. split; [reflexivity|]. reflexivity.
Qed.

Lemma inst_pos_below : forall m m' p x, below m m' -> inst_pos m p = Some x -> inst_pos m' p = Some x.
Proof.
  intros m m' [v|c] x [_ H] E; cbn [inst_pos] in *; [|exact E]. destruct (H v) as [E1|E1]; congruence.
Qed.

Lemma match_pos_exists : forall p x m M, below m M -> inst_pos M p = Some x ->
  (forall v, In v (tpos_vars p) -> (v < length m)%nat) ->
  exists m', match_pos p x m = Some m' /\ below m' M.
Proof.
  intros [v|c] x m M [HL HB] Hi Hv; cbn [match_pos inst_pos tpos_vars] in *.
  - destruct (bind_exists v x m) as [m' E]; [apply Hv; left; reflexivity|destruct (HB v) as [E|E]; [left; exact E|right; congruence]|].
    exists m'. split; [exact E|]. destruct (bind_spec v x m m' E) as [H1 [H2 [H3 _]]]. split; [congruence|].
    intro u. destruct (Nat.eq_dec u v) as [->|Hne]; [right; congruence|]. rewrite (H3 u Hne). apply HB.
  - injection Hi as ->. rewrite term_eqb_refl. exists m. split; [reflexivity|]. split; assumption.
Qed.

(** * one triple pattern *)

Definition dom_is (vs : list nat) (m : sol) : Prop := forall v, nth v m None <> None <-> In v vs.

Lemma inst_pos_bound : forall m p x v, inst_pos m p = Some x -> In v (tpos_vars p) -> nth v m None <> None.
Proof.
  intros m [u|c] x v H Hi; cbn [tpos_vars In] in Hi; [|contradiction].
  destruct Hi as [<-|[]]. cbn [inst_pos] in H. congruence.
Qed.

Lemma match_tp_spec : forall n tp t m,
  (forall v, In v (tpat_vars tp) -> (v < n)%nat) ->
  (match_tp n tp t = Some m <-> length m = n /\ dom_is (tpat_vars tp) m /\ inst_tp m tp = Some t).
Proof.
  intros n tp t m Hv. unfold match_tp, inst_tp, tpat_vars in *. split.
  - intro H.
    destruct (match_pos (tp_s tp) (t_s t) (empty_sol n)) as [m1|] eqn:E1; [|discriminate].
    destruct (match_pos (tp_p tp) (t_p t) m1) as [m2|] eqn:E2; [|discriminate].
    destruct (match_pos_spec _ _ _ _ E1) as [B1 [I1 U1]]. destruct (match_pos_spec _ _ _ _ E2) as [B2 [I2 U2]].
    destruct (match_pos_spec _ _ _ _ H) as [B3 [I3 U3]].
    split; [destruct B1 as [L1 _], B2 as [L2 _], B3 as [L3 _]; rewrite <- L3, <- L2, <- L1; apply empty_sol_length|].
    assert (J1 : inst_pos m (tp_s tp) = Some (t_s t)) by (apply (inst_pos_below m1 m); [apply (below_trans m1 m2 m); assumption|exact I1]).
    assert (J2 : inst_pos m (tp_p tp) = Some (t_p t)) by (apply (inst_pos_below m2 m); assumption).
    split; [|rewrite J1, J2, I3; destruct t; reflexivity].
    intro v. split.
    + intro Hb. rewrite !in_app_iff.
      destruct (in_dec Nat.eq_dec v (tpos_vars (tp_s tp))) as [|N1]; [tauto|].
      destruct (in_dec Nat.eq_dec v (tpos_vars (tp_p tp))) as [|N2]; [tauto|].
      destruct (in_dec Nat.eq_dec v (tpos_vars (tp_o tp))) as [|N3]; [tauto|].
      exfalso. apply Hb. rewrite (U3 v N3), (U2 v N2), (U1 v N1). apply nth_empty_sol_l.
    + rewrite !in_app_iff. intros [Hi|[Hi|Hi]];
        [apply (inst_pos_bound m (tp_s tp) _ v J1 Hi)|apply (inst_pos_bound m (tp_p tp) _ v J2 Hi)|apply (inst_pos_bound m (tp_o tp) _ v I3 Hi)].
  - intros [HL [HD HI]].
    destruct (inst_pos m (tp_s tp)) as [a|] eqn:Ia; [|discriminate]. destruct (inst_pos m (tp_p tp)) as [b|] eqn:Ib; [|discriminate].
    destruct (inst_pos m (tp_o tp)) as [c|] eqn:Ic; [|discriminate]. injection HI as <-. cbn [t_s t_p t_o].
    assert (B0 : below (empty_sol n) m).
    { split; [rewrite empty_sol_length; congruence|]. intro v. left. apply nth_empty_sol_l. }
    destruct (match_pos_exists (tp_s tp) a _ m B0 Ia) as [m1 [E1 B1]].
    { intros v Hi. rewrite empty_sol_length. apply Hv. rewrite !in_app_iff. tauto. }
    assert (L1 : length m1 = n) by (destruct B1; congruence).
    destruct (match_pos_exists (tp_p tp) b _ m B1 Ib) as [m2 [E2 B2]].
    { intros v Hi. rewrite L1. apply Hv. rewrite !in_app_iff. tauto. }
    assert (L2 : length m2 = n) by (destruct B2; congruence).
    destruct (match_pos_exists (tp_o tp) c _ m B2 Ic) as [m3 [E3 B3]].
    { intros v Hi. rewrite L2. apply Hv. rewrite !in_app_iff. tauto. }
    rewrite E1, E2, E3. f_equal. destruct B3 as [L3 H3]. apply nth_ext_opt; [exact L3|].
    intro v. destruct (H3 v) as [E|E]; [|exact E]. rewrite E. symmetry.
    destruct (nth v m None) eqn:Em; [|reflexivity]. exfalso.
    assert (Hin : In v (tpos_vars (tp_s tp) ++ tpos_vars (tp_p tp) ++ tpos_vars (tp_o tp))) by (apply HD; congruence).
    destruct (match_pos_spec _ _ _ _ E1) as [C1 [I1 _]]. destruct (match_pos_spec _ _ _ _ E2) as [C2 [I2 _]].
    destruct (match_pos_spec _ _ _ _ E3) as [C3 [I3 _]].
    rewrite !in_app_iff in Hin. destruct Hin as [Hi|[Hi|Hi]].
    + eapply (inst_pos_bound m3 (tp_s tp)); [|exact Hi|exact E]. apply (inst_pos_below m1 m3); [apply (below_trans m1 m2 m3); assumption|exact I1].
    + eapply (inst_pos_bound m3 (tp_p tp)); [|exact Hi|exact E]. apply (inst_pos_below m2 m3); [exact C3|exact I2].
    + eapply (inst_pos_bound m3 (tp_o tp)); [exact I3|exact Hi|exact E].
Qed.

Lemma compat_nth_l : forall m1 m2, length m1 = length m2 ->
  (compat m1 m2 = true <-> forall v, cell_compat (nth v m1 None) (nth v m2 None) = true).
Proof.
  induction m1 as [|a r1 IH]; destruct m2 as [|b r2]; intro Hl; try discriminate; cbn [compat].
  - split; [intros _ [|v]; reflexivity|reflexivity].
  - injection Hl as Hl. rewrite andb_true_iff, (IH r2 Hl). split.
    + intros [H1 H2] [|v]; cbn [nth]; [exact H1|apply H2].
    + intro H. split; [apply (H O)|intro v; apply (H (S v))].
Qed.

(** * restriction of a mapping to a set of variables *)

Fixpoint restrict_from (i : nat) (vs : list nat) (m : sol) : sol :=
  match m with
  | [] => []
  | c :: r => (if nat_memb i vs then c else None) :: restrict_from (S i) vs r
  end.
Definition restrict (vs : list nat) (m : sol) : sol := restrict_from 0 vs m.

Lemma restrict_from_length : forall m i vs, length (restrict_from i vs m) = length m.
Proof. induction m as [|c r IH]; intros i vs; cbn [restrict_from length]; [reflexivity|]. rewrite IH. reflexivity. Qed.

Lemma nth_restrict_from : forall m i vs v,
  nth v (restrict_from i vs m) None = if nat_memb (i + v) vs then nth v m None else None.
Proof.
  induction m as [|c r IH]; intros i vs v; cbn [restrict_from].
  - destruct v; cbn [nth]; destruct (nat_memb _ vs); reflexivity.
  - destruct v as [|v]; cbn [nth].
    + rewrite Nat.add_0_r. reflexivity.
    + rewrite IH. replace (S i + v)%nat with (i + S v)%nat by lia. reflexivity.
Qed.

Lemma nat_memb_In' : forall x l, nat_memb x l = true <-> In x l.
Proof.
  intros x l. unfold nat_memb. rewrite existsb_exists. split.
  - intros [y [H1 H2]]. apply Nat.eqb_eq in H2. subst. exact H1.
  - intro H. exists x. split; [exact H|apply Nat.eqb_refl].
Qed.

Lemma nth_restrict : forall vs m v, nth v (restrict vs m) None = if nat_memb v vs then nth v m None else None.
Proof. intros vs m v. unfold restrict. rewrite nth_restrict_from. reflexivity. Qed.

(** [inst_tp] only looks at the variables of the triple pattern *)
Lemma inst_pos_ext : forall m m' p, (forall v, In v (tpos_vars p) -> nth v m None = nth v m' None) -> inst_pos m p = inst_pos m' p.
Proof. intros m m' [v|c] H; cbn [inst_pos]; [apply H; left; reflexivity|reflexivity]. Qed.

Lemma inst_tp_ext : forall m m' tp, (forall v, In v (tpat_vars tp) -> nth v m None = nth v m' None) -> inst_tp m tp = inst_tp m' tp.
Proof.
  intros m m' tp H. unfold inst_tp, tpat_vars in *.
  rewrite (inst_pos_ext m m' (tp_s tp)), (inst_pos_ext m m' (tp_p tp)), (inst_pos_ext m m' (tp_o tp)); [reflexivity| | |];
    intros v Hv; apply H; rewrite !in_app_iff; tauto.
Qed.

Lemma inst_tp_bound : forall m tp t v, inst_tp m tp = Some t -> In v (tpat_vars tp) -> nth v m None <> None.
Proof.
  intros m tp t v H Hv. unfold inst_tp, tpat_vars in *.
  destruct (inst_pos m (tp_s tp)) eqn:Ia; [|discriminate]. destruct (inst_pos m (tp_p tp)) eqn:Ib; [|discriminate].
  destruct (inst_pos m (tp_o tp)) eqn:Ic; [|discriminate]. rewrite !in_app_iff in Hv.
  destruct Hv as [Hv|[Hv|Hv]];
    [apply (inst_pos_bound m (tp_s tp) _ v Ia Hv)|apply (inst_pos_bound m (tp_p tp) _ v Ib Hv)|apply (inst_pos_bound m (tp_o tp) _ v Ic Hv)].
Qed.

(** * the theorem *)

Lemma in_join : forall o1 o2 m, In m (join o1 o2) <-> exists m1 m2, In m1 o1 /\ In m2 o2 /\ compat m1 m2 = true /\ m = merge m1 m2.
Proof.
  intros o1 o2 m. unfold join. rewrite in_flat_map. split.
  - intros [m1 [H1 H]]. apply in_flat_map in H. destruct H as [m2 [H2 H]]. destruct (compat m1 m2) eqn:E; [|contradiction].
    destruct H as [<-|[]]. exists m1, m2. auto.
  - intros [m1 [m2 [H1 [H2 [E ->]]]]]. exists m1. split; [exact H1|]. apply in_flat_map. exists m2. split; [exact H2|].
    rewrite E. left. reflexivity.
Qed.

Lemma in_eval_tp : forall n g tp m, In m (eval_tp n g tp) <-> exists t, In t g /\ match_tp n tp t = Some m.
Proof.
  intros n g tp m. unfold eval_tp. rewrite in_flat_map. split.
  - intros [t [Ht H]]. destruct (match_tp n tp t) as [m'|] eqn:E; [|contradiction]. destruct H as [<-|[]]. exists t. auto.
  - intros [t [Ht E]]. exists t. split; [exact Ht|]. rewrite E. left. reflexivity.
Qed.

Lemma eval_bgp_cons : forall n g tp tps,
  eval_bgp n g (tp :: tps) = join (eval_tp n g tp) (eval_bgp n g tps).
Proof.
  intros n g tp tps. change (tp :: tps) with ([tp] ++ tps). rewrite bgp_split_l. f_equal.
  unfold eval_bgp. cbn [fold_left]. apply join_unit_l. apply eval_tp_wf.
Qed.

Lemma bgp_spec_l : forall n g tps m,
  (forall v, In v (flat_map tpat_vars tps) -> (v < n)%nat) ->
  (In m (eval_bgp n g tps) <-> bgp_solution n g tps m).
Proof.
  intros n g tps. induction tps as [|tp tps IH]; intros m Hv.
  - unfold eval_bgp, bgp_solution. cbn [fold_left In flat_map]. split.
    + intros [<-|[]]. split; [apply empty_sol_length|]. split; [|intros tp []].
      intro v. rewrite nth_empty_sol_l. split; [congruence|intros []].
    + intros [HL [HD _]]. left. apply nth_ext_opt; [rewrite empty_sol_length; congruence|].
      intro v. rewrite nth_empty_sol_l. destruct (nth v m None) eqn:E; [|reflexivity]. exfalso. destruct (HD v) as [HD1 _]. apply HD1. congruence.
  - cbn [flat_map] in Hv.
    assert (Hv1 : forall v, In v (tpat_vars tp) -> (v < n)%nat) by (intros v H; apply Hv; apply in_or_app; left; exact H).
    assert (Hv2 : forall v, In v (flat_map tpat_vars tps) -> (v < n)%nat) by (intros v H; apply Hv; apply in_or_app; right; exact H).
    rewrite eval_bgp_cons, in_join. split.
    + intros [m1 [m2 [H1 [H2 [Ec ->]]]]]. apply in_eval_tp in H1. destruct H1 as [t [Ht Em]].
      apply (match_tp_spec n tp t m1 Hv1) in Em. destruct Em as [L1 [D1 I1]].
      apply (IH m2 Hv2) in H2. destruct H2 as [L2 [D2 S2]].
      assert (LL : length m1 = length m2) by congruence.
      assert (CN : forall v, cell_compat (nth v m1 None) (nth v m2 None) = true) by (apply compat_nth_l; assumption).
      split; [rewrite merge_length; assumption|]. split.
      * intro v. cbn [flat_map]. rewrite in_app_iff, <- (D1 v), <- (D2 v), nth_merge by exact LL.
        destruct (nth v m1 None), (nth v m2 None); cbn [cell_merge]; split; intro H; try congruence; try (left; congruence);
          try (right; congruence); destruct H; congruence.
      * intros tp' [<-|Hi].
        -- exists t. split; [|exact Ht]. rewrite <- I1. apply inst_tp_ext. intros v Hvv. rewrite nth_merge by exact LL.
           apply D1 in Hvv. destruct (nth v m1 None); [reflexivity|congruence].
        -- destruct (S2 tp' Hi) as [t' [I' Ht']]. exists t'. split; [|exact Ht']. rewrite <- I'. apply inst_tp_ext.
           intros v Hvv. rewrite nth_merge by exact LL. pose proof (inst_tp_bound m2 tp' t' v I' Hvv) as Hb. specialize (CN v).
           destruct (nth v m1 None) as [x|], (nth v m2 None) as [y|]; cbn [cell_merge cell_compat] in *; try reflexivity; try congruence.
           apply term_eqb_eq in CN. congruence.
    + intros [HL [HD HS]]. cbn [flat_map] in HD.
      exists (restrict (tpat_vars tp) m), (restrict (flat_map tpat_vars tps) m).
      assert (R1 : forall v, In v (tpat_vars tp) -> nth v (restrict (tpat_vars tp) m) None = nth v m None).
      { intros v Hi. rewrite nth_restrict. apply nat_memb_In' in Hi. rewrite Hi. reflexivity. }
      assert (R2 : forall v, In v (flat_map tpat_vars tps) -> nth v (restrict (flat_map tpat_vars tps) m) None = nth v m None).
      { intros v Hi. rewrite nth_restrict. apply nat_memb_In' in Hi. rewrite Hi. reflexivity. }
      assert (LR1 : length (restrict (tpat_vars tp) m) = n) by (unfold restrict; rewrite restrict_from_length; exact HL).
      assert (LR2 : length (restrict (flat_map tpat_vars tps) m) = n) by (unfold restrict; rewrite restrict_from_length; exact HL).
      split; [|split; [|split]].
      * destruct (HS tp (or_introl eq_refl)) as [t [It Ht]]. apply in_eval_tp. exists t. split; [exact Ht|].
        apply (match_tp_spec n tp t _ Hv1). split; [exact LR1|]. split.
        -- intro v. rewrite nth_restrict. destruct (nat_memb v (tpat_vars tp)) eqn:E.
           ++ apply nat_memb_In' in E. split; [intros _; exact E|]. intros _. apply HD. apply in_or_app. left. exact E.
           ++ split; [congruence|]. intro Hi. apply nat_memb_In' in Hi. congruence.
        -- rewrite <- It. apply inst_tp_ext. exact R1.
      * apply (IH _ Hv2). split; [exact LR2|]. split.
        -- intro v. rewrite nth_restrict. destruct (nat_memb v (flat_map tpat_vars tps)) eqn:E.
           ++ apply nat_memb_In' in E. split; [intros _; exact E|]. intros _. apply HD. apply in_or_app. right. exact E.
           ++ split; [congruence|]. intro Hi. apply nat_memb_In' in Hi. congruence.
        -- intros tp' Hi. destruct (HS tp' (or_intror Hi)) as [t' [I' Ht']]. exists t'. split; [|exact Ht'].
           rewrite <- I'. apply inst_tp_ext. intros v Hvv. apply R2. apply in_flat_map. exists tp'. split; assumption.
      * apply compat_nth_l; [congruence|]. intro v. rewrite !nth_restrict.
        destruct (nat_memb v (tpat_vars tp)), (nat_memb v (flat_map tpat_vars tps)); try reflexivity;
          destruct (nth v m None); cbn [cell_compat]; try reflexivity. apply term_eqb_refl.
      * apply nth_ext_opt; [rewrite merge_length; congruence|]. intro v. rewrite nth_merge by congruence. rewrite !nth_restrict.
        destruct (nat_memb v (tpat_vars tp)) eqn:E1, (nat_memb v (flat_map tpat_vars tps)) eqn:E2;
          destruct (nth v m None) eqn:Em; cbn [cell_merge]; try reflexivity.
        exfalso. assert (Hb : nth v m None <> None) by congruence. apply HD in Hb. apply in_app_or in Hb.
        destruct Hb as [Hb|Hb]; apply nat_memb_In' in Hb; congruence.
Qed.

(** * over a set of triples every solution of a basic graph pattern occurs once *)

Lemma NoDup_flat_map_disj : forall {A B} (f : A -> list B) l,
  NoDup l -> (forall x, In x l -> NoDup (f x)) ->
  (forall x y z, In x l -> In y l -> In z (f x) -> In z (f y) -> x = y) ->
  NoDup (flat_map f l).
Proof.
  intros A B f l Hn. induction Hn as [|a l Ha Hn IH]; intros H1 H2; cbn [flat_map]; [constructor|].
  assert (G : forall l1 l2 : list B, NoDup l1 -> NoDup l2 -> (forall z, In z l1 -> ~ In z l2) -> NoDup (l1 ++ l2)).
  { intros l1 l2 N1 N2 D. induction N1 as [|z l1 Hz N1 IH1]; [exact N2|]. cbn [app]. constructor.
    - rewrite in_app_iff. intros [Hc|Hc]; [contradiction|]. apply (D z (or_introl eq_refl) Hc).
    - apply IH1. intros w Hw. apply D. right. exact Hw. }
  apply G.
  - apply H1. left. reflexivity.
  - apply IH; [intros x Hx; apply H1; right; exact Hx|].
    intros x y z Hx Hy. apply H2; right; assumption.
  - intros z Hz Hc. apply in_flat_map in Hc. destruct Hc as [y [Hy Hzy]].
    assert (E : a = y) by (apply (H2 a y z); [left; reflexivity|right; exact Hy|exact Hz|exact Hzy]).
    subst y. contradiction.
Qed.

Lemma inst_tp_inj : forall m tp t t', inst_tp m tp = Some t -> inst_tp m tp = Some t' -> t = t'.
Proof. intros m tp t t' H1 H2. congruence. Qed.

Lemma eval_tp_NoDup : forall n g tp, (forall v, In v (tpat_vars tp) -> (v < n)%nat) -> NoDup g -> NoDup (eval_tp n g tp).
Proof.
  intros n g tp Hv Hg. unfold eval_tp. apply NoDup_flat_map_disj; [exact Hg| |].
  - intros t _. destruct (match_tp n tp t); [constructor; [intros []|constructor]|constructor].
  - intros t t' m _ _ H1 H2.
    destruct (match_tp n tp t) as [m1|] eqn:E1; [|contradiction]. destruct (match_tp n tp t') as [m2|] eqn:E2; [|contradiction].
    destruct H1 as [<-|[]]. destruct H2 as [E|[]]. subst m2.
    apply (match_tp_spec n tp t m1 Hv) in E1. apply (match_tp_spec n tp t' m1 Hv) in E2.
    destruct E1 as [_ [_ I1]], E2 as [_ [_ I2]]. eapply inst_tp_inj; eassumption.
Qed.

(** a merge determines its two parts when their domains are known *)
Lemma merge_parts : forall D1 D2 m1 m2 m1' m2',
  length m1 = length m2 -> length m1' = length m2' -> length m1 = length m1' ->
  dom_is D1 m1 -> dom_is D1 m1' -> dom_is D2 m2 -> dom_is D2 m2' ->
  compat m1 m2 = true -> compat m1' m2' = true ->
  merge m1 m2 = merge m1' m2' -> m1 = m1' /\ m2 = m2'.
Proof.
  intros D1 D2 m1 m2 m1' m2' L12 L12' L11 A1 A1' A2 A2' C C' E.
  assert (P : forall v, cell_merge (nth v m1 None) (nth v m2 None) = cell_merge (nth v m1' None) (nth v m2' None)).
  { intro v. rewrite <- !nth_merge by assumption. rewrite E. reflexivity. }
  pose proof (proj1 (compat_nth_l m1 m2 L12) C) as Cn. pose proof (proj1 (compat_nth_l m1' m2' L12') C') as Cn'.
  clear C C'. rename Cn into C. rename Cn' into C'.
  split; apply nth_ext_opt; try congruence; intro v; specialize (P v); specialize (C v); specialize (C' v);
    pose proof (A1 v) as a1; pose proof (A1' v) as a1'; pose proof (A2 v) as a2; pose proof (A2' v) as a2'.
  - destruct (nth v m1 None) as [x|] eqn:E1, (nth v m1' None) as [x'|] eqn:E1'; cbn [cell_merge] in P; try reflexivity; try congruence.
    + exfalso. assert (In v D1) by (apply a1; congruence). assert (None <> @None term) by (apply a1'; assumption). congruence.
    + exfalso. assert (In v D1) by (apply a1'; congruence). assert (None <> @None term) by (apply a1; assumption). congruence.
  - destruct (nth v m2 None) as [y|] eqn:E2, (nth v m2' None) as [y'|] eqn:E2'; try reflexivity.
    + destruct (nth v m1 None) as [x|], (nth v m1' None) as [x'|]; cbn [cell_merge cell_compat] in *;
        try (apply term_eqb_eq in C); try (apply term_eqb_eq in C'); congruence.
    + exfalso. assert (In v D2) by (apply a2; congruence). assert (None <> @None term) by (apply a2'; assumption). congruence.
    + exfalso. assert (In v D2) by (apply a2'; congruence). assert (None <> @None term) by (apply a2; assumption). congruence.
Qed.

Lemma join_NoDup : forall n D1 D2 A B,
  Forall (fun m => length m = n /\ dom_is D1 m) A -> Forall (fun m => length m = n /\ dom_is D2 m) B ->
  NoDup A -> NoDup B -> NoDup (join A B).
Proof.
  intros n D1 D2 A B HA HB NA NB. rewrite Forall_forall in HA, HB. unfold join.
  apply NoDup_flat_map_disj; [exact NA| |].
  - intros m1 Hm1. apply NoDup_flat_map_disj; [exact NB| |].
    + intros m2 _. destruct (compat m1 m2); [constructor; [intros []|constructor]|constructor].
    + intros m2 m2' z Hm2 Hm2' H1 H2.
      destruct (compat m1 m2) eqn:C; [|contradiction]. destruct (compat m1 m2') eqn:C'; [|contradiction].
      destruct H1 as [<-|[]]. destruct H2 as [E|[]].
      destruct (HA m1 Hm1) as [L1 d1]. destruct (HB m2 Hm2) as [L2 d2]. destruct (HB m2' Hm2') as [L2' d2'].
      symmetry. apply (proj2 (merge_parts D1 D2 m1 m2' m1 m2 ltac:(congruence) ltac:(congruence) ltac:(congruence) d1 d1 d2' d2 C' C E)).
  - intros m1 m1' z Hm1 Hm1' H1 H2.
    apply in_flat_map in H1. destruct H1 as [m2 [Hm2 H1]]. apply in_flat_map in H2. destruct H2 as [m2' [Hm2' H2]].
    destruct (compat m1 m2) eqn:C; [|contradiction]. destruct (compat m1' m2') eqn:C'; [|contradiction].
    destruct H1 as [<-|[]]. destruct H2 as [E|[]].
    destruct (HA m1 Hm1) as [L1 d1]. destruct (HA m1' Hm1') as [L1' d1']. destruct (HB m2 Hm2) as [L2 d2]. destruct (HB m2' Hm2') as [L2' d2'].
    symmetry. apply (proj1 (merge_parts D1 D2 m1' m2' m1 m2 ltac:(congruence) ltac:(congruence) ltac:(congruence) d1' d1 d2' d2 C' C E)).
Qed.

Lemma bgp_once_l : forall n g tps,
  (forall v, In v (flat_map tpat_vars tps) -> (v < n)%nat) -> NoDup g -> NoDup (eval_bgp n g tps).
Proof.
  intros n g tps. induction tps as [|tp tps IH]; intros Hv Hg.
  - unfold eval_bgp. cbn [fold_left]. constructor; [intros []|constructor].
  - cbn [flat_map] in Hv.
    assert (Hv1 : forall v, In v (tpat_vars tp) -> (v < n)%nat) by (intros v H; apply Hv; apply in_or_app; left; exact H).
    assert (Hv2 : forall v, In v (flat_map tpat_vars tps) -> (v < n)%nat) by (intros v H; apply Hv; apply in_or_app; right; exact H).
    rewrite eval_bgp_cons. apply (join_NoDup n (tpat_vars tp) (flat_map tpat_vars tps)).
    + apply Forall_forall. intros m Hm. apply in_eval_tp in Hm. destruct Hm as [t [_ E]].
      apply (match_tp_spec n tp t m Hv1) in E. destruct E as [L [D _]]. split; assumption.
    + apply Forall_forall. intros m Hm. apply (bgp_spec_l n g tps m Hv2) in Hm. destruct Hm as [L [D _]]. split; assumption.
    + apply eval_tp_NoDup; assumption.
    + apply IH; assumption.
Qed.
