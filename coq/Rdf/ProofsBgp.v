(** C13 — the engine model evaluates a basic graph pattern (triple scans through the store's
    [find], nested-loop joins on equal column names) to exactly the multiset of solutions the
    algebra defines, outside the classes S2, S3 and S4. *)
From GV Require Import Rdf.SpecSparql Rdf.ProofsStore Rdf.ProofsAlgebra.
From Coq Require Import Lia Permutation.
Open Scope Z_scope.

(** * assigning cells of a mapping *)

Fixpoint set_nth (v : nat) (c : option term) (m : sol) : sol :=
  match m, v with
  | [], _ => []
  | _ :: r, O => c :: r
  | x :: r, S v' => x :: set_nth v' c r
  end.

Lemma set_nth_length : forall v c m, length (set_nth v c m) = length m.
Proof. induction v as [|v IH]; intros c [|x r]; cbn [set_nth length]; try reflexivity. rewrite IH. reflexivity. Qed.

Lemma nth_set_nth_same : forall v c m, (v < length m)%nat -> nth v (set_nth v c m) None = c.
Proof.
  induction v as [|v IH]; intros c [|x r] H; cbn [length] in H; try lia; cbn [set_nth nth]; [reflexivity|].
  apply IH. lia.
Qed.

Lemma nth_set_nth_other : forall v u c m, u <> v -> nth u (set_nth v c m) None = nth u m None.
Proof.
  induction v as [|v IH]; intros u c [|x r] H; cbn [set_nth]; try reflexivity.
  - destruct u as [|u]; [congruence|reflexivity].
  - destruct u as [|u]; cbn [nth]; [reflexivity|]. apply IH. congruence.
Qed.

Lemma bind_unbound : forall v x m, nth v m None = None -> (v < length m)%nat ->
  bind v x m = Some (set_nth v (Some x) m).
Proof.
  induction v as [|v IH]; intros x [|c r] Hn Hl; cbn [length] in Hl; try lia; cbn [bind set_nth nth] in *.
  - subst c. reflexivity.
  - rewrite (IH x r Hn) by lia. reflexivity.
Qed.

Lemma nth_empty_sol : forall n v, nth v (empty_sol n) None = None.
Proof.
  induction n as [|n IH]; intros [|v]; cbn [empty_sol repeat nth]; try reflexivity. apply IH.
Qed.

Definition assign (bs : list (nat * term)) (m : sol) : sol :=
  fold_left (fun m b => set_nth (fst b) (Some (snd b)) m) bs m.

Lemma assign_length : forall bs m, length (assign bs m) = length m.
Proof.
  induction bs as [|b bs IH]; intro m; cbn [assign fold_left]; [reflexivity|].
  fold (assign bs (set_nth (fst b) (Some (snd b)) m)). rewrite IH. apply set_nth_length.
Qed.

Lemma nth_assign_notin : forall bs m u, ~ In u (map fst bs) -> nth u (assign bs m) None = nth u m None.
Proof.
  induction bs as [|b bs IH]; intros m u H; cbn [assign fold_left]; [reflexivity|].
  fold (assign bs (set_nth (fst b) (Some (snd b)) m)). cbn [map In] in H.
  rewrite IH by tauto. apply nth_set_nth_other. intro E. apply H. left. congruence.
Qed.

Lemma nth_assign_in : forall bs m v x, NoDup (map fst bs) -> In (v, x) bs -> (v < length m)%nat ->
  nth v (assign bs m) None = Some x.
Proof.
  induction bs as [|b bs IH]; intros m v x Hn Hi Hl; cbn [In] in Hi; [contradiction|].
  cbn [assign fold_left]. fold (assign bs (set_nth (fst b) (Some (snd b)) m)).
  cbn [map] in Hn. inversion Hn as [|? ? Hb Hbs]; subst. destruct Hi as [E|Hi].
  - subst b. cbn [fst snd] in *. rewrite nth_assign_notin by exact Hb. apply nth_set_nth_same. exact Hl.
  - apply IH; [exact Hbs|exact Hi|]. rewrite set_nth_length. exact Hl.
Qed.

Lemma assign_app : forall bs1 bs2 m, assign (bs1 ++ bs2) m = assign bs2 (assign bs1 m).
Proof. intros bs1 bs2 m. unfold assign. apply fold_left_app. Qed.

Lemma NoDup_app_r : forall {A} (l1 l2 : list A), NoDup (l1 ++ l2) -> NoDup l2.
Proof.
  intros A l1 l2 H. induction l1 as [|x l1 IH]; [exact H|]. apply IH. cbn [app] in H. inversion H; assumption.
Qed.

(** * one triple pattern: [match_tp] against [matches] of the scan pattern *)

Definition pos_binding (p : tpos) (x : term) : list (nat * term) :=
  match p with TVar v => [(v, x)] | TConst _ => [] end.
Definition pos_ok (p : tpos) (x : term) : bool :=
  match p with TVar _ => true | TConst c => term_eqb c x end.

Definition bindings (tp : tpat) (t : triple) : list (nat * term) :=
  pos_binding (tp_s tp) (t_s t) ++ pos_binding (tp_p tp) (t_p t) ++ pos_binding (tp_o tp) (t_o t).

Lemma bindings_vars : forall tp t, map fst (bindings tp t) = tpat_vars tp.
Proof.
  intros tp t. unfold bindings, tpat_vars. rewrite !map_app.
  destruct (tp_s tp), (tp_p tp), (tp_o tp); reflexivity.
Qed.

Lemma match_pos_step : forall n p x bs,
  (forall v, In v (tpos_vars p) -> ~ In v (map fst bs) /\ (v < n)%nat) ->
  match_pos p x (assign bs (empty_sol n)) =
  if pos_ok p x then Some (assign (bs ++ pos_binding p x) (empty_sol n)) else None.
Proof.
  intros n [v|c] x bs H; cbn [match_pos pos_ok pos_binding].
  - destruct (H v (or_introl eq_refl)) as [H1 H2]. rewrite bind_unbound.
    + rewrite assign_app. reflexivity.
    + rewrite nth_assign_notin by exact H1. apply nth_empty_sol.
    + rewrite assign_length, empty_sol_length. exact H2.
  - rewrite app_nil_r. reflexivity.
Qed.

Lemma match_tp_plain : forall n tp t,
  NoDup (tpat_vars tp) -> (forall v, In v (tpat_vars tp) -> (v < n)%nat) ->
  match_tp n tp t =
  if pos_ok (tp_s tp) (t_s t) && pos_ok (tp_p tp) (t_p t) && pos_ok (tp_o tp) (t_o t)
  then Some (assign (bindings tp t) (empty_sol n)) else None.
Proof.
  intros n tp t Hn Hv. unfold match_tp, bindings. unfold tpat_vars in Hn, Hv.
  assert (E0 : empty_sol n = assign [] (empty_sol n)) by reflexivity.
  rewrite E0 at 1. rewrite match_pos_step.
  2:{ intros v Hi. split; [intros []|]. apply Hv. apply in_or_app. left. exact Hi. }
  destruct (pos_ok (tp_s tp) (t_s t)); cbn [andb app]; [|reflexivity].
  rewrite match_pos_step.
  2:{ intros v Hi. split.
      - intro Hc. destruct (tp_s tp) as [u|c]; cbn [pos_binding map fst In tpos_vars app] in *; [|contradiction].
        destruct Hc as [Hc|[]]. subst u. inversion Hn as [|? ? Hx _]; subst. apply Hx. apply in_or_app. left. exact Hi.
      - apply Hv. apply in_or_app. right. apply in_or_app. left. exact Hi. }
  destruct (pos_ok (tp_p tp) (t_p t)); cbn [andb]; [|reflexivity].
  rewrite match_pos_step.
  2:{ intros v Hi. split.
      - intro Hc. rewrite map_app in Hc. apply in_app_or in Hc.
        pose proof (NoDup_app_r _ _ Hn) as Hn2.
        destruct Hc as [Hc|Hc].
        + destruct (tp_s tp) as [u|c]; cbn [pos_binding map fst In tpos_vars app] in *; [|contradiction].
          destruct Hc as [Hc|[]]. subst u. inversion Hn as [|? ? Hx _]; subst. apply Hx. apply in_or_app. right. exact Hi.
        + destruct (tp_p tp) as [u|c]; cbn [pos_binding map fst In tpos_vars app] in *; [|contradiction].
          destruct Hc as [Hc|[]]. subst u. inversion Hn2 as [|? ? Hx _]; subst. apply Hx. exact Hi.
      - apply Hv. apply in_or_app. right. apply in_or_app. right. exact Hi. }
  destruct (pos_ok (tp_o tp) (t_o t)); [|reflexivity]. rewrite <- app_assoc. reflexivity.
Qed.

(** the scan pattern tests exactly the constant positions *)
Lemma matches_scan_pattern : forall tp t,
  (forall c, In c (tpat_consts tp) -> const_term c = c) ->
  matches (scan_pattern tp) t =
  pos_ok (tp_s tp) (t_s t) && pos_ok (tp_p tp) (t_p t) && pos_ok (tp_o tp) (t_o t).
Proof.
  intros tp t H. rewrite matches_spec. unfold scan_pattern, tpat_consts in *. cbn [p_s p_p p_o].
  assert (G : forall p x, (forall c, In c (tpos_consts p) -> const_term c = c) ->
              opt_matches (tpos_term p) x = pos_ok p x).
  { intros [v|c] x Hc; cbn [tpos_term opt_matches pos_ok]; [reflexivity|].
    rewrite (Hc c (or_introl eq_refl)). reflexivity. }
  rewrite !G; [reflexivity| | |]; intros c Hc; apply H; rewrite !in_app_iff; tauto.
Qed.

(** * the invariant relating a table of the engine to a multiset of solutions *)

Definition good (n : nat) (G : list term) (C : list nat) (m : sol) : Prop :=
  length m = n /\ (forall v, nth v m None <> None <-> In v C) /\ (forall v x, nth v m None = Some x -> In x G).

Definition all_selected (cs : list chunk) : Prop :=
  forall c, In c cs -> forall br, In br c -> fst br = true.

Definition tinv (n : nat) (G : list term) (T : tbl) (A : list sol) : Prop :=
  all_selected (t_chunks T) /\
  Permutation (all_live (t_chunks T)) (map (sol_row (t_cols T)) A) /\
  Forall (good n G (t_cols T)) A.

Lemma live_fresh : forall rs, live (fresh rs) = rs.
Proof. intro rs. unfold live, fresh. induction rs as [|r rs IH]; [reflexivity|]. cbn [map filter fst snd]. f_equal. exact IH. Qed.

Lemma fresh_selected : forall rs br, In br (fresh rs) -> fst br = true.
Proof. intros rs br H. unfold fresh in H. apply in_map_iff in H. destruct H as [r [<- _]]. reflexivity. Qed.

Lemma flat_map_if_map : forall {A B} (p : A -> bool) (f : A -> B) l,
  flat_map (fun x => if p x then [f x] else []) l = map f (filter p l).
Proof.
  intros A B p f l. induction l as [|x l IH]; [reflexivity|]. cbn [flat_map filter]. destruct (p x); cbn [app map]; rewrite IH; reflexivity.
Qed.

Lemma sol_row_length : forall C m, length (sol_row C m) = length C.
Proof. intros C m. unfold sol_row. apply map_length. Qed.

Lemma good_cell : forall n G C m v, good n G C m -> In v C -> exists x, nth v m None = Some x /\ In x G /\ sol_cell m v = CStr (render x).
Proof.
  intros n G C m v [_ [Hd Hg]] Hv. apply Hd in Hv. unfold sol_cell. destruct (nth v m None) as [x|] eqn:E; [|congruence].
  exists x. split; [reflexivity|]. split; [eapply Hg; exact E|reflexivity].
Qed.

Lemma sol_row_no_null : forall n G C m, good n G C m -> ~ In CNull (sol_row C m).
Proof.
  intros n G C m Hg H. unfold sol_row in H. apply in_map_iff in H. destruct H as [v [E Hv]].
  destruct (good_cell _ _ _ _ _ Hg Hv) as [x [_ [_ Ex]]]. congruence.
Qed.

(** the mapping of a matching triple *)
Lemma good_assign : forall n tp t g,
  NoDup (tpat_vars tp) -> (forall v, In v (tpat_vars tp) -> (v < n)%nat) -> In t g ->
  good n (graph_terms g) (tpat_vars tp) (assign (bindings tp t) (empty_sol n)) /\
  sol_row (tpat_vars tp) (assign (bindings tp t) (empty_sol n)) = scan_row tp t.
Proof.
  intros n tp t g Hn Hv Ht.
  assert (Hk : NoDup (map fst (bindings tp t))) by (rewrite bindings_vars; exact Hn).
  assert (Hin : forall v x, In (v, x) (bindings tp t) -> nth v (assign (bindings tp t) (empty_sol n)) None = Some x).
  { intros v x Hi. apply nth_assign_in; [exact Hk|exact Hi|]. rewrite empty_sol_length. apply Hv.
    rewrite <- (bindings_vars tp t). apply in_map_iff. exists (v, x). split; [reflexivity|exact Hi]. }
  assert (Hval : forall v x, In (v, x) (bindings tp t) -> In x (graph_terms g)).
  { intros v x Hi. unfold graph_terms. apply in_flat_map. exists t. split; [exact Ht|]. unfold triple_terms, bindings in *.
    rewrite !in_app_iff in Hi. cbn [In].
    destruct Hi as [Hi|[Hi|Hi]]; [destruct (tp_s tp)|destruct (tp_p tp)|destruct (tp_o tp)]; cbn [pos_binding In] in Hi;
      try contradiction; destruct Hi as [Hi|[]]; injection Hi as _ <-; auto. }
  split; [split; [|split]|].
  - rewrite assign_length. apply empty_sol_length.
  - intro v. rewrite <- (bindings_vars tp t). split.
    + intro Hb. destruct (in_dec Nat.eq_dec v (map fst (bindings tp t))) as [Hi|Hni]; [exact Hi|].
      rewrite nth_assign_notin in Hb by exact Hni. rewrite nth_empty_sol in Hb. congruence.
    + intro Hi. apply in_map_iff in Hi. destruct Hi as [[v' x] [E Hi]]. cbn [fst] in E. subst v'.
      rewrite (Hin v x Hi). discriminate.
  - intros v x E. destruct (in_dec Nat.eq_dec v (map fst (bindings tp t))) as [Hi|Hni].
    + apply in_map_iff in Hi. destruct Hi as [[v' y] [E' Hi]]. cbn [fst] in E'. subst v'.
      rewrite (Hin v y Hi) in E. injection E as <-. eapply Hval. exact Hi.
    + rewrite nth_assign_notin in E by exact Hni. rewrite nth_empty_sol in E. discriminate.
  - unfold sol_row. rewrite <- (bindings_vars tp t), map_map.
    assert (E : map (fun b => sol_cell (assign (bindings tp t) (empty_sol n)) (fst b)) (bindings tp t)
              = map (fun b => CStr (render (snd b))) (bindings tp t)).
    { apply map_ext_in. intros [v x] Hi. cbn [fst snd]. unfold sol_cell. rewrite (Hin v x Hi). reflexivity. }
    rewrite E. unfold bindings, scan_row. rewrite !map_app.
    destruct (tp_s tp), (tp_p tp), (tp_o tp); reflexivity.
Qed.

Lemma eval_tp_plain : forall n g tp,
  NoDup (tpat_vars tp) -> (forall v, In v (tpat_vars tp) -> (v < n)%nat) ->
  (forall c, In c (tpat_consts tp) -> const_term c = c) ->
  eval_tp n g tp = map (fun t => assign (bindings tp t) (empty_sol n)) (filter (matches (scan_pattern tp)) g).
Proof.
  intros n g tp Hn Hv Hc. unfold eval_tp. rewrite <- flat_map_if_map. apply flat_map_ext_in. intros t _.
  rewrite (match_tp_plain n tp t Hn Hv), (matches_scan_pattern tp t Hc).
  destruct (pos_ok (tp_s tp) (t_s t) && pos_ok (tp_p tp) (t_p t) && pos_ok (tp_o tp) (t_o t)); reflexivity.
Qed.

Lemma scan_tinv : forall n st tp, inv st ->
  NoDup (tpat_vars tp) -> (forall v, In v (tpat_vars tp) -> (v < n)%nat) ->
  (forall c, In c (tpat_consts tp) -> const_term c = c) ->
  tinv n (graph_terms (triples st)) (scan st tp) (eval_tp n (triples st) tp).
Proof.
  intros n st tp Hinv Hn Hv Hc. unfold tinv, scan. cbn [t_chunks t_cols]. unfold scan_cols.
  destruct (find_spec_inv st (scan_pattern tp) Hinv) as [_ HP].
  rewrite (eval_tp_plain n (triples st) tp Hn Hv Hc).
  set (fs := find st (scan_pattern tp)) in *.
  split; [|split].
  - intros c Hci br Hbr. destruct fs as [|t0 ts]; [contradiction|].
    destruct Hci as [<-|[]]. eapply fresh_selected. exact Hbr.
  - match goal with |- Permutation (all_live ?X) _ =>
      assert (AL : all_live X = map (scan_row tp) fs)
        by (destruct fs as [|t0 ts]; [reflexivity|unfold all_live; cbn [flat_map]; rewrite app_nil_r; apply live_fresh])
    end.
    rewrite AL. rewrite map_map. eapply Permutation_trans; [apply Permutation_map; exact HP|].
    assert (E : map (scan_row tp) (filter (matches (scan_pattern tp)) (triples st))
              = map (fun t => sol_row (tpat_vars tp) (assign (bindings tp t) (empty_sol n))) (filter (matches (scan_pattern tp)) (triples st))).
    { apply map_ext_in. intros t Ht. apply filter_In in Ht. destruct Ht as [Ht _].
      symmetry. apply (good_assign n tp t (triples st) Hn Hv Ht). }
    rewrite E. apply Permutation_refl.
  - apply Forall_forall. intros m Hm. apply in_map_iff in Hm. destruct Hm as [t [<- Ht]].
    apply filter_In in Ht. destruct Ht as [Ht _]. apply (good_assign n tp t (triples st) Hn Hv Ht).
Qed.

(** * column bookkeeping of the join *)

Lemma In_enum_from : forall {A} (l : list A) k i x,
  In (i, x) (enum_from k l) <-> (k <= i)%nat /\ nth_error l (i - k) = Some x.
Proof.
  intros A l. induction l as [|y r IH]; intros k i x; cbn [enum_from In].
  - split; [intros []|]. intros [_ H]. destruct (i - k)%nat; discriminate.
  - rewrite IH. split.
    + intros [E|[H1 H2]].
      * injection E as -> ->. split; [lia|]. rewrite Nat.sub_diag. reflexivity.
      * split; [lia|]. replace (i - k)%nat with (S (i - S k)) by lia. exact H2.
    + intros [H1 H2]. destruct (Nat.eq_dec i k) as [->|Hne].
      * left. rewrite Nat.sub_diag in H2. cbn [nth_error] in H2. congruence.
      * right. split; [lia|]. replace (i - k)%nat with (S (i - S k)) in H2 by lia. exact H2.
Qed.

Lemma In_shared_cols : forall lc rc li ri,
  In (li, ri) (shared_cols lc rc) <-> exists v, nth_error lc li = Some v /\ nth_error rc ri = Some v.
Proof.
  intros lc rc li ri. unfold shared_cols. rewrite in_flat_map. split.
  - intros [[li' l] [H1 H2]]. apply In_enum_from in H1. rewrite Nat.sub_0_r in H1. destruct H1 as [_ H1].
    apply in_flat_map in H2. destruct H2 as [[ri' r] [H2 H3]]. apply In_enum_from in H2. rewrite Nat.sub_0_r in H2.
    destruct H2 as [_ H2]. destruct (Nat.eqb l r) eqn:E; [|contradiction]. destruct H3 as [H3|[]].
    injection H3 as -> ->. apply Nat.eqb_eq in E. subst r. exists l. split; assumption.
  - intros [v [H1 H2]]. exists (li, v). split; [apply In_enum_from; rewrite Nat.sub_0_r; split; [lia|exact H1]|].
    apply in_flat_map. exists (ri, v). split; [apply In_enum_from; rewrite Nat.sub_0_r; split; [lia|exact H2]|].
    rewrite Nat.eqb_refl. left. reflexivity.
Qed.

Lemma nat_memb_In : forall x l, nat_memb x l = true <-> In x l.
Proof.
  intros x l. unfold nat_memb. rewrite existsb_exists. split.
  - intros [y [H1 H2]]. apply Nat.eqb_eq in H2. subst. exact H1.
  - intro H. exists x. split; [exact H|apply Nat.eqb_refl].
Qed.

Lemma In_keep_right : forall lc rc ri,
  In ri (keep_right lc rc) <-> exists v, nth_error rc ri = Some v /\ ~ In v lc.
Proof.
  intros lc rc ri. unfold keep_right. rewrite in_flat_map. split.
  - intros [[ri' r] [H1 H2]]. apply In_enum_from in H1. rewrite Nat.sub_0_r in H1. destruct H1 as [_ H1].
    destruct (nat_memb r lc) eqn:E; [contradiction|]. destruct H2 as [->|[]]. exists r. split; [exact H1|].
    intro Hi. apply nat_memb_In in Hi. congruence.
  - intros [v [H1 H2]]. exists (ri, v). split; [apply In_enum_from; rewrite Nat.sub_0_r; split; [lia|exact H1]|].
    destruct (nat_memb v lc) eqn:E; [apply nat_memb_In in E; contradiction|left; reflexivity].
Qed.

Lemma In_join_cols : forall lc rc v, In v (join_cols lc rc) <-> In v lc \/ In v rc.
Proof.
  intros lc rc v. unfold join_cols. rewrite in_app_iff, in_map_iff. split.
  - intros [H|[i [E Hi]]]; [left; exact H|]. apply In_keep_right in Hi. destruct Hi as [w [H1 H2]].
    right. rewrite (nth_error_nth _ _ _ H1) in E. subst w. eapply nth_error_In. exact H1.
  - intros [H|H]; [left; exact H|]. destruct (in_dec Nat.eq_dec v lc) as [Hl|Hnl]; [left; exact Hl|]. right.
    apply In_nth_error in H. destruct H as [i Hi]. exists i. split; [apply nth_error_nth; exact Hi|].
    apply In_keep_right. exists v. split; assumption.
Qed.

Lemma nth_error_sol_row : forall C m i, nth_error (sol_row C m) i = option_map (sol_cell m) (nth_error C i).
Proof. intros C m i. unfold sol_row. apply nth_error_map. Qed.

Lemma compat_nth : forall m1 m2, length m1 = length m2 ->
  (compat m1 m2 = true <-> forall v, cell_compat (nth v m1 None) (nth v m2 None) = true).
Proof.
  induction m1 as [|a r1 IH]; destruct m2 as [|b r2]; intro Hl; try discriminate; cbn [compat].
  - split; [intros _ [|v]; reflexivity|reflexivity].
  - injection Hl as Hl. rewrite andb_true_iff, (IH r2 Hl). split.
    + intros [H1 H2] [|v]; cbn [nth]; [exact H1|apply H2].
    + intro H. split; [apply (H O)|intro v; apply (H (S v))].
Qed.

(** the join condition on rendered values decides compatibility *)
Lemma cond_holds_compat : forall n G C1 C2 m1 m2,
  render_injective_on G -> good n G C1 m1 -> good n G C2 m2 ->
  cond_holds (shared_cols C1 C2) (sol_row C1 m1) (sol_row C2 m2) = compat m1 m2.
Proof.
  intros n G C1 C2 m1 m2 Hinj H1 H2.
  assert (P1 : cond_holds (shared_cols C1 C2) (sol_row C1 m1) (sol_row C2 m2) = true <->
               forall v, In v C1 -> In v C2 -> nth v m1 None = nth v m2 None).
  { unfold cond_holds. rewrite forallb_forall. split.
    - intros H v Hv1 Hv2. destruct (In_nth_error _ _ Hv1) as [li Hli]. destruct (In_nth_error _ _ Hv2) as [ri Hri].
      assert (Hs : In (li, ri) (shared_cols C1 C2)) by (apply In_shared_cols; exists v; split; assumption).
      specialize (H _ Hs). cbn beta iota in H. rewrite !nth_error_sol_row, Hli, Hri in H. cbn [option_map] in H.
      destruct (good_cell _ _ _ _ _ H1 Hv1) as [x1 [E1 [G1 R1]]]. destruct (good_cell _ _ _ _ _ H2 Hv2) as [x2 [E2 [G2 R2]]].
      rewrite R1, R2 in H. cbn [cell_eqb] in H. apply str_eqb_eq in H. rewrite E1, E2. f_equal. apply Hinj; assumption.
    - intros H [li ri] Hs. apply In_shared_cols in Hs. destruct Hs as [v [Hli Hri]].
      rewrite !nth_error_sol_row, Hli, Hri. cbn [option_map].
      assert (Hv1 : In v C1) by (eapply nth_error_In; exact Hli). assert (Hv2 : In v C2) by (eapply nth_error_In; exact Hri).
      specialize (H v Hv1 Hv2). unfold sol_cell. rewrite H.
      destruct (good_cell _ _ _ _ _ H2 Hv2) as [x2 [E2 _]]. rewrite E2. cbn [cell_eqb]. apply str_eqb_eq. reflexivity. }
  assert (P2 : compat m1 m2 = true <-> forall v, In v C1 -> In v C2 -> nth v m1 None = nth v m2 None).
  { destruct H1 as [L1 [D1 _]], H2 as [L2 [D2 _]]. rewrite compat_nth by congruence. split.
    - intros H v Hv1 Hv2. specialize (H v). apply D1 in Hv1. apply D2 in Hv2.
      destruct (nth v m1 None) as [x|]; [|congruence]. destruct (nth v m2 None) as [y|]; [|congruence].
      cbn [cell_compat] in H. apply term_eqb_eq in H. congruence.
    - intros H v. destruct (nth v m1 None) as [x|] eqn:E1; [|reflexivity]. destruct (nth v m2 None) as [y|] eqn:E2; [|reflexivity].
      cbn [cell_compat]. apply term_eqb_eq. assert (Hv1 : In v C1) by (apply D1; congruence).
      assert (Hv2 : In v C2) by (apply D2; congruence). specialize (H v Hv1 Hv2). congruence. }
  apply Bool.eq_iff_eq_true. rewrite P1, P2. tauto.
Qed.

(** the joined row is the row of the merged mapping *)
Lemma row_merge : forall n G C1 C2 m1 m2, good n G C1 m1 -> good n G C2 m2 ->
  sol_row C1 m1 ++ pick (keep_right C1 C2) (sol_row C2 m2) = sol_row (join_cols C1 C2) (merge m1 m2).
Proof.
  intros n G C1 C2 m1 m2 H1 H2. destruct H1 as [L1 [D1 _]], H2 as [L2 [D2 _]].
  assert (LL : length m1 = length m2) by congruence.
  unfold join_cols, sol_row. rewrite map_app. f_equal.
  - apply map_ext_in. intros v Hv. unfold sol_cell. rewrite nth_merge by exact LL. apply D1 in Hv.
    destruct (nth v m1 None); [reflexivity|congruence].
  - fold (sol_row C2 m2).
    assert (K : forall i, In i (keep_right C1 C2) -> exists v, nth_error C2 i = Some v /\ ~ In v C1)
      by (intros i Hi; apply In_keep_right; exact Hi).
    induction (keep_right C1 C2) as [|i kr IH]; [reflexivity|]. unfold pick in *. cbn [flat_map map].
    destruct (K i (or_introl eq_refl)) as [v [Hi Hn]]. rewrite nth_error_sol_row, Hi. cbn [option_map app].
    rewrite (nth_error_nth _ _ _ Hi). f_equal.
    + unfold sol_cell. rewrite nth_merge by exact LL.
      assert (E : nth v m1 None = None).
      { destruct (nth v m1 None) eqn:E; [|reflexivity]. exfalso. apply Hn. apply D1. congruence. }
      rewrite E. reflexivity.
    + apply IH. intros j Hj. apply K. right. exact Hj.
Qed.

Lemma good_merge : forall n G C1 C2 m1 m2, good n G C1 m1 -> good n G C2 m2 ->
  good n G (join_cols C1 C2) (merge m1 m2).
Proof.
  intros n G C1 C2 m1 m2 [L1 [D1 V1]] [L2 [D2 V2]]. assert (LL : length m1 = length m2) by congruence.
  split; [rewrite merge_length; assumption|]. split.
  - intro v. rewrite In_join_cols, nth_merge by exact LL. rewrite <- D1, <- D2.
    destruct (nth v m1 None), (nth v m2 None); cbn [cell_merge]; split; intro H; try (left; congruence); try (right; congruence);
      try congruence; destruct H; congruence.
  - intros v x. rewrite nth_merge by exact LL. destruct (nth v m1 None) as [y|] eqn:E1; cbn [cell_merge]; intro E.
    + injection E as <-. eapply V1. exact E1.
    + eapply V2. exact E.
Qed.

(** * null-free rows survive [build] unchanged *)

Lemma requirk_row_id : forall r seen, ~ In CNull r -> exists seen', requirk_row seen r = (r, seen').
Proof.
  induction r as [|c r IH]; intros seen H; cbn [requirk_row]; [eexists; reflexivity|].
  assert (Hr : ~ In CNull r) by (intro Hc; apply H; right; exact Hc).
  destruct (IH (match seen with _ :: t => t | [] => [] end) Hr) as [s' E]. rewrite E.
  destruct c; [exfalso; apply H; left; reflexivity| |]; eexists; reflexivity.
Qed.

Lemma requirk_rows_id : forall rs seen, (forall r, In r rs -> ~ In CNull r) -> requirk_rows seen rs = rs.
Proof.
  induction rs as [|r rs IH]; intros seen H; cbn [requirk_rows]; [reflexivity|].
  destruct (requirk_row_id r seen (H r (or_introl eq_refl))) as [s' E]. rewrite E. f_equal. apply IH.
  intros r' Hr'. apply H. right. exact Hr'.
Qed.

Lemma all_live_build : forall rs, (forall r, In r rs -> ~ In CNull r) -> all_live (build rs) = rs.
Proof.
  intros rs H. unfold build. destruct rs as [|r rs]; [reflexivity|]. unfold all_live. cbn [flat_map].
  rewrite app_nil_r, live_fresh. reflexivity.
Qed.

Lemma build_selected : forall rs, all_selected (build rs).
Proof.
  intros rs c Hc br Hbr. unfold build in Hc. destruct rs as [|r rs]; [contradiction|]. destruct Hc as [<-|[]].
  eapply fresh_selected. exact Hbr.
Qed.

Lemma live_selected : forall c, (forall br, In br c -> fst br = true) -> live c = map snd c.
Proof.
  intros c H. unfold live. f_equal. apply filter_id. intros br Hbr. apply H. exact Hbr.
Qed.

Lemma pick_sub : forall idx r c, In c (pick idx r) -> In c r.
Proof.
  intros idx r c H. unfold pick in H. apply in_flat_map in H. destruct H as [i [_ H]].
  destruct (nth_error r i) eqn:E; [|contradiction]. destruct H as [<-|[]]. eapply nth_error_In. exact E.
Qed.

(** * the inner join of two tables *)

Definition jrow (sh : list (nat * nat)) (kr : list nat) (R2 : list row) (lrow : row) : list row :=
  flat_map (fun rrow => if cond_holds sh lrow rrow then [lrow ++ pick kr rrow] else []) R2.

Lemma all_live_app' : forall a b, all_live (a ++ b) = all_live a ++ all_live b.
Proof. intros a b. unfold all_live. apply flat_map_app. Qed.

Lemma join_tbl_false_eq : forall l r, well_formed l = true -> well_formed r = true ->
  join_tbl false l r =
  Done (Tbl (join_cols (t_cols l) (t_cols r))
            (match all_live (t_chunks r) with
             | [] => []
             | _ => flat_map (fun c => build (flat_map (jrow (shared_cols (t_cols l) (t_cols r)) (keep_right (t_cols l) (t_cols r))
                                                           (all_live (t_chunks r))) (live c))) (t_chunks l)
             end)).
Proof.
  intros l r H1 H2. unfold join_tbl. rewrite H1, H2. cbn [andb negb]. cbv zeta. f_equal. unfold join_cols. f_equal.
  destruct (all_live (t_chunks r)) as [|r0 rs] eqn:ER; [reflexivity|].
  apply flat_map_ext_in. intros c _. f_equal. apply flat_map_ext_in. intros lrow _. unfold jrow.
  destruct (flat_map (fun rrow => if cond_holds (shared_cols (t_cols l) (t_cols r)) lrow rrow
                                  then [lrow ++ pick (keep_right (t_cols l) (t_cols r)) rrow] else []) (r0 :: rs)); reflexivity.
Qed.

Lemma join_chunks_live : forall (one : row -> list row) cs,
  (forall c l r, In c cs -> In l (live c) -> In r (one l) -> ~ In CNull r) ->
  all_live (flat_map (fun c => build (flat_map one (live c))) cs) = flat_map one (all_live cs) /\
  all_selected (flat_map (fun c => build (flat_map one (live c))) cs).
Proof.
  intros one cs. induction cs as [|c cs IH]; intro H.
  - split; [reflexivity|intros c []].
  - destruct IH as [IH1 IH2]; [intros c' l r Hc; apply H; right; exact Hc|]. cbn [flat_map]. split.
    + rewrite all_live_app', IH1.
      assert (E : all_live (c :: cs) = live c ++ all_live cs) by reflexivity.
      rewrite E, flat_map_app. f_equal.
      apply all_live_build. intros r Hr. apply in_flat_map in Hr. destruct Hr as [l [Hl Hr]].
      apply (H c l r (or_introl eq_refl) Hl Hr).
    + intros c' Hc'. apply in_app_or in Hc'. destruct Hc' as [Hc'|Hc']; [eapply build_selected; exact Hc'|apply IH2; exact Hc'].
Qed.

Lemma well_formed_tinv : forall n G T A, tinv n G T A -> well_formed T = true.
Proof.
  intros n G T A [Hs [HP _]]. unfold well_formed. apply forallb_forall. intros c Hc. apply forallb_forall. intros br Hbr.
  apply Nat.eqb_eq. assert (Hl : In (snd br) (all_live (t_chunks T))).
  { unfold all_live. apply in_flat_map. exists c. split; [exact Hc|]. unfold live. apply in_map. apply filter_In.
    split; [exact Hbr|]. apply (Hs c Hc br Hbr). }
  eapply Permutation_in in Hl; [|exact HP]. apply in_map_iff in Hl. destruct Hl as [m [<- _]]. apply sol_row_length.
Qed.

Lemma tinv_rows : forall n G T A, tinv n G T A ->
  forall l, In l (all_live (t_chunks T)) -> exists m, In m A /\ l = sol_row (t_cols T) m /\ good n G (t_cols T) m.
Proof.
  intros n G T A [_ [HP HG]] l Hl. eapply Permutation_in in Hl; [|exact HP]. apply in_map_iff in Hl.
  destruct Hl as [m [<- Hm]]. exists m. split; [exact Hm|]. split; [reflexivity|]. rewrite Forall_forall in HG. apply HG. exact Hm.
Qed.

Lemma flat_map_map_l : forall {A B C} (f : A -> B) (g : B -> list C) l, flat_map g (map f l) = flat_map (fun x => g (f x)) l.
Proof. intros A B C f g l. induction l as [|x l IH]; [reflexivity|]. cbn [map flat_map]. rewrite IH. reflexivity. Qed.

Lemma map_flat_map_l : forall {A B C} (f : B -> C) (g : A -> list B) l, map f (flat_map g l) = flat_map (fun x => map f (g x)) l.
Proof. intros A B C f g l. induction l as [|x l IH]; [reflexivity|]. cbn [flat_map]. rewrite map_app, IH. reflexivity. Qed.

Lemma join_tinv : forall n G T1 A1 T2 A2,
  render_injective_on G -> tinv n G T1 A1 -> tinv n G T2 A2 ->
  exists T3, join_tbl false T1 T2 = Done T3 /\ t_cols T3 = join_cols (t_cols T1) (t_cols T2) /\
             tinv n G T3 (join A1 A2).
Proof.
  intros n G T1 A1 T2 A2 Hinj I1 I2.
  rewrite (join_tbl_false_eq T1 T2 (well_formed_tinv _ _ _ _ I1) (well_formed_tinv _ _ _ _ I2)).
  eexists. split; [reflexivity|]. cbn [t_cols]. split; [reflexivity|].
  set (C1 := t_cols T1) in *. set (C2 := t_cols T2) in *.
  set (R1 := all_live (t_chunks T1)) in *. set (R2 := all_live (t_chunks T2)) in *.
  set (one := jrow (shared_cols C1 C2) (keep_right C1 C2) R2).
  (* rows produced by [one] are null-free *)
  assert (NF : forall l r, In l R1 -> In r (one l) -> ~ In CNull r).
  { intros l r Hl Hr. unfold one, jrow in Hr. apply in_flat_map in Hr. destruct Hr as [rr [Hrr Hr]].
    destruct (cond_holds (shared_cols C1 C2) l rr); [|contradiction]. destruct Hr as [<-|[]].
    destruct (tinv_rows _ _ _ _ I1 l Hl) as [m1 [_ [-> G1]]]. destruct (tinv_rows _ _ _ _ I2 rr Hrr) as [m2 [_ [-> G2]]].
    intro Hc. apply in_app_or in Hc. destruct Hc as [Hc|Hc].
    - eapply sol_row_no_null; [exact G1|exact Hc].
    - apply pick_sub in Hc. eapply sol_row_no_null; [exact G2|exact Hc]. }
  (* what the chunks contain *)
  assert (CH : all_live (match R2 with [] => [] | _ => flat_map (fun c => build (flat_map one (live c))) (t_chunks T1) end)
               = flat_map one R1 /\
               all_selected (match R2 with [] => [] | _ => flat_map (fun c => build (flat_map one (live c))) (t_chunks T1) end)).
  { destruct (join_chunks_live one (t_chunks T1)) as [J1 J2].
    { intros c l r Hc Hl Hr. apply (NF l r); [|exact Hr]. unfold R1, all_live. apply in_flat_map. exists c. split; assumption. }
    destruct R2 as [|r0 rs] eqn:ER; [|split; [exact J1|exact J2]].
    split; [|intros c []]. unfold one, jrow. cbn [flat_map]. symmetry. apply flat_map_nil_f. }
  destruct CH as [CH1 CH2]. unfold tinv. cbn [t_chunks t_cols]. split; [exact CH2|]. split.
  - rewrite CH1. destruct I1 as [_ [P1 G1]], I2 as [_ [P2 G2]]. fold C1 R1 in P1, G1. fold C2 R2 in P2, G2.
    rewrite Forall_forall in G1, G2.
    eapply Permutation_trans; [apply Permutation_flat_map; exact P1|]. rewrite flat_map_map_l.
    unfold join. rewrite map_flat_map_l. apply flat_map_perm_ext. intros m1 Hm1.
    unfold one, jrow. eapply Permutation_trans; [apply Permutation_flat_map; exact P2|]. rewrite flat_map_map_l.
    rewrite map_flat_map_l. apply flat_map_perm_ext. intros m2 Hm2.
    rewrite (cond_holds_compat n G C1 C2 m1 m2 Hinj (G1 m1 Hm1) (G2 m2 Hm2)).
    destruct (compat m1 m2); [|apply Permutation_refl]. cbn [map].
    rewrite (row_merge n G C1 C2 m1 m2 (G1 m1 Hm1) (G2 m2 Hm2)). apply Permutation_refl.
  - destruct I1 as [_ [_ G1]], I2 as [_ [_ G2]]. fold C1 in G1. fold C2 in G2. rewrite Forall_forall in G1, G2.
    apply Forall_forall. intros m Hm. unfold join in Hm. apply in_flat_map in Hm. destruct Hm as [m1 [Hm1 Hm]].
    apply in_flat_map in Hm. destruct Hm as [m2 [Hm2 Hm]]. destruct (compat m1 m2); [|contradiction].
    destruct Hm as [<-|[]]. apply good_merge; auto.
Qed.

(** * the whole basic graph pattern *)

Lemma plan_bgp_tinv : forall n st tps T A,
  inv st -> render_injective_on (graph_terms (triples st)) ->
  (forall tp, In tp tps ->
     NoDup (tpat_vars tp) /\ (forall c, In c (tpat_consts tp) -> const_term c = c) /\
     (forall v, In v (tpat_vars tp) -> (v < n)%nat)) ->
  tinv n (graph_terms (triples st)) T A ->
  exists T', plan_bgp st (Some T) tps = Done (Some T') /\
             bgp_cols (Some (t_cols T)) tps = Some (t_cols T') /\
             tinv n (graph_terms (triples st)) T' (fold_join (map (eval_tp n (triples st)) tps) A).
Proof.
  intros n st tps. induction tps as [|tp tps IH]; intros T A Hinv Hinj Hp HI.
  - exists T. split; [reflexivity|]. split; [reflexivity|exact HI].
  - destruct (Hp tp (or_introl eq_refl)) as [Hn [Hc Hv]].
    pose proof (scan_tinv n st tp Hinv Hn Hv Hc) as HS.
    destruct (join_tinv n _ T A (scan st tp) _ Hinj HI HS) as [T3 [E3 [C3 I3]]].
    cbn [plan_bgp bgp_cols map fold_join fold_left]. rewrite E3. cbn [bindr].
    destruct (IH T3 (join A (eval_tp n (triples st) tp)) Hinv Hinj) as [T' [E' [C' I']]];
      [intros tp' Hi; apply Hp; right; exact Hi|exact I3|].
    exists T'. split; [exact E'|]. split; [|exact I'].
    rewrite <- C'. rewrite C3. reflexivity.
Qed.

Lemma bgp_engine_spec_l : forall c ops n tps,
  let st := reach c ops in
  bgp_plain n tps -> render_injective_on (graph_terms (triples st)) ->
  exists T, plan_pat st (PBgp tps) = Done T /\ pat_cols (PBgp tps) = Some (t_cols T) /\
            Permutation (all_live (t_chunks T)) (map (sol_row (t_cols T)) (eval_bgp n (triples st) tps)).
Proof.
  intros c ops n tps st [Hne Hp] Hinj. destruct tps as [|tp tps]; [congruence|].
  assert (Hinv : inv st) by apply inv_reach.
  destruct (Hp tp (or_introl eq_refl)) as [Hn [Hc Hv]].
  pose proof (scan_tinv n st tp Hinv Hn Hv Hc) as HS.
  destruct (plan_bgp_tinv n st tps (scan st tp) (eval_tp n (triples st) tp) Hinv Hinj) as [T [E [C I]]];
    [intros tp' Hi; apply Hp; right; exact Hi|exact HS|].
  exists T. cbn [plan_pat plan_bgp]. rewrite E. cbn [bindr]. split; [reflexivity|].
  split; [cbn [pat_cols bgp_cols]; exact C|].
  destruct I as [_ [P _]]. rewrite eval_bgp_fold. cbn [map fold_join fold_left].
  rewrite join_unit_l by apply eval_tp_wf. exact P.
Qed.

(** * SELECT * and COUNT-star over a basic graph pattern *)

Lemma render_project : forall cols m, map render_rcell (map rcell_of (project cols m)) = sol_row cols m.
Proof.
  intros cols m. unfold project, sol_row. rewrite !map_map. apply map_ext. intro v. unfold sol_cell.
  destruct (nth v m None); reflexivity.
Qed.

Lemma select_bgp_spec_l : forall c ops n tps,
  let st := reach c ops in
  bgp_plain n tps -> render_injective_on (graph_terms (triples st)) ->
  exists cols rows,
    run_select st (Query false ProjStar (PBgp tps) [] None None) = Done (cols, rows) /\
    pat_cols (PBgp tps) = Some cols /\
    Permutation rows
      (map (map render_rcell) (snd (eval_query n (triples st) (Query false (ProjVars cols) (PBgp tps) [] None None)))).
Proof.
  intros c ops n tps st Hp Hinj. destruct (bgp_engine_spec_l c ops n tps Hp Hinj) as [T [E [C P]]]. fold st in E, P.
  exists (t_cols T), (all_live (t_chunks T)). unfold run_select, plan_ok. cbn [q_pat q_proj q_order q_offset q_limit q_distinct].
  rewrite C. cbn [andb negb]. rewrite E. cbn [bindr sort_tbl]. split; [reflexivity|]. split; [reflexivity|].
  unfold eval_query. cbn [q_pat q_proj q_order q_offset q_limit q_distinct snd eval_pat order_by slice].
  rewrite !map_map. eapply Permutation_trans; [exact P|].
  assert (Em : map (sol_row (t_cols T)) (eval_bgp n (triples st) tps)
             = map (fun m => map render_rcell (map rcell_of (project (t_cols T) m))) (eval_bgp n (triples st) tps)).
  { apply map_ext. intro m. symmetry. apply render_project. }
  rewrite Em. apply Permutation_refl.
Qed.

Lemma count_bgp_spec_l : forall c ops n tps,
  let st := reach c ops in
  bgp_plain n tps -> render_injective_on (graph_terms (triples st)) ->
  run_select st (Query false ProjCount (PBgp tps) [] None None)
  = Done ([count_col], map (map render_rcell) (snd (eval_query n (triples st) (Query false ProjCount (PBgp tps) [] None None)))).
Proof.
  intros c ops n tps st Hp Hinj. destruct (bgp_engine_spec_l c ops n tps Hp Hinj) as [T [E [C P]]]. fold st in E, P.
  unfold run_select, plan_ok. cbn [q_pat q_proj q_order q_offset q_limit q_distinct]. rewrite C. cbn [andb negb]. rewrite E.
  cbn [bindr sort_tbl count_tbl t_cols t_chunks]. unfold eval_query. cbn [q_pat q_proj q_order q_offset q_limit snd slice eval_pat map render_rcell].
  rewrite (Permutation_length P), map_length. reflexivity.
Qed.

(** * SELECT with a list of variables over a basic graph pattern *)

Lemma col_index_from_spec : forall cols i v j, col_index_from i v cols = Some j ->
  (i <= j)%nat /\ nth_error cols (j - i) = Some v.
Proof.
  induction cols as [|c r IH]; intros i v j H; cbn [col_index_from] in H; [discriminate|].
  destruct (col_index_from (S i) v r) as [j'|] eqn:E.
  - injection H as <-. destruct (IH _ _ _ E) as [H1 H2]. split; [lia|].
    replace (j' - i)%nat with (S (j' - S i)) by lia. exact H2.
  - destruct (Nat.eqb c v) eqn:Ec; [|discriminate]. injection H as <-. apply Nat.eqb_eq in Ec. subst c.
    split; [lia|]. rewrite Nat.sub_diag. reflexivity.
Qed.

Lemma col_index_from_exists : forall cols i v, In v cols -> exists j, col_index_from i v cols = Some j.
Proof.
  induction cols as [|c r IH]; intros i v H; [contradiction|]. cbn [col_index_from].
  destruct (col_index_from (S i) v r) as [j'|] eqn:E; [eexists; reflexivity|].
  destruct H as [->|H]; [rewrite Nat.eqb_refl; eexists; reflexivity|].
  destruct (IH (S i) v H) as [j Ej]. congruence.
Qed.

Lemma resolve_vars_spec : forall cols vs, (forall v, In v vs -> In v cols) ->
  exists idx, resolve_vars cols vs = Some idx /\ Forall2 (fun v i => nth_error cols i = Some v) vs idx.
Proof.
  intros cols vs. induction vs as [|v vs IH]; intro H; [exists []; split; [reflexivity|constructor]|].
  destruct IH as [idx [E F]]; [intros w Hw; apply H; right; exact Hw|].
  destruct (col_index_from_exists cols 0 v (H v (or_introl eq_refl))) as [j Ej].
  exists (j :: idx). cbn [resolve_vars]. unfold col_index. rewrite Ej, E. split; [reflexivity|].
  constructor; [|exact F]. destruct (col_index_from_spec _ _ _ _ Ej) as [_ H2]. rewrite Nat.sub_0_r in H2. exact H2.
Qed.

Lemma pick_strict_pick : forall idx (r : row), (forall i, In i idx -> (i < length r)%nat) -> pick_strict idx r = Some (pick idx r).
Proof.
  induction idx as [|i idx IH]; intros r H; [reflexivity|]. cbn [pick_strict]. unfold pick in *. cbn [flat_map].
  destruct (nth_error r i) as [c|] eqn:E.
  - rewrite IH by (intros j Hj; apply H; right; exact Hj). reflexivity.
  - exfalso. apply nth_error_None in E. specialize (H i (or_introl eq_refl)). lia.
Qed.

Lemma pick_sol_row : forall cols vs idx m, Forall2 (fun v i => nth_error cols i = Some v) vs idx ->
  pick idx (sol_row cols m) = sol_row vs m.
Proof.
  intros cols vs idx m F. induction F as [|v i vs idx H F IH]; [reflexivity|].
  unfold pick in *. cbn [flat_map]. rewrite nth_error_sol_row, H. cbn [option_map app]. unfold sol_row at 2. cbn [map].
  f_equal. exact IH.
Qed.

Lemma map_opt_all : forall {A B} (f : A -> option B) (g : A -> B) l,
  (forall x, In x l -> f x = Some (g x)) -> map_opt f l = Some (map g l).
Proof.
  intros A B f g l H. induction l as [|x l IH]; [reflexivity|]. cbn [map_opt map].
  rewrite (H x (or_introl eq_refl)), IH; [reflexivity|]. intros y Hy. apply H. right. exact Hy.
Qed.

Lemma project_tinv : forall n G T A vs, tinv n G T A -> (forall v, In v vs -> In v (t_cols T)) ->
  exists T', project_tbl vs T = Done T' /\ t_cols T' = vs /\
             Permutation (all_live (t_chunks T')) (map (sol_row vs) A).
Proof.
  intros n G T A vs I Hvs. destruct (resolve_vars_spec (t_cols T) vs Hvs) as [idx [E F]].
  assert (Hidx : forall i, In i idx -> (i < length (t_cols T))%nat).
  { clear E. induction F as [|v i vs0 idx0 H F IH]; intros j Hj; [contradiction|]. destruct Hj as [<-|Hj].
    - apply nth_error_Some. congruence.
    - apply IH; [intros w Hw; apply Hvs; right; exact Hw|exact Hj]. }
  assert (Hrow : forall c l, In c (t_chunks T) -> In l (live c) -> exists m, In m A /\ l = sol_row (t_cols T) m /\ good n G (t_cols T) m).
  { intros c l Hc Hl. apply (tinv_rows _ _ _ _ I). unfold all_live. apply in_flat_map. exists c. split; assumption. }
  unfold project_tbl. rewrite E.
  rewrite (map_opt_all _ (fun c => map (pick idx) (live c))).
  2:{ intros c Hc. apply map_opt_all. intros l Hl. apply pick_strict_pick. intros i Hi.
      destruct (Hrow c l Hc Hl) as [m [_ [-> _]]]. rewrite sol_row_length. apply Hidx. exact Hi. }
  eexists. split; [reflexivity|]. cbn [t_cols t_chunks]. split; [reflexivity|].
  assert (AL : all_live (map (fun rs => fresh rs) (map (fun c => map (pick idx) (live c)) (t_chunks T)))
             = map (pick idx) (all_live (t_chunks T))).
  { induction (t_chunks T) as [|c cs IH]; [reflexivity|]. cbn [map].
    assert (E1 : all_live (c :: cs) = live c ++ all_live cs) by reflexivity. rewrite E1, map_app.
    assert (E2 : forall x xs, all_live (x :: xs) = live x ++ all_live xs) by reflexivity. rewrite E2. f_equal.
    - apply live_fresh.
    - apply IH. intros c' l Hc'. apply Hrow. right. exact Hc'. }
  rewrite AL. destruct I as [_ [P _]]. eapply Permutation_trans; [apply Permutation_map; exact P|].
  rewrite map_map. assert (Em : map (fun m => pick idx (sol_row (t_cols T) m)) A = map (sol_row vs) A).
  { apply map_ext. intro m. apply (pick_sol_row _ _ _ _ F). }
  rewrite Em. apply Permutation_refl.
Qed.

Lemma select_vars_bgp_spec_l : forall c ops n tps vs cols,
  let st := reach c ops in
  bgp_plain n tps -> render_injective_on (graph_terms (triples st)) ->
  pat_cols (PBgp tps) = Some cols -> vs <> [] -> (forall v, In v vs -> In v cols) ->
  exists rows,
    run_select st (Query false (ProjVars vs) (PBgp tps) [] None None) = Done (vs, rows) /\
    Permutation rows
      (map (map render_rcell) (snd (eval_query n (triples st) (Query false (ProjVars vs) (PBgp tps) [] None None)))).
Proof.
  intros c ops n tps vs cols st Hp Hinj Hc Hne Hvs.
  destruct Hp as [Hne' Hp]. destruct tps as [|tp tps]; [congruence|].
  assert (Hinv : inv st) by apply inv_reach.
  destruct (Hp tp (or_introl eq_refl)) as [Hn [Hk Hv]].
  pose proof (scan_tinv n st tp Hinv Hn Hv Hk) as HS.
  destruct (plan_bgp_tinv n st tps (scan st tp) (eval_tp n (triples st) tp) Hinv Hinj) as [T [E [C I]]];
    [intros tp' Hi; apply Hp; right; exact Hi|exact HS|].
  assert (EC : t_cols T = cols). { cbn [pat_cols bgp_cols] in Hc. unfold scan in C. cbn [t_cols] in C. congruence. }
  destruct (project_tinv n _ T _ vs I) as [T' [EP [CP PP]]]; [rewrite EC; exact Hvs|].
  exists (all_live (t_chunks T')). unfold run_select, plan_ok. cbn [q_pat q_proj q_order q_offset q_limit q_distinct].
  rewrite Hc. destruct vs as [|v0 vs0]; [congruence|].
  destruct (resolve_vars_spec cols (v0 :: vs0) Hvs) as [idx [ER _]]. rewrite ER. cbn [andb negb].
  cbn [plan_pat plan_bgp]. rewrite E. cbn [bindr sort_tbl]. rewrite EP. cbn [bindr]. rewrite CP. split; [reflexivity|].
  unfold eval_query. cbn [q_pat q_proj q_order q_offset q_limit q_distinct snd eval_pat order_by slice].
  rewrite !map_map. eapply Permutation_trans; [exact PP|].
  rewrite eval_bgp_fold. cbn [map fold_join fold_left]. rewrite join_unit_l by apply eval_tp_wf.
  assert (Em : forall l, map (sol_row (v0 :: vs0)) l = map (fun m => map render_rcell (map rcell_of (project (v0 :: vs0) m))) l).
  { intro l. apply map_ext. intro m. symmetry. apply render_project. }
  rewrite Em. apply Permutation_refl.
Qed.
