(** C13 — the SPARQL 1.1 algebra restricted to the core, evaluated over a set of triples
    (W3C "SPARQL 1.1 Query Language" section 18, multiset semantics).  Definitions only.

    Variables are numbered [0 .. n-1]; a solution mapping is a vector of width [n]
    ([None] = unbound).  A multiset of solutions is a list (order irrelevant, compared up to
    [Permutation]). *)
From GV Require Export Rdf.Model.
Open Scope Z_scope.

(** * syntax of the core *)

Inductive tpos := TVar (v : nat) | TConst (t : term).
Record tpat := TPat { tp_s : tpos; tp_p : tpos; tp_o : tpos }.

Inductive cmpop := CEq | CNe | CLt | CLe | CGt | CGe.

Inductive expr :=
| EVar (v : nat)
| EConst (t : term)
| ECmp (o : cmpop) (a b : expr)
| EAnd (a b : expr)
| EOr (a b : expr)
| ENot (a : expr)
| EBound (v : nat).

(** graph patterns (the algebra the W3C translation of a group yields):
    [POpt a b c] = LeftJoin(a, b, c) i.e. [a OPTIONAL { b FILTER(c) }] *)
Inductive pat :=
| PBgp (tps : list tpat)
| PJoin (a b : pat)
| POpt (a b : pat) (c : option expr)
| PFilter (c : expr) (a : pat)
| PUnion (a b : pat).

Inductive proj := ProjStar | ProjVars (vs : list nat) | ProjCount.

Record query := Query {
  q_distinct : bool;
  q_proj : proj;
  q_pat : pat;
  q_order : list (nat * bool);        (* ORDER BY keys: variable, descending? *)
  q_offset : option nat;
  q_limit : option nat
}.

Inductive update := InsertData (ts : list triple) | DeleteData (ts : list triple).

(** * solution mappings *)

Definition sol := list (option term).
Definition empty_sol (n : nat) : sol := repeat None n.

Definition cell_compat (a b : option term) : bool :=
  match a, b with Some x, Some y => term_eqb x y | _, _ => true end.
Definition cell_merge (a b : option term) : option term :=
  match a with Some x => Some x | None => b end.

(** two mappings are compatible when they agree on every variable bound in both *)
Fixpoint compat (m1 m2 : sol) : bool :=
  match m1, m2 with
  | a :: r1, b :: r2 => cell_compat a b && compat r1 r2
  | _, _ => true
  end.
(** union of two (compatible) mappings *)
Fixpoint merge (m1 m2 : sol) : sol :=
  match m1, m2 with
  | a :: r1, b :: r2 => cell_merge a b :: merge r1 r2
  | [], m => m
  | m, [] => m
  end.

(** Join(O1, O2) = { merge(m1, m2) | m1 in O1, m2 in O2, compatible }, multiplicities multiply *)
Definition join (o1 o2 : list sol) : list sol :=
  flat_map (fun m1 => flat_map (fun m2 => if compat m1 m2 then [merge m1 m2] else []) o2) o1.

(** * basic graph patterns *)

Fixpoint bind (v : nat) (x : term) (m : sol) : option sol :=
  match m, v with
  | [], _ => None
  | c :: r, O => match c with
                 | None => Some (Some x :: r)
                 | Some y => if term_eqb x y then Some m else None
                 end
  | c :: r, S v' => match bind v' x r with Some r' => Some (c :: r') | None => None end
  end.

Definition match_pos (p : tpos) (x : term) (m : sol) : option sol :=
  match p with
  | TConst c => if term_eqb c x then Some m else None
  | TVar v => bind v x m
  end.

(** the mapping (if any) that instantiates the triple pattern to the triple *)
Definition match_tp (n : nat) (tp : tpat) (t : triple) : option sol :=
  match match_pos (tp_s tp) (t_s t) (empty_sol n) with
  | None => None
  | Some m1 => match match_pos (tp_p tp) (t_p t) m1 with
               | None => None
               | Some m2 => match_pos (tp_o tp) (t_o t) m2
               end
  end.

Definition eval_tp (n : nat) (g : list triple) (tp : tpat) : list sol :=
  flat_map (fun t => match match_tp n tp t with Some m => [m] | None => [] end) g.

(** a BGP evaluated as a left-deep chain of joins of its triple patterns, in the given order *)
Definition eval_bgp (n : nat) (g : list triple) (tps : list tpat) : list sol :=
  fold_left (fun acc tp => join acc (eval_tp n g tp)) tps [empty_sol n].

(** * expressions (section 17): errors are [None] *)

Fixpoint str_cmp (a b : str) : comparison :=
  match a, b with
  | [], [] => Eq
  | [], _ => Lt
  | _, [] => Gt
  | x :: a', y :: b' => match x ?= y with Eq => str_cmp a' b' | c => c end
  end.

Definition is_digit (c : Z) : bool := (48 <=? c) && (c <=? 57).
Fixpoint digits_val (acc : Z) (s : str) : option Z :=
  match s with
  | [] => Some acc
  | c :: r => if is_digit c then digits_val (acc * 10 + (c - 48)) r else None
  end.
(** lexical space of xsd:integer: [+-]?[0-9]+ *)
Definition parse_int (s : str) : option Z :=
  match s with
  | [] => None
  | 45 :: r => match r with [] => None | _ => option_map Z.opp (digits_val 0 r) end
  | 43 :: r => match r with [] => None | _ => digits_val 0 r end
  | _ => digits_val 0 s
  end.

Inductive lit_class := LNum (n : Z) | LStr (s : str) | LOther.
Definition classify (t : term) : lit_class :=
  match t with
  | Lit v d None =>
      if str_eqb d XSD_INTEGER then match parse_int v with Some n => LNum n | None => LOther end
      else if str_eqb d XSD_STRING then LStr v
      else LOther
  | _ => LOther
  end.
Definition is_lit (t : term) : bool := match t with Lit _ _ _ => true | _ => false end.

Definition cmp_holds (o : cmpop) (c : comparison) : bool :=
  match o, c with
  | CEq, Eq => true | CNe, Lt => true | CNe, Gt => true
  | CLt, Lt => true | CLe, Lt => true | CLe, Eq => true
  | CGt, Gt => true | CGe, Gt => true | CGe, Eq => true
  | _, _ => false
  end.

(** operator mapping of section 17.3: numeric and string comparison; RDFterm-equal otherwise
    (error when both are literals and not the same term); no [<] outside numerics/strings *)
Definition cmp_terms (o : cmpop) (a b : term) : option bool :=
  match classify a, classify b with
  | LNum x, LNum y => Some (cmp_holds o (x ?= y))
  | LStr x, LStr y => Some (cmp_holds o (str_cmp x y))
  | _, _ =>
      match o with
      | CEq => if term_eqb a b then Some true else if is_lit a && is_lit b then None else Some false
      | CNe => if term_eqb a b then Some false else if is_lit a && is_lit b then None else Some true
      | _ => None
      end
  end.

Inductive val := VTerm (t : term) | VBool (b : bool).

(** effective boolean value: only booleans occur in the core *)
Definition ebv (v : option val) : option bool :=
  match v with Some (VBool b) => Some b | _ => None end.

Fixpoint eval_expr (m : sol) (e : expr) : option val :=
  match e with
  | EVar v => match nth v m None with Some t => Some (VTerm t) | None => None end
  | EConst t => Some (VTerm t)
  | ECmp o a b =>
      match eval_expr m a, eval_expr m b with
      | Some (VTerm x), Some (VTerm y) => option_map VBool (cmp_terms o x y)
      | _, _ => None
      end
  | EAnd a b =>
      match ebv (eval_expr m a), ebv (eval_expr m b) with
      | Some false, _ => Some (VBool false)
      | _, Some false => Some (VBool false)
      | Some true, Some true => Some (VBool true)
      | _, _ => None
      end
  | EOr a b =>
      match ebv (eval_expr m a), ebv (eval_expr m b) with
      | Some true, _ => Some (VBool true)
      | _, Some true => Some (VBool true)
      | Some false, Some false => Some (VBool false)
      | _, _ => None
      end
  | ENot a => match ebv (eval_expr m a) with Some b => Some (VBool (negb b)) | None => None end
  | EBound v => Some (VBool (match nth v m None with Some _ => true | None => false end))
  end.

(** the variables an expression mentions *)
Fixpoint expr_vars (e : expr) : list nat :=
  match e with
  | EVar v | EBound v => [v]
  | EConst _ => []
  | ECmp _ a b | EAnd a b | EOr a b => expr_vars a ++ expr_vars b
  | ENot a => expr_vars a
  end.

(** FILTER keeps a solution iff the effective boolean value is true (an error drops it) *)
Definition holds (e : expr) (m : sol) : bool :=
  match ebv (eval_expr m e) with Some true => true | _ => false end.
Definition holds_opt (c : option expr) (m : sol) : bool :=
  match c with Some e => holds e m | None => true end.

(** * the other operators *)

(** LeftJoin(O1, O2, c), computed row by row: the extensions of [m1] that satisfy [c];
    [m1] itself when there is none *)
Definition left_join (c : option expr) (o1 o2 : list sol) : list sol :=
  flat_map (fun m1 =>
    let ext := flat_map (fun m2 => if compat m1 m2 && holds_opt c (merge m1 m2) then [merge m1 m2] else []) o2 in
    match ext with [] => [m1] | _ => ext end) o1.

Fixpoint eval_pat (n : nat) (g : list triple) (p : pat) : list sol :=
  match p with
  | PBgp tps => eval_bgp n g tps
  | PJoin a b => join (eval_pat n g a) (eval_pat n g b)
  | POpt a b c => left_join c (eval_pat n g a) (eval_pat n g b)
  | PFilter c a => filter (holds c) (eval_pat n g a)
  | PUnion a b => eval_pat n g a ++ eval_pat n g b
  end.

(** ** solution modifiers *)

Definition sol_eqb (a b : sol) : bool := list_eqb (option_eqb term_eqb) a b.

(** Distinct: one copy of each solution (first occurrences, in order) *)
Fixpoint distinct_by {A} (eqb : A -> A -> bool) (l : list A) : list A :=
  match l with
  | [] => []
  | x :: r => x :: filter (fun y => negb (eqb x y)) (distinct_by eqb r)
  end.

(** ORDER BY (section 15.1): unbound < blank nodes < IRIs < literals; IRIs by code point,
    numerics by value, simple literals by code point.  Other pairs are not ordered by the
    specification: [comparable] says whether a pair is. *)
Definition rank (c : option term) : Z :=
  match c with None => 0 | Some (Blank _) => 1 | Some (Iri _) => 2 | Some (Lit _ _ _) => 3 end.

Definition comparable (a b : option term) : bool :=
  match a, b with
  | Some (Iri _), Some (Iri _) => true
  | Some (Blank x), Some (Blank y) => str_eqb x y
  | Some (Lit _ _ _ as x), Some (Lit _ _ _ as y) =>
      match classify x, classify y with
      | LNum _, LNum _ => true
      | LStr _, LStr _ => true
      | _, _ => term_eqb x y
      end
  | _, _ => true      (* different kinds (ranked), or both unbound *)
  end.

Definition lexical (t : term) : str :=
  match t with Iri s => s | Blank s => s | Lit v _ _ => v end.

Definition cell_cmp (a b : option term) : comparison :=
  match rank a ?= rank b with
  | Eq =>
      match a, b with
      | Some x, Some y =>
          match classify x, classify y with
          | LNum n, LNum k => n ?= k
          | _, _ => str_cmp (lexical x) (lexical y)
          end
      | _, _ => Eq
      end
  | c => c
  end.

Definition flip (c : comparison) : comparison := match c with Lt => Gt | Gt => Lt | Eq => Eq end.

Fixpoint keys_cmp (keys : list (nat * bool)) (a b : sol) : comparison :=
  match keys with
  | [] => Eq
  | (v, desc) :: r =>
      let c := cell_cmp (nth v a None) (nth v b None) in
      let c := if desc then flip c else c in
      match c with Eq => keys_cmp r a b | _ => c end
  end.

(** stable insertion sort by a three-way comparison *)
Fixpoint insert_by {A} (cmp : A -> A -> comparison) (x : A) (l : list A) : list A :=
  match l with
  | [] => [x]
  | y :: r => match cmp x y with Gt => y :: insert_by cmp x r | _ => x :: l end
  end.
Fixpoint sort_by {A} (cmp : A -> A -> comparison) (l : list A) : list A :=
  match l with [] => [] | x :: r => insert_by cmp x (sort_by cmp r) end.

Definition order_by (keys : list (nat * bool)) (o : list sol) : list sol :=
  match keys with [] => o | _ => sort_by (keys_cmp keys) o end.

Definition slice {A} (off lim : option nat) (l : list A) : list A :=
  let l1 := match off with Some k => skipn k l | None => l end in
  match lim with Some k => firstn k l1 | None => l1 end.

(** projection of a solution on a list of variables *)
Definition project (vs : list nat) (m : sol) : list (option term) := map (fun v => nth v m None) vs.

(** variables possibly bound by a pattern, in first-occurrence order *)
Definition tpos_vars (p : tpos) : list nat := match p with TVar v => [v] | TConst _ => [] end.
Definition tpat_vars (tp : tpat) : list nat := tpos_vars (tp_s tp) ++ tpos_vars (tp_p tp) ++ tpos_vars (tp_o tp).
Fixpoint nodup_nat (l : list nat) : list nat :=
  match l with
  | [] => []
  | x :: r => x :: filter (fun y => negb (Nat.eqb x y)) (nodup_nat r)
  end.
Fixpoint pat_vars (p : pat) : list nat :=
  match p with
  | PBgp tps => flat_map tpat_vars tps
  | PJoin a b => pat_vars a ++ pat_vars b
  | POpt a b _ => pat_vars a ++ pat_vars b
  | PFilter _ a => pat_vars a
  | PUnion a b => pat_vars a ++ pat_vars b
  end.
Definition in_scope (p : pat) : list nat := nodup_nat (pat_vars p).

(** result cells: a term, unbound, or the integer of COUNT *)
Inductive rcell := RNull | RTerm (t : term) | RInt (n : Z).
Definition rcell_of (c : option term) : rcell := match c with Some t => RTerm t | None => RNull end.
Definition rcell_eqb (a b : rcell) : bool :=
  match a, b with
  | RNull, RNull => true
  | RTerm x, RTerm y => term_eqb x y
  | RInt x, RInt y => x =? y
  | _, _ => false
  end.

(** the answer of a SELECT query: section 18.2.4/18.2.5 — pattern, ORDER BY, projection,
    DISTINCT, OFFSET/LIMIT; COUNT-star without GROUP BY is one group (one row, 0 on no solutions) *)
Definition eval_query (n : nat) (g : list triple) (q : query) : list nat * list (list rcell) :=
  let sols := eval_pat n g (q_pat q) in
  match q_proj q with
  | ProjCount =>
      ([], slice (q_offset q) (q_limit q) [[RInt (Z.of_nat (length sols))]])
  | pr =>
      let vs := match pr with ProjVars vs => vs | _ => in_scope (q_pat q) end in
      let rows := map (project vs) (order_by (q_order q) sols) in
      let rows := if q_distinct q then distinct_by (list_eqb (option_eqb term_eqb)) rows else rows in
      (vs, map (map rcell_of) (slice (q_offset q) (q_limit q) rows))
  end.

(** * updates (SPARQL 1.1 Update 3.1.1/3.1.2): set union / set difference on the graph *)

Fixpoint insert_data (g : list triple) (ts : list triple) : list triple :=
  match ts with
  | [] => g
  | t :: r => insert_data (if memb t g then g else g ++ [t]) r
  end.
Definition delete_data (g : list triple) (ts : list triple) : list triple :=
  filter (fun x => negb (memb x ts)) g.
Definition eval_update (g : list triple) (u : update) : list triple :=
  match u with InsertData ts => insert_data g ts | DeleteData ts => delete_data g ts end.
