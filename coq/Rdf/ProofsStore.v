(** C13 — proofs about the triple store model: the index invariant holds in every reachable
    state; find / triples_with_* return exactly the matching stored triples once each;
    insert/remove/clear/len/stats have set semantics. *)
From GV Require Import Rdf.Spec.
From Coq Require Import Lia.
Open Scope Z_scope.

(** * equality tests *)

Lemma str_eqb_eq : forall a b : str, str_eqb a b = true <-> a = b.
Proof.
  unfold str_eqb. induction a as [|x a IH]; destruct b as [|y b]; cbn [list_eqb]; split; intro H;
    try reflexivity; try discriminate.
  - apply andb_true_iff in H. destruct H as [H1 H2]. apply Z.eqb_eq in H1. apply IH in H2. congruence.
  - injection H as -> ->. apply andb_true_iff. split; [apply Z.eqb_refl|apply IH; reflexivity].
Qed.

Lemma ostr_eqb_eq : forall a b : option str, option_eqb str_eqb a b = true <-> a = b.
Proof.
  destruct a as [a|], b as [b|]; cbn [option_eqb]; split; intro H; try reflexivity; try discriminate.
  - apply str_eqb_eq in H. congruence.
  - injection H as ->. apply str_eqb_eq. reflexivity.
Qed.

Lemma term_eqb_eq : forall a b, term_eqb a b = true <-> a = b.
Proof.
  destruct a as [x|x|v d l], b as [y|y|v' d' l']; cbn [term_eqb]; split; intro H;
    try discriminate; try (apply str_eqb_eq in H; congruence);
    try (injection H as ->; apply str_eqb_eq; reflexivity).
  - apply andb_true_iff in H. destruct H as [H H3]. apply andb_true_iff in H. destruct H as [H1 H2].
    apply str_eqb_eq in H1. apply str_eqb_eq in H2. apply ostr_eqb_eq in H3. congruence.
  - injection H as -> -> ->. rewrite !andb_true_iff. repeat split;
      [apply str_eqb_eq|apply str_eqb_eq|apply ostr_eqb_eq]; reflexivity.
Qed.

Lemma term_eqb_refl : forall a, term_eqb a a = true.
Proof. intro a. apply term_eqb_eq. reflexivity. Qed.

Lemma term_eqb_neq : forall a b, term_eqb a b = false <-> a <> b.
Proof.
  intros a b. split.
  - intros H E. apply term_eqb_eq in E. congruence.
  - intro H. destruct (term_eqb a b) eqn:E; [apply term_eqb_eq in E; contradiction|reflexivity].
Qed.

Lemma term_eq_dec : forall a b : term, {a = b} + {a <> b}.
Proof.
  intros a b. destruct (term_eqb a b) eqn:E.
  - left. apply term_eqb_eq. exact E.
  - right. apply term_eqb_neq. exact E.
Qed.

Lemma triple_eqb_eq : forall a b, triple_eqb a b = true <-> a = b.
Proof.
  intros [s p o] [s' p' o']. unfold triple_eqb. cbn [t_s t_p t_o]. rewrite !andb_true_iff, !term_eqb_eq.
  split; [intros [[-> ->] ->]; reflexivity|intro H; injection H as -> -> ->; auto].
Qed.

Lemma triple_eqb_refl : forall a, triple_eqb a a = true.
Proof. intro a. apply triple_eqb_eq. reflexivity. Qed.

Lemma triple_eqb_neq : forall a b, triple_eqb a b = false <-> a <> b.
Proof.
  intros a b. split.
  - intros H E. apply triple_eqb_eq in E. congruence.
  - intro H. destruct (triple_eqb a b) eqn:E; [apply triple_eqb_eq in E; contradiction|reflexivity].
Qed.

Lemma triple_eq_dec : forall a b : triple, {a = b} + {a <> b}.
Proof.
  intros a b. destruct (triple_eqb a b) eqn:E.
  - left. apply triple_eqb_eq. exact E.
  - right. apply triple_eqb_neq. exact E.
Qed.

Lemma memb_In : forall t l, memb t l = true <-> In t l.
Proof.
  intros t l. unfold memb. rewrite existsb_exists. split.
  - intros [x [Hx E]]. apply triple_eqb_eq in E. subst. exact Hx.
  - intro H. exists t. split; [exact H|apply triple_eqb_refl].
Qed.

Lemma memb_false : forall t l, memb t l = false <-> ~ In t l.
Proof.
  intros t l. split.
  - intros H HI. apply memb_In in HI. congruence.
  - intro H. destruct (memb t l) eqn:E; [apply memb_In in E; contradiction|reflexivity].
Qed.

Lemma term_memb_In : forall x l, term_memb x l = true <-> In x l.
Proof.
  intros x l. unfold term_memb. rewrite existsb_exists. split.
  - intros [y [Hy E]]. apply term_eqb_eq in E. subst. exact Hy.
  - intro H. exists x. split; [exact H|apply term_eqb_refl].
Qed.

Lemma opt_matches_spec : forall o x, opt_matches o x = true <-> (forall c, o = Some c -> c = x).
Proof.
  intros [c|] x; cbn [opt_matches].
  - rewrite term_eqb_eq. split; [intros -> c' H; congruence|intro H; apply H; reflexivity].
  - split; [intros _ c H; discriminate|reflexivity].
Qed.

Lemma matches_spec : forall p t,
  matches p t = opt_matches (p_s p) (t_s t) && opt_matches (p_p p) (t_p t) && opt_matches (p_o p) (t_o t).
Proof.
  intros p t. unfold matches.
  destruct (opt_matches (p_s p) (t_s t)), (opt_matches (p_p p) (t_p t)), (opt_matches (p_o p) (t_o t)); reflexivity.
Qed.

(** * filter / NoDup helpers *)

Lemma filter_neq_In : forall (t u : triple) l,
  In u (filter (fun x => negb (triple_eqb x t)) l) <-> In u l /\ u <> t.
Proof.
  intros t u l. rewrite filter_In. split; intros [H1 H2]; split; try exact H1.
  - apply negb_true_iff in H2. apply triple_eqb_neq in H2. exact H2.
  - apply negb_true_iff. apply triple_eqb_neq. exact H2.
Qed.

Lemma NoDup_filter : forall {A} (f : A -> bool) l, NoDup l -> NoDup (filter f l).
Proof.
  intros A f l H. induction H as [|x l Hx H IH]; cbn [filter]; [constructor|].
  destruct (f x); [constructor; [rewrite filter_In; tauto|exact IH]|exact IH].
Qed.

Lemma NoDup_app_one : forall {A} (l : list A) x, NoDup l -> ~ In x l -> NoDup (l ++ [x]).
Proof.
  intros A l x H Hx. induction H as [|y l Hy H IH]; cbn [app].
  - constructor; [intros []|constructor].
  - constructor.
    + rewrite in_app_iff. intros [H1|[H1|[]]]; [contradiction|subst; apply Hx; left; reflexivity].
    + apply IH. intro H1. apply Hx. right. exact H1.
Qed.

Lemma filter_id : forall {A} (f : A -> bool) l, (forall x, In x l -> f x = true) -> filter f l = l.
Proof.
  intros A f l H. induction l as [|x l IH]; [reflexivity|]. cbn [filter].
  rewrite (H x (or_introl eq_refl)). f_equal. apply IH. intros y Hy. apply H. right. exact Hy.
Qed.

Lemma is_nil_spec : forall {A} (l : list A), is_nil l = true <-> l = [].
Proof. intros A [|x l]; cbn [is_nil]; split; intro H; try reflexivity; discriminate. Qed.

(** * association-list index lemmas *)

Lemma alookup_None_keys : forall k m, alookup k m = None <-> ~ In k (map fst m).
Proof.
  intros k m. induction m as [|[k' v] r IH]; cbn [alookup map fst].
  - split; [intros _ []|reflexivity].
  - destruct (term_eqb k k') eqn:E.
    + apply term_eqb_eq in E. subst. split; [discriminate|intro H; exfalso; apply H; left; reflexivity].
    + apply term_eqb_neq in E. rewrite IH. split.
      * intros H [H1|H1]; [congruence|contradiction].
      * intros H H1. apply H. right. exact H1.
Qed.

Lemma alookup_Some_keys : forall k m v, alookup k m = Some v -> In k (map fst m).
Proof.
  intros k m v H. destruct (in_dec term_eq_dec k (map fst m)) as [Hi|Hn]; [exact Hi|].
  apply alookup_None_keys in Hn. congruence.
Qed.

Lemma idx_push_lookup_eq : forall k t m, alookup k (idx_push k t m) = Some (idx_get k m ++ [t]).
Proof.
  intros k t m. unfold idx_get. induction m as [|[k' v] r IH]; cbn [idx_push alookup].
  - rewrite term_eqb_refl. reflexivity.
  - destruct (term_eqb k k') eqn:E; cbn [alookup]; rewrite E; [reflexivity|exact IH].
Qed.

Lemma idx_push_lookup_ne : forall k k' t m, k <> k' -> alookup k' (idx_push k t m) = alookup k' m.
Proof.
  intros k k' t m Hne. induction m as [|[k2 v] r IH]; cbn [idx_push alookup].
  - assert (E : term_eqb k' k = false) by (apply term_eqb_neq; congruence). rewrite E. reflexivity.
  - destruct (term_eqb k k2) eqn:E; cbn [alookup].
    + apply term_eqb_eq in E. subst k2.
      assert (E' : term_eqb k' k = false) by (apply term_eqb_neq; congruence). rewrite E'. reflexivity.
    + destruct (term_eqb k' k2); [reflexivity|exact IH].
Qed.

Lemma idx_push_keys : forall k t m x, In x (map fst (idx_push k t m)) <-> x = k \/ In x (map fst m).
Proof.
  intros k t m x. induction m as [|[k' v] r IH]; cbn [idx_push map fst].
  - cbn [In]. split; [intros [H|[]]; left; congruence|intros [H|[]]; left; congruence].
  - destruct (term_eqb k k') eqn:E; cbn [map fst In].
    + apply term_eqb_eq in E. subst k'. split; [intros [H|H]; [right; left; exact H|right; right; exact H]|].
      intros [H|[H|H]]; [left; congruence|left; exact H|right; exact H].
    + rewrite IH. tauto.
Qed.

Lemma idx_push_NoDup : forall k t m, NoDup (map fst m) -> NoDup (map fst (idx_push k t m)).
Proof.
  intros k t m H. induction m as [|[k' v] r IH]; cbn [idx_push map fst].
  - constructor; [intros []|constructor].
  - cbn [map fst] in H. inversion H as [|? ? Hk Hr]; subst.
    destruct (term_eqb k k') eqn:E; cbn [map fst].
    + constructor; assumption.
    + constructor; [|apply IH; exact Hr]. rewrite idx_push_keys. intros [H1|H1]; [|contradiction].
      apply term_eqb_neq in E. congruence.
Qed.

Lemma idx_push_length : forall k t m,
  length (idx_push k t m) = if term_memb k (map fst m) then length m else S (length m).
Proof.
  intros k t m. induction m as [|[k' v] r IH]; cbn [idx_push map fst term_memb existsb length]; [reflexivity|].
  destruct (term_eqb k k') eqn:E; cbn [length orb]; [reflexivity|].
  rewrite IH. fold (term_memb k (map fst r)). destruct (term_memb k (map fst r)); reflexivity.
Qed.

Lemma idx_remove_lookup_ne : forall k k' t m, k <> k' -> alookup k' (idx_remove k t m) = alookup k' m.
Proof.
  intros k k' t m Hne. induction m as [|[k2 v] r IH]; cbn [idx_remove alookup]; [reflexivity|].
  destruct (term_eqb k k2) eqn:E.
  - apply term_eqb_eq in E. subst k2.
    assert (E' : term_eqb k' k = false) by (apply term_eqb_neq; congruence).
    destruct (is_nil _); cbn [alookup]; rewrite E'; reflexivity.
  - cbn [alookup]. destruct (term_eqb k' k2); [reflexivity|exact IH].
Qed.

Lemma idx_remove_lookup_eq : forall k t m, NoDup (map fst m) ->
  alookup k (idx_remove k t m) =
  match alookup k m with
  | Some v => let v' := filter (fun x => negb (triple_eqb x t)) v in if is_nil v' then None else Some v'
  | None => None
  end.
Proof.
  intros k t m H. induction m as [|[k2 v] r IH]; cbn [idx_remove alookup]; [reflexivity|].
  cbn [map fst] in H. inversion H as [|? ? Hk Hr]; subst.
  destruct (term_eqb k k2) eqn:E.
  - apply term_eqb_eq in E. subst k2. cbv zeta.
    destruct (is_nil (filter (fun x => negb (triple_eqb x t)) v)) eqn:En.
    + apply alookup_None_keys. exact Hk.
    + cbn [alookup]. rewrite term_eqb_refl. reflexivity.
  - cbn [alookup]. rewrite E. apply IH. exact Hr.
Qed.

Lemma idx_remove_keys_incl : forall k t m x, In x (map fst (idx_remove k t m)) -> In x (map fst m).
Proof.
  intros k t m x. induction m as [|[k2 v] r IH]; cbn [idx_remove map fst]; [tauto|].
  destruct (term_eqb k k2).
  - destruct (is_nil _); cbn [map fst In]; tauto.
  - cbn [map fst In]. intros [H|H]; [left; exact H|right; apply IH; exact H].
Qed.

Lemma idx_remove_NoDup : forall k t m, NoDup (map fst m) -> NoDup (map fst (idx_remove k t m)).
Proof.
  intros k t m H. induction m as [|[k2 v] r IH]; cbn [idx_remove map fst]; [constructor|].
  cbn [map fst] in H. inversion H as [|? ? Hk Hr]; subst.
  destruct (term_eqb k k2).
  - destruct (is_nil _); cbn [map fst]; [exact Hr|constructor; assumption].
  - cbn [map fst]. constructor; [|apply IH; exact Hr]. intro H1. apply Hk. eapply idx_remove_keys_incl. exact H1.
Qed.

(** * the invariant *)

Definition idx_ok (proj : triple -> term) (T : list triple) (m : amap) : Prop :=
  NoDup (map fst m) /\ forall x, entry_ok proj T m x.

Definition inv (s : store) : Prop :=
  NoDup (triples s) /\ idx_ok t_s (triples s) (sidx s) /\ idx_ok t_p (triples s) (pidx s) /\
  match oidx s with
  | Some m => cfg_obj s = true /\ idx_ok t_o (triples s) m
  | None => cfg_obj s = false
  end.

Lemma idx_ok_nil : forall proj, idx_ok proj [] [].
Proof. intro proj. split; [constructor|]. intros x. unfold entry_ok. cbn. intros t []. Qed.

Lemma inv_init : forall c, inv (init c).
Proof.
  intro c. unfold inv, init. cbn [triples sidx pidx oidx cfg_obj]. split; [constructor|].
  split; [apply idx_ok_nil|]. split; [apply idx_ok_nil|]. destruct c; [split; [reflexivity|apply idx_ok_nil]|reflexivity].
Qed.

Lemma idx_ok_push : forall proj T m t, idx_ok proj T m -> ~ In t T ->
  idx_ok proj (T ++ [t]) (idx_push (proj t) t m).
Proof.
  intros proj T m t [Hk He] Hn. split; [apply idx_push_NoDup; exact Hk|].
  intro x. unfold entry_ok. destruct (term_eq_dec (proj t) x) as [E|E].
  - subst x. rewrite idx_push_lookup_eq. specialize (He (proj t)). unfold entry_ok, idx_get in *.
    destruct (alookup (proj t) m) as [l|].
    + destruct He as [H1 [H2 H3]]. split; [destruct l; discriminate|]. split.
      * apply NoDup_app_one; [exact H2|]. intro H. apply H3 in H. tauto.
      * intro u. rewrite !in_app_iff, H3. cbn [In]. split.
        -- intros [[Ha Hb]|[Ha|[]]]; [tauto|subst; tauto].
        -- intros [[Ha|[Ha|[]]] Hb]; [left; tauto|right; left; exact Ha].
    + cbn [app]. split; [discriminate|]. split; [constructor; [intros []|constructor]|].
      intro u. rewrite in_app_iff. cbn [In]. split.
      * intros [Ha|[]]. subst. tauto.
      * intros [[Ha|[Ha|[]]] Hb]; [exfalso; eapply He; eassumption|left; exact Ha].
  - rewrite idx_push_lookup_ne by exact E. specialize (He x). unfold entry_ok in *.
    destruct (alookup x m) as [l|].
    + destruct He as [H1 [H2 H3]]. split; [exact H1|]. split; [exact H2|].
      intro u. rewrite H3, in_app_iff. cbn [In]. split; [tauto|].
      intros [[Ha|[Ha|[]]] Hb]; [tauto|subst; contradiction].
    + intro u. rewrite in_app_iff. cbn [In]. intros [Ha|[Ha|[]]]; [apply He; exact Ha|subst; exact E].
Qed.

Lemma idx_ok_remove : forall proj T m t, idx_ok proj T m -> In t T ->
  idx_ok proj (filter (fun x => negb (triple_eqb x t)) T) (idx_remove (proj t) t m).
Proof.
  intros proj T m t [Hk He] Hi. split; [apply idx_remove_NoDup; exact Hk|].
  intro x. unfold entry_ok. destruct (term_eq_dec (proj t) x) as [E|E].
  - subst x. rewrite idx_remove_lookup_eq by exact Hk. specialize (He (proj t)). unfold entry_ok in He.
    destruct (alookup (proj t) m) as [l|].
    + destruct He as [H1 [H2 H3]]. cbv zeta.
      destruct (is_nil (filter (fun x => negb (triple_eqb x t)) l)) eqn:En.
      * apply is_nil_spec in En. intros u Hu Hp. apply filter_neq_In in Hu. destruct Hu as [Hu Hne].
        assert (Hl : In u (filter (fun x => negb (triple_eqb x t)) l)).
        { apply filter_neq_In. split; [apply H3; tauto|exact Hne]. }
        rewrite En in Hl. exact Hl.
      * split; [intro H; rewrite H in En; discriminate|]. split; [apply NoDup_filter; exact H2|].
        intro u. rewrite !filter_neq_In, H3. tauto.
    + exfalso. eapply He; [exact Hi|reflexivity].
  - rewrite idx_remove_lookup_ne by exact E. specialize (He x). unfold entry_ok in *.
    destruct (alookup x m) as [l|].
    + destruct He as [H1 [H2 H3]]. split; [exact H1|]. split; [exact H2|].
      intro u. rewrite H3, filter_neq_In. split; [|tauto].
      intros [Ha Hb]. split; [split; [exact Ha|]|exact Hb]. intro; subst. contradiction.
    + intros u Hu. apply filter_neq_In in Hu. apply He. tauto.
Qed.

Lemma inv_insert : forall s t, inv s -> inv (fst (insert s t)).
Proof.
  intros s t [Hn [Hs [Hp Ho]]]. unfold insert. destruct (memb t (triples s)) eqn:E; cbn [fst].
  - exact (conj Hn (conj Hs (conj Hp Ho))).
  - apply memb_false in E. unfold inv. cbn [triples sidx pidx oidx cfg_obj].
    split; [apply NoDup_app_one; assumption|]. split; [apply idx_ok_push; assumption|].
    split; [apply idx_ok_push; assumption|].
    destruct (oidx s) as [m|].
    + destruct Ho as [Hc Hm]. rewrite Hc. split; [reflexivity|apply idx_ok_push; assumption].
    + rewrite Ho. reflexivity.
Qed.

Lemma inv_remove : forall s t, inv s -> inv (fst (remove s t)).
Proof.
  intros s t [Hn [Hs [Hp Ho]]]. unfold remove. destruct (memb t (triples s)) eqn:E; cbn [negb fst].
  - apply memb_In in E. unfold inv. cbn [triples sidx pidx oidx cfg_obj].
    split; [apply NoDup_filter; assumption|]. split; [apply idx_ok_remove; assumption|].
    split; [apply idx_ok_remove; assumption|].
    destruct (oidx s) as [m|].
    + destruct Ho as [Hc Hm]. rewrite Hc. split; [reflexivity|apply idx_ok_remove; assumption].
    + rewrite Ho. reflexivity.
  - exact (conj Hn (conj Hs (conj Hp Ho))).
Qed.

Lemma inv_clear : forall s, inv s -> inv (clear s).
Proof.
  intros s [Hn [Hs [Hp Ho]]]. unfold inv, clear. cbn [triples sidx pidx oidx cfg_obj].
  split; [constructor|]. split; [apply idx_ok_nil|]. split; [apply idx_ok_nil|].
  destruct (oidx s) as [m|]; [split; [tauto|apply idx_ok_nil]|exact Ho].
Qed.

Lemma inv_set_txbuf : forall s b, inv s -> inv (set_txbuf s b).
Proof. intros s b H. exact H. Qed.

Lemma inv_apply_pending : forall s o, inv s -> inv (apply_pending s o).
Proof. intros s [t|t] H; cbn [apply_pending]; [apply inv_insert|apply inv_remove]; exact H. Qed.

Lemma inv_fold_pending : forall ops s, inv s -> inv (fold_left apply_pending ops s).
Proof.
  induction ops as [|o ops IH]; intros s H; cbn [fold_left]; [exact H|].
  apply IH. apply inv_apply_pending. exact H.
Qed.

Lemma inv_step : forall s o, inv s -> inv (fst (step s o)).
Proof.
  intros s o H. destruct o; cbn [step]; try exact H.
  - pose proof (inv_insert s t H) as H1. destruct (insert s t). exact H1.
  - pose proof (inv_remove s t H) as H1. destruct (remove s t). exact H1.
  - apply inv_clear. exact H.
  - unfold commit_tx. cbn [fst]. apply inv_fold_pending. exact H.
Qed.

Lemma inv_run : forall ops s, inv s -> inv (run s ops).
Proof.
  unfold run. induction ops as [|o ops IH]; intros s H; cbn [fold_left]; [exact H|].
  apply IH. apply inv_step. exact H.
Qed.

Lemma inv_reach : forall c ops, inv (reach c ops).
Proof. intros c ops. apply inv_run. apply inv_init. Qed.

Lemma cfg_step : forall s o, cfg_obj (fst (step s o)) = cfg_obj s.
Proof.
  intros s o. destruct o; cbn [step]; try reflexivity.
  - unfold insert. destruct (memb t (triples s)); reflexivity.
  - unfold remove. destruct (negb (memb t (triples s))); reflexivity.
  - unfold commit_tx. cbn [fst].
    assert (G : forall ops s0, cfg_obj (fold_left apply_pending ops s0) = cfg_obj s0).
    { induction ops as [|o ops IH]; intro s0; cbn [fold_left]; [reflexivity|]. rewrite IH.
      destruct o as [t|t]; cbn [apply_pending]; [unfold insert; destruct (memb t (triples s0))|
                                                  unfold remove; destruct (negb (memb t (triples s0)))]; reflexivity. }
    rewrite G. reflexivity.
Qed.

Lemma cfg_reach : forall c ops, cfg_obj (reach c ops) = c.
Proof.
  intros c ops. unfold reach, run.
  assert (G : forall ops s, cfg_obj (fold_left (fun s o => fst (step s o)) ops s) = cfg_obj s).
  { induction ops0 as [|o ops0 IH]; intro s; cbn [fold_left]; [reflexivity|]. rewrite IH. apply cfg_step. }
  rewrite G. reflexivity.
Qed.

(** * idx_inv *)

Lemma idx_inv_l : forall c ops x,
  let s := reach c ops in
  NoDup (triples s) /\
  entry_ok t_s (triples s) (sidx s) x /\ entry_ok t_p (triples s) (pidx s) x /\
  (if c then exists m, oidx s = Some m /\ entry_ok t_o (triples s) m x else oidx s = None).
Proof.
  intros c ops x s. pose proof (inv_reach c ops) as [Hn [[_ Hs] [[_ Hp] Ho]]]. fold s in Hn, Hs, Hp, Ho.
  pose proof (cfg_reach c ops) as Hc. fold s in Hc.
  split; [exact Hn|]. split; [apply Hs|]. split; [apply Hp|].
  destruct (oidx s) as [m|].
  - destruct Ho as [Ho1 [_ Ho2]]. rewrite Hc in Ho1. subst c. exists m. split; [reflexivity|apply Ho2].
  - rewrite Hc in Ho. subst c. reflexivity.
Qed.

(** * find / triples_with_* *)

Lemma NoDup_Perm_filter : forall (f : triple -> bool) l T,
  NoDup l -> NoDup T -> (forall t, In t l <-> In t T /\ f t = true) -> Permutation l (filter f T).
Proof.
  intros f l T Hl HT H. apply NoDup_Permutation; [exact Hl|apply NoDup_filter; exact HT|].
  intro t. rewrite filter_In. apply H.
Qed.

Lemma idx_get_spec : forall proj T m x, idx_ok proj T m ->
  NoDup (idx_get x m) /\ forall t, In t (idx_get x m) <-> In t T /\ proj t = x.
Proof.
  intros proj T m x [_ He]. specialize (He x). unfold entry_ok, idx_get in *.
  destruct (alookup x m) as [l|].
  - tauto.
  - split; [constructor|]. intro t. cbn [In]. split; [intros []|]. intros [H1 H2]. eapply He; eassumption.
Qed.

Lemma filter_idx_spec : forall proj T m x (p : pattern),
  idx_ok proj T m -> NoDup T ->
  (forall t, matches p t = true -> proj t = x) ->
  NoDup (filter (matches p) (idx_get x m)) /\
  Permutation (filter (matches p) (idx_get x m)) (filter (matches p) T).
Proof.
  intros proj T m x p Hok HT Hm. destruct (idx_get_spec proj T m x Hok) as [Hn Hi].
  split; [apply NoDup_filter; exact Hn|].
  apply NoDup_Perm_filter; [apply NoDup_filter; exact Hn|exact HT|].
  intro t. rewrite filter_In, Hi. split; [tauto|]. intros [H1 H2]. split; [split; [exact H1|apply Hm; exact H2]|exact H2].
Qed.

Lemma find_spec_inv : forall s p, inv s ->
  NoDup (find s p) /\ Permutation (find s p) (filter (matches p) (triples s)).
Proof.
  intros s p [Hn [Hs [Hp Ho]]]. unfold find.
  destruct (p_s p) as [x|] eqn:Es.
  - apply (filter_idx_spec t_s); [exact Hs|exact Hn|]. intros t Ht. rewrite matches_spec in Ht.
    rewrite !andb_true_iff in Ht. destruct Ht as [[H1 _] _]. rewrite Es in H1. apply term_eqb_eq in H1. auto.
  - destruct (p_p p) as [x|] eqn:Ep.
    + apply (filter_idx_spec t_p); [exact Hp|exact Hn|]. intros t Ht. rewrite matches_spec in Ht.
      rewrite !andb_true_iff in Ht. destruct Ht as [[_ H1] _]. rewrite Ep in H1. apply term_eqb_eq in H1. auto.
    + destruct (p_o p) as [x|] eqn:Eo.
      * destruct (cfg_obj s) eqn:Ec.
        -- destruct (oidx s) as [m|]; [|congruence]. destruct Ho as [_ Ho].
           apply (filter_idx_spec t_o); [exact Ho|exact Hn|]. intros t Ht. rewrite matches_spec in Ht.
           rewrite !andb_true_iff in Ht. destruct Ht as [_ H1]. rewrite Eo in H1. apply term_eqb_eq in H1. auto.
        -- split; [apply NoDup_filter; exact Hn|apply Permutation_refl].
      * split; [apply NoDup_filter; exact Hn|apply Permutation_refl].
Qed.

Lemma with_spec_inv : forall s x, inv s ->
  (NoDup (with_subject s x) /\ Permutation (with_subject s x) (filter (fun t => term_eqb (t_s t) x) (triples s))) /\
  (NoDup (with_predicate s x) /\ Permutation (with_predicate s x) (filter (fun t => term_eqb (t_p t) x) (triples s))) /\
  (NoDup (with_object s x) /\ Permutation (with_object s x) (filter (fun t => term_eqb (t_o t) x) (triples s))).
Proof.
  intros s x [Hn [Hs [Hp Ho]]].
  assert (G : forall proj m, idx_ok proj (triples s) m ->
              NoDup (idx_get x m) /\ Permutation (idx_get x m) (filter (fun t => term_eqb (proj t) x) (triples s))).
  { intros proj m Hok. destruct (idx_get_spec proj (triples s) m x Hok) as [H1 H2]. split; [exact H1|].
    apply NoDup_Perm_filter; [exact H1|exact Hn|]. intro t. rewrite H2, term_eqb_eq. tauto. }
  split; [apply G; exact Hs|]. split; [apply G; exact Hp|].
  unfold with_object. destruct (oidx s) as [m|].
  - apply G. tauto.
  - split; [apply NoDup_filter; exact Hn|apply Permutation_refl].
Qed.

(** * set semantics *)

Lemma insert_spec_l : forall s t, inv s ->
  snd (insert s t) = negb (memb t (triples s)) /\
  (memb t (triples s) = true -> fst (insert s t) = s) /\
  (forall u, In u (triples (fst (insert s t))) <-> u = t \/ In u (triples s)).
Proof.
  intros s t H. unfold insert. destruct (memb t (triples s)) eqn:E; cbn [fst snd negb triples].
  - split; [reflexivity|]. split; [reflexivity|]. intro u. split; [tauto|]. intros [->|H1]; [apply memb_In; exact E|exact H1].
  - split; [reflexivity|]. split; [discriminate|]. intro u. rewrite in_app_iff. cbn [In]. split; [intros [H1|[H1|[]]]; auto|].
    intros [H1|H1]; [right; left; auto|left; exact H1].
Qed.

Lemma remove_spec_l : forall s t, inv s ->
  snd (remove s t) = memb t (triples s) /\
  (memb t (triples s) = false -> fst (remove s t) = s) /\
  (forall u, In u (triples (fst (remove s t))) <-> u <> t /\ In u (triples s)).
Proof.
  intros s t H. unfold remove. destruct (memb t (triples s)) eqn:E; cbn [fst snd negb triples].
  - split; [reflexivity|]. split; [discriminate|]. intro u. rewrite filter_neq_In. tauto.
  - split; [reflexivity|]. split; [reflexivity|]. intro u. split; [|tauto]. intro H1. split; [|exact H1].
    intro; subst. apply memb_false in E. contradiction.
Qed.

(** keys of a correct index = the distinct projections of the stored triples *)
Lemma dedup_terms_In : forall x l, In x (dedup_terms l) <-> In x l.
Proof.
  intros x l. induction l as [|y l IH]; cbn [dedup_terms]; [tauto|].
  destruct (term_memb y l) eqn:E.
  - apply term_memb_In in E. rewrite IH. cbn [In]. split; [tauto|]. intros [->|H]; [exact E|exact H].
  - cbn [In]. rewrite IH. tauto.
Qed.

Lemma dedup_terms_NoDup : forall l, NoDup (dedup_terms l).
Proof.
  induction l as [|y l IH]; cbn [dedup_terms]; [constructor|].
  destruct (term_memb y l) eqn:E; [exact IH|]. constructor; [|exact IH].
  rewrite dedup_terms_In. intro H. apply term_memb_In in H. congruence.
Qed.

Lemma idx_keys_spec : forall proj T m, idx_ok proj T m ->
  NoDup (map fst m) /\ forall x, In x (map fst m) <-> In x (map proj T).
Proof.
  intros proj T m [Hk He]. split; [exact Hk|]. intro x. specialize (He x). unfold entry_ok in He.
  destruct (alookup x m) as [l|] eqn:E.
  - destruct He as [H1 [H2 H3]]. split.
    + intros _. destruct l as [|t l]; [congruence|]. apply in_map_iff. exists t. specialize (H3 t). cbn [In] in H3. tauto.
    + intros _. eapply alookup_Some_keys. exact E.
  - split.
    + intro H. apply alookup_None_keys in E. contradiction.
    + intro H. apply in_map_iff in H. destruct H as [t [H1 H2]]. exfalso. eapply He; eassumption.
Qed.

Lemma idx_length_spec : forall proj T m, idx_ok proj T m ->
  Z.of_nat (length m) = distinct_count (map proj T).
Proof.
  intros proj T m H. destruct (idx_keys_spec proj T m H) as [H1 H2]. unfold distinct_count. f_equal.
  rewrite <- (map_length fst m). apply Permutation_length.
  apply NoDup_Permutation; [exact H1|apply dedup_terms_NoDup|]. intro x. rewrite H2, dedup_terms_In. tauto.
Qed.

Lemma stats_spec_inv : forall s, inv s ->
  len s = Z.of_nat (length (triples s)) /\ NoDup (triples s) /\
  get_stats s = Stats (Z.of_nat (length (triples s)))
                      (distinct_count (map t_s (triples s)))
                      (distinct_count (map t_p (triples s)))
                      (if cfg_obj s then distinct_count (map t_o (triples s)) else 0).
Proof.
  intros s [Hn [Hs [Hp Ho]]]. split; [reflexivity|]. split; [exact Hn|]. unfold get_stats, len.
  rewrite (idx_length_spec _ _ _ Hs), (idx_length_spec _ _ _ Hp). f_equal.
  destruct (cfg_obj s) eqn:Ec; [|reflexivity]. destruct (oidx s) as [m|]; [|congruence].
  destruct Ho as [_ Ho]. apply (idx_length_spec _ _ _ Ho).
Qed.

Lemma keys_spec_inv : forall s, inv s ->
  (NoDup (subjects s) /\ forall x, In x (subjects s) <-> In x (map t_s (triples s))) /\
  (NoDup (predicates s) /\ forall x, In x (predicates s) <-> In x (map t_p (triples s))) /\
  (NoDup (objects s) /\ forall x, In x (objects s) <-> In x (map t_o (triples s))).
Proof.
  intros s [Hn [Hs [Hp Ho]]]. split; [apply (idx_keys_spec _ _ _ Hs)|]. split; [apply (idx_keys_spec _ _ _ Hp)|].
  unfold objects. destruct (cfg_obj s) eqn:Ec.
  - destruct (oidx s) as [m|]; [|congruence]. destruct Ho as [_ Ho]. apply (idx_keys_spec _ _ _ Ho).
  - split; [apply dedup_terms_NoDup|]. intro x. apply dedup_terms_In.
Qed.

Lemma clear_spec_l : forall s, inv s ->
  clear s = Store (cfg_obj s) [] [] [] (if cfg_obj s then Some [] else None) (txbuf s).
Proof.
  intros s [_ [_ [_ Ho]]]. unfold clear. destruct (oidx s) as [m|]; [destruct Ho as [-> _]|rewrite Ho]; reflexivity.
Qed.

(** * transactions *)

Lemma fold_pending_run : forall ops s,
  fold_left apply_pending ops s = run s (map op_of_pending ops).
Proof.
  unfold run. induction ops as [|o ops IH]; intro s; cbn [fold_left map]; [reflexivity|].
  rewrite IH. f_equal. destruct o as [t|t]; cbn [op_of_pending step apply_pending].
  - destruct (insert s t); reflexivity.
  - destruct (remove s t); reflexivity.
Qed.

Lemma commit_is_replay_l : forall s tx,
  fst (commit_tx s tx) =
  run (set_txbuf s (buf_del tx (txbuf s)))
      (map op_of_pending (match buf_get tx (txbuf s) with Some l => l | None => [] end)) /\
  snd (commit_tx s tx) = Z.of_nat (length (match buf_get tx (txbuf s) with Some l => l | None => [] end)).
Proof. intros s tx. unfold commit_tx. cbn [fst snd]. rewrite fold_pending_run. split; reflexivity. Qed.

(** which operations can change the stored triples or the indexes *)
Definition mutates (o : op) : bool :=
  match o with Insert _ | Remove _ | Clear | CommitTx _ => true | _ => false end.

Lemma content_unchanged_l : forall s o, mutates o = false ->
  let s' := fst (step s o) in
  triples s' = triples s /\ sidx s' = sidx s /\ pidx s' = pidx s /\ oidx s' = oidx s /\ cfg_obj s' = cfg_obj s.
Proof. intros s o H. destruct o; try discriminate; cbn [step fst]; repeat split; reflexivity. Qed.

Lemma set_semantics_l : forall c ops t,
  let s := reach c ops in
  (snd (insert s t) = negb (memb t (triples s)) /\
   (memb t (triples s) = true -> fst (insert s t) = s) /\
   (forall u, In u (triples (fst (insert s t))) <-> u = t \/ In u (triples s))) /\
  (snd (remove s t) = memb t (triples s) /\
   (memb t (triples s) = false -> fst (remove s t) = s) /\
   (forall u, In u (triples (fst (remove s t))) <-> u <> t /\ In u (triples s))) /\
  clear s = Store c [] [] [] (if c then Some [] else None) (txbuf s).
Proof.
  intros c ops t s. pose proof (inv_reach c ops) as H. fold s in H.
  split; [apply insert_spec_l; exact H|]. split; [apply remove_spec_l; exact H|].
  rewrite (clear_spec_l s H). unfold s. rewrite cfg_reach. reflexivity.
Qed.

Lemma stats_spec_l : forall c ops,
  let s := reach c ops in
  len s = Z.of_nat (length (triples s)) /\ is_empty s = is_nil (triples s) /\
  (forall t, contains s t = true <-> In t (triples s)) /\
  get_stats s = Stats (Z.of_nat (length (triples s)))
                      (distinct_count (map t_s (triples s)))
                      (distinct_count (map t_p (triples s)))
                      (if c then distinct_count (map t_o (triples s)) else 0).
Proof.
  intros c ops s. pose proof (inv_reach c ops) as H. fold s in H.
  destruct (stats_spec_inv s H) as [H1 [_ H3]]. split; [exact H1|]. split; [reflexivity|].
  split; [intro t; apply memb_In|]. rewrite H3. unfold s. rewrite cfg_reach. reflexivity.
Qed.

Lemma keys_spec_l : forall c ops,
  let s := reach c ops in
  (NoDup (subjects s) /\ forall x, In x (subjects s) <-> In x (map t_s (triples s))) /\
  (NoDup (predicates s) /\ forall x, In x (predicates s) <-> In x (map t_p (triples s))) /\
  (NoDup (objects s) /\ forall x, In x (objects s) <-> In x (map t_o (triples s))).
Proof. intros c ops s. apply keys_spec_inv. apply inv_reach. Qed.
