(** C14 — forward/backward adjacency vs the live edge set. *)
From Coq Require Import ZArith Lia List Bool Permutation.
Import ListNotations.
From GV Require Import Base.Bits.
From GV Require Import Lpg.Model Lpg.Classes Lpg.ProofsBase Lpg.ProofsInv Lpg.ProofsCount Lpg.ProofsAdjList.
Open Scope Z_scope.

Definition raw_of (a : adjacency) (n : Z) : list (Z * Z) := match zget a n with Some l => al_raw l | None => [] end.
Definition tomb_of (a : adjacency) (n : Z) : list Z := match zget a n with Some l => a_del l | None => [] end.
Definition adj_wf (a : adjacency) : Prop := forall n l, zget a n = Some l -> al_wf l.

(** entries of the edge map seen from one end: [key] selects the list, [other] is what is stored *)
Definition entries (key other : erec -> Z) (es : list (Z * erec)) (n : Z) : list (Z * Z) :=
  filter_map (fun p => if key (snd p) =? n then Some (other (snd p), fst p) else None) es.

Record DirInv (a : adjacency) (es : list (Z * erec)) (key other : erec -> Z) : Prop := {
  d_raw : forall n, Permutation (raw_of a n) (entries key other es n);
  d_tomb : forall n id, In id (tomb_of a n) <-> exists r, zget es id = Some r /\ key r = n /\ e_deleted r <> None;
  d_wf : adj_wf a
}.

Definition al_op_ok (f : adjlist -> adjlist) : Prop :=
  forall l, al_wf l -> Permutation (al_raw (f l)) (al_raw l) /\ a_del (f l) = a_del l /\ al_wf (f l).

Lemma DirInv_map f a es key other : al_op_ok f -> DirInv a es key other ->
  DirInv (map (fun kl => (fst kl, f (snd kl))) a) es key other.
Proof.
  intros Hf [D1 D2 D3].
  assert (forall n, zget (map (fun kl => (fst kl, f (snd kl))) a) n = option_map f (zget a n)) as Z1
    by (intros n; apply (zget_map (fun _ l => f l) a n)).
  constructor.
  - intros n. unfold raw_of. rewrite Z1. specialize (D1 n). unfold raw_of in D1.
    destruct (zget a n) as [l|] eqn:E; cbn [option_map]; [|exact D1].
    destruct (Hf l (D3 n l E)) as (P & _ & _). rewrite P. exact D1.
  - intros n id. unfold tomb_of. rewrite Z1. specialize (D2 n id). unfold tomb_of in D2.
    destruct (zget a n) as [l|] eqn:E; cbn [option_map]; [|exact D2].
    destruct (Hf l (D3 n l E)) as (_ & P & _). rewrite P. exact D2.
  - intros n l. rewrite Z1. destruct (zget a n) as [l0|] eqn:E; cbn [option_map]; [|discriminate].
    intros H. inversion H. subst. apply (Hf l0 (D3 n l0 E)).
Qed.

Lemma al_wf_new : al_wf adjlist_new.
Proof. unfold al_wf, al_raw, wf_entries. cbn. constructor. Qed.

Lemma entries_app key other es es' n : entries key other (es ++ es') n = entries key other es n ++ entries key other es' n.
Proof. unfold entries. apply filter_map_app. Qed.

Lemma DirInv_add a es key other id rec :
  zget es id = None -> e_deleted rec = None -> in_u64 id -> in_u64 (other rec) ->
  DirInv a es key other -> DirInv (adj_add a (key rec) (other rec) id) (zset es id rec) key other.
Proof.
  intros Hfresh Hd Hid Ho [D1 D2 D3].
  set (l0 := match zget a (key rec) with Some l => l | None => adjlist_new end).
  assert (al_wf l0) as W0 by (unfold l0; destruct (zget a (key rec)) as [l|] eqn:E; [exact (D3 _ l E)|exact al_wf_new]).
  assert (al_raw l0 = raw_of a (key rec) /\ a_del l0 = tomb_of a (key rec)) as [R0 T0]
    by (unfold l0, raw_of, tomb_of; destruct (zget a (key rec)); split; reflexivity).
  destruct (al_add_spec l0 (other rec) id Ho Hid W0) as (P & Dl & W1).
  assert (forall n, zget (adj_add a (key rec) (other rec) id) n = if n =? key rec then Some (al_add l0 (other rec) id) else zget a n) as Z1
    by (intros n; unfold adj_add; fold l0; apply zget_zset).
  rewrite (zset_absent es id rec Hfresh).
  constructor.
  - intros n. rewrite entries_app. unfold raw_of. rewrite Z1. unfold entries at 2. cbn [filter_map fst snd].
    destruct (n =? key rec) eqn:Q.
    + apply Z.eqb_eq in Q. subst n. rewrite Z.eqb_refl. rewrite P. rewrite R0. rewrite (D1 (key rec)). apply Permutation_cons_append.
    + rewrite Z.eqb_sym, Q. rewrite app_nil_r. apply D1.
  - intros n id'. unfold tomb_of. rewrite Z1. rewrite <- (zset_absent es id rec Hfresh). rewrite zget_zset.
    assert (In id' (tomb_of a n) <-> In id' (match (if n =? key rec then Some (al_add l0 (other rec) id) else zget a n) with Some l => a_del l | None => [] end)) as <-.
    { destruct (n =? key rec) eqn:Q; [|reflexivity]. apply Z.eqb_eq in Q. subst n. rewrite Dl, T0. reflexivity. }
    rewrite D2. destruct (id' =? id) eqn:Q.
    + apply Z.eqb_eq in Q. subst id'. split.
      * intros [r [H _]]. congruence.
      * intros [r [H1 [_ H2]]]. inversion H1. subst. contradiction.
    + reflexivity.
  - intros n l. rewrite Z1. destruct (n =? key rec); [intros H; inversion H; subst; exact W1|apply D3].
Qed.

Lemma entries_zset_same key other es id r r' n :
  zget es id = Some r -> key r' = key r -> other r' = other r -> entries key other (zset es id r') n = entries key other es n.
Proof.
  intros E K O. destruct (zset_present_split es id r' r E) as (m1 & m2 & H1 & H2 & _).
  rewrite H2. rewrite H1. rewrite !entries_app. f_equal. unfold entries. cbn [filter_map fst snd]. rewrite K, O. reflexivity.
Qed.

Lemma DirInv_del a es key other id r r' :
  zget es id = Some r -> key r' = key r -> other r' = other r -> e_deleted r' <> None ->
  DirInv a es key other -> DirInv (adj_mark_deleted a (key r) id) (zset es id r') key other.
Proof.
  intros E K O Hd [D1 D2 D3].
  (* the list of [key r] exists: it holds the entry of the edge *)
  assert (exists l0, zget a (key r) = Some l0) as [l0 E0].
  { assert (In (other r, id) (entries key other es (key r))) as Hin.
    { unfold entries. apply In_filter_map. exists (id, r). split; [apply zget_In; exact E|]. cbn [fst snd]. rewrite Z.eqb_refl. reflexivity. }
    apply (Permutation_in _ (Permutation_sym (D1 (key r)))) in Hin. unfold raw_of in Hin.
    destruct (zget a (key r)) as [l|]; [exists l; reflexivity|destruct Hin]. }
  assert (forall n, zget (adj_mark_deleted a (key r) id) n = if n =? key r then Some (al_mark_deleted l0 id) else zget a n) as Z1
    by (intros n; unfold adj_mark_deleted; rewrite E0; apply zget_zset).
  constructor.
  - intros n. rewrite (entries_zset_same key other es id r r' n E K O). unfold raw_of. rewrite Z1. specialize (D1 n). unfold raw_of in D1.
    destruct (n =? key r) eqn:Q; [|exact D1]. apply Z.eqb_eq in Q. subst n. rewrite E0 in D1. exact D1.
  - intros n id'. unfold tomb_of. rewrite Z1. rewrite zget_zset. specialize (D2 n id'). unfold tomb_of in D2.
    destruct (n =? key r) eqn:Q.
    + apply Z.eqb_eq in Q. subst n. rewrite E0 in D2. cbn [al_mark_deleted a_del]. rewrite In_sadd. destruct (id' =? id) eqn:Q2.
      * apply Z.eqb_eq in Q2. subst id'. split; [intros _; exists r'; auto|intros _; left; reflexivity].
      * apply Z.eqb_neq in Q2. rewrite D2. split; [intros [H|H]; [contradiction|exact H]|intros H; right; exact H].
    + apply Z.eqb_neq in Q. rewrite D2. destruct (id' =? id) eqn:Q2; [|reflexivity].
      apply Z.eqb_eq in Q2. subst id'. split.
      * intros [r0 [H1 [H2 _]]]. rewrite E in H1. inversion H1. subst r0. congruence.
      * intros [r0 [H1 [H2 _]]]. inversion H1. subst r0. exfalso. apply Q. rewrite <- H2. exact K.
  - intros n l. rewrite Z1. destruct (n =? key r) eqn:Q; [|apply D3].
    apply Z.eqb_eq in Q. intros H. inversion H. subst. unfold al_wf. cbn [al_mark_deleted]. apply (D3 _ l0 E0).
Qed.

(** * the invariant of the store *)
Definition EdgesWf (s : state) : Prop :=
  forall id r, zget (edges s) id = Some r -> in_u64 id /\ in_u64 (e_src r) /\ in_u64 (e_dst r).

Record AdjInv (s : state) : Prop := {
  a_fwd : DirInv (fwd s) (edges s) e_src e_dst;
  a_bwd : cfg_backward s = true -> DirInv (bwd s) (edges s) e_dst e_src;
  a_ewf : EdgesWf s
}.

Lemma AdjInv_view s s' : aview s' = aview s -> AdjInv s -> AdjInv s'.
Proof.
  unfold aview. intros E [H1 H2 H3]. injection E as E1 E2 E3 E4 E5. constructor; unfold EdgesWf in *; rewrite ?E1, ?E3, ?E4, ?E5; assumption.
Qed.

Lemma DirInv_empty key other : DirInv [] [] key other.
Proof.
  constructor.
  - intros n. cbn. constructor.
  - intros n id. cbn. split; [intros []|intros [r [H _]]; discriminate].
  - intros n l H. discriminate.
Qed.

Lemma AdjInv_init b : AdjInv (init b).
Proof. constructor; cbn; [apply DirInv_empty|intros _; apply DirInv_empty|intros id r H; discriminate]. Qed.

Lemma AdjInv_delete_edge s e : BaseInv s -> AdjInv s -> AdjInv (fst (do_delete_edge s e)).
Proof.
  intros B [F Bw W]. unfold do_delete_edge. psimpl.
  destruct (zget (edges s) e) as [r|] eqn:E; [|constructor; psimpl; assumption].
  destruct (erec_vis r (epoch s)) eqn:V; [|constructor; psimpl; assumption]. psimpl.
  set (r' := {| e_src := e_src r; e_dst := e_dst r; e_ty := e_ty r; e_created := e_created r; e_deleted := mark_del (e_deleted r) (epoch s) |}).
  assert (e_deleted r' <> None) as Hd by (unfold r', mark_del; cbn; destruct (e_deleted r); discriminate).
  constructor; psimpl.
  - apply (DirInv_del (fwd s) (edges s) e_src e_dst e r r' E eq_refl eq_refl Hd F).
  - intros C. rewrite C. apply (DirInv_del (bwd s) (edges s) e_dst e_src e r r' E eq_refl eq_refl Hd (Bw C)).
  - unfold EdgesWf. psimpl. intros id r0. rewrite zget_zset. destruct (id =? e) eqn:Q; [|apply W].
    apply Z.eqb_eq in Q. subst id. intros H. inversion H. subst r0. cbn. apply (W e r E).
Qed.

Lemma al_op_ok_compact : al_op_ok al_compact.
Proof. intros l W. apply al_compact_spec. exact W. Qed.
Lemma al_op_ok_freeze : al_op_ok al_freeze.
Proof. intros l W. apply al_freeze_spec. exact W. Qed.
Lemma al_op_ok_cond : al_op_ok (fun l => if DELTA_COMPACTION_THRESHOLD <=? Z.of_nat (length (a_delta l)) then al_compact l else l).
Proof. intros l W. destruct (_ <=? _); [apply al_compact_spec; exact W|split; [reflexivity|split; [reflexivity|exact W]]]. Qed.

Lemma AdjInv_step s o : BaseInv s -> op_wf o -> next_edge s < two64 -> AdjInv s -> AdjInv (fst (step s o)).
Proof.
  intros B Wf Hn A. destruct (touches_aview o) eqn:T; [|apply (AdjInv_view s); [apply aview_frame; exact T|exact A]].
  destruct o; cbn [touches_aview] in T; try discriminate; clear T; cbn [step].
  - (* DeleteNodeEdges *)
    unfold do_delete_node_edges. cbn [fst].
    match goal with |- context [fold_left ?f ?l s] =>
      assert (BaseInv (fold_left f l s) /\ AdjInv (fold_left f l s)) as [_ R]; [|exact R];
      apply (fold_left_inv (fun st => BaseInv st /\ AdjInv st)); [|split; assumption]
    end.
    intros st e [B1 A1]. split; [apply BaseInv_delete_edge; exact B1|apply AdjInv_delete_edge; assumption].
  - (* CreateEdge *)
    cbn [op_wf] in Wf. destruct Wf as [Ws Wd].
    unfold do_create_edge. psimpl. destruct (get_or_create (ety_names s) ty) as [tys tid]. psimpl.
    destruct A as [F Bw W].
    assert (zget (edges s) (next_edge s) = None) as Hfresh.
    { destruct (zget (edges s) (next_edge s)) as [r|] eqn:E; [|reflexivity]. destruct (b_edges s B _ _ E) as (P & _). lia. }
    assert (in_u64 (next_edge s)) as Hid by (destruct (b_next s B); unfold in_u64; lia).
    set (rec := {| e_src := src; e_dst := dst; e_ty := tid; e_created := epoch s; e_deleted := None |}).
    constructor; psimpl.
    + apply (DirInv_add (fwd s) (edges s) e_src e_dst (next_edge s) rec Hfresh eq_refl Hid Wd F).
    + intros C. rewrite C. apply (DirInv_add (bwd s) (edges s) e_dst e_src (next_edge s) rec Hfresh eq_refl Hid Ws (Bw C)).
    + unfold EdgesWf. psimpl. intros id r. rewrite zget_zset. destruct (id =? next_edge s) eqn:Q; [|apply W].
      apply Z.eqb_eq in Q. subst id. intros H. inversion H. subst r. cbn. auto.
  - (* DeleteEdge *) apply AdjInv_delete_edge; assumption.
  - (* Compact *)
    destruct A as [F Bw W]. constructor; psimpl; [apply DirInv_map; [apply al_op_ok_compact|exact F]| |exact W].
    intros C. apply DirInv_map; [apply al_op_ok_compact|exact (Bw C)].
  - (* CompactIfNeeded *)
    destruct A as [F Bw W]. constructor; psimpl; [apply (DirInv_map _ _ _ _ _ al_op_ok_cond F)| |exact W].
    intros C. apply (DirInv_map _ _ _ _ _ al_op_ok_cond (Bw C)).
  - (* FreezeAll *)
    destruct A as [F Bw W]. constructor; psimpl; [apply DirInv_map; [apply al_op_ok_freeze|exact F]| |exact W].
    intros C. apply DirInv_map; [apply al_op_ok_freeze|exact (Bw C)].
  - (* NewEpoch *) destruct A as [F Bw W]. constructor; psimpl; assumption.
Qed.

Lemma next_edge_step s o : next_edge (fst (step s o)) <= next_edge s + 1.
Proof.
  destruct (touches_bview o) eqn:T.
  2:{ pose proof (bview_frame s o T) as F. unfold bview in F. injection F as F1 F2 F3 F4 F5 F6. lia. }
  destruct o; cbn [touches_bview] in T; try discriminate; cbn [step].
  - unfold do_create_node. psimpl. destruct (create_node_labels (lab_names s) (lab_index s) [] (next_node s) labels) as [[a b] c]. psimpl. lia.
  - unfold do_delete_node. psimpl. destruct (zget (nodes s) n) as [r|]; [|psimpl; lia].
    destruct (nrec_vis r (epoch s)); [|psimpl; lia]. psimpl. destruct (zget (node_labels s) n); psimpl; lia.
  - unfold do_delete_node_edges. cbn [fst].
    match goal with |- context [fold_left ?f ?l s] => destruct (fold_delete_edge_frame l s) as (_ & _ & A3 & _); cbv zeta in A3; rewrite A3 end. lia.
  - unfold do_create_edge. psimpl. destruct (get_or_create (ety_names s) ty). psimpl. lia.
  - destruct (do_delete_edge_frame s e) as (_ & _ & A3 & _). cbv zeta in A3. rewrite A3. lia.
  - psimpl. lia.
Qed.

Lemma AdjInv_run_gen ops : forall s, BaseInv s -> AdjInv s -> Forall op_wf ops ->
  next_edge s + Z.of_nat (length ops) <= two64 -> BaseInv (run s ops) /\ AdjInv (run s ops).
Proof.
  induction ops as [|o r IH]; intros s B A W Hn; [split; assumption|].
  inversion W as [|? ? Wo Wr]. subst. rewrite run_cons. cbn [length] in Hn. apply IH.
  - apply BaseInv_step. exact B.
  - apply AdjInv_step; try assumption. lia.
  - exact Wr.
  - pose proof (next_edge_step s o). lia.
Qed.

Lemma AdjInv_run b ops : hist_wf ops -> BaseInv (run (init b) ops) /\ AdjInv (run (init b) ops).
Proof.
  intros [W L]. apply AdjInv_run_gen; [apply BaseInv_init|apply AdjInv_init|exact W|cbn [next_edge init]; lia].
Qed.

Lemma cfg_step s o : cfg_backward (fst (step s o)) = cfg_backward s.
Proof.
  destruct (touches_aview o) eqn:T.
  2:{ pose proof (aview_frame s o T) as F. unfold aview in F. injection F as F1 F2 F3 F4 F5. exact F5. }
  destruct o; cbn [touches_aview] in T; try discriminate; cbn [step]; try reflexivity.
  - unfold do_delete_node_edges. cbn [fst].
    match goal with |- context [fold_left ?f ?l s] => destruct (fold_delete_edge_frame l s) as (_ & _ & _ & _ & _ & _ & _ & _ & _ & _ & A11 & _) end.
    exact A11.
  - unfold do_create_edge. psimpl. destruct (get_or_create (ety_names s) ty). psimpl. reflexivity.
  - destruct (do_delete_edge_frame s e) as (_ & _ & _ & _ & _ & _ & _ & _ & _ & _ & A11 & _). exact A11.
Qed.
Lemma cfg_run b ops : cfg_backward (run (init b) ops) = b.
Proof. apply (run_inv (fun s => cfg_backward s = b)); [intros s o H; rewrite cfg_step; exact H|reflexivity]. Qed.

(** * from the invariant to the accessors *)
Lemma live_entries key other s a n : BaseInv s -> DirInv a (edges s) key other ->
  Permutation (adj_edges_from a n) (entries key other (live_edges s) n).
Proof.
  intros B [D1 D2 D3]. unfold adj_edges_from.
  assert (al_iter_eq : (match zget a n with Some l => al_iter l | None => [] end)
                       = filter (fun p => negb (mem (snd p) (tomb_of a n))) (raw_of a n)).
  { unfold tomb_of, raw_of. destruct (zget a n); reflexivity. }
  rewrite al_iter_eq. rewrite (Permutation_filter _ _ _ (D1 n)).
  unfold entries, live_edges. rewrite filter_filter_map, filter_map_filter.
  rewrite (filter_map_ext_in _ (fun p => if erec_vis (snd p) (epoch s) then if key (snd p) =? n then Some (other (snd p), fst p) else None else None)); [reflexivity|].
  intros [id r] Hin. cbn [fst snd]. pose proof (In_zget _ _ _ (b_nd_edges s B) Hin) as E.
  rewrite (erec_vis_iff s id r B E).
  destruct (key r =? n) eqn:Q; [|destruct (e_deleted r); reflexivity].
  apply Z.eqb_eq in Q. cbn [snd].
  destruct (e_deleted r) as [d|] eqn:Dl.
  - replace (mem id (tomb_of a n)) with true; [reflexivity|]. symmetry. apply mem_In. apply D2. exists r. split; [exact E|split; [exact Q|congruence]].
  - replace (mem id (tomb_of a n)) with false; [reflexivity|]. symmetry. apply mem_false. intros H. apply D2 in H.
    destruct H as [r0 [H1 [_ H3]]]. rewrite E in H1. inversion H1. subst. contradiction.
Qed.

Lemma edges_to_fallback s n : BaseInv s ->
  filter_map (fun q => match q with (id, a, b, _) => if b =? n then Some (a, id) else None end) (all_edges s)
  = in_entries (live_edges s) n.
Proof.
  intros B. rewrite (all_edges_map s B). rewrite filter_map_map. unfold in_entries. apply filter_map_ext_in. intros [id r] _. reflexivity.
Qed.

Lemma in_degree_fallback s n : BaseInv s ->
  Z.of_nat (length (filter (fun q => match q with (_, _, b, _) => b =? n end) (all_edges s)))
  = Z.of_nat (length (in_entries (live_edges s) n)).
Proof.
  intros B. rewrite (all_edges_map s B). f_equal. unfold in_entries.
  induction (live_edges s) as [|[id r] rest IH]; cbn [map filter filter_map fst snd]; [reflexivity|].
  destruct (e_dst r =? n); cbn [length]; rewrite IH; reflexivity.
Qed.

Lemma adj_spec_inv s n : BaseInv s -> AdjInv s ->
  Permutation (edges_from s n Outgoing) (out_entries (live_edges s) n) /\
  out_degree s n = Z.of_nat (length (out_entries (live_edges s) n)) /\
  Permutation (neighbors s n Outgoing) (map fst (out_entries (live_edges s) n)) /\
  Permutation (edges_to s n) (in_entries (live_edges s) n) /\
  in_degree s n = Z.of_nat (length (in_entries (live_edges s) n)) /\
  (cfg_backward s = true ->
     Permutation (edges_from s n Incoming) (in_entries (live_edges s) n) /\
     Permutation (edges_from s n Both) (out_entries (live_edges s) n ++ in_entries (live_edges s) n) /\
     Permutation (neighbors s n Incoming) (map fst (in_entries (live_edges s) n))).
Proof.
  intros B [F Bw W].
  pose proof (live_entries e_src e_dst s (fwd s) n B F) as PO. fold (out_entries (live_edges s) n) in PO.
  assert (Permutation (edges_from s n Outgoing) (out_entries (live_edges s) n)) as P1
    by (unfold edges_from; rewrite app_nil_r; exact PO).
  split; [exact P1|]. split; [unfold out_degree, adj_degree; f_equal; apply Permutation_length; exact PO|].
  split; [unfold neighbors; apply Permutation_map; exact P1|].
  destruct (cfg_backward s) eqn:C.
  - pose proof (live_entries e_dst e_src s (bwd s) n B (Bw eq_refl)) as PI. fold (in_entries (live_edges s) n) in PI.
    split; [unfold edges_to; rewrite C; exact PI|].
    split; [unfold in_degree, adj_degree; rewrite C; f_equal; apply Permutation_length; exact PI|].
    intros _. split; [unfold edges_from; rewrite C; exact PI|].
    split; [unfold edges_from; rewrite C; apply Permutation_app; assumption|].
    unfold neighbors, edges_from. rewrite C. apply Permutation_map. exact PI.
  - split; [unfold edges_to; rewrite C; rewrite (edges_to_fallback s n B); reflexivity|].
    split; [unfold in_degree; rewrite C; apply in_degree_fallback; exact B|discriminate].
Qed.
