(** C14 — find_nodes_by_properties (a conjunction of equalities evaluated through the property
    indexes where there are any) = the scan of the conjunction. *)
From Coq Require Import ZArith Lia List Bool Permutation.
Import ListNotations.
From GV Require Import Lpg.Model Lpg.Classes Lpg.ProofsBase Lpg.ProofsInv Lpg.ProofsLabel Lpg.ProofsIndex.
Open Scope Z_scope.

Definition idx_matches (s : state) (c : Z * value) : option (list Z) :=
  match (if has_float_special (snd c) then None else zget (pidx s) (fst c)) with
  | Some ix => Some (match vget ix (snd c) with Some ns => ns | None => [] end)
  | None => None
  end.

(** the condition at position [j] of a list whose first position is [i] *)
Inductive at_idx : list (Z * value) -> Z -> Z -> (Z * value) -> Prop :=
| at_here c r i : at_idx (c :: r) i i c
| at_next c' r i j c : at_idx r (i + 1) j c -> at_idx (c' :: r) i j c.

Lemma at_idx_ge l i j c : at_idx l i j c -> i <= j.
Proof. induction 1; lia. Qed.
Lemma at_idx_In l i j c : at_idx l i j c -> In c l.
Proof. induction 1; [left; reflexivity|right; assumption]. Qed.

Lemma best_start_spec s conds : forall i best,
  match best_start s conds i best with
  | None => exists c, In c conds /\ idx_matches s c = Some []
  | Some None => best = None /\ forall c, In c conds -> idx_matches s c = None
  | Some (Some (j, m)) => best = Some (j, m) \/ exists c, at_idx conds i j c /\ idx_matches s c = Some m
  end.
Proof.
  induction conds as [|c r IH]; intros i best; cbn [best_start].
  - destruct best as [[j m]|]; [left; reflexivity|split; [reflexivity|intros c []]].
  - unfold idx_matches in *. destruct (if has_float_special (snd c) then None else zget (pidx s) (fst c)) as [ix|] eqn:E.
    + set (m := match vget ix (snd c) with Some ns => ns | None => [] end) in *.
      destruct m as [|m0 mr] eqn:M.
      * exists c. split; [left; reflexivity|]. rewrite E. fold m. rewrite M. reflexivity.
      * set (best' := if match best with None => true | Some (_, b) => Z.of_nat (length (m0 :: mr)) <? Z.of_nat (length b) end
                      then Some (i, m0 :: mr) else best).
        specialize (IH (i + 1) best'). destruct (best_start s r (i + 1) best') as [[[j mm]|]|].
        -- destruct IH as [IH|[c' [A B]]].
           ++ unfold best' in IH. revert IH.
              destruct (match best with None => true | Some (_, b) => Z.of_nat (length (m0 :: mr)) <? Z.of_nat (length b) end); intros IH.
              ** injection IH as <- <-. right. exists c. split; [constructor|]. rewrite E. fold m. rewrite M. reflexivity.
              ** left. exact IH.
           ++ right. exists c'. split; [constructor; exact A|exact B].
        -- destruct IH as [IH _]. unfold best' in IH. exfalso. revert IH.
           destruct best as [[bj bm]|]; [|discriminate].
           destruct (Z.of_nat (length (m0 :: mr)) <? Z.of_nat (length bm)); discriminate.
        -- destruct IH as [c' [A B]]. exists c'. split; [right; exact A|exact B].
    + specialize (IH (i + 1) best). destruct (best_start s r (i + 1) best) as [[[j mm]|]|].
      * destruct IH as [IH|[c' [A B]]]; [left; exact IH|right; exists c'; split; [constructor; exact A|exact B]].
      * destruct IH as [IH1 IH2]. split; [exact IH1|]. intros c' [<-|H]; [rewrite E; reflexivity|apply IH2; exact H].
      * destruct IH as [c' [A B]]. exists c'. split; [right; exact A|exact B].
Qed.

Lemma filter_conds_sub s conds : forall i start cands n, In n (filter_conds s conds i start cands) -> In n cands.
Proof.
  induction conds as [|c r IH]; intros i start cands n H; cbn [filter_conds] in H; [exact H|].
  apply IH in H. destruct (i =? start); [exact H|]. apply filter_In in H. apply H.
Qed.

Lemma filter_conds_all s conds : forall i start cands n, start < i ->
  (In n (filter_conds s conds i start cands) <-> In n cands /\ forall c, In c conds -> cond_holds s c n = true).
Proof.
  induction conds as [|c r IH]; intros i start cands n H; cbn [filter_conds].
  - split; [intros A; split; [exact A|intros c []]|intros [A _]; exact A].
  - destruct (i =? start) eqn:E; [apply Z.eqb_eq in E; lia|]. rewrite (IH (i + 1) start _ n ltac:(lia)). rewrite filter_In. split.
    + intros [[A B] C]. split; [exact A|]. intros c' [<-|D]; [exact B|apply C; exact D].
    + intros [A B]. split; [split; [exact A|apply B; left; reflexivity]|]. intros c' D. apply B. right. exact D.
Qed.

Lemma filter_conds_at s conds i j cj : at_idx conds i j cj -> forall cands n,
  (In n (filter_conds s conds i j cands) /\ cond_holds s cj n = true
   <-> In n cands /\ forall c, In c conds -> cond_holds s c n = true).
Proof.
  induction 1 as [c r i|c' r i j c A IH]; intros cands n; cbn [filter_conds].
  - rewrite Z.eqb_refl. rewrite (filter_conds_all s r (i + 1) i cands n ltac:(lia)). split.
    + intros [[A B] C]. split; [exact A|]. intros c' [<-|D]; [exact C|apply B; exact D].
    + intros [A B]. split; [split; [exact A|]|apply B; left; reflexivity]. intros c' D. apply B. right. exact D.
  - pose proof (at_idx_ge _ _ _ _ A) as G. destruct (i =? j) eqn:E; [apply Z.eqb_eq in E; lia|].
    rewrite (IH (filter (cond_holds s c') cands) n). rewrite filter_In. split.
    + intros [[P Q] R]. split; [exact P|]. intros c0 [<-|D]; [exact Q|apply R; exact D].
    + intros [P Q]. split; [split; [exact P|apply Q; left; reflexivity]|]. intros c0 D. apply Q. right. exact D.
Qed.

Lemma In_scan_by_props s conds n : BaseInv s ->
  (In n (scan_by_props s conds) <-> node_live s n = true /\ forall c, In c conds -> cond_holds s c n = true).
Proof.
  intros B. unfold scan_by_props. rewrite filter_In, (In_node_ids s n B), forallb_forall. reflexivity.
Qed.

Lemma cond_holds_scan s c n : BaseInv s -> (In n (scan_by_prop s (fst c) (snd c)) <-> node_live s n = true /\ cond_holds s c n = true).
Proof.
  intros B. rewrite (In_scan_by_prop s (fst c) (snd c) n B). unfold cond_holds. split.
  - intros [L [x [G E]]]. split; [exact L|]. rewrite G. exact E.
  - intros [L H]. split; [exact L|]. destruct (ps_get (nprops s) n (fst c)) as [x|]; [exists x; auto|discriminate H].
Qed.

Lemma idx_matches_find s c m : idx_matches s c = Some m -> find_by_prop s (fst c) (snd c) = m.
Proof.
  unfold idx_matches, find_by_prop. destruct (has_float_special (snd c)); [discriminate|].
  destruct (zget (pidx s) (fst c)); [intros H; injection H as <-; reflexivity|discriminate].
Qed.

Lemma find_by_props_ok s conds : BaseInv s -> PropsLive s -> IdxInv s ->
  forall n, In n (find_by_props s conds) <-> In n (scan_by_props s conds).
Proof.
  intros B PL IX n. rewrite (In_scan_by_props s conds n B). unfold find_by_props.
  destruct conds as [|c0 r] eqn:EC.
  - rewrite (In_node_ids s n B). split; [intros H; split; [exact H|intros c []]|intros [H _]; exact H].
  - rewrite <- EC in *. pose proof (best_start_spec s conds 0 None) as BS.
    destruct (best_start s conds 0 None) as [[[j m]|]|].
    + destruct BS as [BS|[c [A M]]]; [discriminate BS|].
      pose proof (idx_matches_find s c m M) as F.
      destruct (index_ok_inv s (fst c) (snd c) B PL IX) as [_ OK].
      rewrite F in OK. split.
      * intros H. assert (Hm : In n m) by (eapply filter_conds_sub; exact H).
        apply OK in Hm. apply (cond_holds_scan s c n B) in Hm. destruct Hm as [L CH]. split; [exact L|].
        apply (proj1 (filter_conds_at s conds 0 j c A m n)). split; assumption.
      * intros [L ALL]. pose proof (proj2 (filter_conds_at s conds 0 j c A m n)) as R.
        apply R. split; [|exact ALL]. apply OK. apply (cond_holds_scan s c n B). split; [exact L|apply ALL; eapply at_idx_In; exact A].
    + destruct BS as [_ NI]. assert (A : at_idx conds 0 0 c0) by (rewrite EC; constructor).
      destruct (index_ok_inv s (fst c0) (snd c0) B PL IX) as [_ OK].
      split.
      * intros H. assert (Hm : In n (find_by_prop s (fst c0) (snd c0))) by (eapply filter_conds_sub; exact H).
        apply OK in Hm. apply (cond_holds_scan s c0 n B) in Hm. destruct Hm as [L CH]. split; [exact L|].
        apply (proj1 (filter_conds_at s conds 0 0 c0 A (find_by_prop s (fst c0) (snd c0)) n)). split; assumption.
      * intros [L ALL]. apply (proj2 (filter_conds_at s conds 0 0 c0 A (find_by_prop s (fst c0) (snd c0)) n)). split; [|exact ALL].
        apply OK. apply (cond_holds_scan s c0 n B). split; [exact L|apply ALL; eapply at_idx_In; exact A].
    + destruct BS as [c [A M]]. split; [intros []|]. intros [L ALL]. exfalso.
      pose proof (idx_matches_find s c [] M) as F.
      destruct (index_ok_inv s (fst c) (snd c) B PL IX) as [_ OK]. rewrite F in OK.
      apply (OK n). apply (cond_holds_scan s c n B). split; [exact L|apply ALL; exact A].
Qed.

Lemma find_by_props_ok_l b ops conds :
  hist_sets_dead (init b) ops = false ->
  let s := run (init b) ops in forall n, In n (find_by_props s conds) <-> In n (scan_by_props s conds).
Proof. intros H. cbv zeta. destruct (PI_run b ops H) as (B & P & I). apply find_by_props_ok; assumption. Qed.
