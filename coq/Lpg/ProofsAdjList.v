(** C14 — one adjacency list: chunk filling, delta compaction, hot->cold compression and
    freezing preserve the multiset of entries (using the codec theorems of C15). *)
From Coq Require Import ZArith Lia List Bool Permutation.
Import ListNotations.
From GV Require Import Base.Bits Base.BitsFacts Codec.Model Codec.Proofs.
From GV Require Import Lpg.Model Lpg.Classes Lpg.ProofsBase.
Open Scope Z_scope.

Definition wf_entry (p : Z * Z) : Prop := in_u64 (fst p) /\ in_u64 (snd p).
Definition wf_entries (l : list (Z * Z)) : Prop := Forall wf_entry l.

(** * sorting by destination *)
Lemma ins_by_dst_perm x l : Permutation (ins_by_dst x l) (x :: l).
Proof.
  induction l as [|y r IH]; cbn [ins_by_dst]; [reflexivity|].
  destruct (fst x <=? fst y); [reflexivity|]. rewrite IH. apply perm_swap.
Qed.
Lemma sort_by_dst_perm l : Permutation (sort_by_dst l) l.
Proof.
  unfold sort_by_dst. induction l as [|x r IH]; cbn [fold_right]; [reflexivity|].
  rewrite ins_by_dst_perm. constructor. exact IH.
Qed.

Lemma sortedb_cons' a l : sortedb (a :: l) = match l with [] => true | b :: _ => (a <=? b) && sortedb l end.
Proof. destruct l; reflexivity. Qed.

Lemma ins_by_dst_sorted x l : sortedb (map fst l) = true -> sortedb (map fst (ins_by_dst x l)) = true.
Proof.
  induction l as [|y r IH]; cbn [ins_by_dst map]; intros H; [reflexivity|].
  destruct (fst x <=? fst y) eqn:E.
  - cbn [map]. rewrite sortedb_cons'. cbn [map] in H. rewrite E. cbn [andb]. exact H.
  - cbn [map]. rewrite sortedb_cons' in H. rewrite sortedb_cons'.
    destruct r as [|z r'].
    + cbn [ins_by_dst map]. rewrite sortedb_cons'. apply Z.leb_gt in E.
      replace (fst y <=? fst x) with true by (symmetry; apply Z.leb_le; lia). reflexivity.
    + cbn [map] in H. apply andb_true_iff in H. destruct H as [H1 H2].
      specialize (IH H2). cbn [ins_by_dst] in *. destruct (fst x <=? fst z) eqn:E2.
      * cbn [map] in *. apply Z.leb_gt in E.
        replace (fst y <=? fst x) with true by (symmetry; apply Z.leb_le; lia). cbn [andb]. exact IH.
      * cbn [map] in *. rewrite H1. cbn [andb]. exact IH.
Qed.
Lemma sort_by_dst_sorted l : sortedb (map fst (sort_by_dst l)) = true.
Proof.
  unfold sort_by_dst. induction l as [|x r IH]; cbn [fold_right]; [reflexivity|]. apply ins_by_dst_sorted. exact IH.
Qed.

Lemma wf_entries_perm l l' : Permutation l l' -> wf_entries l -> wf_entries l'.
Proof. intros P H. unfold wf_entries in *. eapply Permutation_Forall; eassumption. Qed.

Lemma combine_fst_snd {A B} (l : list (A * B)) : combine (map fst l) (map snd l) = l.
Proof. induction l as [|[a b] r IH]; cbn [map combine fst snd]; [reflexivity|]. rewrite IH. reflexivity. Qed.

(** * a compressed chunk decodes to the chunk sorted by destination *)
Lemma cchunk_roundtrip c : wf_entries c -> cchunk_iter (chunk_compress c) = sort_by_dst c.
Proof.
  intros W. unfold cchunk_iter, chunk_compress. cbn [cc_dsts cc_eids].
  assert (wf_entries (sort_by_dst c)) as W' by (eapply wf_entries_perm; [symmetry; apply sort_by_dst_perm|exact W]).
  rewrite dbp_rt_l.
  - rewrite unpack_pack_l; [apply combine_fst_snd|].
    unfold wf_entries in W'. rewrite Forall_forall in *. intros x Hx. apply in_map_iff in Hx. destruct Hx as [p [<- Hp]]. apply (W' p Hp).
  - apply sort_by_dst_sorted.
  - unfold wf_entries in W'. rewrite Forall_forall in *. intros x Hx. apply in_map_iff in Hx. destruct Hx as [p [<- Hp]]. apply (W' p Hp).
Qed.
Lemma cchunk_perm c : wf_entries c -> Permutation (cchunk_iter (chunk_compress c)) c.
Proof. intros W. rewrite (cchunk_roundtrip c W). apply sort_by_dst_perm. Qed.

(** * the chunk-filling loop of compact *)
Lemma fill_chunks_concat ds : forall done cur d' c',
  fill_chunks done cur ds = (d', c') -> concat d' ++ c' = concat done ++ cur ++ ds.
Proof.
  induction ds as [|d r IH]; intros done cur d' c' H; cbn [fill_chunks] in H.
  - inversion H. subst. rewrite app_nil_r. reflexivity.
  - destruct (chunk_full cur).
    + apply IH in H. rewrite H. rewrite concat_app. cbn [concat]. rewrite app_nil_r. rewrite <- !app_assoc. reflexivity.
    + apply IH in H. rewrite H. rewrite <- !app_assoc. reflexivity.
Qed.

(** * moving the oldest hot chunks to cold storage *)
Lemma compress_to_cold_perm fuel : forall hot cold h' c',
  compress_to_cold fuel hot cold = (h', c') -> Forall wf_entries hot ->
  Permutation (flat_map cchunk_iter c' ++ concat h') (flat_map cchunk_iter cold ++ concat hot) /\ Forall wf_entries h'.
Proof.
  induction fuel as [|k IH]; intros hot cold h' c' H W; cbn [compress_to_cold] in H.
  - inversion H. subst. split; [reflexivity|exact W].
  - destruct (COLD_COMPRESSION_THRESHOLD <? Z.of_nat (length hot)).
    + destruct hot as [|c r]; [inversion H; subst; split; [reflexivity|exact W]|].
      inversion W as [|? ? Wc Wr]. subst.
      destruct c as [|e c0].
      * apply IH in H; [|exact Wr]. destruct H as [H1 H2]. split; [|exact H2]. rewrite H1. cbn [concat app]. reflexivity.
      * apply IH in H; [|exact Wr]. destruct H as [H1 H2]. split; [|exact H2]. rewrite H1.
        rewrite flat_map_app. cbn [flat_map concat]. rewrite app_nil_r. rewrite <- !app_assoc.
        apply Permutation_app_head. apply Permutation_app_tail. apply cchunk_perm. exact Wc.
    + inversion H. subst. split; [reflexivity|exact W].
Qed.

Lemma Forall_concat_wf (l : list chunk) : wf_entries (concat l) -> Forall wf_entries l.
Proof.
  induction l as [|c r IH]; cbn [concat]; intros H; [constructor|].
  unfold wf_entries in H. apply Forall_app in H. destruct H as [H1 H2]. constructor; [exact H1|apply IH; exact H2].
Qed.

(** * the operations on one list *)
Definition al_wf (l : adjlist) : Prop := wf_entries (al_raw l).

Lemma al_raw_wf_parts l : al_wf l -> wf_entries (flat_map cchunk_iter (a_cold l)) /\ wf_entries (concat (a_hot l)) /\ wf_entries (a_delta l).
Proof.
  unfold al_wf, al_raw, wf_entries. intros H. apply Forall_app in H. destruct H as [H1 H2]. apply Forall_app in H2. destruct H2 as [H2 H3]. auto.
Qed.

Lemma al_add_spec l d e : in_u64 d -> in_u64 e -> al_wf l ->
  Permutation (al_raw (al_add l d e)) ((d, e) :: al_raw l) /\ a_del (al_add l d e) = a_del l /\ al_wf (al_add l d e).
Proof.
  intros Hd He W.
  assert (Permutation (al_raw (al_add l d e)) ((d, e) :: al_raw l) /\ a_del (al_add l d e) = a_del l) as [P D].
  { unfold al_add. destruct (rev (a_hot l)) as [|last front] eqn:R.
    - unfold al_raw. cbn [a_hot a_cold a_delta a_del]. split; [|reflexivity].
      rewrite !app_assoc. rewrite <- Permutation_cons_append. rewrite <- !app_assoc. reflexivity.
    - destruct (chunk_full last).
      + unfold al_raw. cbn [a_hot a_cold a_delta a_del]. split; [|reflexivity].
        rewrite !app_assoc. rewrite <- Permutation_cons_append. rewrite <- !app_assoc. reflexivity.
      + apply rev_cons_inv in R. unfold al_raw. cbn [a_hot a_cold a_delta a_del]. split; [|reflexivity].
        rewrite R. rewrite !concat_app. cbn [concat]. rewrite !app_nil_r.
        rewrite <- !app_assoc. cbn [app].
        symmetry. rewrite !app_assoc. apply Permutation_middle. }
  split; [exact P|split; [exact D|]].
  unfold al_wf. eapply wf_entries_perm; [symmetry; exact P|]. constructor; [split; assumption|exact W].
Qed.

Lemma al_compact_spec l : al_wf l ->
  Permutation (al_raw (al_compact l)) (al_raw l) /\ a_del (al_compact l) = a_del l /\ al_wf (al_compact l).
Proof.
  intros W.
  assert (Permutation (al_raw (al_compact l)) (al_raw l) /\ a_del (al_compact l) = a_del l) as [P D].
  { destruct (al_raw_wf_parts l W) as (W1 & W2 & W3).
    unfold al_compact. destruct (a_delta l) as [|d0 dr] eqn:DL; [split; reflexivity|]. rewrite <- DL in *. clear DL d0 dr.
    (* the chunk the loop starts from *)
    assert (exists base cur0,
              (match rev (a_hot l) with
               | last :: front => if chunk_full last then (a_hot l, []) else (rev front, last)
               | [] => ([], [])
               end) = (base, cur0) /\ concat base ++ cur0 = concat (a_hot l)) as (base & cur0 & E0 & C0).
    { destruct (rev (a_hot l)) as [|last front] eqn:R.
      - exists [], []. split; [reflexivity|]. apply (f_equal (@rev chunk)) in R. rewrite rev_involutive in R. rewrite R. reflexivity.
      - destruct (chunk_full last).
        + exists (a_hot l), []. split; [reflexivity|apply app_nil_r].
        + exists (rev front), last. split; [reflexivity|]. apply rev_cons_inv in R. rewrite R. rewrite concat_app. cbn [concat]. rewrite app_nil_r. reflexivity. }
    rewrite E0. destruct (fill_chunks base cur0 (a_delta l)) as [done cur] eqn:F.
    pose proof (fill_chunks_concat _ _ _ _ _ F) as C1.
    set (hot1 := match cur with [] => done | _ => done ++ [cur] end).
    assert (concat hot1 = concat (a_hot l) ++ a_delta l) as C2.
    { unfold hot1. destruct cur as [|x xs].
      - rewrite app_nil_r in C1. rewrite C1, <- C0. rewrite <- app_assoc. reflexivity.
      - rewrite concat_app. cbn [concat]. rewrite app_nil_r. rewrite C1, <- C0. rewrite <- app_assoc. reflexivity. }
    destruct (compress_to_cold (length hot1) hot1 (a_cold l)) as [hot2 cold2] eqn:CC.
    destruct (compress_to_cold_perm _ _ _ _ _ CC) as [P1 _].
    { apply Forall_concat_wf. rewrite C2. unfold wf_entries. apply Forall_app. split; assumption. }
    unfold al_raw. cbn [a_hot a_cold a_delta a_del]. split; [|reflexivity].
    rewrite app_nil_r. rewrite P1. rewrite C2. reflexivity. }
  split; [exact P|split; [exact D|]]. unfold al_wf. eapply wf_entries_perm; [symmetry; exact P|exact W].
Qed.

Lemma al_freeze_spec l : al_wf l ->
  Permutation (al_raw (al_freeze l)) (al_raw l) /\ a_del (al_freeze l) = a_del l /\ al_wf (al_freeze l).
Proof.
  intros W.
  assert (Permutation (al_raw (al_freeze l)) (al_raw l)) as P.
  { destruct (al_raw_wf_parts l W) as (W1 & W2 & W3).
    unfold al_freeze, al_raw. cbn [a_hot a_cold a_delta a_del concat app].
    rewrite flat_map_app. rewrite <- !app_assoc. apply Permutation_app_head. apply Permutation_app_tail.
    apply Forall_concat_wf in W2. clear - W2. induction (a_hot l) as [|c r IH]; cbn [filter map flat_map concat]; [reflexivity|].
    inversion W2 as [|? ? Wc Wr]. subst. destruct c as [|e c0].
    + cbn [app]. apply IH. exact Wr.
    + cbn [map flat_map]. apply Permutation_app; [apply cchunk_perm; exact Wc|apply IH; exact Wr]. }
  split; [exact P|split; [reflexivity|]]. unfold al_wf. eapply wf_entries_perm; [symmetry; exact P|exact W].
Qed.

Lemma al_mark_deleted_spec l e : al_raw (al_mark_deleted l e) = al_raw l /\ a_del (al_mark_deleted l e) = sadd e (a_del l).
Proof. split; reflexivity. Qed.
