(** C14 — decidable finding classes: predicates on histories / states that delimit where the
    implementation (and therefore the model) is known to violate the property.  Definitions only;
    the theorems of Props_C14.v are stated outside these classes, the check classifies every
    failure of the oracle with them. *)
From GV Require Export Lpg.Model.
Open Scope Z_scope.

(** a history contains a step on which [bad] holds (evaluated in the state the step starts from) *)
Fixpoint hist_any (bad : state -> op -> bool) (s : state) (ops : list op) : bool :=
  match ops with
  | [] => false
  | o :: r => bad s o || hist_any bad (fst (step s o)) r
  end.

(** * specification side: the neighbour lists the live edge set defines *)
Definition out_entries (es : list (Z * erec)) (n : Z) : list (Z * Z) :=
  filter_map (fun p => if e_src (snd p) =? n then Some (e_dst (snd p), fst p) else None) es.
Definition in_entries (es : list (Z * erec)) (n : Z) : list (Z * Z) :=
  filter_map (fun p => if e_dst (snd p) =? n then Some (e_src (snd p), fst p) else None) es.

(** C14-K2: the history deletes a node that still has live incident edges without detaching them,
    or creates an edge whose endpoint is not a live node *)
Definition has_live_incident (s : state) (n : Z) : bool :=
  existsb (fun p => (e_src (snd p) =? n) || (e_dst (snd p) =? n)) (live_edges s).
Definition op_dangles (s : state) (o : op) : bool :=
  match o with
  | DeleteNode n => node_live s n && has_live_incident s n
  | CreateEdge a b _ => negb (node_live s a && node_live s b)
  | _ => false
  end.
Definition hist_dangles : state -> list op -> bool := hist_any op_dangles.
Definition no_dangling (s : state) : bool :=
  forallb (fun p => node_live s (e_src (snd p)) && node_live s (e_dst (snd p))) (live_edges s).
(** C14-K6: the history sets a node property on an id that is not a live node *)
Definition op_sets_dead (s : state) (o : op) : bool :=
  match o with
  | SetNodeProp n _ _ => negb (node_live s n)
  | _ => false
  end.
Definition hist_sets_dead : state -> list op -> bool := hist_any op_sets_dead.

(** C14-K4 / K5: zone-map pruning claims "no match" although a stored value matches *)
Definition is_big_int (v : value) : bool :=
  match v with VInt i => 9007199254740992 <=? Z.abs i | _ => false end.       (* 2^53 *)
Definition is_float (v : value) : bool := match v with VFloat _ => true | _ => false end.
Definition opt_list {A} (o : option A) : list A := match o with Some a => [a] | None => [] end.
Definition col_values (c : column) : list value :=
  map snd (c_vals c) ++ opt_list (z_min (c_zone c)) ++ opt_list (z_max (c_zone c)).
(** K4: an Int64 of magnitude >= 2^53 meets a Float64 among the column's values, its bounds and the
    query value, and the comparison is strict *)
Definition k_zone_round_col (c : column) (o : cmpop) (q : value) : bool :=
  match o with
  | OpLt | OpGt => existsb is_big_int (q :: col_values c) && existsb is_float (q :: col_values c)
  | _ => false
  end.
(** K5 (repaired by 1879631; class of the pre-repair behaviour): [Ne] pruning on a column that holds -- or whose min/max bounds still hold -- a non-null value
    of another type than the query value, or a NaN *)
Definition odd_for_ne (q x : value) : bool :=
  negb (is_null x) && (negb (vtag x =? vtag q) || match x with VFloat b => f64_is_nan b | _ => false end).
Definition k_zone_ne_col (c : column) (o : cmpop) (q : value) : bool :=
  match o with
  | OpNe => existsb (odd_for_ne q) (col_values c)
  | _ => false
  end.
(** K4 for a range lookup: a strict bound is pruned through the same comparison *)
Definition k_range_round_col (c : column) (lo hi : option value) (li hi_i : bool) : bool :=
  (match lo with Some l => negb li && k_zone_round_col c OpGt l | None => false end)
  || (match hi with Some h => negb hi_i && k_zone_round_col c OpLt h | None => false end).
(** the classes on a property storage (node or edge properties): K4 alone for the current code,
    K4 and K5 for the behaviour before fix 1879631 *)
Definition ps_round_class (p : pstore) (key : Z) (o : cmpop) (q : value) : bool :=
  match zget p key with Some c => k_zone_round_col c o q | None => false end.
Definition ps_zone_class (p : pstore) (key : Z) (o : cmpop) (q : value) : bool :=
  match zget p key with Some c => k_zone_round_col c o q || k_zone_ne_col c o q | None => false end.
Definition ps_range_class (p : pstore) (key : Z) (lo hi : option value) (li hi_i : bool) : bool :=
  match zget p key with Some c => k_range_round_col c lo hi li hi_i | None => false end.

(** C14-K7: a label was added/removed while the statistics were considered fresh; the next
    refresh does not recompute *)
Definition op_label_unflagged (s : state) (o : op) : bool :=
  match o with
  | AddLabel _ _ | RemoveLabel _ _ =>
      negb (stats_dirty s) && match snd (step s o) with RBool true => true | _ => false end
  | _ => false
  end.
Definition hist_label_unflagged : state -> list op -> bool := hist_any op_label_unflagged.

(** * well-formed property values: a Float64 is a 64-bit pattern (the model keeps bit patterns as
    unbounded integers); needed only where two floats with the same exact value must be the same
    or the two zeros *)
Definition value_wf (v : value) : Prop := match v with VFloat b => in_u64 b | _ => True end.
Definition op_vals_wf (o : op) : Prop :=
  match o with
  | SetNodeProp _ _ v | SetEdgeProp _ _ v => value_wf v
  | _ => True
  end.
Definition hist_vals_wf (ops : list op) : Prop := Forall op_vals_wf ops.

(** * well-formed histories: the ids an operation mentions are u64 values and the history is
    shorter than 2^64 operations (so that the id counters never wrap) *)
Definition op_wf (o : op) : Prop :=
  match o with
  | CreateEdge a b _ => in_u64 a /\ in_u64 b
  | _ => True
  end.
Definition hist_wf (ops : list op) : Prop := Forall op_wf ops /\ Z.of_nat (length ops) < two64.
