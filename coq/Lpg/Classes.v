(** C14 — decidable finding classes: predicates on histories / states that delimit where the
    implementation (and therefore the model) is known to violate the property.  Definitions only;
    the theorems of Props_C14.v are stated outside these classes, the check classifies every
    failure of the oracle with them. *)
From GV Require Export Lpg.Model.
Open Scope Z_scope.

(** a history contains a step on which [bad] holds (evaluated in the state the step starts from) *)
Fixpoint hist_any (bad : state -> op -> bool) (s : state) (ops : list op) : bool :=
  match ops with
  | [] => false
  | o :: r => bad s o || hist_any bad (fst (step s o)) r
  end.

(** * specification side: the neighbour lists the live edge set defines *)
Definition out_entries (es : list (Z * erec)) (n : Z) : list (Z * Z) :=
  filter_map (fun p => if e_src (snd p) =? n then Some (e_dst (snd p), fst p) else None) es.
Definition in_entries (es : list (Z * erec)) (n : Z) : list (Z * Z) :=
  filter_map (fun p => if e_dst (snd p) =? n then Some (e_src (snd p), fst p) else None) es.

(** C14-K8 (the store-level part of the former K2): the history deletes a node that still has live incident edges without detaching them,
    or creates an edge whose endpoint is not a live node *)
Definition has_live_incident (s : state) (n : Z) : bool :=
  existsb (fun p => (e_src (snd p) =? n) || (e_dst (snd p) =? n)) (live_edges s).
Definition op_dangles (s : state) (o : op) : bool :=
  match o with
  | DeleteNode n => node_live s n && has_live_incident s n
  | CreateEdge a b _ => negb (node_live s a && node_live s b)
  | _ => false
  end.
Definition hist_dangles : state -> list op -> bool := hist_any op_dangles.
Definition no_dangling (s : state) : bool :=
  forallb (fun p => node_live s (e_src (snd p)) && node_live s (e_dst (snd p))) (live_edges s).
(** C14-K6: the history sets a node property on an id that is not a live node *)
Definition op_sets_dead (s : state) (o : op) : bool :=
  match o with
  | SetNodeProp n _ _ => negb (node_live s n)
  | _ => false
  end.
Definition hist_sets_dead : state -> list op -> bool := hist_any op_sets_dead.

(** C14-K4 / K5 / K7 are repaired (c5e300e, 1879631, 2e121d0): their classes are gone; the
    pre-repair behaviour is kept in Model.v / Value.v ([cmp_zone_pre], [col_might_match_pre_k4],
    [col_might_match_pre_k5], [step_pre_k7]) and refuted in Props_C14.v. *)

(** * GrafeoDB-level histories: delete_node through the wrapper detaches (fix 109e5bf); what can
    still leave a dangling edge is a store-level operation of the class above *)
Definition dop_dangles (s : state) (d : dop) : bool :=
  match d with
  | Basic o => op_dangles s o
  | DbDeleteNode _ => false
  end.
Fixpoint dhist_dangles (s : state) (ds : list dop) : bool :=
  match ds with
  | [] => false
  | d :: r => dop_dangles s d || dhist_dangles (fst (dstep s d)) r
  end.

(** * well-formed histories: the ids an operation mentions are u64 values and the history is
    shorter than 2^64 operations (so that the id counters never wrap) *)
Definition op_wf (o : op) : Prop :=
  match o with
  | CreateEdge a b _ => in_u64 a /\ in_u64 b
  | _ => True
  end.
Definition hist_wf (ops : list op) : Prop := Forall op_wf ops /\ Z.of_nat (length ops) < two64.
