(** C14 — property values as the store sees them (grafeo-common/src/types/value.rs) and the
    three comparison functions the anchored code uses on them.  Definitions only.

    Floats are bit patterns ([Z] below 2^64 for f64, below 2^32 for the f32 entries of a
    vector).  Strings, byte strings and map keys are lists of byte values. *)
From GV Require Export Base.Bits.
Open Scope Z_scope.

Inductive value :=
| VNull
| VBool (b : bool)
| VInt (i : Z)
| VFloat (bits : Z)
| VStr (s : list Z)
| VBytes (s : list Z)
| VTs (t : Z)
| VList (l : list value)
| VMap (m : list (list Z * value))     (* BTreeMap: entries in key order *)
| VVec (l : list Z).                   (* f32 bit patterns *)

(** * HashableValue::eq — floats by bit pattern, everything else structurally.
    (For a [Map] the code walks one map and looks the keys up in the other; on key-sorted,
    duplicate-free entry lists that is entry-wise equality.) *)
Fixpoint value_eqb (a b : value) : bool :=
  match a, b with
  | VNull, VNull => true
  | VBool x, VBool y => Bool.eqb x y
  | VInt x, VInt y => x =? y
  | VFloat x, VFloat y => x =? y
  | VStr x, VStr y => zlist_eqb x y
  | VBytes x, VBytes y => zlist_eqb x y
  | VTs x, VTs y => x =? y
  | VList x, VList y =>
      (fix go (x y : list value) : bool :=
         match x, y with
         | [], [] => true
         | a :: x', b :: y' => value_eqb a b && go x' y'
         | _, _ => false
         end) x y
  | VMap x, VMap y =>
      (fix go (x y : list (list Z * value)) : bool :=
         match x, y with
         | [], [] => true
         | (k, a) :: x', (k', b) :: y' => zlist_eqb k k' && value_eqb a b && go x' y'
         | _, _ => false
         end) x y
  | VVec x, VVec y => zlist_eqb x y
  | _, _ => false
  end.

(** * IEEE-754 binary64 / binary32 on bit patterns (only what the comparisons need) *)

Definition f64_mag (b : Z) : Z := b mod 2 ^ 63.
Definition f64_is_nan (b : Z) : bool := 9218868437227405312 <? f64_mag b.     (* 0x7FF0_0000_0000_0000 *)
Definition f64_is_zero (b : Z) : bool := f64_mag b =? 0.
(** [a == b] on f64 *)
Definition f64_eq (a b : Z) : bool :=
  negb (f64_is_nan a) && negb (f64_is_nan b) && ((a =? b) || (f64_is_zero a && f64_is_zero b)).

Definition f32_mag (b : Z) : Z := b mod 2 ^ 31.
Definition f32_is_nan (b : Z) : bool := 2139095040 <? f32_mag b.              (* 0x7F80_0000 *)
Definition f32_is_zero (b : Z) : bool := f32_mag b =? 0.
Definition f32_eq (a b : Z) : bool :=
  negb (f32_is_nan a) && negb (f32_is_nan b) && ((a =? b) || (f32_is_zero a && f32_is_zero b)).

(** exact value of a non-NaN f64 scaled by 2^1075 (an integer); infinities are +-2^2200 *)
Definition f64_num (b : Z) : option Z :=
  let sign := b / 2 ^ 63 in
  let e := (b / 2 ^ 52) mod 2 ^ 11 in
  let m := b mod 2 ^ 52 in
  let mag := if e =? 2047 then (if m =? 0 then Some (2 ^ 2200) else None)
             else if e =? 0 then Some (m * 2)
             else Some ((2 ^ 52 + m) * 2 ^ e) in
  match mag with
  | None => None
  | Some v => Some (if sign =? 0 then v else - v)
  end.

(** [a.partial_cmp(b)] on f64 *)
Definition f64_cmp (a b : Z) : option comparison :=
  match f64_num a, f64_num b with
  | Some x, Some y => Some (x ?= y)
  | _, _ => None
  end.

(** [i as f64] for an i64, as the exact integer value of the result: round to 53 significant
    bits, ties to even *)
Definition round53_nat (n : Z) : Z :=
  if n <? 2 ^ 53 then n
  else let s := Z.log2 n - 52 in
       let q := n / 2 ^ s in
       let r := n mod 2 ^ s in
       let half := 2 ^ (s - 1) in
       let up := (half <? r) || ((r =? half) && Z.odd q) in
       (if up then q + 1 else q) * 2 ^ s.
Definition round53 (i : Z) : Z := if i <? 0 then - round53_nat (- i) else round53_nat i.

Definition scale1075 : Z := 2 ^ 1075.
(** [compare_i64_f64] (fix c5e300e): an i64 against an f64, exactly -- NaN is incomparable, values
    at or beyond +-2^63 (the infinities too) are above / below every i64, otherwise the integral
    part is compared and the fraction decides a tie.  That is the comparison of the exact values. *)
Definition cmp_int_f64 (i x : Z) : option comparison :=
  match f64_num x with
  | Some y => Some (i * scale1075 ?= y)
  | None => None
  end.
Definition cmp_f64_int (x i : Z) : option comparison :=
  match f64_num x with
  | Some y => Some (y ?= i * scale1075)
  | None => None
  end.
(** before c5e300e: [(i as f64).partial_cmp(&x)], the integer rounded to 53 bits first *)
Definition cmp_int_f64_pre (i x : Z) : option comparison :=
  match f64_num x with
  | Some y => Some (round53 i * scale1075 ?= y)
  | None => None
  end.
Definition cmp_f64_int_pre (x i : Z) : option comparison :=
  match f64_num x with
  | Some y => Some (y ?= round53 i * scale1075)
  | None => None
  end.

(** byte-wise lexicographic order of strings ([ArcStr::cmp]) *)
Fixpoint lex_cmp (a b : list Z) : comparison :=
  match a, b with
  | [], [] => Eq
  | [], _ :: _ => Lt
  | _ :: _, [] => Gt
  | x :: a', y :: b' => match x ?= y with Eq => lex_cmp a' b' | c => c end
  end.

Definition bool_cmp (a b : bool) : comparison :=
  match a, b with
  | false, true => Lt
  | true, false => Gt
  | _, _ => Eq
  end.

(** * Value::eq (derived PartialEq): IEEE equality on floats, element-wise on containers *)
Fixpoint value_ieee_eqb (a b : value) : bool :=
  match a, b with
  | VNull, VNull => true
  | VBool x, VBool y => Bool.eqb x y
  | VInt x, VInt y => x =? y
  | VFloat x, VFloat y => f64_eq x y
  | VStr x, VStr y => zlist_eqb x y
  | VBytes x, VBytes y => zlist_eqb x y
  | VTs x, VTs y => x =? y
  | VList x, VList y =>
      (fix go (x y : list value) : bool :=
         match x, y with
         | [], [] => true
         | a :: x', b :: y' => value_ieee_eqb a b && go x' y'
         | _, _ => false
         end) x y
  | VMap x, VMap y =>
      (fix go (x y : list (list Z * value)) : bool :=
         match x, y with
         | [], [] => true
         | (k, a) :: x', (k', b) :: y' => zlist_eqb k k' && value_ieee_eqb a b && go x' y'
         | _, _ => false
         end) x y
  | VVec x, VVec y => list_eqb f32_eq x y
  | _, _ => false
  end.

(** * [compare_values] of property.rs and zone_map.rs (textually the same function) *)
Definition cmp_zone (a b : value) : option comparison :=
  match a, b with
  | VInt x, VInt y => Some (x ?= y)
  | VFloat x, VFloat y => f64_cmp x y
  | VStr x, VStr y => Some (lex_cmp x y)
  | VBool x, VBool y => Some (bool_cmp x y)
  | VInt x, VFloat y => cmp_int_f64 x y
  | VFloat x, VInt y => cmp_f64_int x y
  | _, _ => None
  end.
(** the same before c5e300e *)
Definition cmp_zone_pre (a b : value) : option comparison :=
  match a, b with
  | VInt x, VInt y => Some (x ?= y)
  | VFloat x, VFloat y => f64_cmp x y
  | VStr x, VStr y => Some (lex_cmp x y)
  | VBool x, VBool y => Some (bool_cmp x y)
  | VInt x, VFloat y => cmp_int_f64_pre x y
  | VFloat x, VInt y => cmp_f64_int_pre x y
  | _, _ => None
  end.

(** * [compare_values_for_range] of store.rs (same type only) *)
Definition cmp_range (a b : value) : option comparison :=
  match a, b with
  | VInt x, VInt y => Some (x ?= y)
  | VFloat x, VFloat y => f64_cmp x y
  | VStr x, VStr y => Some (lex_cmp x y)
  | VBool x, VBool y => Some (bool_cmp x y)
  | _, _ => None
  end.

(** [value_in_range] of store.rs *)
Definition value_in_range (v : value) (lo hi : option value) (lo_incl hi_incl : bool) : bool :=
  (match lo with
   | None => true
   | Some l => match cmp_range v l with
               | Some Lt => false
               | Some Eq => lo_incl
               | Some Gt => true
               | None => false
               end
   end)
  &&
  (match hi with
   | None => true
   | Some h => match cmp_range v h with
               | Some Gt => false
               | Some Eq => hi_incl
               | Some Lt => true
               | None => false
               end
   end).

(** does the value contain a float NaN or a float zero (f64 or f32) anywhere?  These are the
    values on which [Value::eq] and [HashableValue::eq] disagree. *)
Fixpoint has_float_special (v : value) : bool :=
  match v with
  | VFloat x => f64_is_nan x || f64_is_zero x
  | VList l => (fix go (l : list value) : bool :=
                  match l with [] => false | a :: r => has_float_special a || go r end) l
  | VMap m => (fix go (m : list (list Z * value)) : bool :=
                 match m with [] => false | (_, a) :: r => has_float_special a || go r end) m
  | VVec l => existsb (fun x => f32_is_nan x || f32_is_zero x) l
  | _ => false
  end.

Definition is_null (v : value) : bool := match v with VNull => true | _ => false end.

(** constructor tag *)
Definition vtag (v : value) : Z :=
  match v with
  | VNull => 0 | VBool _ => 1 | VInt _ => 2 | VFloat _ => 3 | VStr _ => 4
  | VBytes _ => 5 | VTs _ => 6 | VList _ => 7 | VMap _ => 8 | VVec _ => 9
  end.
