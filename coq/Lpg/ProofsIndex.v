(** C14 — property indexes: lookup through an index = scan. *)
From Coq Require Import ZArith Lia List Bool Permutation.
Import ListNotations.
From GV Require Import Lpg.Model Lpg.Classes Lpg.ProofsBase Lpg.ProofsInv Lpg.ProofsLabel.
Open Scope Z_scope.

(** * property storage lookups *)
Lemma col_get_set c id v n : col_get (col_set c id v) n = if n =? id then Some v else col_get c n.
Proof. unfold col_get, col_set. cbn [c_vals]. apply zget_zset. Qed.
Lemma col_get_remove c id n : col_get (col_remove c id) n = if n =? id then None else col_get c n.
Proof.
  unfold col_get, col_remove. destruct (zget (c_vals c) id) eqn:E; cbn [c_vals].
  - apply zget_zdel.
  - destruct (n =? id) eqn:Q; [apply Z.eqb_eq in Q; subst; exact E|reflexivity].
Qed.

Lemma ps_get_set p id key v n k :
  ps_get (ps_set p id key v) n k = if (k =? key) && (n =? id) then Some v else ps_get p n k.
Proof.
  unfold ps_get, ps_set. rewrite zget_zset. destruct (k =? key) eqn:Q; cbn [andb]; [|reflexivity].
  apply Z.eqb_eq in Q. subst k. rewrite col_get_set. destruct (n =? id); [reflexivity|].
  destruct (zget p key); reflexivity.
Qed.
Lemma ps_get_remove p id key n k :
  ps_get (ps_remove p id key) n k = if (k =? key) && (n =? id) then None else ps_get p n k.
Proof.
  unfold ps_get, ps_remove. destruct (zget p key) as [c|] eqn:E.
  - rewrite zget_zset. destruct (k =? key) eqn:Q; cbn [andb]; [|reflexivity].
    apply Z.eqb_eq in Q. subst k. rewrite col_get_remove. rewrite E. reflexivity.
  - destruct (k =? key) eqn:Q; cbn [andb]; [|reflexivity]. apply Z.eqb_eq in Q. subst k. rewrite E. destruct (n =? id); reflexivity.
Qed.
Lemma ps_get_remove_all p id n k : ps_get (ps_remove_all p id) n k = if n =? id then None else ps_get p n k.
Proof.
  unfold ps_get, ps_remove_all.
  rewrite (zget_map (fun _ c => col_remove c id) p k). destruct (zget p k) as [c|]; cbn [option_map].
  - apply col_get_remove.
  - destruct (n =? id); reflexivity.
Qed.

(** * value indexes *)
Definition in_vix (ix : vindex) (v : value) (n : Z) : Prop := exists ns, vget ix v = Some ns /\ In n ns.
Definition nd_vix (ix : vindex) : Prop := forall v ns, vget ix v = Some ns -> NoDup ns.

Lemma value_dec (a b : value) : {a = b} + {a <> b}.
Proof. destruct (value_eqb a b) eqn:E; [left; apply value_eqb_eq; exact E|right; intros H; apply value_eqb_eq in H; congruence]. Qed.

Lemma in_vix_add ix v id v' m : in_vix (vindex_add ix v id) v' m <-> in_vix ix v' m \/ (v' = v /\ m = id).
Proof.
  unfold in_vix, vindex_add. destruct (value_dec v' v) as [->|N].
  - rewrite vget_vset_eq. split.
    + intros [ns [H1 H2]]. inversion H1. subst ns. apply In_sadd in H2. destruct H2 as [->|H2]; [right; auto|].
      left. destruct (vget ix v) as [x|]; [exists x; auto|destruct H2].
    + intros [[ns [H1 H2]]|[_ ->]]; (eexists; split; [reflexivity|]); apply In_sadd; [right; rewrite H1; exact H2|left; reflexivity].
  - rewrite vget_vset_neq by congruence. split; [intros H; left; exact H|intros [H|[H _]]; [exact H|contradiction]].
Qed.
Lemma nd_vix_add ix v id : nd_vix ix -> nd_vix (vindex_add ix v id).
Proof.
  intros ND v' ns. unfold vindex_add. destruct (value_dec v' v) as [->|N].
  - rewrite vget_vset_eq. intros H. inversion H. apply NoDup_sadd. destruct (vget ix v) as [x|] eqn:E; [exact (ND v x E)|constructor].
  - rewrite vget_vset_neq by congruence. apply ND.
Qed.

Lemma in_vix_remove ix old id v' m : in_vix (vindex_remove ix old id) v' m <-> in_vix ix v' m /\ ~ (v' = old /\ m = id).
Proof.
  unfold in_vix, vindex_remove. destruct (vget ix old) as [ns0|] eqn:E.
  - destruct (value_dec v' old) as [->|N].
    + destruct (srem id ns0) as [|a r] eqn:S.
      * rewrite vget_vdel_eq. split; [intros [ns [H _]]; discriminate|].
        intros [[ns [H1 H2]] H3]. rewrite E in H1. inversion H1. subst ns.
        assert (In m (srem id ns0)) as Hin by (apply In_srem; split; [exact H2|intros ->; apply H3; auto]).
        rewrite S in Hin. destruct Hin.
      * rewrite vget_vset_eq. rewrite <- S. split.
        -- intros [ns [H1 H2]]. inversion H1. subst ns. apply In_srem in H2. destruct H2 as [H2 H3].
           split; [exists ns0; auto|intros [_ H4]; contradiction].
        -- intros [[ns [H1 H2]] H3]. rewrite E in H1. inversion H1. subst ns. eexists. split; [reflexivity|].
           apply In_srem. split; [exact H2|intros ->; apply H3; auto].
    + assert (forall ix', (ix' = vdel ix old \/ exists x, ix' = vset ix old x) -> vget ix' v' = vget ix v') as Hother.
      { intros ix' [->|[x ->]]; [apply vget_vdel_neq|apply vget_vset_neq]; congruence. }
      destruct (srem id ns0) as [|a r]; (rewrite Hother; [|eauto]);
        (split; [intros H; split; [exact H|intros [H1 _]; contradiction]|intros [H _]; exact H]).
  - split; [intros H; split; [exact H|]|intros [H _]; exact H].
    intros [-> ->]. destruct H as [ns [H1 _]]. congruence.
Qed.
Lemma nd_vix_remove ix old id : nd_vix ix -> nd_vix (vindex_remove ix old id).
Proof.
  intros ND v' ns. unfold vindex_remove. destruct (vget ix old) as [ns0|] eqn:E; [|apply ND].
  destruct (value_dec v' old) as [->|N].
  - destruct (srem id ns0) as [|a r] eqn:S.
    + rewrite vget_vdel_eq. discriminate.
    + rewrite vget_vset_eq. intros H. inversion H. rewrite <- S. apply NoDup_srem. exact (ND old ns0 E).
  - destruct (srem id ns0) as [|a r]; [rewrite vget_vdel_neq by congruence|rewrite vget_vset_neq by congruence]; apply ND.
Qed.

(** * the invariants *)
Definition PropsLive (s : state) : Prop := forall n k v, ps_get (nprops s) n k = Some v -> node_live s n = true.
Definition IdxInv (s : state) : Prop :=
  forall key ix, zget (pidx s) key = Some ix ->
                 (forall v n, in_vix ix v n <-> ps_get (nprops s) n key = Some v) /\ nd_vix ix.

Lemma PI_view s s' : pview s' = pview s -> PropsLive s /\ IdxInv s -> PropsLive s' /\ IdxInv s'.
Proof.
  unfold pview. intros E [H1 H2]. injection E as E1 E2 E3 E4. unfold PropsLive, IdxInv, node_live in *.
  rewrite E1, E2, E3, E4. auto.
Qed.

Lemma build_index_spec s key : forall l acc,
  (forall v m, in_vix (fold_left (fun ix n => match ps_get (nprops s) n key with Some v => vindex_add ix v n | None => ix end) l acc) v m
               <-> in_vix acc v m \/ (In m l /\ ps_get (nprops s) m key = Some v)) /\
  (nd_vix acc -> nd_vix (fold_left (fun ix n => match ps_get (nprops s) n key with Some v => vindex_add ix v n | None => ix end) l acc)).
Proof.
  induction l as [|n r IH]; intros acc; cbn [fold_left].
  - split; [|auto]. intros v m. split; [intros H; left; exact H|intros [H|[[] _]]; exact H].
  - destruct (IH (match ps_get (nprops s) n key with Some v => vindex_add acc v n | None => acc end)) as [IH1 IH2].
    split.
    + intros v m. rewrite IH1. cbn [In]. destruct (ps_get (nprops s) n key) as [v0|] eqn:E.
      * rewrite in_vix_add. split.
        -- intros [[H|[-> ->]]|[H1 H2]]; [left; exact H|right; auto|right; auto].
        -- intros [H|[[->|H1] H2]]; [left; left; exact H|left; right; split; congruence|right; auto].
      * split.
        -- intros [H|[H1 H2]]; [left; exact H|right; auto].
        -- intros [H|[[->|H1] H2]]; [left; exact H|congruence|right; auto].
    + intros ND. apply IH2. destruct (ps_get (nprops s) n key); [apply nd_vix_add|]; exact ND.
Qed.

Lemma PI_init b : PropsLive (init b) /\ IdxInv (init b).
Proof. split; [intros n k v H|intros key ix H]; cbn in H; discriminate. Qed.

Lemma PI_step s o : BaseInv s -> op_sets_dead s o = false -> PropsLive s /\ IdxInv s -> PropsLive (fst (step s o)) /\ IdxInv (fst (step s o)).
Proof.
  intros B Hsafe [PL IX]. destruct (touches_pview o) eqn:T; [|apply (PI_view s); [apply pview_frame; exact T|split; assumption]].
  destruct o; cbn [touches_pview] in T; try discriminate; clear T.
  - (* CreateNode *)
    pose proof (fun n H => node_live_step_other s (CreateNode labels) n B H I) as Hlive.
    cbn [step] in *. unfold do_create_node in *. psimpl.
    destruct (create_node_labels (lab_names s) (lab_index s) [] (next_node s) labels) as [[nm ix] st]. psimpl.
    split; [|exact IX]. intros n k v H. apply Hlive. apply (PL n k v H).
  - (* DeleteNode *)
    pose proof (fun m H Hne => node_live_step_other s (DeleteNode n) m B H Hne) as Hlive.
    cbn [step] in *. unfold do_delete_node in *. psimpl.
    destruct (zget (nodes s) n) as [r|] eqn:E; [|split; assumption].
    destruct (nrec_vis r (epoch s)) eqn:V; [|split; assumption]. psimpl.
    assert (forall (sF : state), nprops sF = ps_remove_all (nprops s) n -> pidx sF = pidx_remove_node (nprops s) (pidx s) n ->
              (forall m, m <> n -> node_live s m = true -> node_live sF m = true) ->
              PropsLive sF /\ IdxInv sF) as Hmain.
    { intros sF E1 E2 Hl. split.
      - intros m k v. rewrite E1. rewrite ps_get_remove_all. destruct (m =? n) eqn:Q; [discriminate|].
        apply Z.eqb_neq in Q. intros H. apply Hl; [exact Q|]. apply (PL m k v H).
      - intros key ix. rewrite E1, E2. unfold pidx_remove_node.
        rewrite (zget_map (fun k x => match ps_get (nprops s) n k with Some old => vindex_remove x old n | None => x end) (pidx s) key).
        destruct (zget (pidx s) key) as [ix0|] eqn:EI; cbn [option_map]; [|discriminate].
        intros H. inversion H. subst ix. clear H. destruct (IX key ix0 EI) as [I1 I2]. split.
        + intros v m. rewrite ps_get_remove_all. destruct (ps_get (nprops s) n key) as [old|] eqn:EO.
          * rewrite in_vix_remove. rewrite I1. destruct (m =? n) eqn:Q.
            -- apply Z.eqb_eq in Q. subst m. split; [intros [H1 H2]; exfalso; apply H2; split; congruence|discriminate].
            -- apply Z.eqb_neq in Q. split; [intros [H _]; exact H|intros H; split; [exact H|intros [_ H1]; contradiction]].
          * rewrite I1. destruct (m =? n) eqn:Q; [|reflexivity]. apply Z.eqb_eq in Q. subst m. split; [congruence|discriminate].
        + destruct (ps_get (nprops s) n key); [apply nd_vix_remove|]; exact I2. }
    destruct (zget (node_labels s) n) as [lids|]; psimpl; apply Hmain; try reflexivity;
      intros m Hm Hl; apply (Hlive m Hl (fun e => Hm (eq_sym e))).
  - (* SetNodeProp *)
    cbn [op_sets_dead] in Hsafe. apply negb_false_iff in Hsafe.
    cbn [step]. unfold do_set_node_prop. psimpl. split.
    + intros m k v'. psimpl. rewrite ps_get_set. unfold node_live. psimpl. fold (node_live s m).
      destruct ((k =? key) && (m =? n)) eqn:Q.
      * apply andb_true_iff in Q. destruct Q as [_ Q]. apply Z.eqb_eq in Q. subst m. intros _. exact Hsafe.
      * apply PL.
    + intros k ix. psimpl. unfold pidx_on_set. destruct (zget (pidx s) key) as [ix0|] eqn:EI.
      * rewrite zget_zset. destruct (k =? key) eqn:Q.
        -- apply Z.eqb_eq in Q. subst k. intros H. inversion H. subst ix. clear H.
           destruct (IX key ix0 EI) as [I1 I2]. split.
           ++ intros v' m. rewrite ps_get_set. rewrite Z.eqb_refl. cbn [andb]. rewrite in_vix_add.
              destruct (ps_get (nprops s) n key) as [old|] eqn:EO.
              ** rewrite in_vix_remove. rewrite I1. destruct (m =? n) eqn:Q.
                 --- apply Z.eqb_eq in Q. subst m. split.
                     +++ intros [[H1 H2]|[-> _]]; [exfalso; apply H2; split; congruence|reflexivity].
                     +++ intros H. inversion H. right. auto.
                 --- apply Z.eqb_neq in Q. split.
                     +++ intros [[H _]|[_ H]]; [exact H|contradiction].
                     +++ intros H. left. split; [exact H|intros [_ H1]; contradiction].
              ** rewrite I1. destruct (m =? n) eqn:Q.
                 --- apply Z.eqb_eq in Q. subst m. split.
                     +++ intros [H|[-> _]]; [congruence|reflexivity].
                     +++ intros H. inversion H. right. auto.
                 --- apply Z.eqb_neq in Q. split; [intros [H|[_ H]]; [exact H|contradiction]|intros H; left; exact H].
           ++ apply nd_vix_add. destruct (ps_get (nprops s) n key); [apply nd_vix_remove|]; exact I2.
        -- intros H. destruct (IX k ix H) as [I1 I2]. split; [|exact I2].
           intros v' m. rewrite ps_get_set. rewrite Q. cbn [andb]. apply I1.
      * intros H. destruct (IX k ix H) as [I1 I2]. split; [|exact I2].
        intros v' m. rewrite ps_get_set. destruct (k =? key) eqn:Q; cbn [andb]; [|apply I1].
        apply Z.eqb_eq in Q. subst k. congruence.
  - (* RemoveNodeProp *)
    cbn [step]. unfold do_remove_node_prop. psimpl. split.
    + intros m k v'. psimpl. rewrite ps_get_remove. unfold node_live. psimpl. fold (node_live s m).
      destruct ((k =? key) && (m =? n)); [discriminate|apply PL].
    + intros k ix. psimpl. unfold pidx_on_remove. destruct (zget (pidx s) key) as [ix0|] eqn:EI.
      * destruct (ps_get (nprops s) n key) as [old|] eqn:EO.
        -- rewrite zget_zset. destruct (k =? key) eqn:Q.
           ++ apply Z.eqb_eq in Q. subst k. intros H. inversion H. subst ix. clear H.
              destruct (IX key ix0 EI) as [I1 I2]. split; [|apply nd_vix_remove; exact I2].
              intros v' m. rewrite ps_get_remove. rewrite Z.eqb_refl. cbn [andb]. rewrite in_vix_remove. rewrite I1.
              destruct (m =? n) eqn:Q.
              ** apply Z.eqb_eq in Q. subst m. split; [intros [H1 H2]; exfalso; apply H2; split; congruence|discriminate].
              ** apply Z.eqb_neq in Q. split; [intros [H _]; exact H|intros H; split; [exact H|intros [_ H1]; contradiction]].
           ++ intros H. destruct (IX k ix H) as [I1 I2]. split; [|exact I2].
              intros v' m. rewrite ps_get_remove. rewrite Q. cbn [andb]. apply I1.
        -- intros H. destruct (IX k ix H) as [I1 I2]. split; [|exact I2].
           intros v' m. rewrite ps_get_remove. destruct ((k =? key) && (m =? n)) eqn:Q; [|apply I1].
           apply andb_true_iff in Q. destruct Q as [Q1 Q2]. apply Z.eqb_eq in Q1, Q2. subst. rewrite I1. split; [congruence|discriminate].
      * intros H. destruct (IX k ix H) as [I1 I2]. split; [|exact I2].
        intros v' m. rewrite ps_get_remove. destruct ((k =? key) && (m =? n)) eqn:Q; [|apply I1].
        apply andb_true_iff in Q. destruct Q as [Q1 Q2]. apply Z.eqb_eq in Q1, Q2. subst. congruence.
  - (* CreateIndex *)
    cbn [step]. unfold do_create_index. destruct (zget (pidx s) key) as [ix0|] eqn:EI; [split; assumption|]. cbn [fst]. split.
    + intros m k v. psimpl. unfold node_live. psimpl. apply PL.
    + intros k ix. psimpl. rewrite zget_zset. destruct (k =? key) eqn:Q; [|apply IX].
      apply Z.eqb_eq in Q. subst k. intros H. inversion H. subst ix. clear H. unfold build_index.
      destruct (build_index_spec s key (node_ids s) []) as [S1 S2]. split.
      * intros v m. rewrite S1. split.
        -- intros [[ns [H _]]|[_ H]]; [discriminate|exact H].
        -- intros H. right. split; [|exact H]. apply (In_node_ids s m B). apply (PL m key v H).
      * apply S2. intros v ns H. discriminate.
  - (* DropIndex *)
    cbn [step]. unfold do_drop_index. destruct (zget (pidx s) key) as [ix0|] eqn:EI; [|split; assumption]. cbn [fst]. split.
    + intros m k v. psimpl. unfold node_live. psimpl. apply PL.
    + intros k ix. psimpl. rewrite zget_zdel. destruct (k =? key); [discriminate|apply IX].
  - (* NewEpoch *)
    pose proof (fun m H => node_live_step_other s NewEpoch m B H I) as Hlive.
    cbn [step] in *. split; [|exact IX]. intros m k v H. apply Hlive. apply (PL m k v H).
Qed.

Lemma PI_run b ops : hist_sets_dead (init b) ops = false ->
  BaseInv (run (init b) ops) /\ PropsLive (run (init b) ops) /\ IdxInv (run (init b) ops).
Proof.
  intros H. apply (run_inv_hist (fun s => BaseInv s /\ PropsLive s /\ IdxInv s) op_sets_dead).
  - intros s o [B P] Hs. split; [apply BaseInv_step; exact B|apply PI_step; assumption].
  - split; [apply BaseInv_init|apply PI_init].
  - exact H.
Qed.

(** * Value::eq and HashableValue::eq agree on query values without float NaN / zero *)
Lemma f64_eq_plain x q : f64_is_nan q || f64_is_zero q = false -> f64_eq x q = (x =? q).
Proof.
  intros H. apply orb_false_iff in H. destruct H as [H1 H2]. unfold f64_eq. rewrite H1, H2. cbn [negb].
  rewrite andb_false_r, orb_false_r, andb_true_r.
  destruct (x =? q) eqn:E; [apply Z.eqb_eq in E; subst; rewrite H1; reflexivity|apply andb_false_r].
Qed.
Lemma f32_eq_plain x q : f32_is_nan q || f32_is_zero q = false -> f32_eq x q = (x =? q).
Proof.
  intros H. apply orb_false_iff in H. destruct H as [H1 H2]. unfold f32_eq. rewrite H1, H2. cbn [negb].
  rewrite andb_false_r, orb_false_r, andb_true_r.
  destruct (x =? q) eqn:E; [apply Z.eqb_eq in E; subst; rewrite H1; reflexivity|apply andb_false_r].
Qed.

Lemma ieee_eq_plain q : has_float_special q = false -> forall x, value_ieee_eqb x q = value_eqb x q.
Proof.
  induction q using value_ind'; intros Hq x; destruct x; cbn [value_ieee_eqb value_eqb]; try reflexivity.
  - cbn [has_float_special] in Hq. apply f64_eq_plain. exact Hq.
  - (* lists *)
    cbn [has_float_special] in Hq. revert l0. induction H as [|a r Ha Hr IH]; intros [|b s]; try reflexivity.
    apply orb_false_iff in Hq. destruct Hq as [Q1 Q2]. rewrite (Ha Q1 b). f_equal. apply IH. exact Q2.
  - (* maps *)
    cbn [has_float_special] in Hq. revert m0. induction H as [|[k a] r Ha Hr IH]; intros [|[k' b] s]; try reflexivity.
    apply orb_false_iff in Hq. destruct Hq as [Q1 Q2]. cbn [snd] in Ha. rewrite (Ha Q1 b). f_equal. apply IH. exact Q2.
  - (* vectors *)
    cbn [has_float_special] in Hq. unfold zlist_eqb. revert l0. induction l as [|a r IH]; intros [|b s]; cbn [list_eqb]; try reflexivity.
    cbn [existsb] in Hq. apply orb_false_iff in Hq. destruct Hq as [Q1 Q2]. rewrite (f32_eq_plain b a Q1). f_equal. apply IH. exact Q2.
Qed.

(** * index lookup = scan *)
Lemma In_scan_by_prop s key q n : BaseInv s ->
  (In n (scan_by_prop s key q) <-> node_live s n = true /\ exists x, ps_get (nprops s) n key = Some x /\ value_ieee_eqb x q = true).
Proof.
  intros B. unfold scan_by_prop. rewrite filter_In. rewrite (In_node_ids s n B). split.
  - intros [H1 H2]. split; [exact H1|]. destruct (ps_get (nprops s) n key) as [x|]; [exists x; auto|discriminate].
  - intros [H1 [x [H2 H3]]]. split; [exact H1|]. rewrite H2. exact H3.
Qed.

Lemma NoDup_scan_by_prop s key q : BaseInv s -> NoDup (scan_by_prop s key q).
Proof.
  intros B. unfold scan_by_prop. apply NoDup_filter. unfold node_ids. apply NoDup_zsort.
  unfold live_node_ids. pose proof (b_nd_nodes s B) as ND. revert ND. generalize (nodes s). clear.
  induction l as [|[k r] rest IH]; cbn [map filter fst snd]; intros ND; [constructor|].
  inversion ND as [|? ? Hn ND']. subst. destruct (nrec_vis r (epoch s)); cbn [map fst]; [constructor|]; try (apply IH; exact ND').
  intros H. apply Hn. apply in_map_iff in H. destruct H as [[k' r'] [H1 H2]]. cbn [fst] in H1. subst k'.
  apply filter_In in H2. destruct H2 as [H2 _]. apply in_map_iff. exists (k, r'). auto.
Qed.

(** the index itself agrees with the scan for values without float NaN / zero ... *)
Lemma index_entry_ok s key q ix : BaseInv s -> PropsLive s -> IdxInv s -> zget (pidx s) key = Some ix ->
  has_float_special q = false ->
  NoDup (match vget ix q with Some ns => ns | None => [] end) /\
  (forall n, In n (match vget ix q with Some ns => ns | None => [] end) <-> In n (scan_by_prop s key q)).
Proof.
  intros B PL IX E Hq. destruct (IX key ix E) as [I1 I2]. split.
  - destruct (vget ix q) as [ns|] eqn:V; [exact (I2 q ns V)|constructor].
  - intros n. rewrite (In_scan_by_prop s key q n B).
    assert (In n (match vget ix q with Some ns => ns | None => [] end) <-> in_vix ix q n) as ->.
    { unfold in_vix. destruct (vget ix q) as [ns|]; split.
      - intros H. exists ns. auto.
      - intros [ns' [H1 H2]]. inversion H1. subst. exact H2.
      - intros [].
      - intros [ns' [H1 _]]. discriminate. }
    rewrite I1. split.
    + intros H. split; [apply (PL n key q H)|]. exists q. split; [exact H|]. rewrite (ieee_eq_plain q Hq). apply value_eqb_refl.
    + intros [_ [x [H1 H2]]]. rewrite (ieee_eq_plain q Hq) in H2. apply value_eqb_eq in H2. subst. exact H1.
Qed.

(** ... and find_nodes_by_property (which scans for the other values, fix c82f983) for every value *)
Lemma index_ok_inv s key q : BaseInv s -> PropsLive s -> IdxInv s ->
  NoDup (find_by_prop s key q) /\ (forall n, In n (find_by_prop s key q) <-> In n (scan_by_prop s key q)).
Proof.
  intros B PL IX. unfold find_by_prop. destruct (zget (pidx s) key) as [ix|] eqn:E.
  - destruct (has_float_special q) eqn:Hq.
    + split; [apply NoDup_scan_by_prop; exact B|intros n; reflexivity].
    + apply index_entry_ok; assumption.
  - split; [apply NoDup_scan_by_prop; exact B|intros n; reflexivity].
Qed.

(** the lookup before c82f983 (the index whenever there is one): the same for values without float NaN / zero *)
Lemma index_pre_ok_inv s key q : BaseInv s -> PropsLive s -> IdxInv s -> has_float_special q = false ->
  forall n, In n (find_by_prop_pre s key q) <-> In n (scan_by_prop s key q).
Proof.
  intros B PL IX Hq. unfold find_by_prop_pre. destruct (zget (pidx s) key) as [ix|] eqn:E; [|intros n; reflexivity].
  apply index_entry_ok; assumption.
Qed.
