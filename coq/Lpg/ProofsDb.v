(** C14 — GrafeoDB::delete_node detaches (fix 109e5bf): a GrafeoDB-level history is the
    store-level history in which every delete_node of a live node is preceded by
    delete_node_edges; after delete_node_edges no live edge is incident to the node, so the
    delete leaves nothing dangling. *)
From Coq Require Import ZArith Lia List Bool Permutation.
Import ListNotations.
From GV Require Import Lpg.Model Lpg.Classes Lpg.ProofsBase Lpg.ProofsInv Lpg.ProofsCount Lpg.ProofsAdj Lpg.ProofsDangling.
Open Scope Z_scope.

Lemma drun_expand ds : forall s, drun s ds = run s (dexpand s ds).
Proof.
  induction ds as [|d r IH]; intros s; [reflexivity|]. cbn [dexpand]. rewrite run_app. unfold drun in *. cbn [fold_left].
  rewrite IH. f_equal. destruct d as [o|n]; cbn [dstep dexpand1]; [reflexivity|].
  destruct (node_live s n); reflexivity.
Qed.

(** a live edge after one / several delete_edge calls was live before, is the same record, and is
    not one of the deleted ids *)
Lemma delete_edge_live s e id r : BaseInv s ->
  zget (edges (fst (do_delete_edge s e))) id = Some r -> erec_vis r (epoch (fst (do_delete_edge s e))) = true ->
  id <> e /\ zget (edges s) id = Some r /\ erec_vis r (epoch s) = true.
Proof.
  intros B. destruct (do_delete_edge_frame s e) as (_ & _ & _ & A4 & _). cbv zeta in A4. rewrite A4, (do_delete_edge_edges s e).
  destruct (zget (edges s) e) as [r0|] eqn:E.
  - destruct (erec_vis r0 (epoch s)) eqn:V.
    + rewrite zget_zset. destruct (id =? e) eqn:Q.
      * intros H. injection H as <-. unfold erec_vis. cbn [e_created e_deleted]. unfold mark_del.
        destruct (e_deleted r0) as [d|] eqn:D.
        -- (* a deletion epoch never lies in the future *)
           intros _. exfalso. destruct (b_edges s B e r0 E) as (_ & _ & P2 & _). specialize (P2 d D).
           unfold erec_vis, vis in V. rewrite D in V. apply andb_true_iff in V. destruct V as [_ V]. apply Z.ltb_lt in V. lia.
        -- unfold vis. rewrite Z.ltb_irrefl, andb_false_r. discriminate.
      * apply Z.eqb_neq in Q. auto.
    + intros H V'. split; [|auto]. intros ->. congruence.
  - intros H V'. split; [|auto]. intros ->. congruence.
Qed.

Lemma fold_delete_edge_live l : forall s id r, BaseInv s ->
  let s' := fold_left (fun st e => fst (do_delete_edge st e)) l s in
  zget (edges s') id = Some r -> erec_vis r (epoch s') = true ->
  ~ In id l /\ zget (edges s) id = Some r /\ erec_vis r (epoch s) = true.
Proof.
  induction l as [|e rest IH]; intros s id r B; cbn [fold_left]; [intros H V; split; [intros []|auto]|].
  intros H V. destruct (IH (fst (do_delete_edge s e)) id r (BaseInv_delete_edge s e B) H V) as (N & H1 & V1).
  destruct (delete_edge_live s e id r B H1 V1) as (Q & H2 & V2). split; [|auto]. intros [<-|I]; [apply Q; reflexivity|apply N; exact I].
Qed.

Lemma existsb_false_forall {A} (f : A -> bool) l : (forall x, In x l -> f x = false) -> existsb f l = false.
Proof.
  intros H. destruct (existsb f l) eqn:E; [|reflexivity]. apply existsb_exists in E. destruct E as [x [I F]]. rewrite (H x I) in F. discriminate.
Qed.

(** after delete_node_edges no live edge is incident to the node *)
Lemma detach_clears s n : BaseInv s -> AdjInv s -> has_live_incident (fst (do_delete_node_edges s n)) n = false.
Proof.
  intros B A. assert (B1 : BaseInv (fst (step s (DeleteNodeEdges n)))) by (apply BaseInv_step; exact B). cbn [step] in B1.
  unfold has_live_incident. apply existsb_false_forall. intros [id r] Hin. cbn [snd].
  destruct (live_edge_get _ (id, r) B1 Hin) as (E1 & V1 & _). cbn [fst snd] in E1, V1.
  unfold do_delete_node_edges in E1, V1. cbn [fst] in E1, V1.
  match type of E1 with context [fold_left ?f ?l s] => set (dl := l) in * end.
  destruct (fold_delete_edge_live dl s id r B E1 V1) as (N & E0 & V0).
  assert (L0 : In (id, r) (live_edges s)) by (unfold live_edges; apply filter_In; split; [apply zget_In; exact E0|exact V0]).
  destruct (adj_spec_inv s n B A) as (P1 & _ & _ & P4 & _).
  apply orb_false_iff. split; apply Z.eqb_neq; intros Q; apply N; unfold dl; apply in_or_app.
  - (* an outgoing edge of n: listed by the forward adjacency *)
    left. assert (I : In (e_dst r, id) (out_entries (live_edges s) n)).
    { unfold out_entries. apply In_filter_map. exists (id, r). split; [exact L0|]. cbn [fst snd]. rewrite Q, Z.eqb_refl. reflexivity. }
    apply (Permutation_in _ (Permutation_sym P1)) in I. unfold edges_from in I. rewrite app_nil_r in I.
    apply in_map_iff. exists (e_dst r, id). split; [reflexivity|exact I].
  - (* an incoming edge of n: listed by the backward adjacency or found by the scan *)
    right. destruct (cfg_backward s) eqn:CB.
    + assert (I : In (e_src r, id) (in_entries (live_edges s) n)).
      { unfold in_entries. apply In_filter_map. exists (id, r). split; [exact L0|]. cbn [fst snd]. rewrite Q, Z.eqb_refl. reflexivity. }
      apply (Permutation_in _ (Permutation_sym P4)) in I. unfold edges_to in I. rewrite CB in I.
      apply in_map_iff. exists (e_src r, id). split; [reflexivity|exact I].
    + apply in_map_iff. exists (id, r). split; [reflexivity|]. apply filter_In. split; [apply zget_In; exact E0|].
      cbn [snd]. rewrite V0, Q, Z.eqb_refl. reflexivity.
Qed.

(** the store-level history of a GrafeoDB-level history dangles only where a store-level
    operation of the class does *)
Lemma dexpand_not_dangling ds : forall s, BaseInv s -> AdjInv s ->
  Forall op_wf (dexpand s ds) -> next_edge s + Z.of_nat (length (dexpand s ds)) <= two64 ->
  dhist_dangles s ds = false -> hist_dangles s (dexpand s ds) = false.
Proof.
  induction ds as [|d r IH]; intros s B A W Hn H; [reflexivity|].
  cbn [dexpand dhist_dangles] in *. apply orb_false_iff in H. destruct H as [H1 H2].
  apply Forall_app in W. destruct W as [W1 W2]. rewrite app_length, Nat2Z.inj_add in Hn.
  unfold hist_dangles. rewrite hist_any_app. apply orb_false_iff.
  assert (R : run s (dexpand1 s d) = fst (dstep s d)).
  { destruct d as [o|n]; cbn [dstep dexpand1]; [reflexivity|]. destruct (node_live s n); reflexivity. }
  assert (BA : BaseInv (run s (dexpand1 s d)) /\ AdjInv (run s (dexpand1 s d))) by (apply AdjInv_run_gen; try assumption; lia).
  destruct BA as [B' A'].
  assert (NE : next_edge (run s (dexpand1 s d)) <= next_edge s + Z.of_nat (length (dexpand1 s d))).
  { clear. generalize (dexpand1 s d). intros l. revert s. induction l as [|o l IHl]; intros s; [cbn; lia|].
    rewrite run_cons. cbn [length]. specialize (IHl (fst (step s o))). pose proof (next_edge_step s o). lia. }
  split.
  - destruct d as [o|n]; cbn [dexpand1 dop_dangles] in *.
    + cbn [hist_any]. rewrite H1. reflexivity.
    + destruct (node_live s n) eqn:LV; cbn [hist_any op_dangles].
      * cbn [step]. rewrite (detach_clears s n B A). rewrite andb_false_r. reflexivity.
      * rewrite LV. reflexivity.
  - rewrite R in *. apply IH; try assumption. lia.
Qed.

Lemma db_no_dangling_l b ds :
  hist_wf (dexpand (init b) ds) -> dhist_dangles (init b) ds = false ->
  let s := drun (init b) ds in
  no_dangling s = true /\
  (forall n d e, In (d, e) (out_entries (live_edges s) n) \/ In (d, e) (in_entries (live_edges s) n) -> node_live s d = true).
Proof.
  intros [W L] H. cbv zeta. rewrite drun_expand.
  assert (HD : hist_dangles (init b) (dexpand (init b) ds) = false).
  { apply dexpand_not_dangling; try assumption; [apply BaseInv_init|apply AdjInv_init|cbn [next_edge init]; lia]. }
  destruct (NoDang_run b _ HD) as [B N]. split; [apply no_dangling_of_inv; assumption|].
  intros n d e. apply entries_live; assumption.
Qed.
