(** C14 — zone maps: min/max pruning never claims "no match" when a match exists (outside the
    finding classes K4 / K5).

    Invariant of a property column: every stored value is *covered* by the zone map entry:
    a null is counted, a non-null value is not below the recorded minimum and not above the
    recorded maximum in the sense of [cmp_zone] (the comparison the implementation uses, which is
    partial and goes through [i64 as f64] for Int/Float pairs).  The invariant holds in every
    reachable state because "less than" of [cmp_zone] is transitive (ProofsRound.v). *)
From Coq Require Import ZArith Lia List Bool.
Import ListNotations.
From GV Require Import Lpg.Model Lpg.Classes Lpg.ProofsBase Lpg.ProofsRound.
Open Scope Z_scope.

(** * covering *)
Definition zone_wf (z : zone) : Prop := 0 <= z_nulls z <= z_rows z.

Definition covers (z : zone) (x : value) : Prop :=
  if is_null x then 0 < z_nulls z
  else z_nulls z < z_rows z
       /\ (exists mn, z_min z = Some mn /\ cmp_zone x mn <> Some Lt)
       /\ (exists mx, z_max z = Some mx /\ cmp_zone x mx <> Some Gt).

Lemma zone_wf_insert z v : zone_wf z -> zone_wf (zone_insert z v).
Proof. unfold zone_wf, zone_insert. intros H. destruct (is_null v); cbn [z_nulls z_rows]; lia. Qed.

Lemma covers_insert_new z v : zone_wf z -> covers (zone_insert z v) v.
Proof.
  unfold zone_wf, covers, zone_insert. intros W. destruct (is_null v) eqn:N; cbn [z_nulls z_rows z_min z_max]; [lia|].
  split; [lia|]. destruct (cmp_zone_irrefl v) as [I1 I2]. split.
  - destruct (z_min z) as [cur|]; [|eexists; split; [reflexivity|exact I1]].
    destruct (cmp_zone v cur) as [[]|] eqn:E; eexists; (split; [reflexivity|]); try exact I1; rewrite E; discriminate.
  - destruct (z_max z) as [cur|]; [|eexists; split; [reflexivity|exact I2]].
    destruct (cmp_zone v cur) as [[]|] eqn:E; eexists; (split; [reflexivity|]); try exact I2; rewrite E; discriminate.
Qed.

Lemma covers_insert_old z v x : zone_wf z -> covers z x -> covers (zone_insert z v) x.
Proof.
  unfold zone_wf, covers, zone_insert. intros W. destruct (is_null x) eqn:Nx.
  - destruct (is_null v); cbn [z_nulls]; lia.
  - intros (C & (mn & Emn & Hmn) & (mx & Emx & Hmx)). destruct (is_null v) eqn:Nv; cbn [z_nulls z_rows z_min z_max].
    + split; [lia|]. split; eexists; split; eassumption.
    + split; [lia|]. rewrite Emn, Emx. split.
      * destruct (cmp_zone v mn) as [[]|] eqn:E; eexists; (split; [reflexivity|]); try exact Hmn.
        intros L. apply Hmn. eapply cmp_zone_lt_trans; eassumption.
      * destruct (cmp_zone v mx) as [[]|] eqn:E; eexists; (split; [reflexivity|]); try exact Hmx.
        intros G. apply Hmx. eapply cmp_zone_gt_trans; eassumption.
Qed.

(** * the column / storage invariant *)
Definition ColInv (c : column) : Prop :=
  zone_wf (c_zone c) /\ forall id x, In (id, x) (c_vals c) -> covers (c_zone c) x.
Definition PsInv (p : pstore) : Prop := forall k c, In (k, c) p -> ColInv c.

Lemma ColInv_new : ColInv column_new.
Proof. split; [unfold zone_wf; cbn; lia|intros id x []]. Qed.

Lemma ColInv_set c id v : ColInv c -> ColInv (col_set c id v).
Proof.
  intros [W C]. split; cbn [col_set c_zone c_vals]; [apply zone_wf_insert; exact W|].
  intros k x H. apply In_zset in H. destruct H as [[_ ->]|H].
  - apply covers_insert_new. exact W.
  - apply covers_insert_old; [exact W|]. eapply C. exact H.
Qed.

Lemma ColInv_remove c id : ColInv c -> ColInv (col_remove c id).
Proof.
  intros [W C]. unfold col_remove. destruct (zget (c_vals c) id); [|split; assumption].
  split; cbn [c_zone c_vals]; [exact W|]. intros k x H. apply In_zdel in H. destruct H as [H _]. eapply C. exact H.
Qed.

Lemma PsInv_set p id key v : PsInv p -> PsInv (ps_set p id key v).
Proof.
  intros P k c H. unfold ps_set in H. apply In_zset in H. destruct H as [[_ ->]|H]; [|eapply P; exact H].
  apply ColInv_set. destruct (zget p key) as [c0|] eqn:E; [|apply ColInv_new]. eapply P. apply zget_In. exact E.
Qed.

Lemma PsInv_remove p id key : PsInv p -> PsInv (ps_remove p id key).
Proof.
  intros P. unfold ps_remove. destruct (zget p key) as [c0|] eqn:E; [|exact P].
  intros k c H. apply In_zset in H. destruct H as [[_ ->]|H]; [|eapply P; exact H].
  apply ColInv_remove. eapply P. apply zget_In. exact E.
Qed.

Lemma PsInv_remove_all p id : PsInv p -> PsInv (ps_remove_all p id).
Proof.
  intros P k c H. unfold ps_remove_all in H. apply in_map_iff in H. destruct H as ([k0 c0] & E & H).
  cbn [fst snd] in E. injection E as _ <-. apply ColInv_remove. eapply P. exact H.
Qed.

Definition ZInv (s : state) : Prop := PsInv (nprops s) /\ PsInv (eprops s).

Lemma ZInv_delete_edge s e : ZInv s -> ZInv (fst (do_delete_edge s e)).
Proof.
  intros [N E]. unfold do_delete_edge. psimpl.
  destruct (zget (edges s) e) as [r|]; [destruct (erec_vis r (epoch s))|]; psimpl; split; try assumption.
  apply PsInv_remove_all. exact E.
Qed.

Lemma ZInv_step s o : ZInv s -> ZInv (fst (step s o)).
Proof.
  intros Z. pose proof Z as [N E]. destruct o; cbn [step].
  - (* CreateNode *) unfold do_create_node. destruct (create_node_labels (lab_names s) (lab_index s) [] (next_node s) labels) as [[a b] c].
    psimpl. exact Z.
  - (* DeleteNode *) unfold do_delete_node. psimpl. destruct (zget (nodes s) n) as [r|]; [|exact Z].
    destruct (nrec_vis r (epoch s)); [|exact Z]. psimpl.
    destruct (zget (node_labels s) n); psimpl; (split; [apply PsInv_remove_all; exact N|exact E]).
  - (* DeleteNodeEdges *) unfold do_delete_node_edges. cbn [fst]. apply fold_left_inv; [|exact Z]. intros st a. apply ZInv_delete_edge.
  - (* CreateEdge *) unfold do_create_edge. psimpl. destruct (get_or_create (ety_names s) ty). psimpl. exact Z.
  - apply ZInv_delete_edge. exact Z.
  - unfold do_set_node_prop. psimpl. split; [apply PsInv_set; exact N|exact E].
  - unfold do_remove_node_prop. psimpl. split; [apply PsInv_remove; exact N|exact E].
  - unfold do_set_edge_prop. psimpl. split; [exact N|apply PsInv_set; exact E].
  - unfold do_remove_edge_prop. psimpl. split; [exact N|apply PsInv_remove; exact E].
  - unfold do_add_label. destruct (node_live s n); [|exact Z]. destruct (get_or_create (lab_names s) l).
    destruct (mem z (match zget (node_labels s) n with Some x => x | None => [] end)); psimpl; exact Z.
  - unfold do_remove_label. destruct (node_live s n); [|exact Z]. destruct (find_pos l (lab_names s) 0); [|exact Z].
    destruct (zget (node_labels s) n); [|exact Z]. destruct (mem z l0); psimpl; exact Z.
  - unfold do_create_index. destruct (zget (pidx s) key); psimpl; exact Z.
  - unfold do_drop_index. destruct (zget (pidx s) key); psimpl; exact Z.
  - psimpl. exact Z.
  - psimpl. exact Z.
  - psimpl. exact Z.
  - unfold do_refresh_stats. destruct (stats_dirty s); psimpl; exact Z.
  - psimpl. exact Z.
Qed.

Lemma ZInv_run b ops : ZInv (run (init b) ops).
Proof. apply run_inv; [exact ZInv_step|]. split; intros k c []. Qed.

Lemma ps_get_covers p n key x : PsInv p -> ps_get p n key = Some x ->
  exists c, zget p key = Some c /\ ColInv c /\ In (n, x) (c_vals c) /\ covers (c_zone c) x.
Proof.
  intros P H. unfold ps_get in H. destruct (zget p key) as [c|] eqn:E; [|discriminate].
  assert (CI : ColInv c) by (eapply P; apply zget_In; exact E).
  unfold col_get in H. apply zget_In in H. exists c. split; [reflexivity|]. split; [exact CI|]. split; [exact H|].
  destruct CI as [_ C]. eapply C. exact H.
Qed.

(** * soundness of the pruning predicates *)

Lemma existsb_false_in {A} (f : A -> bool) l : existsb f l = false -> forall x, In x l -> f x = false.
Proof.
  intros H x Hx. destruct (f x) eqn:E; [|reflexivity].
  assert (existsb f l = true) by (apply existsb_exists; exists x; auto). congruence.
Qed.

(** what "outside K4" gives: no big integer, or no float, among the values involved *)
Definition round_ok (l : list value) : Prop :=
  (forall v, In v l -> is_big_int v = false) \/ (forall v, In v l -> is_float v = false).

Lemma round_ok_of_class c o q : (o = OpLt \/ o = OpGt) -> k_zone_round_col c o q = false -> round_ok (q :: col_values c).
Proof.
  intros Ho H. assert (H' : existsb is_big_int (q :: col_values c) && existsb is_float (q :: col_values c) = false)
    by (destruct Ho as [-> | ->]; exact H).
  apply andb_false_iff in H'. destruct H' as [H'|H']; [left|right]; apply existsb_false_in; exact H'.
Qed.

Lemma round_ok_sub l l' : round_ok l -> (forall v, In v l' -> In v l) -> round_ok l'.
Proof. intros [H|H] S; [left|right]; intros v Hv; apply H, S, Hv. Qed.

Lemma not_big_round i : is_big_int (VInt i) = false -> round53 i = i.
Proof.
  cbn [is_big_int]. intros H. apply Z.leb_gt in H. apply round53_small.
  change (2 ^ 53) with 9007199254740992. exact H.
Qed.

(** the strict comparisons: the bound compares Equal to the query value although a stored value is
    strictly on the matching side -- impossible outside K4 *)
Lemma strict_eq_contra_lt mn x q :
  cmp_zone mn q = Some Eq -> cmp_range x q = Some Lt -> cmp_zone x mn <> Some Lt -> round_ok [q; x; mn] -> False.
Proof.
  pose proof scale_pos as SP. intros E R N OK. revert E R N.
  destruct x, q; cbn [cmp_range]; try (intros ? ?; discriminate); destruct mn; cbn [cmp_zone]; try (intros ?; discriminate);
    unfold cmp_int_f64, cmp_f64_int, f64_cmp;
    repeat match goal with |- context [f64_num ?x] => destruct (f64_num x) eqn:? end; intros E R N; try discriminate E; try discriminate R.
  - destruct b, b0, b1; cbn [bool_cmp] in R, E, N; try discriminate; congruence.
  - zcmp. subst. apply N. f_equal. exact R.
  - zcmp. destruct OK as [OK|OK].
    + rewrite (not_big_round i) in N by (apply OK; cbn; auto). rewrite (not_big_round i0) in E by (apply OK; cbn; auto).
      apply N. zcmp. nia.
    + specialize (OK (VFloat bits)). cbn in OK. discriminate OK. auto.
  - zcmp. apply N. zcmp. lia.
  - zcmp. apply N. zcmp. lia.
  - injection E as E. apply lex_cmp_eq in E. subst. apply N. exact R.
Qed.

Lemma strict_eq_contra_gt mx x q :
  cmp_zone mx q = Some Eq -> cmp_range x q = Some Gt -> cmp_zone x mx <> Some Gt -> round_ok [q; x; mx] -> False.
Proof.
  pose proof scale_pos as SP. intros E R N OK. revert E R N.
  destruct x, q; cbn [cmp_range]; try (intros ? ?; discriminate); destruct mx; cbn [cmp_zone]; try (intros ?; discriminate);
    unfold cmp_int_f64, cmp_f64_int, f64_cmp;
    repeat match goal with |- context [f64_num ?x] => destruct (f64_num x) eqn:? end; intros E R N; try discriminate E; try discriminate R.
  - destruct b, b0, b1; cbn [bool_cmp] in R, E, N; try discriminate; congruence.
  - zcmp. subst. apply N. f_equal. apply Z.compare_gt_iff. exact R.
  - zcmp. destruct OK as [OK|OK].
    + rewrite (not_big_round i) in N by (apply OK; cbn; auto). rewrite (not_big_round i0) in E by (apply OK; cbn; auto).
      apply N. zcmp. nia.
    + specialize (OK (VFloat bits)). cbn in OK. discriminate OK. auto.
  - zcmp. apply N. zcmp. lia.
  - zcmp. apply N. zcmp. lia.
  - injection E as E. apply lex_cmp_eq in E. subst. apply N. exact R.
Qed.

Lemma cmp_range_nonnull x q c : cmp_range x q = Some c -> is_null x = false.
Proof. destruct x; cbn; try discriminate; reflexivity. Qed.

(** might_contain_less_than *)
Lemma zone_lt_sound z x q incl :
  covers z x ->
  (cmp_range x q = Some Lt \/ (incl = true /\ cmp_range x q = Some Eq)) ->
  (incl = false -> forall mn, z_min z = Some mn -> round_ok [q; x; mn]) ->
  zone_lt z q incl = true.
Proof.
  intros C R OK. assert (NN : is_null x = false) by (destruct R as [R|[_ R]]; eapply cmp_range_nonnull; exact R).
  unfold covers in C. rewrite NN in C. destruct C as (_ & (mn & Emn & Hmn) & _).
  unfold zone_lt. rewrite Emn. destruct (cmp_zone mn q) as [[]|] eqn:E; try reflexivity.
  - (* Eq *) destruct incl; [reflexivity|]. exfalso. destruct R as [R|[R _]]; [|discriminate R].
    eapply strict_eq_contra_lt; try eassumption. apply OK; [reflexivity|exact Emn].
  - (* Gt: the minimum is above the query value *)
    exfalso. apply cmp_zone_gt_lt in E. destruct R as [R|[_ R]].
    + apply Hmn. eapply cmp_zone_lt_trans; [apply cmp_range_zone; exact R|exact E].
    + apply Hmn. rewrite (cmp_range_eq_congr x q mn R). exact E.
Qed.

(** might_contain_greater_than *)
Lemma zone_gt_sound z x q incl :
  covers z x ->
  (cmp_range x q = Some Gt \/ (incl = true /\ cmp_range x q = Some Eq)) ->
  (incl = false -> forall mx, z_max z = Some mx -> round_ok [q; x; mx]) ->
  zone_gt z q incl = true.
Proof.
  intros C R OK. assert (NN : is_null x = false) by (destruct R as [R|[_ R]]; eapply cmp_range_nonnull; exact R).
  unfold covers in C. rewrite NN in C. destruct C as (_ & _ & (mx & Emx & Hmx)).
  unfold zone_gt. rewrite Emx. destruct (cmp_zone mx q) as [[]|] eqn:E; try reflexivity.
  - destruct incl; [reflexivity|]. exfalso. destruct R as [R|[R _]]; [|discriminate R].
    eapply strict_eq_contra_gt; try eassumption. apply OK; [reflexivity|exact Emx].
  - exfalso. assert (E' : cmp_zone q mx = Some Gt) by (apply cmp_zone_gt_lt; exact E). destruct R as [R|[_ R]].
    + apply Hmx. eapply cmp_zone_gt_trans; [apply cmp_range_zone; exact R|exact E'].
    + apply Hmx. rewrite (cmp_range_eq_congr x q mx R). exact E'.
Qed.
