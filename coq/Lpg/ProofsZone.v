(** C14 — zone maps: min/max pruning never claims "no match" when a match exists (outside the
    finding classes K4 / K5).

    Invariant of a property column: every stored value is *covered* by the zone map entry:
    a null is counted, a non-null value is not below the recorded minimum and not above the
    recorded maximum in the sense of [cmp_zone] (the comparison the implementation uses, which is
    partial and goes through [i64 as f64] for Int/Float pairs).  The invariant holds in every
    reachable state because "less than" of [cmp_zone] is transitive (ProofsRound.v). *)
From Coq Require Import ZArith Lia List Bool.
Import ListNotations.
From GV Require Import Lpg.Model Lpg.Classes Lpg.ProofsBase Lpg.ProofsRound.
Open Scope Z_scope.

(** * covering *)
Definition zone_wf (z : zone) : Prop := 0 <= z_nulls z <= z_rows z.

Definition covers (z : zone) (x : value) : Prop :=
  if is_null x then 0 < z_nulls z
  else z_nulls z < z_rows z
       /\ (exists mn, z_min z = Some mn /\ cmp_zone x mn <> Some Lt)
       /\ (exists mx, z_max z = Some mx /\ cmp_zone x mx <> Some Gt).

Lemma zone_wf_insert z v : zone_wf z -> zone_wf (zone_insert z v).
Proof. unfold zone_wf, zone_insert. intros H. destruct (is_null v); cbn [z_nulls z_rows]; lia. Qed.

Lemma covers_insert_new z v : zone_wf z -> covers (zone_insert z v) v.
Proof.
  unfold zone_wf, covers, zone_insert. intros W. destruct (is_null v) eqn:N; cbn [z_nulls z_rows z_min z_max]; [lia|].
  split; [lia|]. destruct (cmp_zone_irrefl v) as [I1 I2]. split.
  - destruct (z_min z) as [cur|]; [|eexists; split; [reflexivity|exact I1]].
    destruct (cmp_zone v cur) as [[]|] eqn:E; eexists; (split; [reflexivity|]); try exact I1; rewrite E; discriminate.
  - destruct (z_max z) as [cur|]; [|eexists; split; [reflexivity|exact I2]].
    destruct (cmp_zone v cur) as [[]|] eqn:E; eexists; (split; [reflexivity|]); try exact I2; rewrite E; discriminate.
Qed.

Lemma covers_insert_old z v x : zone_wf z -> covers z x -> covers (zone_insert z v) x.
Proof.
  unfold zone_wf, covers, zone_insert. intros W. destruct (is_null x) eqn:Nx.
  - destruct (is_null v); cbn [z_nulls]; lia.
  - intros (C & (mn & Emn & Hmn) & (mx & Emx & Hmx)). destruct (is_null v) eqn:Nv; cbn [z_nulls z_rows z_min z_max].
    + split; [lia|]. split; eexists; split; eassumption.
    + split; [lia|]. rewrite Emn, Emx. split.
      * destruct (cmp_zone v mn) as [[]|] eqn:E; eexists; (split; [reflexivity|]); try exact Hmn.
        intros L. apply Hmn. eapply cmp_zone_lt_trans; eassumption.
      * destruct (cmp_zone v mx) as [[]|] eqn:E; eexists; (split; [reflexivity|]); try exact Hmx.
        intros G. apply Hmx. eapply cmp_zone_gt_trans; eassumption.
Qed.

(** * the column / storage invariant *)
Definition ColInv (c : column) : Prop :=
  zone_wf (c_zone c) /\ forall id x, In (id, x) (c_vals c) -> covers (c_zone c) x.
Definition PsInv (p : pstore) : Prop := forall k c, In (k, c) p -> ColInv c.

Lemma ColInv_new : ColInv column_new.
Proof. split; [unfold zone_wf; cbn; lia|intros id x []]. Qed.

Lemma ColInv_set c id v : ColInv c -> ColInv (col_set c id v).
Proof.
  intros [W C]. split; cbn [col_set c_zone c_vals]; [apply zone_wf_insert; exact W|].
  intros k x H. apply In_zset in H. destruct H as [[_ ->]|H].
  - apply covers_insert_new. exact W.
  - apply covers_insert_old; [exact W|]. eapply C. exact H.
Qed.

Lemma ColInv_remove c id : ColInv c -> ColInv (col_remove c id).
Proof.
  intros [W C]. unfold col_remove. destruct (zget (c_vals c) id); [|split; assumption].
  split; cbn [c_zone c_vals]; [exact W|]. intros k x H. apply In_zdel in H. destruct H as [H _]. eapply C. exact H.
Qed.

Lemma PsInv_set p id key v : PsInv p -> PsInv (ps_set p id key v).
Proof.
  intros P k c H. unfold ps_set in H. apply In_zset in H. destruct H as [[_ ->]|H]; [|eapply P; exact H].
  apply ColInv_set. destruct (zget p key) as [c0|] eqn:E; [|apply ColInv_new]. eapply P. apply zget_In. exact E.
Qed.

Lemma PsInv_remove p id key : PsInv p -> PsInv (ps_remove p id key).
Proof.
  intros P. unfold ps_remove. destruct (zget p key) as [c0|] eqn:E; [|exact P].
  intros k c H. apply In_zset in H. destruct H as [[_ ->]|H]; [|eapply P; exact H].
  apply ColInv_remove. eapply P. apply zget_In. exact E.
Qed.

Lemma PsInv_remove_all p id : PsInv p -> PsInv (ps_remove_all p id).
Proof.
  intros P k c H. unfold ps_remove_all in H. apply in_map_iff in H. destruct H as ([k0 c0] & E & H).
  cbn [fst snd] in E. injection E as _ <-. apply ColInv_remove. eapply P. exact H.
Qed.

Definition ZInv (s : state) : Prop := PsInv (nprops s) /\ PsInv (eprops s).

Lemma ZInv_delete_edge s e : ZInv s -> ZInv (fst (do_delete_edge s e)).
Proof.
  intros [N E]. unfold do_delete_edge. psimpl.
  destruct (zget (edges s) e) as [r|]; [destruct (erec_vis r (epoch s))|]; psimpl; split; try assumption.
  apply PsInv_remove_all. exact E.
Qed.

Lemma ZInv_step s o : ZInv s -> ZInv (fst (step s o)).
Proof.
  intros Z. pose proof Z as [N E]. destruct o; cbn [step].
  - (* CreateNode *) unfold do_create_node. destruct (create_node_labels (lab_names s) (lab_index s) [] (next_node s) labels) as [[a b] c].
    psimpl. exact Z.
  - (* DeleteNode *) unfold do_delete_node. psimpl. destruct (zget (nodes s) n) as [r|]; [|exact Z].
    destruct (nrec_vis r (epoch s)); [|exact Z]. psimpl.
    destruct (zget (node_labels s) n); psimpl; (split; [apply PsInv_remove_all; exact N|exact E]).
  - (* DeleteNodeEdges *) unfold do_delete_node_edges. cbn [fst]. apply fold_left_inv; [|exact Z]. intros st a. apply ZInv_delete_edge.
  - (* CreateEdge *) unfold do_create_edge. psimpl. destruct (get_or_create (ety_names s) ty). psimpl. exact Z.
  - apply ZInv_delete_edge. exact Z.
  - unfold do_set_node_prop. psimpl. split; [apply PsInv_set; exact N|exact E].
  - unfold do_remove_node_prop. psimpl. split; [apply PsInv_remove; exact N|exact E].
  - unfold do_set_edge_prop. psimpl. split; [exact N|apply PsInv_set; exact E].
  - unfold do_remove_edge_prop. psimpl. split; [exact N|apply PsInv_remove; exact E].
  - unfold do_add_label. destruct (node_live s n); [|exact Z]. destruct (get_or_create (lab_names s) l).
    destruct (mem z (match zget (node_labels s) n with Some x => x | None => [] end)); psimpl; exact Z.
  - unfold do_remove_label. destruct (node_live s n); [|exact Z]. destruct (find_pos l (lab_names s) 0); [|exact Z].
    destruct (zget (node_labels s) n); [|exact Z]. destruct (mem z l0); psimpl; exact Z.
  - unfold do_create_index. destruct (zget (pidx s) key); psimpl; exact Z.
  - unfold do_drop_index. destruct (zget (pidx s) key); psimpl; exact Z.
  - psimpl. exact Z.
  - psimpl. exact Z.
  - psimpl. exact Z.
  - unfold do_refresh_stats. destruct (stats_dirty s); psimpl; exact Z.
  - psimpl. exact Z.
Qed.

Lemma ZInv_run b ops : ZInv (run (init b) ops).
Proof. apply run_inv; [exact ZInv_step|]. split; intros k c []. Qed.

Lemma ps_get_covers p n key x : PsInv p -> ps_get p n key = Some x ->
  exists c, zget p key = Some c /\ ColInv c /\ In (n, x) (c_vals c) /\ covers (c_zone c) x.
Proof.
  intros P H. unfold ps_get in H. destruct (zget p key) as [c|] eqn:E; [|discriminate].
  assert (CI : ColInv c) by (eapply P; apply zget_In; exact E).
  unfold col_get in H. apply zget_In in H. exists c. split; [reflexivity|]. split; [exact CI|]. split; [exact H|].
  destruct CI as [_ C]. eapply C. exact H.
Qed.

(** * soundness of the pruning predicates *)

Lemma existsb_false_in {A} (f : A -> bool) l : existsb f l = false -> forall x, In x l -> f x = false.
Proof.
  intros H x Hx. destruct (f x) eqn:E; [|reflexivity].
  assert (existsb f l = true) by (apply existsb_exists; exists x; auto). congruence.
Qed.

(** what "outside K4" gives: no big integer, or no float, among the values involved *)
Definition round_ok (l : list value) : Prop :=
  (forall v, In v l -> is_big_int v = false) \/ (forall v, In v l -> is_float v = false).

Lemma round_ok_of_class c o q : (o = OpLt \/ o = OpGt) -> k_zone_round_col c o q = false -> round_ok (q :: col_values c).
Proof.
  intros Ho H. assert (H' : existsb is_big_int (q :: col_values c) && existsb is_float (q :: col_values c) = false)
    by (destruct Ho as [-> | ->]; exact H).
  apply andb_false_iff in H'. destruct H' as [H'|H']; [left|right]; apply existsb_false_in; exact H'.
Qed.

Lemma round_ok_sub l l' : round_ok l -> (forall v, In v l' -> In v l) -> round_ok l'.
Proof. intros [H|H] S; [left|right]; intros v Hv; apply H, S, Hv. Qed.

Lemma not_big_round i : is_big_int (VInt i) = false -> round53 i = i.
Proof.
  cbn [is_big_int]. intros H. apply Z.leb_gt in H. apply round53_small.
  change (2 ^ 53) with 9007199254740992. exact H.
Qed.

(** the strict comparisons: the bound compares Equal to the query value although a stored value is
    strictly on the matching side -- impossible outside K4 *)
Lemma strict_eq_contra_lt mn x q :
  cmp_zone mn q = Some Eq -> cmp_range x q = Some Lt -> cmp_zone x mn <> Some Lt -> round_ok [q; x; mn] -> False.
Proof.
  pose proof scale_pos as SP. intros E R N OK. revert E R N.
  destruct x, q; cbn [cmp_range]; try (intros ? ?; discriminate); destruct mn; cbn [cmp_zone]; try (intros ?; discriminate);
    unfold cmp_int_f64, cmp_f64_int, f64_cmp;
    repeat match goal with |- context [f64_num ?x] => destruct (f64_num x) eqn:? end; intros E R N; try discriminate E; try discriminate R.
  - destruct b, b0, b1; cbn [bool_cmp] in R, E, N; try discriminate; congruence.
  - zcmp. subst. apply N. f_equal. exact R.
  - zcmp. destruct OK as [OK|OK].
    + rewrite (not_big_round i) in N by (apply OK; cbn; auto). rewrite (not_big_round i0) in E by (apply OK; cbn; auto).
      apply N. zcmp. nia.
    + specialize (OK (VFloat bits)). cbn in OK. discriminate OK. auto.
  - zcmp. apply N. zcmp. lia.
  - zcmp. apply N. zcmp. lia.
  - injection E as E. apply lex_cmp_eq in E. subst. apply N. exact R.
Qed.

Lemma strict_eq_contra_gt mx x q :
  cmp_zone mx q = Some Eq -> cmp_range x q = Some Gt -> cmp_zone x mx <> Some Gt -> round_ok [q; x; mx] -> False.
Proof.
  pose proof scale_pos as SP. intros E R N OK. revert E R N.
  destruct x, q; cbn [cmp_range]; try (intros ? ?; discriminate); destruct mx; cbn [cmp_zone]; try (intros ?; discriminate);
    unfold cmp_int_f64, cmp_f64_int, f64_cmp;
    repeat match goal with |- context [f64_num ?x] => destruct (f64_num x) eqn:? end; intros E R N; try discriminate E; try discriminate R.
  - destruct b, b0, b1; cbn [bool_cmp] in R, E, N; try discriminate; congruence.
  - zcmp. subst. apply N. f_equal. apply Z.compare_gt_iff. exact R.
  - zcmp. destruct OK as [OK|OK].
    + rewrite (not_big_round i) in N by (apply OK; cbn; auto). rewrite (not_big_round i0) in E by (apply OK; cbn; auto).
      apply N. zcmp. nia.
    + specialize (OK (VFloat bits)). cbn in OK. discriminate OK. auto.
  - zcmp. apply N. zcmp. lia.
  - zcmp. apply N. zcmp. lia.
  - injection E as E. apply lex_cmp_eq in E. subst. apply N. exact R.
Qed.

Lemma cmp_range_nonnull x q c : cmp_range x q = Some c -> is_null x = false.
Proof. destruct x; cbn; try discriminate; reflexivity. Qed.

(** might_contain_less_than *)
Lemma zone_lt_sound z x q incl :
  covers z x ->
  (cmp_range x q = Some Lt \/ (incl = true /\ cmp_range x q = Some Eq)) ->
  (incl = false -> forall mn, z_min z = Some mn -> round_ok [q; x; mn]) ->
  zone_lt z q incl = true.
Proof.
  intros C R OK. assert (NN : is_null x = false) by (destruct R as [R|[_ R]]; eapply cmp_range_nonnull; exact R).
  unfold covers in C. rewrite NN in C. destruct C as (_ & (mn & Emn & Hmn) & _).
  unfold zone_lt. rewrite Emn. destruct (cmp_zone mn q) as [[]|] eqn:E; try reflexivity.
  - (* Eq *) destruct incl; [reflexivity|]. exfalso. destruct R as [R|[R _]]; [|discriminate R].
    eapply strict_eq_contra_lt; try eassumption. apply OK; [reflexivity|exact Emn].
  - (* Gt: the minimum is above the query value *)
    exfalso. apply cmp_zone_gt_lt in E. destruct R as [R|[_ R]].
    + apply Hmn. eapply cmp_zone_lt_trans; [apply cmp_range_zone; exact R|exact E].
    + apply Hmn. rewrite (cmp_range_eq_congr x q mn R). exact E.
Qed.

(** might_contain_greater_than *)
Lemma zone_gt_sound z x q incl :
  covers z x ->
  (cmp_range x q = Some Gt \/ (incl = true /\ cmp_range x q = Some Eq)) ->
  (incl = false -> forall mx, z_max z = Some mx -> round_ok [q; x; mx]) ->
  zone_gt z q incl = true.
Proof.
  intros C R OK. assert (NN : is_null x = false) by (destruct R as [R|[_ R]]; eapply cmp_range_nonnull; exact R).
  unfold covers in C. rewrite NN in C. destruct C as (_ & _ & (mx & Emx & Hmx)).
  unfold zone_gt. rewrite Emx. destruct (cmp_zone mx q) as [[]|] eqn:E; try reflexivity.
  - destruct incl; [reflexivity|]. exfalso. destruct R as [R|[R _]]; [|discriminate R].
    eapply strict_eq_contra_gt; try eassumption. apply OK; [reflexivity|exact Emx].
  - exfalso. assert (E' : cmp_zone q mx = Some Gt) by (apply cmp_zone_gt_lt; exact E). destruct R as [R|[_ R]].
    + apply Hmx. eapply cmp_zone_gt_trans; [apply cmp_range_zone; exact R|exact E'].
    + apply Hmx. rewrite (cmp_range_eq_congr x q mx R). exact E'.
Qed.

(** * equality pruning *)

Lemma f64_zero_num b : f64_is_zero b = true -> f64_num b = Some 0.
Proof.
  unfold f64_is_zero, f64_mag, f64_num. intros H. apply Z.eqb_eq in H.
  change (2 ^ 63) with 9223372036854775808 in *. change (2 ^ 52) with 4503599627370496.
  change (2 ^ 11) with 2048.
  assert (E1 : (b / 4503599627370496) mod 2048 = 0) by (Z.div_mod_to_equations; lia).
  assert (E2 : b mod 4503599627370496 = 0) by (Z.div_mod_to_equations; lia).
  rewrite E1, E2. cbn [Z.eqb Z.mul]. destruct (b / 9223372036854775808 =? 0); reflexivity.
Qed.

Lemma f64_eq_num x y : f64_eq x y = true -> f64_num x = f64_num y.
Proof.
  unfold f64_eq. intros H. apply andb_true_iff in H. destruct H as [_ H]. apply orb_true_iff in H.
  destruct H as [H|H]; [apply Z.eqb_eq in H; subst; reflexivity|].
  apply andb_true_iff in H. destruct H as [H1 H2]. rewrite (f64_zero_num x H1), (f64_zero_num y H2). reflexivity.
Qed.

(** values equal under [Value::eq] behave alike under [cmp_zone] *)
Lemma ieee_eq_congr x q m : value_ieee_eqb x q = true -> cmp_zone x m = cmp_zone q m.
Proof.
  destruct x, q; cbn [value_ieee_eqb]; try discriminate; intros H; try reflexivity.
  - apply Bool.eqb_prop in H. subst. reflexivity.
  - apply Z.eqb_eq in H. subst. reflexivity.
  - apply f64_eq_num in H. destruct m; cbn [cmp_zone]; try reflexivity; unfold cmp_f64_int, f64_cmp; rewrite H; reflexivity.
  - apply zlist_eqb_eq in H. subst. reflexivity.
Qed.

Lemma ieee_eq_null x q : value_ieee_eqb x q = true -> is_null x = is_null q.
Proof. destruct x, q; cbn [value_ieee_eqb is_null]; try discriminate; reflexivity. Qed.

(** might_contain_equal *)
Lemma zone_eq_sound z x q : covers z x -> value_ieee_eqb x q = true -> zone_eq z q = true.
Proof.
  intros C H. unfold zone_eq, covers in *. rewrite (ieee_eq_null x q H) in C. destruct (is_null q).
  - apply Z.ltb_lt. exact C.
  - destruct C as (C & (mn & Emn & Hmn) & (mx & Emx & Hmx)).
    assert (A : zone_all_null z = false).
    { unfold zone_all_null. apply andb_false_iff. right. apply Z.eqb_neq. lia. }
    rewrite A, Emn, Emx. rewrite <- (ieee_eq_congr x q mn H), <- (ieee_eq_congr x q mx H).
    destruct (cmp_zone x mn) as [[]|]; try reflexivity; try (exfalso; apply Hmn; reflexivity);
      destruct (cmp_zone x mx) as [[]|]; try reflexivity; exfalso; apply Hmx; reflexivity.
Qed.

(** * inequality pruning (outside K5; query values of type Float64: see [zone_ne_sound_float]) *)

Definition ne_ok (q : value) (l : list value) : Prop := forall v, In v l -> odd_for_ne q v = false.

Lemma ne_ok_tag q v : odd_for_ne q v = false -> is_null v = false -> vtag v = vtag q.
Proof.
  unfold odd_for_ne. intros H N. rewrite N in H. cbn [negb andb] in H. apply orb_false_iff in H. destruct H as [H _].
  apply negb_false_iff in H. apply Z.eqb_eq in H. exact H.
Qed.

Lemma cmp_some_nonnull a b c : cmp_zone a b = Some c -> is_null a = false.
Proof. destruct a; cbn; try discriminate; reflexivity. Qed.

Lemma zone_ne_sound_nonfloat z x q :
  covers z x -> is_null x = false -> value_ieee_eqb x q = false -> is_float q = false ->
  (forall mn mx, z_min z = Some mn -> z_max z = Some mx -> ne_ok q [x; mn; mx]) ->
  match z_min z, z_max z with
  | Some mn, Some mx => negb (match cmp_zone mn q, cmp_zone mx q with Some Eq, Some Eq => true | _, _ => false end)
  | _, _ => true
  end = true.
Proof.
  intros C NN NE NF OK. unfold covers in C. rewrite NN in C. destruct C as (_ & (mn & Emn & Hmn) & (mx & Emx & Hmx)).
  rewrite Emn, Emx. specialize (OK mn mx Emn Emx).
  destruct (cmp_zone mn q) as [[]|] eqn:E1; try reflexivity. destruct (cmp_zone mx q) as [[]|] eqn:E2; try reflexivity.
  exfalso.
  assert (Tx : vtag x = vtag q) by (apply ne_ok_tag; [apply OK; cbn; auto|exact NN]).
  assert (Tn : vtag mn = vtag q) by (apply ne_ok_tag; [apply OK; cbn; auto|eapply cmp_some_nonnull; exact E1]).
  assert (Tm : vtag mx = vtag q) by (apply ne_ok_tag; [apply OK; cbn; auto|eapply cmp_some_nonnull; exact E2]).
  destruct q; cbn [is_float] in NF; try discriminate NF;
    destruct mn; cbn [vtag] in Tn; try discriminate Tn; cbn [cmp_zone] in E1; try discriminate E1;
    destruct mx; cbn [vtag] in Tm; try discriminate Tm; cbn [cmp_zone] in E2; try discriminate E2;
    destruct x; cbn [vtag] in Tx; try discriminate Tx; cbn [cmp_zone value_ieee_eqb] in Hmn, Hmx, NE.
  - destruct b, b0, b1, b2; cbn in *; try discriminate; try (apply Hmn; reflexivity); try (apply Hmx; reflexivity).
  - zcmp. subst. apply Z.eqb_neq in NE. destruct (Z.compare_spec i2 i) as [EE|LL|GG]; [apply NE; exact EE|apply Hmn; reflexivity|apply Hmx; reflexivity].
  - injection E1 as E1. injection E2 as E2. apply lex_cmp_eq in E1. apply lex_cmp_eq in E2. subst.
    destruct (lex_cmp s2 s) eqn:L; [|apply Hmn; reflexivity|apply Hmx; reflexivity].
    apply lex_cmp_eq in L. subst. assert (T : zlist_eqb s s = true) by (apply zlist_eqb_eq; reflexivity). congruence.
Qed.

(** * the column-level theorem *)

Lemma In_col_values_stored c n x : In (n, x) (c_vals c) -> In x (col_values c).
Proof. intros H. unfold col_values. apply in_or_app. left. apply in_map_iff. exists (n, x). split; [reflexivity|exact H]. Qed.
Lemma In_col_values_min c mn : z_min (c_zone c) = Some mn -> In mn (col_values c).
Proof. intros H. unfold col_values. apply in_or_app. right. apply in_or_app. left. rewrite H. cbn. auto. Qed.
Lemma In_col_values_max c mx : z_max (c_zone c) = Some mx -> In mx (col_values c).
Proof. intros H. unfold col_values. apply in_or_app. right. apply in_or_app. right. rewrite H. cbn. auto. Qed.

Lemma col_might_match_pre_sound c o q n x :
  ColInv c -> In (n, x) (c_vals c) -> sat o x q = true ->
  k_zone_round_col c o q = false -> k_zone_ne_col c o q = false -> (o = OpNe -> is_float q = false) ->
  col_might_match_pre c o q = true.
Proof.
  intros [W C] Hin S K4 K5 NF. pose proof (C n x Hin) as Cx. unfold col_might_match_pre. destruct (c_dirty c); [reflexivity|].
  assert (SUB : forall b, z_min (c_zone c) = Some b \/ z_max (c_zone c) = Some b ->
                          forall v, In v [q; x; b] -> In v (q :: col_values c)).
  { intros b Hb v [<-|[<-|[<-|[]]]]; [left; reflexivity|right; eapply In_col_values_stored; exact Hin|].
    right. destruct Hb as [Hb|Hb]; [apply In_col_values_min|apply In_col_values_max]; exact Hb. }
  destruct o; cbn [sat] in S.
  - eapply zone_eq_sound; eassumption.
  - apply andb_true_iff in S. destruct S as [S1 S2]. apply negb_true_iff in S1, S2.
    apply zone_ne_sound_nonfloat with (x := x); try assumption; [apply NF; reflexivity|].
    intros mn mx Emn Emx v Hv. cbn [k_zone_ne_col] in K5. apply (existsb_false_in _ _ K5).
    destruct Hv as [<-|[<-|[<-|[]]]]; [eapply In_col_values_stored; exact Hin|apply In_col_values_min; exact Emn|apply In_col_values_max; exact Emx].
  - apply zone_lt_sound with (x := x); [exact Cx|left; destruct (cmp_range x q) as [[]|]; try discriminate S; reflexivity|].
    intros _ mn Emn. eapply round_ok_sub; [apply (round_ok_of_class c OpLt q); [left; reflexivity|exact K4]|]. apply SUB. left. exact Emn.
  - apply zone_lt_sound with (x := x); [exact Cx| |intros F; discriminate F].
    destruct (cmp_range x q) as [[]|]; try discriminate S; [right; split; reflexivity|left; reflexivity].
  - apply zone_gt_sound with (x := x); [exact Cx|left; destruct (cmp_range x q) as [[]|]; try discriminate S; reflexivity|].
    intros _ mx Emx. eapply round_ok_sub; [apply (round_ok_of_class c OpGt q); [right; reflexivity|exact K4]|]. apply SUB. right. exact Emx.
  - apply zone_gt_sound with (x := x); [exact Cx| |intros F; discriminate F].
    destruct (cmp_range x q) as [[]|]; try discriminate S; [right; split; reflexivity|left; reflexivity].
Qed.

Lemma ps_might_match_pre_sound_nf p key o q n x :
  PsInv p -> ps_get p n key = Some x -> sat o x q = true ->
  ps_zone_class p key o q = false -> (o = OpNe -> is_float q = false) ->
  ps_might_match_pre p key o q = true.
Proof.
  intros P G S K NF. destruct (ps_get_covers p n key x P G) as (c & E & CI & Hin & _).
  unfold ps_might_match_pre, ps_zone_class in *. rewrite E in *. apply orb_false_iff in K. destruct K as [K4 K5].
  eapply col_might_match_pre_sound; eassumption.
Qed.

(** * range lookups *)

Lemma value_in_range_inv x lo hi li hi_i : value_in_range x lo hi li hi_i = true ->
  (forall l, lo = Some l -> cmp_range x l = Some Gt \/ (li = true /\ cmp_range x l = Some Eq)) /\
  (forall h, hi = Some h -> cmp_range x h = Some Lt \/ (hi_i = true /\ cmp_range x h = Some Eq)).
Proof.
  unfold value_in_range. intros H. apply andb_true_iff in H. destruct H as [H1 H2]. split.
  - intros l ->. destruct (cmp_range x l) as [[]|]; try discriminate H1; [right; split; [exact H1|reflexivity]|left; reflexivity].
  - intros h ->. destruct (cmp_range x h) as [[]|]; try discriminate H2; [right; split; [exact H2|reflexivity]|left; reflexivity].
Qed.

Lemma zone_range_sound c n x lo hi li hi_i :
  ColInv c -> In (n, x) (c_vals c) -> value_in_range x lo hi li hi_i = true ->
  k_range_round_col c lo hi li hi_i = false ->
  zone_range (c_zone c) lo hi li hi_i = true.
Proof.
  intros [W C] Hin V K. pose proof (C n x Hin) as Cx. apply value_in_range_inv in V. destruct V as [V1 V2].
  unfold k_range_round_col in K. apply orb_false_iff in K. destruct K as [K1 K2].
  assert (SUB : forall q b, z_min (c_zone c) = Some b \/ z_max (c_zone c) = Some b ->
                            forall v, In v [q; x; b] -> In v (q :: col_values c)).
  { intros q b Hb v [<-|[<-|[<-|[]]]]; [left; reflexivity|right; eapply In_col_values_stored; exact Hin|].
    right. destruct Hb as [Hb|Hb]; [apply In_col_values_min|apply In_col_values_max]; exact Hb. }
  assert (HI : match hi with Some h => zone_lt (c_zone c) h hi_i | None => true end = true).
  { destruct hi as [h|]; [|reflexivity]. apply zone_lt_sound with (x := x); [exact Cx|apply V2; reflexivity|].
    intros -> mn Emn. cbn [negb andb] in K2.
    eapply round_ok_sub; [apply (round_ok_of_class c OpLt h); [left; reflexivity|exact K2]|]. apply SUB. left. exact Emn. }
  unfold zone_range. destruct lo as [l|]; [|exact HI].
  assert (LO : zone_gt (c_zone c) l li = true).
  { apply zone_gt_sound with (x := x); [exact Cx|apply V1; reflexivity|].
    intros -> mx Emx. cbn [negb andb] in K1.
    eapply round_ok_sub; [apply (round_ok_of_class c OpGt l); [right; reflexivity|exact K1]|]. apply SUB. right. exact Emx. }
  rewrite LO. exact HI.
Qed.

Lemma filter_nil_all {A} (f : A -> bool) l : (forall a, In a l -> f a = false) -> filter f l = [].
Proof.
  induction l as [|a r IH]; intros H; [reflexivity|]. cbn [filter]. rewrite (H a) by (left; reflexivity).
  apply IH. intros b Hb. apply H. right. exact Hb.
Qed.

Lemma find_in_range_sound s key lo hi li hi_i :
  ZInv s -> ps_range_class (nprops s) key lo hi li hi_i = false ->
  find_in_range s key lo hi li hi_i = scan_in_range s key lo hi li hi_i.
Proof.
  intros [P _] K. unfold find_in_range. destruct (ps_might_match_range (nprops s) key lo hi li hi_i) eqn:M; [reflexivity|].
  symmetry. unfold scan_in_range. apply filter_nil_all. intros n _.
  destruct (ps_get (nprops s) n key) as [x|] eqn:G; [|reflexivity].
  destruct (value_in_range x lo hi li hi_i) eqn:V; [|reflexivity]. exfalso.
  destruct (ps_get_covers _ n key x P G) as (c & E & CI & Hin & _).
  unfold ps_might_match_range, ps_range_class in *. rewrite E in *.
  rewrite (zone_range_sound c n x lo hi li hi_i CI Hin V K) in M. discriminate M.
Qed.

(** * the theorems over all histories *)
Lemma might_match_pre_sound_nf_l b ops (node : bool) key o q :
  let s := run (init b) ops in
  let p := if node then nprops s else eprops s in
  ps_zone_class p key o q = false -> (o = OpNe -> is_float q = false) ->
  ps_might_match_pre p key o q = false -> forall n x, ps_get p n key = Some x -> sat o x q = false.
Proof.
  cbv zeta. intros K NF M n x G. destruct (sat o x q) eqn:S; [|reflexivity]. exfalso.
  destruct (ZInv_run b ops) as [PN PE].
  assert (P : PsInv (if node then nprops (run (init b) ops) else eprops (run (init b) ops))) by (destruct node; assumption).
  rewrite (ps_might_match_pre_sound_nf _ key o q n x P G S K NF) in M. discriminate M.
Qed.

Lemma range_sound_l b ops key lo hi li hi_i :
  let s := run (init b) ops in
  ps_range_class (nprops s) key lo hi li hi_i = false ->
  find_in_range s key lo hi li hi_i = scan_in_range s key lo hi li hi_i.
Proof. cbv zeta. intros K. apply find_in_range_sound; [apply ZInv_run|exact K]. Qed.

(** * <> pruning with a Float64 query value

    Needs that floats are 64-bit patterns: equal exact values then mean the same pattern or the
    two zeros (ProofsFloat.v).  The well-formedness of the stored values is an invariant of
    histories whose Set*Prop values are well-formed. *)
From GV Require Import Lpg.ProofsFloat.

Definition ColWf (c : column) : Prop := forall id x, In (id, x) (c_vals c) -> value_wf x.
Definition PsWf (p : pstore) : Prop := forall k c, In (k, c) p -> ColWf c.
Definition WInv (s : state) : Prop := PsWf (nprops s) /\ PsWf (eprops s).

Lemma ColWf_set c id v : value_wf v -> ColWf c -> ColWf (col_set c id v).
Proof. intros V C k x H. cbn [col_set c_vals] in H. apply In_zset in H. destruct H as [[_ ->]|H]; [exact V|eapply C; exact H]. Qed.
Lemma ColWf_remove c id : ColWf c -> ColWf (col_remove c id).
Proof.
  intros C. unfold col_remove. destruct (zget (c_vals c) id); [|exact C].
  intros k x H. cbn [c_vals] in H. apply In_zdel in H. destruct H as [H _]. eapply C. exact H.
Qed.
Lemma PsWf_set p id key v : value_wf v -> PsWf p -> PsWf (ps_set p id key v).
Proof.
  intros V P k c H. unfold ps_set in H. apply In_zset in H. destruct H as [[_ ->]|H]; [|eapply P; exact H].
  apply ColWf_set; [exact V|]. destruct (zget p key) as [c0|] eqn:E; [|intros i x []]. eapply P. apply zget_In. exact E.
Qed.
Lemma PsWf_remove p id key : PsWf p -> PsWf (ps_remove p id key).
Proof.
  intros P. unfold ps_remove. destruct (zget p key) as [c0|] eqn:E; [|exact P].
  intros k c H. apply In_zset in H. destruct H as [[_ ->]|H]; [|eapply P; exact H].
  apply ColWf_remove. eapply P. apply zget_In. exact E.
Qed.
Lemma PsWf_remove_all p id : PsWf p -> PsWf (ps_remove_all p id).
Proof.
  intros P k c H. unfold ps_remove_all in H. apply in_map_iff in H. destruct H as ([k0 c0] & E & H).
  cbn [fst snd] in E. injection E as _ <-. apply ColWf_remove. eapply P. exact H.
Qed.

Lemma WInv_delete_edge s e : WInv s -> WInv (fst (do_delete_edge s e)).
Proof.
  intros [N E]. unfold do_delete_edge. psimpl.
  destruct (zget (edges s) e) as [r|]; [destruct (erec_vis r (epoch s))|]; psimpl; split; try assumption.
  apply PsWf_remove_all. exact E.
Qed.

Lemma WInv_step s o : WInv s -> op_vals_wf o -> WInv (fst (step s o)).
Proof.
  intros Z V. pose proof Z as [N E]. destruct o; cbn [step]; cbn [op_vals_wf] in V.
  - unfold do_create_node. destruct (create_node_labels (lab_names s) (lab_index s) [] (next_node s) labels) as [[a b] c].
    psimpl. exact Z.
  - unfold do_delete_node. psimpl. destruct (zget (nodes s) n) as [r|]; [|exact Z].
    destruct (nrec_vis r (epoch s)); [|exact Z]. psimpl.
    destruct (zget (node_labels s) n); psimpl; (split; [apply PsWf_remove_all; exact N|exact E]).
  - unfold do_delete_node_edges. cbn [fst]. apply fold_left_inv; [|exact Z]. intros st a. apply WInv_delete_edge.
  - unfold do_create_edge. psimpl. destruct (get_or_create (ety_names s) ty). psimpl. exact Z.
  - apply WInv_delete_edge. exact Z.
  - unfold do_set_node_prop. psimpl. split; [apply PsWf_set; assumption|exact E].
  - unfold do_remove_node_prop. psimpl. split; [apply PsWf_remove; exact N|exact E].
  - unfold do_set_edge_prop. psimpl. split; [exact N|apply PsWf_set; assumption].
  - unfold do_remove_edge_prop. psimpl. split; [exact N|apply PsWf_remove; exact E].
  - unfold do_add_label. destruct (node_live s n); [|exact Z]. destruct (get_or_create (lab_names s) l).
    destruct (mem z (match zget (node_labels s) n with Some x => x | None => [] end)); psimpl; exact Z.
  - unfold do_remove_label. destruct (node_live s n); [|exact Z]. destruct (find_pos l (lab_names s) 0); [|exact Z].
    destruct (zget (node_labels s) n); [|exact Z]. destruct (mem z l0); psimpl; exact Z.
  - unfold do_create_index. destruct (zget (pidx s) key); psimpl; exact Z.
  - unfold do_drop_index. destruct (zget (pidx s) key); psimpl; exact Z.
  - psimpl. exact Z.
  - psimpl. exact Z.
  - psimpl. exact Z.
  - unfold do_refresh_stats. destruct (stats_dirty s); psimpl; exact Z.
  - psimpl. exact Z.
Qed.

Lemma WInv_run b ops : hist_vals_wf ops -> WInv (run (init b) ops).
Proof. intros H. apply (run_inv_wf WInv op_vals_wf); [exact WInv_step| |exact H]. split; intros k c []. Qed.

Lemma zone_ne_sound_float z x q :
  covers z x -> is_null x = false -> value_ieee_eqb x q = false -> is_float q = true ->
  value_wf x -> value_wf q ->
  (forall mn mx, z_min z = Some mn -> z_max z = Some mx -> ne_ok q [x; mn; mx]) ->
  match z_min z, z_max z with
  | Some mn, Some mx => negb (match cmp_zone mn q, cmp_zone mx q with Some Eq, Some Eq => true | _, _ => false end)
  | _, _ => true
  end = true.
Proof.
  intros C NN NE NF Wx Wq OK. unfold covers in C. rewrite NN in C. destruct C as (_ & (mn & Emn & Hmn) & (mx & Emx & Hmx)).
  rewrite Emn, Emx. specialize (OK mn mx Emn Emx).
  destruct (cmp_zone mn q) as [[]|] eqn:E1; try reflexivity. destruct (cmp_zone mx q) as [[]|] eqn:E2; try reflexivity.
  exfalso.
  assert (Ox : odd_for_ne q x = false) by (apply OK; cbn; auto).
  assert (Tx : vtag x = vtag q) by (apply ne_ok_tag; [exact Ox|exact NN]).
  assert (Tn : vtag mn = vtag q) by (apply ne_ok_tag; [apply OK; cbn; auto|eapply cmp_some_nonnull; exact E1]).
  assert (Tm : vtag mx = vtag q) by (apply ne_ok_tag; [apply OK; cbn; auto|eapply cmp_some_nonnull; exact E2]).
  destruct q as [| | |qb| | | | | |]; cbn [is_float] in NF; try discriminate NF.
  destruct mn as [| | |nb| | | | | |]; cbn [vtag] in Tn; try discriminate Tn.
  destruct mx as [| | |mb| | | | | |]; cbn [vtag] in Tm; try discriminate Tm.
  destruct x as [| | |xb| | | | | |]; cbn [vtag] in Tx; try discriminate Tx.
  cbn [cmp_zone value_ieee_eqb value_wf] in *. unfold f64_cmp in *.
  (* x is not a NaN (outside K5), so it has an exact value *)
  unfold odd_for_ne in Ox. cbn [is_null negb andb vtag] in Ox. rewrite Z.eqb_refl in Ox. cbn [negb orb] in Ox.
  destruct (not_nan_some xb Ox) as [yx Yx].
  destruct (f64_num nb) as [yn|] eqn:Yn; [|discriminate E1]. destruct (f64_num qb) as [yq|] eqn:Yq; [|discriminate E1].
  destruct (f64_num mb) as [ym|] eqn:Ym; [|discriminate E2].
  rewrite Yx in Hmn, Hmx. zcmp.
  assert (LO : ~ yx < yn) by (intros L; apply Hmn; f_equal; exact L).
  assert (HI : ~ ym < yx) by (intros L; apply Hmx; f_equal; apply Z.compare_gt_iff; exact L).
  assert (EQ : yx = yq) by lia. subst yx.
  rewrite (f64_eq_of_num xb qb yq Wx Wq Yx Yq) in NE. discriminate NE.
Qed.

Lemma col_might_match_pre_sound_full c o q n x :
  ColInv c -> In (n, x) (c_vals c) -> sat o x q = true ->
  k_zone_round_col c o q = false -> k_zone_ne_col c o q = false ->
  (o = OpNe -> is_float q = true -> ColWf c /\ value_wf q) ->
  col_might_match_pre c o q = true.
Proof.
  intros CI Hin S K4 K5 W.
  destruct (is_float q) eqn:F; [|eapply col_might_match_pre_sound; try eassumption; intros _; exact F].
  destruct o; try (eapply col_might_match_pre_sound; try eassumption; intros D; discriminate D).
  (* OpNe with a Float64 query value *)
  destruct (W eq_refl eq_refl) as [CW Wq]. destruct CI as [Wz C]. pose proof (C n x Hin) as Cx.
  unfold col_might_match_pre. destruct (c_dirty c); [reflexivity|].
  cbn [sat] in S. apply andb_true_iff in S. destruct S as [S1 S2]. apply negb_true_iff in S1, S2.
  apply zone_ne_sound_float with (x := x); try assumption; [eapply CW; exact Hin|].
  intros mn mx Emn Emx v Hv. cbn [k_zone_ne_col] in K5. apply (existsb_false_in _ _ K5).
  destruct Hv as [<-|[<-|[<-|[]]]]; [eapply In_col_values_stored; exact Hin|apply In_col_values_min; exact Emn|apply In_col_values_max; exact Emx].
Qed.

Lemma might_match_pre_sound_full b ops (node : bool) key o q :
  let s := run (init b) ops in
  let p := if node then nprops s else eprops s in
  (o = OpNe -> is_float q = true -> hist_vals_wf ops /\ value_wf q) ->
  ps_zone_class p key o q = false ->
  ps_might_match_pre p key o q = false -> forall n x, ps_get p n key = Some x -> sat o x q = false.
Proof.
  cbv zeta. intros W K M n x G. destruct (sat o x q) eqn:S; [|reflexivity]. exfalso.
  destruct (ZInv_run b ops) as [PN PE].
  set (p := if node then nprops (run (init b) ops) else eprops (run (init b) ops)) in *.
  assert (P : PsInv p) by (unfold p; destruct node; assumption).
  destruct (ps_get_covers p n key x P G) as (c & E & CI & Hin & _).
  unfold ps_might_match_pre, ps_zone_class in *. rewrite E in *. apply orb_false_iff in K. destruct K as [K4 K5].
  rewrite (col_might_match_pre_sound_full c o q n x CI Hin S K4 K5) in M; [discriminate M|].
  intros Ho Fq. destruct (W Ho Fq) as [HW Wq]. split; [|exact Wq].
  destruct (WInv_run b ops HW) as [WN WE]. assert (PW : PsWf p) by (unfold p; destruct node; assumption).
  eapply PW. apply zget_In. exact E.
Qed.

Lemma cmpop_eq_ne o : o = OpNe \/ o <> OpNe.
Proof. destruct o; try (right; discriminate); left; reflexivity. Qed.

(** * the current code (fix 1879631): [<>] is never pruned, only K4 remains *)
Lemma col_might_match_cur_pre c o q : o <> OpNe -> col_might_match c o q = col_might_match_pre c o q.
Proof. intros H. unfold col_might_match, col_might_match_pre. destruct o; try reflexivity. exfalso. apply H. reflexivity. Qed.

Lemma col_might_match_sound c o q n x :
  ColInv c -> In (n, x) (c_vals c) -> sat o x q = true -> k_zone_round_col c o q = false ->
  col_might_match c o q = true.
Proof.
  intros CI Hin S K4. destruct (cmpop_eq_ne o) as [->|NE].
  - unfold col_might_match. destruct (c_dirty c); reflexivity.
  - rewrite (col_might_match_cur_pre c o q NE). eapply col_might_match_pre_sound_full; try eassumption.
    + destruct o; try reflexivity. exfalso. apply NE. reflexivity.
    + intros E. exfalso. apply NE. exact E.
Qed.

Lemma might_match_sound_l b ops (node : bool) key o q :
  let s := run (init b) ops in
  let p := if node then nprops s else eprops s in
  ps_round_class p key o q = false ->
  ps_might_match p key o q = false -> forall n x, ps_get p n key = Some x -> sat o x q = false.
Proof.
  cbv zeta. intros K M n x G. destruct (sat o x q) eqn:S; [|reflexivity]. exfalso.
  destruct (ZInv_run b ops) as [PN PE].
  set (p := if node then nprops (run (init b) ops) else eprops (run (init b) ops)) in *.
  assert (P : PsInv p) by (unfold p; destruct node; assumption).
  destruct (ps_get_covers p n key x P G) as (c & E & CI & Hin & _).
  unfold ps_might_match, ps_round_class in *. rewrite E in *.
  rewrite (col_might_match_sound c o q n x CI Hin S K) in M. discriminate M.
Qed.
