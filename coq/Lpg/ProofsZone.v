(** C14 — zone maps: min/max pruning never claims "no match" when a match exists.

    Invariant of a property column: every stored value is *covered* by the zone map entry:
    a null is counted, a non-null value is not below the recorded minimum and not above the
    recorded maximum in the sense of [cmp_zone] (the comparison the implementation uses, which is
    partial: values of different kinds, and NaN, are incomparable).  The invariant holds in every
    reachable state because "less than" of [cmp_zone] is transitive (ProofsCmp.v). *)
From Coq Require Import ZArith Lia List Bool.
Import ListNotations.
From GV Require Import Lpg.Model Lpg.Classes Lpg.ProofsBase Lpg.ProofsRound Lpg.ProofsCmp.
Open Scope Z_scope.

(** * covering *)
Definition zone_wf (z : zone) : Prop := 0 <= z_nulls z <= z_rows z.

Definition covers (z : zone) (x : value) : Prop :=
  if is_null x then 0 < z_nulls z
  else z_nulls z < z_rows z
       /\ (exists mn, z_min z = Some mn /\ cmp_zone x mn <> Some Lt)
       /\ (exists mx, z_max z = Some mx /\ cmp_zone x mx <> Some Gt).

Lemma zone_wf_insert z v : zone_wf z -> zone_wf (zone_insert z v).
Proof. unfold zone_wf, zone_insert, zone_insert_g. intros H. destruct (is_null v); cbn [z_nulls z_rows]; lia. Qed.

Lemma covers_insert_new z v : zone_wf z -> covers (zone_insert z v) v.
Proof.
  unfold zone_wf, covers, zone_insert, zone_insert_g. intros W. destruct (is_null v) eqn:N; cbn [z_nulls z_rows z_min z_max]; [lia|].
  split; [lia|]. destruct (cmp_zone_irrefl v) as [I1 I2]. split.
  - destruct (z_min z) as [cur|]; [|eexists; split; [reflexivity|exact I1]].
    destruct (cmp_zone v cur) as [[]|] eqn:E; eexists; (split; [reflexivity|]); try exact I1; rewrite E; discriminate.
  - destruct (z_max z) as [cur|]; [|eexists; split; [reflexivity|exact I2]].
    destruct (cmp_zone v cur) as [[]|] eqn:E; eexists; (split; [reflexivity|]); try exact I2; rewrite E; discriminate.
Qed.

Lemma covers_insert_old z v x : zone_wf z -> covers z x -> covers (zone_insert z v) x.
Proof.
  unfold zone_wf, covers, zone_insert, zone_insert_g. intros W. destruct (is_null x) eqn:Nx.
  - destruct (is_null v); cbn [z_nulls]; lia.
  - intros (C & (mn & Emn & Hmn) & (mx & Emx & Hmx)). destruct (is_null v) eqn:Nv; cbn [z_nulls z_rows z_min z_max].
    + split; [lia|]. split; eexists; split; eassumption.
    + split; [lia|]. rewrite Emn, Emx. split.
      * destruct (cmp_zone v mn) as [[]|] eqn:E; eexists; (split; [reflexivity|]); try exact Hmn.
        intros L. apply Hmn. eapply cmp_zone_lt_trans; eassumption.
      * destruct (cmp_zone v mx) as [[]|] eqn:E; eexists; (split; [reflexivity|]); try exact Hmx.
        intros G. apply Hmx. eapply cmp_zone_gt_trans; eassumption.
Qed.

(** * the column / storage invariant *)
Definition ColInv (c : column) : Prop :=
  zone_wf (c_zone c) /\ forall id x, In (id, x) (c_vals c) -> covers (c_zone c) x.
Definition PsInv (p : pstore) : Prop := forall k c, In (k, c) p -> ColInv c.

Lemma ColInv_new : ColInv column_new.
Proof. split; [unfold zone_wf; cbn; lia|intros id x []]. Qed.

Lemma ColInv_set c id v : ColInv c -> ColInv (col_set c id v).
Proof.
  intros [W C]. split; cbn [col_set c_zone c_vals]; [apply zone_wf_insert; exact W|].
  intros k x H. apply In_zset in H. destruct H as [[_ ->]|H].
  - apply covers_insert_new. exact W.
  - apply covers_insert_old; [exact W|]. eapply C. exact H.
Qed.

Lemma ColInv_remove c id : ColInv c -> ColInv (col_remove c id).
Proof.
  intros [W C]. unfold col_remove. destruct (zget (c_vals c) id); [|split; assumption].
  split; cbn [c_zone c_vals]; [exact W|]. intros k x H. apply In_zdel in H. destruct H as [H _]. eapply C. exact H.
Qed.

Lemma PsInv_set p id key v : PsInv p -> PsInv (ps_set p id key v).
Proof.
  intros P k c H. unfold ps_set in H. apply In_zset in H. destruct H as [[_ ->]|H]; [|eapply P; exact H].
  apply ColInv_set. destruct (zget p key) as [c0|] eqn:E; [|apply ColInv_new]. eapply P. apply zget_In. exact E.
Qed.

Lemma PsInv_remove p id key : PsInv p -> PsInv (ps_remove p id key).
Proof.
  intros P. unfold ps_remove. destruct (zget p key) as [c0|] eqn:E; [|exact P].
  intros k c H. apply In_zset in H. destruct H as [[_ ->]|H]; [|eapply P; exact H].
  apply ColInv_remove. eapply P. apply zget_In. exact E.
Qed.

Lemma PsInv_remove_all p id : PsInv p -> PsInv (ps_remove_all p id).
Proof.
  intros P k c H. unfold ps_remove_all in H. apply in_map_iff in H. destruct H as ([k0 c0] & E & H).
  cbn [fst snd] in E. injection E as _ <-. apply ColInv_remove. eapply P. exact H.
Qed.

Definition ZInv (s : state) : Prop := PsInv (nprops s) /\ PsInv (eprops s).

Lemma ZInv_delete_edge s e : ZInv s -> ZInv (fst (do_delete_edge s e)).
Proof.
  intros [N E]. unfold do_delete_edge. psimpl.
  destruct (zget (edges s) e) as [r|]; [destruct (erec_vis r (epoch s))|]; psimpl; split; try assumption.
  apply PsInv_remove_all. exact E.
Qed.

Lemma ZInv_step s o : ZInv s -> ZInv (fst (step s o)).
Proof.
  intros Z. pose proof Z as [N E]. destruct o; cbn [step].
  - (* CreateNode *) unfold do_create_node. destruct (create_node_labels (lab_names s) (lab_index s) [] (next_node s) labels) as [[a b] c].
    psimpl. exact Z.
  - (* DeleteNode *) unfold do_delete_node. psimpl. destruct (zget (nodes s) n) as [r|]; [|exact Z].
    destruct (nrec_vis r (epoch s)); [|exact Z]. psimpl.
    destruct (zget (node_labels s) n); psimpl; (split; [apply PsInv_remove_all; exact N|exact E]).
  - (* DeleteNodeEdges *) unfold do_delete_node_edges. cbn [fst]. apply fold_left_inv; [|exact Z]. intros st a. apply ZInv_delete_edge.
  - (* CreateEdge *) unfold do_create_edge. psimpl. destruct (get_or_create (ety_names s) ty). psimpl. exact Z.
  - apply ZInv_delete_edge. exact Z.
  - unfold do_set_node_prop. psimpl. split; [apply PsInv_set; exact N|exact E].
  - unfold do_remove_node_prop. psimpl. split; [apply PsInv_remove; exact N|exact E].
  - unfold do_set_edge_prop. psimpl. split; [exact N|apply PsInv_set; exact E].
  - unfold do_remove_edge_prop. psimpl. split; [exact N|apply PsInv_remove; exact E].
  - unfold do_add_label, do_add_label_pre. destruct (node_live s n); [|exact Z]. destruct (get_or_create (lab_names s) l).
    destruct (mem z (match zget (node_labels s) n with Some x => x | None => [] end)); psimpl; exact Z.
  - unfold do_remove_label, do_remove_label_pre. destruct (node_live s n); [|exact Z]. destruct (find_pos l (lab_names s) 0); [|exact Z].
    destruct (zget (node_labels s) n); [|exact Z]. destruct (mem z l0); psimpl; exact Z.
  - unfold do_create_index. destruct (zget (pidx s) key); psimpl; exact Z.
  - unfold do_drop_index. destruct (zget (pidx s) key); psimpl; exact Z.
  - psimpl. exact Z.
  - psimpl. exact Z.
  - psimpl. exact Z.
  - unfold do_refresh_stats. destruct (stats_dirty s); psimpl; exact Z.
  - psimpl. exact Z.
Qed.

Lemma ZInv_run b ops : ZInv (run (init b) ops).
Proof. apply run_inv; [exact ZInv_step|]. split; intros k c []. Qed.

Lemma ps_get_covers p n key x : PsInv p -> ps_get p n key = Some x ->
  exists c, zget p key = Some c /\ ColInv c /\ In (n, x) (c_vals c) /\ covers (c_zone c) x.
Proof.
  intros P H. unfold ps_get in H. destruct (zget p key) as [c|] eqn:E; [|discriminate].
  assert (CI : ColInv c) by (eapply P; apply zget_In; exact E).
  unfold col_get in H. apply zget_In in H. exists c. split; [reflexivity|]. split; [exact CI|]. split; [exact H|].
  destruct CI as [_ C]. eapply C. exact H.
Qed.

(** * soundness of the pruning predicates *)

Lemma existsb_false_in {A} (f : A -> bool) l : existsb f l = false -> forall x, In x l -> f x = false.
Proof.
  intros H x Hx. destruct (f x) eqn:E; [|reflexivity].
  assert (existsb f l = true) by (apply existsb_exists; exists x; auto). congruence.
Qed.

Lemma cmp_range_nonnull x q c : cmp_range x q = Some c -> is_null x = false.
Proof. destruct x; cbn; try discriminate; reflexivity. Qed.

(** might_contain_less_than *)
Lemma zone_lt_sound z x q incl :
  covers z x ->
  (cmp_range x q = Some Lt \/ (incl = true /\ cmp_range x q = Some Eq)) ->
  zone_lt z q incl = true.
Proof.
  intros C R. assert (NN : is_null x = false) by (destruct R as [R|[_ R]]; eapply cmp_range_nonnull; exact R).
  unfold covers in C. rewrite NN in C. destruct C as (_ & (mn & Emn & Hmn) & _).
  unfold zone_lt, zone_lt_g. rewrite Emn. destruct (cmp_zone mn q) as [[]|] eqn:E; try reflexivity.
  - (* Eq *) destruct incl; [reflexivity|]. exfalso. destruct R as [R|[R _]]; [|discriminate R].
    eapply strict_eq_contra_lt; eassumption.
  - (* Gt: the minimum is above the query value *)
    exfalso. apply cmp_zone_gt_lt in E. destruct R as [R|[_ R]].
    + apply Hmn. eapply cmp_zone_lt_trans; [apply cmp_range_zone; exact R|exact E].
    + apply Hmn. rewrite (cmp_range_eq_congr x q mn R). exact E.
Qed.

(** might_contain_greater_than *)
Lemma zone_gt_sound z x q incl :
  covers z x ->
  (cmp_range x q = Some Gt \/ (incl = true /\ cmp_range x q = Some Eq)) ->
  zone_gt z q incl = true.
Proof.
  intros C R. assert (NN : is_null x = false) by (destruct R as [R|[_ R]]; eapply cmp_range_nonnull; exact R).
  unfold covers in C. rewrite NN in C. destruct C as (_ & _ & (mx & Emx & Hmx)).
  unfold zone_gt, zone_gt_g. rewrite Emx. destruct (cmp_zone mx q) as [[]|] eqn:E; try reflexivity.
  - destruct incl; [reflexivity|]. exfalso. destruct R as [R|[R _]]; [|discriminate R].
    eapply strict_eq_contra_gt; eassumption.
  - exfalso. assert (E' : cmp_zone q mx = Some Gt) by (apply cmp_zone_gt_lt; exact E). destruct R as [R|[_ R]].
    + apply Hmx. eapply cmp_zone_gt_trans; [apply cmp_range_zone; exact R|exact E'].
    + apply Hmx. rewrite (cmp_range_eq_congr x q mx R). exact E'.
Qed.

(** * equality pruning *)

Lemma f64_zero_num b : f64_is_zero b = true -> f64_num b = Some 0.
Proof.
  unfold f64_is_zero, f64_mag, f64_num. intros H. apply Z.eqb_eq in H.
  change (2 ^ 63) with 9223372036854775808 in *. change (2 ^ 52) with 4503599627370496.
  change (2 ^ 11) with 2048.
  assert (E1 : (b / 4503599627370496) mod 2048 = 0) by (Z.div_mod_to_equations; lia).
  assert (E2 : b mod 4503599627370496 = 0) by (Z.div_mod_to_equations; lia).
  rewrite E1, E2. cbn [Z.eqb Z.mul]. destruct (b / 9223372036854775808 =? 0); reflexivity.
Qed.

Lemma f64_eq_num x y : f64_eq x y = true -> f64_num x = f64_num y.
Proof.
  unfold f64_eq. intros H. apply andb_true_iff in H. destruct H as [_ H]. apply orb_true_iff in H.
  destruct H as [H|H]; [apply Z.eqb_eq in H; subst; reflexivity|].
  apply andb_true_iff in H. destruct H as [H1 H2]. rewrite (f64_zero_num x H1), (f64_zero_num y H2). reflexivity.
Qed.

(** values equal under [Value::eq] behave alike under [cmp_zone] *)
Lemma ieee_eq_congr x q m : value_ieee_eqb x q = true -> cmp_zone x m = cmp_zone q m.
Proof.
  destruct x, q; cbn [value_ieee_eqb]; try discriminate; intros H; try reflexivity.
  - apply Bool.eqb_prop in H. subst. reflexivity.
  - apply Z.eqb_eq in H. subst. reflexivity.
  - apply f64_eq_num in H. destruct m; cbn [cmp_zone]; try reflexivity; unfold cmp_f64_int, f64_cmp; rewrite H; reflexivity.
  - apply zlist_eqb_eq in H. subst. reflexivity.
Qed.

Lemma ieee_eq_null x q : value_ieee_eqb x q = true -> is_null x = is_null q.
Proof. destruct x, q; cbn [value_ieee_eqb is_null]; try discriminate; reflexivity. Qed.

(** might_contain_equal *)
Lemma zone_eq_sound z x q : covers z x -> value_ieee_eqb x q = true -> zone_eq z q = true.
Proof.
  intros C H. unfold zone_eq, zone_eq_g, covers in *. rewrite (ieee_eq_null x q H) in C. destruct (is_null q).
  - apply Z.ltb_lt. exact C.
  - destruct C as (C & (mn & Emn & Hmn) & (mx & Emx & Hmx)).
    assert (A : zone_all_null z = false).
    { unfold zone_all_null. apply andb_false_iff. right. apply Z.eqb_neq. lia. }
    rewrite A, Emn, Emx. rewrite <- (ieee_eq_congr x q mn H), <- (ieee_eq_congr x q mx H).
    destruct (cmp_zone x mn) as [[]|]; try reflexivity; try (exfalso; apply Hmn; reflexivity);
      destruct (cmp_zone x mx) as [[]|]; try reflexivity; exfalso; apply Hmx; reflexivity.
Qed.

(** * the column-level theorem: no class, no exception *)
Lemma col_might_match_sound c o q n x :
  ColInv c -> In (n, x) (c_vals c) -> sat o x q = true -> col_might_match c o q = true.
Proof.
  intros [W C] Hin S. pose proof (C n x Hin) as Cx. unfold col_might_match, col_might_match_g. destruct (c_dirty c); [reflexivity|].
  destruct o; cbn [sat] in S.
  - eapply zone_eq_sound; eassumption.
  - reflexivity.
  - apply (zone_lt_sound _ x); [exact Cx|left; destruct (cmp_range x q) as [[]|]; try discriminate S; reflexivity].
  - apply (zone_lt_sound _ x); [exact Cx|].
    destruct (cmp_range x q) as [[]|]; try discriminate S; [right; split; reflexivity|left; reflexivity].
  - apply (zone_gt_sound _ x); [exact Cx|left; destruct (cmp_range x q) as [[]|]; try discriminate S; reflexivity].
  - apply (zone_gt_sound _ x); [exact Cx|].
    destruct (cmp_range x q) as [[]|]; try discriminate S; [right; split; reflexivity|left; reflexivity].
Qed.

Lemma ps_might_match_sound p key o q n x :
  PsInv p -> ps_get p n key = Some x -> sat o x q = true -> ps_might_match p key o q = true.
Proof.
  intros P G S. destruct (ps_get_covers p n key x P G) as (c & E & CI & Hin & _).
  unfold ps_might_match. rewrite E. eapply col_might_match_sound; eassumption.
Qed.

(** * range lookups *)

Lemma value_in_range_inv x lo hi li hi_i : value_in_range x lo hi li hi_i = true ->
  (forall l, lo = Some l -> cmp_range x l = Some Gt \/ (li = true /\ cmp_range x l = Some Eq)) /\
  (forall h, hi = Some h -> cmp_range x h = Some Lt \/ (hi_i = true /\ cmp_range x h = Some Eq)).
Proof.
  unfold value_in_range. intros H. apply andb_true_iff in H. destruct H as [H1 H2]. split.
  - intros l ->. destruct (cmp_range x l) as [[]|]; try discriminate H1; [right; split; [exact H1|reflexivity]|left; reflexivity].
  - intros h ->. destruct (cmp_range x h) as [[]|]; try discriminate H2; [right; split; [exact H2|reflexivity]|left; reflexivity].
Qed.

Lemma zone_range_sound c n x lo hi li hi_i :
  ColInv c -> In (n, x) (c_vals c) -> value_in_range x lo hi li hi_i = true ->
  zone_range (c_zone c) lo hi li hi_i = true.
Proof.
  intros [W C] Hin V. pose proof (C n x Hin) as Cx. apply value_in_range_inv in V. destruct V as [V1 V2].
  assert (HI : match hi with Some h => zone_lt (c_zone c) h hi_i | None => true end = true).
  { destruct hi as [h|]; [|reflexivity]. apply (zone_lt_sound _ x); [exact Cx|apply V2; reflexivity]. }
  unfold zone_range, zone_range_g. fold zone_lt zone_gt. destruct lo as [l|]; [|exact HI].
  rewrite (zone_gt_sound _ x l li Cx (V1 l eq_refl)). exact HI.
Qed.

Lemma filter_nil_all {A} (f : A -> bool) l : (forall a, In a l -> f a = false) -> filter f l = [].
Proof.
  induction l as [|a r IH]; intros H; [reflexivity|]. cbn [filter]. rewrite (H a) by (left; reflexivity).
  apply IH. intros b Hb. apply H. right. exact Hb.
Qed.

Lemma find_in_range_sound s key lo hi li hi_i :
  ZInv s -> find_in_range s key lo hi li hi_i = scan_in_range s key lo hi li hi_i.
Proof.
  intros [P _]. unfold find_in_range. destruct (ps_might_match_range (nprops s) key lo hi li hi_i) eqn:M; [reflexivity|].
  symmetry. unfold scan_in_range. apply filter_nil_all. intros n _.
  destruct (ps_get (nprops s) n key) as [x|] eqn:G; [|reflexivity].
  destruct (value_in_range x lo hi li hi_i) eqn:V; [|reflexivity]. exfalso.
  destruct (ps_get_covers _ n key x P G) as (c & E & CI & Hin & _).
  unfold ps_might_match_range in M. rewrite E in M.
  rewrite (zone_range_sound c n x lo hi li hi_i CI Hin V) in M. discriminate M.
Qed.

(** * the theorems over all histories *)
Lemma might_match_sound_l b ops (node : bool) key o q :
  let s := run (init b) ops in
  let p := if node then nprops s else eprops s in
  ps_might_match p key o q = false -> forall n x, ps_get p n key = Some x -> sat o x q = false.
Proof.
  cbv zeta. intros M n x G. destruct (sat o x q) eqn:S; [|reflexivity]. exfalso.
  destruct (ZInv_run b ops) as [PN PE].
  assert (P : PsInv (if node then nprops (run (init b) ops) else eprops (run (init b) ops))) by (destruct node; assumption).
  rewrite (ps_might_match_sound _ key o q n x P G S) in M. discriminate M.
Qed.

Lemma range_sound_l b ops key lo hi li hi_i :
  let s := run (init b) ops in
  find_in_range s key lo hi li hi_i = scan_in_range s key lo hi li hi_i.
Proof. cbv zeta. apply find_in_range_sound. apply ZInv_run. Qed.
