(** C14 — "deleted entities appear nowhere": outside the class K2 no live edge has a dead endpoint. *)
From Coq Require Import ZArith Lia List Bool Permutation.
Import ListNotations.
From GV Require Import Lpg.Model Lpg.Classes Lpg.ProofsBase Lpg.ProofsInv Lpg.ProofsCount.
Open Scope Z_scope.

Lemma existsb_false_all {A} (f : A -> bool) l : existsb f l = false -> forall x, In x l -> f x = false.
Proof.
  intros H x Hx. destruct (f x) eqn:E; [|reflexivity]. assert (existsb f l = true) by (apply existsb_exists; exists x; auto). congruence.
Qed.

Definition NoDang (s : state) : Prop :=
  forall id r, zget (edges s) id = Some r -> erec_vis r (epoch s) = true ->
               node_live s (e_src r) = true /\ node_live s (e_dst r) = true.

Lemma NoDang_view s s' : bview s' = bview s -> NoDang s -> NoDang s'.
Proof.
  unfold bview. intros E H. injection E as E1 E2 E3 E4 E5 E6. unfold NoDang, node_live in *. rewrite E1, E2, E5. exact H.
Qed.

Lemma NoDang_delete_edge s e : NoDang s -> NoDang (fst (do_delete_edge s e)).
Proof.
  intros H. destruct (do_delete_edge_frame s e) as (A1 & _ & _ & A4 & _). cbv zeta in *.
  pose proof (do_delete_edge_edges s e) as EE. unfold NoDang, node_live. rewrite A1, A4, EE.
  destruct (zget (edges s) e) as [r|] eqn:E; [|exact H]. destruct (erec_vis r (epoch s)) eqn:V; [|exact H].
  intros id r0. rewrite zget_zset. destruct (id =? e) eqn:Q; [|apply H].
  intros H0. inversion H0. subst r0. clear H0. unfold erec_vis. cbn [e_created e_deleted e_src e_dst].
  unfold mark_del. destruct (e_deleted r) as [d|] eqn:D.
  - intros V'. apply (H e r E). unfold erec_vis. rewrite D. exact V'.
  - unfold vis. rewrite Z.ltb_irrefl, andb_false_r. discriminate.
Qed.

Lemma NoDang_step s o : BaseInv s -> op_dangles s o = false -> NoDang s -> NoDang (fst (step s o)).
Proof.
  intros B Hs ND. destruct (touches_bview o) eqn:T; [|apply (NoDang_view s); [apply bview_frame; exact T|exact ND]].
  destruct o; cbn [touches_bview] in T; try discriminate; clear T.
  - (* CreateNode *)
    pose proof (fun n H => node_live_step_other s (CreateNode labels) n B H I) as Hlive.
    cbn [step] in *. unfold do_create_node in *. psimpl.
    destruct (create_node_labels (lab_names s) (lab_index s) [] (next_node s) labels) as [[a b] c]. psimpl.
    intros id r E V. psimpl. destruct (ND id r E V) as [H1 H2]. split; apply Hlive; assumption.
  - (* DeleteNode *)
    pose proof (fun m H Hne => node_live_step_other s (DeleteNode n) m B H Hne) as Hlive.
    cbn [op_dangles] in Hs.
    assert (forall s', edges s' = edges s -> epoch s' = epoch s ->
              (forall m, n <> m -> node_live s m = true -> node_live s' m = true) ->
              node_live s n = true -> NoDang s') as Hmain.
    { intros s' E1 E2 Hl Ln. rewrite Ln in Hs. cbn [andb] in Hs. unfold has_live_incident in Hs.
      intros id r E V. rewrite E1 in E. rewrite E2 in V. destruct (ND id r E V) as [H1 H2].
      assert (e_src r <> n /\ e_dst r <> n) as [N1 N2].
      { assert (In (id, r) (live_edges s)) as Hin by (unfold live_edges; apply filter_In; split; [apply zget_In; exact E|exact V]).
        pose proof (existsb_false_all _ _ Hs (id, r) Hin) as Hf. cbn [snd] in Hf. apply orb_false_iff in Hf.
        destruct Hf as [F1 F2]. apply Z.eqb_neq in F1, F2. auto. }
      split; apply Hl; auto. }
    cbn [step] in *. unfold do_delete_node in *. psimpl.
    destruct (zget (nodes s) n) as [r|] eqn:E; [|apply (NoDang_view s); [reflexivity|exact ND]].
    destruct (nrec_vis r (epoch s)) eqn:V; [|apply (NoDang_view s); [reflexivity|exact ND]]. psimpl.
    assert (node_live s n = true) as Ln by (unfold node_live; rewrite E; exact V).
    destruct (zget (node_labels s) n); psimpl; apply Hmain; try reflexivity; try exact Ln;
      intros m Hm Hl; apply (Hlive m Hl Hm).
  - (* DeleteNodeEdges *)
    cbn [step]. unfold do_delete_node_edges. cbn [fst]. apply fold_left_inv; [|exact ND]. intros st e. apply NoDang_delete_edge.
  - (* CreateEdge *)
    cbn [op_dangles] in Hs. apply negb_false_iff in Hs. apply andb_true_iff in Hs. destruct Hs as [La Lb].
    cbn [step]. unfold do_create_edge. psimpl. destruct (get_or_create (ety_names s) ty) as [tys tid]. psimpl.
    intros id r. psimpl. unfold node_live. psimpl. fold (node_live s (e_src r)). fold (node_live s (e_dst r)).
    rewrite zget_zset. destruct (id =? next_edge s) eqn:Q; [|apply ND].
    intros H. inversion H. subst r. cbn. auto.
  - (* DeleteEdge *) cbn [step]. apply NoDang_delete_edge. exact ND.
  - (* NewEpoch *)
    pose proof (fun m H => node_live_step_other s NewEpoch m B H I) as Hlive.
    cbn [step] in *. intros id r E V. psimpl.
    destruct (b_edges s B id r E) as (_ & P1 & P2 & _). unfold erec_vis in V. rewrite (vis_epoch_succ _ _ _ P1 P2) in V.
    destruct (ND id r E V) as [H1 H2]. split; apply Hlive; assumption.
Qed.

Lemma NoDang_run b ops : hist_dangles (init b) ops = false -> BaseInv (run (init b) ops) /\ NoDang (run (init b) ops).
Proof.
  intros H. apply (run_inv_hist (fun s => BaseInv s /\ NoDang s) op_dangles).
  - intros s o [B N] Hs. split; [apply BaseInv_step; exact B|apply NoDang_step; assumption].
  - split; [apply BaseInv_init|]. intros id r E. discriminate.
  - exact H.
Qed.

Lemma no_dangling_of_inv s : BaseInv s -> NoDang s -> no_dangling s = true.
Proof.
  intros B N. unfold no_dangling. apply forallb_forall. intros [id r] Hin. cbn [snd].
  destruct (live_edge_get s (id, r) B Hin) as (E1 & E2 & _). cbn [fst snd] in *.
  destruct (N id r E1 E2) as [H1 H2]. rewrite H1, H2. reflexivity.
Qed.

(** every listed neighbour is a live node *)
Lemma entries_live s n d e : BaseInv s -> NoDang s ->
  In (d, e) (out_entries (live_edges s) n) \/ In (d, e) (in_entries (live_edges s) n) -> node_live s d = true.
Proof.
  intros B N [H|H]; unfold out_entries, in_entries in H; apply In_filter_map in H; destruct H as [[id r] [Hin Hf]]; cbn [fst snd] in Hf;
    destruct (live_edge_get s (id, r) B Hin) as (E1 & E2 & _); cbn [fst snd] in *; destruct (N id r E1 E2) as [H1 H2].
  - destruct (e_src r =? n); inversion Hf; subst; exact H2.
  - destruct (e_dst r =? n); inversion Hf; subst; exact H1.
Qed.
