(** C14 — generic lemmas: association lists, id sets, catalogs, sorting, structural equality of
    values, the step-indexed induction principles used by every invariant proof. *)
From Coq Require Import ZArith Lia List Bool Permutation.
Import ListNotations.
From GV Require Import Lpg.Model Lpg.Classes.
Open Scope Z_scope.

(** * association lists *)
Section AMapFacts.
  Context {K V : Type}.
  Variable keqb : K -> K -> bool.
  Hypothesis keqb_spec : forall a b, keqb a b = true <-> a = b.

  Lemma keqb_refl a : keqb a a = true.
  Proof. apply keqb_spec. reflexivity. Qed.
  Lemma keqb_neq a b : a <> b -> keqb a b = false.
  Proof. intros H. destruct (keqb a b) eqn:E; [apply keqb_spec in E; contradiction|reflexivity]. Qed.

  Lemma aget_aset_eq (m : list (K * V)) k v : aget keqb (aset keqb m k v) k = Some v.
  Proof.
    induction m as [|[k' v'] r IH]; cbn [aset aget].
    - rewrite keqb_refl. reflexivity.
    - destruct (keqb k k') eqn:E; cbn [aget].
      + rewrite keqb_refl. reflexivity.
      + rewrite E. exact IH.
  Qed.

  Lemma aget_aset_neq (m : list (K * V)) k v k' : k <> k' -> aget keqb (aset keqb m k v) k' = aget keqb m k'.
  Proof.
    intros N. induction m as [|[k0 v0] r IH]; cbn [aset aget].
    - rewrite (keqb_neq k' k) by congruence. reflexivity.
    - destruct (keqb k k0) eqn:E; cbn [aget].
      + apply keqb_spec in E. subst k0. rewrite (keqb_neq k' k) by congruence. reflexivity.
      + destruct (keqb k' k0); [reflexivity|exact IH].
  Qed.

  Lemma aget_adel_eq (m : list (K * V)) k : aget keqb (adel keqb m k) k = None.
  Proof.
    unfold adel. induction m as [|[k0 v0] r IH]; cbn [filter aget fst]; [reflexivity|].
    destruct (keqb k k0) eqn:E; cbn [negb aget]; [exact IH|]. rewrite E. exact IH.
  Qed.

  Lemma aget_adel_neq (m : list (K * V)) k k' : k <> k' -> aget keqb (adel keqb m k) k' = aget keqb m k'.
  Proof.
    intros N. unfold adel. induction m as [|[k0 v0] r IH]; cbn [filter aget fst]; [reflexivity|].
    destruct (keqb k k0) eqn:E; cbn [negb aget].
    - apply keqb_spec in E. subst k0. rewrite (keqb_neq k' k) by congruence. exact IH.
    - destruct (keqb k' k0); [reflexivity|exact IH].
  Qed.

  Lemma aget_In (m : list (K * V)) k v : aget keqb m k = Some v -> In (k, v) m.
  Proof.
    induction m as [|[k0 v0] r IH]; cbn [aget]; [discriminate|].
    destruct (keqb k k0) eqn:E.
    - intros H. inversion H. subst. apply keqb_spec in E. subst. left. reflexivity.
    - intros H. right. apply IH. exact H.
  Qed.

  Lemma In_aget (m : list (K * V)) k v : NoDup (map fst m) -> In (k, v) m -> aget keqb m k = Some v.
  Proof.
    induction m as [|[k0 v0] r IH]; cbn [map fst aget]; intros ND HI; [contradiction|].
    inversion ND as [|? ? Hn ND']. subst. destruct HI as [HI|HI].
    - inversion HI. subst. rewrite keqb_refl. reflexivity.
    - destruct (keqb k k0) eqn:E.
      + apply keqb_spec in E. subst. exfalso. apply Hn. apply (in_map fst) in HI. exact HI.
      + apply IH; assumption.
  Qed.

  Lemma aget_None_notin (m : list (K * V)) k : aget keqb m k = None -> ~ In k (map fst m).
  Proof.
    induction m as [|[k0 v0] r IH]; cbn [aget map fst]; intros H HI; [contradiction|].
    destruct (keqb k k0) eqn:E; [discriminate|]. destruct HI as [HI|HI].
    - subst. rewrite keqb_refl in E. discriminate.
    - exact (IH H HI).
  Qed.

  Lemma notin_aget_None (m : list (K * V)) k : ~ In k (map fst m) -> aget keqb m k = None.
  Proof.
    intros H. destruct (aget keqb m k) eqn:E; [|reflexivity].
    exfalso. apply H. apply aget_In in E. apply (in_map fst) in E. exact E.
  Qed.

  Lemma keys_aset (m : list (K * V)) k v :
    map fst (aset keqb m k v) = match aget keqb m k with Some _ => map fst m | None => map fst m ++ [k] end.
  Proof.
    induction m as [|[k0 v0] r IH]; cbn [aset aget map fst app]; [reflexivity|].
    destruct (keqb k k0) eqn:E; cbn [map fst].
    - apply keqb_spec in E. subst. reflexivity.
    - rewrite IH. destruct (aget keqb r k); reflexivity.
  Qed.

  Lemma NoDup_keys_aset (m : list (K * V)) k v : NoDup (map fst m) -> NoDup (map fst (aset keqb m k v)).
  Proof.
    intros ND. rewrite keys_aset. destruct (aget keqb m k) eqn:E; [exact ND|].
    apply aget_None_notin in E.
    clear - ND E. induction (map fst m) as [|a l IH]; cbn [app].
    - constructor; [intros []|constructor].
    - inversion ND as [|? ? Hn ND']. subst. constructor.
      + rewrite in_app_iff. intros [H|[H|[]]]; [contradiction|]. subst. apply E. left. reflexivity.
      + apply IH; [exact ND'|]. intros H. apply E. right. exact H.
  Qed.

  Lemma NoDup_keys_adel (m : list (K * V)) k : NoDup (map fst m) -> NoDup (map fst (adel keqb m k)).
  Proof.
    unfold adel. induction m as [|[k0 v0] r IH]; cbn [filter map fst]; intros ND; [constructor|].
    inversion ND as [|? ? Hn ND']. subst. destruct (negb (keqb k k0)); cbn [map fst]; [|apply IH; assumption].
    constructor; [|apply IH; assumption].
    intros H. apply in_map_iff in H. destruct H as [[k1 v1] [E1 E2]]. cbn in E1. subst.
    apply filter_In in E2. destruct E2 as [E2 _]. apply (in_map fst) in E2. contradiction.
  Qed.

  Lemma In_aset (m : list (K * V)) k v k' v' :
    In (k', v') (aset keqb m k v) -> (k' = k /\ v' = v) \/ (In (k', v') m).
  Proof.
    induction m as [|[k0 v0] r IH]; cbn [aset].
    - intros [H|[]]. inversion H. left. split; reflexivity.
    - destruct (keqb k k0) eqn:E.
      + intros [H|H]; [inversion H; left; split; reflexivity|right; right; exact H].
      + intros [H|H]; [right; left; exact H|]. destruct (IH H) as [H1|H1]; [left; exact H1|right; right; exact H1].
  Qed.

  Lemma In_adel (m : list (K * V)) k k' v' : In (k', v') (adel keqb m k) <-> In (k', v') m /\ k' <> k.
  Proof.
    unfold adel. rewrite filter_In. cbn [fst]. split; intros [H1 H2]; split; try assumption.
    - intros ->. rewrite keqb_refl in H2. discriminate.
    - rewrite keqb_neq by congruence. reflexivity.
  Qed.

  (** the entries of [aset] when the key is already present / absent *)
  Lemma aset_absent (m : list (K * V)) k v : aget keqb m k = None -> aset keqb m k v = m ++ [(k, v)].
  Proof.
    induction m as [|[k0 v0] r IH]; cbn [aset aget app]; [reflexivity|].
    destruct (keqb k k0); [discriminate|]. intros H. rewrite IH by exact H. reflexivity.
  Qed.

  Lemma aset_present_split (m : list (K * V)) k v v0 :
    aget keqb m k = Some v0 ->
    exists m1 m2, m = m1 ++ (k, v0) :: m2 /\ aset keqb m k v = m1 ++ (k, v) :: m2 /\ aget keqb m1 k = None.
  Proof.
    induction m as [|[k1 v1] r IH]; cbn [aset aget]; [discriminate|].
    destruct (keqb k k1) eqn:E.
    - intros H. inversion H. subst. apply keqb_spec in E. subst. exists [], r. repeat split.
    - intros H. destruct (IH H) as [m1 [m2 [H1 [H2 H3]]]]. exists ((k1, v1) :: m1), m2.
      cbn [app aget]. rewrite E. subst r. rewrite H2. repeat split. exact H3.
  Qed.
End AMapFacts.

Lemma zeqb_spec a b : (a =? b) = true <-> a = b.
Proof. apply Z.eqb_eq. Qed.

Ltac zinst L := unfold zget, zset, zdel; intros; eapply L; eauto using zeqb_spec.

Lemma zget_zset_eq {V} (m : list (Z * V)) k v : zget (zset m k v) k = Some v.
Proof. zinst (@aget_aset_eq Z V). Qed.
Lemma zget_zset_neq {V} (m : list (Z * V)) k v k' : k <> k' -> zget (zset m k v) k' = zget m k'.
Proof. zinst (@aget_aset_neq Z V). Qed.
Lemma zget_zdel_eq {V} (m : list (Z * V)) k : zget (zdel m k) k = None.
Proof. zinst (@aget_adel_eq Z V). Qed.
Lemma zget_zdel_neq {V} (m : list (Z * V)) k k' : k <> k' -> zget (zdel m k) k' = zget m k'.
Proof. zinst (@aget_adel_neq Z V). Qed.
Lemma zget_In {V} (m : list (Z * V)) k v : zget m k = Some v -> In (k, v) m.
Proof. zinst (@aget_In Z V). Qed.
Lemma In_zget {V} (m : list (Z * V)) k v : NoDup (map fst m) -> In (k, v) m -> zget m k = Some v.
Proof. zinst (@In_aget Z V). Qed.
Lemma zget_None_notin {V} (m : list (Z * V)) k : zget m k = None -> ~ In k (map fst m).
Proof. zinst (@aget_None_notin Z V). Qed.
Lemma notin_zget_None {V} (m : list (Z * V)) k : ~ In k (map fst m) -> zget m k = None.
Proof. zinst (@notin_aget_None Z V). Qed.
Lemma keys_zset {V} (m : list (Z * V)) k v :
  map fst (zset m k v) = match zget m k with Some _ => map fst m | None => map fst m ++ [k] end.
Proof. zinst (@keys_aset Z V). Qed.
Lemma NoDup_keys_zset {V} (m : list (Z * V)) k v : NoDup (map fst m) -> NoDup (map fst (zset m k v)).
Proof. zinst (@NoDup_keys_aset Z V). Qed.
Lemma NoDup_keys_zdel {V} (m : list (Z * V)) k : NoDup (map fst m) -> NoDup (map fst (zdel m k)).
Proof. zinst (@NoDup_keys_adel Z V). Qed.
Lemma In_zset {V} (m : list (Z * V)) k v k' v' : In (k', v') (zset m k v) -> (k' = k /\ v' = v) \/ In (k', v') m.
Proof. zinst (@In_aset Z V). Qed.
Lemma In_zdel {V} (m : list (Z * V)) k k' v' : In (k', v') (zdel m k) <-> In (k', v') m /\ k' <> k.
Proof. zinst (@In_adel Z V). Qed.
Lemma zset_absent {V} (m : list (Z * V)) k v : zget m k = None -> zset m k v = m ++ [(k, v)].
Proof. zinst (@aset_absent Z V). Qed.
Lemma zset_present_split {V} (m : list (Z * V)) k v v0 :
  zget m k = Some v0 ->
  exists m1 m2, m = m1 ++ (k, v0) :: m2 /\ zset m k v = m1 ++ (k, v) :: m2 /\ zget m1 k = None.
Proof. zinst (@aset_present_split Z V). Qed.

Lemma zget_zset {V} (m : list (Z * V)) k v k' : zget (zset m k v) k' = if k' =? k then Some v else zget m k'.
Proof.
  destruct (k' =? k) eqn:E.
  - apply Z.eqb_eq in E. subst. apply zget_zset_eq.
  - apply Z.eqb_neq in E. apply zget_zset_neq. congruence.
Qed.
Lemma zget_zdel {V} (m : list (Z * V)) k k' : zget (zdel m k) k' = if k' =? k then None else zget m k'.
Proof.
  destruct (k' =? k) eqn:E.
  - apply Z.eqb_eq in E. subst. apply zget_zdel_eq.
  - apply Z.eqb_neq in E. apply zget_zdel_neq. congruence.
Qed.

Lemma zget_map {V W} (f : Z -> V -> W) (m : list (Z * V)) k :
  zget (map (fun kv => (fst kv, f (fst kv) (snd kv))) m) k = option_map (f k) (zget m k).
Proof.
  induction m as [|[k0 v0] r IH]; cbn [map zget aget fst snd option_map]; [reflexivity|].
  unfold zget in *. cbn [aget]. destruct (k =? k0) eqn:E.
  - apply Z.eqb_eq in E. subst. reflexivity.
  - exact IH.
Qed.

Lemma NoDup_app_one {A} (l : list A) x : NoDup l -> ~ In x l -> NoDup (l ++ [x]).
Proof.
  intros ND Hn. induction l as [|a r IH]; cbn [app]; [constructor; [intros []|constructor]|].
  inversion ND. subst. constructor.
  - rewrite in_app_iff. intros [H|[H|[]]]; [contradiction|]. subst. apply Hn. left. reflexivity.
  - apply IH; [assumption|]. intros H. apply Hn. right. exact H.
Qed.

(** * id sets *)
Lemma mem_In x l : mem x l = true <-> In x l.
Proof.
  unfold mem. rewrite existsb_exists. split.
  - intros [y [H1 H2]]. apply Z.eqb_eq in H2. subst. exact H1.
  - intros H. exists x. split; [exact H|apply Z.eqb_refl].
Qed.
Lemma mem_false x l : mem x l = false <-> ~ In x l.
Proof. rewrite <- mem_In. destruct (mem x l); split; intros; congruence. Qed.

Lemma In_sadd x l y : In y (sadd x l) <-> y = x \/ In y l.
Proof.
  unfold sadd. destruct (mem x l) eqn:E.
  - apply mem_In in E. split; [intros H; right; exact H|intros [->|H]; assumption].
  - rewrite in_app_iff. cbn [In]. split; [intros [H|[H|[]]]; [right|left]; congruence|intros [->|H]; [right; left; reflexivity|left; exact H]].
Qed.
Lemma NoDup_sadd x l : NoDup l -> NoDup (sadd x l).
Proof.
  unfold sadd. destruct (mem x l) eqn:E; [auto|]. apply mem_false in E. intros ND.
  apply NoDup_app_one; assumption.
Qed.
Lemma In_srem x l y : In y (srem x l) <-> In y l /\ y <> x.
Proof.
  unfold srem. rewrite filter_In. split; intros [H1 H2]; split; try assumption.
  - intros ->. rewrite Z.eqb_refl in H2. discriminate.
  - apply Z.eqb_neq in H2. rewrite H2. reflexivity.
Qed.
Lemma NoDup_srem x l : NoDup l -> NoDup (srem x l).
Proof. apply NoDup_filter. Qed.
Lemma length_sadd_new x l : ~ In x l -> length (sadd x l) = S (length l).
Proof. intros H. unfold sadd. apply mem_false in H. rewrite H. rewrite app_length. cbn. lia. Qed.

(** * sorting (insertion sort of the model) *)
Lemma zinsert_perm x l : Permutation (zinsert x l) (x :: l).
Proof.
  induction l as [|y r IH]; cbn [zinsert]; [reflexivity|].
  destruct (x <=? y); [reflexivity|]. rewrite IH. apply perm_swap.
Qed.
Lemma zsort_perm l : Permutation (zsort l) l.
Proof.
  unfold zsort. induction l as [|x r IH]; cbn [fold_right]; [reflexivity|].
  rewrite zinsert_perm. constructor. exact IH.
Qed.
Lemma In_zsort l x : In x (zsort l) <-> In x l.
Proof. split; apply Permutation_in; [apply zsort_perm|symmetry; apply zsort_perm]. Qed.
Lemma length_zsort l : length (zsort l) = length l.
Proof. apply Permutation_length. apply zsort_perm. Qed.
Lemma NoDup_zsort l : NoDup l -> NoDup (zsort l).
Proof. intros H. eapply Permutation_NoDup; [symmetry; apply zsort_perm|exact H]. Qed.

(** * positions *)
Lemma find_pos_spec x l i j : find_pos x l i = Some j -> i <= j /\ nth_error l (Z.to_nat (j - i)) = Some x.
Proof.
  revert i. induction l as [|y r IH]; cbn [find_pos]; intros i; [discriminate|].
  destruct (x =? y) eqn:E.
  - intros H. inversion H. subst. apply Z.eqb_eq in E. subst. rewrite Z.sub_diag. split; [lia|reflexivity].
  - intros H. apply IH in H. destruct H as [H1 H2]. split; [lia|].
    replace (Z.to_nat (j - i)) with (S (Z.to_nat (j - (i + 1)))) by lia. exact H2.
Qed.
Lemma find_pos_None x l i : find_pos x l i = None <-> ~ In x l.
Proof.
  revert i. induction l as [|y r IH]; cbn [find_pos In]; intros i; [split; [intros _ []|reflexivity]|].
  destruct (x =? y) eqn:E.
  - apply Z.eqb_eq in E. subst. split; [discriminate|intros H; exfalso; apply H; left; reflexivity].
  - apply Z.eqb_neq in E. rewrite IH. split; [intros H [H1|H1]; [congruence|contradiction]|intros H H1; apply H; right; exact H1].
Qed.
Lemma find_pos_nth x l i k : NoDup l -> nth_error l k = Some x -> find_pos x l i = Some (i + Z.of_nat k).
Proof.
  revert i k. induction l as [|y r IH]; intros i k ND H; [destruct k; discriminate|].
  inversion ND as [|? ? Hn ND']. subst. cbn [find_pos]. destruct k as [|k]; cbn [nth_error] in H.
  - inversion H. subst. rewrite Z.eqb_refl. f_equal. lia.
  - destruct (x =? y) eqn:E.
    + apply Z.eqb_eq in E. subst. exfalso. apply Hn. eapply nth_error_In. exact H.
    + rewrite (IH (i + 1) k ND' H). f_equal. lia.
Qed.

Lemma znth_Some {A} (l : list A) i a : znth l i = Some a -> 0 <= i < Z.of_nat (length l) /\ nth_error l (Z.to_nat i) = Some a.
Proof.
  unfold znth. destruct (i <? 0) eqn:E; [discriminate|]. apply Z.ltb_ge in E. intros H. split; [|exact H].
  assert (Hl := proj1 (nth_error_Some l (Z.to_nat i))). rewrite H in Hl. specialize (Hl ltac:(discriminate)). lia.
Qed.
Lemma znth_nth {A} (l : list A) i : 0 <= i -> znth l i = nth_error l (Z.to_nat i).
Proof. intros H. unfold znth. destruct (i <? 0) eqn:E; [apply Z.ltb_lt in E; lia|reflexivity]. Qed.
Lemma znth_app_l {A} (l r : list A) i a : znth l i = Some a -> znth (l ++ r) i = Some a.
Proof.
  intros H. destruct (znth_Some _ _ _ H) as [H1 H2]. rewrite znth_nth by lia. rewrite nth_error_app1 by lia. exact H2.
Qed.

(** get_or_create *)
Lemma get_or_create_spec names x names' id :
  get_or_create names x = (names', id) ->
  znth names' id = Some x /\ 0 <= id < Z.of_nat (length names') /\
  (forall i y, znth names i = Some y -> znth names' i = Some y) /\
  (names' = names \/ (names' = names ++ [x] /\ ~ In x names /\ id = Z.of_nat (length names))) /\
  (In x names -> names' = names).
Proof.
  unfold get_or_create. destruct (find_pos x names 0) as [j|] eqn:E; intros H; injection H as Hn Hi; subst names' id.
  - apply find_pos_spec in E. destruct E as [E1 E2]. rewrite Z.sub_0_r in E2.
    assert (Hl := proj1 (nth_error_Some names (Z.to_nat j))). rewrite E2 in Hl. specialize (Hl ltac:(discriminate)).
    repeat split; try lia; auto. rewrite znth_nth by lia. exact E2.
  - apply find_pos_None in E. rewrite app_length. cbn [length]. repeat split; try lia.
    + rewrite znth_nth by lia. rewrite Nat2Z.id. rewrite nth_error_app2 by lia. rewrite Nat.sub_diag. reflexivity.
    + intros i y Hy. apply znth_app_l. exact Hy.
    + right. repeat split; auto.
    + intros Hin. contradiction.
Qed.

Lemma get_or_create_NoDup names x names' id : get_or_create names x = (names', id) -> NoDup names -> NoDup names'.
Proof.
  intros H ND. apply get_or_create_spec in H. destruct H as [_ [_ [_ [[->|[-> [Hn _]]] _]]]]; [exact ND|].
  apply NoDup_app_one; assumption.
Qed.

(** a name has at most one position in a duplicate-free catalog *)
Lemma znth_inj (l : list Z) i j x : NoDup l -> znth l i = Some x -> znth l j = Some x -> i = j.
Proof.
  intros ND Hi Hj. apply znth_Some in Hi. apply znth_Some in Hj. destruct Hi as [Hi1 Hi2], Hj as [Hj1 Hj2].
  assert (Z.to_nat i = Z.to_nat j); [|lia].
  rewrite NoDup_nth_error in ND. apply ND; [apply nth_error_Some; congruence|congruence].
Qed.
Lemma find_pos_znth (l : list Z) i x : NoDup l -> znth l i = Some x -> find_pos x l 0 = Some i.
Proof.
  intros ND H. apply znth_Some in H. destruct H as [H1 H2]. rewrite (find_pos_nth x l 0 _ ND H2). f_equal. lia.
Qed.
Lemma find_pos_znth' (l : list Z) i x : find_pos x l 0 = Some i -> znth l i = Some x.
Proof.
  intros H. apply find_pos_spec in H. destruct H as [H1 H2]. rewrite Z.sub_0_r in H2. rewrite znth_nth by lia. exact H2.
Qed.

(** * [upd_nth] *)
Lemma upd_nth_length {A} (l : list A) n f : length (upd_nth l n f) = length l.
Proof. revert n. induction l as [|a r IH]; intros [|n]; cbn [upd_nth length]; auto. Qed.
Lemma nth_error_upd_nth_eq {A} (l : list A) n f : nth_error (upd_nth l n f) n = option_map f (nth_error l n).
Proof. revert n. induction l as [|a r IH]; intros [|n]; cbn [upd_nth nth_error option_map]; auto. Qed.
Lemma nth_error_upd_nth_neq {A} (l : list A) n m f : n <> m -> nth_error (upd_nth l n f) m = nth_error l m.
Proof.
  revert n m. induction l as [|a r IH]; intros [|n] [|m] H; cbn [upd_nth nth_error]; auto; try congruence; try (apply IH; congruence).
Qed.

(** * filter / filter_map / permutations *)
Lemma Permutation_filter {A} (f : A -> bool) l l' : Permutation l l' -> Permutation (filter f l) (filter f l').
Proof.
  induction 1; cbn [filter].
  - constructor.
  - destruct (f x); [constructor|]; assumption.
  - destruct (f x), (f y); try reflexivity. apply perm_swap.
  - etransitivity; eassumption.
Qed.
Lemma Permutation_filter_map {A B} (f : A -> option B) l l' : Permutation l l' -> Permutation (filter_map f l) (filter_map f l').
Proof.
  induction 1; cbn [filter_map].
  - constructor.
  - destruct (f x); [constructor|]; assumption.
  - destruct (f x), (f y); try reflexivity. apply perm_swap.
  - etransitivity; eassumption.
Qed.
Lemma filter_map_app {A B} (f : A -> option B) l l' : filter_map f (l ++ l') = filter_map f l ++ filter_map f l'.
Proof. induction l as [|a r IH]; cbn [app filter_map]; [reflexivity|]. destruct (f a); cbn [app]; rewrite IH; reflexivity. Qed.
Lemma In_filter_map {A B} (f : A -> option B) l b : In b (filter_map f l) <-> exists a, In a l /\ f a = Some b.
Proof.
  induction l as [|a r IH]; cbn [filter_map In]; [split; [intros []|intros [a [[] _]]]|].
  destruct (f a) eqn:E; cbn [In]; rewrite IH; split.
  - intros [H|[a' [H1 H2]]]; [subst; exists a; auto|exists a'; auto].
  - intros [a' [[H1|H1] H2]]; [subst; left; congruence|right; exists a'; auto].
  - intros [a' [H1 H2]]. exists a'. auto.
  - intros [a' [[H1|H1] H2]]; [subst; congruence|exists a'; auto].
Qed.
Lemma filter_map_ext_in {A B} (f g : A -> option B) l : (forall a, In a l -> f a = g a) -> filter_map f l = filter_map g l.
Proof.
  induction l as [|a r IH]; cbn [filter_map]; intros H; [reflexivity|].
  rewrite (H a (or_introl eq_refl)). rewrite IH; [reflexivity|]. intros b Hb. apply H. right. exact Hb.
Qed.
Lemma filter_map_filter {A B} (f : A -> option B) (p : A -> bool) l :
  filter_map f (filter p l) = filter_map (fun a => if p a then f a else None) l.
Proof.
  induction l as [|a r IH]; cbn [filter filter_map]; [reflexivity|].
  destruct (p a); cbn [filter_map]; rewrite IH; reflexivity.
Qed.
Lemma filter_filter_map {A B} (f : A -> option B) (p : B -> bool) l :
  filter p (filter_map f l) = filter_map (fun a => match f a with Some b => if p b then Some b else None | None => None end) l.
Proof.
  induction l as [|a r IH]; cbn [filter filter_map]; [reflexivity|].
  destruct (f a) as [b|]; cbn [filter]; [destruct (p b)|]; rewrite IH; reflexivity.
Qed.
Lemma filter_map_length_total {A B} (f : A -> option B) l : (forall a, In a l -> f a <> None) -> length (filter_map f l) = length l.
Proof.
  induction l as [|a r IH]; cbn [filter_map length]; intros H; [reflexivity|].
  destruct (f a) eqn:E; [|exfalso; apply (H a (or_introl eq_refl)); exact E].
  cbn [length]. rewrite IH; [reflexivity|]. intros a0 Ha0. apply H. right. exact Ha0.
Qed.
Lemma filter_map_map {A B C} (g : A -> B) (f : B -> option C) l : filter_map f (map g l) = filter_map (fun a => f (g a)) l.
Proof. induction l as [|a r IH]; cbn [map filter_map]; [reflexivity|]. rewrite IH. reflexivity. Qed.
Lemma map_filter_map {A B C} (g : B -> C) (f : A -> option B) l : map g (filter_map f l) = filter_map (fun a => option_map g (f a)) l.
Proof. induction l as [|a r IH]; cbn [map filter_map]; [reflexivity|]. destruct (f a); cbn [option_map map]; rewrite IH; reflexivity. Qed.
Lemma filter_as_filter_map {A} (p : A -> bool) l : filter p l = filter_map (fun a => if p a then Some a else None) l.
Proof. induction l as [|a r IH]; cbn [filter filter_map]; [reflexivity|]. destruct (p a); rewrite IH; reflexivity. Qed.

Lemma filter_ext_in' {A} (f g : A -> bool) l : (forall a, In a l -> f a = g a) -> filter f l = filter g l.
Proof.
  induction l as [|a r IH]; cbn [filter]; intros H; [reflexivity|].
  rewrite (H a (or_introl eq_refl)). rewrite IH; [reflexivity|]. intros b Hb. apply H. right. exact Hb.
Qed.

Lemma concat_app' {A} (l l' : list (list A)) : concat (l ++ l') = concat l ++ concat l'.
Proof. apply concat_app. Qed.

Lemma rev_cons_inv {A} (l : list A) a front : rev l = a :: front -> l = rev front ++ [a].
Proof. intros H. rewrite <- (rev_involutive l). rewrite H. reflexivity. Qed.

(** * structural equality of values *)

Lemma zlist_eqb_eq a b : zlist_eqb a b = true <-> a = b.
Proof.
  unfold zlist_eqb. revert b. induction a as [|x r IH]; intros [|y s]; cbn [list_eqb]; split; try discriminate; try reflexivity.
  - rewrite andb_true_iff. intros [H1 H2]. apply Z.eqb_eq in H1. apply IH in H2. congruence.
  - intros H. inversion H. subst. rewrite Z.eqb_refl. cbn [andb]. apply IH. reflexivity.
Qed.

(** induction principle for the nested type *)
Section ValueInd.
  Variable P : value -> Prop.
  Hypothesis Hnull : P VNull.
  Hypothesis Hbool : forall b, P (VBool b).
  Hypothesis Hint : forall i, P (VInt i).
  Hypothesis Hfloat : forall b, P (VFloat b).
  Hypothesis Hstr : forall s, P (VStr s).
  Hypothesis Hbytes : forall s, P (VBytes s).
  Hypothesis Hts : forall t, P (VTs t).
  Hypothesis Hlist : forall l, Forall P l -> P (VList l).
  Hypothesis Hmap : forall m, Forall (fun kv => P (snd kv)) m -> P (VMap m).
  Hypothesis Hvec : forall l, P (VVec l).

  Fixpoint value_ind' (v : value) : P v :=
    match v with
    | VNull => Hnull
    | VBool b => Hbool b
    | VInt i => Hint i
    | VFloat b => Hfloat b
    | VStr s => Hstr s
    | VBytes s => Hbytes s
    | VTs t => Hts t
    | VList l => Hlist l ((fix go (l : list value) : Forall P l :=
                             match l with
                             | [] => Forall_nil P
                             | a :: r => Forall_cons a (value_ind' a) (go r)
                             end) l)
    | VMap m => Hmap m ((fix go (m : list (list Z * value)) : Forall (fun kv => P (snd kv)) m :=
                           match m with
                           | [] => Forall_nil _
                           | kv :: r => Forall_cons kv (value_ind' (snd kv)) (go r)
                           end) m)
    | VVec l => Hvec l
    end.
End ValueInd.

Lemma value_eqb_eq a b : value_eqb a b = true <-> a = b.
Proof.
  revert b. induction a using value_ind'; intros [] ; cbn [value_eqb]; try (split; [discriminate|intros H0; inversion H0]); try (split; reflexivity).
  - rewrite Bool.eqb_true_iff. split; congruence.
  - rewrite Z.eqb_eq. split; congruence.
  - rewrite Z.eqb_eq. split; congruence.
  - rewrite zlist_eqb_eq. split; congruence.
  - rewrite zlist_eqb_eq. split; congruence.
  - rewrite Z.eqb_eq. split; congruence.
  - (* lists *)
    rename l0 into l2. revert l2. induction H as [|a r Ha Hr IH]; intros [|b s]; try (split; [discriminate|intros H0; inversion H0]); [split; reflexivity|].
    rewrite andb_true_iff. rewrite Ha. specialize (IH s). rewrite IH. split.
    + intros [-> H1]. inversion H1. reflexivity.
    + intros H1. inversion H1. subst. split; reflexivity.
  - (* maps *)
    rename m0 into m2. revert m2. induction H as [|[k a] r Ha Hr IH]; intros [|[k' b] s]; try (split; [discriminate|intros H0; inversion H0]); [split; reflexivity|].
    cbn [snd] in Ha. rewrite !andb_true_iff. rewrite zlist_eqb_eq. rewrite Ha. specialize (IH s). rewrite IH. split.
    + intros [[-> ->] H1]. inversion H1. reflexivity.
    + intros H1. inversion H1. subst. repeat split; reflexivity.
  - rewrite zlist_eqb_eq. split; congruence.
Qed.

Lemma value_eqb_refl a : value_eqb a a = true.
Proof. apply value_eqb_eq. reflexivity. Qed.

Ltac vinst L := unfold vget, vset, vdel; intros; eapply L; eauto using value_eqb_eq.
Lemma vget_vset_eq (m : vindex) k v : vget (vset m k v) k = Some v.
Proof. vinst (@aget_aset_eq value (list Z)). Qed.
Lemma vget_vset_neq (m : vindex) k v k' : k <> k' -> vget (vset m k v) k' = vget m k'.
Proof. vinst (@aget_aset_neq value (list Z)). Qed.
Lemma vget_vdel_eq (m : vindex) k : vget (vdel m k) k = None.
Proof. vinst (@aget_adel_eq value (list Z)). Qed.
Lemma vget_vdel_neq (m : vindex) k k' : k <> k' -> vget (vdel m k) k' = vget m k'.
Proof. vinst (@aget_adel_neq value (list Z)). Qed.

(** * induction over histories *)
Lemma run_app s ops1 ops2 : run s (ops1 ++ ops2) = run (run s ops1) ops2.
Proof. unfold run. apply fold_left_app. Qed.
Lemma run_cons s o ops : run s (o :: ops) = run (fst (step s o)) ops.
Proof. reflexivity. Qed.

Lemma run_inv (P : state -> Prop) :
  (forall s o, P s -> P (fst (step s o))) -> forall ops s, P s -> P (run s ops).
Proof.
  intros Hstep. induction ops as [|o r IH]; intros s Hs; [exact Hs|]. rewrite run_cons. apply IH. apply Hstep. exact Hs.
Qed.

Lemma run_inv_hist (P : state -> Prop) (bad : state -> op -> bool) :
  (forall s o, P s -> bad s o = false -> P (fst (step s o))) ->
  forall ops s, P s -> hist_any bad s ops = false -> P (run s ops).
Proof.
  intros Hstep. induction ops as [|o r IH]; intros s Hs Hb; [exact Hs|].
  cbn [hist_any] in Hb. apply orb_false_iff in Hb. destruct Hb as [Hb1 Hb2].
  rewrite run_cons. apply IH; [apply Hstep; assumption|exact Hb2].
Qed.

Lemma run_inv_wf (P : state -> Prop) (wf : op -> Prop) :
  (forall s o, P s -> wf o -> P (fst (step s o))) ->
  forall ops s, P s -> Forall wf ops -> P (run s ops).
Proof.
  intros Hstep. induction ops as [|o r IH]; intros s Hs Hw; [exact Hs|].
  inversion Hw. subst. rewrite run_cons. apply IH; [apply Hstep; assumption|assumption].
Qed.

Lemma fold_left_inv {A S} (P : S -> Prop) (f : S -> A -> S) :
  (forall s a, P s -> P (f s a)) -> forall l s, P s -> P (fold_left f l s).
Proof. intros H. induction l as [|a r IH]; intros s Hs; [exact Hs|]. cbn [fold_left]. apply IH. apply H. exact Hs. Qed.

(** projection simplifier *)
Ltac psimpl :=
  cbn [cfg_backward nodes edges next_node next_edge epoch lab_names lab_index node_labels ety_names
       nprops eprops pidx fwd bwd stats_cur stats_dirty
       with_nodes with_edges with_next_node with_next_edge with_epoch with_labels with_ety_names
       with_nprops with_eprops with_pidx with_adj with_stats mark_stats_dirty fst snd] in *.
