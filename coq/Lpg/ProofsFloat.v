(** C14 — binary64 bit patterns: NaN test vs exact value, and injectivity of the exact value
    ([f64_num]) up to the two zeros.  Needed for the <> pruning on an all-Float64 column. *)
From Coq Require Import ZArith Lia List Bool.
Import ListNotations.
From GV Require Import Lpg.Value.
Open Scope Z_scope.

(** magnitude of a finite/infinite float from its exponent and mantissa fields *)
Definition mag (e m : Z) : option Z :=
  if e =? 2047 then (if m =? 0 then Some (2 ^ 2200) else None)
  else if e =? 0 then Some (m * 2)
  else Some ((2 ^ 52 + m) * 2 ^ e).

Definition fe (b : Z) : Z := (b / 2 ^ 52) mod 2 ^ 11.
Definition fm (b : Z) : Z := b mod 2 ^ 52.
Definition fs (b : Z) : Z := b / 2 ^ 63.

Lemma f64_num_fields b :
  f64_num b = match mag (fe b) (fm b) with None => None | Some v => Some (if fs b =? 0 then v else - v) end.
Proof. reflexivity. Qed.

Lemma fields_range b : 0 <= fe b < 2048 /\ 0 <= fm b < 2 ^ 52.
Proof.
  unfold fe, fm. change (2 ^ 11) with 2048. split; apply Z.mod_pos_bound; [lia|apply Z.pow_pos_nonneg; lia].
Qed.

Lemma fields_mag b : b mod 2 ^ 63 = fe b * 2 ^ 52 + fm b.
Proof.
  unfold fe, fm. change (2 ^ 63) with 9223372036854775808. change (2 ^ 52) with 4503599627370496. change (2 ^ 11) with 2048.
  Z.div_mod_to_equations. lia.
Qed.

Lemma fields_u64 b : 0 <= b < 2 ^ 64 -> b = fs b * 2 ^ 63 + fe b * 2 ^ 52 + fm b /\ 0 <= fs b <= 1.
Proof.
  intros H. unfold fs, fe, fm. change (2 ^ 64) with 18446744073709551616 in H.
  change (2 ^ 63) with 9223372036854775808. change (2 ^ 52) with 4503599627370496. change (2 ^ 11) with 2048.
  Z.div_mod_to_equations. lia.
Qed.

(** the NaN test on the bit pattern = "no exact value" *)
Lemma nan_iff_none b : f64_is_nan b = true <-> f64_num b = None.
Proof.
  rewrite f64_num_fields. unfold f64_is_nan, f64_mag. rewrite fields_mag. pose proof (fields_range b) as [[E1 E2] [M1 M2]].
  unfold mag. change (2 ^ 52) with 4503599627370496 in *.
  destruct (fe b =? 2047) eqn:E; [apply Z.eqb_eq in E|apply Z.eqb_neq in E].
  - destruct (fm b =? 0) eqn:M; [apply Z.eqb_eq in M|apply Z.eqb_neq in M]; split; intros H; try discriminate H; try reflexivity.
    + apply Z.ltb_lt in H. lia.
    + apply Z.ltb_lt. lia.
  - split; intros H.
    + apply Z.ltb_lt in H. lia.
    + destruct (fe b =? 0); discriminate H.
Qed.

Lemma not_nan_some b : f64_is_nan b = false -> exists y, f64_num b = Some y.
Proof.
  intros H. destruct (f64_num b) as [y|] eqn:E; [exists y; reflexivity|]. apply nan_iff_none in E. congruence.
Qed.

(** bounds of the magnitude per exponent *)
Lemma mag_bounds e m v : 0 <= e < 2048 -> 0 <= m < 2 ^ 52 -> mag e m = Some v ->
  (e = 0 /\ v = m * 2 /\ 0 <= v < 2 ^ 53) \/
  (1 <= e <= 2046 /\ v = (2 ^ 52 + m) * 2 ^ e /\ 2 ^ (52 + e) <= v < 2 ^ (53 + e)) \/
  (e = 2047 /\ m = 0 /\ v = 2 ^ 2200).
Proof.
  intros He Hm. unfold mag.
  destruct (Z.eq_dec e 2047) as [E1|E1].
  - rewrite (proj2 (Z.eqb_eq e 2047) E1). destruct (Z.eq_dec m 0) as [M|M].
    + rewrite (proj2 (Z.eqb_eq m 0) M). intros H. right. right. split; [exact E1|]. split; [exact M|]. congruence.
    + rewrite (proj2 (Z.eqb_neq m 0) M). discriminate.
  - rewrite (proj2 (Z.eqb_neq e 2047) E1). destruct (Z.eq_dec e 0) as [E0|E0].
    + rewrite (proj2 (Z.eqb_eq e 0) E0). intros H. assert (V : v = m * 2) by congruence. left.
      split; [exact E0|]. split; [exact V|]. change (2 ^ 53) with (2 ^ 52 * 2). lia.
    + rewrite (proj2 (Z.eqb_neq e 0) E0). intros H. assert (V : v = (2 ^ 52 + m) * 2 ^ e) by congruence. right. left.
      split; [lia|]. split; [exact V|].
      assert (P : 0 < 2 ^ e) by (apply Z.pow_pos_nonneg; lia).
      rewrite !Z.pow_add_r by lia. change (2 ^ 53) with (2 ^ 52 * 2). nia.
Qed.

Lemma mag_inj e m e' m' v : 0 <= e < 2048 -> 0 <= m < 2 ^ 52 -> 0 <= e' < 2048 -> 0 <= m' < 2 ^ 52 ->
  mag e m = Some v -> mag e' m' = Some v -> e = e' /\ m = m'.
Proof.
  intros He Hm He' Hm' H1 H2.
  assert (BIG : forall k, 1 <= k <= 2046 -> 2 ^ (53 + k) < 2 ^ 2200) by (intros k Hk; apply Z.pow_lt_mono_r; lia).
  assert (LOW : forall k, 1 <= k -> 2 ^ 53 <= 2 ^ (52 + k)) by (intros k Hk; apply Z.pow_le_mono_r; lia).
  assert (STEP : forall j k, 1 <= j -> j < k -> 2 ^ (53 + j) <= 2 ^ (52 + k)) by (intros j k Hj Hjk; apply Z.pow_le_mono_r; lia).
  destruct (mag_bounds e m v He Hm H1) as [(A1 & A2 & A3)|[(A1 & A2 & A3)|(A1 & A2 & A3)]];
    destruct (mag_bounds e' m' v He' Hm' H2) as [(B1 & B2 & B3)|[(B1 & B2 & B3)|(B1 & B2 & B3)]].
  - split; lia.
  - pose proof (LOW e' ltac:(lia)). lia.
  - assert (2 ^ 53 < 2 ^ 2200) by (apply Z.pow_lt_mono_r; lia). lia.
  - pose proof (LOW e ltac:(lia)). lia.
  - destruct (Z.lt_trichotomy e e') as [L|[Eq|G]].
    + pose proof (STEP e e' ltac:(lia) L). lia.
    + subst e'. split; [reflexivity|]. assert (P : 0 < 2 ^ e) by (apply Z.pow_pos_nonneg; lia). nia.
    + pose proof (STEP e' e ltac:(lia) G). lia.
  - pose proof (BIG e ltac:(lia)). lia.
  - assert (2 ^ 53 < 2 ^ 2200) by (apply Z.pow_lt_mono_r; lia). lia.
  - pose proof (BIG e' ltac:(lia)). lia.
  - split; lia.
Qed.

Lemma mag_nonneg e m v : 0 <= e < 2048 -> 0 <= m < 2 ^ 52 -> mag e m = Some v -> 0 <= v /\ (v = 0 -> e = 0 /\ m = 0).
Proof.
  intros He Hm H. destruct (mag_bounds e m v He Hm H) as [(A1 & A2 & A3)|[(A1 & A2 & A3)|(A1 & A2 & A3)]].
  - split; [lia|]. intros. split; lia.
  - assert (0 < 2 ^ (52 + e)) by (apply Z.pow_pos_nonneg; lia). split; [lia|]. intros. lia.
  - assert (0 < 2 ^ 2200) by (apply Z.pow_pos_nonneg; lia). split; [lia|]. intros. lia.
Qed.

(** equal exact values: the same bit pattern, or the two zeros *)
Lemma f64_num_inj x q y : 0 <= x < 2 ^ 64 -> 0 <= q < 2 ^ 64 ->
  f64_num x = Some y -> f64_num q = Some y -> x = q \/ (f64_is_zero x = true /\ f64_is_zero q = true).
Proof.
  intros Hx Hq. rewrite !f64_num_fields. intros H1 H2.
  pose proof (fields_range x) as [Ex Mx]. pose proof (fields_range q) as [Eq Mq].
  destruct (fields_u64 x Hx) as [Dx Sx]. destruct (fields_u64 q Hq) as [Dq Sq].
  destruct (mag (fe x) (fm x)) as [vx|] eqn:Vx; [|discriminate]. destruct (mag (fe q) (fm q)) as [vq|] eqn:Vq; [|discriminate].
  injection H1 as H1. injection H2 as H2.
  destruct (mag_nonneg _ _ _ Ex Mx Vx) as [Px Zx]. destruct (mag_nonneg _ _ _ Eq Mq Vq) as [Pq Zq].
  assert (VV : vx = vq).
  { revert H1 H2. destruct (fs x =? 0), (fs q =? 0); intros; lia. }
  subst vq.
  destruct (Z.eq_dec vx 0) as [Z0|NZ].
  - right. destruct (Zx Z0) as [A B]. destruct (Zq Z0) as [C D]. unfold f64_is_zero, f64_mag. rewrite !fields_mag, A, B, C, D. split; reflexivity.
  - left. destruct (mag_inj _ _ _ _ _ Ex Mx Eq Mq Vx Vq) as [EE MM].
    assert (SS : fs x = fs q).
    { revert H1 H2. destruct (Z.eq_dec (fs x) 0) as [S1|S1]; destruct (Z.eq_dec (fs q) 0) as [S2|S2].
      - intros _ _. lia.
      - rewrite (proj2 (Z.eqb_eq _ _) S1), (proj2 (Z.eqb_neq _ _) S2). intros. lia.
      - rewrite (proj2 (Z.eqb_neq _ _) S1), (proj2 (Z.eqb_eq _ _) S2). intros. lia.
      - intros _ _. lia. }
    rewrite Dx, Dq, EE, MM, SS. reflexivity.
Qed.

Lemma f64_eq_of_num x q y : 0 <= x < 2 ^ 64 -> 0 <= q < 2 ^ 64 ->
  f64_num x = Some y -> f64_num q = Some y -> f64_eq x q = true.
Proof.
  intros Hx Hq H1 H2. unfold f64_eq.
  assert (N1 : f64_is_nan x = false) by (destruct (f64_is_nan x) eqn:E; [apply nan_iff_none in E; congruence|reflexivity]).
  assert (N2 : f64_is_nan q = false) by (destruct (f64_is_nan q) eqn:E; [apply nan_iff_none in E; congruence|reflexivity]).
  rewrite N1, N2. cbn [negb andb].
  destruct (f64_num_inj x q y Hx Hq H1 H2) as [->|[Z1 Z2]]; [rewrite Z.eqb_refl; reflexivity|].
  rewrite Z1, Z2. apply orb_true_r.
Qed.
