(** C14 — the base invariant of the store model (ids, epochs, catalogs) and the frame lemmas:
    which operation can change which part of the state. *)
From Coq Require Import ZArith Lia List Bool Permutation.
Import ListNotations.
From GV Require Import Lpg.Model Lpg.Classes Lpg.ProofsBase.
Open Scope Z_scope.

(** * Views: the parts of the state an invariant family depends on *)
Definition bview (s : state) := (nodes s, edges s, next_node s, next_edge s, epoch s, ety_names s).
Definition lview (s : state) := (nodes s, epoch s, lab_names s, lab_index s, node_labels s).
Definition pview (s : state) := (nodes s, epoch s, nprops s, pidx s).
Definition aview (s : state) := (edges s, epoch s, fwd s, bwd s, cfg_backward s).
Definition zview (s : state) := (nprops s, eprops s).

(** * one-step characterisations *)

(** a failed or successful delete_edge: what it does to each component *)
Lemma do_delete_edge_frame s e :
  let s' := fst (do_delete_edge s e) in
  nodes s' = nodes s /\ next_node s' = next_node s /\ next_edge s' = next_edge s /\ epoch s' = epoch s /\
  ety_names s' = ety_names s /\ lab_names s' = lab_names s /\ lab_index s' = lab_index s /\
  node_labels s' = node_labels s /\ nprops s' = nprops s /\ pidx s' = pidx s /\ cfg_backward s' = cfg_backward s /\
  stats_cur s' = stats_cur s /\ stats_dirty s' = true.
Proof.
  unfold do_delete_edge. psimpl. destruct (zget (edges s) e) as [r|]; [destruct (erec_vis r (epoch s))|]; psimpl; repeat split.
Qed.

Lemma do_delete_edge_edges s e :
  edges (fst (do_delete_edge s e)) =
  match zget (edges s) e with
  | Some r => if erec_vis r (epoch s)
              then zset (edges s) e {| e_src := e_src r; e_dst := e_dst r; e_ty := e_ty r; e_created := e_created r;
                                       e_deleted := mark_del (e_deleted r) (epoch s) |}
              else edges s
  | None => edges s
  end.
Proof.
  unfold do_delete_edge. psimpl. destruct (zget (edges s) e) as [r|]; [destruct (erec_vis r (epoch s))|]; psimpl; reflexivity.
Qed.

Lemma fold_delete_edge_frame l s :
  let s' := fold_left (fun st e => fst (do_delete_edge st e)) l s in
  nodes s' = nodes s /\ next_node s' = next_node s /\ next_edge s' = next_edge s /\ epoch s' = epoch s /\
  ety_names s' = ety_names s /\ lab_names s' = lab_names s /\ lab_index s' = lab_index s /\
  node_labels s' = node_labels s /\ nprops s' = nprops s /\ pidx s' = pidx s /\ cfg_backward s' = cfg_backward s /\
  stats_cur s' = stats_cur s.
Proof.
  revert s. induction l as [|e r IH]; intros s; cbn [fold_left]; [repeat split|].
  specialize (IH (fst (do_delete_edge s e))). cbv zeta in IH.
  destruct (do_delete_edge_frame s e) as (A1 & A2 & A3 & A4 & A5 & A6 & A7 & A8 & A9 & A10 & A11 & A12 & _).
  destruct IH as (B1 & B2 & B3 & B4 & B5 & B6 & B7 & B8 & B9 & B10 & B11 & B12).
  cbv zeta. repeat split; congruence.
Qed.

(** * the frame lemmas: operations that leave a view unchanged *)

Ltac frame_solve :=
  repeat match goal with
         | |- context [match ?x with _ => _ end] => destruct x eqn:?
         end; psimpl; try reflexivity.

Definition touches_lview (o : op) : bool :=
  match o with CreateNode _ | DeleteNode _ | AddLabel _ _ | RemoveLabel _ _ | NewEpoch => true | _ => false end.
Lemma lview_frame s o : touches_lview o = false -> lview (fst (step s o)) = lview s.
Proof.
  destruct o; cbn [touches_lview]; try discriminate; intros _; cbn [step]; unfold lview.
  - (* DeleteNodeEdges *)
    unfold do_delete_node_edges. cbn [fst].
    destruct (fold_delete_edge_frame
                (map snd (adj_edges_from (fwd s) n) ++
                 (if cfg_backward s then map snd (adj_edges_from (bwd s) n)
                  else map fst (filter (fun p => erec_vis (snd p) (epoch s) && (e_dst (snd p) =? n)) (edges s)))) s)
      as (A1 & A2 & A3 & A4 & A5 & A6 & A7 & A8 & _). cbv zeta in *. congruence.
  - unfold do_create_edge. psimpl. destruct (get_or_create (ety_names s) ty). psimpl. reflexivity.
  - destruct (do_delete_edge_frame s e) as (A1 & A2 & A3 & A4 & A5 & A6 & A7 & A8 & _). cbv zeta in *. congruence.
  - reflexivity.
  - reflexivity.
  - reflexivity.
  - reflexivity.
  - unfold do_create_index. destruct (zget (pidx s) key); reflexivity.
  - unfold do_drop_index. destruct (zget (pidx s) key); reflexivity.
  - reflexivity.
  - reflexivity.
  - reflexivity.
  - unfold do_refresh_stats. destruct (stats_dirty s); reflexivity.
Qed.

Definition touches_bview (o : op) : bool :=
  match o with
  | CreateNode _ | DeleteNode _ | DeleteNodeEdges _ | CreateEdge _ _ _ | DeleteEdge _ | NewEpoch => true
  | _ => false
  end.
Lemma bview_frame s o : touches_bview o = false -> bview (fst (step s o)) = bview s.
Proof.
  destruct o; cbn [touches_bview]; try discriminate; intros _; cbn [step]; unfold bview; try reflexivity.
  - unfold do_add_label, do_add_label_pre. destruct (node_live s n); [|reflexivity]. destruct (get_or_create (lab_names s) l).
    destruct (mem z (match zget (node_labels s) n with Some x => x | None => [] end)); reflexivity.
  - unfold do_remove_label, do_remove_label_pre. destruct (node_live s n); [|reflexivity]. destruct (find_pos l (lab_names s) 0); [|reflexivity].
    destruct (zget (node_labels s) n); [|reflexivity]. destruct (mem z l0); reflexivity.
  - unfold do_create_index. destruct (zget (pidx s) key); reflexivity.
  - unfold do_drop_index. destruct (zget (pidx s) key); reflexivity.
  - unfold do_refresh_stats. destruct (stats_dirty s); reflexivity.
Qed.

Definition touches_pview (o : op) : bool :=
  match o with
  | CreateNode _ | DeleteNode _ | SetNodeProp _ _ _ | RemoveNodeProp _ _ | CreateIndex _ | DropIndex _ | NewEpoch => true
  | _ => false
  end.
Lemma pview_frame s o : touches_pview o = false -> pview (fst (step s o)) = pview s.
Proof.
  destruct o; cbn [touches_pview]; try discriminate; intros _; cbn [step]; unfold pview; try reflexivity.
  - unfold do_delete_node_edges. cbn [fst].
    destruct (fold_delete_edge_frame
                (map snd (adj_edges_from (fwd s) n) ++
                 (if cfg_backward s then map snd (adj_edges_from (bwd s) n)
                  else map fst (filter (fun p => erec_vis (snd p) (epoch s) && (e_dst (snd p) =? n)) (edges s)))) s)
      as (A1 & A2 & A3 & A4 & A5 & A6 & A7 & A8 & A9 & A10 & _). cbv zeta in *. congruence.
  - unfold do_create_edge. psimpl. destruct (get_or_create (ety_names s) ty). psimpl. reflexivity.
  - destruct (do_delete_edge_frame s e) as (A1 & A2 & A3 & A4 & A5 & A6 & A7 & A8 & A9 & A10 & _). cbv zeta in *. congruence.
  - unfold do_add_label, do_add_label_pre. destruct (node_live s n); [|reflexivity]. destruct (get_or_create (lab_names s) l).
    destruct (mem z (match zget (node_labels s) n with Some x => x | None => [] end)); reflexivity.
  - unfold do_remove_label, do_remove_label_pre. destruct (node_live s n); [|reflexivity]. destruct (find_pos l (lab_names s) 0); [|reflexivity].
    destruct (zget (node_labels s) n); [|reflexivity]. destruct (mem z l0); reflexivity.
  - unfold do_refresh_stats. destruct (stats_dirty s); reflexivity.
Qed.

Definition touches_aview (o : op) : bool :=
  match o with
  | DeleteNodeEdges _ | CreateEdge _ _ _ | DeleteEdge _ | Compact | CompactIfNeeded | FreezeAll | NewEpoch => true
  | _ => false
  end.
Lemma aview_frame s o : touches_aview o = false -> aview (fst (step s o)) = aview s.
Proof.
  destruct o; cbn [touches_aview]; try discriminate; intros _; cbn [step]; unfold aview; try reflexivity.
  - unfold do_create_node. psimpl. destruct (create_node_labels (lab_names s) (lab_index s) [] (next_node s) labels) as [[a b] c]. psimpl. reflexivity.
  - unfold do_delete_node. psimpl. destruct (zget (nodes s) n) as [r|]; [|reflexivity].
    destruct (nrec_vis r (epoch s)); [|reflexivity]. psimpl.
    destruct (zget (node_labels s) n); psimpl; reflexivity.
  - unfold do_add_label, do_add_label_pre. destruct (node_live s n); [|reflexivity]. destruct (get_or_create (lab_names s) l).
    destruct (mem z (match zget (node_labels s) n with Some x => x | None => [] end)); reflexivity.
  - unfold do_remove_label, do_remove_label_pre. destruct (node_live s n); [|reflexivity]. destruct (find_pos l (lab_names s) 0); [|reflexivity].
    destruct (zget (node_labels s) n); [|reflexivity]. destruct (mem z l0); reflexivity.
  - unfold do_create_index. destruct (zget (pidx s) key); reflexivity.
  - unfold do_drop_index. destruct (zget (pidx s) key); reflexivity.
  - unfold do_refresh_stats. destruct (stats_dirty s); reflexivity.
Qed.

(** * the base invariant *)
Record BaseInv (s : state) : Prop := {
  b_nodes : forall n r, zget (nodes s) n = Some r ->
                        0 <= n < next_node s /\ n_created r <= epoch s /\ (forall d, n_deleted r = Some d -> d <= epoch s);
  b_edges : forall e r, zget (edges s) e = Some r ->
                        0 <= e < next_edge s /\ e_created r <= epoch s /\ (forall d, e_deleted r = Some d -> d <= epoch s)
                        /\ 0 <= e_ty r < Z.of_nat (length (ety_names s));
  b_nd_nodes : NoDup (map fst (nodes s));
  b_nd_edges : NoDup (map fst (edges s));
  b_next : 0 <= next_node s /\ 0 <= next_edge s;
  b_nd_ety : NoDup (ety_names s)
}.

Lemma BaseInv_view s s' : bview s' = bview s -> BaseInv s -> BaseInv s'.
Proof.
  unfold bview. intros E [H1 H2 H3 H4 H5 H6]. injection E as E1 E2 E3 E4 E5 E6.
  constructor; rewrite ?E1, ?E2, ?E3, ?E4, ?E5, ?E6; assumption.
Qed.

Lemma BaseInv_init b : BaseInv (init b).
Proof. constructor; cbn; try discriminate; try constructor; try lia; constructor. Qed.

Lemma vis_alive c d e : c <= e -> (forall x, d = Some x -> x <= e) -> vis c d e = match d with None => true | Some _ => false end.
Proof.
  intros H1 H2. unfold vis. replace (c <=? e) with true by (symmetry; apply Z.leb_le; exact H1).
  destruct d as [x|]; [|reflexivity]. specialize (H2 x eq_refl). cbn [andb]. apply Z.ltb_ge. exact H2.
Qed.

Lemma node_live_iff s n : BaseInv s -> (node_live s n = true <-> exists r, zget (nodes s) n = Some r /\ n_deleted r = None).
Proof.
  intros B. unfold node_live, nrec_vis. destruct (zget (nodes s) n) as [r|] eqn:E.
  - destruct (b_nodes s B n r E) as (_ & H1 & H2). rewrite (vis_alive _ _ _ H1 H2). destruct (n_deleted r) eqn:D; split.
    + discriminate.
    + intros [r' [Hr Hd]]. inversion Hr. subst. congruence.
    + intros _. exists r. auto.
    + reflexivity.
  - split; [discriminate|intros [r [H _]]; discriminate].
Qed.
Lemma edge_live_iff s e : BaseInv s -> (edge_live s e = true <-> exists r, zget (edges s) e = Some r /\ e_deleted r = None).
Proof.
  intros B. unfold edge_live, erec_vis. destruct (zget (edges s) e) as [r|] eqn:E.
  - destruct (b_edges s B e r E) as (_ & H1 & H2 & _). rewrite (vis_alive _ _ _ H1 H2). destruct (e_deleted r) eqn:D; split.
    + discriminate.
    + intros [r' [Hr Hd]]. inversion Hr. subst. congruence.
    + intros _. exists r. auto.
    + reflexivity.
  - split; [discriminate|intros [r [H _]]; discriminate].
Qed.
Lemma erec_vis_iff s e r : BaseInv s -> zget (edges s) e = Some r -> erec_vis r (epoch s) = match e_deleted r with None => true | Some _ => false end.
Proof. intros B E. destruct (b_edges s B e r E) as (_ & H1 & H2 & _). unfold erec_vis. apply vis_alive; assumption. Qed.
Lemma nrec_vis_iff s n r : BaseInv s -> zget (nodes s) n = Some r -> nrec_vis r (epoch s) = match n_deleted r with None => true | Some _ => false end.
Proof. intros B E. destruct (b_nodes s B n r E) as (_ & H1 & H2). unfold nrec_vis. apply vis_alive; assumption. Qed.

Lemma BaseInv_delete_edge s e : BaseInv s -> BaseInv (fst (do_delete_edge s e)).
Proof.
  intros B. destruct (do_delete_edge_frame s e) as (A1 & A2 & A3 & A4 & A5 & _). cbv zeta in *.
  pose proof (do_delete_edge_edges s e) as EE.
  destruct B as [H1 H2 H3 H4 H5 H6].
  constructor; rewrite ?A1, ?A2, ?A3, ?A4, ?A5; try assumption.
  - rewrite EE. destruct (zget (edges s) e) as [r|] eqn:E; [|exact H2]. destruct (erec_vis r (epoch s)); [|exact H2].
    intros e' r'. rewrite zget_zset. destruct (e' =? e) eqn:Q.
    + apply Z.eqb_eq in Q. subst e'. intros H. inversion H. subst r'. cbn [e_created e_deleted e_ty].
      destruct (H2 e r E) as (P1 & P2 & P3 & P4). repeat split; try lia.
      intros d. unfold mark_del. destruct (e_deleted r) as [d0|] eqn:D; intros Hd; inversion Hd; subst; [apply P3; reflexivity|lia].
    + apply H2.
  - rewrite EE. destruct (zget (edges s) e) as [r|] eqn:E; [|exact H4]. destruct (erec_vis r (epoch s)); [|exact H4].
    apply NoDup_keys_zset. exact H4.
Qed.

Lemma BaseInv_step s o : BaseInv s -> BaseInv (fst (step s o)).
Proof.
  intros B. destruct (touches_bview o) eqn:T; [|apply (BaseInv_view s); [apply bview_frame; exact T|exact B]].
  destruct o; cbn [touches_bview] in T; try discriminate; cbn [step]; clear T.
  - (* CreateNode *)
    unfold do_create_node. psimpl.
    destruct (create_node_labels (lab_names s) (lab_index s) [] (next_node s) labels) as [[nm ix] st]. psimpl.
    destruct B as [H1 H2 H3 H4 H5 H6]. constructor; psimpl; try assumption; try lia.
    + intros n r. rewrite zget_zset. destruct (n =? next_node s) eqn:Q.
      * apply Z.eqb_eq in Q. subst n. intros H. inversion H. subst r. cbn [n_created n_deleted]. repeat split; try lia. discriminate.
      * intros H. destruct (H1 n r H) as (P1 & P2 & P3). repeat split; try lia; assumption.
    + apply NoDup_keys_zset. exact H3.
  - (* DeleteNode *)
    unfold do_delete_node. psimpl. destruct (zget (nodes s) n) as [r|] eqn:E; [|apply (BaseInv_view s); [reflexivity|exact B]].
    destruct (nrec_vis r (epoch s)); [|apply (BaseInv_view s); [reflexivity|exact B]]. psimpl.
    assert (BaseInv (with_nodes (zset (nodes s) n {| n_created := n_created r; n_deleted := mark_del (n_deleted r) (epoch s) |}) (mark_stats_dirty s))) as B1.
    { destruct B as [H1 H2 H3 H4 H5 H6]. constructor; psimpl; try assumption.
      - intros n' r'. rewrite zget_zset. destruct (n' =? n) eqn:Q.
        + apply Z.eqb_eq in Q. subst n'. intros H. inversion H. subst r'. cbn [n_created n_deleted].
          destruct (H1 n r E) as (P1 & P2 & P3). repeat split; try lia.
          intros d. unfold mark_del. destruct (n_deleted r) as [d0|] eqn:D; intros Hd; inversion Hd; subst; [apply P3; reflexivity|lia].
        + apply H1.
      - apply NoDup_keys_zset. exact H3. }
    eapply BaseInv_view; [|exact B1]. unfold bview. destruct (zget (node_labels s) n); psimpl; reflexivity.
  - (* DeleteNodeEdges *)
    unfold do_delete_node_edges. cbn [fst]. apply fold_left_inv; [|exact B]. intros st e. apply BaseInv_delete_edge.
  - (* CreateEdge *)
    unfold do_create_edge. psimpl. destruct (get_or_create (ety_names s) ty) as [tys tid] eqn:G. psimpl.
    destruct (get_or_create_spec _ _ _ _ G) as (G1 & G2 & G3 & G4 & G5).
    destruct B as [H1 H2 H3 H4 H5 H6]. constructor; psimpl; try assumption; try lia.
    + intros e r. rewrite zget_zset. destruct (e =? next_edge s) eqn:Q.
      * apply Z.eqb_eq in Q. subst e. intros H. inversion H. subst r. cbn [e_created e_deleted e_ty]. repeat split; try lia. discriminate.
      * intros H. destruct (H2 e r H) as (P1 & P2 & P3 & P4). repeat split; try lia; try assumption.
        destruct G4 as [->|[-> _]]; [lia|]. rewrite app_length. cbn [length]. lia.
    + apply NoDup_keys_zset. exact H4.
    + eapply get_or_create_NoDup; eassumption.
  - (* DeleteEdge *) apply BaseInv_delete_edge. exact B.
  - (* NewEpoch *)
    destruct B as [H1 H2 H3 H4 H5 H6]. constructor; psimpl; try assumption.
    + intros n r H. destruct (H1 n r H) as (P1 & P2 & P3). repeat split; try lia. intros d Hd. specialize (P3 d Hd). lia.
    + intros e r H. destruct (H2 e r H) as (P1 & P2 & P3 & P4). repeat split; try lia. intros d Hd. specialize (P3 d Hd). lia.
Qed.

Lemma BaseInv_run b ops : BaseInv (run (init b) ops).
Proof. apply run_inv; [intros s o; apply BaseInv_step|apply BaseInv_init]. Qed.

(** liveness of the other nodes is not affected by an operation, except as stated *)
Lemma node_live_step_other s o n :
  BaseInv s -> node_live s n = true ->
  (match o with DeleteNode m => m <> n | _ => True end) -> node_live (fst (step s o)) n = true.
Proof.
  intros B L Hn. destruct (touches_bview o) eqn:T.
  2:{ pose proof (bview_frame s o T) as F. unfold bview in F. injection F as F1 F2 F3 F4 F5 F6. unfold node_live. rewrite F1, F5. exact L. }
  pose proof (BaseInv_step s o B) as B'.
  apply (node_live_iff _ _ B'). apply (node_live_iff _ _ B) in L. destruct L as [r [L1 L2]].
  destruct o; cbn [touches_bview] in T; try discriminate; cbn [step] in *; clear T.
  - unfold do_create_node. psimpl.
    destruct (create_node_labels (lab_names s) (lab_index s) [] (next_node s) labels) as [[nm ix] st]. psimpl.
    exists r. split; [|exact L2]. rewrite zget_zset. destruct (n =? next_node s) eqn:Q; [|exact L1].
    apply Z.eqb_eq in Q. destruct (b_nodes s B n r L1) as (P1 & _). lia.
  - unfold do_delete_node. psimpl. destruct (zget (nodes s) n0) as [r0|] eqn:E; [|exists r; auto].
    destruct (nrec_vis r0 (epoch s)); [|exists r; auto]. psimpl.
    exists r. split; [|exact L2].
    destruct (zget (node_labels s) n0); psimpl; rewrite zget_zset; destruct (n =? n0) eqn:Q; try exact L1; apply Z.eqb_eq in Q; congruence.
  - unfold do_delete_node_edges. cbn [fst].
    match goal with |- context [fold_left ?f ?l s] => destruct (fold_delete_edge_frame l s) as (A1 & _) end.
    cbv zeta in A1. rewrite A1. exists r. auto.
  - unfold do_create_edge. psimpl. destruct (get_or_create (ety_names s) ty). psimpl. exists r. auto.
  - destruct (do_delete_edge_frame s e) as (A1 & _). cbv zeta in A1. rewrite A1. exists r. auto.
  - exists r. auto.
Qed.
