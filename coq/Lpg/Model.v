(** C14 — executable model of the property-graph store:
      crates/grafeo-core/src/graph/lpg/store.rs      (LpgStore, non-tiered build)
      crates/grafeo-core/src/graph/lpg/property.rs   (PropertyStorage / PropertyColumn, CompressionMode::None)
      crates/grafeo-core/src/index/zone_map.rs       (ZoneMapEntry predicates, no Bloom filter)
      crates/grafeo-core/src/index/adjacency.rs      (ChunkedAdjacency / AdjacencyList)
      crates/grafeo-engine/src/database.rs           (validate)
    transcribed function by function from the code that exists.  Definitions only.

    Reductions (stated in MANIFEST level_note):
    - every entity has a one-element version chain created by the system transaction at the
      store's own [current_epoch]; created/deleted epochs and [visible_at] are kept.  The
      [FLAG_DELETED] bit of a record is never set by the store and is omitted.
    - hash maps/sets are association lists / duplicate-free lists; iteration order is not
      modelled (every observation that comes out of one is compared sorted).
    - labels, edge types and property keys are integer tokens chosen by the harness; the
      store's own catalogs (name -> dense id) are modelled.
    - [LpgStore] never calls [ChunkedAdjacency::compact / compact_if_needed / freeze_all];
      the ops [Compact], [CompactIfNeeded], [FreezeAll] model those public functions of
      [ChunkedAdjacency] applied to both directions (see Run.v for how they are tied). *)
From GV Require Export Lpg.Value Codec.Model.
Open Scope Z_scope.

(** * Finite maps as association lists, sets as duplicate-free lists *)

Section AMap.
  Context {K V : Type}.
  Variable keqb : K -> K -> bool.

  Fixpoint aget (m : list (K * V)) (k : K) : option V :=
    match m with
    | [] => None
    | (k', v) :: r => if keqb k k' then Some v else aget r k
    end.

  (** insert or replace; a new key goes to the end *)
  Fixpoint aset (m : list (K * V)) (k : K) (v : V) : list (K * V) :=
    match m with
    | [] => [(k, v)]
    | (k', v') :: r => if keqb k k' then (k, v) :: r else (k', v') :: aset r k v
    end.

  (** remove (keys are unique in every reachable state; removing every occurrence makes the
      lookup lemmas unconditional) *)
  Definition adel (m : list (K * V)) (k : K) : list (K * V) :=
    filter (fun p => negb (keqb k (fst p))) m.
End AMap.

Definition zget {V} := @aget Z V Z.eqb.
Definition zset {V} := @aset Z V Z.eqb.
Definition zdel {V} := @adel Z V Z.eqb.

Definition mem (x : Z) (l : list Z) : bool := existsb (Z.eqb x) l.
Definition sadd (x : Z) (l : list Z) : list Z := if mem x l then l else l ++ [x].
Definition srem (x : Z) (l : list Z) : list Z := filter (fun y => negb (y =? x)) l.

Fixpoint zinsert (x : Z) (l : list Z) : list Z :=
  match l with
  | [] => [x]
  | y :: r => if x <=? y then x :: l else y :: zinsert x r
  end.
Definition zsort (l : list Z) : list Z := fold_right zinsert [] l.

(** position of the first occurrence *)
Fixpoint find_pos (x : Z) (l : list Z) (i : Z) : option Z :=
  match l with
  | [] => None
  | y :: r => if x =? y then Some i else find_pos x r (i + 1)
  end.

Definition znth {A} (l : list A) (i : Z) : option A :=
  if i <? 0 then None else nth_error l (Z.to_nat i).

Fixpoint upd_nth {A} (l : list A) (n : nat) (f : A -> A) : list A :=
  match l, n with
  | [], _ => []
  | a :: r, O => f a :: r
  | a :: r, S k => a :: upd_nth r k f
  end.

Fixpoint filter_map {A B} (f : A -> option B) (l : list A) : list B :=
  match l with
  | [] => []
  | a :: r => match f a with Some b => b :: filter_map f r | None => filter_map f r end
  end.

(** * Records *)

(** one version: VersionInfo { created_epoch, deleted_epoch } *)
Record nrec := { n_created : Z; n_deleted : option Z }.
Record erec := { e_src : Z; e_dst : Z; e_ty : Z; e_created : Z; e_deleted : option Z }.

(** VersionInfo::is_visible_at *)
Definition vis (created : Z) (deleted : option Z) (e : Z) : bool :=
  (created <=? e) && match deleted with Some d => e <? d | None => true end.
(** VersionChain::mark_deleted on a one-version chain *)
Definition mark_del (deleted : option Z) (e : Z) : option Z :=
  match deleted with None => Some e | Some d => Some d end.

(** ZoneMapEntry (the Bloom filter is always [None] in a property column) *)
Record zone := { z_min : option value; z_max : option value; z_nulls : Z; z_rows : Z }.
Record column := { c_vals : list (Z * value); c_zone : zone; c_dirty : bool }.
Definition pstore := list (Z * column).

Definition zone_new : zone := {| z_min := None; z_max := None; z_nulls := 0; z_rows := 0 |}.
Definition column_new : column := {| c_vals := []; c_zone := zone_new; c_dirty := false |}.

(** adjacency.rs *)
Definition CHUNK_CAPACITY : Z := 64.
Definition DELTA_COMPACTION_THRESHOLD : Z := 64.
Definition COLD_COMPRESSION_THRESHOLD : Z := 4.

Definition chunk := list (Z * Z).                 (* (destination, edge id), capacity CHUNK_CAPACITY *)
Record cchunk := { cc_dsts : dbp; cc_eids : bitpacked; cc_count : Z }.
Record adjlist := { a_hot : list chunk; a_cold : list cchunk; a_delta : list (Z * Z); a_del : list Z }.
Definition adjacency := list (Z * adjlist).

Record stats := { s_nodes : Z; s_edges : Z; s_labels : list (Z * Z); s_etypes : list (Z * Z) }.
Definition stats_new : stats := {| s_nodes := 0; s_edges := 0; s_labels := []; s_etypes := [] |}.

Definition vindex := list (value * list Z).       (* DashMap<HashableValue, FxHashSet<NodeId>> *)

Record state := {
  cfg_backward : bool;
  nodes : list (Z * nrec);
  edges : list (Z * erec);
  next_node : Z;
  next_edge : Z;
  epoch : Z;
  lab_names : list Z;               (* id_to_label (label_to_id is its inverse) *)
  lab_index : list (list Z);        (* label_index : Vec<set of node ids>, by label id *)
  node_labels : list (Z * list Z);  (* node id -> set of label ids *)
  ety_names : list Z;               (* id_to_edge_type *)
  nprops : pstore;
  eprops : pstore;
  pidx : list (Z * vindex);         (* property_indexes *)
  fwd : adjacency;
  bwd : adjacency;                  (* meaningful only when cfg_backward *)
  stats_cur : stats;
  stats_dirty : bool                (* needs_stats_recompute *)
}.

Definition init (backward : bool) : state := {|
  cfg_backward := backward; nodes := []; edges := []; next_node := 0; next_edge := 0; epoch := 0;
  lab_names := []; lab_index := []; node_labels := []; ety_names := [];
  nprops := []; eprops := []; pidx := []; fwd := []; bwd := [];
  stats_cur := stats_new; stats_dirty := true |}.

(** field updaters *)
Definition with_nodes v s := {| cfg_backward := cfg_backward s; nodes := v; edges := edges s; next_node := next_node s; next_edge := next_edge s; epoch := epoch s; lab_names := lab_names s; lab_index := lab_index s; node_labels := node_labels s; ety_names := ety_names s; nprops := nprops s; eprops := eprops s; pidx := pidx s; fwd := fwd s; bwd := bwd s; stats_cur := stats_cur s; stats_dirty := stats_dirty s |}.
Definition with_edges v s := {| cfg_backward := cfg_backward s; nodes := nodes s; edges := v; next_node := next_node s; next_edge := next_edge s; epoch := epoch s; lab_names := lab_names s; lab_index := lab_index s; node_labels := node_labels s; ety_names := ety_names s; nprops := nprops s; eprops := eprops s; pidx := pidx s; fwd := fwd s; bwd := bwd s; stats_cur := stats_cur s; stats_dirty := stats_dirty s |}.
Definition with_next_node v s := {| cfg_backward := cfg_backward s; nodes := nodes s; edges := edges s; next_node := v; next_edge := next_edge s; epoch := epoch s; lab_names := lab_names s; lab_index := lab_index s; node_labels := node_labels s; ety_names := ety_names s; nprops := nprops s; eprops := eprops s; pidx := pidx s; fwd := fwd s; bwd := bwd s; stats_cur := stats_cur s; stats_dirty := stats_dirty s |}.
Definition with_next_edge v s := {| cfg_backward := cfg_backward s; nodes := nodes s; edges := edges s; next_node := next_node s; next_edge := v; epoch := epoch s; lab_names := lab_names s; lab_index := lab_index s; node_labels := node_labels s; ety_names := ety_names s; nprops := nprops s; eprops := eprops s; pidx := pidx s; fwd := fwd s; bwd := bwd s; stats_cur := stats_cur s; stats_dirty := stats_dirty s |}.
Definition with_epoch v s := {| cfg_backward := cfg_backward s; nodes := nodes s; edges := edges s; next_node := next_node s; next_edge := next_edge s; epoch := v; lab_names := lab_names s; lab_index := lab_index s; node_labels := node_labels s; ety_names := ety_names s; nprops := nprops s; eprops := eprops s; pidx := pidx s; fwd := fwd s; bwd := bwd s; stats_cur := stats_cur s; stats_dirty := stats_dirty s |}.
Definition with_labels names idx nl s := {| cfg_backward := cfg_backward s; nodes := nodes s; edges := edges s; next_node := next_node s; next_edge := next_edge s; epoch := epoch s; lab_names := names; lab_index := idx; node_labels := nl; ety_names := ety_names s; nprops := nprops s; eprops := eprops s; pidx := pidx s; fwd := fwd s; bwd := bwd s; stats_cur := stats_cur s; stats_dirty := stats_dirty s |}.
Definition with_ety_names v s := {| cfg_backward := cfg_backward s; nodes := nodes s; edges := edges s; next_node := next_node s; next_edge := next_edge s; epoch := epoch s; lab_names := lab_names s; lab_index := lab_index s; node_labels := node_labels s; ety_names := v; nprops := nprops s; eprops := eprops s; pidx := pidx s; fwd := fwd s; bwd := bwd s; stats_cur := stats_cur s; stats_dirty := stats_dirty s |}.
Definition with_nprops v s := {| cfg_backward := cfg_backward s; nodes := nodes s; edges := edges s; next_node := next_node s; next_edge := next_edge s; epoch := epoch s; lab_names := lab_names s; lab_index := lab_index s; node_labels := node_labels s; ety_names := ety_names s; nprops := v; eprops := eprops s; pidx := pidx s; fwd := fwd s; bwd := bwd s; stats_cur := stats_cur s; stats_dirty := stats_dirty s |}.
Definition with_eprops v s := {| cfg_backward := cfg_backward s; nodes := nodes s; edges := edges s; next_node := next_node s; next_edge := next_edge s; epoch := epoch s; lab_names := lab_names s; lab_index := lab_index s; node_labels := node_labels s; ety_names := ety_names s; nprops := nprops s; eprops := v; pidx := pidx s; fwd := fwd s; bwd := bwd s; stats_cur := stats_cur s; stats_dirty := stats_dirty s |}.
Definition with_pidx v s := {| cfg_backward := cfg_backward s; nodes := nodes s; edges := edges s; next_node := next_node s; next_edge := next_edge s; epoch := epoch s; lab_names := lab_names s; lab_index := lab_index s; node_labels := node_labels s; ety_names := ety_names s; nprops := nprops s; eprops := eprops s; pidx := v; fwd := fwd s; bwd := bwd s; stats_cur := stats_cur s; stats_dirty := stats_dirty s |}.
Definition with_adj f b s := {| cfg_backward := cfg_backward s; nodes := nodes s; edges := edges s; next_node := next_node s; next_edge := next_edge s; epoch := epoch s; lab_names := lab_names s; lab_index := lab_index s; node_labels := node_labels s; ety_names := ety_names s; nprops := nprops s; eprops := eprops s; pidx := pidx s; fwd := f; bwd := b; stats_cur := stats_cur s; stats_dirty := stats_dirty s |}.
Definition with_stats st d s := {| cfg_backward := cfg_backward s; nodes := nodes s; edges := edges s; next_node := next_node s; next_edge := next_edge s; epoch := epoch s; lab_names := lab_names s; lab_index := lab_index s; node_labels := node_labels s; ety_names := ety_names s; nprops := nprops s; eprops := eprops s; pidx := pidx s; fwd := fwd s; bwd := bwd s; stats_cur := st; stats_dirty := d |}.
Definition mark_stats_dirty s := with_stats (stats_cur s) true s.

(** * Liveness as the accessors compute it: [chain.visible_at(current_epoch)] *)

Definition nrec_vis (r : nrec) (e : Z) : bool := vis (n_created r) (n_deleted r) e.
Definition erec_vis (r : erec) (e : Z) : bool := vis (e_created r) (e_deleted r) e.

Definition node_live (s : state) (n : Z) : bool :=
  match zget (nodes s) n with Some r => nrec_vis r (epoch s) | None => false end.
Definition edge_live (s : state) (e : Z) : bool :=
  match zget (edges s) e with Some r => erec_vis r (epoch s) | None => false end.

(** node_ids(): live ids, sorted *)
Definition live_node_ids (s : state) : list Z :=
  map fst (filter (fun p => nrec_vis (snd p) (epoch s)) (nodes s)).
Definition node_ids (s : state) : list Z := zsort (live_node_ids s).
Definition node_count (s : state) : Z := Z.of_nat (length (filter (fun p => nrec_vis (snd p) (epoch s)) (nodes s))).

Definition live_edges (s : state) : list (Z * erec) :=
  filter (fun p => erec_vis (snd p) (epoch s)) (edges s).
Definition edge_count (s : state) : Z := Z.of_nat (length (live_edges s)).

(** * Catalogs: get_or_create_label_id / get_or_create_edge_type_id *)
Definition get_or_create (names : list Z) (x : Z) : list Z * Z :=
  match find_pos x names 0 with
  | Some i => (names, i)
  | None => (names ++ [x], Z.of_nat (length names))
  end.

(** * Property storage (property.rs) *)

(** PropertyColumn::update_zone_map_on_insert, over the comparison function ([cmp_zone] now,
    [cmp_zone_pre] before fix c5e300e) *)
Definition zone_insert_g (cmp : value -> value -> option comparison) (z : zone) (v : value) : zone :=
  if is_null v then
    {| z_min := z_min z; z_max := z_max z; z_nulls := z_nulls z + 1; z_rows := z_rows z + 1 |}
  else
    {| z_min := match z_min z with
                | None => Some v
                | Some cur => match cmp v cur with Some Lt => Some v | _ => Some cur end
                end;
       z_max := match z_max z with
                | None => Some v
                | Some cur => match cmp v cur with Some Gt => Some v | _ => Some cur end
                end;
       z_nulls := z_nulls z; z_rows := z_rows z + 1 |}.
Definition zone_insert (z : zone) (v : value) : zone := zone_insert_g cmp_zone z v.

(** PropertyColumn::set (CompressionMode::None) *)
Definition col_set (c : column) (id : Z) (v : value) : column :=
  {| c_vals := zset (c_vals c) id v; c_zone := zone_insert (c_zone c) v; c_dirty := c_dirty c |}.
Definition col_get (c : column) (id : Z) : option value := zget (c_vals c) id.
(** PropertyColumn::remove *)
Definition col_remove (c : column) (id : Z) : column :=
  match zget (c_vals c) id with
  | Some _ => {| c_vals := zdel (c_vals c) id; c_zone := c_zone c; c_dirty := true |}
  | None => c
  end.

(** PropertyStorage::{set, get, remove, remove_all, get_all} *)
Definition ps_set (p : pstore) (id key : Z) (v : value) : pstore :=
  zset p key (col_set (match zget p key with Some c => c | None => column_new end) id v).
Definition ps_get (p : pstore) (id key : Z) : option value :=
  match zget p key with Some c => col_get c id | None => None end.
Definition ps_remove (p : pstore) (id key : Z) : pstore :=
  match zget p key with Some c => zset p key (col_remove c id) | None => p end.
Definition ps_remove_all (p : pstore) (id : Z) : pstore :=
  map (fun kc => (fst kc, col_remove (snd kc) id)) p.
Definition ps_get_all (p : pstore) (id : Z) : list (Z * value) :=
  filter_map (fun kc => match col_get (snd kc) id with Some v => Some (fst kc, v) | None => None end) p.

(** zone_map.rs predicates *)
Definition zone_all_null (z : zone) : bool := (0 <? z_rows z) && (z_nulls z =? z_rows z).
Definition zone_non_null (z : zone) : bool := z_nulls z <? z_rows z.

Inductive cmpop := OpEq | OpNe | OpLt | OpLe | OpGt | OpGe.

Section ZonePredicates.
  Variable cmp : value -> value -> option comparison.

  Definition zone_eq_g (z : zone) (v : value) : bool :=
    if is_null v then 0 <? z_nulls z
    else if zone_all_null z then false
    else match z_min z, z_max z with
         | Some mn, Some mx =>
             match cmp v mn, cmp v mx with
             | Some Lt, _ => false
             | _, Some Gt => false
             | _, _ => true
             end
         | _, _ => zone_non_null z
         end.

  Definition zone_lt_g (z : zone) (v : value) (inclusive : bool) : bool :=
    match z_min z with
    | Some mn => match cmp mn v with
                 | Some Lt => true
                 | Some Eq => inclusive
                 | Some Gt => false
                 | None => true
                 end
    | None => 0 <? z_nulls z
    end.

  Definition zone_gt_g (z : zone) (v : value) (inclusive : bool) : bool :=
    match z_max z with
    | Some mx => match cmp mx v with
                 | Some Gt => true
                 | Some Eq => inclusive
                 | Some Lt => false
                 | None => true
                 end
    | None => 0 <? z_nulls z
    end.

  Definition zone_range_g (z : zone) (lo hi : option value) (lo_incl hi_incl : bool) : bool :=
    match lo with
    | Some l => if zone_gt_g z l lo_incl then
                  match hi with Some h => zone_lt_g z h hi_incl | None => true end
                else false
    | None => match hi with Some h => zone_lt_g z h hi_incl | None => true end
    end.

  (** PropertyColumn::might_match; [prune_ne]: the behaviour before fix 1879631, which pruned [<>]
      when min == max == v *)
  Definition col_might_match_g (prune_ne : bool) (c : column) (o : cmpop) (v : value) : bool :=
    if c_dirty c then true
    else match o with
         | OpEq => zone_eq_g (c_zone c) v
         | OpNe => if prune_ne then
                     match z_min (c_zone c), z_max (c_zone c) with
                     | Some mn, Some mx =>
                         negb (match cmp mn v, cmp mx v with
                               | Some Eq, Some Eq => true
                               | _, _ => false
                               end)
                     | _, _ => true
                     end
                   else true
         | OpLt => zone_lt_g (c_zone c) v false
         | OpLe => zone_lt_g (c_zone c) v true
         | OpGt => zone_gt_g (c_zone c) v false
         | OpGe => zone_gt_g (c_zone c) v true
         end.
End ZonePredicates.

Definition zone_eq := zone_eq_g cmp_zone.
Definition zone_lt := zone_lt_g cmp_zone.
Definition zone_gt := zone_gt_g cmp_zone.
Definition zone_range := zone_range_g cmp_zone.
(** the current code: exact comparison (c5e300e), [<>] never pruned (1879631) *)
Definition col_might_match := col_might_match_g cmp_zone false.
(** before c5e300e (after 1879631), and before both *)
Definition col_might_match_pre_k4 := col_might_match_g cmp_zone_pre false.
Definition col_might_match_pre_k5 := col_might_match_g cmp_zone_pre true.

(** PropertyStorage::might_match / might_match_range (the latter does not look at the dirty flag) *)
Definition ps_might_match (p : pstore) (key : Z) (o : cmpop) (v : value) : bool :=
  match zget p key with Some c => col_might_match c o v | None => true end.
Definition ps_might_match_range (p : pstore) (key : Z) (lo hi : option value) (li hi_i : bool) : bool :=
  match zget p key with Some c => zone_range (c_zone c) lo hi li hi_i | None => true end.

(** * Property indexes (store.rs) *)

Definition vget := @aget value (list Z) value_eqb.
Definition vset := @aset value (list Z) value_eqb.
Definition vdel := @adel value (list Z) value_eqb.

(** remove [id] from the entry of the old value; drop the entry when it becomes empty *)
Definition vindex_remove (ix : vindex) (old : value) (id : Z) : vindex :=
  match vget ix old with
  | Some ns => let ns' := srem id ns in
               match ns' with [] => vdel ix old | _ => vset ix old ns' end
  | None => ix
  end.
Definition vindex_add (ix : vindex) (v : value) (id : Z) : vindex :=
  vset ix v (sadd id (match vget ix v with Some ns => ns | None => [] end)).

(** update_property_index_on_set *)
Definition pidx_on_set (s : state) (id key : Z) (v : value) : list (Z * vindex) :=
  match zget (pidx s) key with
  | Some ix =>
      let ix1 := match ps_get (nprops s) id key with
                 | Some old => vindex_remove ix old id
                 | None => ix
                 end in
      zset (pidx s) key (vindex_add ix1 v id)
  | None => pidx s
  end.

(** update_property_index_on_remove, on an explicit index map (it is iterated by delete_node) *)
Definition pidx_on_remove (np : pstore) (px : list (Z * vindex)) (id key : Z) : list (Z * vindex) :=
  match zget px key with
  | Some ix =>
      match ps_get np id key with
      | Some old => zset px key (vindex_remove ix old id)
      | None => px
      end
  | None => px
  end.

(** remove_node_from_property_indexes (fix ebcbf15): update_property_index_on_remove for every
    indexed key (the keys of a hash map: each index is visited once) *)
Definition pidx_remove_node (np : pstore) (px : list (Z * vindex)) (id : Z) : list (Z * vindex) :=
  map (fun kx => (fst kx, match ps_get np id (fst kx) with
                          | Some old => vindex_remove (snd kx) old id
                          | None => snd kx
                          end)) px.

(** * Adjacency (adjacency.rs) *)

Definition adjlist_new : adjlist := {| a_hot := []; a_cold := []; a_delta := []; a_del := [] |}.

Definition chunk_full (c : chunk) : bool := CHUNK_CAPACITY <=? Z.of_nat (length c).

(** AdjacencyList::add_edge *)
Definition al_add (l : adjlist) (dst eid : Z) : adjlist :=
  match rev (a_hot l) with
  | last :: front =>
      if chunk_full last then
        {| a_hot := a_hot l; a_cold := a_cold l; a_delta := a_delta l ++ [(dst, eid)]; a_del := a_del l |}
      else
        {| a_hot := rev front ++ [last ++ [(dst, eid)]]; a_cold := a_cold l; a_delta := a_delta l; a_del := a_del l |}
  | [] => {| a_hot := a_hot l; a_cold := a_cold l; a_delta := a_delta l ++ [(dst, eid)]; a_del := a_del l |}
  end.

Definition al_mark_deleted (l : adjlist) (eid : Z) : adjlist :=
  {| a_hot := a_hot l; a_cold := a_cold l; a_delta := a_delta l; a_del := sadd eid (a_del l) |}.

(** stable insertion sort of entries by destination ([sort_by_key] is stable) *)
Fixpoint ins_by_dst (x : Z * Z) (l : list (Z * Z)) : list (Z * Z) :=
  match l with
  | [] => [x]
  | y :: r => if fst x <=? fst y then x :: l else y :: ins_by_dst x r
  end.
Definition sort_by_dst (l : list (Z * Z)) : list (Z * Z) := fold_right ins_by_dst [] l.

(** AdjacencyChunk::compress *)
Definition chunk_compress (c : chunk) : cchunk :=
  let es := sort_by_dst c in
  {| cc_dsts := dbp_encode (map fst es); cc_eids := pack (map snd es); cc_count := Z.of_nat (length es) |}.
(** CompressedAdjacencyChunk::iter *)
Definition cchunk_iter (c : cchunk) : list (Z * Z) := combine (dbp_decode (cc_dsts c)) (unpack (cc_eids c)).

(** the loop of AdjacencyList::compact: [cur] is the chunk being filled, [done] the finished ones *)
Fixpoint fill_chunks (done : list chunk) (cur : chunk) (ds : list (Z * Z)) : list chunk * chunk :=
  match ds with
  | [] => (done, cur)
  | d :: r => if chunk_full cur then fill_chunks (done ++ [cur]) [d] r
              else fill_chunks done (cur ++ [d]) r
  end.

(** maybe_compress_to_cold: while more than COLD_COMPRESSION_THRESHOLD hot chunks, move the oldest *)
Fixpoint compress_to_cold (fuel : nat) (hot : list chunk) (cold : list cchunk) : list chunk * list cchunk :=
  match fuel with
  | O => (hot, cold)
  | S k => if COLD_COMPRESSION_THRESHOLD <? Z.of_nat (length hot) then
             match hot with
             | [] => (hot, cold)
             | c :: r => match c with
                         | [] => compress_to_cold k r cold
                         | _ => compress_to_cold k r (cold ++ [chunk_compress c])
                         end
             end
           else (hot, cold)
  end.

(** AdjacencyList::compact *)
Definition al_compact (l : adjlist) : adjlist :=
  match a_delta l with
  | [] => l
  | _ =>
      let '(base, cur0) :=
        match rev (a_hot l) with
        | last :: front => if chunk_full last then (a_hot l, []) else (rev front, last)
        | [] => ([], [])
        end in
      let '(done, cur) := fill_chunks base cur0 (a_delta l) in
      let hot1 := match cur with [] => done | _ => done ++ [cur] end in
      let '(hot2, cold2) := compress_to_cold (length hot1) hot1 (a_cold l) in
      {| a_hot := hot2; a_cold := cold2; a_delta := []; a_del := a_del l |}
  end.

(** AdjacencyList::freeze_all *)
Definition al_freeze (l : adjlist) : adjlist :=
  {| a_hot := [];
     a_cold := a_cold l ++ map chunk_compress (filter (fun c => match c with [] => false | _ => true end) (a_hot l));
     a_delta := a_delta l; a_del := a_del l |}.

(** AdjacencyList::iter — cold, then hot, then delta, tombstones filtered *)
Definition al_raw (l : adjlist) : list (Z * Z) :=
  flat_map cchunk_iter (a_cold l) ++ concat (a_hot l) ++ a_delta l.
Definition al_iter (l : adjlist) : list (Z * Z) :=
  filter (fun p => negb (mem (snd p) (a_del l))) (al_raw l).

(** ChunkedAdjacency *)
Definition adj_add (a : adjacency) (src dst eid : Z) : adjacency :=
  zset a src (al_add (match zget a src with Some l => l | None => adjlist_new end) dst eid).
Definition adj_mark_deleted (a : adjacency) (src eid : Z) : adjacency :=
  match zget a src with Some l => zset a src (al_mark_deleted l eid) | None => a end.
Definition adj_edges_from (a : adjacency) (src : Z) : list (Z * Z) :=
  match zget a src with Some l => al_iter l | None => [] end.
Definition adj_degree (a : adjacency) (src : Z) : Z := Z.of_nat (length (adj_edges_from a src)).
Definition adj_compact (a : adjacency) : adjacency := map (fun kl => (fst kl, al_compact (snd kl))) a.
Definition adj_compact_if_needed (a : adjacency) : adjacency :=
  map (fun kl => (fst kl, if DELTA_COMPACTION_THRESHOLD <=? Z.of_nat (length (a_delta (snd kl)))
                          then al_compact (snd kl) else snd kl)) a.
Definition adj_freeze (a : adjacency) : adjacency := map (fun kl => (fst kl, al_freeze (snd kl))) a.
(** memory_stats(): (hot_entries incl. delta, cold_entries) *)
Definition adj_hot_entries (a : adjacency) : Z :=
  fold_right (fun kl acc => Z.of_nat (length (concat (a_hot (snd kl)))) + Z.of_nat (length (a_delta (snd kl))) + acc) 0 a.
Definition adj_cold_entries (a : adjacency) : Z :=
  fold_right (fun kl acc => fold_right (fun c acc2 => cc_count c + acc2) 0 (a_cold (snd kl)) + acc) 0 a.

(** * Operations *)

Inductive op :=
| CreateNode (labels : list Z)
| DeleteNode (n : Z)
| DeleteNodeEdges (n : Z)
| CreateEdge (src dst ty : Z)
| DeleteEdge (e : Z)
| SetNodeProp (n key : Z) (v : value)
| RemoveNodeProp (n key : Z)
| SetEdgeProp (e key : Z) (v : value)
| RemoveEdgeProp (e key : Z)
| AddLabel (n l : Z)
| RemoveLabel (n l : Z)
| CreateIndex (key : Z)
| DropIndex (key : Z)
| Compact
| CompactIfNeeded
| FreezeAll
| RefreshStats
| NewEpoch.

Inductive ret := RUnit | RId (i : Z) | RBool (b : bool) | ROptV (o : option value).

(** label_index.insert(id) at [label_id], growing the vector first *)
Definition lab_index_insert (idx : list (list Z)) (lid n : Z) : list (list Z) :=
  let idx1 := idx ++ repeat [] (Z.to_nat (lid + 1) - length idx) in
  upd_nth idx1 (Z.to_nat lid) (sadd n).
Definition lab_index_remove (idx : list (list Z)) (lid n : Z) : list (list Z) :=
  upd_nth idx (Z.to_nat lid) (srem n).

(** create_node_versioned: the loop over the labels *)
Fixpoint create_node_labels (names : list Z) (idx : list (list Z)) (set : list Z) (n : Z) (ls : list Z)
  : list Z * list (list Z) * list Z :=
  match ls with
  | [] => (names, idx, set)
  | l :: r => let '(names1, lid) := get_or_create names l in
              create_node_labels names1 (lab_index_insert idx lid n) (sadd lid set) n r
  end.

Definition do_create_node (s : state) (ls : list Z) : state * ret :=
  let id := next_node s in
  let '(names, idx, set) := create_node_labels (lab_names s) (lab_index s) [] id ls in
  let s1 := with_labels names idx (zset (node_labels s) id set) (mark_stats_dirty s) in
  let s2 := with_nodes (zset (nodes s1) id {| n_created := epoch s; n_deleted := None |}) s1 in
  (with_next_node (id + 1) s2, RId id).

(** delete_node_at_epoch (non-tiered), incl. fix ebcbf15 *)
Definition do_delete_node (s0 : state) (id : Z) : state * ret :=
  let s := mark_stats_dirty s0 in
  match zget (nodes s) id with
  | Some r =>
      if nrec_vis r (epoch s) then
        let s1 := with_nodes (zset (nodes s) id {| n_created := n_created r; n_deleted := mark_del (n_deleted r) (epoch s) |}) s in
        let s2 := match zget (node_labels s1) id with
                  | Some lids => with_labels (lab_names s1)
                                             (fold_left (fun ix lid => lab_index_remove ix lid id) lids (lab_index s1))
                                             (zdel (node_labels s1) id) s1
                  | None => s1
                  end in
        let s3 := with_pidx (pidx_remove_node (nprops s2) (pidx s2) id) s2 in
        (with_nprops (ps_remove_all (nprops s3) id) s3, RBool true)
      else (s, RBool false)
  | None => (s, RBool false)
  end.

(** the pre-ebcbf15 behaviour: property indexes untouched *)
Definition do_delete_node_pre (s0 : state) (id : Z) : state * ret :=
  let s := mark_stats_dirty s0 in
  match zget (nodes s) id with
  | Some r =>
      if nrec_vis r (epoch s) then
        let s1 := with_nodes (zset (nodes s) id {| n_created := n_created r; n_deleted := mark_del (n_deleted r) (epoch s) |}) s in
        let s2 := match zget (node_labels s1) id with
                  | Some lids => with_labels (lab_names s1)
                                             (fold_left (fun ix lid => lab_index_remove ix lid id) lids (lab_index s1))
                                             (zdel (node_labels s1) id) s1
                  | None => s1
                  end in
        (with_nprops (ps_remove_all (nprops s2) id) s2, RBool true)
      else (s, RBool false)
  | None => (s, RBool false)
  end.

Definition do_create_edge (s0 : state) (src dst ty : Z) : state * ret :=
  let s := mark_stats_dirty s0 in
  let id := next_edge s in
  let '(tys, tid) := get_or_create (ety_names s) ty in
  let s1 := with_ety_names tys s in
  let s2 := with_edges (zset (edges s1) id {| e_src := src; e_dst := dst; e_ty := tid; e_created := epoch s; e_deleted := None |}) s1 in
  let s3 := with_adj (adj_add (fwd s2) src dst id)
                     (if cfg_backward s2 then adj_add (bwd s2) dst src id else bwd s2) s2 in
  (with_next_edge (id + 1) s3, RId id).

(** delete_edge_at_epoch (non-tiered) *)
Definition do_delete_edge (s0 : state) (id : Z) : state * ret :=
  let s := mark_stats_dirty s0 in
  match zget (edges s) id with
  | Some r =>
      if erec_vis r (epoch s) then
        let s1 := with_edges (zset (edges s) id {| e_src := e_src r; e_dst := e_dst r; e_ty := e_ty r; e_created := e_created r;
                                                    e_deleted := mark_del (e_deleted r) (epoch s) |}) s in
        let s2 := with_adj (adj_mark_deleted (fwd s1) (e_src r) id)
                           (if cfg_backward s1 then adj_mark_deleted (bwd s1) (e_dst r) id else bwd s1) s1 in
        (with_eprops (ps_remove_all (eprops s2) id) s2, RBool true)
      else (s, RBool false)
  | None => (s, RBool false)
  end.

(** delete_node_edges (non-tiered) *)
Definition do_delete_node_edges (s : state) (n : Z) : state * ret :=
  let outgoing := map snd (adj_edges_from (fwd s) n) in
  let incoming := if cfg_backward s then map snd (adj_edges_from (bwd s) n)
                  else map fst (filter (fun p => erec_vis (snd p) (epoch s) && (e_dst (snd p) =? n)) (edges s)) in
  (fold_left (fun st e => fst (do_delete_edge st e)) (outgoing ++ incoming) s, RUnit).

Definition do_set_node_prop (s : state) (id key : Z) (v : value) : state * ret :=
  let s1 := with_pidx (pidx_on_set s id key v) s in
  (with_nprops (ps_set (nprops s1) id key v) s1, RUnit).

Definition do_remove_node_prop (s : state) (id key : Z) : state * ret :=
  let s1 := with_pidx (pidx_on_remove (nprops s) (pidx s) id key) s in
  (with_nprops (ps_remove (nprops s1) id key) s1, ROptV (ps_get (nprops s) id key)).

Definition do_set_edge_prop (s : state) (id key : Z) (v : value) : state * ret :=
  (with_eprops (ps_set (eprops s) id key v) s, RUnit).
Definition do_remove_edge_prop (s : state) (id key : Z) : state * ret :=
  (with_eprops (ps_remove (eprops s) id key) s, ROptV (ps_get (eprops s) id key)).

(** add_label (non-tiered) before fix 2e121d0: needs_stats_recompute untouched *)
Definition do_add_label_pre (s : state) (n l : Z) : state * ret :=
  if node_live s n then
    let '(names, lid) := get_or_create (lab_names s) l in
    let set := match zget (node_labels s) n with Some x => x | None => [] end in
    if mem lid set then
      (* entry(node_id).or_default() has been executed, the catalog may have grown *)
      (with_labels names (lab_index s) (zset (node_labels s) n set) s, RBool false)
    else
      (with_labels names (lab_index_insert (lab_index s) lid n) (zset (node_labels s) n (sadd lid set)) s, RBool true)
  else (s, RBool false).

(** remove_label (non-tiered) before fix 2e121d0 *)
Definition do_remove_label_pre (s : state) (n l : Z) : state * ret :=
  if node_live s n then
    match find_pos l (lab_names s) 0 with
    | Some lid =>
        match zget (node_labels s) n with
        | Some set =>
            if mem lid set then
              (with_labels (lab_names s) (lab_index_remove (lab_index s) lid n) (zset (node_labels s) n (srem lid set)) s, RBool true)
            else (s, RBool false)
        | None => (s, RBool false)
        end
    | None => (s, RBool false)
    end
  else (s, RBool false).

(** add_label / remove_label since 2e121d0: the statistics are marked for recomputation (the flag
    is stored on entry, whatever the outcome; the other fields do not depend on it) *)
Definition do_add_label (s : state) (n l : Z) : state * ret :=
  let r := do_add_label_pre s n l in (mark_stats_dirty (fst r), snd r).
Definition do_remove_label (s : state) (n l : Z) : state * ret :=
  let r := do_remove_label_pre s n l in (mark_stats_dirty (fst r), snd r).

(** create_property_index: built from the live nodes *)
Definition build_index (s : state) (key : Z) : vindex :=
  fold_left (fun ix n => match ps_get (nprops s) n key with Some v => vindex_add ix v n | None => ix end)
            (node_ids s) [].
Definition do_create_index (s : state) (key : Z) : state * ret :=
  match zget (pidx s) key with
  | Some _ => (s, RUnit)
  | None => (with_pidx (zset (pidx s) key (build_index s key)) s, RUnit)
  end.
Definition do_drop_index (s : state) (key : Z) : state * ret :=
  match zget (pidx s) key with
  | Some _ => (with_pidx (zdel (pidx s) key) s, RBool true)
  | None => (s, RBool false)
  end.

(** compute_statistics (the cardinalities; average degrees are floats and are not modelled) *)
Fixpoint label_stats (names : list Z) (idx : list (list Z)) (i : nat) : list (Z * Z) :=
  match names with
  | [] => []
  | nm :: r => let c := match nth_error idx i with Some set => Z.of_nat (length set) | None => 0 end in
               if 0 <? c then zset (label_stats r idx (S i)) nm c else label_stats r idx (S i)
  end.
Definition etype_counts (s : state) : list (Z * Z) :=
  fold_left (fun acc p => zset acc (e_ty (snd p)) (match zget acc (e_ty (snd p)) with Some c => c + 1 | None => 1 end))
            (live_edges s) [].
Definition etype_stats (s : state) : list (Z * Z) :=
  fold_left (fun acc tc => match znth (ety_names s) (fst tc) with Some nm => zset acc nm (snd tc) | None => acc end)
            (etype_counts s) [].
Definition compute_stats (s : state) : stats :=
  {| s_nodes := node_count s; s_edges := edge_count s;
     s_labels := label_stats (lab_names s) (lab_index s) 0; s_etypes := etype_stats s |}.
(** ensure_statistics_fresh *)
Definition do_refresh_stats (s : state) : state * ret :=
  if stats_dirty s then (with_stats (compute_stats s) false s, RUnit) else (s, RUnit).

Definition step (s : state) (o : op) : state * ret :=
  match o with
  | CreateNode ls => do_create_node s ls
  | DeleteNode n => do_delete_node s n
  | DeleteNodeEdges n => do_delete_node_edges s n
  | CreateEdge a b t => do_create_edge s a b t
  | DeleteEdge e => do_delete_edge s e
  | SetNodeProp n k v => do_set_node_prop s n k v
  | RemoveNodeProp n k => do_remove_node_prop s n k
  | SetEdgeProp e k v => do_set_edge_prop s e k v
  | RemoveEdgeProp e k => do_remove_edge_prop s e k
  | AddLabel n l => do_add_label s n l
  | RemoveLabel n l => do_remove_label s n l
  | CreateIndex k => do_create_index s k
  | DropIndex k => do_drop_index s k
  | Compact => (with_adj (adj_compact (fwd s)) (adj_compact (bwd s)) s, RUnit)
  | CompactIfNeeded => (with_adj (adj_compact_if_needed (fwd s)) (adj_compact_if_needed (bwd s)) s, RUnit)
  | FreezeAll => (with_adj (adj_freeze (fwd s)) (adj_freeze (bwd s)) s, RUnit)
  | RefreshStats => do_refresh_stats s
  | NewEpoch => (with_epoch (epoch s + 1) s, RId (epoch s + 1))
  end.

(** the same machine with the pre-repair delete_node (before ebcbf15) *)
Definition step_pre (s : state) (o : op) : state * ret :=
  match o with
  | DeleteNode n => do_delete_node_pre s n
  | _ => step s o
  end.
(** the same machine with the pre-repair add_label / remove_label (before 2e121d0) *)
Definition step_pre_k7 (s : state) (o : op) : state * ret :=
  match o with
  | AddLabel n l => do_add_label_pre s n l
  | RemoveLabel n l => do_remove_label_pre s n l
  | _ => step s o
  end.

Definition run (s : state) (ops : list op) : state := fold_left (fun st o => fst (step st o)) ops s.
Definition run_pre (s : state) (ops : list op) : state := fold_left (fun st o => fst (step_pre st o)) ops s.
Definition run_pre_k7 (s : state) (ops : list op) : state := fold_left (fun st o => fst (step_pre_k7 st o)) ops s.

(** * GrafeoDB's wrappers: the store operation itself, except delete_node, which since fix 109e5bf
    deletes the incident edges of a live node first (outgoing, then incoming, each through
    delete_edge) -- that is [DeleteNodeEdges n; DeleteNode n] *)
Inductive dop :=
| Basic (o : op)
| DbDeleteNode (n : Z).
Definition dexpand1 (s : state) (d : dop) : list op :=
  match d with
  | Basic o => [o]
  | DbDeleteNode n => if node_live s n then [DeleteNodeEdges n; DeleteNode n] else [DeleteNode n]
  end.
Definition dstep (s : state) (d : dop) : state * ret :=
  match d with
  | Basic o => step s o
  | DbDeleteNode n => if node_live s n then step (fst (step s (DeleteNodeEdges n))) (DeleteNode n) else step s (DeleteNode n)
  end.
Definition drun (s : state) (ds : list dop) : state := fold_left (fun st d => fst (dstep st d)) ds s.
(** the store-level history a GrafeoDB-level history amounts to *)
Fixpoint dexpand (s : state) (ds : list dop) : list op :=
  match ds with
  | [] => []
  | d :: r => dexpand1 s d ++ dexpand (fst (dstep s d)) r
  end.

(** * Accessors (store.rs) *)

(** labels of a node as names: get_node().labels *)
Definition node_label_names (s : state) (n : Z) : list Z :=
  match zget (node_labels s) n with
  | Some lids => filter_map (fun lid => znth (lab_names s) lid) lids
  | None => []
  end.
(** get_node: labels and properties of a live node *)
Definition get_node (s : state) (n : Z) : option (list Z * list (Z * value)) :=
  if node_live s n then Some (node_label_names s n, ps_get_all (nprops s) n) else None.

(** nodes_by_label (before the final sort) *)
Definition nodes_by_label (s : state) (l : Z) : list Z :=
  match find_pos l (lab_names s) 0 with
  | Some lid => match znth (lab_index s) lid with Some set => set | None => [] end
  | None => []
  end.

(** get_edge: (src, dst, type name, properties) *)
Definition get_edge (s : state) (e : Z) : option (Z * Z * Z * list (Z * value)) :=
  match zget (edges s) e with
  | Some r => if erec_vis r (epoch s) then
                match znth (ety_names s) (e_ty r) with
                | Some nm => Some (e_src r, e_dst r, nm, ps_get_all (eprops s) e)
                | None => None
                end
              else None
  | None => None
  end.
(** all_edges: (id, src, dst, type name) *)
Definition all_edges (s : state) : list (Z * Z * Z * Z) :=
  filter_map (fun p => match get_edge s (fst p) with
                       | Some (a, b, t, _) => Some (fst p, a, b, t)
                       | None => None
                       end) (live_edges s).
Definition all_nodes (s : state) : list Z :=
  filter_map (fun n => match get_node s n with Some _ => Some n | None => None end) (live_node_ids s).

Inductive direction := Outgoing | Incoming | Both.

Definition edges_from (s : state) (n : Z) (d : direction) : list (Z * Z) :=
  (match d with Outgoing | Both => adj_edges_from (fwd s) n | Incoming => [] end)
  ++
  (match d with
   | Incoming | Both => if cfg_backward s then adj_edges_from (bwd s) n else []
   | Outgoing => []
   end).
Definition neighbors (s : state) (n : Z) (d : direction) : list Z := map fst (edges_from s n d).

Definition edges_to (s : state) (n : Z) : list (Z * Z) :=
  if cfg_backward s then adj_edges_from (bwd s) n
  else filter_map (fun q => match q with (id, a, b, _) => if b =? n then Some (a, id) else None end) (all_edges s).
Definition out_degree (s : state) (n : Z) : Z := adj_degree (fwd s) n.
Definition in_degree (s : state) (n : Z) : Z :=
  if cfg_backward s then adj_degree (bwd s) n
  else Z.of_nat (length (filter (fun q => match q with (_, _, b, _) => b =? n end) (all_edges s))).

(** the scan of find_nodes_by_property *)
Definition scan_by_prop (s : state) (key : Z) (v : value) : list Z :=
  filter (fun n => match ps_get (nprops s) n key with Some x => value_ieee_eqb x v | None => false end) (node_ids s).
(** find_nodes_by_property: through the index, unless the value contains a float NaN or zero, on
    which the index keys (bit patterns) and the scan ([==]) differ (fix c82f983) *)
Definition find_by_prop (s : state) (key : Z) (v : value) : list Z :=
  match zget (pidx s) key with
  | Some ix => if has_float_special v then scan_by_prop s key v
               else match vget ix v with Some ns => ns | None => [] end
  | None => scan_by_prop s key v
  end.
(** before c82f983: the index whenever there is one *)
Definition find_by_prop_pre (s : state) (key : Z) (v : value) : list Z :=
  match zget (pidx s) key with
  | Some ix => match vget ix v with Some ns => ns | None => [] end
  | None => scan_by_prop s key v
  end.
(** the same lookup against the pre-repair machine is the same function of the state *)

(** find_nodes_by_properties (conjunction of equalities): start from the smallest result of an
    indexed condition (indexed: the key has an index and the value no float NaN / zero, c82f983) (the first of the smallest ones), or from find_nodes_by_property of the first
    condition when no condition is indexed; an indexed condition without a match ends the lookup;
    the remaining conditions filter the candidates by [Value::eq] on the stored value *)
Definition cond_holds (s : state) (c : Z * value) (n : Z) : bool :=
  match ps_get (nprops s) n (fst c) with Some x => value_ieee_eqb x (snd c) | None => false end.
Fixpoint best_start (s : state) (conds : list (Z * value)) (i : Z) (best : option (Z * list Z))
  : option (option (Z * list Z)) :=
  match conds with
  | [] => Some best
  | c :: r =>
      match (if has_float_special (snd c) then None else zget (pidx s) (fst c)) with
      | Some ix =>
          let m := match vget ix (snd c) with Some ns => ns | None => [] end in
          match m with
          | [] => None
          | _ => let better := match best with
                               | None => true
                               | Some (_, b) => Z.of_nat (length m) <? Z.of_nat (length b)
                               end in
                 best_start s r (i + 1) (if better then Some (i, m) else best)
          end
      | None => best_start s r (i + 1) best
      end
  end.
Fixpoint filter_conds (s : state) (conds : list (Z * value)) (i start : Z) (cands : list Z) : list Z :=
  match conds with
  | [] => cands
  | c :: r => filter_conds s r (i + 1) start (if i =? start then cands else filter (cond_holds s c) cands)
  end.
Definition find_by_props (s : state) (conds : list (Z * value)) : list Z :=
  match conds with
  | [] => node_ids s
  | c0 :: _ =>
      match best_start s conds 0 None with
      | None => []
      | Some b =>
          let '(start, cands) := match b with
                                 | Some x => x
                                 | None => (0, find_by_prop s (fst c0) (snd c0))
                                 end in
          filter_conds s conds 0 start cands
      end
  end.
(** the scan the conjunction means *)
Definition scan_by_props (s : state) (conds : list (Z * value)) : list Z :=
  filter (fun n => forallb (fun c => cond_holds s c n) conds) (node_ids s).

Definition scan_in_range (s : state) (key : Z) (lo hi : option value) (li hi_i : bool) : list Z :=
  filter (fun n => match ps_get (nprops s) n key with Some x => value_in_range x lo hi li hi_i | None => false end) (node_ids s).
Definition find_in_range (s : state) (key : Z) (lo hi : option value) (li hi_i : bool) : list Z :=
  if ps_might_match_range (nprops s) key lo hi li hi_i then scan_in_range s key lo hi li hi_i else [].

Definition node_might_match (s : state) (key : Z) (o : cmpop) (v : value) : bool := ps_might_match (nprops s) key o v.
Definition edge_might_match (s : state) (key : Z) (o : cmpop) (v : value) : bool := ps_might_match (eprops s) key o v.
Definition node_zone (s : state) (key : Z) : option zone :=
  match zget (nprops s) key with Some c => Some (c_zone c) | None => None end.

(** GrafeoDB::validate: (0 = DANGLING_SRC | 1 = DANGLING_DST, edge id) per error *)
Definition validate (s : state) : list (Z * Z) :=
  flat_map (fun q => match q with (id, a, b, _) =>
                       (if node_live s a then [] else [(0, id)]) ++ (if node_live s b then [] else [(1, id)])
                     end) (all_edges s).

(** * The store-level meaning of "a stored value satisfies [op q]":
      Eq        : the predicate of the scan of find_nodes_by_property   (Value::eq)
      Ne        : the value is not null and Value::ne
      Lt..Ge    : the predicate of the scan of find_nodes_in_range      (same-type comparison) *)
Definition sat (o : cmpop) (x q : value) : bool :=
  match o with
  | OpEq => value_ieee_eqb x q
  | OpNe => negb (is_null x) && negb (value_ieee_eqb x q)
  | OpLt => match cmp_range x q with Some Lt => true | _ => false end
  | OpLe => match cmp_range x q with Some Lt | Some Eq => true | _ => false end
  | OpGt => match cmp_range x q with Some Gt => true | _ => false end
  | OpGe => match cmp_range x q with Some Gt | Some Eq => true | _ => false end
  end.
