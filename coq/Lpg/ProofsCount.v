(** C14 — counts equal enumerations; statistics after a refresh equal the actual cardinalities. *)
From Coq Require Import ZArith Lia List Bool Permutation.
Import ListNotations.
From GV Require Import Lpg.Model Lpg.Classes Lpg.ProofsBase Lpg.ProofsInv Lpg.ProofsLabel.
Open Scope Z_scope.

(** * enumerations *)
Lemma filter_map_id {A} (f : A -> option A) l : (forall a, In a l -> f a = Some a) -> filter_map f l = l.
Proof.
  induction l as [|a r IH]; cbn [filter_map]; intros H; [reflexivity|].
  rewrite (H a (or_introl eq_refl)). rewrite IH; [reflexivity|]. intros b Hb. apply H. right. exact Hb.
Qed.

Lemma all_nodes_eq s : BaseInv s -> all_nodes s = live_node_ids s.
Proof.
  intros B. unfold all_nodes. apply filter_map_id. intros n Hn. apply (In_live_node_ids s n B) in Hn.
  unfold get_node. rewrite Hn. reflexivity.
Qed.

Definition ety_name (s : state) (tid : Z) : Z := match znth (ety_names s) tid with Some nm => nm | None => 0 end.

Lemma live_edge_get s p : BaseInv s -> In p (live_edges s) ->
  zget (edges s) (fst p) = Some (snd p) /\ erec_vis (snd p) (epoch s) = true /\
  znth (ety_names s) (e_ty (snd p)) = Some (ety_name s (e_ty (snd p))).
Proof.
  intros B H. unfold live_edges in H. apply filter_In in H. destruct H as [H1 H2]. destruct p as [k r]. cbn [fst snd] in *.
  pose proof (In_zget _ _ _ (b_nd_edges s B) H1) as E. split; [exact E|split; [exact H2|]].
  destruct (b_edges s B k r E) as (_ & _ & _ & P). unfold ety_name. rewrite znth_nth by lia.
  destruct (nth_error (ety_names s) (Z.to_nat (e_ty r))) eqn:N; [reflexivity|]. apply nth_error_None in N. lia.
Qed.

Lemma get_edge_live s p : BaseInv s -> In p (live_edges s) ->
  get_edge s (fst p) = Some (e_src (snd p), e_dst (snd p), ety_name s (e_ty (snd p)), ps_get_all (eprops s) (fst p)).
Proof.
  intros B H. destruct (live_edge_get s p B H) as (E1 & E2 & E3). unfold get_edge. rewrite E1, E2, E3. reflexivity.
Qed.

Lemma all_edges_map s : BaseInv s ->
  all_edges s = map (fun p => (fst p, e_src (snd p), e_dst (snd p), ety_name s (e_ty (snd p)))) (live_edges s).
Proof.
  intros B. unfold all_edges.
  assert (forall l, (forall p, In p l -> In p (live_edges s)) ->
            filter_map (fun p => match get_edge s (fst p) with Some (a, b, t, _) => Some (fst p, a, b, t) | None => None end) l
            = map (fun p => (fst p, e_src (snd p), e_dst (snd p), ety_name s (e_ty (snd p)))) l) as H.
  { induction l as [|p r IH]; intros Hl; cbn [filter_map map]; [reflexivity|].
    rewrite (get_edge_live s p B (Hl p (or_introl eq_refl))). rewrite IH; [reflexivity|]. intros q Hq. apply Hl. right. exact Hq. }
  apply H. auto.
Qed.

Lemma count_enum_inv s : BaseInv s ->
  node_count s = Z.of_nat (length (node_ids s)) /\ node_count s = Z.of_nat (length (all_nodes s)) /\
  edge_count s = Z.of_nat (length (all_edges s)).
Proof.
  intros B. rewrite (all_nodes_eq s B), (all_edges_map s B). unfold node_count, node_ids, live_node_ids, edge_count.
  rewrite length_zsort, !map_length. auto.
Qed.

(** * statistics *)
Definition sview (s : state) := (nodes s, edges s, epoch s, lab_names s, lab_index s, ety_names s).

Lemma compute_stats_view s s' : sview s' = sview s -> compute_stats s' = compute_stats s.
Proof.
  unfold sview. intros E. injection E as E1 E2 E3 E4 E5 E6.
  unfold compute_stats, node_count, edge_count, etype_stats, etype_counts, live_edges. rewrite E1, E2, E3, E4, E5, E6. reflexivity.
Qed.

Definition StatsInv (s : state) : Prop := stats_dirty s = false -> stats_cur s = compute_stats s.

Lemma StatsInv_view s s' : sview s' = sview s -> stats_cur s' = stats_cur s -> stats_dirty s' = stats_dirty s -> StatsInv s -> StatsInv s'.
Proof. unfold StatsInv. intros E1 E2 E3 H D. rewrite E2, (compute_stats_view s s' E1). apply H. congruence. Qed.

Lemma fold_delete_edge_dirty l s :
  stats_dirty (fold_left (fun st e => fst (do_delete_edge st e)) l s) = match l with [] => stats_dirty s | _ => true end.
Proof.
  destruct l as [|e r]; [reflexivity|]. cbn [fold_left].
  assert (forall l s, stats_dirty s = true -> stats_dirty (fold_left (fun st e => fst (do_delete_edge st e)) l s) = true) as H.
  { clear. induction l as [|e r IH]; intros s Hs; [exact Hs|]. cbn [fold_left]. apply IH.
    destruct (do_delete_edge_frame s e) as (_ & _ & _ & _ & _ & _ & _ & _ & _ & _ & _ & _ & D). exact D. }
  apply H. destruct (do_delete_edge_frame s e) as (_ & _ & _ & _ & _ & _ & _ & _ & _ & _ & _ & _ & D). exact D.
Qed.

Lemma vis_epoch_succ c d e : c <= e -> (forall x, d = Some x -> x <= e) -> vis c d (e + 1) = vis c d e.
Proof.
  intros H1 H2. rewrite (vis_alive c d e H1 H2). apply vis_alive; [lia|]. intros x Hx. specialize (H2 x Hx). lia.
Qed.

Lemma compute_stats_epoch s : BaseInv s -> compute_stats (with_epoch (epoch s + 1) s) = compute_stats s.
Proof.
  intros B.
  assert (filter (fun p => nrec_vis (snd p) (epoch s + 1)) (nodes s) = filter (fun p => nrec_vis (snd p) (epoch s)) (nodes s)) as EN.
  { apply filter_ext_in'. intros [k r] H. cbn [snd]. pose proof (In_zget _ _ _ (b_nd_nodes s B) H) as E.
    destruct (b_nodes s B k r E) as (_ & P1 & P2). unfold nrec_vis. apply vis_epoch_succ; assumption. }
  assert (filter (fun p => erec_vis (snd p) (epoch s + 1)) (edges s) = filter (fun p => erec_vis (snd p) (epoch s)) (edges s)) as EE.
  { apply filter_ext_in'. intros [k r] H. cbn [snd]. pose proof (In_zget _ _ _ (b_nd_edges s B) H) as E.
    destruct (b_edges s B k r E) as (_ & P1 & P2 & _). unfold erec_vis. apply vis_epoch_succ; assumption. }
  unfold compute_stats, node_count, edge_count, etype_stats, etype_counts, live_edges. psimpl. rewrite EN, EE. reflexivity.
Qed.

Lemma StatsInv_step s o : BaseInv s -> StatsInv s -> StatsInv (fst (step s o)).
Proof.
  intros B SI. destruct o; cbn [step].
  - (* CreateNode *) unfold do_create_node. psimpl.
    destruct (create_node_labels (lab_names s) (lab_index s) [] (next_node s) labels) as [[a b] c]. psimpl.
    intros D. psimpl. discriminate.
  - (* DeleteNode *) unfold do_delete_node. psimpl.
    destruct (zget (nodes s) n) as [r|]; [|intros D; psimpl; discriminate].
    destruct (nrec_vis r (epoch s)); [|intros D; psimpl; discriminate]. psimpl.
    destruct (zget (node_labels s) n); psimpl; intros D; psimpl; discriminate.
  - (* DeleteNodeEdges *)
    unfold do_delete_node_edges. cbn [fst].
    match goal with |- context [fold_left ?f ?l s] => remember l as dl end.
    destruct dl as [|e r]; [exact SI|]. intros D. rewrite fold_delete_edge_dirty in D. discriminate.
  - (* CreateEdge *) unfold do_create_edge. psimpl. destruct (get_or_create (ety_names s) ty). psimpl. intros D. psimpl. discriminate.
  - (* DeleteEdge *) intros D. destruct (do_delete_edge_frame s e) as (_ & _ & _ & _ & _ & _ & _ & _ & _ & _ & _ & _ & D'). cbv zeta in D'. congruence.
  - apply (StatsInv_view s); try reflexivity. exact SI.
  - apply (StatsInv_view s); try reflexivity. exact SI.
  - apply (StatsInv_view s); try reflexivity. exact SI.
  - apply (StatsInv_view s); try reflexivity. exact SI.
  - (* AddLabel: the statistics are marked for recomputation (fix 2e121d0) *)
    unfold do_add_label. cbn [fst]. intros D. psimpl. discriminate.
  - (* RemoveLabel *)
    unfold do_remove_label. cbn [fst]. intros D. psimpl. discriminate.
  - unfold do_create_index. destruct (zget (pidx s) key); [exact SI|]. apply (StatsInv_view s); try reflexivity. exact SI.
  - unfold do_drop_index. destruct (zget (pidx s) key); [|exact SI]. apply (StatsInv_view s); try reflexivity. exact SI.
  - apply (StatsInv_view s); try reflexivity. exact SI.
  - apply (StatsInv_view s); try reflexivity. exact SI.
  - apply (StatsInv_view s); try reflexivity. exact SI.
  - (* RefreshStats *)
    unfold do_refresh_stats. destruct (stats_dirty s) eqn:D; [|exact SI]. cbn [fst]. intros _. psimpl.
    symmetry. apply compute_stats_view. reflexivity.
  - (* NewEpoch *)
    cbn [fst]. intros D. psimpl. rewrite (compute_stats_epoch s B). apply SI. exact D.
Qed.

Lemma hist_any_app bad s ops1 ops2 :
  hist_any bad s (ops1 ++ ops2) = hist_any bad s ops1 || hist_any bad (run s ops1) ops2.
Proof.
  revert s. induction ops1 as [|o r IH]; intros s; cbn [app hist_any]; [reflexivity|].
  rewrite IH. rewrite run_cons. apply orb_assoc.
Qed.

Lemma StatsInv_run b ops : StatsInv (run (init b) ops).
Proof.
  assert (BaseInv (run (init b) ops) /\ StatsInv (run (init b) ops)) as (_ & R); [|exact R].
  apply (run_inv (fun s => BaseInv s /\ StatsInv s)).
  - intros s o (B & SI). split; [apply BaseInv_step; exact B|apply StatsInv_step; assumption].
  - split; [apply BaseInv_init|]. intros D. cbn in D. discriminate.
Qed.

Lemma stats_after_refresh b ops :
  let s := run (init b) (ops ++ [RefreshStats]) in stats_cur s = compute_stats s.
Proof.
  cbv zeta. apply (StatsInv_run b _). rewrite run_app. cbn [run fold_left step]. unfold do_refresh_stats.
  destruct (stats_dirty (run (init b) ops)) eqn:D; cbn [fst]; psimpl; [reflexivity|exact D].
Qed.

Lemma find_pos_shift x l i : find_pos x l (i + 1) = option_map (fun j => j + 1) (find_pos x l i).
Proof.
  revert i. induction l as [|y r IH]; intros i; cbn [find_pos option_map]; [reflexivity|].
  destruct (x =? y); [reflexivity|]. apply IH.
Qed.

Definition idx_count (idx : list (list Z)) (k : nat) : Z :=
  match nth_error idx k with Some set => Z.of_nat (length set) | None => 0 end.

Lemma label_stats_spec names idx l : NoDup names -> forall i,
  zget (label_stats names idx i) l =
  match find_pos l names 0 with
  | Some j => let c := idx_count idx (i + Z.to_nat j) in if 0 <? c then Some c else None
  | None => None
  end.
Proof.
  induction names as [|nm r IH]; intros ND i; cbn [label_stats find_pos]; [reflexivity|].
  inversion ND as [|? ? Hn ND']. subst. fold (idx_count idx i).
  destruct (l =? nm) eqn:Q.
  - apply Z.eqb_eq in Q. subst l. cbn [Z.to_nat]. rewrite Nat.add_0_r. cbv zeta.
    destruct (0 <? idx_count idx i); [apply zget_zset_eq|].
    rewrite (IH ND' (S i)). rewrite (proj2 (find_pos_None nm r 0) Hn). reflexivity.
  - apply Z.eqb_neq in Q.
    assert (zget (if 0 <? idx_count idx i then zset (label_stats r idx (S i)) nm (idx_count idx i) else label_stats r idx (S i)) l
            = zget (label_stats r idx (S i)) l) as ->.
    { destruct (0 <? idx_count idx i); [apply zget_zset_neq; congruence|reflexivity]. }
    rewrite (IH ND' (S i)). rewrite (find_pos_shift l r 0). destruct (find_pos l r 0) as [j|] eqn:F; cbn [option_map]; [|reflexivity].
    apply find_pos_spec in F. destruct F as [F _]. replace (i + Z.to_nat (j + 1))%nat with (S i + Z.to_nat j)%nat by lia. reflexivity.
Qed.

Lemma stats_labels_spec s l : LabInv s ->
  zget (s_labels (compute_stats s)) l =
  let c := Z.of_nat (length (nodes_by_label s l)) in if 0 <? c then Some c else None.
Proof.
  intros L. cbn [compute_stats s_labels]. rewrite (label_stats_spec _ _ l (l_nd_names s L) 0%nat). unfold nodes_by_label.
  destruct (find_pos l (lab_names s) 0) as [j|] eqn:F; [|reflexivity].
  apply find_pos_spec in F. destruct F as [F _]. cbn [Nat.add]. unfold idx_count. rewrite znth_nth by lia.
  destruct (nth_error (lab_index s) (Z.to_nat j)); reflexivity.
Qed.
