(** C14 — about the comparison BEFORE fix c5e300e (kept for the record; the current comparison is
    exact, see ProofsCmp.v): [i as f64] (round53) is monotone and exact below 2^53; the comparison
    [cmp_zone_pre] of property.rs / zone_map.rs restricted to "less than" is a strict partial order (transitive,
    irreflexive) although its Int/Float cases go through the rounding conversion. *)
From Coq Require Import ZArith Lia List Bool.
Import ListNotations.
From GV Require Import Lpg.Value.
Open Scope Z_scope.

(** * rounding at a fixed exponent *)
Definition rs (s n : Z) : Z :=
  let q := n / 2 ^ s in
  let r := n mod 2 ^ s in
  let half := 2 ^ (s - 1) in
  let up := (half <? r) || ((r =? half) && Z.odd q) in
  (if up then q + 1 else q) * 2 ^ s.

Lemma rs_bounds s n : 0 <= s -> (n / 2 ^ s) * 2 ^ s <= rs s n <= (n / 2 ^ s + 1) * 2 ^ s.
Proof.
  intros Hs. unfold rs. assert (0 < 2 ^ s) by (apply Z.pow_pos_nonneg; lia).
  destruct ((2 ^ (s - 1) <? n mod 2 ^ s) || ((n mod 2 ^ s =? 2 ^ (s - 1)) && Z.odd (n / 2 ^ s))); nia.
Qed.

Lemma rs_mono s a b : 0 <= s -> a <= b -> rs s a <= rs s b.
Proof.
  intros Hs Hab. assert (P : 0 < 2 ^ s) by (apply Z.pow_pos_nonneg; lia).
  assert (Hq : a / 2 ^ s <= b / 2 ^ s) by (apply Z.div_le_mono; lia).
  destruct (Z.eq_dec (a / 2 ^ s) (b / 2 ^ s)) as [E|NE].
  - (* same quotient: the remainder decides *)
    pose proof (Z.div_mod a (2 ^ s) ltac:(lia)) as Da. pose proof (Z.div_mod b (2 ^ s) ltac:(lia)) as Db.
    assert (Hr : a mod 2 ^ s <= b mod 2 ^ s) by (rewrite E in Da; lia).
    unfold rs. rewrite E.
    destruct ((2 ^ (s - 1) <? a mod 2 ^ s) || ((a mod 2 ^ s =? 2 ^ (s - 1)) && Z.odd (b / 2 ^ s))) eqn:Ua.
    + assert (Ub : (2 ^ (s - 1) <? b mod 2 ^ s) || ((b mod 2 ^ s =? 2 ^ (s - 1)) && Z.odd (b / 2 ^ s)) = true).
      { apply orb_true_iff in Ua. destruct Ua as [Ua|Ua].
        - apply Z.ltb_lt in Ua. apply orb_true_iff. left. apply Z.ltb_lt. lia.
        - apply andb_true_iff in Ua. destruct Ua as [U1 U2]. apply Z.eqb_eq in U1.
          destruct (Z.eq_dec (b mod 2 ^ s) (2 ^ (s - 1))) as [E2|N2].
          + apply orb_true_iff. right. rewrite E2, Z.eqb_refl, U2. reflexivity.
          + apply orb_true_iff. left. apply Z.ltb_lt. lia. }
      rewrite Ub. lia.
    + destruct ((2 ^ (s - 1) <? b mod 2 ^ s) || ((b mod 2 ^ s =? 2 ^ (s - 1)) && Z.odd (b / 2 ^ s))); nia.
  - pose proof (rs_bounds s a Hs). pose proof (rs_bounds s b Hs). nia.
Qed.

(** * round53_nat *)
Lemma round53_nat_small n : n < 2 ^ 53 -> round53_nat n = n.
Proof. intros H. unfold round53_nat. destruct (n <? 2 ^ 53) eqn:E; [reflexivity|apply Z.ltb_ge in E; lia]. Qed.

Lemma round53_nat_big n : 2 ^ 53 <= n -> round53_nat n = rs (Z.log2 n - 52) n.
Proof. intros H. unfold round53_nat, rs. destruct (n <? 2 ^ 53) eqn:E; [apply Z.ltb_lt in E; lia|reflexivity]. Qed.

(** in its binade: 2^L <= round(n) <= 2^(L+1) *)
Lemma round53_nat_binade n : 2 ^ 53 <= n ->
  2 ^ Z.log2 n <= round53_nat n <= 2 ^ (Z.log2 n + 1).
Proof.
  intros H. rewrite (round53_nat_big n H).
  assert (Hn : 0 < n) by (assert (0 < 2 ^ 53) by (apply Z.pow_pos_nonneg; lia); lia).
  pose proof (Z.log2_spec n Hn) as [L1 L2].
  assert (HL : 53 <= Z.log2 n) by (apply Z.log2_le_pow2; lia).
  set (s := Z.log2 n - 52). assert (Hs : 1 <= s) by (unfold s; lia).
  assert (P : 0 < 2 ^ s) by (apply Z.pow_pos_nonneg; lia).
  assert (E1 : 2 ^ Z.log2 n = 2 ^ 52 * 2 ^ s) by (rewrite <- Z.pow_add_r by lia; f_equal; unfold s; lia).
  assert (E2 : 2 ^ (Z.log2 n + 1) = 2 ^ 53 * 2 ^ s) by (rewrite <- Z.pow_add_r by lia; f_equal; unfold s; lia).
  replace (Z.succ (Z.log2 n)) with (Z.log2 n + 1) in L2 by lia.
  assert (Q1 : 2 ^ 52 <= n / 2 ^ s) by (apply Z.div_le_lower_bound; lia).
  assert (Q2 : n / 2 ^ s < 2 ^ 53) by (apply Z.div_lt_upper_bound; lia).
  pose proof (rs_bounds s n ltac:(lia)) as [B1 B2]. rewrite E1, E2. split; nia.
Qed.

Lemma round53_nat_mono a b : 0 <= a -> a <= b -> round53_nat a <= round53_nat b.
Proof.
  intros Ha Hab. assert (P53 : 0 < 2 ^ 53) by (apply Z.pow_pos_nonneg; lia).
  destruct (Z.lt_ge_cases b (2 ^ 53)) as [Hb|Hb].
  - rewrite !round53_nat_small by lia. exact Hab.
  - destruct (Z.lt_ge_cases a (2 ^ 53)) as [Ha'|Ha'].
    + rewrite (round53_nat_small a Ha'). pose proof (round53_nat_binade b Hb) as [B _].
      assert (2 ^ 53 <= 2 ^ Z.log2 b) by (apply Z.pow_le_mono_r; [lia|apply Z.log2_le_pow2; lia]). lia.
    + assert (LL : Z.log2 a <= Z.log2 b) by (apply Z.log2_le_mono; exact Hab).
      destruct (Z.eq_dec (Z.log2 a) (Z.log2 b)) as [E|NE].
      * rewrite (round53_nat_big a Ha'), (round53_nat_big b Hb), E. apply rs_mono; [|exact Hab].
        assert (53 <= Z.log2 b) by (apply Z.log2_le_pow2; lia). lia.
      * pose proof (round53_nat_binade a Ha') as [_ A]. pose proof (round53_nat_binade b Hb) as [B _].
        assert (2 ^ (Z.log2 a + 1) <= 2 ^ Z.log2 b) by (apply Z.pow_le_mono_r; lia). lia.
Qed.

Lemma round53_nat_nonneg n : 0 <= n -> 0 <= round53_nat n.
Proof. intros H. pose proof (round53_nat_mono 0 n ltac:(lia) H) as M. rewrite (round53_nat_small 0) in M by reflexivity. exact M. Qed.

(** * round53 on signed integers *)
Lemma round53_mono a b : a <= b -> round53 a <= round53 b.
Proof.
  intros Hab. unfold round53.
  destruct (a <? 0) eqn:Ea; destruct (b <? 0) eqn:Eb;
    try apply Z.ltb_lt in Ea; try apply Z.ltb_ge in Ea; try apply Z.ltb_lt in Eb; try apply Z.ltb_ge in Eb.
  - pose proof (round53_nat_mono (- b) (- a) ltac:(lia) ltac:(lia)). lia.
  - pose proof (round53_nat_nonneg (- a) ltac:(lia)). pose proof (round53_nat_nonneg b ltac:(lia)). lia.
  - lia.
  - apply round53_nat_mono; lia.
Qed.

Lemma round53_small i : Z.abs i < 2 ^ 53 -> round53 i = i.
Proof.
  intros H. unfold round53. destruct (i <? 0) eqn:E; [apply Z.ltb_lt in E|apply Z.ltb_ge in E].
  - rewrite round53_nat_small by lia. lia.
  - apply round53_nat_small. lia.
Qed.

(** strictness transfers back: round a < round b -> a < b *)
Lemma round53_lt_inv a b : round53 a < round53 b -> a < b.
Proof. intros H. destruct (Z.lt_ge_cases a b) as [L|G]; [exact L|]. pose proof (round53_mono b a G). lia. Qed.

(** * [cmp_zone_pre]: opposite, irreflexivity, transitivity of Lt / Gt *)

Lemma lex_cmp_opp a b : lex_cmp b a = CompOpp (lex_cmp a b).
Proof.
  revert b. induction a as [|x a IH]; intros [|y b]; cbn [lex_cmp CompOpp]; try reflexivity.
  rewrite (Z.compare_antisym x y). destruct (x ?= y); cbn [CompOpp]; try reflexivity. apply IH.
Qed.

Lemma lex_cmp_eq a b : lex_cmp a b = Eq -> a = b.
Proof.
  revert b. induction a as [|x a IH]; intros [|y b]; cbn [lex_cmp]; try discriminate; [reflexivity|].
  destruct (x ?= y) eqn:E; try discriminate. intros H. apply Z.compare_eq in E. subst. f_equal. apply IH. exact H.
Qed.

Lemma lex_cmp_refl a : lex_cmp a a = Eq.
Proof. induction a as [|x a IH]; cbn [lex_cmp]; [reflexivity|]. rewrite Z.compare_refl. exact IH. Qed.

Lemma lex_cmp_lt_trans a b c : lex_cmp a b = Lt -> lex_cmp b c = Lt -> lex_cmp a c = Lt.
Proof.
  revert b c. induction a as [|x a IH]; intros [|y b] [|z c]; cbn [lex_cmp]; try discriminate; try reflexivity.
  intros H1 H2.
  destruct (x ?= y) eqn:E1; try discriminate H1; destruct (y ?= z) eqn:E2; try discriminate H2.
  - apply Z.compare_eq in E1. apply Z.compare_eq in E2. subst. rewrite Z.compare_refl. eapply IH; eassumption.
  - apply Z.compare_eq in E1. subst. rewrite E2. reflexivity.
  - apply Z.compare_eq in E2. subst. rewrite E1. reflexivity.
  - change (x < y) in E1. change (y < z) in E2. assert (L : x < z) by lia. change ((x ?= z) = Lt) in L. rewrite L. reflexivity.
Qed.

Lemma scale_pos : 0 < scale1075.
Proof. unfold scale1075. apply Z.pow_pos_nonneg; lia. Qed.

Lemma cmp_zone_pre_opp a b : cmp_zone_pre b a = option_map CompOpp (cmp_zone_pre a b).
Proof.
  destruct a, b; cbn [cmp_zone_pre option_map]; try reflexivity.
  - destruct b, b0; reflexivity.
  - rewrite (Z.compare_antisym i i0). reflexivity.
  - unfold cmp_f64_int_pre, cmp_int_f64_pre. destruct (f64_num bits); cbn [option_map]; [|reflexivity]. rewrite Z.compare_antisym. reflexivity.
  - unfold cmp_f64_int_pre, cmp_int_f64_pre. destruct (f64_num bits); cbn [option_map]; [|reflexivity]. rewrite Z.compare_antisym. reflexivity.
  - unfold f64_cmp. destruct (f64_num bits), (f64_num bits0); cbn [option_map]; try reflexivity. rewrite Z.compare_antisym. reflexivity.
  - rewrite lex_cmp_opp. reflexivity.
Qed.

Lemma cmp_zone_pre_gt_lt a b : cmp_zone_pre a b = Some Gt <-> cmp_zone_pre b a = Some Lt.
Proof.
  rewrite (cmp_zone_pre_opp a b). destruct (cmp_zone_pre a b) as [[]|]; cbn [option_map CompOpp]; split; intros H; congruence.
Qed.

Lemma cmp_zone_pre_irrefl a : cmp_zone_pre a a <> Some Lt /\ cmp_zone_pre a a <> Some Gt.
Proof.
  destruct a; cbn [cmp_zone_pre]; try (split; discriminate).
  - destruct b; split; discriminate.
  - rewrite Z.compare_refl. split; discriminate.
  - unfold f64_cmp. destruct (f64_num bits); [rewrite Z.compare_refl|]; split; discriminate.
  - rewrite lex_cmp_refl. split; discriminate.
Qed.

Ltac zcmp :=
  repeat match goal with
         | H : Some _ = Some _ |- _ => injection H as H
         | H : (?a ?= ?b) = Lt |- _ => change (a < b) in H
         | H : (_ ?= _) = Gt |- _ => apply Z.compare_gt_iff in H
         | H : (_ ?= _) = Eq |- _ => apply Z.compare_eq_iff in H
         | |- Some _ = Some _ => f_equal
         | |- (?a ?= ?b) = Lt => change (a < b)
         | |- (_ ?= _) = Gt => apply Z.compare_gt_iff
         | |- (_ ?= _) = Eq => apply Z.compare_eq_iff
         end.

Lemma cmp_zone_pre_lt_trans a b c : cmp_zone_pre a b = Some Lt -> cmp_zone_pre b c = Some Lt -> cmp_zone_pre a c = Some Lt.
Proof.
  pose proof scale_pos as SP.
  destruct a, b; cbn [cmp_zone_pre]; try discriminate; destruct c; cbn [cmp_zone_pre]; try discriminate;
    unfold cmp_int_f64_pre, cmp_f64_int_pre, f64_cmp;
    repeat match goal with |- context [f64_num ?x] => destruct (f64_num x) eqn:? end; try discriminate; intros H1 H2.
  - destruct b, b0, b1; cbn in *; congruence.
  - zcmp. lia.
  - zcmp. pose proof (round53_mono i i0 ltac:(lia)). nia.
  - zcmp. apply round53_lt_inv. nia.
  - zcmp. lia.
  - zcmp. pose proof (round53_mono i i0 ltac:(lia)). nia.
  - zcmp. lia.
  - zcmp. lia.
  - zcmp. lia.
  - f_equal. injection H1 as H1. injection H2 as H2. eapply lex_cmp_lt_trans; eassumption.
Qed.

Lemma cmp_zone_pre_gt_trans a b c : cmp_zone_pre a b = Some Gt -> cmp_zone_pre b c = Some Gt -> cmp_zone_pre a c = Some Gt.
Proof.
  intros H1 H2. apply cmp_zone_pre_gt_lt in H1, H2. apply cmp_zone_pre_gt_lt. eapply cmp_zone_pre_lt_trans; eassumption.
Qed.

(** [cmp_range] (same type only) is the restriction of [cmp_zone_pre] *)
Lemma cmp_range_zone_pre a b c : cmp_range a b = Some c -> cmp_zone_pre a b = Some c.
Proof. destruct a, b; cbn [cmp_range cmp_zone_pre]; try discriminate; exact (fun H => H). Qed.

(** values that compare Equal in the same type behave alike against a third value *)
Lemma cmp_range_eq_congr_pre x q m : cmp_range x q = Some Eq -> cmp_zone_pre x m = cmp_zone_pre q m.
Proof.
  destruct x, q; cbn [cmp_range]; try discriminate; intros H.
  - injection H as H. destruct b, b0; cbn in H; try discriminate; reflexivity.
  - zcmp. subst. reflexivity.
  - unfold f64_cmp in H. destruct (f64_num bits) eqn:E1, (f64_num bits0) eqn:E2; try discriminate. zcmp. subst.
    destruct m; cbn [cmp_zone_pre]; try reflexivity; unfold cmp_f64_int_pre, f64_cmp; rewrite E1, E2; reflexivity.
  - injection H as H. apply lex_cmp_eq in H. subst. reflexivity.
Qed.
