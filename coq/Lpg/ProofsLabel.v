(** C14 — label index <-> node labels: the invariant and the two label theorems. *)
From Coq Require Import ZArith Lia List Bool Permutation.
Import ListNotations.
From GV Require Import Lpg.Model Lpg.Classes Lpg.ProofsBase Lpg.ProofsInv.
Open Scope Z_scope.

(** membership in the label index *)
Definition in_idx (idx : list (list Z)) (lid n : Z) : Prop := exists set, znth idx lid = Some set /\ In n set.
Definition nd_idx (idx : list (list Z)) : Prop := forall lid set, znth idx lid = Some set -> NoDup set.

Lemma nth_error_app_repeat (idx : list (list Z)) k i :
  nth_error (idx ++ repeat [] k) i =
  match nth_error idx i with
  | Some x => Some x
  | None => if (i <? length idx + k)%nat then Some [] else None
  end.
Proof.
  destruct (nth_error idx i) eqn:E.
  - rewrite nth_error_app1; [exact E|]. apply nth_error_Some. congruence.
  - apply nth_error_None in E. rewrite nth_error_app2 by lia.
    destruct (i <? length idx + k)%nat eqn:Q.
    + apply Nat.ltb_lt in Q. apply nth_error_repeat. lia.
    + apply Nat.ltb_ge in Q. apply nth_error_None. rewrite repeat_length. lia.
Qed.

Lemma in_idx_insert idx lid n j m : 0 <= lid ->
  in_idx (lab_index_insert idx lid n) j m <-> in_idx idx j m \/ (j = lid /\ m = n).
Proof.
  intros Hl. unfold in_idx, lab_index_insert.
  destruct (Z_lt_dec j 0) as [Hj|Hj].
  { unfold znth. replace (j <? 0) with true by (symmetry; apply Z.ltb_lt; lia). split.
    - intros [set [H _]]. discriminate.
    - intros [[set [H _]]|[H _]]; [discriminate|lia]. }
  rewrite !znth_nth by lia.
  destruct (Z.eq_dec j lid) as [->|Hne].
  - rewrite nth_error_upd_nth_eq. rewrite nth_error_app_repeat.
    destruct (nth_error idx (Z.to_nat lid)) as [old|] eqn:E.
    + cbn [option_map]. split.
      * intros [set [H1 H2]]. inversion H1. subst set. apply In_sadd in H2. destruct H2 as [->|H2]; [right; auto|left; exists old; auto].
      * intros [[set [H1 H2]]|[_ ->]]; (eexists; split; [reflexivity|]); apply In_sadd; [inversion H1; subst; right; exact H2|left; reflexivity].
    + replace (Z.to_nat lid <? length idx + (Z.to_nat (lid + 1) - length idx))%nat with true
        by (symmetry; apply Nat.ltb_lt; apply nth_error_None in E; lia).
      cbn [option_map]. split.
      * intros [set [H1 H2]]. inversion H1. subst set. apply In_sadd in H2. destruct H2 as [->|[]]. right; auto.
      * intros [[set [H1 H2]]|[_ ->]]; [discriminate|]. eexists; split; [reflexivity|]. apply In_sadd. left; reflexivity.
  - rewrite nth_error_upd_nth_neq by lia. rewrite nth_error_app_repeat.
    destruct (nth_error idx (Z.to_nat j)) as [old|] eqn:E.
    + split; [intros H; left; exact H|intros [H|[H _]]; [exact H|lia]].
    + split.
      * intros [set [H1 H2]]. destruct (_ <? _)%nat; inversion H1. subst. destruct H2.
      * intros [[set [H1 _]]|[H _]]; [discriminate|lia].
Qed.

Lemma nd_idx_insert idx lid n : 0 <= lid -> nd_idx idx -> nd_idx (lab_index_insert idx lid n).
Proof.
  intros Hl ND j set. unfold lab_index_insert.
  destruct (Z_lt_dec j 0) as [Hj|Hj]; [unfold znth; replace (j <? 0) with true by (symmetry; apply Z.ltb_lt; lia); discriminate|].
  rewrite znth_nth by lia. destruct (Z.eq_dec j lid) as [->|Hne].
  - rewrite nth_error_upd_nth_eq, nth_error_app_repeat.
    destruct (nth_error idx (Z.to_nat lid)) as [old|] eqn:E.
    + cbn [option_map]. intros H. inversion H. apply NoDup_sadd. apply (ND lid). rewrite znth_nth by lia. exact E.
    + destruct (_ <? _)%nat; cbn [option_map]; intros H; inversion H. apply NoDup_sadd. constructor.
  - rewrite nth_error_upd_nth_neq by lia. rewrite nth_error_app_repeat.
    destruct (nth_error idx (Z.to_nat j)) as [old|] eqn:E.
    + intros H. inversion H. subst. apply (ND j). rewrite znth_nth by lia. exact E.
    + destruct (_ <? _)%nat; intros H; inversion H. constructor.
Qed.

Lemma in_idx_remove idx lid n j m : 0 <= lid ->
  in_idx (lab_index_remove idx lid n) j m <-> in_idx idx j m /\ ~ (j = lid /\ m = n).
Proof.
  intros Hl. unfold in_idx, lab_index_remove.
  destruct (Z_lt_dec j 0) as [Hj|Hj].
  { unfold znth. replace (j <? 0) with true by (symmetry; apply Z.ltb_lt; lia). split.
    - intros [set [H _]]. discriminate.
    - intros [[set [H _]] _]. discriminate. }
  rewrite !znth_nth by lia.
  destruct (Z.eq_dec j lid) as [->|Hne].
  - rewrite nth_error_upd_nth_eq. destruct (nth_error idx (Z.to_nat lid)) as [old|]; cbn [option_map].
    + split.
      * intros [set [H1 H2]]. inversion H1. subst set. apply In_srem in H2. destruct H2 as [H2 H3]. split; [exists old; auto|intros [_ H4]; contradiction].
      * intros [[set [H1 H2]] H3]. inversion H1. subst set. eexists; split; [reflexivity|]. apply In_srem. split; [exact H2|]. intros ->. apply H3. auto.
    + split; [intros [set [H _]]; discriminate|intros [[set [H _]] _]; discriminate].
  - rewrite nth_error_upd_nth_neq by lia. split; [intros H; split; [exact H|intros [H1 _]; contradiction]|intros [H _]; exact H].
Qed.

Lemma nd_idx_remove idx lid n : nd_idx idx -> nd_idx (lab_index_remove idx lid n).
Proof.
  intros ND j set. unfold lab_index_remove.
  destruct (Z_lt_dec j 0) as [Hj|Hj]; [unfold znth; replace (j <? 0) with true by (symmetry; apply Z.ltb_lt; lia); discriminate|].
  rewrite znth_nth by lia. destruct (Nat.eq_dec (Z.to_nat lid) (Z.to_nat j)) as [Q|Q].
  - rewrite Q. rewrite nth_error_upd_nth_eq. destruct (nth_error idx (Z.to_nat j)) as [old|] eqn:E; cbn [option_map]; intros H; inversion H.
    apply NoDup_srem. apply (ND j). rewrite znth_nth by lia. exact E.
  - rewrite nth_error_upd_nth_neq by exact Q. intros H. apply (ND j). rewrite znth_nth by lia. exact H.
Qed.

(** * the invariant *)
Record LabInv (s : state) : Prop := {
  l_nd_names : NoDup (lab_names s);
  l_nl : forall n lids, zget (node_labels s) n = Some lids ->
                        node_live s n = true /\ NoDup lids /\ (forall lid, In lid lids -> 0 <= lid < Z.of_nat (length (lab_names s)));
  l_mirror : forall lid n, in_idx (lab_index s) lid n <-> exists lids, zget (node_labels s) n = Some lids /\ In lid lids;
  l_nd_sets : nd_idx (lab_index s)
}.

Lemma LabInv_view s s' : lview s' = lview s -> LabInv s -> LabInv s'.
Proof.
  unfold lview. intros E [H1 H2 H3 H4]. injection E as E1 E2 E3 E4 E5.
  constructor; unfold node_live in *; rewrite ?E1, ?E2, ?E3, ?E4, ?E5; assumption.
Qed.

Lemma LabInv_init b : LabInv (init b).
Proof.
  constructor; cbn.
  - constructor.
  - discriminate.
  - intros lid n. split; [intros [set [H _]]; unfold znth in H; destruct (lid <? 0); [discriminate|destruct (Z.to_nat lid); discriminate]|intros [lids [H _]]; discriminate].
  - intros lid set H. unfold znth in H. destruct (lid <? 0); [discriminate|destruct (Z.to_nat lid); discriminate].
Qed.

(** the loop of create_node *)
Lemma create_node_labels_spec id nl ls : forall names idx set names' idx' set',
  create_node_labels names idx set id ls = (names', idx', set') ->
  zget nl id = None ->
  NoDup names -> nd_idx idx -> NoDup set -> (forall lid, In lid set -> 0 <= lid < Z.of_nat (length names)) ->
  (forall lid n, in_idx idx lid n <-> (exists lids, zget nl n = Some lids /\ In lid lids) \/ (n = id /\ In lid set)) ->
  NoDup names' /\ nd_idx idx' /\ NoDup set' /\ (forall lid, In lid set' -> 0 <= lid < Z.of_nat (length names')) /\
  (Z.of_nat (length names) <= Z.of_nat (length names')) /\
  (forall lid n, in_idx idx' lid n <-> (exists lids, zget nl n = Some lids /\ In lid lids) \/ (n = id /\ In lid set')).
Proof.
  induction ls as [|l r IH]; intros names idx set names' idx' set' H Hid N1 N2 N3 Hb Hm; cbn [create_node_labels] in H.
  - inversion H. subst. split; [exact N1|split; [exact N2|split; [exact N3|split; [exact Hb|split; [lia|exact Hm]]]]].
  - destruct (get_or_create names l) as [names1 lid] eqn:G.
    destruct (get_or_create_spec _ _ _ _ G) as (G1 & G2 & G3 & G4 & G5).
    assert (Z.of_nat (length names) <= Z.of_nat (length names1)) as Hlen
      by (destruct G4 as [->|[-> _]]; [lia|rewrite app_length; cbn [length]; lia]).
    specialize (IH names1 (lab_index_insert idx lid id) (sadd lid set) names' idx' set' H Hid).
    destruct IH as (R1 & R2 & R3 & R4 & R5 & R6).
    + eapply get_or_create_NoDup; eassumption.
    + apply nd_idx_insert; [lia|exact N2].
    + apply NoDup_sadd. exact N3.
    + intros x Hx. apply In_sadd in Hx. destruct Hx as [->|Hx]; [lia|]. specialize (Hb x Hx). lia.
    + intros j m. rewrite in_idx_insert by lia. rewrite Hm. rewrite In_sadd. split.
      * intros [[H1|[H1 H2]]|[H1 H2]]; [left; exact H1|right; auto|right; subst; auto].
      * intros [H1|[H1 [H2|H2]]]; [left; left; exact H1|right; subst; auto|left; right; auto].
    + split; [exact R1|split; [exact R2|split; [exact R3|split; [exact R4|split; [lia|exact R6]]]]].
Qed.

Lemma node_live_created s id : node_live (with_nodes (zset (nodes s) id {| n_created := epoch s; n_deleted := None |}) s) id = true.
Proof. unfold node_live. psimpl. rewrite zget_zset_eq. unfold nrec_vis, vis. cbn. rewrite Z.leb_refl. reflexivity. Qed.

Lemma LabInv_step s o : BaseInv s -> LabInv s -> LabInv (fst (step s o)).
Proof.
  intros B L. destruct (touches_lview o) eqn:T; [|apply (LabInv_view s); [apply lview_frame; exact T|exact L]].
  destruct o; cbn [touches_lview] in T; try discriminate; clear T.
  - (* CreateNode *)
    pose proof (fun n H => node_live_step_other s (CreateNode labels) n B H I) as Hlive.
    cbn [step] in *. unfold do_create_node in *. psimpl.
    destruct (create_node_labels (lab_names s) (lab_index s) [] (next_node s) labels) as [[nm ix] st] eqn:C. psimpl.
    destruct L as [H1 H2 H3 H4].
    assert (zget (node_labels s) (next_node s) = None) as Hfresh.
    { destruct (zget (node_labels s) (next_node s)) as [lids|] eqn:E; [|reflexivity].
      destruct (H2 _ _ E) as (Hl & _). apply (node_live_iff _ _ B) in Hl. destruct Hl as [r [Hr _]].
      destruct (b_nodes s B _ _ Hr) as (P & _). lia. }
    destruct (create_node_labels_spec (next_node s) (node_labels s) labels _ _ _ _ _ _ C Hfresh H1 H4 (NoDup_nil _))
      as (R1 & R2 & R3 & R4 & R5 & R6).
    { intros lid []. }
    { intros lid n. rewrite H3. split; [intros H; left; exact H|intros [H|[_ []]]; exact H]. }
    constructor; psimpl.
    + exact R1.
    + intros n lids. rewrite zget_zset. destruct (n =? next_node s) eqn:Q.
      * apply Z.eqb_eq in Q. subst n. intros H. inversion H. subst lids. split; [|split; assumption].
        unfold node_live. psimpl. rewrite zget_zset_eq. unfold nrec_vis, vis. cbn. rewrite Z.leb_refl. reflexivity.
      * intros H. destruct (H2 n lids H) as (P1 & P2 & P3). split; [|split; [exact P2|]].
        -- specialize (Hlive n P1). psimpl. exact Hlive.
        -- intros lid Hlid. specialize (P3 lid Hlid). lia.
    + intros lid n. rewrite R6. split.
      * intros [[lids [E1 E2]]|[-> E2]].
        -- exists lids. split; [|exact E2]. rewrite zget_zset. destruct (n =? next_node s) eqn:Q; [|exact E1].
           apply Z.eqb_eq in Q. subst. congruence.
        -- exists st. split; [apply zget_zset_eq|exact E2].
      * intros [lids [E1 E2]]. rewrite zget_zset in E1. destruct (n =? next_node s) eqn:Q.
        -- apply Z.eqb_eq in Q. inversion E1. subst. right. auto.
        -- left. exists lids. auto.
    + exact R2.
  - (* DeleteNode *)
    pose proof (fun m H Hne => node_live_step_other s (DeleteNode n) m B H Hne) as Hlive.
    cbn [step] in *. unfold do_delete_node in *. psimpl.
    destruct (zget (nodes s) n) as [r|] eqn:E; [|apply (LabInv_view s); [reflexivity|exact L]].
    destruct (nrec_vis r (epoch s)) eqn:V; [|apply (LabInv_view s); [reflexivity|exact L]]. psimpl.
    destruct L as [H1 H2 H3 H4].
    destruct (zget (node_labels s) n) as [lids|] eqn:NL; psimpl.
    + (* the fold removes (lid, n) for every lid of the node *)
      assert (forall ls idx, (forall lid, In lid ls -> 0 <= lid) ->
                (forall j m, in_idx (fold_left (fun ix lid => lab_index_remove ix lid n) ls idx) j m <->
                             in_idx idx j m /\ ~ (m = n /\ In j ls)) /\
                (nd_idx idx -> nd_idx (fold_left (fun ix lid => lab_index_remove ix lid n) ls idx))) as Hfold.
      { induction ls as [|x ls IH]; intros idx Hpos; cbn [fold_left].
        - split; [|auto]. intros j m. split; [intros H; split; [exact H|intros [_ []]]|intros [H _]; exact H].
        - destruct (IH (lab_index_remove idx x n)) as [IH1 IH2]; [intros lid Hlid; apply Hpos; right; exact Hlid|].
          split.
          + intros j m. rewrite IH1. rewrite in_idx_remove by (apply Hpos; left; reflexivity). cbn [In]. split.
            * intros [[P1 P2] P3]. split; [exact P1|]. intros [-> [->|P4]]; [apply P2; auto|apply P3; auto].
            * intros [P1 P2]. split; [split; [exact P1|]|]; [intros [-> ->]; apply P2; auto|intros [-> P3]; apply P2; auto].
          + intros ND. apply IH2. apply nd_idx_remove. exact ND. }
      destruct (H2 n lids NL) as (_ & _ & Hb).
      destruct (Hfold lids (lab_index s)) as [F1 F2]; [intros lid Hlid; specialize (Hb lid Hlid); lia|].
      constructor; psimpl.
      * exact H1.
      * intros m lids'. rewrite zget_zdel. destruct (m =? n) eqn:Q; [discriminate|]. apply Z.eqb_neq in Q.
        intros H. destruct (H2 m lids' H) as (P1 & P2 & P3). split; [|split; assumption].
        specialize (Hlive m P1 (fun e => Q (eq_sym e))). psimpl. exact Hlive.
      * intros lid m. rewrite F1. rewrite H3. rewrite zget_zdel. destruct (m =? n) eqn:Q.
        -- apply Z.eqb_eq in Q. subst m. split.
           ++ intros [[lids' [P1 P2]] P3]. exfalso. apply P3. split; [reflexivity|]. congruence.
           ++ intros [lids' [P1 _]]. discriminate.
        -- apply Z.eqb_neq in Q. split; [intros [P _]; exact P|intros P; split; [exact P|intros [P1 _]; contradiction]].
      * apply F2. exact H4.
    + constructor; psimpl; try assumption.
      intros m lids' H. destruct (H2 m lids' H) as (P1 & P2 & P3). split; [|split; assumption].
      assert (n <> m) as Q by (intros ->; congruence).
      specialize (Hlive m P1 Q). psimpl. exact Hlive.
  - (* AddLabel *)
    cbn [step]. unfold do_add_label. cbn [fst]. apply (LabInv_view (fst (do_add_label_pre s n l))); [reflexivity|].
    unfold do_add_label_pre. destruct (node_live s n) eqn:LV; [|exact L].
    destruct (get_or_create (lab_names s) l) as [names lid] eqn:G.
    destruct (get_or_create_spec _ _ _ _ G) as (G1 & G2 & G3 & G4 & G5).
    assert (Z.of_nat (length (lab_names s)) <= Z.of_nat (length names)) as Hlen
      by (destruct G4 as [->|[-> _]]; [lia|rewrite app_length; cbn [length]; lia]).
    destruct L as [H1 H2 H3 H4].
    assert (NoDup names) as ND by (eapply get_or_create_NoDup; eassumption).
    set (set := match zget (node_labels s) n with Some x => x | None => [] end).
    assert (NoDup set /\ (forall x, In x set -> 0 <= x < Z.of_nat (length (lab_names s)))) as [Hs1 Hs2].
    { unfold set. destruct (zget (node_labels s) n) as [x|] eqn:E; [destruct (H2 n x E) as (_ & P2 & P3); auto|split; [constructor|intros x []]]. }
    destruct (mem lid set) eqn:M; cbn [fst].
    + apply mem_In in M. constructor; psimpl.
      * exact ND.
      * intros m lids. rewrite zget_zset. destruct (m =? n) eqn:Q.
        -- apply Z.eqb_eq in Q. subst m. intros H. inversion H. subst lids. unfold node_live. psimpl. fold (node_live s n).
           split; [exact LV|split; [exact Hs1|]]. intros x Hx. specialize (Hs2 x Hx). lia.
        -- intros H. destruct (H2 m lids H) as (P1 & P2 & P3). split; [exact P1|split; [exact P2|]].
           intros x Hx. specialize (P3 x Hx). lia.
      * intros j m. rewrite H3. rewrite zget_zset. destruct (m =? n) eqn:Q; [|reflexivity].
        apply Z.eqb_eq in Q. subst m. unfold set in *. destruct (zget (node_labels s) n) as [x|] eqn:E.
        -- split; intros [lids [P1 P2]]; inversion P1; subst; eexists; split; try reflexivity; exact P2.
        -- destruct M.
      * exact H4.
    + apply mem_false in M. constructor; psimpl.
      * exact ND.
      * intros m lids. rewrite zget_zset. destruct (m =? n) eqn:Q.
        -- apply Z.eqb_eq in Q. subst m. intros H. inversion H. subst lids. unfold node_live. psimpl. fold (node_live s n).
           split; [exact LV|split; [apply NoDup_sadd; exact Hs1|]]. intros x Hx. apply In_sadd in Hx.
           destruct Hx as [->|Hx]; [lia|specialize (Hs2 x Hx); lia].
        -- intros H. destruct (H2 m lids H) as (P1 & P2 & P3). split; [exact P1|split; [exact P2|]].
           intros x Hx. specialize (P3 x Hx). lia.
      * intros j m. rewrite in_idx_insert by lia. rewrite H3. rewrite zget_zset. destruct (m =? n) eqn:Q.
        -- apply Z.eqb_eq in Q. subst m. unfold set in *. split.
           ++ intros [[lids [P1 P2]]|[-> _]]; eexists; (split; [reflexivity|]); apply In_sadd; [right; rewrite P1; exact P2|left; reflexivity].
           ++ intros [lids [P1 P2]]. inversion P1. subst lids. apply In_sadd in P2. destruct P2 as [->|P2]; [right; auto|].
              left. destruct (zget (node_labels s) n) as [x|]; [exists x; auto|destruct P2].
        -- apply Z.eqb_neq in Q. split; [intros [P|[_ P]]; [exact P|contradiction]|intros P; left; exact P].
      * apply nd_idx_insert; [lia|exact H4].
  - (* RemoveLabel *)
    cbn [step]. unfold do_remove_label. cbn [fst]. apply (LabInv_view (fst (do_remove_label_pre s n l))); [reflexivity|].
    unfold do_remove_label_pre. destruct (node_live s n) eqn:LV; [|exact L].
    destruct (find_pos l (lab_names s) 0) as [lid|] eqn:F; [|exact L].
    destruct (zget (node_labels s) n) as [set|] eqn:E; [|exact L].
    destruct (mem lid set) eqn:M; [|exact L]. cbn [fst]. apply mem_In in M.
    destruct L as [H1 H2 H3 H4]. destruct (H2 n set E) as (_ & Q2 & Q3).
    constructor; psimpl.
    + exact H1.
    + intros m lids. rewrite zget_zset. destruct (m =? n) eqn:Q.
      * apply Z.eqb_eq in Q. subst m. intros H. inversion H. subst lids. unfold node_live. psimpl. fold (node_live s n).
        split; [exact LV|split; [apply NoDup_srem; exact Q2|]]. intros x Hx. apply In_srem in Hx. apply Q3. apply Hx.
      * intros H. exact (H2 m lids H).
    + intros j m. rewrite in_idx_remove by (specialize (Q3 lid M); lia). rewrite H3. rewrite zget_zset. destruct (m =? n) eqn:Q.
      * apply Z.eqb_eq in Q. subst m. split.
        -- intros [[lids [P1 P2]] P3]. exists (srem lid set). split; [reflexivity|]. apply In_srem. rewrite E in P1. inversion P1. subst lids.
           split; [exact P2|]. intros ->. apply P3. auto.
        -- intros [lids [P1 P2]]. inversion P1. subst lids. apply In_srem in P2. destruct P2 as [P2 P3].
           split; [exists set; auto|]. intros [P4 _]. contradiction.
      * apply Z.eqb_neq in Q. split; [intros [P _]; exact P|intros P; split; [exact P|intros [_ P1]; contradiction]].
    + apply nd_idx_remove. exact H4.
  - (* NewEpoch *)
    pose proof (fun m H => node_live_step_other s NewEpoch m B H I) as Hlive.
    cbn [step] in *. destruct L as [H1 H2 H3 H4]. constructor; psimpl; try assumption.
    intros m lids H. destruct (H2 m lids H) as (P1 & P2 & P3). split; [|split; assumption].
    apply (Hlive m P1).
Qed.

Lemma LabInv_run b ops : LabInv (run (init b) ops).
Proof.
  assert (BaseInv (run (init b) ops) /\ LabInv (run (init b) ops)) as [_ H]; [|exact H].
  apply (run_inv (fun s => BaseInv s /\ LabInv s)).
  - intros s o [B L]. split; [apply BaseInv_step; exact B|apply LabInv_step; assumption].
  - split; [apply BaseInv_init|apply LabInv_init].
Qed.

(** * consequences *)

Lemma In_node_label_names s n l : LabInv s ->
  (In l (node_label_names s n) <-> exists lids lid, zget (node_labels s) n = Some lids /\ In lid lids /\ znth (lab_names s) lid = Some l).
Proof.
  intros L. unfold node_label_names. destruct (zget (node_labels s) n) as [lids|] eqn:E.
  - rewrite In_filter_map. split.
    + intros [lid [H1 H2]]. exists lids, lid. auto.
    + intros [lids' [lid [H1 [H2 H3]]]]. inversion H1. subst. exists lid. auto.
  - split; [intros []|intros [lids [lid [H _]]]; discriminate].
Qed.

Lemma label_mirror_inv s n l : LabInv s ->
  (In n (nodes_by_label s l) <-> node_live s n = true /\ In l (node_label_names s n)).
Proof.
  intros L. rewrite (In_node_label_names s n l L). unfold nodes_by_label.
  destruct (find_pos l (lab_names s) 0) as [lid|] eqn:F.
  - pose proof (find_pos_znth' _ _ _ F) as Hn.
    assert (In n (match znth (lab_index s) lid with Some set => set | None => [] end) <-> in_idx (lab_index s) lid n) as ->.
    { unfold in_idx. destruct (znth (lab_index s) lid) as [set|]; split.
      - intros H. exists set. auto.
      - intros [set' [H1 H2]]. inversion H1. subst. exact H2.
      - intros [].
      - intros [set' [H1 _]]. discriminate. }
    rewrite (l_mirror s L). split.
    + intros [lids [H1 H2]]. split; [apply (l_nl s L n lids H1)|]. exists lids, lid. auto.
    + intros [_ [lids [lid' [H1 [H2 H3]]]]]. exists lids. split; [exact H1|].
      rewrite (znth_inj (lab_names s) lid lid' l (l_nd_names s L) Hn H3). exact H2.
  - apply find_pos_None in F. split; [intros []|].
    intros [_ [lids [lid [H1 [H2 H3]]]]]. exfalso. apply F. apply znth_Some in H3. destruct H3 as [_ H3]. eapply nth_error_In. exact H3.
Qed.

Lemma NoDup_nodes_by_label s l : LabInv s -> NoDup (nodes_by_label s l).
Proof.
  intros L. unfold nodes_by_label. destruct (find_pos l (lab_names s) 0) as [lid|]; [|constructor].
  destruct (znth (lab_index s) lid) as [set|] eqn:E; [|constructor]. exact (l_nd_sets s L lid set E).
Qed.

Lemma In_live_node_ids s n : BaseInv s -> (In n (live_node_ids s) <-> node_live s n = true).
Proof.
  intros B. unfold live_node_ids, node_live. rewrite in_map_iff. split.
  - intros [[k r] [H1 H2]]. cbn [fst] in H1. subst k. apply filter_In in H2. destruct H2 as [H2 H3]. cbn [snd] in H3.
    rewrite (In_zget _ _ _ (b_nd_nodes s B) H2). exact H3.
  - destruct (zget (nodes s) n) as [r|] eqn:E; [|discriminate]. intros V. exists (n, r). split; [reflexivity|].
    apply filter_In. split; [apply zget_In; exact E|exact V].
Qed.
Lemma In_node_ids s n : BaseInv s -> (In n (node_ids s) <-> node_live s n = true).
Proof. intros B. unfold node_ids. rewrite In_zsort. apply In_live_node_ids. exact B. Qed.

(** nodes_by_label = the live nodes whose get_node() carries the label, once each *)
Lemma nodes_by_label_spec_inv s l : BaseInv s -> LabInv s ->
  NoDup (nodes_by_label s l) /\
  (forall n, In n (nodes_by_label s l) <->
             In n (node_ids s) /\ exists ls ps, get_node s n = Some (ls, ps) /\ In l ls).
Proof.
  intros B L. split; [apply NoDup_nodes_by_label; exact L|].
  intros n. rewrite (label_mirror_inv s n l L). rewrite (In_node_ids s n B). unfold get_node. split.
  - intros [H1 H2]. split; [exact H1|]. rewrite H1. eexists. eexists. split; [reflexivity|exact H2].
  - intros [H1 [ls [ps [H2 H3]]]]. split; [exact H1|]. rewrite H1 in H2. inversion H2. subst. exact H3.
Qed.
