(** C14 — comparison of implementation observations with the model (run by the check),
    finding-class predicates, diagnostics. *)
From GV Require Export Lpg.Model Lpg.Classes.
Open Scope Z_scope.

(** * canonical forms: the harness sorts what comes out of hash maps; so does the runner *)

Definition pair_leb (a b : Z * Z) : bool :=
  (fst a <? fst b) || ((fst a =? fst b) && (snd a <=? snd b)).

Section MergeSort.
  Context {A : Type}.
  Variable leb : A -> A -> bool.
  Fixpoint merge (l1 l2 : list A) {struct l1} : list A :=
    let fix merge_aux (l2 : list A) : list A :=
      match l1, l2 with
      | [], _ => l2
      | _, [] => l1
      | a1 :: l1', a2 :: l2' => if leb a1 a2 then a1 :: merge l1' l2 else a2 :: merge_aux l2'
      end
    in merge_aux l2.
  Fixpoint halve (l : list A) : list A * list A :=
    match l with
    | a :: b :: r => let '(x, y) := halve r in (a :: x, b :: y)
    | _ => (l, [])
    end.
  Fixpoint msort_fuel (fuel : nat) (l : list A) : list A :=
    match fuel with
    | O => l
    | S f => match l with
             | [] | [_] => l
             | _ => let '(x, y) := halve l in merge (msort_fuel f x) (msort_fuel f y)
             end
    end.
  Definition msort (l : list A) : list A := msort_fuel (length l) l.
End MergeSort.

Definition psort (l : list (Z * Z)) : list (Z * Z) := msort pair_leb l.
(** the runner sorts with merge sort; the model's [zsort] (insertion sort) yields the same list *)
Definition zsortf (l : list Z) : list Z := msort Z.leb l.

Fixpoint kinsert {A} (x : Z * A) (l : list (Z * A)) : list (Z * A) :=
  match l with
  | [] => [x]
  | y :: r => if fst x <=? fst y then x :: l else y :: kinsert x r
  end.
Definition ksort {A} (l : list (Z * A)) : list (Z * A) := fold_right kinsert [] l.

Definition pair_eqb (a b : Z * Z) : bool := (fst a =? fst b) && (snd a =? snd b).
Definition plist_eqb := list_eqb pair_eqb.
Definition kv_eqb (a b : Z * value) : bool := (fst a =? fst b) && value_eqb (snd a) (snd b).
Definition props_eqb (a b : list (Z * value)) : bool := list_eqb kv_eqb (ksort a) b.
Definition ov_eqb := option_eqb value_eqb.

Definition quad_eqb (a b : Z * Z * Z * Z) : bool :=
  match a, b with (a1, a2, a3, a4), (b1, b2, b3, b4) => (a1 =? b1) && (a2 =? b2) && (a3 =? b3) && (a4 =? b4) end.

Definition ret_eqb (a b : ret) : bool :=
  match a, b with
  | RUnit, RUnit => true
  | RId x, RId y => x =? y
  | RBool x, RBool y => Bool.eqb x y
  | ROptV x, ROptV y => ov_eqb x y
  | _, _ => false
  end.

(** * observations

    Long id lists are compared through their length and a polynomial hash of the canonical
    (sorted) list, computed by the same function on both sides; short lists are compared
    element by element.  (Coq parses numerals slowly; a 600-operation history observed 75 times
    would otherwise carry half a million of them.) *)
Definition hmod : Z := 2305843009213693951.    (* 2^61 - 1 *)
Definition hstep (h x : Z) : Z := (h * 1000003 + x + 1) mod hmod.
Definition zhash (l : list Z) : Z := fold_left hstep l 0.
Definition phash (l : list (Z * Z)) : Z := fold_left (fun h p => hstep (hstep h (fst p)) (snd p)) l 0.
Definition qhash (l : list (Z * Z * Z * Z)) : Z :=
  fold_left (fun h q => match q with (a, b, c, d) => hstep (hstep (hstep (hstep h a) b) c) d end) l 0.

Inductive zs := ZL (l : list Z) | ZH (n h : Z).
Inductive ps := PL (l : list (Z * Z)) | PH (n h : Z).
Inductive qs := QL (l : list (Z * Z * Z * Z)) | QH (n h : Z).
Definition zs_eqb (m : list Z) (o : zs) : bool :=
  match o with ZL l => zlist_eqb m l | ZH n h => (Z.of_nat (length m) =? n) && (zhash m =? h) end.
Definition ps_eqb (m : list (Z * Z)) (o : ps) : bool :=
  match o with PL l => plist_eqb m l | PH n h => (Z.of_nat (length m) =? n) && (phash m =? h) end.
Definition qs_eqb (m : list (Z * Z * Z * Z)) (o : qs) : bool :=
  match o with QL l => list_eqb quad_eqb m l | QH n h => (Z.of_nat (length m) =? n) && (qhash m =? h) end.

Inductive obs :=
| ONodeIds (ids : zs)                                        (* node_ids() *)
| OCounts (nodes edges : Z)                                  (* node_count(), edge_count() *)
| OAllNodes (ids : zs)                                       (* ids of all_nodes(), sorted *)
| OGetNode (n : Z) (r : option (list Z * list (Z * value)))  (* labels sorted, properties sorted by key *)
| OByLabel (l : Z) (ids : zs)                                (* nodes_by_label *)
| OAllEdges (es : qs)                                        (* (id, src, dst, type) sorted by id *)
| OGetEdge (e : Z) (r : option (Z * Z * Z * list (Z * value)))
| OEdgesFrom (n : Z) (d : direction) (es : ps)               (* sorted *)
| OEdgesTo (n : Z) (es : ps)                                 (* sorted *)
| ONeighbors (n : Z) (d : direction) (ns : zs)               (* sorted *)
| ODegrees (n : Z) (outd ind : Z)
| OFind (key : Z) (v : value) (ids : zs)                     (* find_nodes_by_property, sorted *)
| OFindRange (key : Z) (lo hi : option value) (li hi_i : bool) (ids : zs)
| OFindAll (conds : list (Z * value)) (ids : zs)               (* find_nodes_by_properties, sorted *)
| OMight (node : bool) (key : Z) (v : value) (bs : list bool)   (* might_match for Eq Ne Lt Le Gt Ge *)
| OZone (key : Z) (z : option (option value * option value * Z * Z))   (* node_property_zone_map *)
| OStats (nodes edges : Z) (labels etypes : list (Z * Z))    (* statistics(), maps sorted by name *)
| OValidate (errs : list (Z * Z))                            (* GrafeoDB::validate errors, sorted *)
| OHasIndex (key : Z) (b : bool)
| OCatalog (labels etypes : Z)                               (* label_count(), edge_type_count() *)
| OShadow (forward : bool) (n : Z) (es : ps)                 (* ChunkedAdjacency::edges_from, exact order *)
| OShadowMem (forward : bool) (hot cold nlists : Z).         (* memory_stats() *)

Definition get_node_eqb (m : option (list Z * list (Z * value))) (i : option (list Z * list (Z * value))) : bool :=
  match m, i with
  | Some (ls, ps), Some (ls', ps') => zlist_eqb (zsortf ls) ls' && props_eqb ps ps'
  | None, None => true
  | _, _ => false
  end.
Definition get_edge_eqb (m i : option (Z * Z * Z * list (Z * value))) : bool :=
  match m, i with
  | Some (a, b, t, ps), Some (a', b', t', ps') => (a =? a') && (b =? b') && (t =? t') && props_eqb ps ps'
  | None, None => true
  | _, _ => false
  end.
Definition zone_obs_eqb (m : option zone) (i : option (option value * option value * Z * Z)) : bool :=
  match m, i with
  | Some z, Some (mn, mx, nulls, rows) =>
      ov_eqb (z_min z) mn && ov_eqb (z_max z) mx && (z_nulls z =? nulls) && (z_rows z =? rows)
  | None, None => true
  | _, _ => false
  end.
Definition has_index (s : state) (key : Z) : bool := match zget (pidx s) key with Some _ => true | None => false end.
Definition all_ops : list cmpop := [OpEq; OpNe; OpLt; OpLe; OpGt; OpGe].

Definition chk_obs (s : state) (o : obs) : bool :=
  match o with
  | ONodeIds ids => zs_eqb (node_ids s) ids
  | OCounts n e => (node_count s =? n) && (edge_count s =? e)
  | OAllNodes ids => zs_eqb (zsortf (all_nodes s)) ids
  | OGetNode n r => get_node_eqb (get_node s n) r
  | OByLabel l ids => zs_eqb (zsortf (nodes_by_label s l)) ids
  | OAllEdges es => qs_eqb (all_edges s) es               (* the model's edge list is in id order *)
  | OGetEdge e r => get_edge_eqb (get_edge s e) r
  | OEdgesFrom n d es => ps_eqb (psort (edges_from s n d)) es
  | OEdgesTo n es => ps_eqb (psort (edges_to s n)) es
  | ONeighbors n d ns => zs_eqb (zsortf (neighbors s n d)) ns
  | ODegrees n a b => (out_degree s n =? a) && (in_degree s n =? b)
  | OFind k v ids => zs_eqb (zsortf (find_by_prop s k v)) ids
  | OFindRange k lo hi li hi_i ids => zs_eqb (zsortf (find_in_range s k lo hi li hi_i)) ids
  | OFindAll conds ids => zs_eqb (zsortf (find_by_props s conds)) ids
  | OMight true k v bs => list_eqb Bool.eqb (map (fun o => node_might_match s k o v) all_ops) bs
  | OMight false k v bs => list_eqb Bool.eqb (map (fun o => edge_might_match s k o v) all_ops) bs
  | OZone k z => zone_obs_eqb (node_zone s k) z
  | OStats n e ls ts =>
      (s_nodes (stats_cur s) =? n) && (s_edges (stats_cur s) =? e)
      && plist_eqb (psort (s_labels (stats_cur s))) ls && plist_eqb (psort (s_etypes (stats_cur s))) ts
  | OValidate errs => plist_eqb (psort (validate s)) errs
  | OHasIndex k b => Bool.eqb (has_index s k) b
  | OCatalog l t => (Z.of_nat (length (lab_names s)) =? l) && (Z.of_nat (length (ety_names s)) =? t)
  | OShadow true n es => ps_eqb (adj_edges_from (fwd s) n) es
  | OShadow false n es => ps_eqb (adj_edges_from (bwd s) n) es
  | OShadowMem true h c nl => (adj_hot_entries (fwd s) =? h) && (adj_cold_entries (fwd s) =? c) && (Z.of_nat (length (fwd s)) =? nl)
  | OShadowMem false h c nl => (adj_hot_entries (bwd s) =? h) && (adj_cold_entries (bwd s) =? c) && (Z.of_nat (length (bwd s)) =? nl)
  end.

(** * traces *)
Inductive item :=
| E (o : op) (r : ret)          (* a store-level operation and what the implementation returned *)
| D (n : Z) (r : ret)           (* GrafeoDB::delete_node (detaching since 109e5bf) and what it returned *)
| O (o : obs).                  (* an observation of the implementation *)

Fixpoint chk_items (s : state) (t : list item) : bool :=
  match t with
  | [] => true
  | E o r :: rest => let '(s1, r1) := step s o in ret_eqb r1 r && chk_items s1 rest
  | D n r :: rest => let '(s1, r1) := dstep s (DbDeleteNode n) in ret_eqb r1 r && chk_items s1 rest
  | O o :: rest => chk_obs s o && chk_items s rest
  end.

(** the correspondence check of one trace *)
Definition chk_trace (backward : bool) (t : list item) : bool := chk_items (init backward) t.

(** diagnostics: index of the first item on which model and implementation differ *)
Fixpoint diag_items (s : state) (t : list item) (i : Z) : option Z :=
  match t with
  | [] => None
  | E o r :: rest => let '(s1, r1) := step s o in if ret_eqb r1 r then diag_items s1 rest (i + 1) else Some i
  | D n r :: rest => let '(s1, r1) := dstep s (DbDeleteNode n) in if ret_eqb r1 r then diag_items s1 rest (i + 1) else Some i
  | O o :: rest => if chk_obs s o then diag_items s rest (i + 1) else Some i
  end.
Definition diag_trace (backward : bool) (t : list item) : option Z := diag_items (init backward) t 0.

(** the harness prints a long trace as a list of segments (Coq's parser is quadratic in the length
    of one bracketed list) *)
Definition chk_segs (backward : bool) (segs : list (list item)) : bool := chk_trace backward (concat segs).
Definition diag_segs (backward : bool) (segs : list (list item)) : option Z := diag_trace backward (concat segs).

(** the same against the pre-repair machine (used to confirm the fixed finding C14-K1 on old trees) *)
Fixpoint chk_items_pre (s : state) (t : list item) : bool :=
  match t with
  | [] => true
  | E o r :: rest => let '(s1, r1) := step_pre s o in ret_eqb r1 r && chk_items_pre s1 rest
  | D n r :: rest => false
  | O o :: rest => chk_obs s o && chk_items_pre s rest
  end.
Definition chk_trace_pre (backward : bool) (t : list item) : bool := chk_items_pre (init backward) t.

(** the constants of adjacency.rs as measured by the harness through the public API *)
Definition chk_constants (chunk delta hot_kept : Z) : bool :=
  (CHUNK_CAPACITY =? chunk) && (DELTA_COMPACTION_THRESHOLD =? delta) && (COLD_COMPRESSION_THRESHOLD =? hot_kept).

(** * finding classes (open findings only: K6 and K8; the classes of the repaired K1, K3, K4, K5, K7
    and of the GrafeoDB-level K2 are gone -- a failure of those kinds is a violation)

    A history is given at the GrafeoDB level ([dop]); [dexpand] is the store-level history it
    amounts to. *)

(** C14-K8: a deleted / never-created node shows up as an endpoint or neighbour -- the listed
    finding when a store-level operation of the class occurred and the model predicts a dangling edge *)
Definition k_dangling (backward : bool) (ds : list dop) : bool :=
  hist_dangles (init backward) (dexpand (init backward) ds) && negb (no_dangling (drun (init backward) ds)).

(** C14-K6: index lookup differs from the scan after a property was written to a dead id *)
Definition k_index_dead (backward : bool) (ds : list dop) (key : Z) (q : value) : bool :=
  let s := drun (init backward) ds in
  hist_sets_dead (init backward) (dexpand (init backward) ds) && has_index s key
  && negb (zlist_eqb (zsortf (find_by_prop s key q)) (zsortf (scan_by_prop s key q))).
Definition k_props (backward : bool) (ds : list dop) (conds : list (Z * value)) : bool :=
  let s := drun (init backward) ds in
  hist_sets_dead (init backward) (dexpand (init backward) ds)
  && existsb (fun c => has_index s (fst c)) conds
  && negb (zlist_eqb (zsortf (find_by_props s conds)) (zsortf (scan_by_props s conds))).
