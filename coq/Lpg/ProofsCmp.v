(** C14 — the comparison [cmp_zone] of property.rs / zone_map.rs (since fix c5e300e an Int64 and a
    Float64 are compared exactly): "less than" is a strict partial order, "greater than" its
    converse; values equal in their own type behave alike against any third value. *)
From Coq Require Import ZArith Lia List Bool.
Import ListNotations.
From GV Require Import Lpg.Value Lpg.ProofsRound.
Open Scope Z_scope.

Lemma cmp_zone_opp a b : cmp_zone b a = option_map CompOpp (cmp_zone a b).
Proof.
  destruct a, b; cbn [cmp_zone option_map]; try reflexivity.
  - destruct b, b0; reflexivity.
  - rewrite (Z.compare_antisym i i0). reflexivity.
  - unfold cmp_f64_int, cmp_int_f64. destruct (f64_num bits); cbn [option_map]; [|reflexivity]. rewrite Z.compare_antisym. reflexivity.
  - unfold cmp_f64_int, cmp_int_f64. destruct (f64_num bits); cbn [option_map]; [|reflexivity]. rewrite Z.compare_antisym. reflexivity.
  - unfold f64_cmp. destruct (f64_num bits), (f64_num bits0); cbn [option_map]; try reflexivity. rewrite Z.compare_antisym. reflexivity.
  - rewrite lex_cmp_opp. reflexivity.
Qed.

Lemma cmp_zone_gt_lt a b : cmp_zone a b = Some Gt <-> cmp_zone b a = Some Lt.
Proof.
  rewrite (cmp_zone_opp a b). destruct (cmp_zone a b) as [[]|]; cbn [option_map CompOpp]; split; intros H; congruence.
Qed.

Lemma cmp_zone_irrefl a : cmp_zone a a <> Some Lt /\ cmp_zone a a <> Some Gt.
Proof.
  destruct a; cbn [cmp_zone]; try (split; discriminate).
  - destruct b; split; discriminate.
  - rewrite Z.compare_refl. split; discriminate.
  - unfold f64_cmp. destruct (f64_num bits); [rewrite Z.compare_refl|]; split; discriminate.
  - rewrite lex_cmp_refl. split; discriminate.
Qed.

Lemma cmp_zone_lt_trans a b c : cmp_zone a b = Some Lt -> cmp_zone b c = Some Lt -> cmp_zone a c = Some Lt.
Proof.
  pose proof scale_pos as SP.
  destruct a, b; cbn [cmp_zone]; try discriminate; destruct c; cbn [cmp_zone]; try discriminate;
    unfold cmp_int_f64, cmp_f64_int, f64_cmp;
    repeat match goal with |- context [f64_num ?x] => destruct (f64_num x) eqn:? end; try discriminate; intros H1 H2.
  - destruct b, b0, b1; cbn [bool_cmp] in *; congruence.
  - zcmp. lia.
  - zcmp. nia.
  - zcmp. nia.
  - zcmp. lia.
  - zcmp. nia.
  - zcmp. lia.
  - zcmp. lia.
  - zcmp. lia.
  - f_equal. injection H1 as H1. injection H2 as H2. eapply lex_cmp_lt_trans; eassumption.
Qed.

Lemma cmp_zone_gt_trans a b c : cmp_zone a b = Some Gt -> cmp_zone b c = Some Gt -> cmp_zone a c = Some Gt.
Proof.
  intros H1 H2. apply cmp_zone_gt_lt in H1, H2. apply cmp_zone_gt_lt. eapply cmp_zone_lt_trans; eassumption.
Qed.

(** [cmp_range] (same type only) is the restriction of [cmp_zone] *)
Lemma cmp_range_zone a b c : cmp_range a b = Some c -> cmp_zone a b = Some c.
Proof. destruct a, b; cbn [cmp_range cmp_zone]; try discriminate; exact (fun H => H). Qed.

Lemma cmp_range_eq_congr x q m : cmp_range x q = Some Eq -> cmp_zone x m = cmp_zone q m.
Proof.
  destruct x, q; cbn [cmp_range]; try discriminate; intros H.
  - injection H as H. destruct b, b0; cbn in H; try discriminate; reflexivity.
  - zcmp. subst. reflexivity.
  - unfold f64_cmp in H. destruct (f64_num bits) eqn:E1, (f64_num bits0) eqn:E2; try discriminate. zcmp. subst.
    destruct m; cbn [cmp_zone]; try reflexivity; unfold cmp_f64_int, f64_cmp; rewrite E1, E2; reflexivity.
  - injection H as H. apply lex_cmp_eq in H. subst. reflexivity.
Qed.

(** the bound compares Equal to the query value and a stored value is strictly on the matching
    side: with the exact comparison that is impossible *)
Lemma strict_eq_contra_lt mn x q :
  cmp_zone mn q = Some Eq -> cmp_range x q = Some Lt -> cmp_zone x mn <> Some Lt -> False.
Proof.
  pose proof scale_pos as SP. intros E R N. revert E R N.
  destruct x, q; cbn [cmp_range]; try (intros ? ?; discriminate); destruct mn; cbn [cmp_zone]; try (intros ?; discriminate);
    unfold cmp_int_f64, cmp_f64_int, f64_cmp;
    repeat match goal with |- context [f64_num ?x] => destruct (f64_num x) eqn:? end; intros E R N; try discriminate E; try discriminate R.
  - destruct b, b0, b1; cbn [bool_cmp] in R, E, N; try discriminate; congruence.
  - zcmp. subst. apply N. f_equal. exact R.
  - zcmp. apply N. zcmp. nia.
  - zcmp. apply N. zcmp. lia.
  - zcmp. apply N. zcmp. lia.
  - injection E as E. apply lex_cmp_eq in E. subst. apply N. exact R.
Qed.

Lemma strict_eq_contra_gt mx x q :
  cmp_zone mx q = Some Eq -> cmp_range x q = Some Gt -> cmp_zone x mx <> Some Gt -> False.
Proof.
  pose proof scale_pos as SP. intros E R N. revert E R N.
  destruct x, q; cbn [cmp_range]; try (intros ? ?; discriminate); destruct mx; cbn [cmp_zone]; try (intros ?; discriminate);
    unfold cmp_int_f64, cmp_f64_int, f64_cmp;
    repeat match goal with |- context [f64_num ?x] => destruct (f64_num x) eqn:? end; intros E R N; try discriminate E; try discriminate R.
  - destruct b, b0, b1; cbn [bool_cmp] in R, E, N; try discriminate; congruence.
  - zcmp. subst. apply N. f_equal. apply Z.compare_gt_iff. exact R.
  - zcmp. apply N. zcmp. nia.
  - zcmp. apply N. zcmp. lia.
  - zcmp. apply N. zcmp. lia.
  - injection E as E. apply lex_cmp_eq in E. subst. apply N. exact R.
Qed.
