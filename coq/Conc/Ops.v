(** C20 — step-wise transcriptions of the concurrent operations (DESIGN §8 C20).

    Every operation is cut exactly where the Rust code releases one lock and takes the next, or
    between a check and the update it guards (the sites of the proposed [verif::yield_point]
    hook).  Transcribed from (tree 7a3c856, non-tiered build):
      grafeo-core   graph/lpg/store.rs   create_node_versioned, delete_node_at_epoch, add_label,
                                         remove_label, create_edge_versioned, delete_edge_at_epoch
      grafeo-core   index/adjacency.rs   ChunkedAdjacency::add_edge / mark_deleted
      grafeo-core   graph/rdf/store.rs   RdfStore::insert / remove
      grafeo-engine transaction/manager.rs  begin_with_isolation / commit / abort (empty write sets)
      grafeo-common memory/buffer/{manager,grant}.rs  try_allocate (after 7a3c856), the pre-repair
                                         try_allocate, MemoryGrant::resize (try_allocate_raw), drop
      grafeo-adapters storage/wal/log.rs WalManager::log
    No proofs in this file. *)
From Coq Require Import String ZArith List Bool.
From GV Require Export Conc.Sem.
Import ListNotations.
Open Scope Z_scope.

(** * Common: outputs, thread-private registers, small list functions *)

Inductive out := OZ (z : Z) | OB (b : bool) | ONone.

(** r0..r2 are scratch registers of the operation in progress; [mem] is thread-private memory
    that survives from one operation to the next (grant slots, transaction handles) *)
Record regs := mkRegs { r0 : Z; r1 : Z; r2 : Z; mem : list (Z * Z) }.
Definition regs0 : regs := mkRegs 0 0 0 [].
Definition set_r0 (l : regs) (v : Z) := mkRegs v (r1 l) (r2 l) (mem l).
Definition set_r12 (l : regs) (a b : Z) := mkRegs (r0 l) a b (mem l).
Definition set_mem (l : regs) (m : list (Z * Z)) := mkRegs (r0 l) (r1 l) (r2 l) m.

Definition zmem (z : Z) (l : list Z) : bool := existsb (Z.eqb z) l.
Definition zrem (z : Z) (l : list Z) : list Z := filter (fun x => negb (x =? z)) l.
Definition zadd (z : Z) (l : list Z) : list Z := if zmem z l then l else z :: l.
Definition zcount (z : Z) (l : list Z) : nat := length (filter (Z.eqb z) l).

Fixpoint aget {V} (k : Z) (m : list (Z * V)) : option V :=
  match m with
  | [] => None
  | (k', v) :: t => if k' =? k then Some v else aget k t
  end.
Definition adel {V} (k : Z) (m : list (Z * V)) : list (Z * V) := filter (fun kv => negb (fst kv =? k)) m.
Definition aset {V} (k : Z) (v : V) (m : list (Z * V)) : list (Z * V) := (k, v) :: adel k m.

Definition pair_eqb (a b : Z * Z) : bool := (fst a =? fst b) && (snd a =? snd b).
Definition pmem (p : Z * Z) (l : list (Z * Z)) : bool := existsb (pair_eqb p) l.
Definition prem (p : Z * Z) (l : list (Z * Z)) : list (Z * Z) := filter (fun x => negb (pair_eqb p x)) l.
Definition padd (p : Z * Z) (l : list (Z * Z)) : list (Z * Z) := if pmem p l then l else p :: l.

(** * Property graph store *)

Record lpg := mkLpg {
  g_next_node : Z;                       (* next_node_id : AtomicU64 *)
  g_next_edge : Z;                       (* next_edge_id : AtomicU64 *)
  g_nodes : list (Z * bool);             (* nodes : id -> deleted? *)
  g_nlabels : list (Z * list Z);         (* node_labels : id -> label set *)
  g_lindex : list (Z * Z);               (* label_index as a set of (label, node) *)
  g_catalog : list Z;                    (* label_to_id / id_to_label : known labels *)
  g_edges : list (Z * (Z * Z * bool));   (* edges : id -> (src, dst, deleted?) *)
  g_fwd : list (Z * Z * Z);              (* forward_adj entries (src, dst, edge) *)
  g_fwd_del : list (Z * Z);              (* forward_adj deletion marks (src, edge) *)
  g_bwd : list (Z * Z * Z);              (* backward_adj entries (dst, src, edge) *)
  g_bwd_del : list (Z * Z)
}.
Definition lpg0 : lpg := mkLpg 0 0 [] [] [] [] [] [] [] [] [].

Definition with_nodes (g : lpg) nn ns := mkLpg nn (g_next_edge g) ns (g_nlabels g) (g_lindex g) (g_catalog g) (g_edges g) (g_fwd g) (g_fwd_del g) (g_bwd g) (g_bwd_del g).
Definition with_labels (g : lpg) nl li := mkLpg (g_next_node g) (g_next_edge g) (g_nodes g) nl li (g_catalog g) (g_edges g) (g_fwd g) (g_fwd_del g) (g_bwd g) (g_bwd_del g).
Definition with_catalog (g : lpg) c := mkLpg (g_next_node g) (g_next_edge g) (g_nodes g) (g_nlabels g) (g_lindex g) c (g_edges g) (g_fwd g) (g_fwd_del g) (g_bwd g) (g_bwd_del g).
Definition with_edges (g : lpg) ne es := mkLpg (g_next_node g) ne (g_nodes g) (g_nlabels g) (g_lindex g) (g_catalog g) es (g_fwd g) (g_fwd_del g) (g_bwd g) (g_bwd_del g).
Definition with_fwd (g : lpg) f fd := mkLpg (g_next_node g) (g_next_edge g) (g_nodes g) (g_nlabels g) (g_lindex g) (g_catalog g) (g_edges g) f fd (g_bwd g) (g_bwd_del g).
Definition with_bwd (g : lpg) b bd := mkLpg (g_next_node g) (g_next_edge g) (g_nodes g) (g_nlabels g) (g_lindex g) (g_catalog g) (g_edges g) (g_fwd g) (g_fwd_del g) b bd.

Definition node_live (g : lpg) (n : Z) : bool :=
  match aget n (g_nodes g) with Some false => true | _ => false end.
Definition mark_node (n : Z) (ns : list (Z * bool)) : list (Z * bool) :=
  map (fun kv => if fst kv =? n then (fst kv, true) else kv) ns.
Definition mark_edge (e : Z) (es : list (Z * (Z * Z * bool))) : list (Z * (Z * Z * bool)) :=
  map (fun kv => if fst kv =? e then (fst kv, (fst (fst (snd kv)), snd (fst (snd kv)), true)) else kv) es.
Definition has_list (k : Z) (adj : list (Z * Z * Z)) : bool := existsb (fun x => fst (fst x) =? k) adj.

Inductive gk :=
(* create_node_versioned *)
| GNAlloc                (* next_node_id.fetch_add(1) *)
| GNCat (l : Z)          (* get_or_create_label_id *)
| GNIdx (l : Z)          (* label_index.write(): index[l].insert(id) *)
| GNLabels (ls : list Z) (* node_labels.write().insert(id, set) *)
| GNIns                  (* nodes.write().insert(id, chain) *)
(* delete_node_at_epoch *)
| GDMark (n : Z)         (* nodes.write() + label_index.write() + node_labels.write(), all held together *)
| GDPropIdx              (* remove_node_from_property_indexes *)
| GDProps                (* node_properties.remove_all *)
(* add_label / remove_label after the repair of C20-K2/K7: nodes.write() is held for the whole operation
   (existence check, label catalog, node_labels, label_index, record), so each is ONE step *)
| GAAll (n l : Z)
| GRAll (n l : Z)
(* add_label before the repair *)
| GACheck (n : Z)        (* nodes.read(): exists and not deleted? *)
| GACat (l : Z)
| GALabels (n l : Z)     (* node_labels.write(): entry(n).or_default(); contains? insert *)
| GAIdx (n l : Z)        (* label_index.write(): insert; then nodes.write() + node_labels.read() while still holding it *)
(* remove_label *)
| GRCheck (n : Z)
| GRCat (l : Z)          (* label_to_id.read(): known label? *)
| GRLabels (n l : Z)
| GRIdx (n l : Z)
(* create_edge_versioned *)
| GEAlloc | GECat
| GEIns (s d : Z)        (* edges.write().insert *)
| GEFwd (s d : Z)        (* forward_adj.add_edge *)
| GEBwd (s d : Z)        (* backward_adj.add_edge *)
(* delete_edge_at_epoch *)
| GXMark (e : Z)         (* edges.write(): visible? mark deleted; remember src, dst *)
| GXFwd (e : Z)          (* forward_adj.mark_deleted(src, e) *)
| GXBwd (e : Z)
| GXProps.

Definition gexec (k : gk) (g : lpg) (l : regs) : lpg * regs * ctl out :=
  match k with
  | GNAlloc => (with_nodes g (g_next_node g + 1) (g_nodes g), set_r0 l (g_next_node g), Next)
  | GNCat lb | GACat lb => (with_catalog g (zadd lb (g_catalog g)), l, Next)
  | GNIdx lb => (with_labels g (g_nlabels g) (padd (lb, r0 l) (g_lindex g)), l, Next)
  | GNLabels ls => (with_labels g (aset (r0 l) ls (g_nlabels g)) (g_lindex g), l, Next)
  | GNIns => (with_nodes g (g_next_node g) ((r0 l, false) :: g_nodes g), l, Ret (OZ (r0 l)))
  | GDMark n =>
      if node_live g n then
        let ls := match aget n (g_nlabels g) with Some ls => ls | None => [] end in
        let g1 := with_nodes g (g_next_node g) (mark_node n (g_nodes g)) in
        (with_labels g1 (adel n (g_nlabels g)) (fold_left (fun li lb => prem (lb, n) li) ls (g_lindex g)), l, Next)
      else (g, l, Ret (OB false))
  | GDPropIdx => (g, l, Next)
  | GDProps => (g, l, Ret (OB true))
  | GAAll n lb =>
      if node_live g n then
        let g1 := with_catalog g (zadd lb (g_catalog g)) in
        match aget n (g_nlabels g) with
        | Some ls => if zmem lb ls then (g1, l, Ret (OB false))
                     else (with_labels g1 (aset n (lb :: ls) (g_nlabels g)) (padd (lb, n) (g_lindex g)), l, Ret (OB true))
        | None => (with_labels g1 (aset n [lb] (g_nlabels g)) (padd (lb, n) (g_lindex g)), l, Ret (OB true))
        end
      else (g, l, Ret (OB false))
  | GRAll n lb =>
      if node_live g n && zmem lb (g_catalog g) then
        match aget n (g_nlabels g) with
        | Some ls => if zmem lb ls
                     then (with_labels g (aset n (zrem lb ls) (g_nlabels g)) (prem (lb, n) (g_lindex g)), l, Ret (OB true))
                     else (g, l, Ret (OB false))
        | None => (g, l, Ret (OB false))
        end
      else (g, l, Ret (OB false))
  | GACheck n | GRCheck n => if node_live g n then (g, l, Next) else (g, l, Ret (OB false))
  | GALabels n lb =>
      match aget n (g_nlabels g) with
      | Some ls => if zmem lb ls then (g, l, Ret (OB false))
                   else (with_labels g (aset n (lb :: ls) (g_nlabels g)) (g_lindex g), l, Next)
      | None => (with_labels g (aset n [lb] (g_nlabels g)) (g_lindex g), l, Next)
      end
  | GAIdx n lb => (with_labels g (g_nlabels g) (padd (lb, n) (g_lindex g)), l, Ret (OB true))
  | GRCat lb => if zmem lb (g_catalog g) then (g, l, Next) else (g, l, Ret (OB false))
  | GRLabels n lb =>
      match aget n (g_nlabels g) with
      | Some ls => if zmem lb ls then (with_labels g (aset n (zrem lb ls) (g_nlabels g)) (g_lindex g), l, Next)
                   else (g, l, Ret (OB false))
      | None => (g, l, Ret (OB false))
      end
  | GRIdx n lb => (with_labels g (g_nlabels g) (prem (lb, n) (g_lindex g)), l, Ret (OB true))
  | GEAlloc => (with_edges g (g_next_edge g + 1) (g_edges g), set_r0 l (g_next_edge g), Next)
  | GECat => (g, l, Next)
  | GEIns s d => (with_edges g (g_next_edge g) ((r0 l, (s, d, false)) :: g_edges g), l, Next)
  | GEFwd s d => (with_fwd g ((s, d, r0 l) :: g_fwd g) (g_fwd_del g), l, Next)
  | GEBwd s d => (with_bwd g ((d, s, r0 l) :: g_bwd g) (g_bwd_del g), l, Ret (OZ (r0 l)))
  | GXMark e =>
      match aget e (g_edges g) with
      | Some (s, d, false) => (with_edges g (g_next_edge g) (mark_edge e (g_edges g)), set_r12 l s d, Next)
      | _ => (g, l, Ret (OB false))
      end
  | GXFwd e => ((if has_list (r1 l) (g_fwd g) then with_fwd g (g_fwd g) (padd (r1 l, e) (g_fwd_del g)) else g), l, Next)
  | GXBwd e => ((if has_list (r2 l) (g_bwd g) then with_bwd g (g_bwd g) (padd (r2 l, e) (g_bwd_del g)) else g), l, Next)
  | GXProps => (g, l, Ret (OB true))
  end.

Inductive gop :=
| GCreateNode (ls : list Z) | GDeleteNode (n : Z) | GAddLabel (n l : Z) | GRemoveLabel (n l : Z)
| GCreateEdge (s d : Z) | GDeleteEdge (e : Z).

Definition gcode (op : gop) : list gk :=
  match op with
  | GCreateNode ls => GNAlloc :: flat_map (fun lb => [GNCat lb; GNIdx lb]) ls ++ [GNLabels ls; GNIns]
  | GDeleteNode n => [GDMark n; GDPropIdx; GDProps]
  | GAddLabel n lb => [GAAll n lb]
  | GRemoveLabel n lb => [GRAll n lb]
  | GCreateEdge s d => [GEAlloc; GECat; GEIns s d; GEFwd s d; GEBwd s d]
  | GDeleteEdge e => [GXMark e; GXFwd e; GXBwd e; GXProps]
  end.

(** the operations as they were before the repair of C20-K2/K7 (add_label / remove_label in four
    separately locked steps; delete_node is unchanged and listed so that the old witnesses can be stated) *)
Inductive gop_pre := PAddLabel (n l : Z) | PRemoveLabel (n l : Z) | PDeleteNode (n : Z).
Definition gcode_pre (op : gop_pre) : list gk :=
  match op with
  | PAddLabel n lb => [GACheck n; GACat lb; GALabels n lb; GAIdx n lb]
  | PRemoveLabel n lb => [GRCheck n; GRCat lb; GRLabels n lb; GRIdx n lb]
  | PDeleteNode n => [GDMark n; GDPropIdx; GDProps]
  end.
Definition gcfg_pre := @config lpg regs gop_pre out.
Definition grun_pre : list nat -> gcfg_pre -> gcfg_pre := run gcode_pre gexec.
Definition ginit_pre (g0 : lpg) (progs : list (list gop_pre)) : gcfg_pre := init g0 regs0 progs.

Definition gcfg := @config lpg regs gop out.
Definition grun : list nat -> gcfg -> gcfg := run gcode gexec.
Definition ginit (g0 : lpg) (progs : list (list gop)) : gcfg := init g0 regs0 progs.

(** observables (what the public accessors return after quiescence) *)
Definition live_nodes (g : lpg) : list Z := map fst (filter (fun kv => negb (snd kv)) (g_nodes g)).
Definition by_label (g : lpg) (lb : Z) : list Z := map snd (filter (fun p => fst p =? lb) (g_lindex g)).
Definition labels_of (g : lpg) (n : Z) : list Z := match aget n (g_nlabels g) with Some ls => ls | None => [] end.
Definition live_edges (g : lpg) : list (Z * Z * Z) :=
  map (fun kv => (fst kv, fst (fst (snd kv)), snd (fst (snd kv)))) (filter (fun kv => negb (snd (snd kv))) (g_edges g)).
Definition adj_visible (adj : list (Z * Z * Z)) (del : list (Z * Z)) : list (Z * Z * Z) :=
  filter (fun x => negb (pmem (fst (fst x), snd x) del)) adj.

(** * Triple store *)

Record rdf := mkRdf { q_prim : list Z; q_s : list Z; q_p : list Z; q_o : list Z }.
Definition rdf0 : rdf := mkRdf [] [] [] [].

Inductive qk :=
| QIContains (t : Z)   (* triples.read().contains *)
| QIPrim (t : Z)       (* triples.write().insert — false when already present *)
| QIS (t : Z) | QIP (t : Z) | QIO (t : Z)   (* subject / predicate / object index push *)
| QRPrim (t : Z)       (* triples.write().remove *)
| QRS (t : Z) | QRP (t : Z) | QRO (t : Z)   (* retain(|x| x != t) *)
(* after the repair of C20-K1: triples.write() is held while the three indexes are updated *)
| QIAll (t : Z)        (* insert: primary (false when already present) + subject + predicate + object *)
| QRAll (t : Z).       (* remove: primary (false when absent) + the three retains *)

Definition qexec (k : qk) (q : rdf) (l : regs) : rdf * regs * ctl out :=
  match k with
  | QIContains t => if zmem t (q_prim q) then (q, l, Ret (OB false)) else (q, l, Next)
  | QIPrim t => if zmem t (q_prim q) then (q, l, Ret (OB false))
                else (mkRdf (t :: q_prim q) (q_s q) (q_p q) (q_o q), l, Next)
  | QIS t => (mkRdf (q_prim q) (t :: q_s q) (q_p q) (q_o q), l, Next)
  | QIP t => (mkRdf (q_prim q) (q_s q) (t :: q_p q) (q_o q), l, Next)
  | QIO t => (mkRdf (q_prim q) (q_s q) (q_p q) (t :: q_o q), l, Ret (OB true))
  | QRPrim t => if zmem t (q_prim q) then (mkRdf (zrem t (q_prim q)) (q_s q) (q_p q) (q_o q), l, Next)
                else (q, l, Ret (OB false))
  | QRS t => (mkRdf (q_prim q) (zrem t (q_s q)) (q_p q) (q_o q), l, Next)
  | QRP t => (mkRdf (q_prim q) (q_s q) (zrem t (q_p q)) (q_o q), l, Next)
  | QRO t => (mkRdf (q_prim q) (q_s q) (q_p q) (zrem t (q_o q)), l, Ret (OB true))
  | QIAll t => if zmem t (q_prim q) then (q, l, Ret (OB false))
               else (mkRdf (t :: q_prim q) (t :: q_s q) (t :: q_p q) (t :: q_o q), l, Ret (OB true))
  | QRAll t => if zmem t (q_prim q)
               then (mkRdf (zrem t (q_prim q)) (zrem t (q_s q)) (zrem t (q_p q)) (zrem t (q_o q)), l, Ret (OB true))
               else (q, l, Ret (OB false))
  end.

Inductive qop := QInsert (t : Z) | QRemove (t : Z).
Definition qcode (op : qop) : list qk :=
  match op with
  | QInsert t => [QIContains t; QIAll t]
  | QRemove t => [QRAll t]
  end.
(** the operations as they were before the repair of C20-K1 (four separately locked updates) *)
Inductive qop_pre := QInsertPre (t : Z) | QRemovePre (t : Z).
Definition qcode_pre (op : qop_pre) : list qk :=
  match op with
  | QInsertPre t => [QIContains t; QIPrim t; QIS t; QIP t; QIO t]
  | QRemovePre t => [QRPrim t; QRS t; QRP t; QRO t]
  end.
Definition qcfg_pre := @config rdf regs qop_pre out.
Definition qrun_pre : list nat -> qcfg_pre -> qcfg_pre := run qcode_pre qexec.
Definition qinit_pre (q0 : rdf) (progs : list (list qop_pre)) : qcfg_pre := init q0 regs0 progs.
Definition qcfg := @config rdf regs qop out.
Definition qrun : list nat -> qcfg -> qcfg := run qcode qexec.
Definition qinit (q0 : rdf) (progs : list (list qop)) : qcfg := init q0 regs0 progs.

(** a store whose three indexes agree with the primary set *)
Definition rdf_of (ts : list Z) : rdf := mkRdf ts ts ts ts.
Definition idx_ok (prim idx : list Z) (t : Z) : bool :=
  Nat.eqb (zcount t idx) (if zmem t prim then 1 else 0).
Definition rdf_consistent_at (q : rdf) (t : Z) : bool :=
  idx_ok (q_prim q) (q_s q) t && idx_ok (q_prim q) (q_p q) t && idx_ok (q_prim q) (q_o q) t.

(** * Transaction manager (begin / commit / abort; write sets are empty in C20 programs, so the
      validation loops of commit — the subject of C03/C04 — never refuse) *)

Record tm := mkTm {
  m_next : Z;                        (* next_tx_id, starts at 2 *)
  m_epoch : Z;                       (* current_epoch *)
  m_txs : list (Z * (Z * Z));        (* transactions : id -> (start epoch, 0 active | 1 committed | 2 aborted) *)
  m_committed : list (Z * Z)         (* committed_epochs *)
}.
Definition tm0 : tm := mkTm 2 0 [] [].

Inductive mk :=
| MAlloc              (* next_tx_id.fetch_add(1) *)
| MLoadEpoch          (* current_epoch.load() *)
| MInsert (slot : Z)  (* transactions.write().insert *)
| MCommit (slot : Z)  (* the whole of commit(): transactions.write() held throughout *)
| MAbort (slot : Z).

Definition mexec (k : mk) (m : tm) (l : regs) : tm * regs * ctl out :=
  match k with
  | MAlloc => (mkTm (m_next m + 1) (m_epoch m) (m_txs m) (m_committed m), set_r0 l (m_next m), Next)
  | MLoadEpoch => (m, set_r12 l (m_epoch m) (r2 l), Next)
  | MInsert slot => (mkTm (m_next m) (m_epoch m) (aset (r0 l) (r1 l, 0) (m_txs m)) (m_committed m),
                     set_mem l (aset slot (r0 l) (mem l)), Ret (OZ (r0 l)))
  | MCommit slot =>
      match aget slot (mem l) with
      | None => (m, l, Ret ONone)
      | Some tx =>
          match aget tx (m_txs m) with
          | Some (st, 0) =>
              let e := m_epoch m + 1 in
              (mkTm (m_next m) e (aset tx (st, 1) (m_txs m)) (aset tx e (m_committed m)), l, Ret (OZ e))
          | _ => (m, l, Ret ONone)
          end
      end
  | MAbort slot =>
      match aget slot (mem l) with
      | None => (m, l, Ret ONone)
      | Some tx =>
          match aget tx (m_txs m) with
          | Some (st, 0) => (mkTm (m_next m) (m_epoch m) (aset tx (st, 2) (m_txs m)) (m_committed m), l, Ret (OB true))
          | _ => (m, l, Ret ONone)
          end
      end
  end.

Inductive mop := MBegin (slot : Z) | MCommitOp (slot : Z) | MAbortOp (slot : Z).
Definition mcode (op : mop) : list mk :=
  match op with
  | MBegin s => [MAlloc; MLoadEpoch; MInsert s]
  | MCommitOp s => [MCommit s]
  | MAbortOp s => [MAbort s]
  end.
Definition mcfg := @config tm regs mop out.
Definition mrun : list nat -> mcfg -> mcfg := run mcode mexec.
Definition minit (progs : list (list mop)) : mcfg := init tm0 regs0 progs.

(** * Buffer manager *)

Record buf := mkBuf { b_alloc : Z; b_regs : list Z; b_hard : Z }.
Definition buf0 (hard : Z) : buf := mkBuf 0 [0; 0; 0; 0] hard.
Definition region_of (slot : Z) : nat := Z.to_nat (slot mod 4).
Fixpoint reg_add (i : nat) (d : Z) (rs : list Z) : list Z :=
  match rs, i with
  | [], _ => []
  | x :: t, O => (x + d) :: t
  | x :: t, S i' => x :: reg_add i' d t
  end.
Definition slot_size (l : regs) (g : Z) : Z := match aget g (mem l) with Some s => s | None => 0 end.
Definition slot_used (l : regs) (g : Z) : bool := match aget g (mem l) with Some _ => true | None => false end.

Inductive bk :=
(* try_allocate after 7a3c856 *)
| BReserve (g size : Z)     (* try_reserve: one fetch_update *)
| BReserve2 (g size : Z)    (* eviction cycle (no consumers: no effect), try_reserve again *)
| BRegion (g size : Z)      (* region_allocated.fetch_add; the grant now exists *)
(* try_allocate before 7a3c856 *)
| BPreLoad (g size : Z)     (* allocated.load(); current + size > hard ? *)
| BPreLoad2 (g size : Z)
| BPreAdd (g size : Z)      (* allocated.fetch_add *)
(* MemoryGrant::resize after the repair of C20-K3 (grow through try_allocate_raw = try_reserve, one
   fetch_update; shrink through release: no yield point lies between the size comparison and the
   fetch_sub, so the shrinking branch of BZStart performs the fetch_sub itself) *)
| BZStart (g new : Z)
| BZReserve2 (g new : Z)
| BZRegion (g new : Z)
| BZSubRegion (g new : Z)
(* MemoryGrant::resize before the repair (try_allocate_raw: load, then add) *)
| BZStartPre (g new : Z)
| BZLoad2 (g new : Z)
| BZAdd (g new : Z)
(* drop of a grant = release *)
| BRelAlloc (g : Z)         (* allocated.fetch_sub *)
| BRelRegion (g : Z).       (* region_allocated.fetch_sub *)

Definition bexec (k : bk) (b : buf) (l : regs) : buf * regs * ctl out :=
  match k with
  | BReserve g size =>
      if slot_used l g then (b, l, Ret (OB false))
      else if b_alloc b + size <=? b_hard b then (mkBuf (b_alloc b + size) (b_regs b) (b_hard b), l, Goto 2)
      else (b, l, Next)
  | BReserve2 g size =>
      if b_alloc b + size <=? b_hard b then (mkBuf (b_alloc b + size) (b_regs b) (b_hard b), l, Next)
      else (b, l, Ret (OB false))
  | BRegion g size =>
      (mkBuf (b_alloc b) (reg_add (region_of g) size (b_regs b)) (b_hard b), set_mem l (aset g size (mem l)), Ret (OB true))
  | BPreLoad g size =>
      if slot_used l g then (b, l, Ret (OB false))
      else if b_alloc b + size >? b_hard b then (b, l, Next) else (b, l, Goto 2)
  | BPreLoad2 g size => if b_alloc b + size >? b_hard b then (b, l, Ret (OB false)) else (b, l, Next)
  | BPreAdd g size => (mkBuf (b_alloc b + size) (b_regs b) (b_hard b), l, Next)
  | BZStart g new =>
      if negb (slot_used l g) then (b, l, Ret (OB false))
      else let cur := slot_size l g in
           if new >? cur then (if b_alloc b + (new - cur) <=? b_hard b
                               then (mkBuf (b_alloc b + (new - cur)) (b_regs b) (b_hard b), l, Goto 2)
                               else (b, l, Next))
           else if new <? cur then (mkBuf (b_alloc b - (cur - new)) (b_regs b) (b_hard b), l, Goto 3)
           else (b, l, Ret (OB true))
  | BZReserve2 g new =>
      if b_alloc b + (new - slot_size l g) <=? b_hard b
      then (mkBuf (b_alloc b + (new - slot_size l g)) (b_regs b) (b_hard b), l, Next)
      else (b, l, Ret (OB false))
  | BZStartPre g new =>
      if negb (slot_used l g) then (b, l, Ret (OB false))
      else let cur := slot_size l g in
           if new >? cur then (if b_alloc b + (new - cur) >? b_hard b then (b, l, Next) else (b, l, Goto 2))
           else if new <? cur then (mkBuf (b_alloc b - (cur - new)) (b_regs b) (b_hard b), l, Goto 4)
           else (b, l, Ret (OB true))
  | BZLoad2 g new => if b_alloc b + (new - slot_size l g) >? b_hard b then (b, l, Ret (OB false)) else (b, l, Next)
  | BZAdd g new => (mkBuf (b_alloc b + (new - slot_size l g)) (b_regs b) (b_hard b), l, Next)
  | BZRegion g new =>
      (mkBuf (b_alloc b) (reg_add (region_of g) (new - slot_size l g) (b_regs b)) (b_hard b),
       set_mem l (aset g new (mem l)), Ret (OB true))
  | BZSubRegion g new =>
      (mkBuf (b_alloc b) (reg_add (region_of g) (- (slot_size l g - new)) (b_regs b)) (b_hard b),
       set_mem l (aset g new (mem l)), Ret (OB true))
  | BRelAlloc g =>
      if negb (slot_used l g) then (b, l, Ret (OB false))
      else if slot_size l g =? 0 then (b, set_mem l (adel g (mem l)), Ret (OB true))
      else (mkBuf (b_alloc b - slot_size l g) (b_regs b) (b_hard b), l, Next)
  | BRelRegion g =>
      (mkBuf (b_alloc b) (reg_add (region_of g) (- slot_size l g) (b_regs b)) (b_hard b),
       set_mem l (adel g (mem l)), Ret (OB true))
  end.

Inductive bop := BAlloc (g size : Z) | BAllocPre (g size : Z) | BResize (g new : Z) | BResizePre (g new : Z) | BRelease (g : Z).
Definition bcode (op : bop) : list bk :=
  match op with
  | BAlloc g s => [BReserve g s; BReserve2 g s; BRegion g s]
  | BAllocPre g s => [BPreLoad g s; BPreLoad2 g s; BPreAdd g s; BRegion g s]
  | BResize g n => [BZStart g n; BZReserve2 g n; BZRegion g n; BZSubRegion g n]
  | BResizePre g n => [BZStartPre g n; BZLoad2 g n; BZAdd g n; BZRegion g n; BZSubRegion g n]
  | BRelease g => [BRelAlloc g; BRelRegion g]
  end.
Definition bcfg := @config buf regs bop out.
Definition brun : list nat -> bcfg -> bcfg := run bcode bexec.
Definition binit (hard : Z) (progs : list (list bop)) : bcfg := init (buf0 hard) regs0 progs.

(** * Write-ahead log *)

Record wal := mkWal { w_log : list Z; w_count : Z }.   (* records, most recent first *)
Definition wal0 : wal := mkWal [] 0.
Inductive wk := WEnsure | WAppend (r : Z).
Definition wexec (k : wk) (w : wal) (l : regs) : wal * regs * ctl out :=
  match k with
  | WEnsure => (w, l, Next)
  | WAppend r => (mkWal (r :: w_log w) (w_count w + 1), l, Ret (OB true))
  end.
Inductive wop := WLog (r : Z).
Definition wcode (op : wop) : list wk := match op with WLog r => [WEnsure; WAppend r] end.
Definition wcfg := @config wal regs wop out.
Definition wrun : list nat -> wcfg -> wcfg := run wcode wexec.
Definition winit (progs : list (list wop)) : wcfg := init wal0 regs0 progs.

(** * Write-ahead log with rotation (WalConfig::max_log_size below the size of one record, so that
      every append asks for a rotation: `log` appends under the mutex, releases it, and then
      `rotate` takes the next sequence number with a fetch_add, opens the new file, and only
      then takes the mutex again to install it) *)
Record walr := mkWalR {
  wr_files : list (Z * list Z);   (* sequence number -> records of that file, most recent first *)
  wr_active : Z;                  (* sequence number of the file behind active_log *)
  wr_seq : Z                      (* current_sequence *)
}.
Definition walr0 : walr := mkWalR [(0, [])] 0 0.
Definition file_of (w : walr) (s : Z) : list Z := match aget s (wr_files w) with Some l => l | None => [] end.
Inductive rk := REnsure | RAppend (r : Z) | RSeq | RInstall.
Definition rexec (k : rk) (w : walr) (l : regs) : walr * regs * ctl out :=
  match k with
  | REnsure => (w, l, Next)
  | RAppend r => (mkWalR (aset (wr_active w) (r :: file_of w (wr_active w)) (wr_files w)) (wr_active w) (wr_seq w), l, Next)
  | RSeq => (mkWalR (wr_files w) (wr_active w) (wr_seq w + 1), set_r0 l (wr_seq w + 1), Next)
  | RInstall => (mkWalR (aset (r0 l) (file_of w (r0 l)) (wr_files w)) (r0 l) (wr_seq w), l, Ret (OB true))
  end.
Inductive rop := RLog (r : Z).
Definition rcode (op : rop) : list rk := match op with RLog r => [REnsure; RAppend r; RSeq; RInstall] end.
Definition rcfg := @config walr regs rop out.
Definition rrun : list nat -> rcfg -> rcfg := run rcode rexec.
Definition rinit (progs : list (list rop)) : rcfg := init walr0 regs0 progs.
(** what recovery reads: the files in sequence order, each oldest record first *)
Fixpoint insert_sorted (x : Z * list Z) (l : list (Z * list Z)) : list (Z * list Z) :=
  match l with
  | [] => [x]
  | y :: t => if fst x <=? fst y then x :: l else y :: insert_sorted x t
  end.
Definition recovered (w : walr) : list Z :=
  flat_map (fun f => rev (snd f)) (fold_right insert_sorted [] (wr_files w)).

(** * Property index (LpgStore::set_node_property with an index on the key:
      update_property_index_on_set reads the old value and fixes the index under
      property_indexes.read(); only afterwards node_properties.set stores the new value) *)
Record pst := mkP { p_props : list (Z * Z); p_idx : list (Z * Z) }.   (* node -> value ; (value, node) *)
Definition pst0 : pst := mkP [] [].
Inductive pk := PIdx (n v : Z) | PSet (n v : Z) | PCount | PNodes.
Definition pexec (k : pk) (p : pst) (l : regs) : pst * regs * ctl out :=
  match k with
  | PIdx n v =>
      let idx1 := match aget n (p_props p) with Some old => prem (old, n) (p_idx p) | None => p_idx p end in
      (mkP (p_props p) (padd (v, n) idx1), l, Next)
  | PSet n v => (mkP (aset n v (p_props p)) (p_idx p), l, Next)
  | PCount => (p, l, Next)
  | PNodes => (p, l, Ret ONone)
  end.
Inductive pop := PSetProp (n v : Z).
Definition pcode (op : pop) : list pk := match op with PSetProp n v => [PIdx n v; PSet n v; PCount; PNodes] end.
Definition pcfg := @config pst regs pop out.
Definition prun : list nat -> pcfg -> pcfg := run pcode pexec.
Definition pinit (progs : list (list pop)) : pcfg := init pst0 regs0 progs.
(** index lookup by value agrees with the stored values *)
Definition pidx_consistent (p : pst) : bool :=
  forallb (fun vn => match aget (snd vn) (p_props p) with Some v => v =? fst vn | None => false end) (p_idx p) &&
  forallb (fun nv => pmem (snd nv, fst nv) (p_idx p)) (p_props p).


(** * Finding classes and program predicates (decidable; used by the theorems and by the runner) *)
Definition ins_of (p : list qop_pre) : list Z := flat_map (fun op => match op with QInsertPre t => [t] | _ => [] end) p.
Definition rem_of (p : list qop_pre) : list Z := flat_map (fun op => match op with QRemovePre t => [t] | _ => [] end) p.
(** K (pre-repair code): some triple is inserted by one thread and removed by a different thread *)
Definition k_rdf (progs : list (list qop_pre)) : bool :=
  let n := length progs in
  existsb (fun i => existsb (fun j => negb (Nat.eqb i j) &&
     existsb (fun t => zmem t (rem_of (nth j progs []))) (ins_of (nth i progs []))) (seq 0 n)) (seq 0 n).

Definition ops_add_label (p : list gop_pre) : list Z :=
  flat_map (fun op => match op with PAddLabel n _ | PRemoveLabel n _ => [n] | _ => [] end) p.
Definition ops_delete_node (p : list gop_pre) : list Z :=
  flat_map (fun op => match op with PDeleteNode n => [n] | _ => [] end) p.
Definition ops_add_pairs (p : list gop_pre) : list (Z * Z) :=
  flat_map (fun op => match op with PAddLabel n l => [(n, l)] | _ => [] end) p.
Definition ops_rem_pairs (p : list gop_pre) : list (Z * Z) :=
  flat_map (fun op => match op with PRemoveLabel n l => [(n, l)] | _ => [] end) p.
(** K (torn label index): add_label/remove_label and delete_node of the SAME node by different
    threads, or add_label and remove_label of the SAME (node, label) by different threads *)
Definition k_label (progs : list (list gop_pre)) : bool :=
  let n := length progs in
  existsb (fun i => existsb (fun j => negb (Nat.eqb i j) &&
     (existsb (fun x => zmem x (ops_delete_node (nth j progs []))) (ops_add_label (nth i progs [])) ||
      existsb (fun x => pmem x (ops_rem_pairs (nth j progs []))) (ops_add_pairs (nth i progs [])))) (seq 0 n)) (seq 0 n).
(** K (deadlock): add_label/remove_label and delete_node (of any nodes) by different threads *)
Definition k_label_deadlock (progs : list (list gop_pre)) : bool :=
  let n := length progs in
  existsb (fun i => existsb (fun j => negb (Nat.eqb i j) &&
     negb (match ops_add_label (nth i progs []) with [] => true | _ => false end) &&
     negb (match ops_delete_node (nth j progs []) with [] => true | _ => false end)) (seq 0 n)) (seq 0 n).

(** two set_node_property calls on the same node leave two index entries *)
Definition k_prop (progs : list (list pop)) : bool :=
  let n := length progs in
  let nodes p := map (fun op => match op with PSetProp x _ => x end) p in
  existsb (fun i => existsb (fun j => negb (Nat.eqb i j) &&
     existsb (fun x => zmem x (nodes (nth j progs []))) (nodes (nth i progs []))) (seq 0 n)) (seq 0 n).
Definition k_wal_rotation (progs : list (list rop)) : bool :=
  Nat.leb 2 (length (filter (fun p => match p with [] => false | _ => true end) progs)).
Definition safe_op (op : bop) : bool :=
  match op with BAlloc _ s | BResize _ s => 0 <=? s | BRelease _ => true | _ => false end.
Definition safe_progs (progs : list (list bop)) : bool := forallb (forallb safe_op) progs.

Definition k_buf (progs : list (list bop)) : bool := negb (safe_progs progs).


(** create_edge and delete_edge of an edge id that the starting graph does not contain (the edge
    being created by another thread: its id is visible through the edge map before the adjacency
    lists are updated) *)
Definition k_edge_torn (lo : Z) (progs : list (list gop)) : bool :=
  let n := length progs in
  existsb (fun i => existsb (fun j => negb (Nat.eqb i j) &&
     existsb (fun op => match op with GCreateEdge _ _ => true | _ => false end) (nth i progs []) &&
     existsb (fun op => match op with GDeleteEdge e => lo <=? e | _ => false end) (nth j progs [])) (seq 0 n)) (seq 0 n).

(** * Yield sites.  [xsite k jumped] is the name of the [verif::yield_point] site (commits 45dda10,
      3c01f2d, 34bf8a9 of /repo) at which the thread stands after step [k] when the step did not return
      ([jumped] = the target when the step left by a [Goto]).  The scheduler harness reports the site at
      which each granted step ended; the check compares the two sequences.  *)
Open Scope string_scope.
Definition gsite (k : gk) (jumped : option nat) : string :=
  match k with
  | GNAlloc => "lpg.create_node.after_alloc"
  | GNCat _ => "lpg.create_node.after_label_id"
  | GNIdx _ => "lpg.create_node.after_label_index"
  | GNLabels _ => "lpg.create_node.after_node_labels"
  | GDMark _ => "lpg.delete_node.after_mark"
  | GDPropIdx => "lpg.delete_node.after_property_indexes"
  | GACheck _ => "lpg.add_label.after_check"
  | GACat _ => "lpg.add_label.after_label_id"
  | GALabels _ _ => "lpg.add_label.after_node_labels"
  | GRCheck _ => "lpg.remove_label.after_check"
  | GRCat _ => "lpg.remove_label.after_label_id"
  | GRLabels _ _ => "lpg.remove_label.after_node_labels"
  | GEAlloc => "lpg.create_edge.after_alloc"
  | GECat => "lpg.create_edge.after_type_id"
  | GEIns _ _ => "lpg.create_edge.after_edges"
  | GEFwd _ _ => "lpg.create_edge.after_forward"
  | GXMark _ => "lpg.delete_edge.after_mark"
  | GXFwd _ => "lpg.delete_edge.after_forward"
  | GXBwd _ => "lpg.delete_edge.after_backward"
  | GNIns | GDProps | GAIdx _ _ | GRIdx _ _ | GEBwd _ _ | GXProps | GAAll _ _ | GRAll _ _ => "?"   (* these steps always return *)
  end.
Definition qsite (k : qk) (jumped : option nat) : string :=
  match k with
  | QIContains _ => "rdf.insert.after_contains"
  | QIPrim _ => "rdf.insert.after_primary"
  | QIS _ => "rdf.insert.after_subject"
  | QIP _ => "rdf.insert.after_predicate"
  | QRPrim _ => "rdf.remove.after_primary"
  | QRS _ => "rdf.remove.after_subject"
  | QRP _ => "rdf.remove.after_predicate"
  | QIO _ | QRO _ | QIAll _ | QRAll _ => "?"
  end.
Definition msite (k : mk) (jumped : option nat) : string :=
  match k with
  | MAlloc => "tm.begin.after_alloc"
  | MLoadEpoch => "tm.begin.after_epoch"
  | MInsert _ | MCommit _ | MAbort _ => "?"
  end.
Definition bsite (k : bk) (jumped : option nat) : string :=
  match k with
  | BReserve _ _ => match jumped with Some _ => "buffer.try_allocate.after_reserve" | None => "buffer.try_allocate.after_first_reserve" end
  | BReserve2 _ _ => "buffer.try_allocate.after_reserve"
  | BZStart _ _ => match jumped with
                   | Some 2%nat => "buffer.try_allocate_raw.after_add"
                   | Some _ => "buffer.release.after_allocated"
                   | None => "buffer.try_allocate_raw.after_first_load"
                   end
  | BZReserve2 _ _ => "buffer.try_allocate_raw.after_add"
  (* pre-repair resize: the sites try_allocate_raw had *)
  | BZStartPre _ _ => match jumped with
                      | Some 2%nat => "buffer.try_allocate_raw.after_check"
                      | Some _ => "buffer.release.after_allocated"
                      | None => "buffer.try_allocate_raw.after_first_load"
                      end
  | BZLoad2 _ _ => "buffer.try_allocate_raw.after_check"
  | BZAdd _ _ => "buffer.try_allocate_raw.after_add"
  | BRelAlloc _ => "buffer.release.after_allocated"
  | BRegion _ _ | BZRegion _ _ | BZSubRegion _ _ | BRelRegion _ => "?"
  (* the pre-repair try_allocate had no hook; the names are those the hook would have had *)
  | BPreLoad _ _ => match jumped with Some _ => "buffer.try_allocate.after_check" | None => "buffer.try_allocate.after_first_load" end
  | BPreLoad2 _ _ => "buffer.try_allocate.after_check"
  | BPreAdd _ _ => "buffer.try_allocate.after_add"
  end.
Definition wsite (k : wk) (jumped : option nat) : string :=
  match k with WEnsure => "wal.log.after_ensure" | WAppend _ => "?" end.
Definition rsite (k : rk) (jumped : option nat) : string :=
  match k with
  | REnsure => "wal.log.after_ensure"
  | RAppend _ => "wal.log.after_append"
  | RSeq => "wal.rotate.after_sequence"
  | RInstall => "?"
  end.
Definition psite (k : pk) (jumped : option nat) : string :=
  match k with
  | PIdx _ _ => "lpg.set_node_property.after_index"
  | PSet _ _ => "lpg.set_node_property.after_set"
  | PCount => "lpg.set_node_property.after_count"
  | PNodes => "?"
  end.
Close Scope string_scope.

(** * Lock footprints.  A lock is identified by its rank: the documented level of
      graph/lpg/store.rs l.137-166 times ten, plus a position inside the level; the other
      subsystems continue the numbering (their locks are never held together with the store's). *)
Definition LK_nodes := 10%nat.        Definition LK_edges := 20%nat.
Definition LK_label_to_id := 30%nat.  Definition LK_id_to_label := 31%nat.
Definition LK_etype_to_id := 40%nat.  Definition LK_id_to_etype := 41%nat.
Definition LK_label_index := 50%nat.  Definition LK_node_labels := 60%nat.
Definition LK_prop_indexes := 70%nat. Definition LK_statistics := 80%nat.
Definition LK_node_props := 90%nat.   Definition LK_edge_props := 91%nat.
Definition LK_fwd := 100%nat.         Definition LK_bwd := 101%nat.
Definition LK_triples := 110%nat.     Definition LK_sidx := 111%nat.
Definition LK_pidx := 112%nat.        Definition LK_oidx := 113%nat.
Definition LK_txs := 120%nat.         Definition LK_committed := 121%nat.
Definition LK_active_log := 130%nat.  Definition LK_last_sync := 131%nat.
Definition LK_consumers := 140%nat.

Definition one (r : nat) (m : lmode) : list lact := [Acq r m; Rel r].
Definition label_cat : list lact :=
  one LK_label_to_id Rd ++ [Acq LK_label_to_id Wr; Acq LK_id_to_label Wr; Rel LK_id_to_label; Rel LK_label_to_id].

Definition glocks (k : gk) : list lact :=
  match k with
  | GNAlloc | GEAlloc => []
  | GNCat _ | GACat _ => label_cat
  | GNIdx _ => one LK_label_index Wr
  | GNLabels _ | GALabels _ _ | GRLabels _ _ => one LK_node_labels Wr
  | GNIns => one LK_nodes Wr
  | GDMark _ => [Acq LK_nodes Wr; Acq LK_label_index Wr; Acq LK_node_labels Wr;
                 Rel LK_nodes; Rel LK_label_index; Rel LK_node_labels]
  | GDPropIdx => one LK_prop_indexes Rd ++ [Acq LK_prop_indexes Rd; Acq LK_node_props Rd; Rel LK_node_props; Rel LK_prop_indexes]
  | GDProps => one LK_node_props Wr
  (* after the repair: nodes.write() first and held; then the catalog, label_index, node_labels *)
  | GAAll _ _ => [Acq LK_nodes Wr] ++ label_cat ++
                 [Acq LK_label_index Wr; Acq LK_node_labels Wr; Rel LK_node_labels; Rel LK_label_index; Rel LK_nodes]
  | GRAll _ _ => [Acq LK_nodes Wr] ++ one LK_label_to_id Rd ++
                 [Acq LK_label_index Wr; Acq LK_node_labels Wr; Rel LK_node_labels; Rel LK_label_index; Rel LK_nodes]
  | GACheck _ | GRCheck _ => one LK_nodes Rd
  (* add_label / remove_label keep label_index.write() while they take nodes.write() and node_labels.read() *)
  | GAIdx _ _ | GRIdx _ _ => [Acq LK_label_index Wr; Acq LK_nodes Wr; Acq LK_node_labels Rd;
                              Rel LK_node_labels; Rel LK_nodes; Rel LK_label_index]
  | GRCat _ => one LK_label_to_id Rd
  | GECat => one LK_etype_to_id Rd ++ [Acq LK_etype_to_id Wr; Acq LK_id_to_etype Wr; Rel LK_id_to_etype; Rel LK_etype_to_id]
  | GEIns _ _ | GXMark _ => one LK_edges Wr
  | GEFwd _ _ | GXFwd _ => one LK_fwd Wr
  | GEBwd _ _ | GXBwd _ => one LK_bwd Wr
  | GXProps => one LK_edge_props Wr
  end.
Definition qlocks (k : qk) : list lact :=
  match k with
  | QIContains _ => one LK_triples Rd
  | QIPrim _ | QRPrim _ => one LK_triples Wr
  | QIS _ | QRS _ => one LK_sidx Wr
  | QIP _ | QRP _ => one LK_pidx Wr
  | QIO _ | QRO _ => one LK_oidx Wr
  | QIAll _ | QRAll _ => [Acq LK_triples Wr] ++ one LK_sidx Wr ++ one LK_pidx Wr ++ one LK_oidx Wr ++ [Rel LK_triples]
  end.
Definition mlocks (k : mk) : list lact :=
  match k with
  | MAlloc | MLoadEpoch => []
  | MInsert _ | MAbort _ => one LK_txs Wr
  | MCommit _ => [Acq LK_txs Wr; Acq LK_committed Rd; Rel LK_committed; Acq LK_committed Wr; Rel LK_committed; Rel LK_txs]
  end.
Definition blocks (k : bk) : list lact :=
  match k with
  | BReserve2 _ _ | BPreLoad2 _ _ | BZLoad2 _ _ | BZReserve2 _ _ => one LK_consumers Rd
  | _ => []
  end.
Definition wlocks (k : wk) : list lact :=
  match k with
  | WEnsure => one LK_active_log Wr
  | WAppend _ => [Acq LK_active_log Wr; Acq LK_last_sync Wr; Rel LK_last_sync; Rel LK_active_log]
  end.

Definition gtrace (op : gop) : list lact := flat_map glocks (gcode op).
Definition qtrace (op : qop) : list lact := flat_map qlocks (qcode op).
Definition gtrace_pre (op : gop_pre) : list lact := flat_map glocks (gcode_pre op).
Definition qtrace_pre (op : qop_pre) : list lact := flat_map qlocks (qcode_pre op).
Definition mtrace (op : mop) : list lact := flat_map mlocks (mcode op).
Definition btrace (op : bop) : list lact := flat_map blocks (bcode op).
Definition wtrace (op : wop) : list lact := flat_map wlocks (wcode op).

(** readers and maintenance calls that take part in the hammer runs (lock traces only) *)
Definition tr_get_node : list lact :=
  [Acq LK_nodes Rd; Acq LK_id_to_label Rd; Acq LK_node_labels Rd; Rel LK_node_labels; Rel LK_id_to_label; Rel LK_nodes].
Definition tr_get_edge : list lact := [Acq LK_edges Rd; Acq LK_id_to_etype Rd; Rel LK_id_to_etype; Rel LK_edges].
Definition tr_nodes_by_label : list lact := [Acq LK_label_to_id Rd; Acq LK_label_index Rd; Rel LK_label_index; Rel LK_label_to_id].
Definition tr_edges_from : list lact := one LK_fwd Rd ++ one LK_bwd Rd.
Definition tr_set_node_property : list lact :=
  [Acq LK_prop_indexes Rd; Acq LK_node_props Rd; Rel LK_node_props; Rel LK_prop_indexes]
  ++ one LK_node_props Wr ++ one LK_node_props Rd ++ one LK_nodes Wr.
Definition tr_tm_gc : list lact := [Acq LK_txs Wr; Acq LK_committed Wr; Rel LK_committed; Rel LK_txs].
(* compute_statistics keeps id_to_label and label_index while it takes id_to_edge_type and edges *)
Definition tr_compute_statistics : list lact :=
  one LK_nodes Rd ++ one LK_edges Rd ++
  [Acq LK_id_to_label Rd; Acq LK_label_index Rd; Acq LK_id_to_etype Rd; Acq LK_edges Rd; Acq LK_statistics Wr;
   Rel LK_statistics; Rel LK_edges; Rel LK_id_to_etype; Rel LK_label_index; Rel LK_id_to_label].

(** the finite table of transcribed operations (the domain of [ops_respect_rank]) *)
Definition op_table : list (string * list lact) :=
  [ ("create_node 0 labels", gtrace (GCreateNode []));
    ("create_node 2 labels", gtrace (GCreateNode [1; 2]));
    ("delete_node", gtrace (GDeleteNode 0));
    ("add_label", gtrace (GAddLabel 0 1));
    ("remove_label", gtrace (GRemoveLabel 0 1));
    ("create_edge", gtrace (GCreateEdge 0 1));
    ("delete_edge", gtrace (GDeleteEdge 0));
    ("rdf insert", qtrace (QInsert 0));
    ("rdf remove", qtrace (QRemove 0));
    ("rdf insert (pre-repair)", qtrace_pre (QInsertPre 0));
    ("rdf remove (pre-repair)", qtrace_pre (QRemovePre 0));
    ("tm begin", mtrace (MBegin 0));
    ("tm commit", mtrace (MCommitOp 0));
    ("tm abort", mtrace (MAbortOp 0));
    ("tm gc", tr_tm_gc);
    ("buffer try_allocate", btrace (BAlloc 0 1));
    ("buffer try_allocate (pre-repair)", btrace (BAllocPre 0 1));
    ("grant resize", btrace (BResize 0 1));
    ("grant resize (pre-repair)", btrace (BResizePre 0 1));
    ("grant drop", btrace (BRelease 0));
    ("wal log", wtrace (WLog 0));
    ("get_node", tr_get_node);
    ("get_edge", tr_get_edge);
    ("nodes_by_label", tr_nodes_by_label);
    ("edges_from", tr_edges_from);
    ("set_node_property", tr_set_node_property) ]%string.

(** the transcribed operations that do NOT follow the documented order *)
Definition rank_violators : list (string * list lact) :=
  [ ("add_label (pre-repair)", gtrace_pre (PAddLabel 0 1));
    ("remove_label (pre-repair)", gtrace_pre (PRemoveLabel 0 1));
    ("compute_statistics", tr_compute_statistics) ]%string.
