(** C20 — lock discipline of the transcribed operations, the label/delete findings, and the
    write-ahead log. *)
From Coq Require Import String ZArith List Bool Lia Arith.
From GV Require Import Conc.Ops Conc.ProofsSem.
Import ListNotations.
Open Scope Z_scope.

(** * the finite table of transcribed operations respects the documented rank order *)
Lemma ops_respect_rank_l : forallb (fun e => disciplined (snd e)) op_table = true.
Proof. vm_compute. reflexivity. Qed.

(** ... except add_label, remove_label and compute_statistics *)
Lemma rank_violators_refuted_l : forallb (fun e => negb (disciplined (snd e))) rank_violators = true.
Proof. vm_compute. reflexivity. Qed.

(** concatenation: a thread that runs one disciplined operation after another is disciplined *)
Lemma disciplined_concat : forall a b, disciplined a = true -> disciplined b = true -> disciplined (a ++ b) = true.
Proof.
  unfold disciplined. intros a.
  assert (G : forall h b, disciplined_from h a = true -> disciplined_from [] b = true -> disciplined_from h (a ++ b) = true).
  { induction a as [|x a IH]; simpl; intros h b Ha Hb.
    - destruct h; [auto|discriminate].
    - destruct x as [r m|r]; apply andb_true_iff in Ha; destruct Ha as [H1 H2]; apply andb_true_iff; split; auto; apply IH; auto. }
  intros. apply G; auto.
Qed.

Lemma disciplined_concat_all : forall ops, Forall (fun a => disciplined a = true) ops -> disciplined (concat ops) = true.
Proof.
  induction 1; simpl; [reflexivity|]. apply disciplined_concat; auto.
Qed.

Definition table_traces : list (list lact) := map snd op_table.

Lemma table_no_deadlock_l : forall (progs : list (list (list lact))) sched,
  Forall (Forall (fun a => In a table_traces)) progs ->
  lstuck (lrun sched (linit (map (@concat lact) progs))) = false.
Proof.
  intros progs sched H. apply lstuck_false. apply rank_order_no_deadlock_l.
  apply Forall_forall. intros p Hp. apply in_map_iff in Hp. destruct Hp as (ops & <- & Hops).
  apply disciplined_concat_all. rewrite Forall_forall in H. specialize (H _ Hops).
  apply Forall_forall. intros a Ha. rewrite Forall_forall in H. specialize (H _ Ha).
  pose proof ops_respect_rank_l as T. rewrite forallb_forall in T.
  unfold table_traces in H. apply in_map_iff in H. destruct H as (e & <- & He). apply T. auto.
Qed.

(** * findings *)

(** BEFORE the repair of C20-K7: add_label ∥ delete_node could block each other for ever (lock level) ... *)
Lemma label_delete_deadlock_pre_refuted_l :
  exists sched,
    lstuck (lrun sched (linit [gtrace_pre (PAddLabel 0 1); gtrace_pre (PDeleteNode 0)])) = true.
Proof.
  (* thread 0 runs add_label up to label_index.write(); thread 1 takes nodes.write() *)
  exists [0; 0; 0; 0; 0; 0; 0; 0; 0; 0; 0; 1]%nat. vm_compute. reflexivity.
Qed.

(** ... and, when they do not, leave the deleted node in the label index (step level) *)
Definition g_one_node : lpg := sh (grun (repeat 0%nat 6) (ginit lpg0 [[GCreateNode [1]]])).

Lemma label_torn_pre_refuted_l :
  exists progs sched, progs = [[PAddLabel 0 2]; [PDeleteNode 0]] /\ sched = [0; 1; 1; 1; 0; 0; 0]%nat /\
    k_label progs = true /\
    let c := grun_pre sched (ginit_pre g_one_node progs) in
    finished c = true /\ node_live (sh c) 0 = false /\ zmem 0 (by_label (sh c) 2) = true.
Proof. eexists; eexists. vm_compute. repeat split; reflexivity. Qed.

Lemma label_addrem_torn_pre_refuted_l :
  exists progs sched, progs = [[PAddLabel 0 2]; [PRemoveLabel 0 2]] /\ sched = [0; 0; 0; 1; 1; 1; 1; 0]%nat /\
    k_label progs = true /\
    let c := grun_pre sched (ginit_pre g_one_node progs) in
    finished c = true /\ outputs c = [[(PAddLabel 0 2, OB true)]; [(PRemoveLabel 0 2, OB true)]] /\
    zmem 2 (labels_of (sh c) 0) = false /\ zmem 0 (by_label (sh c) 2) = true.
Proof. eexists; eexists. vm_compute. repeat split; reflexivity. Qed.

(** create_edge ∥ delete_edge of the edge being created: the edge map already shows the new edge,
    the deleter finds no adjacency list for the source yet (mark_deleted is a no-op), and the
    creator then adds the deleted edge to both adjacency lists *)
Definition g_three_nodes : lpg :=
  sh (grun (repeat 0%nat 40) (ginit lpg0 [[GCreateNode [1]; GCreateNode [1; 2]; GCreateNode []; GCreateEdge 0 1; GCreateEdge 1 2]])).
Lemma edge_torn_refuted_l :
  exists progs sched, progs = [[GCreateEdge 2 0]; [GDeleteEdge 2]] /\ sched = [0; 0; 0; 1; 1; 1; 1; 0; 0]%nat /\
    k_edge_torn (g_next_edge g_three_nodes) progs = true /\
    let c := grun sched (ginit g_three_nodes progs) in
    finished c = true /\ outputs c = [[(GCreateEdge 2 0, OZ 2)]; [(GDeleteEdge 2, OB true)]] /\
    In (2, 0, 2) (adj_visible (g_fwd (sh c)) (g_fwd_del (sh c))) /\
    In (0, 2, 2) (adj_visible (g_bwd (sh c)) (g_bwd_del (sh c))) /\
    ~ In 2 (map (fun x => fst (fst x)) (live_edges (sh c))).
Proof.
  eexists; eexists. split; [reflexivity|]. split; [reflexivity|]. split; [vm_compute; reflexivity|].
  vm_compute. repeat split; try reflexivity; try tauto. intros [H|[H|H]]; try discriminate; auto.
Qed.

Lemma prop_index_torn_refuted_l :
  exists progs sched, progs = [[PSetProp 0 1]; [PSetProp 0 2]] /\ sched = [0; 1; 0; 0; 0; 1; 1; 1]%nat /\
    k_prop progs = true /\
    let c := prun sched (pinit progs) in
    finished c = true /\ aget 0 (p_props (sh c)) = Some 2 /\ pmem (1, 0) (p_idx (sh c)) = true /\
    pidx_consistent (sh c) = false.
Proof. eexists; eexists. vm_compute. repeat split; reflexivity. Qed.

(** concurrent rotations make the active file go back to a lower sequence number: a record
    appended later is recovered before one appended earlier by the same thread *)
Lemma wal_rotation_order_refuted_l :
  exists progs sched, progs = [[RLog 1]; [RLog 11; RLog 12; RLog 13]] /\
    sched = [0; 0; 0; 1; 1; 1; 1; 1; 1; 1; 1; 0; 1; 1; 1; 1]%nat /\ k_wal_rotation progs = true /\
    let c := rrun sched (rinit progs) in
    finished c = true /\ recovered (sh c) = [1; 11; 13; 12].
Proof. eexists; eexists. vm_compute. repeat split; reflexivity. Qed.

(** * write-ahead log: one append per acknowledged call, per-thread order preserved *)
Notation wthread := (@thread regs wop out).
Definition logged (o : list (wop * out)) : list Z := map (fun x => match fst x with WLog r => r end) o.

Inductive subseq : list Z -> list Z -> Prop :=
| ss_nil : forall l, subseq [] l
| ss_skip : forall a l x, subseq a l -> subseq a (x :: l)
| ss_take : forall a l x, subseq a l -> subseq (x :: a) (x :: l).

Record wal_inv (c : wcfg) : Prop := {
  wi_sub : forall th, In th (pool c) -> subseq (logged (t_out th)) (w_log (sh c));
  wi_len : Z.of_nat (length (flat_map (fun th => logged (t_out th)) (pool c))) = w_count (sh c);
  wi_cnt : Z.of_nat (length (w_log (sh c))) = w_count (sh c)
}.

Lemma w_t_out_load : forall (l : regs) todo (o : list (wop * out)), t_out (load l todo o) = o.
Proof. intros. destruct todo; reflexivity. Qed.

Lemma wstep_effect : forall s th s' th', step_thread wcode wexec s th = (s', th') ->
  (s' = s /\ t_out th' = t_out th) \/
  (exists r, s' = mkWal (r :: w_log s) (w_count s + 1) /\ logged (t_out th') = r :: logged (t_out th)).
Proof.
  intros s [top tl ttodo tout] s' th' H. unfold step_thread in H. simpl in H.
  destruct top as [[[r] pc]|]; [|inversion H; auto].
  destruct pc as [|[|pc]]; simpl in H.
  - inversion H; subst. auto.
  - inversion H; subst. right. exists r. rewrite w_t_out_load. auto.
  - destruct pc; simpl in H; inversion H; auto.
Qed.

Lemma wal_inv_step : forall c i, wal_inv c -> wal_inv (step wcode wexec c i).
Proof.
  intros c i [Hs Hl Hc].
  destruct (nth_error (pool c) i) as [th|] eqn:E; [|rewrite step_none; auto; constructor; auto].
  rewrite (step_unfold _ _ _ _ _ wcode wexec c i th E).
  destruct (step_thread wcode wexec (sh c) th) as [s' th'] eqn:ST. simpl.
  pose proof (nth_error_In _ _ E) as Hin.
  set (f := fun th : wthread => logged (t_out th)) in *.
  destruct (wstep_effect _ _ _ _ ST) as [[-> Eo]|(r & -> & Eo)].
  - constructor; simpl; auto.
    + intros th0 H0. apply In_upd_nth in H0. destruct H0 as [->|H0]; auto. rewrite Eo. auto.
    + rewrite (flat_map_upd_same _ _ f _ _ _ _ E); auto. unfold f. rewrite Eo. auto.
  - constructor; simpl.
    + intros th0 H0. apply In_upd_nth in H0. destruct H0 as [->|H0].
      * rewrite Eo. apply ss_take. auto.
      * apply ss_skip. auto.
    + fold f. rewrite (Permutation.Permutation_length (flat_map_upd_cons _ _ f _ _ _ r _ E Eo)). simpl length. fold f in Hl. lia.
    + lia.
Qed.

Lemma wal_inv_init : forall progs, wal_inv (winit progs).
Proof.
  intros. constructor; simpl.
  - intros th Hth. apply in_map_iff in Hth. destruct Hth as (p & <- & _). rewrite w_t_out_load. constructor.
  - induction progs; simpl; auto. rewrite w_t_out_load. simpl. auto.
  - reflexivity.
Qed.

Lemma wal_log_complete_l : forall progs sched,
  let c := wrun sched (winit progs) in
  (forall th, In th (pool c) -> subseq (logged (t_out th)) (w_log (sh c))) /\
  length (w_log (sh c)) = length (flat_map (fun th => logged (t_out th)) (pool c)).
Proof.
  intros progs sched c.
  assert (I : wal_inv c).
  { apply (run_inv _ _ _ _ _ wcode wexec wal_inv); [intros; apply wal_inv_step; auto|apply wal_inv_init]. }
  destruct I as [Hs Hl Hc]. split; auto. lia.
Qed.
