(** C20 — generic lemmas about the thread-pool semantics and the rank-order deadlock theorem. *)
From Coq Require Import ZArith List Bool Lia Permutation Arith.

From GV Require Import Conc.Sem.
Import ListNotations.

(** * upd_nth *)
Lemma upd_nth_length : forall A i (x : A) l, length (upd_nth i x l) = length l.
Proof. induction i; destruct l; simpl; auto. Qed.

Lemma nth_upd_same : forall A i (x : A) l, (i < length l)%nat -> nth_error (upd_nth i x l) i = Some x.
Proof. induction i; destruct l; simpl; intros; try lia; auto. apply IHi. lia. Qed.

Lemma nth_upd_other : forall A i j (x : A) l, i <> j -> nth_error (upd_nth i x l) j = nth_error l j.
Proof.
  induction i; destruct l; destruct j; simpl; intros; try congruence; auto.
Qed.

Lemma nth_error_lt : forall A (l : list A) i x, nth_error l i = Some x -> (i < length l)%nat.
Proof. intros. apply nth_error_Some. congruence. Qed.

Lemma upd_nth_split : forall A i (x a : A) l, nth_error l i = Some a ->
  exists l1 l2, l = l1 ++ a :: l2 /\ upd_nth i x l = l1 ++ x :: l2 /\ length l1 = i.
Proof.
  induction i; destruct l; simpl; intros; try discriminate.
  - inversion H; subst. exists [], l. auto.
  - destruct (IHi x a l H) as (l1 & l2 & E1 & E2 & E3).
    exists (a0 :: l1), l2. simpl. rewrite E1 at 1. rewrite E2. auto.
Qed.

Lemma Forall_upd_nth : forall A (P : A -> Prop) i x l, Forall P l -> P x -> Forall P (upd_nth i x l).
Proof.
  induction i; destruct l; simpl; intros; auto; inversion H; subst; constructor; auto.
Qed.

Lemma Forall_nth_error : forall A (P : A -> Prop) l i x, Forall P l -> nth_error l i = Some x -> P x.
Proof. intros. rewrite Forall_forall in H. apply H. eapply nth_error_In; eauto. Qed.

Lemma In_upd_nth : forall A i (x y : A) l, In y (upd_nth i x l) -> y = x \/ In y l.
Proof.
  induction i; destruct l; simpl; intros; auto.
  - destruct H; auto.
  - destruct H; auto. destruct (IHi _ _ _ H); auto.
Qed.

(** flat_map over a pool in which one thread changed *)
Lemma flat_map_upd_same : forall A B (f : A -> list B) i a x l,
  nth_error l i = Some a -> f x = f a -> flat_map f (upd_nth i x l) = flat_map f l.
Proof.
  intros. destruct (upd_nth_split _ i x a l H) as (l1 & l2 & E1 & E2 & _).
  rewrite E2, E1. rewrite !flat_map_app. simpl. congruence.
Qed.

Lemma flat_map_upd_cons : forall A B (f : A -> list B) i a x z l,
  nth_error l i = Some a -> f x = z :: f a -> Permutation (flat_map f (upd_nth i x l)) (z :: flat_map f l).
Proof.
  intros. destruct (upd_nth_split _ i x a l H) as (l1 & l2 & E1 & E2 & _).
  rewrite E2, E1. rewrite !flat_map_app. simpl. rewrite H0. simpl.
  symmetry. apply Permutation_middle.
Qed.

Lemma flat_map_upd_perm : forall A B (f : A -> list B) i a x l,
  nth_error l i = Some a -> Permutation (f x) (f a) -> Permutation (flat_map f (upd_nth i x l)) (flat_map f l).
Proof.
  intros. destruct (upd_nth_split _ i x a l H) as (l1 & l2 & E1 & E2 & _).
  rewrite E2, E1. rewrite !flat_map_app. simpl.
  apply Permutation_app_head. apply Permutation_app_tail. auto.
Qed.

(** NoDup of concatenations *)
Lemma nodup_app_iff : forall (a b : list Z), NoDup (a ++ b) <-> NoDup a /\ NoDup b /\ (forall x, In x a -> ~ In x b).
Proof.
  induction a; simpl; intros.
  - split; [intros; repeat split; auto; constructor | tauto].
  - split.
    + intros H. inversion H; subst. apply IHa in H3. destruct H3 as (Ha & Hb & Hd).
      repeat split; auto.
      * constructor; auto. intro. apply H2. apply in_or_app. auto.
      * intros x [->|Hx]; auto. intro. apply H2. apply in_or_app. auto.
    + intros (Ha & Hb & Hd). inversion Ha; subst. constructor.
      * intro Hi. apply in_app_or in Hi. destruct Hi; auto. apply (Hd a); auto.
      * apply IHa. repeat split; auto.
Qed.

Lemma nodup_flat_map_suffix : forall A (p g : A -> list Z) l,
  NoDup (flat_map (fun a => p a ++ g a) l) -> NoDup (flat_map g l).
Proof.
  induction l; simpl; intros H; [constructor|].
  rewrite <- app_assoc in H. apply nodup_app_iff in H. destruct H as (_ & H & _).
  apply nodup_app_iff in H. destruct H as (Hg & Hr & Hd).
  apply nodup_app_iff. repeat split; auto.
  intros x Hx Hi. apply (Hd x Hx).
  apply in_flat_map in Hi. destruct Hi as (b & Hb & Hxb).
  apply in_flat_map. exists b. split; auto. apply in_or_app. auto.
Qed.

(** sums over a pool *)
Definition zsum {A} (f : A -> Z) (l : list A) : Z := fold_right (fun a acc => (f a + acc)%Z) 0%Z l.
Lemma zsum_app : forall A (f : A -> Z) l1 l2, zsum f (l1 ++ l2) = (zsum f l1 + zsum f l2)%Z.
Proof. induction l1; simpl; intros; auto. rewrite IHl1. lia. Qed.
Lemma zsum_upd : forall A (f : A -> Z) i a x l,
  nth_error l i = Some a -> zsum f (upd_nth i x l) = (zsum f l - f a + f x)%Z.
Proof.
  intros. destruct (upd_nth_split _ i x a l H) as (l1 & l2 & E1 & E2 & _).
  rewrite E2, E1. rewrite !zsum_app. simpl. lia.
Qed.
Lemma zsum_zero : forall A (f : A -> Z) l, Forall (fun a => f a = 0%Z) l -> zsum f l = 0%Z.
Proof. induction 1; simpl; auto. lia. Qed.

(** * invariants along a schedule *)
Section Inv.
  Variables (St L K Op Out : Type).
  Variable code : Op -> list K.
  Variable exec : K -> St -> L -> St * L * ctl Out.
  Notation config := (@config St L Op Out).
  Variable I : config -> Prop.
  Hypothesis I_step : forall c i, I c -> I (step code exec c i).

  Lemma run_inv : forall sched c, I c -> I (run code exec sched c).
  Proof. induction sched; simpl; intros; auto. Qed.

  (** every prefix of the schedule leads to a configuration satisfying the invariant *)
  Lemma run_inv_prefix : forall sched c, I c -> forall n, I (run code exec (firstn n sched) c).
  Proof. intros. apply run_inv. auto. Qed.
End Inv.

Section StepFacts.
  Variables (St L K Op Out : Type).
  Variable code : Op -> list K.
  Variable exec : K -> St -> L -> St * L * ctl Out.

  Lemma step_unfold : forall (c : @config St L Op Out) i th,
    nth_error (pool c) i = Some th ->
    step code exec c i = mkCfg (fst (step_thread code exec (sh c) th)) (upd_nth i (snd (step_thread code exec (sh c) th)) (pool c)).
  Proof. intros. unfold step. rewrite H. destruct (step_thread code exec (sh c) th). reflexivity. Qed.

  Lemma step_none : forall (c : @config St L Op Out) i, nth_error (pool c) i = None -> step code exec c i = c.
  Proof. intros. unfold step. rewrite H. reflexivity. Qed.

  Lemma step_length : forall (c : @config St L Op Out) i, length (pool (step code exec c i)) = length (pool c).
  Proof.
    intros. unfold step. destruct (nth_error (pool c) i); auto.
    destruct (step_thread code exec (sh c) t). simpl. apply upd_nth_length.
  Qed.
End StepFacts.

(** * Rank order excludes deadlock *)

Definition lt_inv (th : lthread) : Prop := disciplined_from (held th) (rest th) = true.

Lemma linit_inv : forall progs, Forall (fun p => disciplined p = true) progs -> Forall lt_inv (linit progs).
Proof.
  induction 1; simpl; constructor; auto.
Qed.

Lemma lstep_inv : forall ths i, Forall lt_inv ths -> Forall lt_inv (lstep ths i).
Proof.
  intros ths i H. unfold lstep. destruct (nth_error ths i) as [th|] eqn:E; auto.
  pose proof (Forall_nth_error _ _ _ _ _ H E) as Hth. unfold lt_inv in Hth.
  destruct (rest th) as [|a t] eqn:R; auto. destruct a as [r m|r].
  - destruct (lock_free ths r m); auto. apply Forall_upd_nth; auto.
    unfold lt_inv. simpl. simpl in Hth. apply andb_true_iff in Hth. tauto.
  - apply Forall_upd_nth; auto. unfold lt_inv. simpl. simpl in Hth. apply andb_true_iff in Hth. tauto.
Qed.

Lemma lrun_inv : forall sched ths, Forall lt_inv ths -> Forall lt_inv (lrun sched ths).
Proof. induction sched; simpl; intros; auto. apply IHsched. apply lstep_inv. auto. Qed.

Definition all_held (ths : list lthread) : list nat := flat_map (fun th => map fst (held th)) ths.

Lemma list_max_in : forall l, l <> [] -> In (list_max l) l.
Proof.
  induction l; intros; [congruence|]. simpl. destruct l.
  - simpl. left. lia.
  - destruct (Nat.max_spec a (list_max (n :: l))) as [[_ E]|[_ E]]; rewrite E.
    + right. apply IHl. congruence.
    + left. auto.
Qed.

Lemma list_max_ge : forall l x, In x l -> (x <= list_max l)%nat.
Proof.
  intros. pose proof (proj1 (list_max_le l (list_max l)) (Nat.le_refl _)) as F.
  rewrite Forall_forall in F. auto.
Qed.

Lemma disciplined_nil_held : forall h, disciplined_from h [] = true -> h = [].
Proof. destruct h; simpl; auto; discriminate. Qed.

Lemma lock_free_above : forall ths r m, (forall x, In x (all_held ths) -> (x < r)%nat) -> lock_free ths r m = true.
Proof.
  intros. unfold lock_free. apply forallb_forall. intros th Hth.
  apply negb_true_iff. apply not_true_is_false. intro E.
  apply existsb_exists in E. destruct E as (h & Hh & C).
  unfold conflicts in C. apply andb_true_iff in C. destruct C as [C _].
  apply Nat.eqb_eq in C.
  assert (In (fst h) (all_held ths)).
  { unfold all_held. apply in_flat_map. exists th. split; auto. apply in_map. auto. }
  apply H in H0. lia.
Qed.

Lemma lenabled_exists : forall ths i, lenabled ths i = true -> (i < length ths)%nat.
Proof.
  unfold lenabled. intros. destruct (nth_error ths i) eqn:E; try discriminate.
  eapply nth_error_lt; eauto.
Qed.

(** progress: a configuration of disciplined threads is finished or has an enabled thread *)
Lemma disciplined_progress : forall ths, Forall lt_inv ths ->
  ldone ths = true \/ exists i, lenabled ths i = true.
Proof.
  intros ths H.
  destruct (all_held ths) as [|h0 hs] eqn:AH.
  - (* nobody holds a lock *)
    destruct (ldone ths) eqn:D; auto. right.
    unfold ldone in D.
    assert (exists th, In th ths /\ rest th <> []) as (th & Hin & Hr).
    { clear - D. induction ths; simpl in *; try discriminate.
      destruct (rest a) eqn:R.
      - simpl in D. destruct (IHths D) as (th & ? & ?). exists th; auto.
      - exists a. split; auto. congruence. }
    destruct (In_nth_error _ _ Hin) as (i & Ei). exists i.
    unfold lenabled. rewrite Ei.
    destruct (rest th) as [|a t] eqn:R; [congruence|]. destruct a; auto.
    apply lock_free_above. rewrite AH. simpl. tauto.
  - (* take a thread holding the highest-ranked held lock *)
    right.
    assert (NE : all_held ths <> []) by (rewrite AH; discriminate).
    pose proof (list_max_in _ NE) as Mi. set (m := list_max (all_held ths)) in *.
    unfold all_held in Mi. apply in_flat_map in Mi. destruct Mi as (th & Hin & Hm).
    destruct (In_nth_error _ _ Hin) as (i & Ei). exists i.
    pose proof (Forall_nth_error _ _ _ _ _ H Ei) as Hth. unfold lt_inv in Hth.
    unfold lenabled. rewrite Ei.
    destruct (rest th) as [|a t] eqn:R.
    + apply disciplined_nil_held in Hth. rewrite Hth in Hm. simpl in Hm. tauto.
    + destruct a as [r md|r]; auto.
      simpl in Hth. apply andb_true_iff in Hth. destruct Hth as [Hlt _].
      apply lock_free_above. intros x Hx.
      apply list_max_ge in Hx. fold m in Hx.
      rewrite forallb_forall in Hlt.
      apply in_map_iff in Hm. destruct Hm as (hm & Em & Hhm).
      specialize (Hlt _ Hhm). apply Nat.ltb_lt in Hlt. lia.
Qed.

Lemma rank_order_no_deadlock_l : forall progs sched,
  Forall (fun p => disciplined p = true) progs ->
  let ths := lrun sched (linit progs) in
  ldone ths = true \/ exists i, lenabled ths i = true.
Proof.
  intros. apply disciplined_progress. apply lrun_inv. apply linit_inv. auto.
Qed.

Lemma lstuck_false : forall ths, (ldone ths = true \/ exists i, lenabled ths i = true) -> lstuck ths = false.
Proof.
  intros ths [D|(i & E)]; unfold lstuck.
  - rewrite D. reflexivity.
  - apply andb_false_iff. right. apply negb_false_iff. apply existsb_exists.
    exists i. split; auto. apply in_seq. pose proof (lenabled_exists _ _ E). lia.
Qed.

(** * straight-line execution of one operation *)
Section Straight.
  Variables (St L K Op Out : Type).
  Variable code : Op -> list K.
  Variable exec : K -> St -> L -> St * L * ctl Out.

  Fixpoint run_steps (ks : list K) (s : St) (l : L) : St * L * option Out :=
    match ks with
    | [] => (s, l, None)
    | k :: r => match exec k s l with
                | (s', l', Next) => run_steps r s' l'
                | (s', l', Goto _) => (s', l', None)
                | (s', l', Ret o) => (s', l', Some o)
                end
    end.

  Hypothesis no_goto : forall k s l s' l' p, exec k s l = (s', l', Goto p) -> False.

  Lemma skipn_nth_none : forall A (l : list A) n, nth_error l n = None -> skipn n l = [].
  Proof. induction l; destruct n; simpl; intros; auto; discriminate. Qed.
  Lemma skipn_nth_some : forall A (l : list A) n x, nth_error l n = Some x -> skipn n l = x :: skipn (S n) l.
  Proof. induction l; destruct n; simpl; intros; try discriminate. inversion H; auto. apply IHl; auto. Qed.

  Lemma exec_op_steps : forall fuel op pc s l,
    (length (skipn pc (code op)) <= fuel)%nat ->
    exec_op code exec fuel op pc s l = run_steps (skipn pc (code op)) s l.
  Proof.
    induction fuel; intros op pc s l Hl.
    - destruct (skipn pc (code op)) eqn:E; simpl in Hl; [|lia]. reflexivity.
    - simpl. destruct (nth_error (code op) pc) as [k|] eqn:E.
      + rewrite (skipn_nth_some _ _ _ _ E) in *. cbn [run_steps]. cbn [length] in Hl.
        destruct (exec k s l) as [[s' l'] [|p|o]] eqn:X; auto.
        * apply IHfuel. lia.
        * exfalso. eapply no_goto; eauto.
      + rewrite (skipn_nth_none _ _ _ E). reflexivity.
  Qed.

  Lemma run_steps_app_next : forall a b s l s' l',
    run_steps a s l = (s', l', None) -> (forall k, In k a -> forall s l, snd (exec k s l) = Next) ->
    run_steps (a ++ b) s l = run_steps b s' l'.
  Proof.
    induction a; simpl; intros.
    - inversion H; auto.
    - pose proof (H0 a (or_introl eq_refl) s l) as N.
      destruct (exec a s l) as [[s1 l1] c]. simpl in N. subst c.
      apply IHa; auto.
  Qed.
End Straight.

(** threads never lose or reorder their operations *)
Section Progress.
  Variables (St L K Op Out : Type).
  Variable code : Op -> list K.
  Variable exec : K -> St -> L -> St * L * ctl Out.
  Definition cur_ops (th : @thread L Op Out) : list Op := match t_op th with Some (op, _) => [op] | None => [] end.
  Definition whole (th : @thread L Op Out) : list Op := rev (map fst (t_out th)) ++ cur_ops th ++ t_todo th.

  Lemma whole_load : forall l todo o, whole (load l todo o) = rev (map fst o) ++ todo.
  Proof. intros. destruct todo; unfold whole, cur_ops; simpl; auto. Qed.

  Lemma whole_step : forall s th s' th', step_thread code exec s th = (s', th') -> whole th' = whole th.
  Proof.
    intros s [top tl ttodo tout] s' th' H. unfold step_thread in H. simpl in H.
    destruct top as [[op pc]|]; [|inversion H; auto].
    destruct (nth_error (code op) pc); [|inversion H; auto].
    destruct (exec k s tl) as [[s1 l1] [|p|o]]; inversion H; subst; auto.
    rewrite whole_load. unfold whole, cur_ops. simpl. rewrite <- app_assoc. reflexivity.
  Qed.

  Lemma whole_run : forall sched (c : @config St L Op Out),
    map whole (pool (run code exec sched c)) = map whole (pool c).
  Proof.
    induction sched; simpl; intros; auto. rewrite IHsched. clear IHsched.
    destruct (nth_error (pool c) a) as [th|] eqn:E; [|rewrite step_none; auto].
    rewrite (step_unfold _ _ _ _ _ code exec c a th E).
    destruct (step_thread code exec (sh c) th) as [s' th'] eqn:ST. simpl.
    pose proof (whole_step _ _ _ _ ST) as W.
    destruct (upd_nth_split _ a th' th (pool c) E) as (l1 & l2 & P1 & P2 & _).
    rewrite P2, P1. rewrite !map_app. simpl. congruence.
  Qed.

  Lemma whole_init : forall (s0 : St) (l0 : L) (progs : list (list Op)),
    map whole (pool (@init St L Op Out s0 l0 progs)) = progs.
  Proof.
    intros. unfold init. simpl. induction progs; simpl; auto. rewrite whole_load. simpl. congruence.
  Qed.
End Progress.
Arguments run_steps {St L K Out}.
Arguments whole {L Op Out}.
Arguments cur_ops {L Op Out}.
