(** C20 — triple store (after the repair of C20-K1: insert and remove keep triples.write() while the
    three indexes are updated, so each update of the four structures is one atomic step): the three
    indexes agree with the primary set in EVERY reachable configuration, for every number of
    threads, every program and every schedule.  The pre-repair step lists, their torn schedule and
    the theorem for the complement of its class are in ProofsRdfPre.v. *)
From Coq Require Import ZArith List Bool Lia Permutation Arith.
From GV Require Import Conc.Ops Conc.ProofsSem.
Import ListNotations.
Open Scope Z_scope.

(** * small facts about the list functions *)
Lemma zmem_cons : forall t a l, zmem t (a :: l) = (t =? a) || zmem t l.
Proof. reflexivity. Qed.
Lemma zmem_zrem_same : forall t l, zmem t (zrem t l) = false.
Proof.
  induction l; simpl; auto. destruct (a =? t) eqn:E; simpl; auto.
  rewrite Z.eqb_sym, E. simpl. auto.
Qed.
Lemma zmem_zrem_other : forall t u l, t <> u -> zmem t (zrem u l) = zmem t l.
Proof.
  induction l; simpl; intros; auto. destruct (a =? u) eqn:E; simpl.
  - apply Z.eqb_eq in E. subst. destruct (t =? u) eqn:E2; [apply Z.eqb_eq in E2; congruence|]. simpl. auto.
  - rewrite IHl; auto.
Qed.
Lemma zcount_cons_same : forall t l, zcount t (t :: l) = S (zcount t l).
Proof. intros. unfold zcount. simpl. rewrite Z.eqb_refl. reflexivity. Qed.
Lemma zcount_cons_other : forall t u l, t <> u -> zcount t (u :: l) = zcount t l.
Proof. intros. unfold zcount. simpl. destruct (t =? u) eqn:E; [apply Z.eqb_eq in E; congruence|]. reflexivity. Qed.
Lemma zcount_zrem_same : forall t l, zcount t (zrem t l) = 0%nat.
Proof.
  unfold zcount, zrem. induction l; simpl; auto. destruct (a =? t) eqn:E; simpl; auto.
  rewrite Z.eqb_sym, E. auto.
Qed.
Lemma zcount_zrem_other : forall t u l, t <> u -> zcount t (zrem u l) = zcount t l.
Proof.
  unfold zcount, zrem. induction l; simpl; intros; auto. destruct (a =? u) eqn:E; simpl.
  - apply Z.eqb_eq in E. subst. destruct (t =? u) eqn:E2; [apply Z.eqb_eq in E2; congruence|]. auto.
  - destruct (t =? a); simpl; rewrite IHl; auto.
Qed.


(** * every step keeps the four structures in agreement *)
Definition rdf_ok (q : rdf) : Prop := forall t, rdf_consistent_at q t = true.

Lemma idx_ok_cons : forall t u prim idx, idx_ok prim idx t = true -> zmem u prim = false ->
  idx_ok (u :: prim) (u :: idx) t = true.
Proof.
  unfold idx_ok. intros t u prim idx H N. rewrite zmem_cons.
  destruct (Z.eq_dec t u) as [->|Ne].
  - rewrite Z.eqb_refl. simpl. rewrite zcount_cons_same. rewrite N in H. apply Nat.eqb_eq in H. rewrite H. reflexivity.
  - rewrite zcount_cons_other by auto. destruct (t =? u) eqn:E; [apply Z.eqb_eq in E; tauto|]. simpl. exact H.
Qed.
Lemma idx_ok_rem : forall t u prim idx, idx_ok prim idx t = true -> idx_ok (zrem u prim) (zrem u idx) t = true.
Proof.
  unfold idx_ok. intros t u prim idx H.
  destruct (Z.eq_dec t u) as [->|Ne].
  - rewrite zcount_zrem_same, zmem_zrem_same. reflexivity.
  - rewrite zcount_zrem_other, zmem_zrem_other by auto. exact H.
Qed.

Lemma qstep_ok : forall s th s' th', rdf_ok s -> step_thread qcode qexec s th = (s', th') -> rdf_ok s'.
Proof.
  intros s [top tl ttodo tout] s' th' OK H. unfold step_thread in H. simpl in H.
  destruct top as [[op pc]|]; [|inversion H; subst; auto].
  destruct op as [u|u].
  - destruct pc as [|[|pc]]; simpl in H.
    + destruct (zmem u (q_prim s)); inversion H; subst; auto.
    + destruct (zmem u (q_prim s)) eqn:M; inversion H; subst; auto.
      intros t. specialize (OK t). unfold rdf_consistent_at in *. simpl.
      apply andb_true_iff in OK. destruct OK as [OK O3]. apply andb_true_iff in OK. destruct OK as [O1 O2].
      rewrite !idx_ok_cons; auto.
    + destruct pc; simpl in H; inversion H; subst; auto.
  - destruct pc as [|pc]; simpl in H.
    + destruct (zmem u (q_prim s)) eqn:M; inversion H; subst; auto.
      intros t. specialize (OK t). unfold rdf_consistent_at in *. simpl.
      apply andb_true_iff in OK. destruct OK as [OK O3]. apply andb_true_iff in OK. destruct OK as [O1 O2].
      rewrite !idx_ok_rem; auto.
    + destruct pc; simpl in H; inversion H; subst; auto.
Qed.

Lemma rdf_index_consistent_l : forall q0 progs sched,
  (forall t, rdf_consistent_at q0 t = true) ->
  forall t, rdf_consistent_at (sh (qrun sched (qinit q0 progs))) t = true.
Proof.
  intros q0 progs sched H0.
  change (rdf_ok (sh (qrun sched (qinit q0 progs)))).
  apply (run_inv _ _ _ _ _ qcode qexec (fun c => rdf_ok (sh c))); [|exact H0].
  intros c i I. unfold step. destruct (nth_error (pool c) i) as [th|]; auto.
  destruct (step_thread qcode qexec (sh c) th) as [s' th'] eqn:ST. simpl. eapply qstep_ok; eauto.
Qed.
