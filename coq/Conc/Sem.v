(** C20 — thread-pool semantics (DESIGN §8 C20).

    An operation is a list of ATOMIC STEPS; a step is the code between two yield points of the
    real implementation (one critical section, one atomic read-modify-write, or the code between
    a check and the update it guards).  A configuration is the shared state together with one
    record per thread: the operation in progress with its program counter, the thread-private
    registers, the operations still to be issued and the outputs acknowledged so far.  A
    schedule is a list of thread indices; [run] executes one atomic step of the named thread
    per entry (entries naming a finished or non-existent thread are no-ops).

    The second half is a lock-level semantics (threads = lists of acquire/release actions on
    ranked reader/writer locks) used for the deadlock theorems.  No proofs in this file. *)
From Coq Require Import ZArith List Bool.
Import ListNotations.
Open Scope Z_scope.

(** control after a step: fall through, jump inside the operation, or return an output *)
Inductive ctl (O : Type) : Type :=
| Next : ctl O
| Goto : nat -> ctl O
| Ret : O -> ctl O.
Arguments Next {O}.
Arguments Goto {O} _.
Arguments Ret {O} _.

Fixpoint upd_nth {A} (i : nat) (x : A) (l : list A) : list A :=
  match l, i with
  | [], _ => []
  | _ :: t, O => x :: t
  | h :: t, S i' => h :: upd_nth i' x t
  end.

Section ThreadPool.
  (** shared state, thread-private registers (persist across the operations of a thread),
      step kinds, operations, outputs *)
  Variables (St L K Op Out : Type).
  Variable code : Op -> list K.
  Variable exec : K -> St -> L -> St * L * ctl Out.

  Record thread := mkTh {
    t_op : option (Op * nat);      (* operation in progress and its program counter *)
    t_loc : L;
    t_todo : list Op;
    t_out : list (Op * Out)          (* acknowledged operations, most recent first *)
  }.

  Definition load (l : L) (todo : list Op) (out : list (Op * Out)) : thread :=
    match todo with
    | [] => mkTh None l [] out
    | op :: r => mkTh (Some (op, O)) l r out
    end.

  Definition step_thread (s : St) (th : thread) : St * thread :=
    match t_op th with
    | None => (s, th)
    | Some (op, pc) =>
        match nth_error (code op) pc with
        | None => (s, th)   (* program counter outside the code: stuck (no transcribed operation gets there) *)
        | Some k =>
            match exec k s (t_loc th) with
            | (s', l', Next) => (s', mkTh (Some (op, S pc)) l' (t_todo th) (t_out th))
            | (s', l', Goto pc') => (s', mkTh (Some (op, pc')) l' (t_todo th) (t_out th))
            | (s', l', Ret o) => (s', load l' (t_todo th) ((op, o) :: t_out th))
            end
        end
    end.

  Record config := mkCfg { sh : St; pool : list thread }.

  Definition step (c : config) (i : nat) : config :=
    match nth_error (pool c) i with
    | None => c
    | Some th => let (s', th') := step_thread (sh c) th in mkCfg s' (upd_nth i th' (pool c))
    end.

  Definition run (sched : list nat) (c : config) : config := fold_left step sched c.

  Definition init (s0 : St) (l0 : L) (progs : list (list Op)) : config :=
    mkCfg s0 (map (fun p => load l0 p []) progs).

  Definition idle (th : thread) : bool := match t_op th with None => true | Some _ => false end.
  Definition finished (c : config) : bool := forallb idle (pool c).

  (** results: per-thread acknowledged (operation, output) pairs in program order + final state *)
  Definition outputs (c : config) : list (list (Op * Out)) := map (fun th => rev (t_out th)) (pool c).

  (** a schedule that certainly finishes: round-robin, [fuel] rounds *)
  Fixpoint round_robin (n fuel : nat) : list nat :=
    match fuel with O => [] | S f => seq 0 n ++ round_robin n f end.

  (** sequential execution of one operation (all its steps, atomically) *)
  Fixpoint exec_op (fuel : nat) (op : Op) (pc : nat) (s : St) (l : L) : St * L * option Out :=
    match fuel with
    | O => (s, l, None)
    | S f =>
        match nth_error (code op) pc with
        | None => (s, l, None)
        | Some k =>
            match exec k s l with
            | (s', l', Next) => exec_op f op (S pc) s' l'
            | (s', l', Goto pc') => exec_op f op pc' s' l'
            | (s', l', Ret o) => (s', l', Some o)
            end
        end
    end.
End ThreadPool.

Arguments mkTh {L Op Out}.
Arguments t_op {L Op Out}.
Arguments t_loc {L Op Out}.
Arguments t_todo {L Op Out}.
Arguments t_out {L Op Out}.
Arguments load {L Op Out}.
Arguments mkCfg {St L Op Out}.
Arguments sh {St L Op Out}.
Arguments pool {St L Op Out}.
Arguments step_thread {St L K Op Out}.
Arguments step {St L K Op Out}.
Arguments run {St L K Op Out}.
Arguments init {St L Op Out}.
Arguments idle {L Op Out}.
Arguments finished {St L Op Out}.
Arguments outputs {St L Op Out}.
Arguments exec_op {St L K Op Out}.

(** * Lock-level semantics *)

Inductive lmode := Rd | Wr.
Inductive lact := Acq (r : nat) (m : lmode) | Rel (r : nat).

Record lthread := mkLT { held : list (nat * lmode); rest : list lact }.

Definition conflicts (r : nat) (m : lmode) (h : nat * lmode) : bool :=
  Nat.eqb (fst h) r && match m, snd h with Rd, Rd => false | _, _ => true end.

(** a lock is free for (r,m) when no thread — the caller included: the locks are not
    re-entrant — holds a conflicting entry *)
Definition lock_free (ths : list lthread) (r : nat) (m : lmode) : bool :=
  forallb (fun th => negb (existsb (conflicts r m) (held th))) ths.

Fixpoint remove_lock (r : nat) (h : list (nat * lmode)) : list (nat * lmode) :=
  match h with
  | [] => []
  | x :: t => if Nat.eqb (fst x) r then t else x :: remove_lock r t
  end.

Definition lenabled (ths : list lthread) (i : nat) : bool :=
  match nth_error ths i with
  | None => false
  | Some th => match rest th with
               | [] => false
               | Rel _ :: _ => true
               | Acq r m :: _ => lock_free ths r m
               end
  end.

Definition lstep (ths : list lthread) (i : nat) : list lthread :=
  match nth_error ths i with
  | None => ths
  | Some th => match rest th with
               | [] => ths
               | Rel r :: t => upd_nth i (mkLT (remove_lock r (held th)) t) ths
               | Acq r m :: t => if lock_free ths r m then upd_nth i (mkLT ((r, m) :: held th) t) ths else ths
               end
  end.

Definition lrun (sched : list nat) (ths : list lthread) : list lthread := fold_left lstep sched ths.
Definition linit (progs : list (list lact)) : list lthread := map (mkLT []) progs.
Definition ldone (ths : list lthread) : bool := forallb (fun th => match rest th with [] => true | _ => false end) ths.
Definition lstuck (ths : list lthread) : bool :=
  negb (ldone ths) && negb (existsb (lenabled ths) (seq 0 (length ths))).

(** rank discipline: every acquisition is strictly above everything the thread holds, every
    release names a held lock, and nothing is held at the end *)
Fixpoint disciplined_from (h : list (nat * lmode)) (acts : list lact) : bool :=
  match acts with
  | [] => match h with [] => true | _ => false end
  | Acq r m :: t => forallb (fun x => Nat.ltb (fst x) r) h && disciplined_from ((r, m) :: h) t
  | Rel r :: t => existsb (fun x => Nat.eqb (fst x) r) h && disciplined_from (remove_lock r h) t
  end.
Definition disciplined (acts : list lact) : bool := disciplined_from [] acts.
