(** C20 — identifiers handed out by concurrent creations are pairwise distinct and every
    acknowledged creation is present in the final state: for every number of threads, every
    program and every schedule. *)
From Coq Require Import ZArith List Bool Lia Permutation.
From GV Require Import Conc.Ops Conc.ProofsSem.
Import ListNotations.
Open Scope Z_scope.

Notation gthread := (@thread regs gop out).

Definition is_cnode (op : gop) : bool := match op with GCreateNode _ => true | _ => false end.
Definition is_cedge (op : gop) : bool := match op with GCreateEdge _ _ => true | _ => false end.

(** ids acknowledged to the thread (outputs of finished creations) *)
Definition acked (sel : gop -> bool) (o : list (gop * out)) : list Z :=
  flat_map (fun x => match x with (op, OZ z) => if sel op then [z] else [] | _ => [] end) o.
(** id held by a creation that has passed its fetch_add and has not returned yet *)
Definition inflight (sel : gop -> bool) (th : gthread) : list Z :=
  match t_op th with
  | Some (op, S _) => if sel op then [r0 (t_loc th)] else []
  | _ => []
  end.
(** id of an edge creation that has already inserted into the edge map *)
Definition einserted (th : gthread) : list Z :=
  match t_op th with
  | Some (GCreateEdge _ _, S (S (S _))) => [r0 (t_loc th)]
  | _ => []
  end.
Definition ids_of (sel : gop -> bool) (th : gthread) : list Z := inflight sel th ++ acked sel (t_out th).

Definition created_nodes (c : gcfg) : list Z := flat_map (fun th => acked is_cnode (t_out th)) (pool c).
Definition created_edges (c : gcfg) : list Z := flat_map (fun th => acked is_cedge (t_out th)) (pool c).

Definition ndom (g : lpg) : list Z := map fst (g_nodes g).
Definition edom (g : lpg) : list Z := map fst (g_edges g).

Lemma einserted_load : forall l todo o, einserted (load l todo o) = [].
Proof. intros. destruct todo as [|[]]; reflexivity. Qed.
Lemma inflight_load : forall sel l todo o, inflight sel (load l todo o) = [].
Proof. intros. destruct todo; reflexivity. Qed.

Lemma mark_node_dom : forall n ns, map fst (mark_node n ns) = map fst ns.
Proof. induction ns as [|[k v] t]; simpl; auto. destruct (k =? n); simpl; congruence. Qed.
Lemma mark_edge_dom : forall n ns, map fst (mark_edge n ns) = map fst ns.
Proof. induction ns as [|[k v] t]; simpl; auto. destruct (k =? n); simpl; congruence. Qed.

Lemma create_node_tail : forall ls pc k, nth_error (gcode (GCreateNode ls)) (S pc) = Some k ->
  (exists l, k = GNCat l) \/ (exists l, k = GNIdx l) \/ k = GNLabels ls \/ k = GNIns.
Proof.
  intros ls pc k H. simpl in H. apply nth_error_In in H. apply in_app_or in H. destruct H as [H|H].
  - apply in_flat_map in H. destruct H as (l & _ & [E|[E|[]]]); subst; eauto.
  - destruct H as [E|[E|[]]]; subst; auto.
Qed.

(** what one step of one thread does to the ids it holds, the counters and the key sets *)
Record step_effect (s : lpg) (th : gthread) (s' : lpg) (th' : gthread) : Prop := {
  se_n : (ids_of is_cnode th' = ids_of is_cnode th /\ g_next_node s' = g_next_node s) \/
         (ids_of is_cnode th' = g_next_node s :: ids_of is_cnode th /\ g_next_node s' = g_next_node s + 1);
  se_e : (ids_of is_cedge th' = ids_of is_cedge th /\ g_next_edge s' = g_next_edge s) \/
         (ids_of is_cedge th' = g_next_edge s :: ids_of is_cedge th /\ g_next_edge s' = g_next_edge s + 1);
  se_ndom : forall x, In x (ndom s) -> In x (ndom s');
  se_edom : forall x, In x (edom s) -> In x (edom s');
  se_nack : forall x, In x (acked is_cnode (t_out th')) -> In x (acked is_cnode (t_out th)) \/ In x (ndom s');
  se_eack : forall x, In x (acked is_cedge (t_out th')) ->
            In x (acked is_cedge (t_out th)) \/ In x (edom s') \/ In x (einserted th);
  se_eins : forall x, In x (einserted th') -> In x (einserted th) \/ In x (edom s')
}.

Ltac crunch :=
  repeat match goal with
  | H : (_, _) = (_, _) |- _ => inversion H; subst; clear H
  | H : Some _ = Some _ |- _ => inversion H; subst; clear H
  | H : None = Some _ |- _ => discriminate H
  end.

Lemma t_out_load : forall (l : regs) todo (o : list (gop * out)), t_out (load l todo o) = o.
Proof. intros. destruct todo; reflexivity. Qed.

Ltac solve_effect :=
  constructor; unfold ids_of, ndom, edom; simpl;
  rewrite ?inflight_load, ?einserted_load, ?t_out_load, ?mark_node_dom, ?mark_edge_dom;
  unfold inflight, einserted, acked; simpl;
  try (left; split; reflexivity); try (right; split; reflexivity); auto;
  try (let x := fresh "x" in let Hx := fresh "Hx" in intros x Hx; simpl in Hx; tauto).

Lemma gstep_effect : forall s th s' th', step_thread gcode gexec s th = (s', th') -> step_effect s th s' th'.
Proof.
  intros s [top tl ttodo tout] s' th' H. unfold step_thread in H. simpl in H.
  destruct top as [[op pc]|]; [|crunch; solve_effect].
  destruct op as [ls|n|n lb|n lb|a b|e].
  - (* create_node *)
    destruct pc as [|pc].
    + simpl in H. crunch. solve_effect.
    + destruct (nth_error (gcode (GCreateNode ls)) (S pc)) as [k|] eqn:E; [|crunch; solve_effect].
      destruct (create_node_tail _ _ _ E) as [(l & ->)|[(l & ->)|[->| ->]]]; simpl in H; crunch; solve_effect.
  - (* delete_node *)
    destruct pc as [|[|[|pc]]]; simpl in H.
    + destruct (node_live s n); crunch; solve_effect.
    + crunch; solve_effect.
    + crunch; solve_effect.
    + destruct pc; simpl in H; crunch; solve_effect.
  - (* add_label: one step *)
    destruct pc as [|pc]; simpl in H.
    + destruct (node_live s n); [destruct (aget n (g_nlabels s)) as [ls|]; [destruct (zmem lb ls)|]|]; crunch; solve_effect.
    + destruct pc; simpl in H; crunch; solve_effect.
  - (* remove_label: one step *)
    destruct pc as [|pc]; simpl in H.
    + destruct (node_live s n && zmem lb (g_catalog s)); [destruct (aget n (g_nlabels s)) as [ls|]; [destruct (zmem lb ls)|]|]; crunch; solve_effect.
    + destruct pc; simpl in H; crunch; solve_effect.
  - (* create_edge *)
    destruct pc as [|[|[|[|[|pc]]]]]; simpl in H.
    + crunch; solve_effect.
    + crunch; solve_effect.
    + crunch; solve_effect.
    + crunch; solve_effect.
    + crunch; solve_effect.
    + destruct pc; simpl in H; crunch; solve_effect.
  - (* delete_edge *)
    destruct pc as [|[|[|[|pc]]]]; simpl in H.
    + destruct (aget e (g_edges s)) as [[[a b] [|]]|]; crunch; solve_effect.
    + destruct (has_list (r1 tl) (g_fwd s)); crunch; solve_effect.
    + destruct (has_list (r2 tl) (g_bwd s)); crunch; solve_effect.
    + crunch; solve_effect.
    + destruct pc; simpl in H; crunch; solve_effect.
Qed.

(** * the invariant over the whole pool *)
Record ids_inv (lon loe : Z) (c : gcfg) : Prop := {
  ii_nd : NoDup (flat_map (ids_of is_cnode) (pool c));
  ii_nb : forall x, In x (flat_map (ids_of is_cnode) (pool c)) -> lon <= x < g_next_node (sh c);
  ii_ed : NoDup (flat_map (ids_of is_cedge) (pool c));
  ii_eb : forall x, In x (flat_map (ids_of is_cedge) (pool c)) -> loe <= x < g_next_edge (sh c);
  ii_na : forall th x, In th (pool c) -> In x (acked is_cnode (t_out th)) -> In x (ndom (sh c));
  ii_ea : forall th x, In th (pool c) -> In x (acked is_cedge (t_out th)) -> In x (edom (sh c));
  ii_ei : forall th x, In th (pool c) -> In x (einserted th) -> In x (edom (sh c));
  ii_lo : lon <= g_next_node (sh c) /\ loe <= g_next_edge (sh c)
}.

Lemma ids_inv_init : forall g0 progs, ids_inv (g_next_node g0) (g_next_edge g0) (ginit g0 progs).
Proof.
  intros.
  assert (E : forall sel, flat_map (ids_of sel) (pool (ginit g0 progs)) = []).
  { intros. unfold ginit, init. simpl. induction progs as [|p ps IH]; simpl; auto.
    rewrite IH. unfold ids_of. rewrite inflight_load, t_out_load. reflexivity. }
  assert (T : forall th, In th (pool (ginit g0 progs)) -> t_out th = [] /\ einserted th = []).
  { unfold ginit, init. simpl. intros th Hth. apply in_map_iff in Hth. destruct Hth as (p & <- & _).
    rewrite t_out_load, einserted_load. auto. }
  constructor; rewrite ?E; try (constructor; fail); simpl; try tauto; try lia.
  all: intros;
    match goal with Hp : In ?th (map _ _) |- _ =>
      let E1 := fresh in let E2 := fresh in destruct (T th Hp) as [E1 E2]; rewrite ?E1, ?E2 in *; simpl in *; tauto end.
Qed.

Lemma ids_inv_step : forall lon loe c i, ids_inv lon loe c -> ids_inv lon loe (step gcode gexec c i).
Proof.
  intros lon loe c i H.
  destruct (nth_error (pool c) i) as [th|] eqn:E; [|rewrite step_none; auto].
  rewrite (step_unfold _ _ _ _ _ gcode gexec c i th E).
  destruct (step_thread gcode gexec (sh c) th) as [s' th'] eqn:ST. simpl.
  pose proof (gstep_effect _ _ _ _ ST) as F.
  pose proof (nth_error_In _ _ E) as Hin.
  destruct H as [Hnd Hnb Hed Heb Hna Hea Hei [Hl1 Hl2]].
  assert (Hl : lon <= g_next_node s' /\ loe <= g_next_edge s').
  { destruct (se_n _ _ _ _ F) as [[_ ->]|[_ ->]]; destruct (se_e _ _ _ _ F) as [[_ ->]|[_ ->]]; lia. }
  constructor; simpl; auto.
  - destruct (se_n _ _ _ _ F) as [[Ei _]|[Ei _]].
    + rewrite (flat_map_upd_same _ _ _ _ _ _ _ E Ei). auto.
    + eapply Permutation_NoDup; [symmetry; apply (flat_map_upd_cons _ _ _ _ _ _ _ _ E Ei)|].
      constructor; auto. intro Hi. apply Hnb in Hi. lia.
  - intros x Hx. destruct (se_n _ _ _ _ F) as [[Ei ->]|[Ei ->]].
    + rewrite (flat_map_upd_same _ _ _ _ _ _ _ E Ei) in Hx. auto.
    + eapply Permutation_in in Hx; [|apply (flat_map_upd_cons _ _ _ _ _ _ _ _ E Ei)].
      destruct Hx as [<-|Hx]; [lia|]. apply Hnb in Hx. lia.
  - destruct (se_e _ _ _ _ F) as [[Ei _]|[Ei _]].
    + rewrite (flat_map_upd_same _ _ _ _ _ _ _ E Ei). auto.
    + eapply Permutation_NoDup; [symmetry; apply (flat_map_upd_cons _ _ _ _ _ _ _ _ E Ei)|].
      constructor; auto. intro Hi. apply Heb in Hi. lia.
  - intros x Hx. destruct (se_e _ _ _ _ F) as [[Ei ->]|[Ei ->]].
    + rewrite (flat_map_upd_same _ _ _ _ _ _ _ E Ei) in Hx. auto.
    + eapply Permutation_in in Hx; [|apply (flat_map_upd_cons _ _ _ _ _ _ _ _ E Ei)].
      destruct Hx as [<-|Hx]; [lia|]. apply Heb in Hx. lia.
  - intros th0 x Hth0 Hx. apply In_upd_nth in Hth0. destruct Hth0 as [->|Hth0].
    + destruct (se_nack _ _ _ _ F x Hx) as [Ho|Ho]; auto. apply (se_ndom _ _ _ _ F). eauto.
    + apply (se_ndom _ _ _ _ F). eauto.
  - intros th0 x Hth0 Hx. apply In_upd_nth in Hth0. destruct Hth0 as [->|Hth0].
    + destruct (se_eack _ _ _ _ F x Hx) as [Ho|[Ho|Ho]]; auto; apply (se_edom _ _ _ _ F); eauto.
    + apply (se_edom _ _ _ _ F). eauto.
  - intros th0 x Hth0 Hx. apply In_upd_nth in Hth0. destruct Hth0 as [->|Hth0].
    + destruct (se_eins _ _ _ _ F x Hx) as [Ho|Ho]; auto. apply (se_edom _ _ _ _ F). eauto.
    + apply (se_edom _ _ _ _ F). eauto.
Qed.

Lemma ids_unique_l : forall g0 progs sched,
  let c := grun sched (ginit g0 progs) in
  NoDup (created_nodes c) /\ NoDup (created_edges c) /\
  (forall n, In n (created_nodes c) -> g_next_node g0 <= n < g_next_node (sh c) /\ In n (map fst (g_nodes (sh c)))) /\
  (forall e, In e (created_edges c) -> g_next_edge g0 <= e < g_next_edge (sh c) /\ In e (map fst (g_edges (sh c)))).
Proof.
  intros g0 progs sched c.
  assert (H : ids_inv (g_next_node g0) (g_next_edge g0) c).
  { apply (run_inv _ _ _ _ _ gcode gexec (ids_inv (g_next_node g0) (g_next_edge g0))).
    - intros. apply ids_inv_step. auto.
    - apply ids_inv_init. }
  destruct H as [Hnd Hnb Hed Heb Hna Hea _ _].
  unfold created_nodes, created_edges.
  split; [apply (nodup_flat_map_suffix _ (inflight is_cnode) _ _ Hnd)|].
  split; [apply (nodup_flat_map_suffix _ (inflight is_cedge) _ _ Hed)|].
  split.
  - intros n Hn. apply in_flat_map in Hn. destruct Hn as (th & Hth & Hn). split; [|eapply Hna; eauto].
    apply Hnb. apply in_flat_map. exists th. split; auto. unfold ids_of. apply in_or_app. auto.
  - intros e He. apply in_flat_map in He. destruct He as (th & Hth & He). split; [|eapply Hea; eauto].
    apply Heb. apply in_flat_map. exists th. split; auto. unfold ids_of. apply in_or_app. auto.
Qed.
