(** C20 — identifiers handed out by concurrent creations are pairwise distinct and every
    acknowledged creation is present in the final state: for every number of threads, every
    program and every schedule. *)
From Coq Require Import ZArith List Bool Lia Permutation.
From GV Require Import Conc.Ops Conc.ProofsSem.
Import ListNotations.
Open Scope Z_scope.

Notation gthread := (@thread regs gop out).

Definition is_cnode (op : gop) : bool := match op with GCreateNode _ => true | _ => false end.
Definition is_cedge (op : gop) : bool := match op with GCreateEdge _ _ => true | _ => false end.

(** ids acknowledged to the thread (outputs of finished creations) *)
Definition acked (sel : gop -> bool) (o : list (gop * out)) : list Z :=
  flat_map (fun x => match x with (op, OZ z) => if sel op then [z] else [] | _ => [] end) o.
(** id held by a creation that has passed its fetch_add and has not returned yet *)
Definition inflight (sel : gop -> bool) (th : gthread) : list Z :=
  match t_op th with
  | Some (op, S _) => if sel op then [r0 (t_loc th)] else []
  | _ => []
  end.
(** id of an edge creation that has already inserted into the edge map *)
Definition einserted (th : gthread) : list Z :=
  match t_op th with
  | Some (GCreateEdge _ _, S (S (S _))) => [r0 (t_loc th)]
  | _ => []
  end.
Definition ids_of (sel : gop -> bool) (th : gthread) : list Z := inflight sel th ++ acked sel (t_out th).

Definition created_nodes (c : gcfg) : list Z := flat_map (fun th => acked is_cnode (t_out th)) (pool c).
Definition created_edges (c : gcfg) : list Z := flat_map (fun th => acked is_cedge (t_out th)) (pool c).

Definition ndom (g : lpg) : list Z := map fst (g_nodes g).
Definition edom (g : lpg) : list Z := map fst (g_edges g).

Lemma einserted_load : forall l todo o, einserted (load l todo o) = [].
Proof. intros. destruct todo as [|[]]; reflexivity. Qed.
Lemma inflight_load : forall sel l todo o, inflight sel (load l todo o) = [].
Proof. intros. destruct todo; reflexivity. Qed.

Lemma mark_node_dom : forall n ns, map fst (mark_node n ns) = map fst ns.
Proof. induction ns as [|[k v] t]; simpl; auto. destruct (k =? n); simpl; congruence. Qed.
Lemma mark_edge_dom : forall n ns, map fst (mark_edge n ns) = map fst ns.
Proof. induction ns as [|[k v] t]; simpl; auto. destruct (k =? n); simpl; congruence. Qed.

Lemma create_node_tail : forall ls pc k, nth_error (gcode (GCreateNode ls)) (S pc) = Some k ->
  (exists l, k = GNCat l) \/ (exists l, k = GNIdx l) \/ k = GNLabels ls \/ k = GNIns.
Proof.
  intros ls pc k H. simpl in H. apply nth_error_In in H. apply in_app_or in H. destruct H as [H|H].
  - apply in_flat_map in H. destruct H as (l & _ & [E|[E|[]]]); subst; eauto.
  - destruct H as [E|[E|[]]]; subst; auto.
Qed.

(** what one step of one thread does to the ids it holds, the counters and the key sets *)
Record step_effect (s : lpg) (th : gthread) (s' : lpg) (th' : gthread) : Prop := {
  se_n : (ids_of is_cnode th' = ids_of is_cnode th /\ g_next_node s' = g_next_node s) \/
         (ids_of is_cnode th' = g_next_node s :: ids_of is_cnode th /\ g_next_node s' = g_next_node s + 1);
  se_e : (ids_of is_cedge th' = ids_of is_cedge th /\ g_next_edge s' = g_next_edge s) \/
         (ids_of is_cedge th' = g_next_edge s :: ids_of is_cedge th /\ g_next_edge s' = g_next_edge s + 1);
  se_ndom : forall x, In x (ndom s) -> In x (ndom s');
  se_edom : forall x, In x (edom s) -> In x (edom s');
  se_nack : forall x, In x (acked is_cnode (t_out th')) -> In x (acked is_cnode (t_out th)) \/ In x (ndom s');
  se_eack : forall x, In x (acked is_cedge (t_out th')) ->
            In x (acked is_cedge (t_out th)) \/ In x (edom s') \/ In x (einserted th);
  se_eins : forall x, In x (einserted th') -> In x (einserted th) \/ In x (edom s')
}.

Ltac crunch :=
  repeat match goal with
  | H : (_, _) = (_, _) |- _ => inversion H; subst; clear H
  | H : Some _ = Some _ |- _ => inversion H; subst; clear H
  | H : None = Some _ |- _ => discriminate H
  end.

Lemma t_out_load : forall (l : regs) todo (o : list (gop * out)), t_out (load l todo o) = o.
Proof. intros. destruct todo; reflexivity. Qed.

Ltac solve_effect :=
  constructor; unfold ids_of, ndom, edom; simpl;
  rewrite ?inflight_load, ?einserted_load, ?t_out_load, ?mark_node_dom, ?mark_edge_dom;
  unfold inflight, einserted, acked; simpl;
  try (left; split; reflexivity); try (right; split; reflexivity); auto;
  try (let x := fresh "x" in let Hx := fresh "Hx" in intros x Hx; simpl in Hx; tauto).

Lemma gstep_effect : forall s th s' th', step_thread gcode gexec s th = (s', th') -> step_effect s th s' th'.
Proof.
  intros s [top tl ttodo tout] s' th' H. unfold step_thread in H. simpl in H.
  destruct top as [[op pc]|]; [|crunch; solve_effect].
  destruct op as [ls|n|n lb|n lb|a b|e].
  - (* create_node *)
    destruct pc as [|pc].
    + simpl in H. crunch. solve_effect.
    + destruct (nth_error (gcode (GCreateNode ls)) (S pc)) as [k|] eqn:E; [|crunch; solve_effect].
      destruct (create_node_tail _ _ _ E) as [(l & ->)|[(l & ->)|[->| ->]]]; simpl in H; crunch; solve_effect.
  - (* delete_node *)
    destruct pc as [|[|[|pc]]]; simpl in H.
    + destruct (node_live s n); crunch; solve_effect.
    + crunch; solve_effect.
    + crunch; solve_effect.
    + destruct pc; simpl in H; crunch; solve_effect.
  - (* add_label *)
    destruct pc as [|[|[|[|pc]]]]; simpl in H.
    + destruct (node_live s n); crunch; solve_effect.
    + crunch; solve_effect.
    + destruct (aget n (g_nlabels s)) as [ls|]; [destruct (zmem lb ls)|]; crunch; solve_effect.
    + crunch; solve_effect.
    + destruct pc; simpl in H; crunch; solve_effect.
  - (* remove_label *)
    destruct pc as [|[|[|[|pc]]]]; simpl in H.
    + destruct (node_live s n); crunch; solve_effect.
    + destruct (zmem lb (g_catalog s)); crunch; solve_effect.
    + destruct (aget n (g_nlabels s)) as [ls|]; [destruct (zmem lb ls)|]; crunch; solve_effect.
    + crunch; solve_effect.
    + destruct pc; simpl in H; crunch; solve_effect.
  - (* create_edge *)
    destruct pc as [|[|[|[|[|pc]]]]]; simpl in H.
    + crunch; solve_effect.
    + crunch; solve_effect.
    + crunch; solve_effect.
    + crunch; solve_effect.
    + crunch; solve_effect.
    + destruct pc; simpl in H; crunch; solve_effect.
  - (* delete_edge *)
    destruct pc as [|[|[|[|pc]]]]; simpl in H.
    + destruct (aget e (g_edges s)) as [[[a b] [|]]|]; crunch; solve_effect.
    + destruct (has_list (r1 tl) (g_fwd s)); crunch; solve_effect.
    + destruct (has_list (r2 tl) (g_bwd s)); crunch; solve_effect.
    + crunch; solve_effect.
    + destruct pc; simpl in H; crunch; solve_effect.
Qed.
