(** C20 — the adjacency lists agree with the edge map after every run, for every number of
    threads, every schedule and every program whose delete_edge calls name edges of the
    starting graph (outside the class of finding C20-K6, where a thread deletes an edge that
    another thread is still creating).

    Invariant: every adjacency entry belongs to an edge of the map; every edge of the map has
    its entry unless its creator stands between the map insert and the adjacency insert; every
    deletion mark belongs to a deleted edge; every deleted edge has its mark unless its deleter
    stands between the two; only edges of the starting graph are ever deleted.  Forward and
    backward lists are treated by the same argument ([side] = which of the two). *)
From Coq Require Import ZArith List Bool Lia Permutation Arith.
From GV Require Import Conc.Ops Conc.ProofsSem Conc.ProofsIds Conc.ProofsSeq.
Import ListNotations.
Open Scope Z_scope.

(** * the two sides *)
Inductive side := Fwd | Bwd.
Definition adj (sd : side) (g : lpg) : list (Z * Z * Z) := match sd with Fwd => g_fwd g | Bwd => g_bwd g end.
Definition tomb (sd : side) (g : lpg) : list (Z * Z) := match sd with Fwd => g_fwd_del g | Bwd => g_bwd_del g end.
(** the adjacency entry of edge e = (s, d): keyed by the source on the forward side, by the destination on the backward side *)
Definition entry (sd : side) (s d e : Z) : Z * Z * Z := match sd with Fwd => (s, d, e) | Bwd => (d, s, e) end.
Definition akey (sd : side) (s d : Z) : Z := match sd with Fwd => s | Bwd => d end.

(** creators whose edge is in the map but not yet in this side's list; deleters whose edge is
    marked in the map but not yet in this side's deletion marks *)
Definition crp (sd : side) (th : gthread) : list Z :=
  match t_op th, sd with
  | Some (GCreateEdge _ _, 3%nat), _ => [r0 (t_loc th)]
  | Some (GCreateEdge _ _, 4%nat), Bwd => [r0 (t_loc th)]
  | _, _ => []
  end.
Definition dlp (sd : side) (th : gthread) : list (Z * Z) :=
  match t_op th, sd with
  | Some (GDeleteEdge e, 1%nat), Fwd => [(r1 (t_loc th), e)]
  | Some (GDeleteEdge e, 1%nat), Bwd => [(r2 (t_loc th), e)]
  | Some (GDeleteEdge e, 2%nat), Bwd => [(r2 (t_loc th), e)]
  | _, _ => []
  end.
Definition ins (th : gthread) : list Z := einserted th ++ acked is_cedge (t_out th).

Definition del_ok (lo : Z) (op : gop) : Prop := match op with GDeleteEdge e => e < lo | _ => True end.

Definition th_ok (lo : Z) (g : lpg) (th : gthread) : Prop :=
  match t_op th with
  | Some (GCreateEdge s d, pc) => (3 <= pc)%nat -> In (r0 (t_loc th), (s, d, false)) (g_edges g)
  | Some (GDeleteEdge e, pc) =>
      e < lo /\ ((1 <= pc)%nat -> In (e, (r1 (t_loc th), r2 (t_loc th), true)) (g_edges g))
  | _ => True
  end /\ Forall (del_ok lo) (t_todo th).

Record adj_inv (lon lo : Z) (c : gcfg) : Prop := {
  a_ids : ids_inv lon lo c;
  a_nd : NoDup (edom (sh c));
  a_dom : forall e, In e (edom (sh c)) -> e < lo \/ In e (flat_map ins (pool c));
  a_k2 : forall sd s d e, In (entry sd s d e) (adj sd (sh c)) -> exists del, In (e, (s, d, del)) (g_edges (sh c));
  a_k3 : forall sd e s d del, In (e, (s, d, del)) (g_edges (sh c)) ->
         In (entry sd s d e) (adj sd (sh c)) \/ In e (flat_map (crp sd) (pool c));
  a_k4 : forall sd k e, In (k, e) (tomb sd (sh c)) -> exists s d, In (e, (s, d, true)) (g_edges (sh c)) /\ k = akey sd s d;
  a_k5 : forall sd e s d, In (e, (s, d, true)) (g_edges (sh c)) ->
         In (akey sd s d, e) (tomb sd (sh c)) \/ In (akey sd s d, e) (flat_map (dlp sd) (pool c));
  a_k6 : forall e s d, In (e, (s, d, true)) (g_edges (sh c)) -> e < lo;
  a_th : Forall (th_ok lo (sh c)) (pool c)
}.

(** * list facts *)
Lemma fm_upd_in : forall A B (f : A -> list B) i a l x,
  In x (flat_map f (upd_nth i a l)) -> In x (f a) \/ In x (flat_map f l).
Proof.
  intros. apply in_flat_map in H. destruct H as (y & Hy & Hx). apply In_upd_nth in Hy.
  destruct Hy as [->|Hy]; auto. right. apply in_flat_map. eauto.
Qed.
Lemma fm_upd_keep : forall A B (f : A -> list B) i a b l x,
  nth_error l i = Some b -> In x (flat_map f l) -> In x (f b) \/ In x (flat_map f (upd_nth i a l)).
Proof.
  intros A B f i a b l x E H. destruct (upd_nth_split _ i a b l E) as (l1 & l2 & E1 & E2 & _).
  rewrite E1 in H. rewrite E2. rewrite !flat_map_app in *. simpl in *.
  rewrite !in_app_iff in *. tauto.
Qed.
Lemma fm_upd_new : forall A B (f : A -> list B) i a l x,
  (i < length l)%nat -> In x (f a) -> In x (flat_map f (upd_nth i a l)).
Proof.
  intros. apply in_flat_map. exists a. split; auto.
  apply nth_error_In with (n := i). apply nth_upd_same. auto.
Qed.

Lemma aget_In : forall V k (v : V) (m : list (Z * V)), aget k m = Some v -> In (k, v) m.
Proof.
  induction m as [|[k' v'] t]; simpl; intros; [discriminate|].
  destruct (k' =? k) eqn:E; auto. apply Z.eqb_eq in E. inversion H; subst. auto.
Qed.
Lemma In_aget : forall V k (v : V) (m : list (Z * V)), NoDup (map fst m) -> In (k, v) m -> aget k m = Some v.
Proof.
  induction m as [|[k' v'] t]; simpl; intros ND H; [tauto|].
  inversion ND; subst. destruct H as [H|H].
  - inversion H; subst. rewrite Z.eqb_refl. auto.
  - destruct (k' =? k) eqn:E; auto. apply Z.eqb_eq in E. subst. exfalso. apply H2.
    apply in_map_iff. exists (k, v). auto.
Qed.
Lemma nodup_key_eq : forall V k (v w : V) (m : list (Z * V)), NoDup (map fst m) -> In (k, v) m -> In (k, w) m -> v = w.
Proof. intros. apply In_aget in H0; auto. apply In_aget in H1; auto. congruence. Qed.

Lemma mark_edge_in : forall e x es, In x (mark_edge e es) ->
  (In x es /\ fst x <> e) \/ (exists s d del, In (e, (s, d, del)) es /\ x = (e, (s, d, true))).
Proof.
  unfold mark_edge. intros e x es H. apply in_map_iff in H. destruct H as ([k [[s d] del]] & E & Hin). simpl in E.
  destruct (k =? e) eqn:K.
  - apply Z.eqb_eq in K. subst. right. exists s, d, del. auto.
  - apply Z.eqb_neq in K. subst. left. auto.
Qed.
Lemma mark_edge_keep : forall e x es, In x es -> fst x <> e -> In x (mark_edge e es).
Proof.
  unfold mark_edge. intros. apply in_map_iff. exists x. split; auto.
  destruct (fst x =? e) eqn:K; auto. apply Z.eqb_eq in K. tauto.
Qed.
Lemma mark_edge_hit : forall e s d del es, In (e, (s, d, del)) es -> In (e, (s, d, true)) (mark_edge e es).
Proof.
  unfold mark_edge. intros. apply in_map_iff. exists (e, (s, d, del)). split; auto. simpl. rewrite Z.eqb_refl. auto.
Qed.

Lemma has_list_in : forall k a b adjl, In (k, a, b) adjl -> has_list k adjl = true.
Proof.
  unfold has_list. intros. apply existsb_exists. exists (k, a, b). split; auto. simpl. apply Z.eqb_refl.
Qed.

Lemma crp_load : forall sd l todo o, crp sd (load l todo o) = [].
Proof. intros. destruct todo as [|[]]; destruct sd; reflexivity. Qed.
Lemma dlp_load : forall sd l todo o, dlp sd (load l todo o) = [].
Proof. intros. destruct todo as [|[]]; destruct sd; reflexivity. Qed.

(** * one step of one thread: five shapes *)
Inductive shape (lo : Z) (s : lpg) (th : gthread) (s' : lpg) (th' : gthread) : Prop :=
| ShNeutral :
    g_edges s' = g_edges s -> (forall sd, adj sd s' = adj sd s) -> (forall sd, tomb sd s' = tomb sd s) ->
    (forall sd, crp sd th' = crp sd th) -> (forall sd, dlp sd th' = dlp sd th) ->
    (forall x, In x (ins th) -> In x (ins th')) -> th_ok lo s' th' -> shape lo s th s' th'
| ShInsert : forall a b,
    t_op th = Some (GCreateEdge a b, 2%nat) ->
    g_edges s' = (r0 (t_loc th), (a, b, false)) :: g_edges s ->
    (forall sd, adj sd s' = adj sd s) -> (forall sd, tomb sd s' = tomb sd s) ->
    (forall sd, crp sd th' = [r0 (t_loc th)]) -> (forall sd, dlp sd th' = []) -> (forall sd, dlp sd th = []) ->
    ins th' = r0 (t_loc th) :: ins th -> th_ok lo s' th' -> shape lo s th s' th'
| ShAdd : forall sd0 a b,
    g_edges s' = g_edges s -> In (r0 (t_loc th), (a, b, false)) (g_edges s) ->
    adj sd0 s' = entry sd0 a b (r0 (t_loc th)) :: adj sd0 s ->
    (forall sd, sd <> sd0 -> adj sd s' = adj sd s) -> (forall sd, tomb sd s' = tomb sd s) ->
    crp sd0 th = [r0 (t_loc th)] -> crp sd0 th' = [] ->
    (forall sd, sd <> sd0 -> crp sd th' = crp sd th) ->
    (forall sd, dlp sd th' = dlp sd th) ->
    (forall x, In x (ins th) -> In x (ins th')) -> th_ok lo s' th' -> shape lo s th s' th'
| ShMark : forall e a b,
    e < lo -> In (e, (a, b, false)) (g_edges s) -> g_edges s' = mark_edge e (g_edges s) ->
    (forall sd, adj sd s' = adj sd s) -> (forall sd, tomb sd s' = tomb sd s) ->
    (forall sd, crp sd th' = crp sd th) -> (forall sd, dlp sd th' = [(akey sd a b, e)]) -> (forall sd, dlp sd th = []) ->
    (forall x, In x (ins th) -> In x (ins th')) -> th_ok lo s' th' -> shape lo s th s' th'
| ShTomb : forall sd0 e a b,
    g_edges s' = g_edges s -> In (e, (a, b, true)) (g_edges s) ->
    (forall sd, adj sd s' = adj sd s) ->
    tomb sd0 s' = (if has_list (akey sd0 a b) (adj sd0 s) then padd (akey sd0 a b, e) (tomb sd0 s) else tomb sd0 s) ->
    (forall sd, sd <> sd0 -> tomb sd s' = tomb sd s) ->
    dlp sd0 th = [(akey sd0 a b, e)] -> dlp sd0 th' = [] ->
    (forall sd, sd <> sd0 -> dlp sd th' = dlp sd th) ->
    (forall sd, crp sd th' = crp sd th) ->
    (forall x, In x (ins th) -> In x (ins th')) -> th_ok lo s' th' -> shape lo s th s' th'.

Lemma ins_load_mono : forall (l : regs) todo (o o' : list (gop * out)) x th,
  (forall y, In y (ins th) -> In y (acked is_cedge o')) -> In x (ins th) -> In x (ins (load l todo o')).
Proof.
  intros. unfold ins. rewrite einserted_load, t_out_load. simpl. auto.
Qed.

Lemma th_ok_load : forall lo g l todo o, Forall (del_ok lo) todo -> th_ok lo g (load l todo o).
Proof.
  intros lo g l todo o F. destruct todo as [|op r]; unfold th_ok; simpl; auto.
  inversion F; subst. split; auto. destruct op; auto.
  - intros H; inversion H.
  - split; auto. intros H; inversion H.
Qed.

Ltac sides := solve [ let sd := fresh "sd" in intros sd; destruct sd; rewrite ?crp_load, ?dlp_load; simpl; try reflexivity; try congruence ].
Ltac insmono := solve [ auto | let x := fresh "x" in let Hx := fresh "Hx" in
                          intros x Hx; unfold ins in *; rewrite ?einserted_load, ?t_out_load; simpl in *; tauto ].
Ltac thok := solve [ auto | unfold th_ok; simpl; auto | unfold th_ok; simpl; split; auto; intros; lia ].
Ltac neutral := apply ShNeutral; simpl; [ reflexivity | sides | sides | sides | sides | insmono | thok ].

Lemma step_shape : forall lo s th s' th',
  th_ok lo s th -> step_thread gcode gexec s th = (s', th') -> shape lo s th s' th'.
Proof.
  intros lo s [top tl ttodo tout] s' th' [OK TD] H. unfold step_thread in H. simpl in *.
  assert (LD : forall l o g, th_ok lo g (load l ttodo o)) by (intros; apply th_ok_load; auto).
  destruct top as [[op pc]|].
  2:{ crunch. neutral. }
  destruct op as [ls|n|n lb|n lb|a b|e].
  - (* create_node: never touches edges *)
    destruct (nth_error (gcode (GCreateNode ls)) pc) as [k|] eqn:E; [|crunch; neutral].
    assert (KK : (k = GNAlloc) \/ (exists l, k = GNCat l) \/ (exists l, k = GNIdx l) \/ k = GNLabels ls \/ k = GNIns).
    { destruct pc; [simpl in E; inversion E; auto|]. right. apply (create_node_tail _ _ _ E). }
    destruct KK as [->|[(l & ->)|[(l & ->)|[->| ->]]]]; simpl in H; crunch; neutral.
  - (* delete_node *)
    destruct pc as [|[|[|pc]]]; simpl in H.
    + destruct (node_live s n); crunch; neutral.
    + crunch. neutral.
    + crunch. neutral.
    + destruct pc; simpl in H; crunch; neutral.
  - (* add_label: one step *)
    destruct pc as [|pc]; simpl in H.
    + destruct (node_live s n); [destruct (aget n (g_nlabels s)) as [ls|]; [destruct (zmem lb ls)|]|]; crunch; neutral.
    + destruct pc; simpl in H; crunch; neutral.
  - (* remove_label: one step *)
    destruct pc as [|pc]; simpl in H.
    + destruct (node_live s n && zmem lb (g_catalog s)); [destruct (aget n (g_nlabels s)) as [ls|]; [destruct (zmem lb ls)|]|]; crunch; neutral.
    + destruct pc; simpl in H; crunch; neutral.
  - (* create_edge *)
    destruct pc as [|[|[|[|[|pc]]]]]; simpl in H; crunch.
    + neutral.
    + neutral.
    + apply (ShInsert _ _ _ _ _ a b); simpl; [reflexivity|reflexivity|sides|sides|sides|sides|sides|reflexivity|].
      unfold th_ok; simpl. split; auto.
    + apply (ShAdd _ _ _ _ _ Fwd a b); simpl; [reflexivity| |reflexivity| |sides|reflexivity|reflexivity| |sides|insmono|].
      * apply OK. lia.
      * intros sd Hsd. destruct sd; [congruence|reflexivity].
      * intros sd Hsd. destruct sd; [congruence|reflexivity].
      * unfold th_ok; simpl; split; auto; intros _; apply OK; lia.
    + apply (ShAdd _ _ _ _ _ Bwd a b); simpl; [reflexivity| |reflexivity| |sides|reflexivity| | |sides|insmono|thok].
      * apply OK. lia.
      * intros sd Hsd. destruct sd; [reflexivity|congruence].
      * rewrite crp_load. reflexivity.
      * intros sd Hsd. destruct sd; [|congruence]. rewrite crp_load. reflexivity.
    + destruct pc; simpl in H; crunch;
        (apply ShNeutral; simpl; [reflexivity|sides|sides|sides|sides|insmono|
                                   unfold th_ok; simpl; split; auto; intros; apply OK; lia]).
  - (* delete_edge *)
    destruct OK as [Hlo OK].
    destruct pc as [|[|[|[|pc]]]]; simpl in H.
    + destruct (aget e (g_edges s)) as [[[a b] [|]]|] eqn:G; crunch.
      * neutral.
      * apply (ShMark _ _ _ _ _ e a b); simpl; [assumption| |reflexivity|sides|sides|sides|sides|sides|insmono|].
        -- apply aget_In. auto.
        -- unfold th_ok; simpl. split; auto. split; auto. intros _. apply aget_In in G. eapply mark_edge_hit; eauto.
      * neutral.
    + crunch. destruct (has_list (r1 tl) (g_fwd s)) eqn:HL;
        (apply (ShTomb _ _ _ _ _ Fwd e (r1 tl) (r2 tl)); simpl; rewrite ?HL;
         [ reflexivity | apply OK; lia | sides | reflexivity
         | (intros sd Hsd; destruct sd; [congruence|reflexivity]) | reflexivity | reflexivity
         | (intros sd Hsd; destruct sd; [congruence|reflexivity]) | sides | insmono
         | (unfold th_ok; simpl; split; auto; split; auto; intros _; apply OK; lia) ]).
    + crunch. destruct (has_list (r2 tl) (g_bwd s)) eqn:HL;
        (apply (ShTomb _ _ _ _ _ Bwd e (r1 tl) (r2 tl)); simpl; rewrite ?HL;
         [ reflexivity | apply OK; lia | sides | reflexivity
         | (intros sd Hsd; destruct sd; [reflexivity|congruence]) | reflexivity | reflexivity
         | (intros sd Hsd; destruct sd; [reflexivity|congruence]) | sides | insmono
         | (unfold th_ok; simpl; split; auto; split; auto; intros _; apply OK; lia) ]).
    + crunch. neutral.
    + destruct pc; simpl in H; crunch;
        (apply ShNeutral; simpl; [reflexivity|sides|sides|sides|sides|insmono|unfold th_ok; simpl; split; auto]).
Qed.

(** * the invariant is preserved by every step of every thread *)
Lemma fm_transfer : forall B (f : gthread -> list B) P i th th' x,
  nth_error P i = Some th -> (In x (f th) -> In x (f th')) ->
  In x (flat_map f P) -> In x (flat_map f (upd_nth i th' P)).
Proof.
  intros B f P i th th' x E T H. destruct (fm_upd_keep _ _ f i th' th P x E H) as [H1|H1]; auto.
  apply fm_upd_new; auto. eapply nth_error_lt; eauto.
Qed.

Lemma th_ok_mono : forall lo g g' th,
  th_ok lo g th ->
  (forall e v, In (e, v) (g_edges g) -> (snd v = true \/ lo <= e) -> In (e, v) (g_edges g')) ->
  (forall a b pc, t_op th = Some (GCreateEdge a b, pc) -> (3 <= pc)%nat -> lo <= r0 (t_loc th)) ->
  th_ok lo g' th.
Proof.
  intros lo g g' th [H TD] K R. split; auto.
  destruct (t_op th) as [[op pc]|] eqn:T; auto. destruct op; auto.
  - intros Hpc. apply K; auto; right; eapply R; eauto.
  - destruct H as [H1 H2]. split; auto; intros Hpc; apply K; auto.
Qed.

Lemma creator_id_lo : forall lon lo c th a b pc,
  ids_inv lon lo c -> In th (pool c) -> t_op th = Some (GCreateEdge a b, pc) -> (1 <= pc)%nat -> lo <= r0 (t_loc th).
Proof.
  intros lon lo c th a b pc I Hin T Hpc.
  assert (X : In (r0 (t_loc th)) (flat_map (ids_of is_cedge) (pool c))).
  { apply in_flat_map. exists th. split; auto. unfold ids_of, inflight. rewrite T.
    destruct pc; [lia|]. simpl. auto. }
  apply (ii_eb _ _ _ I) in X. lia.
Qed.

Lemma pending_creator_fresh : forall lon lo c i th a b,
  ids_inv lon lo c -> nth_error (pool c) i = Some th -> t_op th = Some (GCreateEdge a b, 2%nat) ->
  ~ In (r0 (t_loc th)) (flat_map ins (pool c)).
Proof.
  intros lon lo c i th a b I E T Hin.
  pose proof (ii_ed _ _ _ I) as ND.
  destruct (upd_nth_split _ i th th (pool c) E) as (l1 & l2 & E1 & _ & _).
  rewrite E1 in ND, Hin. rewrite flat_map_app in ND, Hin. simpl in ND, Hin.
  assert (ID : ids_of is_cedge th = r0 (t_loc th) :: acked is_cedge (t_out th)).
  { unfold ids_of, inflight. rewrite T. reflexivity. }
  assert (INS : ins th = acked is_cedge (t_out th)).
  { unfold ins, einserted. rewrite T. reflexivity. }
  assert (SUB : forall l x, In x (flat_map ins l) -> In x (flat_map (ids_of is_cedge) l)).
  { intros l x Hx. apply in_flat_map in Hx. destruct Hx as (t & Ht & Hx). apply in_flat_map. exists t. split; auto.
    unfold ins in Hx. unfold ids_of. apply in_app_or in Hx. apply in_or_app. destruct Hx as [Hx|Hx]; auto.
    left. unfold einserted in Hx. unfold inflight. destruct (t_op t) as [[[] [|[|[|p]]]]|]; simpl in *; tauto. }
  rewrite ID, INS in *.
  apply nodup_app_iff in ND. destruct ND as (N1 & N2 & N3).
  simpl in N2. inversion N2 as [|x0 l0 Hnotin N5]; subst.
  apply in_app_or in Hin. destruct Hin as [Hin|Hin].
  - apply SUB in Hin. apply (N3 _ Hin). simpl. auto.
  - apply Hnotin. apply in_app_or in Hin. apply in_or_app. destruct Hin as [Hin|Hin]; auto.
Qed.

Lemma th_ok_same_edges : forall lo g g' th, g_edges g' = g_edges g -> th_ok lo g th -> th_ok lo g' th.
Proof. intros lo g g' th E H. unfold th_ok in *. rewrite E. exact H. Qed.

Lemma entry_inj : forall sd s d e s' d' e', entry sd s d e = entry sd s' d' e' -> s = s' /\ d = d' /\ e = e'.
Proof. intros [] s d e s' d' e' H; inversion H; auto. Qed.

Lemma adj_inv_step : forall lon lo c i, adj_inv lon lo c -> adj_inv lon lo (step gcode gexec c i).
Proof.
  intros lon lo c i I.
  destruct (nth_error (pool c) i) as [th|] eqn:E; [|rewrite step_none; auto].
  rewrite (step_unfold _ _ _ _ _ gcode gexec c i th E).
  destruct (step_thread gcode gexec (sh c) th) as [s' th'] eqn:ST. simpl.
  pose proof (ids_inv_step _ _ _ i (a_ids _ _ _ I)) as IDS.
  rewrite (step_unfold _ _ _ _ _ gcode gexec c i th E) in IDS. rewrite ST in IDS. simpl in IDS.
  pose proof (nth_error_In _ _ E) as Hin.
  pose proof (nth_error_lt _ _ _ _ E) as Hlt.
  pose proof (Forall_nth_error _ _ _ _ _ (a_th _ _ _ I) E) as OKth.
  pose proof (step_shape lo _ _ _ _ OKth ST) as SH.
  destruct I as [Iids Ind Idom K2 K3 K4 K5 K6 Ith].
  assert (CRLO : forall t a b pc, In t (pool c) -> t_op t = Some (GCreateEdge a b, pc) -> (3 <= pc)%nat -> lo <= r0 (t_loc t)).
  { intros t a0 b0 pc Ht Top0 Hpc. apply (creator_id_lo lon lo c t a0 b0 pc); auto. lia. }
  assert (OLD : forall B (f : gthread -> list B) x, In x (f th) -> In x (flat_map f (pool c))).
  { intros. apply in_flat_map. eauto. }
  destruct SH as [Ee Ea Et Ec Ed Ei OK' | a b Top Ee Ea Et Ec Ed Ed0 Ei OK' | sd0 a b Ee Ein Ea Ea' Et Ec Ec' Ec'' Ed Ei OK'
                 | e a b Hlo Ein Ee Ea Et Ec Ed Ed0 Ei OK' | sd0 e a b Ee Ein Ea Et Et' Ed Ed' Ed'' Ec Ei OK'].
  - (* neutral *)
    constructor; simpl; auto.
    + unfold edom. rewrite Ee. auto.
    + unfold edom. rewrite Ee. intros x Hx. destruct (Idom x Hx) as [H|H]; auto. right.
      eapply fm_transfer; eauto.
    + intros sd s d x. rewrite Ea, Ee. apply K2.
    + intros sd x s d del. rewrite Ea, Ee. intros H. destruct (K3 sd _ _ _ _ H) as [H1|H1]; auto. right.
      eapply fm_transfer; eauto. rewrite Ec. auto.
    + intros sd k x. rewrite Et, Ee. apply K4.
    + intros sd x s d. rewrite Et, Ee. intros H. destruct (K5 sd _ _ _ H) as [H1|H1]; auto. right.
      eapply fm_transfer; eauto. rewrite Ed. auto.
    + rewrite Ee. auto.
    + apply Forall_upd_nth; auto. eapply Forall_impl; [|exact Ith]. intros t Ht. eapply th_ok_same_edges; eauto.
  - (* the creator inserts its edge into the map *)
    assert (FR : ~ In (r0 (t_loc th)) (edom (sh c))).
    { intros H. destruct (Idom _ H) as [H1|H1].
      - pose proof (creator_id_lo _ _ _ _ _ _ _ Iids Hin Top). lia.
      - apply (pending_creator_fresh lon lo c i th a b Iids E Top H1). }
    constructor; simpl; auto.
    + unfold edom in *. rewrite Ee. simpl. constructor; auto.
    + unfold edom in *. rewrite Ee. simpl. intros x [<-|Hx].
      * right. apply fm_upd_new; auto. rewrite Ei. simpl. auto.
      * destruct (Idom x Hx) as [H|H]; auto. right. eapply fm_transfer; eauto. rewrite Ei. simpl. auto.
    + intros sd s d x. rewrite Ea, Ee. intros H. destruct (K2 _ _ _ _ H) as (del & Hd). exists del. simpl. auto.
    + intros sd x s d del. rewrite Ea, Ee. simpl. intros [H|H].
      * inversion H; subst. right. apply fm_upd_new; auto. rewrite Ec. simpl. auto.
      * destruct (K3 sd _ _ _ _ H) as [H1|H1]; auto. right. eapply fm_transfer; eauto.
        intros Hc. rewrite Ec. unfold crp in Hc. rewrite Top in Hc. destruct sd; simpl in Hc; tauto.
    + intros sd k x. rewrite Et, Ee. intros H. destruct (K4 _ _ _ H) as (s & d & Hd & Hk). exists s, d. simpl. auto.
    + intros sd x s d. rewrite Et, Ee. simpl. intros [H|H]; [inversion H|].
      destruct (K5 sd _ _ _ H) as [H1|H1]; auto. right. eapply fm_transfer; eauto. rewrite Ed0. simpl. tauto.
    + rewrite Ee. simpl. intros x s d [H|H]; [inversion H|]. eauto.
    + apply Forall_upd_nth; auto. apply Forall_forall. intros t Ht. rewrite Forall_forall in Ith.
      eapply th_ok_mono; [apply Ith; auto| |].
      * intros x v Hx _. rewrite Ee. simpl. auto.
      * intros; eapply CRLO; eauto.
  - (* the creator adds the entry on side sd0 *)
    assert (CRT : forall sd x, In x (flat_map (crp sd) (pool c)) ->
                  (sd = sd0 /\ x = r0 (t_loc th)) \/ In x (flat_map (crp sd) (upd_nth i th' (pool c)))).
    { intros sd x Hx. destruct (fm_upd_keep _ _ (crp sd) i th' th (pool c) x E Hx) as [H|H]; auto.
      destruct sd, sd0; try (left; rewrite Ec in H; simpl in H; intuition congruence);
        right; apply fm_upd_new; auto; rewrite Ec''; auto; congruence. }
    constructor; simpl; auto.
    + unfold edom. rewrite Ee. auto.
    + unfold edom. rewrite Ee. intros x Hx. destruct (Idom x Hx) as [H|H]; auto. right. eapply fm_transfer; eauto.
    + intros sd s d x. rewrite Ee. destruct sd, sd0; rewrite ?Ea; try (rewrite Ea' by congruence); try apply K2.
      * simpl. intros [H|H]; [inversion H; subst; eauto|]. apply (K2 Fwd); auto.
      * simpl. intros [H|H]; [inversion H; subst; eauto|]. apply (K2 Bwd); auto.
    + intros sd x s d del. rewrite Ee. intros H. destruct (K3 sd _ _ _ _ H) as [H1|H1].
      * left. destruct sd, sd0; rewrite ?Ea; try (rewrite Ea' by congruence); simpl; auto.
      * destruct (CRT _ _ H1) as [[-> ->]|H2]; auto. left. rewrite Ea. simpl. left.
        assert (X : (s, d, del) = (a, b, false)) by (eapply nodup_key_eq; eauto).
        inversion X; subst. reflexivity.
    + intros sd k x. rewrite Et, Ee. apply K4.
    + intros sd x s d. rewrite Et, Ee. intros H. destruct (K5 sd _ _ _ H) as [H1|H1]; auto. right.
      eapply fm_transfer; eauto. rewrite Ed. auto.
    + rewrite Ee. auto.
    + apply Forall_upd_nth; auto. eapply Forall_impl; [|exact Ith]. intros t Ht. eapply th_ok_same_edges; eauto.
  - (* the deleter marks the edge in the map *)
    assert (KEEP : forall x v, In (x, v) (g_edges (sh c)) -> (snd v = true \/ lo <= x) -> In (x, v) (mark_edge e (g_edges (sh c)))).
    { intros x v Hx Hv. apply mark_edge_keep; auto. simpl. intros ->.
      assert (X : v = (a, b, false)) by (eapply nodup_key_eq; eauto). subst. simpl in Hv. destruct Hv; [discriminate|lia]. }
    constructor; simpl; auto.
    + unfold edom. rewrite Ee, mark_edge_dom. auto.
    + unfold edom in *. rewrite Ee, mark_edge_dom. intros x Hx. destruct (Idom x Hx) as [H|H]; auto. right. eapply fm_transfer; eauto.
    + intros sd s d x. rewrite Ea, Ee. intros H. destruct (K2 _ _ _ _ H) as (del & Hd).
      destruct (Z.eq_dec x e) as [->|Ne].
      * exists true. eapply mark_edge_hit; eauto.
      * exists del. apply mark_edge_keep; auto.
    + intros sd x s d del. rewrite Ea, Ee. intros H. apply mark_edge_in in H.
      destruct H as [[H _]|(s0 & d0 & del0 & H & X)].
      * destruct (K3 sd _ _ _ _ H) as [H1|H1]; auto. right. eapply fm_transfer; eauto. rewrite Ec. auto.
      * inversion X; subst. destruct (K3 sd _ _ _ _ H) as [H1|H1]; auto. right. eapply fm_transfer; eauto. rewrite Ec. auto.
    + intros sd k x. rewrite Et, Ee. intros H. destruct (K4 _ _ _ H) as (s & d & Hd & Hk). exists s, d. split; auto.
    + intros sd x s d. rewrite Et, Ee. intros H. apply mark_edge_in in H.
      destruct H as [[H _]|(s0 & d0 & del0 & H & X)].
      * destruct (K5 sd _ _ _ H) as [H1|H1]; auto. right. eapply fm_transfer; eauto.
        intros Hd. rewrite Ed0 in Hd. simpl in Hd. tauto.
      * assert (Y : (s0, d0, del0) = (a, b, false)) by (eapply nodup_key_eq; eauto).
        inversion Y; subst. inversion X; subst. right. apply fm_upd_new; auto. rewrite Ed. simpl. auto.
    + rewrite Ee. intros x s d H. apply mark_edge_in in H. destruct H as [[H _]|(s0 & d0 & del0 & H & X)]; eauto.
      inversion X; subst. auto.
    + apply Forall_upd_nth; auto. apply Forall_forall. intros t Ht. rewrite Forall_forall in Ith.
      eapply th_ok_mono; [apply Ith; auto| |].
      * rewrite Ee. auto.
      * intros; eapply CRLO; eauto.
  - (* the deleter adds the deletion mark on side sd0 *)
    assert (HL : has_list (akey sd0 a b) (adj sd0 (sh c)) = true).
    { destruct (K3 sd0 _ _ _ _ Ein) as [H|H].
      - destruct sd0; simpl in *; eapply has_list_in; eauto.
      - exfalso. apply in_flat_map in H. destruct H as (t & Ht & Hx).
        pose proof (K6 _ _ _ Ein) as Hlo.
        unfold crp in Hx. destruct (t_op t) as [[[] [|[|[|[|[|p]]]]]]|] eqn:T; destruct sd0; simpl in Hx; try tauto;
          destruct Hx as [<-|[]]; pose proof (CRLO t _ _ _ Ht T); lia. }
    rewrite HL in Et.
    constructor; simpl; auto.
    + unfold edom. rewrite Ee. auto.
    + unfold edom. rewrite Ee. intros x Hx. destruct (Idom x Hx) as [H|H]; auto. right. eapply fm_transfer; eauto.
    + intros sd s d x. rewrite Ea, Ee. apply K2.
    + intros sd x s d del. rewrite Ea, Ee. intros H. destruct (K3 sd _ _ _ _ H) as [H1|H1]; auto. right.
      eapply fm_transfer; eauto. rewrite Ec. auto.
    + intros sd k x. rewrite Ee. intros H.
      assert (C : In (k, x) (tomb sd (sh c)) \/ (sd = sd0 /\ (k, x) = (akey sd0 a b, e))).
      { destruct sd, sd0; try (rewrite Et' in H by congruence; auto);
          rewrite Et in H; apply padd_In in H; destruct H as [H|H]; auto. }
      destruct C as [C|[-> C]]; [apply K4; auto|]. inversion C; subst. exists a, b. auto.
    + intros sd x s d. rewrite Ee. intros H.
      assert (T2 : forall y, In y (tomb sd (sh c)) -> In y (tomb sd s')).
      { intros y Hy. destruct sd, sd0; try (rewrite Et' by congruence; auto); rewrite Et; apply padd_In; auto. }
      destruct (K5 sd _ _ _ H) as [H1|H1]; auto.
      destruct (fm_upd_keep _ _ (dlp sd) i th' th (pool c) _ E H1) as [H2|H2]; auto.
      destruct sd, sd0; try (right; apply fm_upd_new; auto; rewrite Ed'' by congruence; auto);
        rewrite Ed in H2; simpl in H2; destruct H2 as [H2|[]]; left; rewrite Et; apply padd_In; left; first [symmetry; exact H2 | congruence | (simpl in *; congruence)].
    + rewrite Ee. auto.
    + apply Forall_upd_nth; auto. eapply Forall_impl; [|exact Ith]. intros t Ht. eapply th_ok_same_edges; eauto.
Qed.

(** * the starting graph, the initial configuration, and the theorem *)
Record wf_adj (g : lpg) : Prop := {
  w_nd : NoDup (edom g);
  w_lt : forall e, In e (edom g) -> e < g_next_edge g;
  w_k2 : forall sd s d e, In (entry sd s d e) (adj sd g) -> exists del, In (e, (s, d, del)) (g_edges g);
  w_k3 : forall sd e s d del, In (e, (s, d, del)) (g_edges g) -> In (entry sd s d e) (adj sd g);
  w_k4 : forall sd k e, In (k, e) (tomb sd g) -> exists s d, In (e, (s, d, true)) (g_edges g) /\ k = akey sd s d;
  w_k5 : forall sd e s d, In (e, (s, d, true)) (g_edges g) -> In (akey sd s d, e) (tomb sd g)
}.

(** every delete_edge of the programs names an edge id below [lo] (= an edge of the starting graph) *)
Definition deletes_below (lo : Z) (progs : list (list gop)) : bool :=
  forallb (forallb (fun op => match op with GDeleteEdge e => e <? lo | _ => true end)) progs.

Lemma deletes_below_ok : forall lo progs, deletes_below lo progs = true -> Forall (Forall (del_ok lo)) progs.
Proof.
  unfold deletes_below. intros lo progs H. rewrite forallb_forall in H. apply Forall_forall. intros p Hp.
  specialize (H p Hp). rewrite forallb_forall in H. apply Forall_forall. intros op Hop. specialize (H op Hop).
  destruct op; simpl; auto. apply Z.ltb_lt. auto.
Qed.

Lemma adj_inv_init : forall g0 progs, wf_adj g0 -> Forall (Forall (del_ok (g_next_edge g0))) progs ->
  adj_inv (g_next_node g0) (g_next_edge g0) (ginit g0 progs).
Proof.
  intros g0 progs [Wnd Wlt W2 W3 W4 W5] D.
  constructor; simpl; auto.
  - apply ids_inv_init.
  - intros sd e s d del H. left. eapply W3; eauto.
  - intros e s d H. apply Wlt. unfold edom. apply in_map_iff. exists (e, (s, d, true)). auto.
  - apply Forall_forall. intros th Hth. apply in_map_iff in Hth. destruct Hth as (p & <- & Hp).
    apply th_ok_load. rewrite Forall_forall in D. auto.
Qed.

Lemma idle_no_pending : forall sd th, idle th = true -> crp sd th = [] /\ dlp sd th = [].
Proof. intros sd th H. unfold idle in H. unfold crp, dlp. destruct (t_op th); [discriminate|]. destruct sd; auto. Qed.

Lemma finished_no_pending : forall (c : gcfg) sd, finished c = true ->
  flat_map (crp sd) (pool c) = [] /\ flat_map (dlp sd) (pool c) = [].
Proof.
  intros c sd F. unfold finished in F. rewrite forallb_forall in F.
  induction (pool c) as [|th t IH]; simpl; auto.
  destruct (idle_no_pending sd th) as [-> ->]; [apply F; simpl; auto|].
  apply IH. intros x Hx. apply F. simpl. auto.
Qed.

Lemma adj_visible_In : forall x adjl del, In x (adj_visible adjl del) <-> In x adjl /\ ~ In (fst (fst x), snd x) del.
Proof.
  unfold adj_visible. intros x adjl del. rewrite filter_In. split; intros [H1 H2]; split; auto.
  - intros H. apply pmem_In in H. rewrite H in H2. discriminate.
  - destruct (pmem (fst (fst x), snd x) del) eqn:P; auto. apply pmem_In in P. tauto.
Qed.

Lemma live_edges_In : forall g e s d, In (e, s, d) (live_edges g) <-> In (e, (s, d, false)) (g_edges g).
Proof.
  unfold live_edges. intros g e s d. rewrite in_map_iff. split.
  - intros ([k [[a b] del]] & X & H). apply filter_In in H. destruct H as [H Hd]. simpl in *.
    inversion X; subst. destruct del; [discriminate|]. auto.
  - intros H. exists (e, (s, d, false)). split; auto. apply filter_In. auto.
Qed.

Lemma adjacency_consistent_outside_K_l : forall g0 progs sched,
  wf_adj g0 -> deletes_below (g_next_edge g0) progs = true ->
  let c := grun sched (ginit g0 progs) in
  finished c = true ->
  forall s d e,
    (In (s, d, e) (adj_visible (g_fwd (sh c)) (g_fwd_del (sh c))) <-> In (e, s, d) (live_edges (sh c))) /\
    (In (d, s, e) (adj_visible (g_bwd (sh c)) (g_bwd_del (sh c))) <-> In (e, s, d) (live_edges (sh c))).
Proof.
  intros g0 progs sched W D c F s d e.
  assert (I : adj_inv (g_next_node g0) (g_next_edge g0) c).
  { apply (run_inv _ _ _ _ _ gcode gexec (adj_inv (g_next_node g0) (g_next_edge g0))).
    - intros. apply adj_inv_step. auto.
    - apply adj_inv_init; auto. apply deletes_below_ok. auto. }
  destruct I as [_ Ind _ K2 K3 K4 K5 _ _].
  assert (SIDE : forall sd, In (entry sd s d e) (adj_visible (adj sd (sh c)) (tomb sd (sh c))) <-> In (e, s, d) (live_edges (sh c))).
  { intros sd. destruct (finished_no_pending c sd F) as [C0 D0].
    rewrite adj_visible_In, live_edges_In.
    assert (KEY : (fst (fst (entry sd s d e)), snd (entry sd s d e)) = (akey sd s d, e)) by (destruct sd; reflexivity).
    rewrite KEY. split.
    - intros [H1 H2]. destruct (K2 _ _ _ _ H1) as (del & Hd). destruct del; auto.
      exfalso. destruct (K5 sd _ _ _ Hd) as [H|H]; [tauto|]. rewrite D0 in H. destruct H.
    - intros H. split.
      + destruct (K3 sd _ _ _ _ H) as [H1|H1]; auto. rewrite C0 in H1. destruct H1.
      + intros T. destruct (K4 _ _ _ T) as (s1 & d1 & Hd & _).
        assert (X : (s1, d1, true) = (s, d, false)) by (eapply nodup_key_eq; eauto). discriminate. }
  split; [apply (SIDE Fwd)|apply (SIDE Bwd)].
Qed.

(** the starting graph of the scheduler harness is well-formed, and complete runs exist (non-vacuity) *)
Lemma wf_adj_lpg0 : wf_adj lpg0.
Proof.
  constructor; [apply NoDup_nil | intros e [] | intros [] s d e [] | intros sd e s d del [] | intros [] k e [] | intros sd e s d []].
Qed.


(** well-formedness is preserved by complete runs (so graphs built by earlier runs are well-formed starting graphs) *)
Lemma ins_sub_ids : forall (l : list gthread) x, In x (flat_map ins l) -> In x (flat_map (ids_of is_cedge) l).
Proof.
  intros l x Hx. apply in_flat_map in Hx. destruct Hx as (t & Ht & Hx). apply in_flat_map. exists t. split; auto.
  unfold ins in Hx. unfold ids_of. apply in_app_or in Hx. apply in_or_app. destruct Hx as [Hx|Hx]; auto.
  left. unfold einserted in Hx. unfold inflight. destruct (t_op t) as [[[] [|[|[|p]]]]|]; simpl in *; tauto.
Qed.

Lemma wf_adj_of_run : forall g0 progs sched,
  wf_adj g0 -> deletes_below (g_next_edge g0) progs = true ->
  let c := grun sched (ginit g0 progs) in
  finished c = true -> wf_adj (sh c).
Proof.
  intros g0 progs sched W D c F.
  assert (I : adj_inv (g_next_node g0) (g_next_edge g0) c).
  { apply (run_inv _ _ _ _ _ gcode gexec (adj_inv (g_next_node g0) (g_next_edge g0))).
    - intros. apply adj_inv_step. auto.
    - apply adj_inv_init; auto. apply deletes_below_ok. auto. }
  destruct I as [Iids Ind Idom K2 K3 K4 K5 _ _].
  constructor; auto.
  - intros e He. destruct (Idom e He) as [H|H].
    + pose proof (ii_lo _ _ _ Iids). lia.
    + apply ins_sub_ids in H. apply (ii_eb _ _ _ Iids) in H. lia.
  - intros sd e s d del H. destruct (K3 sd _ _ _ _ H) as [H1|H1]; auto.
    destruct (finished_no_pending c sd F) as [C0 _]. rewrite C0 in H1. destruct H1.
  - intros sd e s d H. destruct (K5 sd _ _ _ H) as [H1|H1]; auto.
    destruct (finished_no_pending c sd F) as [_ D0]. rewrite D0 in H1. destruct H1.
Qed.

From GV Require Import Conc.ProofsLock.
Lemma wf_adj_three_nodes : wf_adj g_three_nodes.
Proof.
  apply (wf_adj_of_run lpg0 [[GCreateNode [1]; GCreateNode [1; 2]; GCreateNode []; GCreateEdge 0 1; GCreateEdge 1 2]] (repeat 0%nat 40)).
  - apply wf_adj_lpg0.
  - reflexivity.
  - vm_compute. reflexivity.
Qed.

Example nv_adjacency :
  deletes_below (g_next_edge g_three_nodes) [[GCreateEdge 2 0; GDeleteEdge 0]; [GDeleteEdge 0; GCreateEdge 0 2]; [GDeleteEdge 1]] = true /\
  finished (grun (round_robin 3 12) (ginit g_three_nodes [[GCreateEdge 2 0; GDeleteEdge 0]; [GDeleteEdge 0; GCreateEdge 0 2]; [GDeleteEdge 1]])) = true.
Proof. vm_compute. split; reflexivity. Qed.
