(** C20 — commit epochs are unique and increasing, transaction ids are unique: every number of
    threads, every program, every schedule. *)
From Coq Require Import ZArith List Bool Lia Permutation Sorted.
From GV Require Import Conc.Ops Conc.ProofsSem.
Import ListNotations.
Open Scope Z_scope.

Notation mthread := (@thread regs mop out).

(** epochs returned by the successful commits of a thread, most recent first *)
Definition commit_epochs (o : list (mop * out)) : list Z :=
  flat_map (fun x => match x with (MCommitOp _, OZ z) => [z] | _ => [] end) o.
Definition begun (o : list (mop * out)) : list Z :=
  flat_map (fun x => match x with (MBegin _, OZ z) => [z] | _ => [] end) o.
Definition tx_inflight (th : mthread) : list Z :=
  match t_op th with Some (MBegin _, S _) => [r0 (t_loc th)] | _ => [] end.
Definition tx_ids (th : mthread) : list Z := tx_inflight th ++ begun (t_out th).

Definition all_commit_epochs (c : mcfg) : list Z := flat_map (fun th => commit_epochs (t_out th)) (pool c).
Definition all_begun (c : mcfg) : list Z := flat_map (fun th => begun (t_out th)) (pool c).
(** the same in program order *)
Definition epochs_in_order (th : mthread) : list Z := rev (commit_epochs (t_out th)).

Lemma tx_inflight_load : forall l todo o, tx_inflight (load l todo o) = [].
Proof. intros. destruct todo as [|[]]; reflexivity. Qed.
Lemma m_t_out_load : forall (l : regs) todo (o : list (mop * out)), t_out (load l todo o) = o.
Proof. intros. destruct todo; reflexivity. Qed.

Record m_effect (s : tm) (th : mthread) (s' : tm) (th' : mthread) : Prop := {
  me_c : (commit_epochs (t_out th') = commit_epochs (t_out th) /\ m_epoch s' = m_epoch s) \/
         (commit_epochs (t_out th') = (m_epoch s + 1) :: commit_epochs (t_out th) /\ m_epoch s' = m_epoch s + 1);
  me_b : (tx_ids th' = tx_ids th /\ m_next s' = m_next s) \/
         (tx_ids th' = m_next s :: tx_ids th /\ m_next s' = m_next s + 1)
}.

Ltac mcrunch :=
  repeat match goal with
  | H : (_, _) = (_, _) |- _ => inversion H; subst; clear H
  end.
Ltac msolve :=
  constructor; unfold tx_ids; simpl;
  rewrite ?tx_inflight_load, ?m_t_out_load; unfold tx_inflight, commit_epochs, begun; simpl;
  try (left; split; reflexivity); try (right; split; reflexivity).

Lemma mstep_effect : forall s th s' th', step_thread mcode mexec s th = (s', th') -> m_effect s th s' th'.
Proof.
  intros s [top tl ttodo tout] s' th' H. unfold step_thread in H. simpl in H.
  destruct top as [[op pc]|]; [|mcrunch; msolve].
  destruct op as [sl|sl|sl].
  - destruct pc as [|[|[|pc]]]; simpl in H.
    + mcrunch; msolve.
    + mcrunch; msolve.
    + mcrunch; msolve.
    + destruct pc; simpl in H; mcrunch; msolve.
  - destruct pc as [|pc]; simpl in H.
    + destruct (aget sl (mem tl)) as [tx|]; [|mcrunch; msolve].
      destruct (aget tx (m_txs s)) as [[st [|p|p]]|]; mcrunch; msolve.
    + destruct pc; simpl in H; mcrunch; msolve.
  - destruct pc as [|pc]; simpl in H.
    + destruct (aget sl (mem tl)) as [tx|]; [|mcrunch; msolve].
      destruct (aget tx (m_txs s)) as [[st [|p|p]]|]; mcrunch; msolve.
    + destruct pc; simpl in H; mcrunch; msolve.
Qed.

Record tm_inv (c : mcfg) : Prop := {
  ti_nd : NoDup (all_commit_epochs c);
  ti_b : forall e, In e (all_commit_epochs c) -> 1 <= e <= m_epoch (sh c);
  ti_len : Z.of_nat (length (all_commit_epochs c)) = m_epoch (sh c);
  ti_sorted : forall th, In th (pool c) -> StronglySorted Z.gt (commit_epochs (t_out th));
  ti_tnd : NoDup (flat_map tx_ids (pool c));
  ti_tb : forall t, In t (flat_map tx_ids (pool c)) -> 2 <= t < m_next (sh c);
  ti_next : 2 <= m_next (sh c)
}.

Lemma init_epochs_nil : forall progs, all_commit_epochs (minit progs) = [].
Proof.
  unfold all_commit_epochs, minit, init. simpl. induction progs; simpl; auto.
  rewrite m_t_out_load. simpl. auto.
Qed.
Lemma init_txids_nil : forall progs, flat_map tx_ids (pool (minit progs)) = [].
Proof.
  unfold minit, init. simpl. induction progs; simpl; auto. unfold tx_ids at 1.
  rewrite m_t_out_load, tx_inflight_load. simpl. auto.
Qed.

Lemma tm_inv_init : forall progs, tm_inv (minit progs).
Proof.
  intros.
  assert (T : forall th, In th (pool (minit progs)) -> t_out th = [] /\ tx_inflight th = []).
  { unfold minit, init. simpl. intros th Hth. apply in_map_iff in Hth. destruct Hth as (p & <- & _).
    rewrite m_t_out_load, tx_inflight_load. auto. }
  constructor; rewrite ?init_epochs_nil, ?init_txids_nil; simpl; try (constructor; fail); try tauto; try lia.
  intros th Hth. destruct (T th Hth) as [-> _]. constructor.
Qed.

Lemma tm_inv_step : forall c i, tm_inv c -> tm_inv (step mcode mexec c i).
Proof.
  intros c i H.
  destruct (nth_error (pool c) i) as [th|] eqn:E; [|rewrite step_none; auto].
  rewrite (step_unfold _ _ _ _ _ mcode mexec c i th E).
  destruct (step_thread mcode mexec (sh c) th) as [s' th'] eqn:ST. simpl.
  pose proof (mstep_effect _ _ _ _ ST) as F.
  pose proof (nth_error_In _ _ E) as Hin.
  destruct H as [Hnd Hb Hlen Hs Htnd Htb Hn].
  set (f := fun th : mthread => commit_epochs (t_out th)) in *.
  assert (Hn' : 2 <= m_next s') by (destruct (me_b _ _ _ _ F) as [[_ ->]|[_ ->]]; lia).
  unfold all_commit_epochs in *. simpl in *. fold f in Hnd, Hb, Hlen |- *.
  constructor; unfold all_commit_epochs; simpl; auto; fold f.
  - destruct (me_c _ _ _ _ F) as [[Ei _]|[Ei _]].
    + rewrite (flat_map_upd_same _ _ f _ _ _ _ E Ei). auto.
    + eapply Permutation_NoDup; [symmetry; apply (flat_map_upd_cons _ _ f _ _ _ _ _ E Ei)|].
      constructor; auto. intro Hi. apply Hb in Hi. lia.
  - intros e He. destruct (me_c _ _ _ _ F) as [[Ei ->]|[Ei ->]].
    + rewrite (flat_map_upd_same _ _ f _ _ _ _ E Ei) in He. auto.
    + eapply Permutation_in in He; [|apply (flat_map_upd_cons _ _ f _ _ _ _ _ E Ei)].
      destruct He as [<-|He]; [lia|]. apply Hb in He. lia.
  - destruct (me_c _ _ _ _ F) as [[Ei ->]|[Ei ->]].
    + rewrite (flat_map_upd_same _ _ f _ _ _ _ E Ei). auto.
    + rewrite (Permutation_length (flat_map_upd_cons _ _ f _ _ _ _ _ E Ei)). simpl length. lia.
  - intros th0 Hth0. apply In_upd_nth in Hth0. destruct Hth0 as [->|Hth0]; auto.
    destruct (me_c _ _ _ _ F) as [[Ei _]|[Ei _]]; rewrite Ei; auto.
    constructor; auto. apply Forall_forall. intros x Hx.
    assert (In x (flat_map f (pool c))) by (apply in_flat_map; exists th; auto).
    apply Hb in H. lia.
  - destruct (me_b _ _ _ _ F) as [[Ei _]|[Ei _]].
    + rewrite (flat_map_upd_same _ _ tx_ids _ _ _ _ E Ei). auto.
    + eapply Permutation_NoDup; [symmetry; apply (flat_map_upd_cons _ _ tx_ids _ _ _ _ _ E Ei)|].
      constructor; auto. intro Hi. apply Htb in Hi. lia.
  - intros t Ht. destruct (me_b _ _ _ _ F) as [[Ei ->]|[Ei ->]].
    + rewrite (flat_map_upd_same _ _ tx_ids _ _ _ _ E Ei) in Ht. auto.
    + eapply Permutation_in in Ht; [|apply (flat_map_upd_cons _ _ tx_ids _ _ _ _ _ E Ei)].
      destruct Ht as [<-|Ht]; [lia|]. apply Htb in Ht. lia.
Qed.

Lemma ss_snoc : forall (R : Z -> Z -> Prop) l a,
  StronglySorted R l -> (forall x, In x l -> R x a) -> StronglySorted R (l ++ [a]).
Proof.
  induction l; simpl; intros.
  - constructor; constructor.
  - inversion H; subst. constructor.
    + apply IHl; auto.
    + apply Forall_app. split; auto.
Qed.

Lemma ss_rev_gt : forall l, StronglySorted Z.gt l -> StronglySorted Z.lt (rev l).
Proof.
  induction 1; simpl; [constructor|].
  apply ss_snoc; auto. intros x Hx. apply in_rev in Hx.
  rewrite Forall_forall in H0. specialize (H0 _ Hx). lia.
Qed.

Lemma commit_epochs_unique_increasing_l : forall progs sched,
  let c := mrun sched (minit progs) in
  NoDup (all_commit_epochs c) /\
  (forall th, In th (pool c) -> StronglySorted Z.lt (epochs_in_order th)) /\
  (forall e, In e (all_commit_epochs c) -> 1 <= e <= m_epoch (sh c)) /\
  Z.of_nat (length (all_commit_epochs c)) = m_epoch (sh c).
Proof.
  intros progs sched c.
  assert (H : tm_inv c).
  { apply (run_inv _ _ _ _ _ mcode mexec tm_inv); [intros; apply tm_inv_step; auto|apply tm_inv_init]. }
  destruct H as [Hnd Hb Hlen Hs _ _ _].
  repeat split; auto; try apply Hb; auto.
  intros th Hth. apply ss_rev_gt. auto.
Qed.

Lemma tx_ids_unique_l : forall progs sched,
  let c := mrun sched (minit progs) in
  NoDup (all_begun c) /\ (forall t, In t (all_begun c) -> 2 <= t < m_next (sh c)).
Proof.
  intros progs sched c.
  assert (H : tm_inv c).
  { apply (run_inv _ _ _ _ _ mcode mexec tm_inv); [intros; apply tm_inv_step; auto|apply tm_inv_init]. }
  destruct H as [_ _ _ _ Htnd Htb _].
  split.
  - apply (nodup_flat_map_suffix _ tx_inflight _ _ Htnd).
  - intros t Ht. apply Htb. unfold all_begun in Ht. apply in_flat_map in Ht. destruct Ht as (th & Hth & Ht).
    apply in_flat_map. exists th. split; auto. unfold tx_ids. apply in_or_app. auto.
Qed.
