(** C20 — exhaustive exploration of ALL schedules inside Coq.

    [forall_scheds fuel c P] walks the whole tree of schedules from configuration [c] (at every
    node: one branch per thread that still has a step to take) and checks [P] at every leaf
    (= every configuration in which all threads are finished).  [forall_scheds_sound] turns a
    [true] answer into a statement about [run sched c] for EVERY schedule, no-op entries included.

    It is instantiated on the finite tables of operation templates that the scheduler harness
    enumerates (two threads, one operation each, shared entities): for every pair outside the
    finding classes and every schedule, the outputs and the final observation are those of some
    sequential order of the two operations and the cross-checks hold.  The domain of these
    theorems is the finite table (as for [ops_respect_rank]); they are proved by computation. *)
From Coq Require Import String ZArith List Bool Lia Arith.
From GV Require Import Conc.Ops Conc.ProofsSem Conc.Run.
Import ListNotations.
Open Scope Z_scope.

Section All.
  Variables (St L K Op Out : Type).
  Variable code : Op -> list K.
  Variable exec : K -> St -> L -> St * L * ctl Out.
  Notation config := (@config St L Op Out).

  Definition live (c : config) (i : nat) : bool :=
    match nth_error (pool c) i with Some th => negb (idle th) | None => false end.

  Fixpoint forall_scheds (fuel : nat) (c : config) (P : config -> bool) : bool :=
    if finished c then P c
    else match fuel with
         | O => false
         | S f => forallb (fun i => forall_scheds f (step code exec c i) P)
                          (filter (live c) (seq 0 (length (pool c))))
         end.

  Lemma upd_nth_id : forall A i (a : A) l, nth_error l i = Some a -> upd_nth i a l = l.
  Proof. induction i; destruct l; simpl; intros; try discriminate; auto. inversion H; auto. f_equal; auto. Qed.

  Lemma step_not_live : forall c i, live c i = false -> step code exec c i = c.
  Proof.
    intros [s p] i H. unfold live in H. unfold step. simpl in *.
    destruct (nth_error p i) as [th|] eqn:E; auto.
    unfold idle in H. unfold step_thread. destruct (t_op th) eqn:T; [discriminate|].
    rewrite upd_nth_id; auto.
  Qed.

  Lemma finished_not_live : forall c i, finished c = true -> live c i = false.
  Proof.
    intros c i F. unfold live. destruct (nth_error (pool c) i) as [th|] eqn:E; auto.
    unfold finished in F. rewrite forallb_forall in F. rewrite (F th); auto. eapply nth_error_In; eauto.
  Qed.

  Lemma live_lt : forall c i, live c i = true -> (i < length (pool c))%nat.
  Proof.
    intros c i H. unfold live in H. destruct (nth_error (pool c) i) eqn:E; [|discriminate].
    apply nth_error_Some. congruence.
  Qed.

  Lemma forall_scheds_sound : forall fuel c P,
    forall_scheds fuel c P = true ->
    forall sched, finished (run code exec sched c) = true -> P (run code exec sched c) = true.
  Proof.
    induction fuel as [|f IH]; intros c P H sched.
    - simpl in H. destruct (finished c) eqn:F; [|discriminate].
      assert (R : run code exec sched c = c).
      { induction sched as [|i t IHt]; simpl; auto. rewrite step_not_live; auto. apply finished_not_live; auto. }
      rewrite R. auto.
    - revert c H. induction sched as [|i t IHt]; intros c H Fin; simpl in *.
      + rewrite Fin in H. auto.
      + destruct (finished c) eqn:F.
        * rewrite (step_not_live c i) in *; try (apply finished_not_live; auto).
          apply IHt; auto. rewrite F. auto.
        * destruct (live c i) eqn:Lv.
          -- rewrite forallb_forall in H. apply IH; auto. apply H.
             apply filter_In. split; auto. apply in_seq. pose proof (live_lt _ _ Lv). lia.
          -- rewrite (step_not_live c i Lv) in *. apply IHt; auto. rewrite F. auto.
  Qed.
End All.
Arguments forall_scheds {St L K Op Out}.

(** * property graph: every pair of templates outside the classes, every schedule *)
Definition lpg_templates : list gop :=
  [GCreateNode [2]; GDeleteNode 0; GAddLabel 0 2; GRemoveLabel 0 1; GCreateEdge 0 1; GDeleteEdge 0;
   GAddLabel 0 1; GRemoveLabel 0 2; GCreateNode [1; 3]; GCreateNode []; GAddLabel 0 3; GDeleteNode 1;
   GCreateEdge 2 0; GDeleteEdge 2; GAddLabel 3 1; GDeleteNode 3].
Definition lpg_setup : list gop := [GCreateNode [1]; GCreateNode [1; 2]; GCreateNode []; GCreateEdge 0 1; GCreateEdge 1 2].
Definition lpg_labels : list Z := [1; 2; 3].

Definition lpg_lin_ok (progs : list (list gop)) (c : gcfg) : bool :=
  let o := observe (sh c) lpg_labels in
  orc_lpg lpg_setup progs lpg_labels (outputs c) o.

Definition lpg_pair_ok (a b : gop) : bool :=
  let progs := [[a]; [b]] in
  k_edge_torn 2 progs ||
  forall_scheds gcode gexec 16 (ginit (gsetup lpg_setup) progs) (lpg_lin_ok progs).

Lemma lpg_pairs_all : forallb (fun a => forallb (lpg_pair_ok a) lpg_templates) lpg_templates = true.
Proof. vm_compute. reflexivity. Qed.

Lemma lpg_pairs_linearizable_l : forall a b sched,
  In a lpg_templates -> In b lpg_templates -> k_edge_torn 2 [[a]; [b]] = false ->
  let c := grun sched (ginit (gsetup lpg_setup) [[a]; [b]]) in
  finished c = true -> lpg_lin_ok [[a]; [b]] c = true.
Proof.
  intros a b sched Ha Hb K2 c Fin.
  pose proof lpg_pairs_all as T. rewrite forallb_forall in T. specialize (T a Ha).
  rewrite forallb_forall in T. specialize (T b Hb). unfold lpg_pair_ok in T.
  rewrite K2 in T. rewrite !orb_false_l in T.
  apply (forall_scheds_sound _ _ _ _ _ gcode gexec 16 _ _ T sched). exact Fin.
Qed.

(** * triple store *)
Definition rdf_templates : list qop := [QInsert 1; QInsert 0; QRemove 0; QRemove 1; QInsert 3; QRemove 2].
Definition rdf_lin_ok (progs : list (list qop)) (c : qcfg) : bool :=
  let q := sh c in
  orc_rdf [0; 1; 2; 3; 4; 5] [0; 2] progs (outputs c) (mkQObs (q_prim q) (q_s q) (q_p q) (q_o q)).
Definition rdf_pair_ok (a b : qop) : bool :=
  let progs := [[a]; [b]] in
  forall_scheds qcode qexec 12 (qinit (rdf_of [0; 2]) progs) (rdf_lin_ok progs).
Lemma rdf_pairs_all : forallb (fun a => forallb (rdf_pair_ok a) rdf_templates) rdf_templates = true.
Proof. vm_compute. reflexivity. Qed.
Lemma rdf_pairs_linearizable_l : forall a b sched,
  In a rdf_templates -> In b rdf_templates ->
  let c := qrun sched (qinit (rdf_of [0; 2]) [[a]; [b]]) in
  finished c = true -> rdf_lin_ok [[a]; [b]] c = true.
Proof.
  intros a b sched Ha Hb c Fin.
  pose proof rdf_pairs_all as T. rewrite forallb_forall in T. specialize (T a Ha).
  rewrite forallb_forall in T. specialize (T b Hb). unfold rdf_pair_ok in T.
  apply (forall_scheds_sound _ _ _ _ _ qcode qexec 12 _ _ T sched). exact Fin.
Qed.

(** * transaction manager and buffer manager: the enumerated two-thread programs *)
Definition tm_programs : list (list (list mop)) :=
  [ [[MBegin 0]; [MBegin 0]];
    [[MBegin 0; MCommitOp 0]; [MBegin 0; MCommitOp 0]];
    [[MBegin 0; MAbortOp 0]; [MBegin 1; MCommitOp 1]];
    [[MBegin 0; MCommitOp 0; MCommitOp 0]; [MCommitOp 0; MBegin 0]] ].
Definition tm_lin_ok (progs : list (list mop)) (c : mcfg) : bool :=
  orc_tm progs (outputs c) (m_epoch (sh c)) (m_next (sh c)).
Lemma tm_programs_all :
  forallb (fun progs => forall_scheds mcode mexec 16 (minit progs) (tm_lin_ok progs)) tm_programs = true.
Proof. vm_compute. reflexivity. Qed.
Lemma tm_programs_linearizable_l : forall progs sched,
  In progs tm_programs ->
  let c := mrun sched (minit progs) in finished c = true -> tm_lin_ok progs c = true.
Proof.
  intros progs sched Hp c Fin. pose proof tm_programs_all as T. rewrite forallb_forall in T.
  apply (forall_scheds_sound _ _ _ _ _ mcode mexec 16 _ _ (T progs Hp) sched). exact Fin.
Qed.

Definition buf_programs : list (list (list bop)) :=
  [ [[BAlloc 0 6]; [BAlloc 1 6]];
    [[BAlloc 0 5]; [BAlloc 1 5]];
    [[BAlloc 0 6; BRelease 0]; [BAlloc 1 6]];
    [[BAlloc 0 6; BRelease 0]; [BAlloc 5 6; BRelease 5]];
    [[BAlloc 0 11]; [BAlloc 1 0; BRelease 1]] ].
(** final counters and outputs are those of some sequential order, and the counters equal what is held *)
Definition buf_lin_ok (progs : list (list bop)) (c : bcfg) : bool :=
  let held := flat_map held_after (outputs c) in
  (0 <=? b_alloc (sh c)) && (b_alloc (sh c) <=? 10) && (b_alloc (sh c) =? sum_snd held) &&
  chk_buf_seq 10 progs (outputs c) (b_alloc (sh c)) (b_regs (sh c)).
Lemma buf_programs_all :
  forallb (fun progs => forall_scheds bcode bexec 16 (binit 10 progs) (buf_lin_ok progs)) buf_programs = true.
Proof. vm_compute. reflexivity. Qed.
Lemma buf_programs_linearizable_l : forall progs sched,
  In progs buf_programs ->
  let c := brun sched (binit 10 progs) in finished c = true -> buf_lin_ok progs c = true.
Proof.
  intros progs sched Hp c Fin. pose proof buf_programs_all as T. rewrite forallb_forall in T.
  apply (forall_scheds_sound _ _ _ _ _ bcode bexec 16 _ _ (T progs Hp) sched). exact Fin.
Qed.

(** * C20-K8: an operation addressed to a node whose creation by another thread is still in flight.
      Thread 1 is handed id 3 first; thread 0 creates node 4 completely and then deletes "node 3",
      which is not inserted yet: delete_node answers false although no sequential order of the four
      operations gives (thread 0: id 4, false; thread 1: id 3, false) — id allocation and insertion
      of create_node are two steps. *)
Lemma create_guess_refuted_l :
  exists progs sched,
    progs = [[GCreateNode [3]; GDeleteNode 3]; [GCreateNode [2; 3]; GAddLabel 3 2]] /\
    sched = [1; 0; 0; 0; 1; 0; 1; 1; 1; 0; 0; 1; 1; 1]%nat /\
    k_id_guess 3 progs = true /\
    let c := grun sched (ginit (gsetup lpg_setup) progs) in
    finished c = true /\
    outputs c = [[(GCreateNode [3], OZ 4); (GDeleteNode 3, OB false)]; [(GCreateNode [2; 3], OZ 3); (GAddLabel 3 2, OB false)]] /\
    lobs_consistent (observe (sh c) lpg_labels) = true /\
    chk_lpg_seq lpg_setup progs lpg_labels (outputs c) (observe (sh c) lpg_labels) = false.
Proof. eexists; eexists. vm_compute. repeat split; reflexivity. Qed.
