(** C20 — sequential refinement for create-only programs: whatever the schedule, the final
    state and the outputs are those of running the operations one after another in the order
    of their id allocations. *)
From Coq Require Import ZArith List Bool Lia Permutation Arith.
From GV Require Import Conc.Ops Conc.ProofsSem Conc.ProofsIds.
Import ListNotations.
Open Scope Z_scope.

(** * states as sets of facts *)
Inductive fact :=
| FNode (n : Z) (d : bool) | FNl (n : Z) (ls : list Z) | FLi (l n : Z) | FCat (l : Z)
| FEdge (e s d : Z) (del : bool) | FFwd (s d e : Z) | FBwd (d s e : Z).

Definition holds (g : lpg) (f : fact) : Prop :=
  match f with
  | FNode n d => In (n, d) (g_nodes g)
  | FNl n ls => In (n, ls) (g_nlabels g)
  | FLi l n => In (l, n) (g_lindex g)
  | FCat l => In l (g_catalog g)
  | FEdge e s d del => In (e, (s, d, del)) (g_edges g)
  | FFwd s d e => In (s, d, e) (g_fwd g)
  | FBwd d s e => In (d, s, e) (g_bwd g)
  end.

Record lpg_equiv (a b : lpg) : Prop := {
  eq_nn : g_next_node a = g_next_node b;
  eq_ne : g_next_edge a = g_next_edge b;
  eq_fd : g_fwd_del a = g_fwd_del b;
  eq_bd : g_bwd_del a = g_bwd_del b;
  eq_facts : forall f, holds a f <-> holds b f
}.

Definition is_create (op : gop) : bool := match op with GCreateNode _ | GCreateEdge _ _ => true | _ => false end.

(** facts added by one (non-allocating) step of a creation holding id [id] *)
Definition step_facts (id : Z) (k : gk) : list fact :=
  match k with
  | GNCat l => [FCat l]
  | GNIdx l => [FLi l id]
  | GNLabels ls => [FNl id ls]
  | GNIns => [FNode id false]
  | GEIns s d => [FEdge id s d false]
  | GEFwd s d => [FFwd s d id]
  | GEBwd s d => [FBwd d s id]
  | _ => []
  end.

Definition nlkeys (g : lpg) : list Z := map fst (g_nlabels g).

Lemma pmem_In : forall p l, pmem p l = true <-> In p l.
Proof.
  unfold pmem. intros [a b] l. rewrite existsb_exists. split.
  - intros ((c, d) & Hin & E). unfold pair_eqb in E. simpl in E. apply andb_true_iff in E.
    destruct E as [E1 E2]. apply Z.eqb_eq in E1. apply Z.eqb_eq in E2. subst. auto.
  - intros H. exists (a, b). split; auto. unfold pair_eqb. simpl. rewrite !Z.eqb_refl. auto.
Qed.
Lemma padd_In : forall p x l, In x (padd p l) <-> x = p \/ In x l.
Proof.
  intros. unfold padd. destruct (pmem p l) eqn:E; simpl.
  - apply pmem_In in E. split; auto. intros [->|H]; auto.
  - split; intros [H|H]; auto.
Qed.
Lemma zmem_In : forall z l, zmem z l = true <-> In z l.
Proof.
  unfold zmem. intros. rewrite existsb_exists. split.
  - intros (y & Hy & E). apply Z.eqb_eq in E. subst. auto.
  - intros H. exists z. split; auto. apply Z.eqb_refl.
Qed.
Lemma zadd_In : forall z x l, In x (zadd z l) <-> x = z \/ In x l.
Proof.
  intros. unfold zadd. destruct (zmem z l) eqn:E; simpl.
  - apply zmem_In in E. split; auto. intros [->|H]; auto.
  - split; intros [H|H]; auto.
Qed.
Lemma adel_fresh : forall V k (m : list (Z * V)), ~ In k (map fst m) -> adel k m = m.
Proof.
  unfold adel. induction m as [|[a v] t]; simpl; intros; auto.
  destruct (a =? k) eqn:E; [apply Z.eqb_eq in E; subst; tauto|]. simpl. f_equal. apply IHt. tauto.
Qed.

(** effect of one non-allocating creation step *)
Definition create_step (k : gk) : bool :=
  match k with GNCat _ | GNIdx _ | GNLabels _ | GNIns | GECat | GEIns _ _ | GEFwd _ _ | GEBwd _ _ => true | _ => false end.
Definition last_step (k : gk) : bool := match k with GNIns | GEBwd _ _ => true | _ => false end.

Record adds (g g' : lpg) (fs : list fact) : Prop := {
  ad_nn : g_next_node g' = g_next_node g;
  ad_ne : g_next_edge g' = g_next_edge g;
  ad_fd : g_fwd_del g' = g_fwd_del g;
  ad_bd : g_bwd_del g' = g_bwd_del g;
  ad_facts : forall f, holds g' f <-> holds g f \/ In f fs
}.

Ltac fsolve :=
  split; intros H;
  [ repeat (destruct H as [H|H]); subst; auto; try (inversion H; subst; auto)
  | repeat (destruct H as [H|H]); try contradiction; try discriminate; auto; try (inversion H; subst; auto) ].

Lemma step_adds : forall k g l,
  create_step k = true ->
  (forall ls, k = GNLabels ls -> ~ In (r0 l) (nlkeys g)) ->
  exists g', gexec k g l = (g', l, if last_step k then Ret (OZ (r0 l)) else Next) /\ adds g g' (step_facts (r0 l) k).
Proof.
  intros k g l C Hl. destruct k; try discriminate; simpl; eexists; (split; [reflexivity|]);
    constructor; try reflexivity; intros f; destruct f; simpl; rewrite ?padd_In, ?zadd_In;
    try (unfold aset; rewrite adel_fresh by (apply (Hl _ eq_refl)); simpl); fsolve.
Qed.

Lemma adds_refl : forall g, adds g g [].
Proof. intros. constructor; auto. intros. simpl. tauto. Qed.
Lemma adds_trans : forall g1 g2 g3 f1 f2, adds g1 g2 f1 -> adds g2 g3 f2 -> adds g1 g3 (f1 ++ f2).
Proof.
  intros g1 g2 g3 f1 f2 [a1 a2 a3 a4 a5] [b1 b2 b3 b4 b5]. constructor; try congruence.
  intros f. rewrite b5, a5, in_app_iff. tauto.
Qed.

Lemma step_nl : forall k g l, create_step k = true -> (forall ls, k <> GNLabels ls) ->
  g_nlabels (fst (fst (gexec k g l))) = g_nlabels g.
Proof. intros k g l C N. destruct k; try discriminate; simpl; auto. exfalso. eapply N; eauto. Qed.

Lemma gexec_no_goto : forall k s l s' l' p, gexec k s l = (s', l', Goto p) -> False.
Proof.
  intros k s l s' l' p H. destruct k; simpl in H;
  repeat match type of H with
  | context [if ?b then _ else _] => destruct b
  | context [match ?x with _ => _ end] => destruct x
  end; inversion H.
Qed.

(** the label loop of create_node *)
Definition label_loop (ls : list Z) : list gk := flat_map (fun lb => [GNCat lb; GNIdx lb]) ls.

Lemma loop_run : forall ls g l,
  exists g', run_steps gexec (label_loop ls) g l = (g', l, None) /\
             adds g g' (flat_map (step_facts (r0 l)) (label_loop ls)) /\ g_nlabels g' = g_nlabels g.
Proof.
  induction ls as [|lb ls IH]; intros g l.
  - exists g. simpl. repeat split; auto. apply adds_refl.
  - simpl label_loop. cbn [app].
    destruct (step_adds (GNCat lb) g l eq_refl) as (g1 & E1 & A1); [intros; discriminate|].
    destruct (step_adds (GNIdx lb) g1 l eq_refl) as (g2 & E2 & A2); [intros; discriminate|].
    destruct (IH g2 l) as (g3 & E3 & A3 & N3).
    exists g3. cbn [run_steps]. simpl last_step in *. cbv iota in *. rewrite E1, E2. split; auto. split.
    + cbn [flat_map]. change (step_facts (r0 l) (GNCat lb) ++ step_facts (r0 l) (GNIdx lb) ++ flat_map (step_facts (r0 l)) (label_loop ls))
        with (step_facts (r0 l) (GNCat lb) ++ (step_facts (r0 l) (GNIdx lb) ++ flat_map (step_facts (r0 l)) (label_loop ls))).
      eapply adds_trans; eauto. eapply adds_trans; eauto.
    + rewrite N3.
      pose proof (step_nl (GNIdx lb) g1 l eq_refl) as X. rewrite E2 in X. simpl in X. rewrite X by (intros; discriminate).
      pose proof (step_nl (GNCat lb) g l eq_refl) as Y. rewrite E1 in Y. simpl in Y. apply Y. intros; discriminate.
Qed.

Definition op_facts (id : Z) (op : gop) : list fact := flat_map (step_facts id) (tl (gcode op)).

(** effect of a whole creation executed sequentially *)
Record created (A A' : lpg) (op : gop) (id : Z) : Prop := {
  cr_nn : g_next_node A' = g_next_node A + (if is_cnode op then 1 else 0);
  cr_ne : g_next_edge A' = g_next_edge A + (if is_cedge op then 1 else 0);
  cr_fd : g_fwd_del A' = g_fwd_del A;
  cr_bd : g_bwd_del A' = g_bwd_del A;
  cr_facts : forall f, holds A' f <-> holds A f \/ In f (op_facts id op)
}.

Definition seq_exec (op : gop) (A : lpg) : lpg * out :=
  match exec_op gcode gexec (length (gcode op)) op 0 A regs0 with
  | (A', _, Some o) => (A', o)
  | (A', _, None) => (A', ONone)
  end.

Lemma seq_create : forall op A,
  is_create op = true -> (forall k, In k (nlkeys A) -> k < g_next_node A) ->
  let id := if is_cnode op then g_next_node A else g_next_edge A in
  exists A', seq_exec op A = (A', OZ id) /\ created A A' op id.
Proof.
  intros op A C WA id. unfold seq_exec.
  rewrite (exec_op_steps _ _ _ _ _ gcode gexec gexec_no_goto) by (simpl; lia).
  simpl skipn.
  destruct op as [ls| | | |s d|]; try discriminate; simpl in id.
  - (* create_node *)
    simpl gcode. cbn [run_steps gexec].
    set (A1 := with_nodes A (g_next_node A + 1) (g_nodes A)).
    set (l1 := set_r0 regs0 (g_next_node A)).
    destruct (loop_run ls A1 l1) as (A2 & E2 & Ad2 & N2).
    fold (label_loop ls).
    rewrite (run_steps_app_next _ _ _ _ gexec (label_loop ls) [GNLabels ls; GNIns] A1 l1 A2 l1 E2).
    2:{ intros k Hk s l. unfold label_loop in Hk. apply in_flat_map in Hk. destruct Hk as (lb & _ & [<-|[<-|[]]]); reflexivity. }
    destruct (step_adds (GNLabels ls) A2 l1 eq_refl) as (A3 & E3 & Ad3).
    { intros ls' _. unfold nlkeys. rewrite N2. simpl. intro Hin. apply WA in Hin. lia. }
    destruct (step_adds GNIns A3 l1 eq_refl) as (A4 & E4 & Ad4); [intros; discriminate|].
    cbn [run_steps]. simpl last_step in *. cbv iota in *. rewrite E3, E4.
    exists A4. split; [reflexivity|].
    pose proof (adds_trans _ _ _ _ _ Ad2 (adds_trans _ _ _ _ _ Ad3 Ad4)) as T.
    destruct T as [t1 t2 t3 t4 t5]. constructor.
    + rewrite t1. simpl. lia.
    + rewrite t2. simpl. lia.
    + rewrite t3. reflexivity.
    + rewrite t4. reflexivity.
    + intros f. rewrite t5. unfold op_facts. simpl tl. fold (label_loop ls). rewrite flat_map_app. simpl.
      assert (HA : holds A1 f <-> holds A f) by (destruct f; simpl; tauto). rewrite HA. tauto.
  - (* create_edge *)
    simpl. eexists. split; [reflexivity|].
    constructor; simpl; try lia; try reflexivity.
    intros f. unfold op_facts. destruct f; simpl; fsolve.
Qed.

(** * structure of the creation codes *)
Lemma create_steps_ok : forall op pc k, is_create op = true -> nth_error (gcode op) (S pc) = Some k -> create_step k = true.
Proof.
  intros op pc k C H. destruct op as [ls| | | |s d|]; try discriminate.
  - destruct (create_node_tail _ _ _ H) as [(l & ->)|[(l & ->)|[->| ->]]]; reflexivity.
  - simpl in H. destruct pc as [|[|[|[|pc]]]]; simpl in H; inversion H; try reflexivity. destruct pc; discriminate.
Qed.

Lemma node_code_suffix : forall ls n k, nth_error (gcode (GCreateNode ls)) n = Some k ->
  (k = GNIns -> skipn (S n) (gcode (GCreateNode ls)) = []) /\
  (forall ls', k = GNLabels ls' -> skipn (S n) (gcode (GCreateNode ls)) = [GNIns]).
Proof.
  intros ls n k H. simpl in H |- *. fold (label_loop ls) in *.
  destruct n as [|n]; [simpl in H; inversion H; split; intros; discriminate|]. simpl in H.
  assert (L : forall x, In x (label_loop ls) -> x <> GNIns /\ forall ls', x <> GNLabels ls').
  { intros x Hx. unfold label_loop in Hx. apply in_flat_map in Hx. destruct Hx as (lb & _ & [<-|[<-|[]]]); split; intros; discriminate. }
  destruct (Nat.lt_ge_cases n (length (label_loop ls))) as [Lt|Ge].
  - rewrite nth_error_app1 in H by auto. apply nth_error_In in H. apply L in H. destruct H as [H1 H2].
    split; intros; subst; [tauto|exfalso; eapply H2; eauto].
  - rewrite nth_error_app2 in H by auto.
    assert (SK : forall m, skipn (length (label_loop ls) + m) (label_loop ls ++ [GNLabels ls; GNIns]) = skipn m [GNLabels ls; GNIns]).
    { intros m. rewrite skipn_app. rewrite skipn_all2 by lia. simpl.
      replace (length (label_loop ls) + m - length (label_loop ls))%nat with m by lia. reflexivity. }
    remember (n - length (label_loop ls))%nat as m eqn:Em.
    assert (En : S n = (length (label_loop ls) + S m)%nat) by lia. rewrite En, SK.
    destruct m as [|[|m]]; simpl in H.
    + inversion H; subst. split; intros; [discriminate|reflexivity].
    + inversion H; subst. split; intros; [reflexivity|discriminate].
    + destruct m; discriminate.
Qed.

Lemma edge_code_suffix : forall s d n, nth_error (gcode (GCreateEdge s d)) n = Some (GEBwd s d) ->
  skipn (S n) (gcode (GCreateEdge s d)) = [].
Proof.
  intros s d n H. simpl in H. destruct n as [|[|[|[|[|n]]]]]; simpl in H; try discriminate; auto; destruct n; discriminate.
Qed.

Lemma last_step_suffix : forall op n k, is_create op = true -> nth_error (gcode op) n = Some k -> last_step k = true ->
  skipn (S n) (gcode op) = [].
Proof.
  intros op n k C H Lk. destruct op as [ls| | | |s d|]; try discriminate.
  - destruct k; try discriminate.
    + apply (proj1 (node_code_suffix ls n _ H)). reflexivity.
    + exfalso. simpl in H. apply nth_error_In in H. destruct H as [H|H]; [discriminate|].
      apply in_app_or in H. destruct H as [H|[H|[H|[]]]]; try discriminate.
      apply in_flat_map in H. destruct H as (lb & _ & [H|[H|[]]]); discriminate.
  - destruct k; try discriminate.
    + exfalso. simpl in H. apply nth_error_In in H. simpl in H. intuition discriminate.
    + assert (s0 = s /\ d0 = d) as [-> ->].
      { simpl in H. apply nth_error_In in H. simpl in H. destruct H as [H|[H|[H|[H|[H|[]]]]]]; inversion H; auto. }
      apply edge_code_suffix. auto.
Qed.

Lemma fnl_in_facts : forall id ks n ls, In (FNl n ls) (flat_map (step_facts id) ks) -> n = id /\ In (GNLabels ls) ks.
Proof.
  intros id ks n ls H. apply in_flat_map in H. destruct H as (k & Hk & Hf).
  destruct k; simpl in Hf; try contradiction; destruct Hf as [Hf|Hf]; try contradiction; inversion Hf; subst; auto.
Qed.

(** * the simulation *)
Definition pend (th : gthread) : list fact :=
  match t_op th with
  | Some (op, S pc) => if is_create op then flat_map (step_facts (r0 (t_loc th))) (skipn (S pc) (gcode op)) else []
  | _ => []
  end.
Definition started (th : gthread) : list (gop * out) :=
  match t_op th with Some (op, S _) => [(op, OZ (r0 (t_loc th)))] | _ => [] end.
Definition th_create (th : gthread) : Prop := Forall (fun op => is_create op = true) (cur_ops th ++ t_todo th).
Definition idle_done (th : gthread) : Prop := t_op th = None -> t_todo th = [].

Definition seq_step (st : lpg * list (nat * (gop * out))) (x : nat * gop) : lpg * list (nat * (gop * out)) :=
  let (A', o) := seq_exec (snd x) (fst st) in (A', snd st ++ [(fst x, (snd x, o))]).
Definition seq_run (g0 : lpg) (sg : list (nat * gop)) : lpg * list (nat * (gop * out)) := fold_left seq_step sg (g0, []).
Definition proj (i : nat) (outs : list (nat * (gop * out))) : list (gop * out) :=
  map snd (filter (fun x => Nat.eqb (fst x) i) outs).

Lemma seq_run_snoc : forall g0 sg x, seq_run g0 (sg ++ [x]) = seq_step (seq_run g0 sg) x.
Proof. intros. unfold seq_run. rewrite fold_left_app. reflexivity. Qed.
Lemma proj_snoc_same : forall i outs x, proj i (outs ++ [(i, x)]) = proj i outs ++ [x].
Proof. intros. unfold proj. rewrite filter_app, map_app. simpl. rewrite Nat.eqb_refl. reflexivity. Qed.
Lemma proj_snoc_other : forall i j outs x, i <> j -> proj j (outs ++ [(i, x)]) = proj j outs.
Proof.
  intros. unfold proj. rewrite filter_app, map_app. simpl.
  destruct (Nat.eqb i j) eqn:E; [apply Nat.eqb_eq in E; congruence|]. simpl. apply app_nil_r.
Qed.

Record sim (g0 : lpg) (c : gcfg) (sg : list (nat * gop)) : Prop := {
  sm_nn : g_next_node (sh c) = g_next_node (fst (seq_run g0 sg));
  sm_ne : g_next_edge (sh c) = g_next_edge (fst (seq_run g0 sg));
  sm_fd : g_fwd_del (sh c) = g_fwd_del (fst (seq_run g0 sg));
  sm_bd : g_bwd_del (sh c) = g_bwd_del (fst (seq_run g0 sg));
  sm_facts : forall f, holds (fst (seq_run g0 sg)) f <-> holds (sh c) f \/ exists th, In th (pool c) /\ In f (pend th);
  sm_wa : forall k, In k (nlkeys (fst (seq_run g0 sg))) -> k < g_next_node (fst (seq_run g0 sg));
  sm_lb : forall th n ls, In th (pool c) -> In (FNl n ls) (pend th) -> ~ In n (nlkeys (sh c));
  sm_cr : Forall th_create (pool c);
  sm_idle : Forall idle_done (pool c);
  sm_proj : forall i th, nth_error (pool c) i = Some th -> proj i (snd (seq_run g0 sg)) = rev (t_out th) ++ started th
}.

Lemma in_skipn : forall A (x : A) n l, In x (skipn n l) -> In x l.
Proof. induction n; destruct l; simpl; auto. Qed.

Lemma upd_nth_same : forall A i (a : A) l, nth_error l i = Some a -> upd_nth i a l = l.
Proof. induction i; destruct l; simpl; intros; try discriminate; auto. inversion H; auto. f_equal; auto. Qed.

Lemma ex_mid : forall A (P : A -> Prop) l1 a l2,
  (exists x, In x (l1 ++ a :: l2) /\ P x) <-> P a \/ (exists x, In x (l1 ++ l2) /\ P x).
Proof.
  intros. split.
  - intros (x & Hin & Hp). apply in_app_or in Hin. destruct Hin as [H|[->|H]]; auto; right; exists x; split; auto; apply in_or_app; auto.
  - intros [Hp|(x & Hin & Hp)].
    + exists a. split; auto. apply in_or_app. right. left. auto.
    + exists x. split; auto. apply in_app_or in Hin. apply in_or_app. destruct Hin; auto. right. right. auto.
Qed.

Lemma in_mid : forall A (x a : A) l1 l2, In x (l1 ++ a :: l2) <-> x = a \/ In x (l1 ++ l2).
Proof. intros. rewrite !in_app_iff. simpl. split; intros; intuition auto. Qed.

Lemma nodup_flat_map_distinct : forall A (f : A -> list Z) l i j a b x,
  NoDup (flat_map f l) -> nth_error l i = Some a -> nth_error l j = Some b -> i <> j ->
  In x (f a) -> In x (f b) -> False.
Proof.
  intros A f l i j a b x ND Ea Eb Nij Ha Hb.
  destruct (nth_error_split l i Ea) as (l1 & l2 & -> & Len).
  rewrite flat_map_app in ND. simpl in ND.
  assert (Hj : In b l1 \/ In b l2).
  { destruct (Nat.lt_ge_cases j (length l1)) as [Lt|Ge].
    - rewrite nth_error_app1 in Eb by auto. left. eapply nth_error_In; eauto.
    - rewrite nth_error_app2 in Eb by auto. destruct (j - length l1)%nat eqn:D; [lia|]. simpl in Eb. right. eapply nth_error_In; eauto. }
  apply nodup_app_iff in ND. destruct ND as (_ & ND2 & D1).
  apply nodup_app_iff in ND2. destruct ND2 as (_ & _ & D2).
  destruct Hj as [Hj|Hj].
  - apply (D1 x). + apply in_flat_map. eauto. + apply in_or_app. auto.
  - apply (D2 x Ha). apply in_flat_map. eauto.
Qed.

Lemma pend_load : forall l todo o, pend (load l todo o) = [].
Proof. intros. destruct todo as [|x r]; reflexivity. Qed.
Lemma started_load : forall l todo o, started (load l todo o) = [].
Proof. intros. destruct todo as [|x r]; reflexivity. Qed.
Lemma g_t_out_load : forall (l : regs) todo (o : list (gop * out)), t_out (load l todo o) = o.
Proof. intros. destruct todo; reflexivity. Qed.
Lemma th_create_load : forall l todo o, Forall (fun op => is_create op = true) todo -> th_create (load l todo o).
Proof. intros. destruct todo; unfold th_create, cur_ops; simpl; auto. Qed.
Lemma idle_done_load : forall l todo o, idle_done (load l todo o).
Proof. intros. destruct todo; unfold idle_done; simpl; auto. discriminate. Qed.

Lemma holds_counter_n : forall g nn f, holds (with_nodes g nn (g_nodes g)) f <-> holds g f.
Proof. destruct f; simpl; tauto. Qed.
Lemma holds_counter_e : forall g ne f, holds (with_edges g ne (g_edges g)) f <-> holds g f.
Proof. destruct f; simpl; tauto. Qed.

Lemma sim_step : forall lon loe g0 c sg i,
  ids_inv lon loe c -> sim g0 c sg -> exists sg', sim g0 (step gcode gexec c i) sg'.
Proof.
  intros lon loe g0 c sg i II SM.
  destruct (nth_error (pool c) i) as [th|] eqn:E; [|rewrite step_none; eauto].
  rewrite (step_unfold _ _ _ _ _ gcode gexec c i th E).
  destruct (step_thread gcode gexec (sh c) th) as [s' th'] eqn:ST. simpl.
  destruct (upd_nth_split _ i th' th (pool c) E) as (l1 & l2 & P1 & P2 & Len).
  pose proof (nth_error_In _ _ E) as Hin.
  destruct SM as [Snn Sne Sfd Sbd Sf Swa Slb Scr Sid Spr].
  pose proof (Forall_nth_error _ _ _ _ _ Scr E) as Cth.
  set (A := fst (seq_run g0 sg)) in *. set (outs := snd (seq_run g0 sg)) in *.
  assert (SAME : s' = sh c -> th' = th -> exists sg', sim g0 (mkCfg s' (upd_nth i th' (pool c))) sg').
  { intros -> ->. rewrite upd_nth_same by auto. exists sg. destruct c; constructor; auto. }
  destruct th as [top tl ttodo tout]. unfold step_thread in ST. simpl in ST.
  destruct top as [[op pc]|]; [|injection ST as <- <-; apply SAME; reflexivity].
  assert (C : is_create op = true).
  { unfold th_create, cur_ops in Cth. simpl in Cth. inversion Cth; auto. }
  assert (Ctodo : Forall (fun op => is_create op = true) ttodo).
  { unfold th_create, cur_ops in Cth. simpl in Cth. inversion Cth; auto. }
  destruct pc as [|pc].
  - (* the allocation: the linearisation point *)
    destruct (seq_create op A C Swa) as (A' & Es & Cr).
    assert (SR : seq_run g0 (sg ++ [(i, op)]) =
                 (A', outs ++ [(i, (op, OZ (if is_cnode op then g_next_node A else g_next_edge A)))])).
    { rewrite seq_run_snoc. unfold seq_step. fold A outs. simpl snd. simpl fst. rewrite Es. reflexivity. }
    exists (sg ++ [(i, op)]).
    assert (ST' : s' = (if is_cnode op then with_nodes (sh c) (g_next_node (sh c) + 1) (g_nodes (sh c))
                         else with_edges (sh c) (g_next_edge (sh c) + 1) (g_edges (sh c))) /\
                  th' = mkTh (Some (op, 1%nat)) (set_r0 tl (if is_cnode op then g_next_node (sh c) else g_next_edge (sh c))) ttodo tout).
    { destruct op; try discriminate; simpl in ST; inversion ST; auto. }
    destruct ST' as [-> ->]. clear ST.
    set (id := if is_cnode op then g_next_node A else g_next_edge A) in *.
    assert (Eid : (if is_cnode op then g_next_node (sh c) else g_next_edge (sh c)) = id) by (unfold id; rewrite Snn, Sne; auto).
    rewrite Eid in P2 |- *.
    set (th1 := mkTh (Some (op, 1%nat)) (set_r0 tl id) ttodo tout) in *.
    assert (Pth1 : pend th1 = op_facts id op).
    { unfold pend, th1, op_facts. simpl. rewrite C. destruct op; try discriminate; reflexivity. }
    assert (Hs : forall f, holds (if is_cnode op then with_nodes (sh c) (g_next_node (sh c) + 1) (g_nodes (sh c))
                                  else with_edges (sh c) (g_next_edge (sh c) + 1) (g_edges (sh c))) f <-> holds (sh c) f).
    { intros. destruct (is_cnode op); [apply holds_counter_n|apply holds_counter_e]. }
    assert (Pold : pend (mkTh (Some (op, 0%nat)) tl ttodo tout) = []) by reflexivity.
    destruct Cr as [c1 c2 c3 c4 c5]. fold id in SR.
    constructor; rewrite ?SR; simpl.
    + rewrite c1. destruct op; try discriminate; simpl; lia.
    + rewrite c2. destruct op; try discriminate; simpl; lia.
    + rewrite c3. destruct op; try discriminate; simpl; auto.
    + rewrite c4. destruct op; try discriminate; simpl; auto.
    + intros f. rewrite c5, Sf, Hs. rewrite P2, P1. rewrite !ex_mid. rewrite Pth1, Pold. simpl. tauto.
    + intros k Hk. unfold nlkeys in Hk. apply in_map_iff in Hk. destruct Hk as ((k', v) & <- & Hkv). simpl.
      assert (H' : holds A' (FNl k' v)) by exact Hkv. apply c5 in H'. destruct H' as [H'|H'].
      * assert (k' < g_next_node A). { apply Swa. unfold nlkeys. apply in_map_iff. exists (k', v). auto. }
        rewrite c1. destruct (is_cnode op); lia.
      * apply fnl_in_facts in H'. destruct H' as [-> Hl]. rewrite c1.
        destruct op; try discriminate; simpl in *; unfold id; try lia.
        exfalso. intuition discriminate.
    + intros th0 n ls H0 Hp. rewrite P2 in H0. apply in_mid in H0.
      assert (NK : nlkeys (if is_cnode op then with_nodes (sh c) (g_next_node (sh c) + 1) (g_nodes (sh c))
                           else with_edges (sh c) (g_next_edge (sh c) + 1) (g_edges (sh c))) = nlkeys (sh c)).
      { destruct (is_cnode op); reflexivity. }
      rewrite NK. destruct H0 as [->|H0].
      * rewrite Pth1 in Hp. apply fnl_in_facts in Hp. destruct Hp as [-> Hl].
        assert (Nd : is_cnode op = true).
        { destruct op; try discriminate; auto. simpl in Hl. intuition discriminate. }
        unfold id. rewrite Nd. intros Hk. unfold nlkeys in Hk. apply in_map_iff in Hk. destruct Hk as ((k', v) & Ek & Hkv).
        simpl in Ek. subst k'.
        assert (HA : holds A (FNl (g_next_node A) v)). { apply Sf. left. exact Hkv. }
        assert (g_next_node A < g_next_node A); [|lia]. apply Swa. unfold nlkeys. apply in_map_iff. exists (g_next_node A, v). auto.
      * apply (Slb th0 n ls); auto. rewrite P1. apply in_mid. auto.
    + rewrite P2. rewrite P1 in Scr. apply Forall_app in Scr. destruct Scr as [S1 S2]. inversion S2; subst.
      apply Forall_app; split; auto; constructor; auto.
    + rewrite P2. rewrite P1 in Sid. apply Forall_app in Sid. destruct Sid as [S1 S2]. inversion S2; subst.
      apply Forall_app; split; auto; constructor; auto; unfold idle_done; simpl; discriminate.
    + intros j thj Ej. destruct (Nat.eq_dec j i) as [Eji|Nj]; [subst j|].
      * rewrite nth_upd_same in Ej by (eapply nth_error_lt; eauto). injection Ej as <-.
        rewrite proj_snoc_same. rewrite (Spr i _ E). unfold started, th1. simpl. rewrite app_nil_r. reflexivity.
      * rewrite nth_upd_other in Ej by auto. rewrite proj_snoc_other by auto. apply Spr. auto.
  - (* a later step of the creation *)
    destruct (nth_error (gcode op) (S pc)) as [k|] eqn:EK; [|injection ST as <- <-; apply SAME; reflexivity].
    pose proof (create_steps_ok _ _ _ C EK) as CS.
    set (th0 := mkTh (Some (op, S pc)) tl ttodo tout) in *.
    assert (Pth0 : pend th0 = step_facts (r0 tl) k ++ flat_map (step_facts (r0 tl)) (skipn (S (S pc)) (gcode op))).
    { unfold pend, th0. simpl t_op. cbv iota beta. rewrite C. simpl t_loc. rewrite (skipn_nth_some _ _ _ _ EK). reflexivity. }
    destruct (step_adds k (sh c) tl CS) as (g' & Eg & Ad).
    { intros ls ->. eapply (Slb th0); eauto. rewrite Pth0. simpl. left. reflexivity. }
    rewrite Eg in ST.
    destruct Ad as [a1 a2 a3 a4 a5].
    exists sg. fold A outs.
    assert (TH' : s' = g' /\ th' = (if last_step k then load tl ttodo ((op, OZ (r0 tl)) :: tout)
                                    else mkTh (Some (op, S (S pc))) tl ttodo tout)).
    { destruct (last_step k); inversion ST; auto. }
    destruct TH' as [-> ->]. clear ST.
    assert (Pth' : pend (if last_step k then load tl ttodo ((op, OZ (r0 tl)) :: tout)
                         else mkTh (Some (op, S (S pc))) tl ttodo tout)
                   = flat_map (step_facts (r0 tl)) (skipn (S (S pc)) (gcode op))).
    { destruct (last_step k) eqn:LK.
      - rewrite pend_load. rewrite (last_step_suffix _ _ _ C EK LK). reflexivity.
      - unfold pend. simpl. rewrite C. reflexivity. }
    constructor; simpl.
    + rewrite a1. exact Snn.
    + rewrite a2. exact Sne.
    + rewrite a3. exact Sfd.
    + rewrite a4. exact Sbd.
    + intros f. fold A. rewrite Sf, a5. rewrite P2, P1. rewrite !ex_mid. rewrite Pth', Pth0. rewrite in_app_iff. tauto.
    + exact Swa.
    + intros thx n ls Hx Hp. rewrite P2 in Hx. apply in_mid in Hx.
      assert (KEYS : forall z, In z (nlkeys g') -> In z (nlkeys (sh c)) \/ (exists ls', k = GNLabels ls' /\ z = r0 tl)).
      { intros z Hz. unfold nlkeys in Hz. apply in_map_iff in Hz. destruct Hz as ((z', v) & <- & Hzv). simpl.
        assert (H' : holds g' (FNl z' v)) by exact Hzv. apply a5 in H'. destruct H' as [H'|H'].
        - left. unfold nlkeys. apply in_map_iff. exists (z', v). auto.
        - right. destruct k; simpl in H'; try contradiction; destruct H' as [H'|H']; try contradiction; inversion H'; subst. eauto. }
      intros Hn. apply KEYS in Hn. destruct Hn as [Hn|(ls' & -> & ->)].
      * destruct Hx as [->|Hx].
        -- refine (Slb th0 n ls Hin _ Hn). rewrite Pth0. rewrite Pth' in Hp. apply in_or_app. auto.
        -- refine (Slb thx n ls _ Hp Hn). rewrite P1. apply in_mid. auto.
      * (* the step was GNLabels: nobody else is waiting to write the same key *)
        destruct Hx as [->|Hx].
        -- rewrite Pth' in Hp. apply fnl_in_facts in Hp. destruct Hp as [_ Hl].
           assert (Cn : exists ls0, op = GCreateNode ls0).
           { destruct op; try discriminate; eauto. exfalso. simpl in EK. destruct pc as [|[|[|[|pc]]]]; simpl in EK; try discriminate. destruct pc; discriminate. }
           destruct Cn as (ls0 & ->).
           rewrite (proj2 (node_code_suffix ls0 (S pc) _ EK) ls' eq_refl) in Hl. simpl in Hl. intuition discriminate.
        -- apply in_app_or in Hx.
           assert (exists j, j <> i /\ nth_error (pool c) j = Some thx) as (j & Nj & Ej).
           { rewrite P1. destruct Hx as [Hx|Hx]; destruct (In_nth_error _ _ Hx) as (q & Eq).
             - exists q. pose proof (nth_error_lt _ _ _ _ Eq). split; [lia|]. rewrite nth_error_app1; auto.
             - exists (length l1 + S q)%nat. split; [lia|]. rewrite nth_error_app2 by lia.
               replace (length l1 + S q - length l1)%nat with (S q) by lia. auto. }
           unfold pend in Hp. destruct (t_op thx) as [[opx [|pcx]]|] eqn:Tx; try contradiction.
           destruct (is_create opx) eqn:Cx; try contradiction.
           apply fnl_in_facts in Hp. destruct Hp as [Er Hl].
           assert (Nx : is_cnode opx = true).
           { destruct opx; try discriminate; auto. exfalso. apply in_skipn in Hl. simpl in Hl. intuition discriminate. }
           assert (Cn : is_cnode op = true).
           { destruct op; try discriminate; auto. exfalso. apply nth_error_In in EK. simpl in EK. intuition discriminate. }
           destruct II as [Hnd _ _ _ _ _ _ _].
           apply (nodup_flat_map_distinct _ (ids_of is_cnode) (pool c) i j th0 thx (r0 tl) Hnd E Ej); auto.
           ++ unfold ids_of, inflight, th0. simpl. rewrite Cn. simpl. auto.
           ++ unfold ids_of, inflight. rewrite Tx. rewrite Nx. simpl. left. congruence.
    + rewrite P2. rewrite P1 in Scr. apply Forall_app in Scr. destruct Scr as [S1 S2]. inversion S2; subst.
      apply Forall_app; split; auto; constructor; auto.
      destruct (last_step k); [apply th_create_load; auto|exact Cth].
    + rewrite P2. rewrite P1 in Sid. apply Forall_app in Sid. destruct Sid as [S1 S2]. inversion S2; subst.
      apply Forall_app; split; auto; constructor; auto.
      destruct (last_step k); [apply idle_done_load|unfold idle_done; simpl; discriminate].
    + intros j thj Ej. destruct (Nat.eq_dec j i) as [Eji|Nj]; [subst j|].
      * rewrite nth_upd_same in Ej by (eapply nth_error_lt; eauto). injection Ej as <-.
        fold outs. rewrite (Spr i _ E). unfold started at 1. simpl.
        destruct (last_step k).
        -- rewrite g_t_out_load, started_load. simpl. rewrite app_nil_r. reflexivity.
        -- reflexivity.
      * rewrite nth_upd_other in Ej by auto. apply Spr. auto.
Qed.

Definition create_only (progs : list (list gop)) : bool := forallb (forallb is_create) progs.
Definition wf_lpg (g : lpg) : Prop := forall k, In k (nlkeys g) -> k < g_next_node g.

Lemma sim_init : forall g0 progs, wf_lpg g0 -> create_only progs = true -> sim g0 (ginit g0 progs) [].
Proof.
  intros g0 progs W C.
  assert (T : forall th, In th (pool (ginit g0 progs)) -> exists p, In p progs /\ th = load regs0 p []).
  { unfold ginit, init. simpl. intros th Hth. apply in_map_iff in Hth. destruct Hth as (p & <- & Hp). eauto. }
  constructor; simpl; auto.
  - intros f. split; auto. intros [H|(th & Hth & Hf)]; auto.
    destruct (T th Hth) as (p & _ & ->). rewrite pend_load in Hf. contradiction.
  - intros th n ls Hth Hf. destruct (T th Hth) as (p & _ & ->). rewrite pend_load in Hf. contradiction.
  - apply Forall_forall. intros th Hth. destruct (T th Hth) as (p & Hp & ->). apply th_create_load.
    unfold create_only in C. rewrite forallb_forall in C. specialize (C _ Hp). rewrite forallb_forall in C.
    apply Forall_forall. auto.
  - apply Forall_forall. intros th Hth. destruct (T th Hth) as (p & Hp & ->). apply idle_done_load.
  - intros i th Hi. apply nth_error_In in Hi. destruct (T th Hi) as (p & Hp & ->).
    rewrite g_t_out_load, started_load. reflexivity.
Qed.

Lemma seq_run_ops_gen : forall sg st,
  map (fun x => (fst x, fst (snd x))) (snd (fold_left seq_step sg st)) = map (fun x => (fst x, fst (snd x))) (snd st) ++ sg.
Proof.
  induction sg as [|[i op] sg IH]; intros [A outs]; simpl.
  - rewrite app_nil_r. reflexivity.
  - rewrite IH. unfold seq_step. simpl. destruct (seq_exec op A) as [A' o]. simpl.
    rewrite map_app. simpl. rewrite <- app_assoc. reflexivity.
Qed.

Lemma proj_ops_list : forall i (outs : list (nat * (gop * out))),
  map fst (proj i outs) = map snd (filter (fun x => Nat.eqb (fst x) i) (map (fun x => (fst x, fst (snd x))) outs)).
Proof.
  unfold proj. induction outs as [|[j [op o]] l IH]; simpl; auto.
  destruct (Nat.eqb j i); simpl; rewrite IH; reflexivity.
Qed.

Lemma proj_ops : forall g0 sg i,
  map fst (proj i (snd (seq_run g0 sg))) = map snd (filter (fun x => Nat.eqb (fst x) i) sg).
Proof.
  intros. rewrite proj_ops_list.
  pose proof (seq_run_ops_gen sg (g0, [])) as H. simpl in H. fold (seq_run g0 sg) in H.
  rewrite H. reflexivity.
Qed.

Lemma sequential_refinement_l : forall g0 progs sched,
  wf_lpg g0 -> create_only progs = true ->
  let c := grun sched (ginit g0 progs) in
  finished c = true ->
  exists order : list (nat * gop),
    (forall i, (i < length progs)%nat -> map snd (filter (fun x => Nat.eqb (fst x) i) order) = nth i progs []) /\
    lpg_equiv (sh c) (fst (seq_run g0 order)) /\
    (forall i, (i < length progs)%nat -> proj i (snd (seq_run g0 order)) = nth i (outputs c) []).
Proof.
  intros g0 progs sched W C c Fin.
  assert (I : ids_inv (g_next_node g0) (g_next_edge g0) c /\ exists sg, sim g0 c sg).
  { apply (run_inv _ _ _ _ _ gcode gexec (fun c => ids_inv (g_next_node g0) (g_next_edge g0) c /\ exists sg, sim g0 c sg)).
    - intros c0 i [II (sg & SM)]. split; [apply ids_inv_step; auto|eapply sim_step; eauto].
    - split; [apply ids_inv_init|exists []; apply sim_init; auto]. }
  destruct I as [_ (sg & SM)]. exists sg.
  destruct SM as [Snn Sne Sfd Sbd Sf Swa Slb Scr Sid Spr].
  assert (Idle : forall th, In th (pool c) -> t_op th = None).
  { intros th Hth. unfold finished in Fin. rewrite forallb_forall in Fin. specialize (Fin _ Hth).
    unfold idle in Fin. destruct (t_op th); [discriminate|reflexivity]. }
  assert (Wr : map whole (pool c) = progs).
  { unfold c, grun, ginit. rewrite whole_run. apply whole_init. }
  assert (Len : length (pool c) = length progs).
  { rewrite <- (map_length whole (pool c)). rewrite Wr. reflexivity. }
  assert (TH : forall i, (i < length progs)%nat -> exists th, nth_error (pool c) i = Some th /\ In th (pool c)).
  { intros i Hi. destruct (nth_error (pool c) i) as [th|] eqn:E.
    - exists th. split; auto. eapply nth_error_In; eauto.
    - apply nth_error_None in E. lia. }
  split; [|split].
  - intros i Hi. destruct (TH i Hi) as (th & E & Hin).
    rewrite <- (proj_ops g0 sg i). rewrite (Spr i th E).
    assert (St : started th = []) by (unfold started; rewrite (Idle th Hin); reflexivity).
    rewrite St, app_nil_r.
    assert (Wth : whole th = nth i progs []).
    { rewrite <- Wr. erewrite nth_error_nth; [reflexivity|]. rewrite nth_error_map, E. reflexivity. }
    rewrite <- Wth. unfold whole, cur_ops. rewrite (Idle th Hin).
    pose proof (Forall_nth_error _ _ _ _ _ Sid E) as Dn. rewrite (Dn (Idle th Hin)).
    simpl. rewrite app_nil_r. rewrite map_rev. reflexivity.
  - constructor; auto. intros f. rewrite Sf. split; auto.
    intros [H|(th & Hth & Hf)]; auto. unfold pend in Hf. rewrite (Idle th Hth) in Hf. contradiction.
  - intros i Hi. destruct (TH i Hi) as (th & E & Hin). rewrite (Spr i th E).
    assert (St : started th = []) by (unfold started; rewrite (Idle th Hin); reflexivity).
    rewrite St, app_nil_r. unfold outputs. erewrite nth_error_nth; [reflexivity|]. rewrite nth_error_map, E. reflexivity.
Qed.
