(** C20 — the label index agrees with the node labels after every complete run: every number of
    threads, every schedule, EVERY program (current code: add_label / remove_label are one step
    each under nodes.write(); create_node still fills the label index before the node becomes
    visible, delete_node removes node, labels and index entries in one step).

    Invariant: an index entry (l, n) belongs to a live node that has the label, or to a node
    that its creator has not inserted yet; a live node's labels are all in the index; what a
    creator has put into the index and into node_labels is still there when it inserts the node. *)
From Coq Require Import ZArith List Bool Lia Permutation Arith.
From GV Require Import Conc.Ops Conc.ProofsSem Conc.ProofsIds Conc.ProofsSeq Conc.ProofsAdj.
Import ListNotations.
Open Scope Z_scope.

Definition idx_of (r : Z) (ks : list gk) : list (Z * Z) :=
  flat_map (fun k => match k with GNIdx l => [(l, r)] | _ => [] end) ks.
(** index entries written by a creator whose node is not inserted yet *)
Definition pidx (th : gthread) : list (Z * Z) :=
  match t_op th with
  | Some (GCreateNode ls, pc) => idx_of (r0 (t_loc th)) (firstn pc (gcode (GCreateNode ls)))
  | _ => []
  end.
Definition cr_ok (g : lpg) (th : gthread) : Prop :=
  match t_op th with
  | Some (GCreateNode ls, pc) =>
      In (GNLabels ls) (firstn pc (gcode (GCreateNode ls))) -> aget (r0 (t_loc th)) (g_nlabels g) = Some ls
  | _ => True
  end.
Definition nacked (th : gthread) : list Z := acked is_cnode (t_out th).

Record lbl_inv (lon loe : Z) (c : gcfg) : Prop := {
  l_ids : ids_inv lon loe c;
  l_nd : NoDup (ndom (sh c));
  l_dom : forall n, In n (ndom (sh c)) -> n < lon \/ In n (flat_map nacked (pool c));
  l_1 : forall l n, In (l, n) (g_lindex (sh c)) ->
        (node_live (sh c) n = true /\ In l (labels_of (sh c) n)) \/ In (l, n) (flat_map pidx (pool c));
  l_2 : forall n l, node_live (sh c) n = true -> In l (labels_of (sh c) n) -> In (l, n) (g_lindex (sh c));
  l_3 : forall x, In x (flat_map pidx (pool c)) -> In x (g_lindex (sh c));
  l_th : Forall (cr_ok (sh c)) (pool c)
}.

(** * small facts *)
Lemma node_live_In : forall g n, node_live g n = true -> In n (ndom g).
Proof.
  unfold node_live, ndom. intros g n H. destruct (aget n (g_nodes g)) as [b|] eqn:E; [|discriminate].
  apply aget_In in E. apply in_map_iff. exists (n, b). auto.
Qed.
Lemma aget_aset_same : forall V k (v : V) m, aget k (aset k v m) = Some v.
Proof. intros. unfold aset. simpl. rewrite Z.eqb_refl. reflexivity. Qed.
Lemma aget_adel_other : forall V k k' (m : list (Z * V)), k <> k' -> aget k (adel k' m) = aget k m.
Proof.
  unfold adel. induction m as [|[a v] t]; simpl; intros; auto.
  destruct (a =? k') eqn:E; simpl.
  - apply Z.eqb_eq in E. subst. destruct (k' =? k) eqn:E2; [apply Z.eqb_eq in E2; subst; tauto|]. auto.
  - destruct (a =? k); auto.
Qed.
Lemma aget_aset_other : forall V k k' (v : V) m, k <> k' -> aget k (aset k' v m) = aget k m.
Proof.
  intros. unfold aset. simpl. destruct (k' =? k) eqn:E; [apply Z.eqb_eq in E; subst; tauto|]. apply aget_adel_other. auto.
Qed.
Lemma aget_adel_same : forall V k (m : list (Z * V)), aget k (adel k m) = None.
Proof.
  unfold adel. induction m as [|[a v] t]; simpl; auto.
  destruct (a =? k) eqn:E; simpl; auto. rewrite E. auto.
Qed.
Lemma labels_of_other : forall g nl li n m, n <> m ->
  labels_of (with_labels g nl li) n = match aget n nl with Some ls => ls | None => [] end.
Proof. reflexivity. Qed.

Lemma prem_In : forall p x l, In x (prem p l) <-> In x l /\ x <> p.
Proof.
  unfold prem. intros [a b] [c d] l. rewrite filter_In. unfold pair_eqb. simpl. split; intros [H1 H2]; split; auto.
  - intros E. inversion E; subst. rewrite !Z.eqb_refl in H2. discriminate.
  - destruct ((a =? c) && (b =? d)) eqn:E; auto. apply andb_true_iff in E. destruct E as [E1 E2].
    apply Z.eqb_eq in E1. apply Z.eqb_eq in E2. subst. tauto.
Qed.
Lemma fold_prem_In : forall n ls x li, In x (fold_left (fun li lb => prem (lb, n) li) ls li) <->
  In x li /\ ~ (snd x = n /\ In (fst x) ls).
Proof.
  induction ls as [|a t IH]; simpl; intros x li.
  - tauto.
  - rewrite IH, prem_In. destruct x as [l m]. simpl. split.
    + intros [[H1 H2] H3]. split; auto. intros [E [E2|E2]]; subst; tauto.
    + intros [H1 H2]. split; [split; auto|].
      * intros E. inversion E; subst. apply H2. auto.
      * intros [E E2]. apply H2. auto.
Qed.
Lemma zrem_In : forall z x l, In x (zrem z l) <-> In x l /\ x <> z.
Proof.
  unfold zrem. intros. rewrite filter_In. split; intros [H1 H2]; split; auto.
  - intros ->. rewrite Z.eqb_refl in H2. discriminate.
  - destruct (x =? z) eqn:E; auto. apply Z.eqb_eq in E. tauto.
Qed.
Lemma mark_node_live : forall n m ns, NoDup (map fst ns) ->
  aget m (mark_node n ns) = if m =? n then match aget m ns with Some _ => Some true | None => None end else aget m ns.
Proof.
  induction ns as [|[k v] t IH]; simpl; intros ND.
  - destruct (m =? n); reflexivity.
  - inversion ND; subst. destruct (k =? n) eqn:E; simpl.
    + apply Z.eqb_eq in E. subst. destruct (n =? m) eqn:E2.
      * apply Z.eqb_eq in E2. subst. rewrite Z.eqb_refl. reflexivity.
      * rewrite IH by auto. rewrite (Z.eqb_sym m n), E2. reflexivity.
    + destruct (k =? m) eqn:E2.
      * apply Z.eqb_eq in E2. subst. rewrite E. reflexivity.
      * apply IH. auto.
Qed.

(** * the code of create_node *)
Lemma firstn_S_nth : forall A (l : list A) n x, nth_error l n = Some x -> firstn (S n) l = firstn n l ++ [x].
Proof.
  induction l as [|a t IH]; intros [|n] x H; simpl in *; try discriminate.
  - inversion H. reflexivity.
  - f_equal. apply IH. auto.
Qed.
Lemma idx_of_app : forall r a b, idx_of r (a ++ b) = idx_of r a ++ idx_of r b.
Proof. intros. unfold idx_of. apply flat_map_app. Qed.
Lemma idx_of_loop : forall r ls, idx_of r (label_loop ls) = map (fun l => (l, r)) ls.
Proof. induction ls as [|a t IH]; simpl; auto. f_equal. exact IH. Qed.
Lemma code_before_ins : forall ls pc, nth_error (gcode (GCreateNode ls)) pc = Some GNIns ->
  firstn pc (gcode (GCreateNode ls)) = GNAlloc :: label_loop ls ++ [GNLabels ls].
Proof.
  intros ls pc H. pose proof (proj1 (node_code_suffix ls pc _ H) eq_refl) as SK.
  pose proof (firstn_skipn (S pc) (gcode (GCreateNode ls))) as FS. rewrite SK, app_nil_r in FS.
  rewrite (firstn_S_nth _ _ _ _ H) in FS.
  assert (C : gcode (GCreateNode ls) = (GNAlloc :: label_loop ls ++ [GNLabels ls]) ++ [GNIns]).
  { simpl. fold (label_loop ls). rewrite <- app_assoc. reflexivity. }
  rewrite C in FS at 2. apply app_inj_tail in FS. tauto.
Qed.

(** * one step of one thread: seven shapes *)
Inductive lshape (g : lpg) (th : gthread) (g' : lpg) (th' : gthread) : Prop :=
| LNeutral :
    g_nodes g' = g_nodes g -> g_nlabels g' = g_nlabels g -> g_lindex g' = g_lindex g ->
    pidx th' = pidx th -> (forall x, In x (nacked th) -> In x (nacked th')) -> cr_ok g' th' -> lshape g th g' th'
| LIdx : forall lb ls pc,
    t_op th = Some (GCreateNode ls, S pc) ->
    g_nodes g' = g_nodes g -> g_nlabels g' = g_nlabels g -> g_lindex g' = padd (lb, r0 (t_loc th)) (g_lindex g) ->
    pidx th' = pidx th ++ [(lb, r0 (t_loc th))] -> nacked th' = nacked th -> cr_ok g' th' -> lshape g th g' th'
| LLabels : forall ls pc,
    t_op th = Some (GCreateNode ls, S pc) ->
    g_nodes g' = g_nodes g -> g_nlabels g' = aset (r0 (t_loc th)) ls (g_nlabels g) -> g_lindex g' = g_lindex g ->
    pidx th' = pidx th -> nacked th' = nacked th -> cr_ok g' th' -> lshape g th g' th'
| LIns : forall ls pc,
    t_op th = Some (GCreateNode ls, S pc) ->
    g_nodes g' = (r0 (t_loc th), false) :: g_nodes g -> g_nlabels g' = g_nlabels g -> g_lindex g' = g_lindex g ->
    pidx th' = [] -> (forall x, In x (pidx th) <-> exists l, In l ls /\ x = (l, r0 (t_loc th))) ->
    aget (r0 (t_loc th)) (g_nlabels g) = Some ls ->
    (forall x, In x (nacked th') <-> x = r0 (t_loc th) \/ In x (nacked th)) -> cr_ok g' th' -> lshape g th g' th'
| LDel : forall n,
    node_live g n = true -> g_nodes g' = mark_node n (g_nodes g) -> g_nlabels g' = adel n (g_nlabels g) ->
    g_lindex g' = fold_left (fun li lb => prem (lb, n) li) (labels_of g n) (g_lindex g) ->
    pidx th' = [] -> pidx th = [] -> (forall x, In x (nacked th) -> In x (nacked th')) -> cr_ok g' th' -> lshape g th g' th'
| LAdd : forall n lb,
    node_live g n = true -> g_nodes g' = g_nodes g ->
    g_nlabels g' = aset n (lb :: labels_of g n) (g_nlabels g) -> g_lindex g' = padd (lb, n) (g_lindex g) ->
    pidx th' = [] -> pidx th = [] -> (forall x, In x (nacked th) -> In x (nacked th')) -> cr_ok g' th' -> lshape g th g' th'
| LRem : forall n lb,
    node_live g n = true -> g_nodes g' = g_nodes g ->
    g_nlabels g' = aset n (zrem lb (labels_of g n)) (g_nlabels g) -> g_lindex g' = prem (lb, n) (g_lindex g) ->
    pidx th' = [] -> pidx th = [] -> (forall x, In x (nacked th) -> In x (nacked th')) -> cr_ok g' th' -> lshape g th g' th'.

Lemma pidx_load : forall l todo o, pidx (load l todo o) = [].
Proof. intros. destruct todo as [|[]]; reflexivity. Qed.
Lemma cr_ok_load : forall g l todo o, cr_ok g (load l todo o).
Proof. intros. destruct todo as [|[]]; unfold cr_ok; simpl; auto. intros []. Qed.
Lemma nacked_load : forall (l : regs) todo (o : list (gop * out)), nacked (load l todo o) = acked is_cnode o.
Proof. intros. unfold nacked. rewrite t_out_load. reflexivity. Qed.

Ltac lneutral := apply LNeutral; simpl; rewrite ?pidx_load, ?nacked_load;
  [ reflexivity | reflexivity | reflexivity | reflexivity
  | solve [auto | intros x Hx; unfold nacked, acked in *; simpl in *; tauto]
  | solve [apply cr_ok_load | unfold cr_ok; simpl; auto] ].

Lemma step_lshape : forall s th s' th',
  cr_ok s th -> step_thread gcode gexec s th = (s', th') -> lshape s th s' th'.
Proof.
  intros s [top tl ttodo tout] s' th' OK H. unfold step_thread in H. simpl in *.
  destruct top as [[op pc]|].
  2:{ crunch. lneutral. }
  destruct op as [ls|n|n lb|n lb|a b|e].
  - (* create_node *)
    destruct (nth_error (gcode (GCreateNode ls)) pc) as [k|] eqn:E; [|crunch; lneutral].
    pose proof (firstn_S_nth _ _ _ _ E) as FS.
    destruct pc as [|pc].
    + simpl in E. inversion E; subst k. simpl in H. crunch.
      apply LNeutral; simpl; auto. unfold cr_ok. simpl. intros [X|[]]. discriminate.
    + assert (CRK : forall k0 (g' : lpg) l', k0 <> GNLabels ls -> g_nlabels g' = g_nlabels s -> r0 l' = r0 tl ->
                   firstn (S (S pc)) (gcode (GCreateNode ls)) = firstn (S pc) (gcode (GCreateNode ls)) ++ [k0] ->
                   cr_ok g' (mkTh (Some (GCreateNode ls, S (S pc))) l' ttodo tout)).
      { intros k0 g' l' Nk Eg Er F0. unfold cr_ok in *. cbn [t_op t_loc] in *. rewrite F0, Eg, Er. intros X.
        apply in_app_or in X. destruct X as [X|[X|[]]]; [apply OK; exact X|congruence]. }
      destruct (create_node_tail _ _ _ E) as [(l & ->)|[(l & ->)|[->| ->]]]; simpl in H; crunch.
      * apply LNeutral; [reflexivity|reflexivity|reflexivity| |auto|].
        -- unfold pidx. cbn [t_op t_loc]. rewrite FS, idx_of_app. simpl. rewrite app_nil_r. reflexivity.
        -- apply (CRK (GNCat l)); auto. discriminate.
      * apply (LIdx _ _ _ _ l ls pc); [reflexivity|reflexivity|reflexivity|reflexivity| |reflexivity|].
        -- unfold pidx. cbn [t_op t_loc]. rewrite FS, idx_of_app. reflexivity.
        -- apply (CRK (GNIdx l)); auto. discriminate.
      * apply (LLabels _ _ _ _ ls pc); [reflexivity|reflexivity|reflexivity|reflexivity| |reflexivity|].
        -- unfold pidx. cbn [t_op t_loc]. rewrite FS, idx_of_app. simpl. rewrite app_nil_r. reflexivity.
        -- unfold cr_ok. cbn [t_op t_loc]. intros _. simpl. rewrite Z.eqb_refl. reflexivity.
      * pose proof (code_before_ins _ _ E) as CB.
        apply (LIns _ _ _ _ ls pc); rewrite ?pidx_load, ?nacked_load; [reflexivity|reflexivity|reflexivity|reflexivity|reflexivity| | | |apply cr_ok_load].
        -- intros x. unfold pidx. cbn [t_op t_loc]. rewrite CB. simpl. rewrite idx_of_app, idx_of_loop. simpl. rewrite app_nil_r.
           rewrite in_map_iff. split; intros (l & A & B); exists l; auto.
        -- apply OK. rewrite CB. simpl. right. apply in_or_app. right. simpl. auto.
        -- intros x. unfold nacked, acked. simpl. split; intros [A|A]; auto.
  - (* delete_node *)
    destruct pc as [|[|[|pc]]]; simpl in H.
    + destruct (node_live s n) eqn:NL; crunch; [|lneutral].
      apply (LDel _ _ _ _ n); simpl; auto; unfold cr_ok; simpl; auto.
    + crunch. lneutral.
    + crunch. lneutral.
    + destruct pc; simpl in H; crunch; lneutral.
  - (* add_label *)
    destruct pc as [|pc]; simpl in H.
    + destruct (node_live s n) eqn:NL; [|crunch; lneutral].
      destruct (aget n (g_nlabels s)) as [ls|] eqn:G; [destruct (zmem lb ls) eqn:M|]; crunch; try lneutral;
        (apply (LAdd _ _ _ _ n lb);
         [ exact NL | reflexivity | (simpl; unfold labels_of; rewrite G; reflexivity) | reflexivity
         | apply pidx_load | reflexivity
         | (rewrite nacked_load; intros x Hx; unfold nacked, acked in *; simpl in *; solve [auto|tauto])
         | apply cr_ok_load ]).
    + destruct pc; simpl in H; crunch; lneutral.
  - (* remove_label *)
    destruct pc as [|pc]; simpl in H.
    + destruct (node_live s n) eqn:NL; simpl in H; [|crunch; lneutral].
      destruct (zmem lb (g_catalog s)); simpl in H; [|crunch; lneutral].
      destruct (aget n (g_nlabels s)) as [ls|] eqn:G; [destruct (zmem lb ls) eqn:M|]; crunch; try lneutral.
      apply (LRem _ _ _ _ n lb);
         [ exact NL | reflexivity | (simpl; unfold labels_of; rewrite G; reflexivity) | reflexivity
         | apply pidx_load | reflexivity
         | (rewrite nacked_load; intros x Hx; unfold nacked, acked in *; simpl in *; solve [auto|tauto])
         | apply cr_ok_load ].
    + destruct pc; simpl in H; crunch; lneutral.
  - (* create_edge *)
    destruct pc as [|[|[|[|[|pc]]]]]; simpl in H; crunch; try lneutral.
    destruct pc; simpl in H; crunch; lneutral.
  - (* delete_edge *)
    destruct pc as [|[|[|[|pc]]]]; simpl in H.
    + destruct (aget e (g_edges s)) as [[[a b] [|]]|]; crunch; lneutral.
    + destruct (has_list (r1 tl) (g_fwd s)); crunch; lneutral.
    + destruct (has_list (r2 tl) (g_bwd s)); crunch; lneutral.
    + crunch. lneutral.
    + destruct pc; simpl in H; crunch; lneutral.
Qed.

(** * facts about creators in flight *)
Lemma pidx_snd : forall th l n, In (l, n) (pidx th) ->
  exists ls pc, t_op th = Some (GCreateNode ls, S pc) /\ n = r0 (t_loc th).
Proof.
  intros th l n H. unfold pidx in H. destruct (t_op th) as [[[ls| | | | |] pc]|] eqn:T; try contradiction.
  destruct pc as [|pc]; [simpl in H; contradiction|]. exists ls, pc. split; auto.
  unfold idx_of in H. apply in_flat_map in H. destruct H as (k & _ & Hk). destruct k; simpl in Hk; try contradiction.
  destruct Hk as [Hk|[]]. inversion Hk. reflexivity.
Qed.

Lemma creator_fresh_node : forall lon loe c j t ls pc,
  ids_inv lon loe c ->
  (forall n, In n (ndom (sh c)) -> n < lon \/ In n (flat_map nacked (pool c))) ->
  nth_error (pool c) j = Some t -> t_op t = Some (GCreateNode ls, S pc) ->
  ~ In (r0 (t_loc t)) (ndom (sh c)).
Proof.
  intros lon loe c j t ls pc I D E T Hin.
  assert (INF : In (r0 (t_loc t)) (inflight is_cnode t)) by (unfold inflight; rewrite T; simpl; auto).
  assert (IDS : In (r0 (t_loc t)) (flat_map (ids_of is_cnode) (pool c))).
  { apply in_flat_map. exists t. split; [eapply nth_error_In; eauto|]. unfold ids_of. apply in_or_app. auto. }
  destruct (D _ Hin) as [H|H].
  - apply (ii_nb _ _ _ I) in IDS. lia.
  - apply in_flat_map in H. destruct H as (t' & Ht' & Hx). apply In_nth_error in Ht'. destruct Ht' as (j' & Ej').
    destruct (Nat.eq_dec j j') as [<-|Ne].
    + rewrite E in Ej'. inversion Ej'; subst t'.
      pose proof (ii_nd _ _ _ I) as ND.
      destruct (upd_nth_split _ j t t (pool c) E) as (l1 & l2 & E1 & _ & _). rewrite E1 in ND.
      rewrite flat_map_app in ND. apply nodup_app_iff in ND. destruct ND as (_ & ND & _). simpl in ND.
      apply nodup_app_iff in ND. destruct ND as (ND & _ & _). unfold ids_of in ND.
      apply nodup_app_iff in ND. destruct ND as (_ & _ & X). apply (X _ INF). exact Hx.
    + apply (nodup_flat_map_distinct _ (ids_of is_cnode) (pool c) j j' t t' (r0 (t_loc t)) (ii_nd _ _ _ I) E Ej' Ne);
        unfold ids_of; apply in_or_app; auto.
Qed.

Lemma creators_distinct : forall lon loe c i j t u ls pc ls' pc',
  ids_inv lon loe c -> nth_error (pool c) i = Some t -> nth_error (pool c) j = Some u -> i <> j ->
  t_op t = Some (GCreateNode ls, S pc) -> t_op u = Some (GCreateNode ls', S pc') -> r0 (t_loc t) <> r0 (t_loc u).
Proof.
  intros lon loe c i j t u ls pc ls' pc' I Ei Ej Ne Tt Tu Eq.
  apply (nodup_flat_map_distinct _ (ids_of is_cnode) (pool c) i j t u (r0 (t_loc t)) (ii_nd _ _ _ I) Ei Ej Ne);
    unfold ids_of, inflight; apply in_or_app; left.
  - rewrite Tt. simpl. auto.
  - rewrite Tu. simpl. auto.
Qed.

Lemma cr_ok_nl : forall g g' t, cr_ok g t ->
  (forall ls pc, t_op t = Some (GCreateNode ls, S pc) -> aget (r0 (t_loc t)) (g_nlabels g') = aget (r0 (t_loc t)) (g_nlabels g)) ->
  cr_ok g' t.
Proof.
  intros g g' t H K. unfold cr_ok in *. destruct (t_op t) as [[[ls| | | | |] pc]|] eqn:T; auto.
  destruct pc as [|pc]; [simpl; intros []|]. intros X. rewrite (K ls pc eq_refl). auto.
Qed.

Lemma live_cons : forall g g' r n, g_nodes g' = (r, false) :: g_nodes g ->
  node_live g' n = if r =? n then true else node_live g n.
Proof. intros. unfold node_live. rewrite H. simpl. destruct (r =? n); reflexivity. Qed.
Lemma live_mark : forall g g' n m, NoDup (ndom g) -> node_live g n = true -> g_nodes g' = mark_node n (g_nodes g) ->
  node_live g' m = if m =? n then false else node_live g m.
Proof.
  intros g g' n m ND L E. unfold node_live in *. rewrite E, mark_node_live by exact ND.
  destruct (m =? n) eqn:Q; auto. apply Z.eqb_eq in Q. subst. destruct (aget n (g_nodes g)) as [[|]|]; auto.
Qed.

(** * the invariant is preserved by every step of every thread *)
Lemma lbl_inv_step : forall lon loe c i, lbl_inv lon loe c -> lbl_inv lon loe (step gcode gexec c i).
Proof.
  intros lon loe c i I.
  destruct (nth_error (pool c) i) as [th|] eqn:E; [|rewrite step_none; auto].
  rewrite (step_unfold _ _ _ _ _ gcode gexec c i th E).
  destruct (step_thread gcode gexec (sh c) th) as [s' th'] eqn:ST. simpl.
  pose proof (ids_inv_step _ _ _ i (l_ids _ _ _ I)) as IDS.
  rewrite (step_unfold _ _ _ _ _ gcode gexec c i th E) in IDS. rewrite ST in IDS. simpl in IDS.
  pose proof (nth_error_In _ _ E) as Hin.
  pose proof (nth_error_lt _ _ _ _ E) as Hlt.
  pose proof (Forall_nth_error _ _ _ _ _ (l_th _ _ _ I) E) as OKth.
  pose proof (step_lshape _ _ _ _ OKth ST) as SH.
  destruct I as [Iids Ind Idom L1 L2 L3 Ith].
  set (g := sh c) in *. set (P := pool c) in *.
  (* nodes named by pending index entries are not in the node map *)
  assert (PF : forall l n, In (l, n) (flat_map pidx P) -> ~ In n (ndom g)).
  { intros l n H. apply in_flat_map in H. destruct H as (t & Ht & Hx).
    destruct (pidx_snd _ _ _ Hx) as (ls & pc & T & ->). apply In_nth_error in Ht. destruct Ht as (j & Ej).
    eapply creator_fresh_node; eauto. }
  assert (OLD : forall B (f : gthread -> list B) x, In x (f th) -> In x (flat_map f P)).
  { intros. apply in_flat_map. eauto. }
  (* other threads keep cr_ok when node_labels changes only at a key that is in the node map or is our own fresh id *)
  assert (OTH : forall g', (forall t j ls pc, nth_error P j = Some t -> j <> i -> t_op t = Some (GCreateNode ls, S pc) ->
                              aget (r0 (t_loc t)) (g_nlabels g') = aget (r0 (t_loc t)) (g_nlabels g)) ->
                cr_ok g' th' -> Forall (cr_ok g') (upd_nth i th' P)).
  { intros g' K OK'. apply Forall_forall. intros t Ht. apply In_nth_error in Ht. destruct Ht as (j & Ej).
    destruct (Nat.eq_dec j i) as [->|Ne].
    - rewrite nth_upd_same in Ej by auto. inversion Ej; subst. auto.
    - rewrite nth_upd_other in Ej by auto.
      eapply cr_ok_nl; [eapply Forall_nth_error; eauto|]. intros ls pc T. eapply K; eauto. }
  assert (NACK : (forall x, In x (nacked th) -> In x (nacked th')) ->
                 forall n, In n (ndom g) -> n < lon \/ In n (flat_map nacked (upd_nth i th' P))).
  { intros M n Hn. destruct (Idom n Hn) as [H|H]; auto. right. eapply fm_transfer; eauto. }
  destruct SH as [En El Ei Ep Ea OK' | lb ls pc T En El Ei Ep Ea OK' | ls pc T En El Ei Ep Ea OK'
                 | ls pc T En El Ei Ep Ech Eag Ea OK' | n NL En El Ei Ep Ep0 Ea OK'
                 | n lb NL En El Ei Ep Ep0 Ea OK' | n lb NL En El Ei Ep Ep0 Ea OK'].
  - (* neutral *)
    constructor; simpl; auto; unfold node_live, labels_of, ndom in *; rewrite ?En, ?El, ?Ei; auto.
    + intros l n H. destruct (L1 l n H) as [H1|H1]; auto. right. eapply fm_transfer; eauto. rewrite Ep. auto.
    + intros x H. apply fm_upd_in in H. destruct H as [H|H]; auto. rewrite Ep in H. apply L3. apply OLD. auto.
    + apply OTH; auto. intros. rewrite El. reflexivity.
  - (* a creator adds an index entry *)
    constructor; simpl; auto; unfold node_live, labels_of, ndom in *; rewrite ?En, ?El, ?Ei; auto.
    + apply NACK. rewrite Ea. auto.
    + intros l n H. apply padd_In in H. destruct H as [H|H].
      * inversion H; subst. right. apply fm_upd_new; auto. rewrite Ep. apply in_or_app. right. simpl. auto.
      * destruct (L1 l n H) as [H1|H1]; auto. right. eapply fm_transfer; eauto. rewrite Ep. intros. apply in_or_app. auto.
    + intros n l H1 H2. apply padd_In. right. apply L2; auto.
    + intros x H. apply padd_In. apply fm_upd_in in H. destruct H as [H|H].
      * rewrite Ep in H. apply in_app_or in H. destruct H as [H|[H|[]]]; [right; apply L3; apply OLD; auto|left; auto].
      * right. apply L3. auto.
    + apply OTH; auto. intros. rewrite El. reflexivity.
  - (* a creator stores the label set of its (not yet visible) node *)
    assert (FR : ~ In (r0 (t_loc th)) (ndom g)) by (eapply creator_fresh_node; eauto).
    assert (LB : forall n, node_live g n = true -> labels_of s' n = labels_of g n).
    { intros n Hn. unfold labels_of. rewrite El. rewrite aget_aset_other; auto.
      intros ->. apply FR. apply node_live_In. auto. }
    constructor; simpl; auto.
    + unfold ndom in *. rewrite En. auto.
    + unfold ndom in *. rewrite En. apply NACK. rewrite Ea. auto.
    + rewrite Ei. intros l n H. unfold node_live in *. rewrite En. fold (node_live g n).
      destruct (L1 l n H) as [[H1 H2]|H1].
      * left. split; auto. rewrite LB; auto.
      * right. eapply fm_transfer; eauto. rewrite Ep. auto.
    + rewrite Ei. intros n l H1 H2. unfold node_live in H1. rewrite En in H1. fold (node_live g n) in H1.
      rewrite LB in H2 by auto. apply L2; auto.
    + rewrite Ei. intros x H. apply fm_upd_in in H. destruct H as [H|H]; auto. rewrite Ep in H. apply L3. apply OLD. auto.
    + apply OTH; auto. intros t j ls' pc' Ej Ne T'. rewrite El. apply aget_aset_other.
      apply (creators_distinct lon loe c j i t th ls' pc' ls pc Iids Ej E Ne T' T).
  - (* a creator makes its node visible *)
    assert (FR : ~ In (r0 (t_loc th)) (ndom g)) by (eapply creator_fresh_node; eauto).
    assert (LV : forall n, node_live s' n = if r0 (t_loc th) =? n then true else node_live g n) by (intros; eapply live_cons; eauto).
    assert (LB : forall n, labels_of s' n = labels_of g n) by (intros; unfold labels_of; rewrite El; reflexivity).
    constructor; simpl; auto.
    + unfold ndom in *. rewrite En. simpl. constructor; auto.
    + unfold ndom in *. rewrite En. simpl. intros n [<-|Hn].
      * right. apply fm_upd_new; auto. apply Ea. auto.
      * destruct (Idom n Hn) as [H|H]; auto. right. eapply fm_transfer; eauto. intros. apply Ea. auto.
    + rewrite Ei. intros l n H. rewrite LV, LB.
      destruct (L1 l n H) as [[H1 H2]|H1].
      * left. split; auto. destruct (r0 (t_loc th) =? n); auto.
      * destruct (fm_upd_keep _ _ pidx i th' th P _ E H1) as [H2|H2]; auto.
        apply Ech in H2. destruct H2 as (l0 & Hl0 & X). inversion X; subst. left. rewrite Z.eqb_refl. split; auto.
        unfold labels_of. fold g. rewrite Eag. auto.
    + rewrite Ei. intros n l H1 H2. rewrite LV in H1. rewrite LB in H2.
      destruct (r0 (t_loc th) =? n) eqn:Q.
      * apply Z.eqb_eq in Q. subst n. apply L3. apply OLD. apply Ech. exists l. split; auto.
        unfold labels_of in H2. fold g in Eag. rewrite Eag in H2. auto.
      * apply L2; auto.
    + rewrite Ei. intros x H. apply fm_upd_in in H. destruct H as [H|H]; auto. rewrite Ep in H. destruct H.
    + apply OTH; auto. intros. rewrite El. reflexivity.
  - (* delete_node *)
    assert (INn : In n (ndom g)) by (apply node_live_In; auto).
    assert (LV : forall m, node_live s' m = if m =? n then false else node_live g m) by (intros; eapply live_mark; eauto).
    assert (LB : forall m, m <> n -> labels_of s' m = labels_of g m).
    { intros m Hm. unfold labels_of. rewrite El. rewrite aget_adel_other; auto. }
    constructor; simpl; auto.
    + unfold ndom in *. rewrite En, mark_node_dom. auto.
    + unfold ndom in *. rewrite En, mark_node_dom. apply NACK. auto.
    + rewrite Ei. intros l m H. apply fold_prem_In in H. simpl in H. destruct H as [H NR]. rewrite LV.
      destruct (L1 l m H) as [[H1 H2]|H1].
      * left. destruct (m =? n) eqn:Q; [apply Z.eqb_eq in Q; subst; tauto|].
        split; auto. rewrite LB; auto. apply Z.eqb_neq. auto.
      * right. eapply fm_transfer; eauto. rewrite Ep0. intros [].
    + rewrite Ei. intros m l H1 H2. rewrite LV in H1. destruct (m =? n) eqn:Q; [discriminate|]. apply Z.eqb_neq in Q.
      rewrite LB in H2 by auto. apply fold_prem_In. simpl. split; [apply L2; auto|]. tauto.
    + rewrite Ei. intros [l m] H. apply fm_upd_in in H. destruct H as [H|H]; [rewrite Ep in H; destruct H|].
      apply fold_prem_In. simpl. split; [apply L3; auto|]. intros [-> _]. apply (PF _ _ H). auto.
    + apply OTH; auto. intros t j ls pc Ej Ne T. rewrite El. apply aget_adel_other.
      intros Q. apply (creator_fresh_node _ _ c j t ls pc Iids Idom Ej T). fold g. rewrite Q. auto.
  - (* add_label *)
    assert (INn : In n (ndom g)) by (apply node_live_In; auto).
    assert (LB : forall m, labels_of s' m = if n =? m then lb :: labels_of g n else labels_of g m).
    { intros m. unfold labels_of. rewrite El. destruct (n =? m) eqn:Q.
      - apply Z.eqb_eq in Q. subst. rewrite aget_aset_same. reflexivity.
      - rewrite aget_aset_other; auto. apply Z.eqb_neq in Q. auto. }
    constructor; simpl; auto.
    + unfold ndom in *. rewrite En. auto.
    + unfold ndom in *. rewrite En. apply NACK. auto.
    + rewrite Ei. intros l m H. unfold node_live. rewrite En. fold (node_live g m). rewrite LB. apply padd_In in H.
      destruct H as [H|H].
      * inversion H; subst. left. rewrite Z.eqb_refl. split; simpl; auto.
      * destruct (L1 l m H) as [[H1 H2]|H1].
        -- left. split; auto. destruct (n =? m) eqn:Q; auto. apply Z.eqb_eq in Q. subst. simpl. auto.
        -- right. eapply fm_transfer; eauto. rewrite Ep0. intros [].
    + rewrite Ei. intros m l H1 H2. unfold node_live in H1. rewrite En in H1. fold (node_live g m) in H1. rewrite LB in H2.
      apply padd_In. destruct (n =? m) eqn:Q.
      * apply Z.eqb_eq in Q. subst. destruct H2 as [<-|H2]; auto.
      * right. apply L2; auto.
    + rewrite Ei. intros x H. apply padd_In. right. apply fm_upd_in in H. destruct H as [H|H]; [rewrite Ep in H; destruct H|]. apply L3. auto.
    + apply OTH; auto. intros t j ls pc Ej Ne T. rewrite El. apply aget_aset_other.
      intros Q. apply (creator_fresh_node _ _ c j t ls pc Iids Idom Ej T). fold g. rewrite Q. auto.
  - (* remove_label *)
    assert (INn : In n (ndom g)) by (apply node_live_In; auto).
    assert (LB : forall m, labels_of s' m = if n =? m then zrem lb (labels_of g n) else labels_of g m).
    { intros m. unfold labels_of. rewrite El. destruct (n =? m) eqn:Q.
      - apply Z.eqb_eq in Q. subst. rewrite aget_aset_same. reflexivity.
      - rewrite aget_aset_other; auto. apply Z.eqb_neq in Q. auto. }
    constructor; simpl; auto.
    + unfold ndom in *. rewrite En. auto.
    + unfold ndom in *. rewrite En. apply NACK. auto.
    + rewrite Ei. intros l m H. unfold node_live. rewrite En. fold (node_live g m). rewrite LB. apply prem_In in H.
      destruct H as [H NE]. destruct (L1 l m H) as [[H1 H2]|H1].
      * left. split; auto. destruct (n =? m) eqn:Q; auto. apply Z.eqb_eq in Q. subst. apply zrem_In. split; auto.
        intros ->. apply NE. reflexivity.
      * right. eapply fm_transfer; eauto. rewrite Ep0. intros [].
    + rewrite Ei. intros m l H1 H2. unfold node_live in H1. rewrite En in H1. fold (node_live g m) in H1. rewrite LB in H2.
      apply prem_In. destruct (n =? m) eqn:Q.
      * apply Z.eqb_eq in Q. subst. apply zrem_In in H2. destruct H2 as [H2 H3]. split; [apply L2; auto|].
        intros X. inversion X. tauto.
      * split; [apply L2; auto|]. intros X. inversion X; subst. rewrite Z.eqb_refl in Q. discriminate.
    + rewrite Ei. intros [l m] H. apply fm_upd_in in H. destruct H as [H|H]; [rewrite Ep in H; destruct H|].
      apply prem_In. split; [apply L3; auto|]. intros X. inversion X; subst. apply (PF _ _ H). auto.
    + apply OTH; auto. intros t j ls pc Ej Ne T. rewrite El. apply aget_aset_other.
      intros Q. apply (creator_fresh_node _ _ c j t ls pc Iids Idom Ej T). fold g. rewrite Q. auto.
Qed.

(** * the starting graph, the initial configuration, and the theorem *)
Record wf_lbl (g : lpg) : Prop := {
  wl_nd : NoDup (ndom g);
  wl_lt : forall n, In n (ndom g) -> n < g_next_node g;
  wl_idx : forall l n, In (l, n) (g_lindex g) <-> node_live g n = true /\ In l (labels_of g n)
}.

Lemma lbl_inv_init : forall g0 progs, wf_lbl g0 -> lbl_inv (g_next_node g0) (g_next_edge g0) (ginit g0 progs).
Proof.
  intros g0 progs [Wnd Wlt Widx].
  constructor; simpl; auto.
  - apply ids_inv_init.
  - intros l n H. left. apply Widx. auto.
  - intros n l H1 H2. apply Widx. auto.
  - intros x H. exfalso. apply in_flat_map in H. destruct H as (t & Ht & Hx).
    apply in_map_iff in Ht. destruct Ht as (p & <- & _). rewrite pidx_load in Hx. destruct Hx.
  - apply Forall_forall. intros th Hth. apply in_map_iff in Hth. destruct Hth as (p & <- & Hp). apply cr_ok_load.
Qed.

Lemma finished_no_pidx : forall (c : gcfg), finished c = true -> flat_map pidx (pool c) = [].
Proof.
  intros c F. unfold finished in F. rewrite forallb_forall in F.
  induction (pool c) as [|th t IH]; simpl; auto.
  assert (X : pidx th = []).
  { specialize (F th (or_introl eq_refl)). unfold idle in F. unfold pidx. destruct (t_op th); [discriminate|reflexivity]. }
  rewrite X. apply IH. intros x Hx. apply F. simpl. auto.
Qed.

Lemma label_index_consistent_l : forall g0 progs sched,
  wf_lbl g0 ->
  let c := grun sched (ginit g0 progs) in
  finished c = true ->
  (forall l n, In (l, n) (g_lindex (sh c)) <-> node_live (sh c) n = true /\ In l (labels_of (sh c) n)) /\ wf_lbl (sh c).
Proof.
  intros g0 progs sched W c F.
  assert (I : lbl_inv (g_next_node g0) (g_next_edge g0) c).
  { apply (run_inv _ _ _ _ _ gcode gexec (lbl_inv (g_next_node g0) (g_next_edge g0))).
    - intros. apply lbl_inv_step. auto.
    - apply lbl_inv_init; auto. }
  destruct I as [Iids Ind Idom L1 L2 L3 _].
  assert (A : forall l n, In (l, n) (g_lindex (sh c)) <-> node_live (sh c) n = true /\ In l (labels_of (sh c) n)).
  { intros l n. split.
    - intros H. destruct (L1 l n H) as [H1|H1]; auto. rewrite (finished_no_pidx c F) in H1. destruct H1.
    - intros [H1 H2]. apply L2; auto. }
  split; auto. constructor; auto.
  intros n Hn. destruct (Idom n Hn) as [H|H].
  - pose proof (ii_lo _ _ _ Iids). lia.
  - assert (X : In n (flat_map (ids_of is_cnode) (pool c))).
    { apply in_flat_map in H. destruct H as (t & Ht & Hx). apply in_flat_map. exists t. split; auto.
      unfold ids_of. apply in_or_app. right. exact Hx. }
    apply (ii_nb _ _ _ Iids) in X. lia.
Qed.

Lemma wf_lbl_lpg0 : wf_lbl lpg0.
Proof.
  constructor; simpl; [constructor|intros n []|]. intros l n. split; [intros []|]. intros [H _]. discriminate.
Qed.

From GV Require Import Conc.ProofsLock.
Lemma wf_lbl_three_nodes : wf_lbl g_three_nodes.
Proof.
  apply (label_index_consistent_l lpg0 [[GCreateNode [1]; GCreateNode [1; 2]; GCreateNode []; GCreateEdge 0 1; GCreateEdge 1 2]] (repeat 0%nat 40) wf_lbl_lpg0).
  vm_compute. reflexivity.
Qed.

Example nv_label_index :
  finished (grun (round_robin 3 12) (ginit g_three_nodes [[GAddLabel 0 2; GDeleteNode 1]; [GDeleteNode 0; GCreateNode [1; 3]]; [GRemoveLabel 0 1; GAddLabel 3 2]])) = true.
Proof. vm_compute. reflexivity. Qed.
