(** C20 — buffer manager: the repaired try_allocate never exceeds the hard limit, the accounting
    identity holds for every program (including resize and the pre-repair allocation), and the
    two load-then-add paths are refuted by explicit schedules. *)
From Coq Require Import ZArith List Bool Lia Permutation.
From GV Require Import Conc.Ops Conc.ProofsSem.
Import ListNotations.
Open Scope Z_scope.

Notation bthread := (@thread regs bop out).

(** * accounting: allocated = what the threads hold + what is in flight *)
Definition mem_sum (m : list (Z * Z)) : Z := fold_right (fun kv acc => snd kv + acc) 0 m.
Definition keys (m : list (Z * Z)) : list Z := map fst m.

(** bytes already added to (or removed from) the counter by the operation in progress but not
    yet reflected in the thread's grant *)
Definition corr (th : bthread) : Z :=
  match t_op th with
  | Some (BAlloc g s, 2%nat) => s
  | Some (BAllocPre g s, 3%nat) => s
  | Some (BResize g n, 2%nat) => n - slot_size (t_loc th) g
  | Some (BResize g n, 3%nat) => - (slot_size (t_loc th) g - n)
  | Some (BResizePre g n, 3%nat) => n - slot_size (t_loc th) g
  | Some (BResizePre g n, 4%nat) => - (slot_size (t_loc th) g - n)
  | Some (BRelease g, 1%nat) => - slot_size (t_loc th) g
  | _ => 0
  end.
Definition owed (th : bthread) : Z := mem_sum (mem (t_loc th)) + corr th.

Lemma adel_keys_notin : forall g (m : list (Z * Z)), ~ In g (keys (adel g m)).
Proof.
  unfold keys, adel. intros g m H. apply in_map_iff in H. destruct H as ((k, v) & E & Hin).
  apply filter_In in Hin. simpl in *. subst. destruct Hin as [_ Hn]. rewrite Z.eqb_refl in Hn. discriminate.
Qed.
Lemma adel_keys_nodup : forall g (m : list (Z * Z)), NoDup (keys m) -> NoDup (keys (adel g m)).
Proof.
  unfold keys, adel. induction m as [|[k v] t]; simpl; intros; auto.
  inversion H; subst. destruct (k =? g); simpl; auto. constructor; auto.
  intro Hi. apply H2. apply in_map_iff in Hi. destruct Hi as (x & E & Hx). apply filter_In in Hx.
  apply in_map_iff. exists x. tauto.
Qed.
Lemma aset_keys_nodup : forall g v (m : list (Z * Z)), NoDup (keys m) -> NoDup (keys (aset g v m)).
Proof.
  intros. unfold aset. simpl. constructor; [apply adel_keys_notin|apply adel_keys_nodup; auto].
Qed.
Lemma aget_notin : forall g (m : list (Z * Z)), ~ In g (keys m) -> aget g m = None.
Proof.
  induction m as [|[k v] t]; simpl; intros; auto.
  destruct (k =? g) eqn:E; [apply Z.eqb_eq in E; subst; tauto|]. apply IHt. tauto.
Qed.
Lemma adel_notin : forall g (m : list (Z * Z)), ~ In g (keys m) -> adel g m = m.
Proof.
  unfold adel. induction m as [|[k v] t]; simpl; intros; auto.
  destruct (k =? g) eqn:E; [apply Z.eqb_eq in E; subst; tauto|]. simpl. f_equal. apply IHt. tauto.
Qed.
Lemma mem_sum_adel : forall g (m : list (Z * Z)), NoDup (keys m) ->
  mem_sum (adel g m) = mem_sum m - match aget g m with Some s => s | None => 0 end.
Proof.
  induction m as [|[k v] t]; simpl; intros; auto.
  inversion H; subst. destruct (k =? g) eqn:E; simpl.
  - apply Z.eqb_eq in E. subst. fold (adel g t). rewrite adel_notin; auto. lia.
  - fold (adel g t). rewrite IHt; auto. lia.
Qed.
Lemma mem_sum_aset : forall g v (m : list (Z * Z)), NoDup (keys m) ->
  mem_sum (aset g v m) = mem_sum m - match aget g m with Some s => s | None => 0 end + v.
Proof. intros. unfold aset. simpl. rewrite mem_sum_adel; auto. lia. Qed.

Lemma corr_load : forall l todo o, corr (load l todo o) = 0.
Proof. intros. destruct todo as [|[]]; reflexivity. Qed.
Lemma b_loc_load : forall (l : regs) todo (o : list (bop * out)), t_loc (load l todo o) = l.
Proof. intros. destruct todo; reflexivity. Qed.

Ltac bcrunch :=
  repeat match goal with
  | H : (_, _) = (_, _) |- _ => inversion H; subst; clear H
  end.


Definition slot_free_ok (th : bthread) : Prop :=
  match t_op th with
  | Some (BAlloc g _, S _) | Some (BAllocPre g _, S _) => slot_size (t_loc th) g = 0
  | _ => True
  end.
Definition bth_ok (th : bthread) : Prop := NoDup (keys (mem (t_loc th))) /\ slot_free_ok th.

Lemma slot_free_load : forall l todo o, slot_free_ok (load l todo o).
Proof. intros. destruct todo as [|[]]; exact I. Qed.

Ltac bfin AD := unfold owed; rewrite ?corr_load, ?b_loc_load; repeat split;
               auto using aset_keys_nodup, adel_keys_nodup, slot_free_load;
               unfold corr, slot_free_ok in *; simpl in *; auto; try lia;
               try (rewrite ?AD; lia);
               try (apply adel_keys_nodup; auto);
               try (constructor; [apply adel_keys_notin | apply adel_keys_nodup; auto]).

Lemma bstep_account : forall s th s' th',
  bth_ok th ->
  step_thread bcode bexec s th = (s', th') ->
  b_alloc s' - b_alloc s = owed th' - owed th /\ bth_ok th' /\ b_hard s' = b_hard s.
Proof.
  intros s [top tl ttodo tout] s' th' [ND SF] H. unfold step_thread in H. unfold bth_ok. simpl in *.
  assert (AS : forall g v, mem_sum (aset g v (mem tl)) = mem_sum (mem tl) - slot_size tl g + v).
  { intros. rewrite mem_sum_aset; auto. }
  assert (AD : forall g, mem_sum (adel g (mem tl)) = mem_sum (mem tl) - slot_size tl g).
  { intros. rewrite mem_sum_adel; auto. }
  assert (SU : forall g, slot_used tl g = false -> slot_size tl g = 0).
  { unfold slot_used, slot_size. intros g. destruct (aget g (mem tl)); auto; discriminate. }
  assert (LD : forall l todo o, slot_free_ok (load l todo o)) by apply slot_free_load.
  destruct top as [[op pc]|]; [|bcrunch; bfin AD].
  destruct op as [g sz|g sz|g n|g n|g].
  - destruct pc as [|[|[|pc]]]; simpl in H.
    + destruct (slot_used tl g) eqn:U; [bcrunch; bfin AD|]. apply SU in U.
      destruct (b_alloc s + sz <=? b_hard s); bcrunch; bfin AD.
    + destruct (b_alloc s + sz <=? b_hard s); bcrunch; bfin AD.
    + bcrunch. bfin AD.
    + destruct pc; simpl in H; bcrunch; bfin AD.
  - destruct pc as [|[|[|[|pc]]]]; simpl in H.
    + destruct (slot_used tl g) eqn:U; [bcrunch; bfin AD|]. apply SU in U.
      destruct (b_alloc s + sz >? b_hard s); bcrunch; bfin AD.
    + destruct (b_alloc s + sz >? b_hard s); bcrunch; bfin AD.
    + bcrunch; bfin AD.
    + bcrunch. bfin AD.
    + destruct pc; simpl in H; bcrunch; bfin AD.
  - destruct pc as [|[|[|[|pc]]]]; simpl in H.
    + destruct (slot_used tl g); simpl in H; [|bcrunch; bfin AD].
      destruct (n >? slot_size tl g); [destruct (b_alloc s + (n - slot_size tl g) <=? b_hard s); bcrunch; bfin AD|].
      destruct (n <? slot_size tl g); bcrunch; bfin AD.
    + destruct (b_alloc s + (n - slot_size tl g) <=? b_hard s); bcrunch; bfin AD.
    + bcrunch. bfin AD.
    + bcrunch. bfin AD.
    + destruct pc; simpl in H; bcrunch; bfin AD.
  - destruct pc as [|[|[|[|[|pc]]]]]; simpl in H.
    + destruct (slot_used tl g); simpl in H; [|bcrunch; bfin AD].
      destruct (n >? slot_size tl g); [destruct (b_alloc s + (n - slot_size tl g) >? b_hard s); bcrunch; bfin AD|].
      destruct (n <? slot_size tl g); bcrunch; bfin AD.
    + destruct (b_alloc s + (n - slot_size tl g) >? b_hard s); bcrunch; bfin AD.
    + bcrunch; bfin AD.
    + bcrunch. bfin AD.
    + bcrunch. bfin AD.
    + destruct pc; simpl in H; bcrunch; bfin AD.
  - destruct pc as [|[|pc]]; simpl in H.
    + destruct (slot_used tl g); simpl in H; [|bcrunch; bfin AD].
      destruct (slot_size tl g =? 0) eqn:Z0; [apply Z.eqb_eq in Z0|]; bcrunch; bfin AD.
    + bcrunch. bfin AD.
    + destruct pc; simpl in H; bcrunch; bfin AD.
Qed.

(** * the accounting identity for every program and schedule *)
Record acc_inv (hard : Z) (c : bcfg) : Prop := {
  ai_sum : b_alloc (sh c) = zsum owed (pool c);
  ai_ok : Forall bth_ok (pool c);
  ai_hard : b_hard (sh c) = hard
}.

Lemma acc_inv_init : forall hard progs, acc_inv hard (binit hard progs).
Proof.
  intros. constructor; simpl; auto.
  - induction progs; simpl; auto. unfold owed at 1. rewrite corr_load, b_loc_load. simpl. lia.
  - induction progs; simpl; constructor; auto. split; [rewrite b_loc_load; constructor|apply slot_free_load].
Qed.

Lemma acc_inv_step : forall hard c i, acc_inv hard c -> acc_inv hard (step bcode bexec c i).
Proof.
  intros hard c i [Hs Hok Hh].
  destruct (nth_error (pool c) i) as [th|] eqn:E; [|rewrite step_none; auto; constructor; auto].
  rewrite (step_unfold _ _ _ _ _ bcode bexec c i th E).
  destruct (step_thread bcode bexec (sh c) th) as [s' th'] eqn:ST. simpl.
  destruct (bstep_account _ _ _ _ (Forall_nth_error _ _ _ _ _ Hok E) ST) as (Ha & Hb & Hc).
  constructor; simpl.
  - rewrite (zsum_upd _ owed _ _ _ _ E). lia.
  - apply Forall_upd_nth; auto.
  - congruence.
Qed.

Lemma buffer_accounting_l : forall hard progs sched,
  let c := brun sched (binit hard progs) in b_alloc (sh c) = zsum owed (pool c).
Proof.
  intros. apply (ai_sum hard).
  apply (run_inv _ _ _ _ _ bcode bexec (acc_inv hard)); [intros; apply acc_inv_step; auto|apply acc_inv_init].
Qed.

(** quiescent form: every thread finished and every grant released => the counter is 0 *)
Definition all_released (c : bcfg) : Prop := forall th, In th (pool c) -> mem (t_loc th) = [].
Lemma buffer_accounting_quiescent_l : forall hard progs sched,
  let c := brun sched (binit hard progs) in
  finished c = true -> all_released c -> b_alloc (sh c) = 0.
Proof.
  intros hard progs sched c F R. unfold c. rewrite buffer_accounting_l. fold c.
  apply zsum_zero. apply Forall_forall. intros th Hth.
  unfold finished in F. rewrite forallb_forall in F. specialize (F _ Hth).
  unfold owed, corr. rewrite (R _ Hth). unfold idle in F. destruct (t_op th); [discriminate|reflexivity].
Qed.

(** * the repaired try_allocate never exceeds the hard limit *)
Definition nonneg_mem (m : list (Z * Z)) : Prop := Forall (fun kv => 0 <= snd kv) m.
Definition thread_safe (th : bthread) : Prop :=
  match t_op th with Some (op, _) => safe_op op = true | None => True end /\
  Forall (fun op => safe_op op = true) (t_todo th) /\ nonneg_mem (mem (t_loc th)).

Lemma nonneg_adel : forall g m, nonneg_mem m -> nonneg_mem (adel g m).
Proof. unfold nonneg_mem, adel. intros. apply Forall_forall. intros x Hx. apply filter_In in Hx.
  rewrite Forall_forall in H. apply H. tauto. Qed.
Lemma nonneg_aset : forall g v m, 0 <= v -> nonneg_mem m -> nonneg_mem (aset g v m).
Proof. intros. unfold aset. constructor; auto. apply nonneg_adel. auto. Qed.
Lemma slot_size_nonneg : forall l g, nonneg_mem (mem l) -> 0 <= slot_size l g.
Proof.
  unfold slot_size, nonneg_mem. intros l g. induction (mem l) as [|[k v] t]; simpl; intros; [lia|].
  inversion H; subst. destruct (k =? g); auto.
Qed.
Lemma thread_safe_load : forall l todo o, Forall (fun op => safe_op op = true) todo -> nonneg_mem (mem l) ->
  thread_safe (load l todo o).
Proof.
  intros. destruct todo as [|op r]; unfold thread_safe; simpl; auto.
  inversion H; subst. auto.
Qed.

Lemma bstep_safe : forall s th s' th',
  thread_safe th -> b_alloc s <= b_hard s ->
  step_thread bcode bexec s th = (s', th') ->
  b_alloc s' <= b_hard s' /\ thread_safe th'.
Proof.
  intros s [top tl ttodo tout] s' th' (So & St & Sm) Hle H. unfold step_thread in H. simpl in *.
  pose proof (slot_size_nonneg tl) as SS.
  assert (LD : forall l o, nonneg_mem (mem l) -> thread_safe (load l ttodo o)) by (intros; apply thread_safe_load; auto).
  destruct top as [[op pc]|]; [|bcrunch; unfold thread_safe; simpl; auto].
  destruct op as [g sz|g sz|g n|g n|g]; simpl in So; try discriminate.
  - apply Z.leb_le in So.
    destruct pc as [|[|[|pc]]]; simpl in H.
    + destruct (slot_used tl g); [bcrunch; auto|].
      destruct (b_alloc s + sz <=? b_hard s) eqn:C; bcrunch; simpl; [apply Z.leb_le in C|];
        (split; [auto; lia|unfold thread_safe; simpl; auto using Z.leb_le]); repeat split; auto; apply Z.leb_le; auto.
    + destruct (b_alloc s + sz <=? b_hard s) eqn:C; bcrunch; simpl; auto.
      apply Z.leb_le in C. split; [lia|]. unfold thread_safe; simpl. repeat split; auto. apply Z.leb_le; auto.
    + bcrunch. simpl. split; auto. apply LD. simpl. apply nonneg_aset; auto.
    + destruct pc; simpl in H; bcrunch; simpl; (split; [auto|unfold thread_safe; simpl; repeat split; auto; apply Z.leb_le; auto]).
  - (* resize after the repair of C20-K3 *)
    apply Z.leb_le in So. specialize (SS g Sm).
    assert (TS : thread_safe (mkTh (Some (BResize g n, 1%nat)) tl ttodo tout) /\
                 thread_safe (mkTh (Some (BResize g n, 2%nat)) tl ttodo tout) /\
                 thread_safe (mkTh (Some (BResize g n, 3%nat)) tl ttodo tout)).
    { unfold thread_safe; simpl. repeat split; auto; apply Z.leb_le; auto. }
    destruct TS as (TS1 & TS2 & TS3).
    destruct pc as [|[|[|[|pc]]]]; simpl in H.
    + destruct (slot_used tl g); simpl in H; [|bcrunch; auto].
      destruct (n >? slot_size tl g) eqn:G.
      * destruct (b_alloc s + (n - slot_size tl g) <=? b_hard s) eqn:C; bcrunch; simpl; auto.
        apply Z.leb_le in C. split; [lia|auto].
      * destruct (n <? slot_size tl g) eqn:L; bcrunch; simpl; auto.
        apply Z.ltb_lt in L. split; [lia|auto].
    + destruct (b_alloc s + (n - slot_size tl g) <=? b_hard s) eqn:C; bcrunch; simpl; auto.
      apply Z.leb_le in C. split; [lia|auto].
    + bcrunch. simpl. split; auto. apply LD. simpl. apply nonneg_aset; auto.
    + bcrunch. simpl. split; auto. apply LD. simpl. apply nonneg_aset; auto.
    + destruct pc; simpl in H; bcrunch; simpl; (split; [auto|unfold thread_safe; simpl; repeat split; auto; apply Z.leb_le; auto]).
  - destruct pc as [|[|pc]]; simpl in H.
    + destruct (slot_used tl g); simpl in H; [|bcrunch; auto].
      destruct (slot_size tl g =? 0); bcrunch; simpl.
      * split; auto. apply LD. simpl. apply nonneg_adel. auto.
      * specialize (SS g Sm). split; [lia|]. unfold thread_safe; simpl; auto.
    + bcrunch. simpl. split; auto. apply LD. simpl. apply nonneg_adel. auto.
    + destruct pc; simpl in H; bcrunch; simpl; (split; [auto|unfold thread_safe; simpl; auto]).
Qed.

Record lim_inv (c : bcfg) : Prop := {
  li_le : b_alloc (sh c) <= b_hard (sh c);
  li_safe : Forall thread_safe (pool c)
}.

Lemma lim_inv_step : forall c i, lim_inv c -> lim_inv (step bcode bexec c i).
Proof.
  intros c i [Hle Hs].
  destruct (nth_error (pool c) i) as [th|] eqn:E; [|rewrite step_none; auto; constructor; auto].
  rewrite (step_unfold _ _ _ _ _ bcode bexec c i th E).
  destruct (step_thread bcode bexec (sh c) th) as [s' th'] eqn:ST. simpl.
  destruct (bstep_safe _ _ _ _ (Forall_nth_error _ _ _ _ _ Hs E) Hle ST) as (Ha & Hb).
  constructor; simpl; auto. apply Forall_upd_nth; auto.
Qed.

Lemma lim_inv_init : forall hard progs, 0 <= hard -> safe_progs progs = true -> lim_inv (binit hard progs).
Proof.
  intros hard progs Hh Hs. constructor; simpl; auto.
  unfold safe_progs in Hs. rewrite forallb_forall in Hs.
  apply Forall_forall. intros th Hth. apply in_map_iff in Hth. destruct Hth as (p & <- & Hp).
  apply thread_safe_load; [|constructor].
  specialize (Hs _ Hp). rewrite forallb_forall in Hs. apply Forall_forall. auto.
Qed.

Lemma owed_nonneg : forall th, bth_ok th -> thread_safe th -> 0 <= owed th.
Proof.
  intros [top tl ttodo tout] [ND SF] (So & _ & Sm). unfold owed, corr. simpl in *.
  assert (MS : forall m, nonneg_mem m -> 0 <= mem_sum m).
  { induction 1; simpl; lia. }
  assert (GE : forall g, slot_size tl g <= mem_sum (mem tl)).
  { intros g. unfold slot_size. revert Sm. generalize (mem tl). induction l as [|[k v] t]; simpl; intros.
    - lia.
    - inversion Sm; subst. simpl in *. specialize (MS _ H2). destruct (k =? g); [lia|]. specialize (IHt H2). lia. }
  specialize (MS _ Sm).
  destruct top as [[op pc]|]; [|lia].
  destruct op as [g sz|g sz|g n|g n|g]; simpl in So; try discriminate.
  - apply Z.leb_le in So. destruct pc as [|[|[|pc]]]; lia.
  - apply Z.leb_le in So. specialize (GE g). destruct pc as [|[|[|[|pc]]]]; lia.
  - specialize (GE g). destruct pc as [|[|pc]]; lia.
Qed.

Lemma buffer_never_over_limit_l : forall hard progs sched,
  0 <= hard -> safe_progs progs = true ->
  let c := brun sched (binit hard progs) in 0 <= b_alloc (sh c) <= hard.
Proof.
  intros hard progs sched Hh Hs c.
  assert (L : lim_inv c).
  { apply (run_inv _ _ _ _ _ bcode bexec lim_inv); [intros; apply lim_inv_step; auto|apply lim_inv_init; auto]. }
  assert (A : acc_inv hard c).
  { apply (run_inv _ _ _ _ _ bcode bexec (acc_inv hard)); [intros; apply acc_inv_step; auto|apply acc_inv_init]. }
  destruct L as [Hle Hsafe]. destruct A as [Hsum Hok Hhard].
  split; [|lia].
  rewrite Hsum. clear - Hsafe Hok.
  induction (pool c); simpl; [lia|].
  inversion Hsafe; subst. inversion Hok; subst.
  pose proof (owed_nonneg _ H3 H1). specialize (IHl H2 H4). lia.
Qed.

(** * refutations of the two load-then-add paths *)
Lemma buffer_over_limit_pre_refuted_l :
  exists hard progs sched, 0 <= hard /\ progs = [[BAllocPre 0 6]; [BAllocPre 1 6]] /\ sched = [0; 1; 0; 1]%nat /\
    b_alloc (sh (brun sched (binit hard progs))) > hard.
Proof. exists 10, [[BAllocPre 0 6]; [BAllocPre 1 6]], [0; 1; 0; 1]%nat. vm_compute. repeat split; congruence. Qed.

Lemma buffer_resize_over_limit_pre_refuted_l :
  exists hard progs sched, 0 <= hard /\ progs = [[BAlloc 0 1; BResizePre 0 6]; [BAlloc 1 1; BResizePre 1 6]] /\
    k_buf progs = true /\ b_alloc (sh (brun sched (binit hard progs))) > hard.
Proof.
  exists 10, [[BAlloc 0 1; BResizePre 0 6]; [BAlloc 1 1; BResizePre 1 6]], [0; 0; 1; 1; 0; 1; 0; 1]%nat.
  vm_compute. repeat split; congruence.
Qed.
