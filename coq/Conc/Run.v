(** C20 — comparison of implementation observations with the model (run by the check).

    Two kinds of terms are evaluated:
      * hook-free runs (real threads, OS scheduler): the observed outputs and final state must be
        one of the model's SEQUENTIAL outcomes (small programs outside the finding classes), must
        equal the state predicted from the returned ids (create-only programs, by
        [sequential_refinement]), and must pass the consistency predicates;
      * scheduler-driven runs (needs the yield-point hook): the model is run on the very same
        schedule and outputs and final state are compared exactly.
    The [k_*] predicates are the finding classes. *)
From Coq Require Import String ZArith List Bool.
From GV Require Export Conc.Ops.
Import ListNotations.
Open Scope Z_scope.

(** * generic: sequential orders *)
Section Seq.
  Variables (St K Op : Type).
  Variable code : Op -> list K.
  Variable exec : K -> St -> regs -> St * regs * ctl out.

  (** all sequences of thread ids in which thread i occurs [nth i counts] times *)
  Fixpoint dec_nth (i : nat) (l : list nat) : list nat :=
    match l, i with
    | [], _ => []
    | x :: t, O => pred x :: t
    | x :: t, S i' => x :: dec_nth i' t
    end.
  Fixpoint orders (fuel : nat) (counts : list nat) : list (list nat) :=
    match fuel with
    | O => [[]]
    | S f =>
        if forallb (Nat.eqb 0) counts then [[]]
        else flat_map (fun i => if Nat.eqb (nth i counts 0%nat) 0 then []
                                else map (cons i) (orders f (dec_nth i counts)))
                      (seq 0 (length counts))
    end.

  Record sstate := mkSS { ss_sh : St; ss_regs : list regs; ss_todo : list (list Op); ss_out : list (list (Op * out)) }.

  Definition seq_one (ss : sstate) (i : nat) : sstate :=
    match nth_error (ss_todo ss) i with
    | Some (op :: rest) =>
        let l := nth i (ss_regs ss) regs0 in
        match exec_op code exec (2 * length (code op) + 4) op 0 (ss_sh ss) l with
        | (s', l', o) =>
            mkSS s' (upd_nth i l' (ss_regs ss)) (upd_nth i rest (ss_todo ss))
                 (upd_nth i (nth i (ss_out ss) [] ++ [(op, match o with Some v => v | None => ONone end)]) (ss_out ss))
        end
    | _ => ss
    end.

  Definition seq_order (s0 : St) (progs : list (list Op)) (order : list nat) : sstate :=
    fold_left seq_one order (mkSS s0 (map (fun _ => regs0) progs) progs (map (fun _ => []) progs)).

  Definition seq_outcomes (s0 : St) (progs : list (list Op)) : list sstate :=
    map (seq_order s0 progs) (orders (fold_right plus 0%nat (map (@length Op) progs)) (map (@length Op) progs)).
End Seq.
Arguments ss_sh {St Op}.
Arguments ss_out {St Op}.
Arguments seq_order {St K Op}.
Arguments seq_outcomes {St K Op}.

(** * generic: the yield site at which every granted step ends *)
Section Events.
  Variables (St K Op : Type).
  Variable code : Op -> list K.
  Variable exec : K -> St -> regs -> St * regs * ctl out.
  Variable site : K -> option nat -> string.

  Definition step_event (c : @config St regs Op out) (i : nat) : string :=
    match nth_error (pool c) i with
    | None => "none"
    | Some th =>
        match t_op th with
        | None => "idle"
        | Some (op, pc) =>
            match nth_error (code op) pc with
            | None => "stuck"
            | Some k =>
                match exec k (sh c) (t_loc th) with
                | (_, _, Next) => site k None
                | (_, _, Goto pc') => site k (Some pc')
                | (_, _, Ret _) => "ret"
                end
            end
        end
    end%string.
  Fixpoint run_events (sched : list nat) (c : @config St regs Op out) : list string :=
    match sched with
    | [] => []
    | i :: t => step_event c i :: run_events t (step code exec c i)
    end.
End Events.
Arguments run_events {St K Op}.
Definition events_eqb (a b : list string) : bool :=
  Nat.eqb (length a) (length b) && forallb (fun p => String.eqb (fst p) (snd p)) (combine a b).

(** * list comparisons (sets) *)
Definition subl {A} (eqb : A -> A -> bool) (a b : list A) : bool := forallb (fun x => existsb (eqb x) b) a.
Definition seteq {A} (eqb : A -> A -> bool) (a b : list A) : bool := subl eqb a b && subl eqb b a.
Definition zset_eqb := seteq Z.eqb.
Definition t3_eqb (a b : Z * Z * Z) : bool :=
  (fst (fst a) =? fst (fst b)) && (snd (fst a) =? snd (fst b)) && (snd a =? snd b).
Definition zl_eqb (a b : list Z) : bool := (Nat.eqb (length a) (length b)) && forallb (fun p => fst p =? snd p) (combine a b).
Definition zls_eqb (a b : Z * list Z) : bool := (fst a =? fst b) && zset_eqb (snd a) (snd b).
Definition out_eqb (a b : out) : bool :=
  match a, b with
  | OZ x, OZ y => x =? y
  | OB x, OB y => Bool.eqb x y
  | ONone, ONone => true
  | _, _ => false
  end.
Fixpoint nodupb (l : list Z) : bool := match l with [] => true | x :: t => negb (zmem x t) && nodupb t end.
Fixpoint list_eqb {A} (eqb : A -> A -> bool) (a b : list A) : bool :=
  match a, b with
  | [], [] => true
  | x :: s, y :: t => eqb x y && list_eqb eqb s t
  | _, _ => false
  end.

(** * property graph *)
Record lpg_obs := mkLObs {
  o_live : list Z;                  (* ids for which get_node is Some *)
  o_labels : list (Z * list Z);     (* labels of every live node *)
  o_bylabel : list (Z * list Z);    (* nodes_by_label for every label of the universe *)
  o_edges : list (Z * Z * Z);       (* (edge, src, dst) for which get_edge is Some *)
  o_out : list (Z * Z * Z);         (* (src, dst, edge) from edges_from(src, Outgoing), every id below the counter *)
  o_in : list (Z * Z * Z);          (* (dst, src, edge) from edges_to(dst) *)
  o_next : Z * Z                    (* number of node / edge ids handed out (from the outputs and the setup) *)
}.

Definition observe (g : lpg) (labels : list Z) : lpg_obs :=
  mkLObs (live_nodes g)
         (map (fun n => (n, labels_of g n)) (live_nodes g))
         (map (fun lb => (lb, by_label g lb)) labels)
         (live_edges g)
         (adj_visible (g_fwd g) (g_fwd_del g))
         (adj_visible (g_bwd g) (g_bwd_del g))
         (g_next_node g, g_next_edge g).

Definition lobs_eqb (a b : lpg_obs) : bool :=
  zset_eqb (o_live a) (o_live b) && seteq zls_eqb (o_labels a) (o_labels b) &&
  seteq zls_eqb (o_bylabel a) (o_bylabel b) && seteq t3_eqb (o_edges a) (o_edges b) &&
  seteq t3_eqb (o_out a) (o_out b) && seteq t3_eqb (o_in a) (o_in b) &&
  (fst (o_next a) =? fst (o_next b)) && (snd (o_next a) =? snd (o_next b)).

(** the cross-checks of C14 on an observation: label index <-> node labels, adjacency <-> edge set *)
Definition lobs_consistent (o : lpg_obs) : bool :=
  forallb (fun e => forallb (fun n => zmem n (o_live o) &&
                                     match aget n (o_labels o) with Some ls => zmem (fst e) ls | None => false end) (snd e))
          (o_bylabel o) &&
  forallb (fun e => forallb (fun lb => match aget lb (o_bylabel o) with Some ns => zmem (fst e) ns | None => true end) (snd e))
          (o_labels o) &&
  seteq t3_eqb (o_out o) (map (fun x => (snd (fst x), snd x, fst (fst x))) (o_edges o)) &&
  seteq t3_eqb (o_in o) (map (fun x => (snd x, snd (fst x), fst (fst x))) (o_edges o)).

Definition gsetup (setup : list gop) : lpg := ss_sh (seq_order gcode gexec lpg0 [setup] (repeat 0%nat (length setup))).

Definition gop_eqb (a b : gop) : bool :=
  match a, b with
  | GCreateNode x, GCreateNode y => zl_eqb x y
  | GDeleteNode x, GDeleteNode y => x =? y
  | GAddLabel x l, GAddLabel y m | GRemoveLabel x l, GRemoveLabel y m => (x =? y) && (l =? m)
  | GCreateEdge s d, GCreateEdge t e => (s =? t) && (d =? e)
  | GDeleteEdge x, GDeleteEdge y => x =? y
  | _, _ => false
  end.
Definition outs_eqb {Op} (opeqb : Op -> Op -> bool) (a b : list (list (Op * out))) : bool :=
  list_eqb (list_eqb (fun x y => opeqb (fst x) (fst y) && out_eqb (snd x) (snd y))) a b.

(** hook-free, small program: the observation is one of the sequential outcomes *)
Definition chk_lpg_seq (setup : list gop) (progs : list (list gop)) (labels : list Z)
                       (outs : list (list (gop * out))) (o : lpg_obs) : bool :=
  existsb (fun ss => outs_eqb gop_eqb (ss_out ss) outs && lobs_eqb (observe (ss_sh ss) labels) o)
          (seq_outcomes gcode gexec (gsetup setup) progs).

(** hook-free, create-only program of any size: by [sequential_refinement] the final state is the
    one obtained by applying every acknowledged creation with the id it returned *)
Definition apply_created (g : lpg) (x : gop * out) : lpg :=
  match x with
  | (GCreateNode ls, OZ id) =>
      with_nodes (with_labels (with_catalog g (fold_left (fun c lb => zadd lb c) ls (g_catalog g)))
                              (aset id ls (g_nlabels g)) (fold_left (fun li lb => padd (lb, id) li) ls (g_lindex g)))
                 (Z.max (g_next_node g) (id + 1)) ((id, false) :: g_nodes g)
  | (GCreateEdge s d, OZ id) =>
      with_bwd (with_fwd (with_edges g (Z.max (g_next_edge g) (id + 1)) ((id, (s, d, false)) :: g_edges g))
                         ((s, d, id) :: g_fwd g) (g_fwd_del g))
               ((d, s, id) :: g_bwd g) (g_bwd_del g)
  | _ => g
  end.
Definition is_create_op (op : gop) : bool := match op with GCreateNode _ | GCreateEdge _ _ => true | _ => false end.
Definition ids_of_outs (sel : gop -> bool) (outs : list (list (gop * out))) : list Z :=
  flat_map (fun x => match x with (op, OZ z) => if sel op then [z] else [] | _ => [] end) (concat outs).
Definition chk_lpg_created (setup : list gop) (labels : list Z) (outs : list (list (gop * out))) (o : lpg_obs) : bool :=
  let g0 := gsetup setup in
  let nn := ids_of_outs (fun op => match op with GCreateNode _ => true | _ => false end) outs in
  let ee := ids_of_outs (fun op => match op with GCreateEdge _ _ => true | _ => false end) outs in
  forallb (fun x => is_create_op (fst x)) (concat outs) &&
  nodupb nn && nodupb ee &&
  forallb (fun n => (g_next_node g0 <=? n) && (n <? g_next_node g0 + Z.of_nat (length nn))) nn &&
  forallb (fun e => (g_next_edge g0 <=? e) && (e <? g_next_edge g0 + Z.of_nat (length ee))) ee &&
  lobs_eqb (observe (fold_left apply_created (concat outs) g0) labels) o.

(** scheduler-driven: same schedule through the model *)
Definition chk_lpg_sched (setup : list gop) (progs : list (list gop)) (sched : list nat) (labels : list Z)
                         (events : list string) (outs : list (list (gop * out))) (o : lpg_obs) : bool :=
  let c0 := ginit (gsetup setup) progs in
  let c := grun sched c0 in
  finished c && events_eqb (run_events gcode gexec gsite sched c0) events &&
  outs_eqb gop_eqb (outputs c) outs && lobs_eqb (observe (sh c) labels) o.
(** the property on an observation: cross-checks, unique ids, and outputs + final state equal to
    those of SOME sequential order of the operations *)
Definition orc_lpg (setup : list gop) (progs : list (list gop)) (labels : list Z)
                   (outs : list (list (gop * out))) (o : lpg_obs) : bool :=
  lobs_consistent o &&
  nodupb (ids_of_outs (fun op => match op with GCreateNode _ => true | _ => false end) outs) &&
  nodupb (ids_of_outs (fun op => match op with GCreateEdge _ _ => true | _ => false end) outs) &&
  chk_lpg_seq setup progs labels outs o.
Definition show_lpg_sched (setup : list gop) (progs : list (list gop)) (sched : list nat) (labels : list Z) :=
  let c0 := ginit (gsetup setup) progs in
  let c := grun sched c0 in
  (finished c, run_events gcode gexec gsite sched c0, outputs c, observe (sh c) labels).

(** * triple store *)
Record rdf_obs := mkQObs { qo_prim : list Z; qo_s : list Z; qo_p : list Z; qo_o : list Z }.
(* qo_s: the triples returned by triples_with_subject, every copy listed (so duplicates show) *)
Definition zbag_eqb (a b : list Z) : bool :=
  forallb (fun x => Nat.eqb (zcount x a) (zcount x b)) (a ++ b).
Definition qobs_eqb (q : rdf) (o : rdf_obs) : bool :=
  zbag_eqb (q_prim q) (qo_prim o) && zbag_eqb (q_s q) (qo_s o) && zbag_eqb (q_p q) (qo_p o) && zbag_eqb (q_o q) (qo_o o).
Definition qobs_consistent (universe : list Z) (o : rdf_obs) : bool :=
  forallb (rdf_consistent_at (mkRdf (qo_prim o) (qo_s o) (qo_p o) (qo_o o))) universe.
Definition qop_eqb (a b : qop) : bool :=
  match a, b with QInsert x, QInsert y | QRemove x, QRemove y => x =? y | _, _ => false end.
Definition chk_rdf_seq (init : list Z) (progs : list (list qop)) (outs : list (list (qop * out))) (o : rdf_obs) : bool :=
  existsb (fun ss => outs_eqb qop_eqb (ss_out ss) outs && qobs_eqb (ss_sh ss) o)
          (seq_outcomes qcode qexec (rdf_of init) progs).
Definition chk_rdf_sched (init : list Z) (progs : list (list qop)) (sched : list nat)
                         (events : list string) (outs : list (list (qop * out))) (o : rdf_obs) : bool :=
  let c0 := qinit (rdf_of init) progs in
  let c := qrun sched c0 in
  finished c && events_eqb (run_events qcode qexec qsite sched c0) events &&
  outs_eqb qop_eqb (outputs c) outs && qobs_eqb (sh c) o.
Definition orc_rdf (universe init : list Z) (progs : list (list qop)) (outs : list (list (qop * out))) (o : rdf_obs) : bool :=
  qobs_consistent universe o && chk_rdf_seq init progs outs o.
Definition show_rdf_sched (init : list Z) (progs : list (list qop)) (sched : list nat) :=
  let c0 := qinit (rdf_of init) progs in
  let c := qrun sched c0 in (finished c, run_events qcode qexec qsite sched c0, outputs c, sh c).

(** * transaction manager *)
Definition mop_eqb (a b : mop) : bool :=
  match a, b with MBegin x, MBegin y | MCommitOp x, MCommitOp y | MAbortOp x, MAbortOp y => x =? y | _, _ => false end.
Definition epochs_of (o : list (mop * out)) : list Z :=
  flat_map (fun x => match x with (MCommitOp _, OZ z) => [z] | _ => [] end) o.
Definition txids_of (o : list (mop * out)) : list Z :=
  flat_map (fun x => match x with (MBegin _, OZ z) => [z] | _ => [] end) o.
Fixpoint increasing (l : list Z) : bool :=
  match l with x :: ((y :: _) as t) => (x <? y) && increasing t | _ => true end.
(** the statement of [commit_epochs_unique_increasing] / [tx_ids_unique] on an observation:
    outputs per thread in program order, final epoch, final next_tx_id *)
Definition chk_tm_props (outs : list (list (mop * out))) (epoch next : Z) : bool :=
  let es := flat_map epochs_of outs in
  let ts := flat_map txids_of outs in
  nodupb es && forallb (fun o => increasing (epochs_of o)) outs &&
  forallb (fun e => (1 <=? e) && (e <=? epoch)) es && (Z.of_nat (length es) =? epoch) &&
  nodupb ts && forallb (fun t => (2 <=? t) && (t <? next)) ts && (Z.of_nat (length ts) + 2 =? next).
Definition chk_tm_seq (progs : list (list mop)) (outs : list (list (mop * out))) (epoch next : Z) : bool :=
  existsb (fun ss => outs_eqb mop_eqb (ss_out ss) outs && (m_epoch (ss_sh ss) =? epoch) && (m_next (ss_sh ss) =? next))
          (seq_outcomes mcode mexec tm0 progs).
Definition chk_tm_sched (progs : list (list mop)) (sched : list nat) (events : list string)
                        (outs : list (list (mop * out))) (epoch next : Z) : bool :=
  let c0 := minit progs in
  let c := mrun sched c0 in
  finished c && events_eqb (run_events mcode mexec msite sched c0) events &&
  outs_eqb mop_eqb (outputs c) outs && (m_epoch (sh c) =? epoch) && (m_next (sh c) =? next).
Definition orc_tm (progs : list (list mop)) (outs : list (list (mop * out))) (epoch next : Z) : bool :=
  chk_tm_props outs epoch next && chk_tm_seq progs outs epoch next.
Definition show_tm_sched (progs : list (list mop)) (sched : list nat) :=
  let c0 := minit progs in
  let c := mrun sched c0 in (finished c, run_events mcode mexec msite sched c0, outputs c, m_epoch (sh c), m_next (sh c)).

(** * buffer manager *)
Definition bop_eqb (a b : bop) : bool :=
  match a, b with
  | BAlloc g s, BAlloc h t | BAllocPre g s, BAllocPre h t | BResize g s, BResize h t | BResizePre g s, BResizePre h t => (g =? h) && (s =? t)
  | BRelease g, BRelease h => g =? h
  | _, _ => false
  end.
(** grants a thread still holds at the end, computed from its acknowledged operations *)
Definition held_after (o : list (bop * out)) : list (Z * Z) :=
  fold_left (fun m x => match x with
                        | (BAlloc g s, OB true) | (BAllocPre g s, OB true) | (BResize g s, OB true) | (BResizePre g s, OB true) => aset g s m
                        | (BRelease g, OB true) => adel g m
                        | _ => m
                        end) o [].
Definition sum_snd (m : list (Z * Z)) : Z := fold_right (fun kv a => snd kv + a) 0 m.
Definition region_sum (rg : nat) (m : list (Z * Z)) : Z :=
  fold_right (fun kv a => (if Nat.eqb (region_of (fst kv)) rg then snd kv else 0) + a) 0 m.
(** statement of [buffer_never_over_limit] / [buffer_accounting] on an observation: the largest value
    of [allocated()] sampled during the run, the final counter and the final region counters *)
Definition chk_buf_props (hard : Z) (progs : list (list bop)) (outs : list (list (bop * out)))
                         (maxseen final : Z) (regions : list Z) : bool :=
  let held := flat_map held_after outs in
  (k_buf progs || ((0 <=? maxseen) && (maxseen <=? hard))) &&
  (final =? sum_snd held) &&
  list_eqb Z.eqb regions (map (fun rg => region_sum rg held) [0; 1; 2; 3]%nat).
Definition chk_buf_seq (hard : Z) (progs : list (list bop)) (outs : list (list (bop * out))) (final : Z) (regions : list Z) : bool :=
  existsb (fun ss => outs_eqb bop_eqb (ss_out ss) outs && (b_alloc (ss_sh ss) =? final) && list_eqb Z.eqb (b_regs (ss_sh ss)) regions)
          (seq_outcomes bcode bexec (buf0 hard) progs).
(** scheduler-driven; [trace] = value of allocated() after every step of the schedule *)
Fixpoint brun_trace (sched : list nat) (c : bcfg) : list Z :=
  match sched with
  | [] => []
  | i :: t => let c' := step bcode bexec c i in b_alloc (sh c') :: brun_trace t c'
  end.
Definition chk_buf_sched (hard : Z) (progs : list (list bop)) (sched : list nat) (events : list string)
                         (outs : list (list (bop * out))) (trace : list Z) (regions : list Z) : bool :=
  let c0 := binit hard progs in
  let c := brun sched c0 in
  finished c && events_eqb (run_events bcode bexec bsite sched c0) events &&
  outs_eqb bop_eqb (outputs c) outs && list_eqb Z.eqb (brun_trace sched c0) trace &&
  list_eqb Z.eqb (b_regs (sh c)) regions.
(** the property on an observation: the counter never left [0, hard] at any point of the run, the final
    counters equal what the threads still hold, and outputs + final counters are those of some
    sequential order *)
Definition orc_buf (hard : Z) (progs : list (list bop)) (outs : list (list (bop * out)))
                   (trace : list Z) (regions : list Z) : bool :=
  forallb (fun a => (0 <=? a) && (a <=? hard)) trace &&
  let held := flat_map held_after outs in
  (last trace 0 =? sum_snd held) &&
  list_eqb Z.eqb regions (map (fun rg => region_sum rg held) [0; 1; 2; 3]%nat) &&
  chk_buf_seq hard progs outs (last trace 0) regions.
Definition show_buf_sched (hard : Z) (progs : list (list bop)) (sched : list nat) :=
  let c0 := binit hard progs in
  let c := brun sched c0 in
  (finished c, run_events bcode bexec bsite sched c0, outputs c, brun_trace sched c0, b_regs (sh c)).

(** * write-ahead log *)
Fixpoint is_subseq (a l : list Z) : bool :=
  match a, l with
  | [], _ => true
  | _ :: _, [] => false
  | x :: a', y :: l' => if x =? y then is_subseq a' l' else is_subseq a l'
  end.
(** [log] = the records read back from the files, oldest first *)
Definition chk_wal (progs : list (list wop)) (log : list Z) : bool :=
  Nat.eqb (length log) (length (concat progs)) &&
  forallb (fun p => is_subseq (map (fun op => match op with WLog r => r end) p) log) progs.
Definition chk_wal_sched (progs : list (list wop)) (sched : list nat) (events : list string) (log : list Z) : bool :=
  let c0 := winit progs in
  let c := wrun sched c0 in
  finished c && events_eqb (run_events wcode wexec wsite sched c0) events && list_eqb Z.eqb (rev (w_log (sh c))) log.
Definition show_wal_sched (progs : list (list wop)) (sched : list nat) :=
  let c0 := winit progs in
  let c := wrun sched c0 in (finished c, run_events wcode wexec wsite sched c0, rev (w_log (sh c))).

(** * write-ahead log with rotation after every record *)
Definition chk_walr_sched (progs : list (list rop)) (sched : list nat) (events : list string) (log : list Z) : bool :=
  let c0 := rinit progs in
  let c := rrun sched c0 in
  finished c && events_eqb (run_events rcode rexec rsite sched c0) events && list_eqb Z.eqb (recovered (sh c)) log.
Definition show_walr_sched (progs : list (list rop)) (sched : list nat) :=
  let c0 := rinit progs in
  let c := rrun sched c0 in (finished c, run_events rcode rexec rsite sched c0, recovered (sh c)).
(** the property on an observation: every record present once, per-thread order preserved *)
Definition walr_ok (progs : list (list rop)) (log : list Z) : bool :=
  Nat.eqb (length log) (length (concat progs)) &&
  forallb (fun p => is_subseq (map (fun op => match op with RLog r => r end) p) log) progs.

(** * property index *)
Record prop_obs := mkPObs { po_vals : list (Z * Z); po_idx : list (Z * Z) }.  (* node -> value ; (value, node) found by lookup *)
Definition pobs_consistent (o : prop_obs) : bool := pidx_consistent (mkP (po_vals o) (po_idx o)).
Definition pp_eqb (a b : Z * Z) : bool := (fst a =? fst b) && (snd a =? snd b).
Definition pobs_eqb (p : pst) (o : prop_obs) : bool :=
  seteq pp_eqb (p_props p) (po_vals o) && seteq pp_eqb (p_idx p) (po_idx o).
Definition pop_eqb (a b : pop) : bool := match a, b with PSetProp n v, PSetProp m w => (n =? m) && (v =? w) end.
Definition chk_prop_seq (progs : list (list pop)) (o : prop_obs) : bool :=
  existsb (fun ss => pobs_eqb (ss_sh ss) o) (seq_outcomes pcode pexec pst0 progs).
Definition chk_prop_sched (progs : list (list pop)) (sched : list nat) (events : list string) (o : prop_obs) : bool :=
  let c0 := pinit progs in
  let c := prun sched c0 in
  finished c && events_eqb (run_events pcode pexec psite sched c0) events && pobs_eqb (sh c) o.
Definition orc_prop (progs : list (list pop)) (o : prop_obs) : bool := pobs_consistent o && chk_prop_seq progs o.
Definition show_prop_sched (progs : list (list pop)) (sched : list nat) :=
  let c0 := pinit progs in
  let c := prun sched c0 in (finished c, run_events pcode pexec psite sched c0, sh c).

(** * finding classes (re-exported for the harness) *)
Definition k_prop_torn := k_prop.
Definition k_wal_rot := k_wal_rotation.
Definition k_rdf_torn := k_rdf.
Definition k_label_torn := k_label.
Definition k_deadlock := k_label_deadlock.
(** class of C20-K8: some thread addresses a node id that the starting graph does not contain
    ([lon] = number of its node ids) while a DIFFERENT thread creates nodes — i.e. it guesses the
    id of a node whose creation is still in flight (the id is handed out by a fetch_add long
    before the node is inserted) *)
Definition k_id_guess (lon : Z) (progs : list (list gop)) : bool :=
  let n := length progs in
  existsb (fun i => existsb (fun j => negb (Nat.eqb i j) &&
     existsb (fun op => match op with GDeleteNode x | GAddLabel x _ | GRemoveLabel x _ => lon <=? x | _ => false end) (nth i progs []) &&
     existsb (fun op => match op with GCreateNode _ => true | _ => false end) (nth j progs [])) (seq 0 n)) (seq 0 n).
Definition k_buf_resize_pre (progs : list (list bop)) : bool :=
  existsb (existsb (fun op => match op with BResizePre _ _ => true | _ => false end)) progs.
Definition k_buf_pre (progs : list (list bop)) : bool :=
  existsb (existsb (fun op => match op with BAllocPre _ _ => true | _ => false end)) progs.
